/-
  C17 (readable JSON file, ANY content — ill-formed included), the cases that
  DDProps/C17Load.lean left open:

  * `C17_load_json_order_any` — `_copy.load_json(file, bdd, load_order=True)`, ANY content, into
    ANY manager as between two calls (dynamic reordering enabled or not), EVERY outcome
    (`JsonOrderLeaves`):
      - never the internal reordering signal;
      - `Inv`, `OrderOK`, the context flag cleared, no schedule left;
      - EXACT counts for the caller's ledger, plus one reference per returned `Function` when the
        call returns;
      - the caller's names stay declared, `bdd.roots` is untouched, every reference the caller
        holds is still a node and denotes the same function of the variable NAMES (`LeftN`; the
        levels move: `reorder(order)` runs when the line `level_of_var` is read, i.e. at the
        BEGINNING, whether or not the load fails later — `sorted`);
      - THE SWITCH: `old = bdd.configure(reordering=False)` first; a successful load ends with
        `bdd.configure(reordering=old)` where `old` is the dict that `configure` returned
        (truthy): dynamic reordering is then ENABLED whatever it was; a load that raises never
        reaches that line: dynamic reordering is then OFF whatever it was.  The model mirrors the
        code; the statement says what happens (`switch`).
    Hypothesis: the table `level_of_var` has distinct names (it is a JSON object / Python `dict`;
    the model keeps its items as a list).  No hypothesis on the node lines or the roots.
  * `C17_load_json_rejected_dyn` — `load_order=False` into a manager with dynamic reordering
    ENABLED (any threshold), ANY content, EVERY outcome (`JsonLeavesDyn`): a sifting may run inside
    `bdd.var` / `bdd.ite` of `_make_node` before the failure; never the internal signal; the state
    is `DynInv` for the caller's ledger (plus the returned roots); reordering is enabled iff it
    was; names, `bdd.roots`, held references by name (`DynLeft`).  The `except` loop releases the
    shelf's references by node NUMBER: numbers are stable under `swap`.
  * `C17_load_json_rejected_start` — `load_order=False`, ANY content, from EVERY between-calls
    state (`LoadStart`: reordering enabled or not, ANY number of variables — also fewer than two,
    where a request that fires ends in the `ValueError` of sifting, the loader fails and
    releases, and dynamic reordering is left switched OFF by the decorator): `JsonLeavesStart`.
  * `C17_load_json_noSignal` — the loader never lets the internal signal escape, either mode.

  The three defects found while proving these (all repaired in the code, mirrored by the model):
  F18 (a node line with the terminal's id was accepted and leaked a reference), F19 (the
  assertions on the counts ran in the release loop outside the `try:`: the rest of the shelf
  leaked when one fired), F20 (`load_order=True` stored an ill-ordered node with the raw
  `find_or_add`).  The witnesses are below.
-/
import DDProofs.LoadJson2Order
import DDProofs.LoadJson2Dyn
import DDProps.C12Dyn
import DDProofs.LoadJson2Few
import DDProofs.UsedExample
import DDProps.C17Load
open Std
namespace DD

/-- C17: `load_json(file, bdd, load_order=True)` on ANY content, EVERY outcome -/
theorem C17_load_json_order_any (f : JsonFile) (hnd : (f.levelOfVar.map (·.1)).Nodup) (m : Mgr)
    (e : Nat → Nat) (h : LoadStart e m) : JsonOrderLeaves f e m (loadJson f true m) :=
  loadJson_true_any f hnd m e h

/-- the same from the state the C09 / C17 theorems about the decorator use (`DynInv`: dynamic
reordering enabled or not) -/
theorem C17_load_json_order_any_dyn (f : JsonFile) (hnd : (f.levelOfVar.map (·.1)).Nodup) (m : Mgr)
    (e : Nat → Nat) (h : DynInv e m) : JsonOrderLeaves f e m (loadJson f true m) :=
  loadJson_true_any f hnd m e h.loadStart

/-- … and from a between-calls state with reordering off (`GoodState`), default schedule, the
registered roots held -/
theorem C17_load_json_order_any_off (f : JsonFile) (hnd : (f.levelOfVar.map (·.1)).Nodup) (m : Mgr)
    (e : Nat → Nat) (h : GoodState m e) (hs : m.sched = []) (hr : ∀ r ∈ m.roots, 0 < e r.natAbs) :
    JsonOrderLeaves f e m (loadJson f true m) :=
  loadJson_true_any f hnd m e ⟨h.inv, h.order, h.exact, h.ctx, hs, hr⟩

/-- C17: what `JsonOrderLeaves` gives the user of a load that RAISED: the invariant, the order a
bijection, the counts exact for the SAME ledger, every held reference a node with the same
function of the variable names, dynamic reordering OFF -/
theorem C17_load_json_order_rejected_means (f : JsonFile) (e : Nat → Nat) (m m' : Mgr) (er : Err)
    (h : JsonOrderLeaves f e m (.error er, m')) (u : Int) (hu : HeldX e u) :
    er ≠ .needsReordering ∧ Inv m' ∧ OrderOK m'.tbl ∧ RefExact m' e ∧ m'.lastLen = none ∧
    m'.ctx = false ∧ m'.roots = m.roots ∧ m'.tbl.Mem u ∧ (∀ σ, denN m'.tbl u σ = denN m.tbl u σ) :=
  ⟨fun he => h.noSignal (by rw [he]), h.inv, h.order, h.counts, h.switch, h.ctx, h.left.roots,
    (h.left.held u hu).1, (h.left.held u hu).2⟩

/-- C17: `load_json(file, bdd, load_order=False)` on ANY content into a manager with dynamic
reordering possibly ENABLED, EVERY outcome -/
theorem C17_load_json_rejected_dyn (f : JsonFile) (m : Mgr) (e : Nat → Nat) (hD : DynInv e m) :
    JsonLeavesDyn e m (loadJson f false m) :=
  loadJson_false_any_dyn f m e hD

/-- C17: what `JsonLeavesDyn` gives the user of a load that RAISED -/
theorem C17_load_json_rejected_dyn_means (e : Nat → Nat) (m m' : Mgr) (er : Err)
    (h : JsonLeavesDyn e m (.error er, m')) (hr : RefExact m e) (u : Int) (hu : HeldX e u) :
    er ≠ .needsReordering ∧ DynInv e m' ∧ m'.lastLen.isSome = m.lastLen.isSome ∧
    m'.roots = m.roots ∧ m'.tbl.Mem u ∧ (∀ σ, denN m'.tbl u σ = denN m.tbl u σ) :=
  have hm : m.tbl.Mem u := hu.mem hr
  ⟨fun he => h.noSignal (by rw [he]), h.state, h.left.enabled, h.left.roots,
    (h.left.held u hu hm).1, (h.left.held u hu hm).2⟩

/-- C17: `load_json(file, bdd, load_order=False)` on ANY content from EVERY state as between two
calls: dynamic reordering enabled or not, ANY number of declared variables (`JsonLeavesStart`).
With at least two variables once the line `level_of_var` is read this is
`C17_load_json_rejected_dyn` (the switch is what it was).  With FEWER than two and reordering
enabled, a request that fires inside `bdd.var` / `bdd.ite` makes `reorder(bdd)` raise (`ValueError`:
sifting needs two variables); the decorator lets it through with `_last_len = None`; `_make_node`
fails and the `except` clause releases the shelf: the state is good for the caller's ledger, every
held reference keeps its function, dynamic reordering is OFF afterwards (`switch`: never turned
on) -/
theorem C17_load_json_rejected_start (f : JsonFile) (m : Mgr) (e : Nat → Nat) (h : LoadStart e m) :
    JsonLeavesStart f e m (loadJson f false m) :=
  loadJson_false_any_start f m e h

/-- C17 / C09: `load_json` never lets the internal reordering signal `_NeedsReordering` escape —
`load_order=True` from any between-calls state; `load_order=False` with reordering not enabled,
or enabled with two variables declared (`DynInv`) -/
theorem C17_load_json_noSignal (f : JsonFile) (m : Mgr) (e : Nat → Nat) :
    ((f.levelOfVar.map (·.1)).Nodup → LoadStart e m → (loadJson f true m).1 ≠ .error .needsReordering) ∧
    (GoodState m e → (loadJson f false m).1 ≠ .error .needsReordering) ∧
    (DynInv e m → (loadJson f false m).1 ≠ .error .needsReordering) :=
  ⟨fun hnd h => (loadJson_true_any f hnd m e h).noSignal,
    fun h => loadJson_false_noSignal_off f m e h,
    fun h => (loadJson_false_any_dyn f m e h).noSignal⟩

/-! ### non-vacuity -/

/-- `b ∧ a` in the order b < a, then a THIRD node line whose successor 9 is not in the file -/
def jsonBad3 : JsonFile :=
  { levelOfVar := [("b", 0), ("a", 1)], roots := .list [3],
    nodes := [⟨2, 1, -1, 1⟩, ⟨3, 0, -1, 2⟩, ⟨5, 0, -1, 9⟩] }

/-- `load_order=True` into a fresh manager: `KeyError` at the third line; the variables are
declared and in the file's order, the two nodes are built, every reference of the shelf has been
given back (node 2: in-degree 1, node 3: 0), dynamic reordering is off -/
example : (loadJson jsonBad3 true {}).1 = .error .key ∧
    (loadJson jsonBad3 true {}).2.tbl.vars.toList = [("a", 1), ("b", 0)] ∧
    (loadJson jsonBad3 true {}).2.tbl.succ.toList = [(2, ⟨1, -1, 1⟩), (3, ⟨0, -1, 2⟩)] ∧
    (loadJson jsonBad3 true {}).2.ref.toList = [(1, 4), (2, 1), (3, 0)] ∧
    (loadJson jsonBad3 true {}).2.lastLen = none := by decide +kernel

example : JsonOrderLeaves jsonBad3 (fun _ => 0) {} (loadJson jsonBad3 true {}) :=
  C17_load_json_order_any jsonBad3 (by decide) {} _
    ⟨Inv.init, GoodState.init.order, GoodState.init.exact, rfl, rfl, fun _ h => by cases h⟩

/-- the same file, `load_order=False`, into `exDyn` (variables a < b, the user holds node 4 =
`a ∧ b`, dynamic reordering ENABLED with the trigger armed): the request fires inside the first
decorated call of `_make_node`, sifting runs (the threshold moves from 1 to 6, the trigger is
consumed), the call is retried; the load then fails with `KeyError` at the third line; the counts
are exactly those before the call, reordering is still enabled -/
example : exDyn.lastLen = some 1 ∧ exDyn.fireIn = some 1 ∧
    exDyn.ref.toList = [(1, 6), (2, 0), (3, 1), (4, 1)] ∧
    (loadJson jsonBad3 false exDyn).1 = .error .key ∧
    (loadJson jsonBad3 false exDyn).2.lastLen = some 6 ∧
    (loadJson jsonBad3 false exDyn).2.fireIn = none ∧
    (loadJson jsonBad3 false exDyn).2.ref.toList = [(1, 6), (2, 0), (3, 1), (4, 1)] := by
  decide +kernel

example : JsonLeavesDyn exExt exDyn (loadJson jsonBad3 false exDyn) :=
  C17_load_json_rejected_dyn jsonBad3 exDyn exExt exDyn_dynInv

/-- … and `load_order=True` into the same manager: reordering is switched off first, the file's
order (b < a) is imposed, the load fails at the third line; reordering stays OFF -/
example : (loadJson jsonBad3 true exDyn).1 = .error .key ∧
    (loadJson jsonBad3 true exDyn).2.tbl.vars.toList = [("a", 1), ("b", 0)] ∧
    (loadJson jsonBad3 true exDyn).2.lastLen = none := by decide +kernel

example : JsonOrderLeaves jsonBad3 exExt exDyn (loadJson jsonBad3 true exDyn) :=
  C17_load_json_order_any_dyn jsonBad3 (by decide) exDyn exExt exDyn_dynInv

/-! ### fewer than two variables, reordering enabled and the trigger armed -/

/-- one variable, one node -/
def jsonOne : JsonFile := { levelOfVar := [("x", 0)], roots := .list [2], nodes := [⟨2, 0, -1, 1⟩] }

/-- `BDD()` with dynamic reordering enabled and a request due -/
def fewM : Mgr := { ({} : Mgr) with lastLen := some 1, fireIn := some 1 }

/-- the request fires inside `bdd.var('x')`, `reorder(bdd)` raises `ValueError` (one variable),
the load fails with it; `x` is declared, nothing else is left, and dynamic reordering is OFF -/
example : (loadJson jsonOne false fewM).1 = .error .value ∧
    (loadJson jsonOne false fewM).2.tbl.vars.toList = [("x", 0)] ∧
    (loadJson jsonOne false fewM).2.tbl.succ.toList = [] ∧
    (loadJson jsonOne false fewM).2.ref.toList = [(1, 1)] ∧
    (loadJson jsonOne false fewM).2.lastLen = none := by decide +kernel

example : JsonLeavesStart jsonOne (fun _ => 0) fewM (loadJson jsonOne false fewM) :=
  C17_load_json_rejected_start jsonOne fewM _
    ⟨⟨Inv.init.wf, Inv.init.pred, Inv.init.freeGe, Inv.init.free, Inv.init.refOne, Inv.init.refDom,
      Inv.init.cache⟩, GoodState.init.order, GoodState.init.exact.congr rfl rfl, rfl, rfl,
      fun _ h => by cases h⟩

/-! ### a USED receiving manager (`usedM`: c < a < d < b, thirteen nodes, node 4 held once, node
13 twice) and the ill-formed file `jsonBadUsed` in ANOTHER order (d < b < a < c) -/

/-- `load_order=True`: the file's order is imposed on the used manager (its thirteen nodes are
rewritten by the swaps, the garbage among them collected), then `KeyError` at the fourth line;
the user's counts are what they were, dynamic reordering is off -/
example : (loadJson jsonBadUsed true usedM).1 = .error .key ∧
    (loadJson jsonBadUsed true usedM).2.tbl.vars.toList = [("a", 2), ("b", 1), ("c", 3), ("d", 0)] ∧
    (loadJson jsonBadUsed true usedM).2.ref[4]? = some 1 ∧
    (loadJson jsonBadUsed true usedM).2.ref[13]? = some 2 ∧
    (loadJson jsonBadUsed true usedM).2.lastLen = none := by decide +kernel

example : JsonOrderLeaves jsonBadUsed usedExt usedM (loadJson jsonBadUsed true usedM) :=
  C17_load_json_order_any_off jsonBadUsed (by decide) usedM usedExt usedM_good usedM_shape.2.2.2.2.2.2
    (by rw [usedM_shape.2.2.2.2.2.1]; intro r hr; cases hr)

/-! ### the witnesses of F19 and F20 -/

/-- F20 (fixed): node 3 at level 1 names node 2, at level 0, as its successor.  Before the repair
`find_or_add` stored `(1, -1, 2)`, `assert_consistent()` raised at the end with the node still in
the tables, and the next explicit `reorder` corrupted the manager.  Now `ValueError` before
anything is stored for the line; the reference of node 2 has been given back -/
def jsonIllOrdered : JsonFile :=
  { levelOfVar := [("x", 0), ("y", 1)], roots := .list [3], nodes := [⟨2, 0, -1, 1⟩, ⟨3, 1, -1, 2⟩] }

example : (loadJson jsonIllOrdered true {}).1 = .error .value ∧
    (loadJson jsonIllOrdered true {}).2.tbl.succ.toList = [(2, ⟨0, -1, 1⟩)] ∧
    (loadJson jsonIllOrdered true {}).2.ref.toList = [(1, 3), (2, 0)] := by decide +kernel

/-- `load_order=False` builds the same content with `var` / `ite` and accepts it -/
example : (loadJson jsonIllOrdered false {}).1 = .ok (.list [4]) := by decide +kernel

/-- F19 (fixed): node 3 is neither a root nor a successor of another line, so `ref < 3` fails for
it with `load_order=True`.  Before the repair the assertion fired in the release loop, outside the
`try:`, and the references of nodes 3 and 2 were never given back.  Now it fires inside the `try:`
and the handler releases the whole shelf -/
def jsonUnrooted : JsonFile :=
  { levelOfVar := [("x", 0), ("y", 1)], roots := .list [2], nodes := [⟨3, 1, -1, 1⟩, ⟨2, 0, -1, 1⟩] }

example : (loadJson jsonUnrooted true {}).1 = .error .assertion ∧
    (loadJson jsonUnrooted true {}).2.ref.toList = [(1, 5), (2, 0), (3, 0)] := by decide +kernel

/-- with `load_order=False` only `ref < 2` is asserted, which cannot fail: the file loads -/
example : (loadJson jsonUnrooted false {}).1 = .ok (.list [3]) := by decide +kernel

end DD
