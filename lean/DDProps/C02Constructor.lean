/-
  DDProps.C02Constructor — the constructor `BDD(levels)` starts a history in a good state (C02;
  also the base case of the every-history theorems for managers not created by `BDD()`).
  Model: `mkBDD` (DD.Dump; levels as naturals — a negative level fails the check already):
  `_assert_valid_ordering(levels)`, then `add_var(var, level)` for each item in `dict` order —
  for ANY order of the items, so with transient gaps in the level map (`{'a': 1, 'b': 0}`
  declares `a` at level 1 first).
-/
import DDProofs.SmallConstructor
open Std

namespace DD

/-- C02 (`BDD(levels)`): for a table with distinct names (a `dict`) whose levels are exactly
`0..n-1` in any order, the constructor returns a manager that (1) is a `GoodState` for the empty
ledger — `Inv` (reduced, ordered, canonical: there are no nodes), `OrderOK` (the two views are
inverse bijections onto `0..n-1`), exact counts, reordering off — so `reachable_inv` and every
per-operation theorem apply to histories that start here; (2) declares exactly the given pairs,
in both views; (3) has no node and no root.  A table that fails the check is refused with
`AssertionError`. -/
theorem C02_constructor (levels : List (String × Nat)) :
    ((levels.map (·.1)).Nodup → validOrdering levels = true →
      ∃ m, mkBDD levels = .ok m ∧ GoodState m (fun _ => 0) ∧
        (∀ (v : String) (l : Nat), m.tbl.vars[v]? = some l ↔ (v, l) ∈ levels) ∧
        (∀ (l : Nat) (v : String), m.tbl.l2v[l]? = some v ↔ (v, l) ∈ levels) ∧
        m.tbl.nvars = levels.length ∧ m.tbl.succ = ({} : Mgr).tbl.succ ∧ m.roots = []) ∧
    (validOrdering levels = false → mkBDD levels = .error .assertion) :=
  ⟨mkBDD_good levels, mkBDD_refuses levels⟩

/-- what the check accepts: the levels are pairwise distinct, all below `n`, and cover `0..n-1` -/
theorem C02_valid_ordering_facts (levels : List (String × Nat)) (h : validOrdering levels = true) :
    (levels.map (·.2)).Nodup ∧ (∀ k ∈ levels.map (·.2), k < levels.length) ∧
    (∀ i, i < levels.length → i ∈ levels.map (·.2)) :=
  validOrdering_facts levels h

/-- non-vacuity: `BDD({'a': 1, 'b': 0})` — the first `add_var` leaves a gap at level 0 -/
example : ∃ m, mkBDD [("a", 1), ("b", 0)] = .ok m ∧ GoodState m (fun _ => 0) ∧
    m.tbl.vars["a"]? = some 1 ∧ m.tbl.l2v[0]? = some "b" := by
  obtain ⟨m, h1, h2, hv, hl, _⟩ := (C02_constructor [("a", 1), ("b", 0)]).1 (by decide) (by decide)
  exact ⟨m, h1, h2, (hv "a" 1).mpr (by simp), (hl 0 "b").mpr (by simp)⟩
example : mkBDD [("a", 0), ("b", 0)] = .error .assertion ∧ mkBDD [("a", 0), ("b", 2)] = .error .assertion :=
  ⟨(C02_constructor _).2 (by decide), (C02_constructor _).2 (by decide)⟩

end DD
