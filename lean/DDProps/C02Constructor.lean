/-
  DDProps.C02Constructor — the constructor `BDD(levels)` starts a history in a good state (C02;
  also the base case of the every-history theorems for managers not created by `BDD()`).
  Model: `mkBDD` (DD.Dump; levels as naturals — a negative level fails the check already):
  `_assert_valid_ordering(levels)`, then `add_var(var, level)` for each item in `dict` order —
  for ANY order of the items, so with transient gaps in the level map (`{'a': 1, 'b': 0}`
  declares `a` at level 1 first).
-/
import DDProofs.SmallConstructor
import DDProofs.ConstructorAgree
open Std

namespace DD

/-- C02 (`BDD(levels)`): for a table with distinct names (a `dict`) whose levels are exactly
`0..n-1` in any order, the constructor returns a manager that (1) is a `GoodState` for the empty
ledger — `Inv` (reduced, ordered, canonical: there are no nodes), `OrderOK` (the two views are
inverse bijections onto `0..n-1`), exact counts, reordering off — so `reachable_inv` and every
per-operation theorem apply to histories that start here; (2) declares exactly the given pairs,
in both views; (3) has no node and no root.  A table that fails the check is refused with
`AssertionError`. -/
theorem C02_constructor (levels : List (String × Nat)) :
    ((levels.map (·.1)).Nodup → validOrdering levels = true →
      ∃ m, mkBDD levels = .ok m ∧ GoodState m (fun _ => 0) ∧
        (∀ (v : String) (l : Nat), m.tbl.vars[v]? = some l ↔ (v, l) ∈ levels) ∧
        (∀ (l : Nat) (v : String), m.tbl.l2v[l]? = some v ↔ (v, l) ∈ levels) ∧
        m.tbl.nvars = levels.length ∧ m.tbl.succ = ({} : Mgr).tbl.succ ∧ m.roots = []) ∧
    (validOrdering levels = false → mkBDD levels = .error .assertion) :=
  ⟨mkBDD_good levels, mkBDD_refuses levels⟩

/-- what the check accepts: the levels are pairwise distinct, all below `n`, and cover `0..n-1` -/
theorem C02_valid_ordering_facts (levels : List (String × Nat)) (h : validOrdering levels = true) :
    (levels.map (·.2)).Nodup ∧ (∀ k ∈ levels.map (·.2), k < levels.length) ∧
    (∀ i, i < levels.length → i ∈ levels.map (·.2)) :=
  validOrdering_facts levels h

/-- non-vacuity: `BDD({'a': 1, 'b': 0})` — the first `add_var` leaves a gap at level 0 -/
example : ∃ m, mkBDD [("a", 1), ("b", 0)] = .ok m ∧ GoodState m (fun _ => 0) ∧
    m.tbl.vars["a"]? = some 1 ∧ m.tbl.l2v[0]? = some "b" := by
  obtain ⟨m, h1, h2, hv, hl, _⟩ := (C02_constructor [("a", 1), ("b", 0)]).1 (by decide) (by decide)
  exact ⟨m, h1, h2, (hv "a" 1).mpr (by simp), (hl 0 "b").mpr (by simp)⟩
example : mkBDD [("a", 0), ("b", 0)] = .error .assertion ∧ mkBDD [("a", 0), ("b", 2)] = .error .assertion :=
  ⟨(C02_constructor _).2 (by decide), (C02_constructor _).2 (by decide)⟩

/-! ### ONE constructor

`mkBDD` above is the constructor call inside `_load_manager`; the line-protocol driver's op `new`
runs `newMgr` = `newMgrCore` (`newMgr_eq_core`, DDProofs.Reach4New), for which
`newMgrCore_start` (DDProofs.Reach4Start) is the base case of the every-history theorems.  They
are the same function (`mkBDD_eq_newMgrCore`, DDProofs.ConstructorAgree), so there is one
constructor theorem: `C02_constructor_driver` below is `C02_constructor` TRANSPORTED along that
equation to the function the driver runs, and its conclusion contains that of
`newMgrCore_start`. -/

/-- the two models of `BDD(levels)` agree: on natural levels `mkBDD` is the driver's `newMgrCore`
read through the change of result type; the remaining inputs of `newMgrCore` (a negative level)
are refused by `_assert_valid_ordering`; the two transcriptions of the check agree -/
theorem C02_constructor_models_agree :
    (∀ levels : List (String × Nat), mkBDD levels = asMkBDD (newMgrCore (castLevels levels))) ∧
    (∀ levels : List (String × Nat), newMgrCheck (castLevels levels) = validOrdering levels) ∧
    (∀ levels : List (String × Int), (∃ p ∈ levels, p.2 < 0) →
      newMgrCore levels = (.error .assertion, {})) ∧
    (∀ levels : List (String × Int), (∀ p ∈ levels, 0 ≤ p.2) →
      levels = castLevels (levels.map fun p => (p.1, p.2.toNat))) :=
  ⟨mkBDD_eq_newMgrCore, newMgrCheck_cast, newMgrCore_negative, eq_castLevels_of_nonneg⟩

/-- C02 (`BDD(levels)`, the function the DRIVER runs; integer levels): the statement of
`C02_constructor`, obtained from it through `mkBDD_eq_newMgrCore` — a dictionary (distinct names)
that passes `_assert_valid_ordering` gives a good manager for the empty ledger, declaring exactly
the given pairs in both views, with no node, no root and no schedule (`GoodParts`: the start of
`reachable4_from_parts`); any table that fails the check — a negative level included — raises
`AssertionError` and leaves no manager. -/
theorem C02_constructor_driver (levels : List (String × Int)) :
    ((levels.map (·.1)).Nodup → newMgrCheck levels = true →
      (newMgrCore levels).1 = .ok () ∧
      GoodState (newMgrCore levels).2 (fun _ => 0) ∧ GoodParts (newMgrCore levels).2 (fun _ => 0) ∧
      (∀ (v : String) (l : Nat),
        (newMgrCore levels).2.tbl.vars[v]? = some l ↔ (v, (l : Int)) ∈ levels) ∧
      (∀ (l : Nat) (v : String),
        (newMgrCore levels).2.tbl.l2v[l]? = some v ↔ (v, (l : Int)) ∈ levels) ∧
      (newMgrCore levels).2.tbl.nvars = levels.length ∧
      (newMgrCore levels).2.tbl.succ = ({} : Mgr).tbl.succ ∧ (newMgrCore levels).2.roots = []) ∧
    (newMgrCheck levels = false → newMgrCore levels = (.error .assertion, {})) := by
  refine ⟨fun hnames hchk => ?_, newMgrCore_refused levels⟩
  have hnn : ∀ p ∈ levels, 0 ≤ p.2 := fun p hp => ((newMgrCheck_nodup levels hchk).2.1 p hp).1
  have hcast := eq_castLevels_of_nonneg levels hnn
  generalize hL : (levels.map fun p => (p.1, p.2.toNat)) = nat at hcast
  have hnames' : (nat.map (·.1)).Nodup := by
    rw [← castLevels_names, ← hcast]; exact hnames
  have hvalid : validOrdering nat = true := by
    rw [← newMgrCheck_cast, ← hcast]; exact hchk
  obtain ⟨m, hm, hg, hv, hl, hn, hs, hr⟩ := (C02_constructor nat).1 hnames' hvalid
  rw [mkBDD_eq_newMgrCore, ← hcast] at hm
  have hparts := (newMgrCore_good levels hnames hchk).2.1
  have hlen : nat.length = levels.length := by rw [hcast, castLevels_length]
  generalize newMgrCore levels = res at hm hparts ⊢
  obtain ⟨r, m1⟩ := res
  cases r with
  | error e => cases hm
  | ok x =>
    cases hm
    refine ⟨rfl, hg, hparts, fun v l => ?_, fun l v => ?_, hn.trans hlen, hs, hr⟩
    · rw [hv v l, hcast, mem_castLevels]
    · rw [hl l v, hcast, mem_castLevels]

/-- non-vacuity (the driver's function): `BDD({'a': 1, 'b': 0})` is accepted, `{'a': -1, 'b': 0}`
and `{'a': 0, 'b': 2}` raise; and `mkBDD` gives the very same manager -/
example : (newMgrCore [("a", 1), ("b", 0)]).1 = .ok () ∧
    GoodState (newMgrCore [("a", 1), ("b", 0)]).2 (fun _ => 0) ∧
    (newMgrCore [("a", 1), ("b", 0)]).2.tbl.l2v[0]? = some "b" ∧
    newMgrCore [("a", -1), ("b", 0)] = (.error .assertion, {}) ∧
    newMgrCore [("a", 0), ("b", 2)] = (.error .assertion, {}) ∧
    mkBDD [("a", 1), ("b", 0)] = .ok (newMgrCore [("a", 1), ("b", 0)]).2 := by
  obtain ⟨h1, h2, -, -, hl, -⟩ := (C02_constructor_driver [("a", 1), ("b", 0)]).1 (by decide) (by decide)
  refine ⟨h1, h2, (hl 0 "b").mpr (by simp), (C02_constructor_driver _).2 (by decide),
    (C02_constructor_driver _).2 (by decide), ?_⟩
  rw [mkBDD_eq_newMgrCore]
  show asMkBDD (newMgrCore [("a", 1), ("b", 0)]) = _
  generalize newMgrCore [("a", 1), ("b", 0)] = res at h1 ⊢
  obtain ⟨r, m⟩ := res
  cases h1
  rfl

end DD
