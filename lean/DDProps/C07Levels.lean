/-
  DDProps.C07Levels — C07, the clause "no assertion of `swap` can fire", for the code AS WRITTEN:
  with the caller's dict of level sets computed once and PATCHED by every swap.

  ## What was missing

  `BDD.swap(x, y, all_levels)` iterates over `all_levels[x]` and `all_levels[y]`.  The dict is
  computed ONCE by the caller — `levels = bdd._levels()` in `_apply_sifting`, `_sort_to_order`,
  `reorder_to_pairs` (in `swap` itself when `all_levels is None`) — and every `swap` patches the
  two entries it touched from the sets `newx`, `newy` built by its closing loops
  (`all_levels[x] = newy; all_levels[y] = newx`).  Were an entry stale, the loops of a later
  `swap` would raise: `KeyError` at `self._succ[abs(u)]` for a node that was collected,
  `AssertionError` at `if i != j` for a node that moved, or silently skip a node that is missing
  from its set (third example below: the table is then NOT rebuilt correctly).  The model of
  DD.Order recomputes `nodesAt m.tbl j` from `_succ` at every swap (`takeSwapOrders`), and its
  `checkNewLevels` does the assertions without building the sets; so the theorems of DDProps.C07
  rest on the unproved assumption that the patched sets ARE the level sets at every swap.

  ## What is modelled and proved

  DD.OrderLevels threads the dict explicitly (`LevelSets`): `levelSets` = `_levels()`,
  `checkNewLevelsL` builds `newx` / `newy` in the three closing loops with the code's assertions,
  `swapWithL` / `swapBodyL` / `swapL` patch it, `shiftL`, `reorderVarL`, `applySiftingL`,
  `sortToOrderL`, `reorderL`, `reorderToPairsL` pass it along as the Python functions pass
  `levels`.  The iteration order of a set comes from the recorded schedule, checked against the
  THREADED set (ascending order when nothing is recorded), as in DD.Order.

  `LevelsOK al m` : for every level `j` of a declared variable, `al[j]` is — as a set — the set of
  nodes whose level is `j`.
  * `C07_levels_initial` : `bdd._levels()` satisfies it.
  * `C07_all_levels_invariant` : a `swap` of two adjacent levels started with `LevelsOK al m`
    (and the reordering invariant `ReorderInv ext m` of DDProps.C07) does exactly what the
    recomputing `swap` does — same result, same final state, same exception if the schedule
    does not fit — and the patched dict satisfies `LevelsOK` for the final state.  Three facts
    carry the proof: `xfresh` holds EVERY node the surgery created (`swapNodes_extra`); the
    rooted collection at the end of `swap` removes only nodes that were at the LOWER level — a
    child of a removed node is re-referenced by the node replacing its parent — so the sets of
    all other levels stay exact although nobody patches them (`dead_at_lower`); the nodes at the
    two levels afterwards all come from `levels[x]`, `levels[y]`, `xfresh` (`swap_level_facts`).
  * `C07_swapWithLevels_eq` : the public entry point, ANY arguments, dict given or `None`.
  * `C07_reorder_levels_eq`, `C07_reorderToPairs_levels_eq` : `reorder(bdd)` (sifting),
    `reorder(bdd, order)`, `reorder_to_pairs` with the dict threaded ARE the functions of
    DD.Order (equal results and states).  Hence every theorem of DDProps.C07 transfers:
    `C07_sift_levels`, `C07_reorder_order_levels`, `C07_reorderToPairs_levels`,
    `C07_swap_public_levels`.
-/
import DDProofs.SwapLevelsDrivers
import DDProps.C07
namespace DD

/-- C07: `levels = bdd._levels()` holds exactly the level sets -/
theorem C07_levels_initial (m : Mgr) (hO : OrderOK m.tbl) : LevelsOK (levelSets m) m :=
  levelSets_ok m hO

/-- what `SimL ext a b` says (DDProofs.SwapLevelsEq): the threaded computation `a` returns what
the recomputing computation `b` returns — on success the same result and final state, together
with a dict that holds exactly the level sets of that state, which satisfies the reordering
invariant; on failure the same exception in the same state -/
theorem C07_simL_means {α} (ext : Nat → Nat) (a : Except Err (α × LevelSets) × Mgr)
    (b : Except Err α × Mgr) (h : SimL ext a b) :
    a.2 = b.2 ∧ a.1.map (·.1) = b.1 ∧
    ∀ r al, a.1 = .ok (r, al) → LevelsOK al a.2 ∧ ReorderInv ext a.2 := by
  obtain ⟨rb, mb⟩ := b
  cases rb with
  | ok r =>
    obtain ⟨al', ha, hR, hal⟩ := h
    subst ha
    exact ⟨rfl, rfl, fun r' al'' e => by cases e; exact ⟨hal, hR⟩⟩
  | error e =>
    have ha : a = (.error e, mb) := h
    subst ha
    exact ⟨rfl, rfl, fun r al e' => by cases e'⟩

/-- C07, THE INVARIANT OF `all_levels`: a `swap` of the adjacent levels `x`, `x + 1`, FOR EVERY
SCHEDULE, started in a state satisfying the reordering invariant with a dict `al` that holds
exactly the level sets: iterating over the THREADED sets `al[x]`, `al[x+1]` and patching
`al[x] := newy`, `al[x+1] := newx` from the closing loops, it returns what the swap that
recomputes the level sets returns (`C07_swap`: normally, or the model's schedule mismatch), in the
same final state, and the patched dict again holds exactly the level sets — of ALL levels, also
those nobody patched.  In particular none of the `KeyError`s / `AssertionError`s of the loops over
`all_levels[j]` can fire, at this swap or at any later one. -/
theorem C07_all_levels_invariant (ext : Nat → Nat) (m : Mgr) (h : ReorderInv ext m) (x : Nat)
    (hx : x + 1 < m.nvars) (al : LevelSets) (hal : LevelsOK al m) :
    SimL ext (swapBodyL al x (x + 1) m) (swapBody x (x + 1) m) ∧
    OkOrSched (fun r m' => SwapPost m ext x r.1 m' ∧ LevelsOK r.2 m') (swapBodyL al x (x + 1) m) := by
  have hs := swapBodyL_sim ext m h x hx al hal
  refine ⟨hs, ?_⟩
  have hp := swapBody_spec m ext h.inv h.order h.refExact h.off x hx
  generalize swapBody x (x + 1) m = b at hs hp
  obtain ⟨rb, mb⟩ := b
  cases rb with
  | ok r =>
    obtain ⟨al', ha, _, hal'⟩ := hs
    rw [ha]
    exact ⟨hp.1, hal'⟩
  | error e =>
    have ha : swapBodyL al x (x + 1) m = (.error e, mb) := hs
    rw [ha]
    exact hp

/-- C07: the invariant for fixed iteration orders (any two orders of the two level sets): the
run with the dict threaded is the run of `swapWith`, and the patched dict is exact -/
theorem C07_swapWith_levels (m : Mgr) (ext : Nat → Nat) (s : List SchedItem) (h : ReorderInv ext m)
    (x : Nat) (hx : x + 1 < m.nvars) (ox oy : List Nat) (hox : LevelOrder m.tbl x ox)
    (hoy : LevelOrder m.tbl (x + 1) oy) (al : LevelSets) (hal : LevelsOK al m) :
    ∃ r m' al', swapWith x (x + 1) m.len ox oy { m with sched := s } = (.ok r, m') ∧
      swapWithL al x (x + 1) m.len ox oy { m with sched := s } = (.ok (r, al'), m') ∧
      LevelsOK al' m' :=
  swapWithL_spec m ext s h.inv h.order h.refExact h.off x hx ox oy hox hoy al hal

/-- C07: what stays exact without being patched — the rooted collection at the end of `swap`
removes only nodes that were at the lower of the two levels -/
theorem C07_swap_collects_lower_level_only {m m6 : Mgr} {ext : Nat → Nat} {x : Nat} {g : List Nat}
    (hI : Inv m) (hx : x + 1 < m.nvars)
    (hrel : SwapRel m.tbl m6.tbl x (fun _ => False)) (hR6 : RefExact m6 ext)
    (hg : ∀ r ∈ g, ∃ u n, IsDep m.tbl x u ∧ m.tbl.node? u = some n ∧
      (n.lo.natAbs = r ∨ n.hi.natAbs = r)) :
    ∀ k, Dead m6.tbl ext (gcStart (some (g.map (fun (k : Nat) => (k : Int)))) m6) k →
      ∃ n, m.tbl.node? k = some n ∧ n.lvl = x + 1 :=
  dead_at_lower hI hx hrel hR6 hg

/-- C07 (`swapWithLevels_eq`): the public `swap(x, y, all_levels)` with ANY arguments (names or
levels, valid or not), the dict given by the caller or `None` (full collection, then
`all_levels = self._levels()`): the version that threads and patches the dict agrees with the
version that recomputes the level sets -/
theorem C07_swapWithLevels_eq (ext : Nat → Nat) (m : Mgr) (h : ReorderInv ext m) (xa ya : VarOrLevel) :
    (∀ al, LevelsOK al m → SimL ext (swapL xa ya (some al) m) (swap xa ya true m)) ∧
    SimL ext (swapL xa ya none m) (swap xa ya false m) :=
  ⟨fun al hal => swapL_some_sim ext m h xa ya al hal, swapL_none_sim ext m h xa ya⟩

/-- C07: `_shift(bdd, start, end, levels)` with the dict threaded -/
theorem C07_shift_levels_eq (ext : Nat → Nat) (m : Mgr) (h : ReorderInv ext m) (s e : Nat)
    (al : LevelSets) (hal : LevelsOK al m) : SimL ext (shiftL s e al m) (shift s e m) :=
  shiftL_sim ext m h s e al hal

/-- C07: `reorder(bdd)` (sifting) and `reorder(bdd, order)` with `levels = bdd._levels()`
computed once and patched by the swaps ARE the functions of DD.Order: same result, same state -/
theorem C07_reorder_levels_eq (ext : Nat → Nat) (m : Mgr) (h : ReorderInv ext m)
    (order : Option (List (String × Int))) : reorderL order m = reorder order m :=
  reorderL_eq ext m h order

/-- C07: the same for `reorder_to_pairs` -/
theorem C07_reorderToPairs_levels_eq (ext : Nat → Nat) (m : Mgr) (h : ReorderInv ext m)
    (pairs : List (String × String)) : reorderToPairsL pairs m = reorderToPairs pairs m :=
  reorderToPairsL_eq ext m h pairs

/-! ### the theorems of DDProps.C07, for the code as written -/

/-- C07 (sifting, dict threaded): with at least two variables, for every schedule, `reorder(bdd)`
returns normally — none of the assertions of `swap`, `_shift`, `_reorder_var`, `_apply_sifting`
fires, no `KeyError` from a stale level set — with the post-condition of `C07_sift` -/
theorem C07_sift_levels (ext : Nat → Nat) (m : Mgr) (h : ReorderInv ext m) (h2 : 2 ≤ m.nvars) :
    OkOrSched (fun _ m' => ReorderInv ext m' ∧ NoGarbage m' ∧ ReorderRel ext m m') (reorderL none m) := by
  rw [reorderL_eq ext m h none]
  exact C07_sift ext m h h2

/-- C07 (`reorder(bdd, order)`, dict threaded) -/
theorem C07_reorder_order_levels (ext : Nat → Nat) (m : Mgr) (h : ReorderInv ext m)
    (order : List (String × Int)) (ho : ReqOrder order m) :
    OkOrSched (fun _ m' => ReorderInv ext m' ∧ ReorderRel ext m m' ∧ m'.nvars = m.nvars ∧
        ∀ v p, order.lookup v = some p → m.tbl.vars.contains v = true →
          m'.tbl.vars[v]? = some p.toNat ∧ m'.tbl.l2v[p.toNat]? = some v)
      (reorderL (some order) m) := by
  rw [reorderL_eq ext m h (some order)]
  exact C07_reorder_order ext m h order ho

/-- C07 (`reorder_to_pairs`, dict threaded) -/
theorem C07_reorderToPairs_levels (ext : Nat → Nat) (m : Mgr) (h : ReorderInv ext m)
    (pairs : List (String × String))
    (hdecl : ∀ v ∈ pairNames pairs, m.tbl.vars.contains v = true) (hnd : (pairNames pairs).Nodup) :
    OkOrSched (fun _ m' => ReorderInv ext m' ∧ ReorderRel ext m m' ∧ m'.nvars = m.nvars ∧
        ∀ p ∈ pairs, Adj m' p.1 p.2)
      (reorderToPairsL pairs m) := by
  rw [reorderToPairsL_eq ext m h pairs]
  exact C07_reorderToPairs ext m h pairs hdecl hnd

/-- C07 (public `bdd.swap(x, y)`, dict computed by `swap` itself and patched) -/
theorem C07_swap_public_levels (ext : Nat → Nat) (m : Mgr) (h : ReorderInv ext m) (xa ya : VarOrLevel)
    (x a b : Nat) (hx : x + 1 < m.nvars) (ha : Resolves m xa a) (hb : Resolves m ya b)
    (hab : (a = x ∧ b = x + 1) ∨ (a = x + 1 ∧ b = x)) :
    OkOrSched (fun r m' => ReorderInv ext m' ∧ ReorderRel ext m m' ∧ Exch m m' x ∧ r.1.2 = m'.len ∧
        r.1.1 ≤ m.len ∧ LevelsOK r.2 m')
      (swapL xa ya none m) := by
  have hs := swapL_none_sim ext m h xa ya
  have hp := C07_swap_public ext m h xa ya x a b hx ha hb hab
  generalize swap xa ya false m = bb at hs hp
  obtain ⟨rb, mb⟩ := bb
  cases rb with
  | ok r =>
    obtain ⟨al', ha', _, hal'⟩ := hs
    rw [ha']
    exact ⟨hp.1, hp.2.1, hp.2.2.1, hp.2.2.2.1, hp.2.2.2.2, hal'⟩
  | error e =>
    have ha' : swapL xa ya none m = (.error e, mb) := hs
    rw [ha']
    exact hp

/-! ### non-vacuity

`exM` (DDProofs.GcExample): variables `a` (level 0), `b` (level 1); nodes 2 = `a`, 3 = `b`,
4 = `a ∧ b`; the user holds node 4. -/

/-- the hypotheses hold of `exM` with the dict `bdd._levels()` = `{0: {2, 4}, 1: {3}}` -/
example : ReorderInv exExt exM ∧ LevelsOK (levelSets exM) exM ∧
    (levelSets exM).toList = [(0, [2, 4]), (1, [3])] :=
  ⟨exM_reorderInv, levelSets_ok exM exM_order, by decide⟩

/-- `exM` with a NON-default recorded order of `all_levels[0]` (`4, 2`; the default is `2, 4`) -/
@[irreducible] def exMsw : Mgr := { exM with sched := [.swap [(0, [4, 2]), (1, [3])]] }

/-- the caller's dict `bdd._levels()` of `exM` -/
@[irreducible] def exLv : LevelSets := levelSets exM

/-- `exM` itself (no recorded schedule) -/
@[irreducible] def exM0 : Mgr := exM

/-- a STALE dict: node 4 is missing from the set of level 0 -/
@[irreducible] def exLvStale : LevelSets := (levelSets exM).insert 0 [2]

theorem exMsw_reorderInv : ReorderInv exExt exMsw := by
  unfold exMsw
  exact ⟨exM_inv.setSched _, exM_order, exM_refExact.congr rfl rfl, Or.inl (by decide),
    exM_reorderInv.rootsHeld⟩

theorem exLv_ok : LevelsOK exLv exMsw := by
  unfold exLv exMsw
  exact levelSets_ok exM exM_order

/-- a swap with the caller's dict under the non-default recorded order: the threaded version
returns what the recomputing one returns, and hands back the patched dict `{0: {4}, 1: {2}}` -/
theorem C07_levels_example :
    (swapL (.level 0) (.level 1) (some exLv) exMsw).1.toOption.map
      (fun r => (r.1, r.2.toList)) = some ((4, 3), [(0, [4]), (1, [2])]) ∧
    (swap (.level 0) (.level 1) true exMsw).1.toOption = some (4, 3) := by
  decide +kernel

example : SimL exExt (swapL (.level 0) (.level 1) (some exLv) exMsw)
    (swap (.level 0) (.level 1) true exMsw) :=
  (C07_swapWithLevels_eq exExt exMsw exMsw_reorderInv _ _).1 exLv exLv_ok

/-- the hypothesis `LevelsOK` is NOT redundant: with the STALE dict the threaded swap silently
skips node 4 and answers differently from the recomputing swap — this is what the invariant
excludes for the dicts the code actually passes -/
theorem C07_stale_levels_example :
    (swapL (.level 0) (.level 1) (some exLvStale) exM0).1.toOption.map (·.1) = some (4, 4) ∧
    (swap (.level 0) (.level 1) true exM0).1.toOption = some (4, 3) :=
  ⟨by decide +kernel, by decide +kernel⟩

/-- sifting `exM` with the dict threaded returns normally -/
example : ∃ m', reorderL none exM = (.ok (), m') ∧ ReorderInv exExt m' ∧ ReorderRel exExt exM m' := by
  rw [C07_reorder_levels_eq exExt exM exM_reorderInv none]
  obtain ⟨m', a, b, _, _, d⟩ := C07_sift_total exExt exM exM_reorderInv (by decide) (by decide)
  exact ⟨m', a, b, d⟩

end DD
