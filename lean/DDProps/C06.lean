/-
  DDProps.C06 — garbage collection frees exactly the unreachable nodes; counts stay exact.

  Vocabulary (DDProofs.RefCount / GcStep / GcLoop / GcSpec / GcSched):
  * `ext : Nat → Nat` — ghost ledger: references the USER holds per node number.
  * `RefExact m ext` — `m.ref` has exactly the terminal and the stored nodes as keys and
    `ref u = indeg u + ext u (+1 for the terminal)`; `ext` is 0 outside the nodes.
  * `GcReach t (GcHeld ext) u` — `u` is reachable through stored edges from a node with `ext > 0`.
  * `GcRun m W mf` — the collection loop popping ANY element of the worklist (a Python `set`);
    `GcSteps` — any prefix of such a run; `gcFinish` — the cache reset at the end.
  * `Mgr.Same a b` — equal field by field (maps compared by lookup).
  Each theorem is followed by a non-vacuity example on `exM` (DDProofs.GcExample: variables
  a, b; nodes 2 = a, 3 = b, 4 = a ∧ b; the user holds node 4; node 2 is garbage).
-/
import DDProofs.GcExample
import DDProofs.SmallGc
open Std

namespace DD

/-! ### counts stay exact: node creation -/

/-- `find_or_add` keeps every count exact w.r.t. the SAME ledger (the caller has not taken a
reference yet): a new node starts at 0, each of its children gains exactly its new stored
edges, an existing or eliminated node changes nothing; no node is removed or altered. -/
theorem C06_counts_exact_findOrAdd (m : Mgr) (ext : Nat → Nat) (i : Int) (v w : Int)
    (hi : Inv m) (hr : RefExact m ext) :
    RefExact (findOrAdd i v w m).2 ext ∧
    ∀ j : Nat,
      RefExact (findOrAddCore j v w m).2 ext ∧
      Ext m.tbl (findOrAddCore j v w m).2.tbl ∧
      ((findOrAddCore j v w m).2 = m ∨
        ∃ n : Nd, m.tbl.AddedAt (findOrAddCore j v w m).2.tbl m.minFree n ∧ n.lvl = j ∧
          n.lo.natAbs = v.natAbs ∧ n.hi.natAbs = w.natAbs ∧ m.tbl.Mem v ∧ m.tbl.Mem w ∧
          (findOrAddCore j v w m).2.ref[m.minFree]? = some 0 ∧
          ∀ u c, u ≠ m.minFree → m.ref[u]? = some c →
            (findOrAddCore j v w m).2.ref[u]? = some (c + edgeCount n u)) :=
  ⟨findOrAdd_refExact m ext i v w hi.wf.toWF hr, fun j =>
    ⟨findOrAddCore_refExact m ext j v w hi.wf.toWF hr, findOrAddCore_ext m j v w hr.isSome,
     findOrAddCore_ref_effect m ext j v w hi.wf.toWF hr⟩⟩

/-- non-vacuity: the hypotheses hold for the example manager -/
example : RefExact (findOrAdd 1 (-1) 4 exM).2 exExt :=
  (C06_counts_exact_findOrAdd exM exExt 1 (-1) 4 exM_inv exM_refExact).1
/-- … and there the call really creates a node (number 5) with count 0 -/
example : (findOrAddCore 1 (-1) 1 exM).2 = exM ∧ (findOrAddCore 1 2 1 exM).2.ref[5]? = some 0 := by
  constructor
  · rcases (C06_counts_exact_findOrAdd exM exExt 1 (-1) 1 exM_inv exM_refExact).2 1 with ⟨-, -, h | ⟨n, h, -⟩⟩
    · exact h
    · exfalso
      have h1 := h.old
      have h2 := h.new
      have : (findOrAddCore 1 (-1) 1 exM).2.tbl.node? exM.minFree = none := by decide
      rw [this] at h2; cases h2
  · decide

/-! ### counts stay exact: `incref` / `decref` -/

/-- `incref u` = the user takes a reference (ledger +1 at `|u|`), `decref u` with a held
reference = the user releases it (ledger −1); only `ref` changes, the invariant is kept;
on a number that is not a node both raise `KeyError` and change nothing. -/
theorem C06_counts_exact_incref_decref (m : Mgr) (ext : Nat → Nat) (u : Int)
    (hi : Inv m) (hr : RefExact m ext) :
    (m.tbl.Mem u → ∃ m', incref u m = (.ok (), m') ∧ RefExact m' (extInc ext u.natAbs) ∧ Inv m' ∧
        m'.tbl = m.tbl ∧ m'.pred = m.pred ∧ m'.minFree = m.minFree ∧ m'.cache = m.cache) ∧
    (0 < ext u.natAbs → ∃ m', decref u m = (.ok (), m') ∧ RefExact m' (extDec ext u.natAbs) ∧ Inv m' ∧
        m'.tbl = m.tbl ∧ m'.pred = m.pred ∧ m'.minFree = m.minFree ∧ m'.cache = m.cache) ∧
    (¬ m.tbl.Mem u → incref u m = (.error .key, m) ∧ decref u m = (.error .key, m)) := by
  refine ⟨fun hu => ?_, fun he => ?_, fun hn => ?_⟩
  · obtain ⟨c, -, h2, h3⟩ := incref_spec m ext u hr hu
    exact ⟨_, h2, h3, Inv.of_parts ⟨hi.wf, hi.pred, hi.freeGe, hi.free⟩ h3 hi.cache, rfl, rfl, rfl, rfl⟩
  · obtain ⟨c, -, h2, h3⟩ := decref_spec m ext u hr he
    exact ⟨_, h2, h3, Inv.of_parts ⟨hi.wf, hi.pred, hi.freeGe, hi.free⟩ h3 hi.cache, rfl, rfl, rfl, rfl⟩
  · have : m.ref[u.natAbs]? = none := by
      cases hx : m.ref[u.natAbs]? with
      | none => rfl
      | some c => exact absurd ((hr.dom _).mp (by simp [hx])) hn
    exact ⟨incref_not_mem m u this, decref_not_mem m u this⟩

example : ∃ m', decref (-4) exM = (.ok (), m') ∧ RefExact m' (extDec exExt 4) ∧ Inv m' ∧
    m'.tbl = exM.tbl ∧ m'.pred = exM.pred ∧ m'.minFree = exM.minFree ∧ m'.cache = exM.cache :=
  (C06_counts_exact_incref_decref exM exExt (-4) exM_inv exM_refExact).2.1 (by decide)

/-! ### `decref` floors at zero -/

/-- `decref` at count 0 is a no-op (the Python code warns and returns); and a user who
releases only what he holds (`ext |u| > 0`) never reaches the floor: the count is positive. -/
theorem C06_decref_floor (m : Mgr) (u : Int) :
    (m.ref[u.natAbs]? = some 0 → decref u m = (.ok (), m)) ∧
    (∀ ext, RefExact m ext → 0 < ext u.natAbs → ∃ c, m.ref[u.natAbs]? = some (c + 1)) :=
  ⟨decref_floor m u, fun ext hr he => by
    obtain ⟨c, h, -, -⟩ := decref_spec m ext u hr he
    exact ⟨c, h⟩⟩

example : decref 2 exM = (.ok (), exM) := (C06_decref_floor exM 2).1 (by decide)

/-! ### the full collection -/

/-- `collect_garbage()`: terminates without error; afterwards the invariant and exact counts
hold (same ledger), the remaining nodes are EXACTLY the nodes reachable from a node the user
holds (plus the terminal), each unchanged and denoting what it denoted; every remaining count
is positive; the computed table is empty; `_min_free` is again the least unused number. -/
theorem C06_gc_exact (m : Mgr) (ext : Nat → Nat) (hi : Inv m) (hr : RefExact m ext) :
    ∃ m', collectGarbage none m = (.ok (), m') ∧ Inv m' ∧ RefExact m' ext ∧
      (∀ u : Nat, (u = 1 ∨ (m'.tbl.node? u).isSome) ↔ (u = 1 ∨ GcReach m.tbl (GcHeld ext) u)) ∧
      (∀ u n, m'.tbl.node? u = some n ↔ (m.tbl.node? u = some n ∧ GcReach m.tbl (GcHeld ext) u)) ∧
      (∀ (u : Int) a, m'.tbl.Mem u → den m'.tbl u a = den m.tbl u a) ∧
      (∀ (u c : Nat), m'.ref[u]? = some c → 0 < c) ∧
      (∀ key : List Int, m'.cache[key]? = none) ∧
      m'.tbl.vars = m.tbl.vars ∧ m'.tbl.l2v = m.tbl.l2v ∧
      (LeastFree m → LeastFree m') ∧ m'.len ≤ m.len := by
  obtain ⟨m', hrun, hp⟩ := collectGarbage_spec m ext hi hr
  refine ⟨m', hrun, hp.inv, hp.refExact, hp.mem_iff hi.toInvS, hp.nodes hi.toInvS,
    fun u a hu => hp.den_eq u hu a, ?_, collectGarbage_ok_cache none m m' hrun, hp.sub.vars, hp.sub.l2v,
    hp.sub.leastFree, ?_⟩
  · intro u c hc
    cases c with
    | zero => exact absurd hc (hp.noZero u)
    | succ c => omega
  · have := hp.sub.size; simp only [Mgr.len]; omega

example : ∃ m', collectGarbage none exM = (.ok (), m') ∧ Inv m' ∧ RefExact m' exExt := by
  obtain ⟨m', h1, h2, h3, -⟩ := C06_gc_exact exM exExt exM_inv exM_refExact
  exact ⟨m', h1, h2, h3⟩
/-- on the example the collection really frees node 2 (garbage) and keeps 3 and 4 -/
example : (collectGarbage none exM).2.tbl.succ.keys = [3, 4] ∧
    (collectGarbage none exM).2.ref.toList = [(1, 4), (3, 1), (4, 1)] ∧
    (collectGarbage none exM).2.minFree = 2 := by decide

/-! ### a held node is never freed -/

/-- At EVERY intermediate state of a collection (any pop order, full or rooted start
worklist `W`), every node reachable from a node the user holds is still present, unchanged,
with a positive count if held, and denotes what it denoted. -/
theorem C06_held_never_freed (m : Mgr) (ext : Nat → Nat) (W : List Nat) (m' : Mgr) (W' : List Nat)
    (hi : Inv m) (hr : RefExact m ext) (hz : ∀ w ∈ W, m.ref[w]? = some 0) (hnd : W.Nodup)
    (hsteps : GcSteps m W m' W') (u : Nat) (hu : GcReach m.tbl (GcHeld ext) u) :
    (u = 1 ∨ (m'.tbl.node? u).isSome) ∧
    (∀ n, m.tbl.node? u = some n → m'.tbl.node? u = some n) ∧
    (0 < ext u → ∃ c, m'.ref[u]? = some (c + 1)) ∧
    (∀ a, den m'.tbl (u : Int) a = den m.tbl (u : Int) a) ∧
    RefExact m' ext := by
  obtain ⟨h1, h2⟩ := hsteps.spec (ext := ext) ⟨hi.toInvS, hr, hz, hnd⟩
  have hmem := reach_survives h2 h1.invS h1.refExact hi.toInvS hu
  refine ⟨hmem, ?_, ?_, ?_, h1.refExact⟩
  · intro n hn
    rcases hmem with h | h
    · have := hi.wf.ge_two _ _ hn; omega
    · obtain ⟨x, hx⟩ := Option.isSome_iff_exists.mp h
      have := h2.sub u x hx
      rw [hn] at this; cases this; exact hx
  · intro he
    have hg := h1.refExact.get (u := (u : Int)) (by simpa [Tbl.Mem] using hmem)
    simp only [Int.natAbs_natCast] at hg
    exact ⟨indeg m'.tbl u + (ext u - 1) + (if u = 1 then 1 else 0), by rw [hg]; congr 1; omega⟩
  · intro a
    exact den_sub h2 h1.invS.wf.toWF (u : Int) (by simpa [Tbl.Mem] using hmem) a

/-- the same for the state returned by `collect_garbage(roots)` (full or rooted) -/
theorem C06_held_never_freed_collect (roots : Option (List Int)) (m : Mgr) (ext : Nat → Nat)
    (hi : Inv m) (hr : RefExact m ext)
    (hroots : ∀ r ∈ gcRoots roots m, (m.ref[r.natAbs]?).isSome) :
    ∃ m', collectGarbage roots m = (.ok (), m') ∧ Inv m' ∧ RefExact m' ext ∧
      ∀ u, GcReach m.tbl (GcHeld ext) u →
        (u = 1 ∨ (m'.tbl.node? u).isSome) ∧ ∀ a, den m'.tbl (u : Int) a = den m.tbl (u : Int) a := by
  obtain ⟨m', hrun, hp⟩ := collectGarbage_rooted_spec roots m ext hi hr hroots
  refine ⟨m', hrun, hp.inv, hp.refExact, fun u hu => ?_⟩
  have hmem := hp.reach_kept hi.toInvS hu
  exact ⟨hmem, fun a => hp.den_eq (u : Int) (by simpa [Tbl.Mem] using hmem) a⟩

/-- non-vacuity: node 3 is reachable from the held node 4 in the example, the start worklist is `[2]` -/
example : GcReach exM.tbl (GcHeld exExt) 3 ∧ (∀ w ∈ [2], exM.ref[w]? = some 0) := by
  constructor
  · have h4 : GcReach exM.tbl (GcHeld exExt) 4 := GcReach.root (show 0 < exExt 4 by decide)
    have hn : exM.tbl.node? 4 = some ⟨0, -1, 3⟩ := by decide
    exact GcReach.hi h4 hn
  · intro w hw
    simp only [List.mem_cons, List.not_mem_nil, or_false] at hw
    subst hw; decide

/-- … and a genuine (one-step) prefix of a run exists from that worklist -/
example : ∃ m' W', GcSteps exM [2] m' W' ∧ m'.tbl.succ.size + 1 = exM.tbl.succ.size := by
  have hi : GcInv exM exExt [2] := ⟨exM_inv.toInvS, exM_refExact, by
    intro w hw
    simp only [List.mem_cons, List.not_mem_nil, or_false] at hw
    subst hw; decide, by simp⟩
  obtain ⟨work', m', hstep, -, hsz⟩ := gc_progress hi (u := 2) (by simp)
  exact ⟨m', work', GcSteps.step (u := 2) (by simp) hstep (GcSteps.refl _ _), hsz⟩

/-! ### every pop order gives the same result -/

/-- The Python worklist is a `set`; whatever element `unused.pop()` returns at each step:
(1) the step succeeds (no assertion, no `KeyError`) and removes one node, so every run
terminates; (2) every maximal run from a worklist with the elements of the initial `unused`
ends — after the final cache reset — in the SAME state as the model's `collectGarbage`
(which pops the list head).  Full (`roots = none`) and rooted collections alike. -/
theorem C06_gc_any_schedule (roots : Option (List Int)) (m : Mgr) (ext : Nat → Nat)
    (hi : Inv m) (hr : RefExact m ext)
    (hroots : ∀ r ∈ gcRoots roots m, (m.ref[r.natAbs]?).isSome) :
    (∃ m', collectGarbage roots m = (.ok (), m') ∧
      ∀ (W : List Nat) (mf : Mgr), W.Nodup →
        (∀ k, k ∈ W ↔ (m.ref[k]? = some 0 ∧ ∃ r ∈ gcRoots roots m, r.natAbs = k)) →
        GcRun m W mf → Mgr.Same (gcFinish mf) m') ∧
    (∀ (m1 : Mgr) (work : List Nat) (u : Nat), GcInv m1 ext work → u ∈ work →
      ∃ work' m2, gcStep u (work.erase u) m1 = (.ok work', m2) ∧ GcInv m2 ext work' ∧
        m2.tbl.succ.size + 1 = m1.tbl.succ.size) :=
  ⟨gc_any_schedule roots m ext hi hr hroots, fun _ _ _ h hu => gc_progress h hu⟩

example : ∃ m', collectGarbage none exM = (.ok (), m') := by
  obtain ⟨m', h, -⟩ := (C06_gc_any_schedule none exM exExt exM_inv exM_refExact (by
    intro r hr'
    exact (gcRoots_none_mem exM r.natAbs).mp ⟨r, hr', rfl⟩)).1
  exact ⟨m', h⟩
/-- the start worklist of the example is `[2]`, and `[2]` admits a run -/
example : ∀ k, k ∈ [2] ↔ (exM.ref[k]? = some 0 ∧ ∃ r ∈ gcRoots none exM, r.natAbs = k) := by
  intro k
  rw [gcRoots_none_mem]
  constructor
  · intro h
    simp only [List.mem_cons, List.not_mem_nil, or_false] at h
    subst h; decide
  · rintro ⟨h, -⟩
    have hk := getElem?_mem_keys _ _ _ h
    have hkeys : exM.ref.keys = [1, 2, 3, 4] := by decide
    rw [hkeys] at hk
    simp only [List.mem_cons, List.not_mem_nil, or_false] at hk
    rcases hk with rfl | rfl | rfl | rfl
    · have : exM.ref[1]? = some 6 := by decide
      rw [this] at h; cases h
    · simp
    · have : exM.ref[3]? = some 1 := by decide
      rw [this] at h; cases h
    · have : exM.ref[4]? = some 1 := by decide
      rw [this] at h; cases h

/-! ### rooted collection (used by `swap`) -/

/-- `collect_garbage(roots)`: terminates without error (all roots being nodes), keeps the
invariant and exact counts (SAME ledger), empties the computed table and removes EXACTLY the
count-0 cascade started at the roots whose count is 0 (`Dead`); nothing else changes.
Frame facts (as for the full collection, `C06_gc_exact`):
* the removed set by reachability: a node stays iff it is reachable from a node the user holds
  or from a count-0 node that is NOT among the roots (`GcKeep`: the rooted collection only
  starts at the given roots, other unreferenced nodes and what hangs below them are not
  looked at); when every count-0 node is among the roots this is "reachable from a held node";
* everything reachable from a held node stays; the surviving nodes are unchanged and denote
  what they denoted;
* `vars`, the level order, the reordering switches (`lastLen`, `ctx`) are unchanged, hence
  `OrderOK` is kept;
* the count of a surviving node never grows, and is unchanged when none of its stored
  parents was removed; no count drops to 0 through the ledger (held nodes keep a positive count);
* unique-table entries of survivors are untouched, those of removed nodes are gone;
  `_min_free` is still the least unused number; `len` does not grow. -/
theorem C06_gc_rooted (rs : List Int) (m : Mgr) (ext : Nat → Nat) (hi : Inv m) (hr : RefExact m ext)
    (hroots : ∀ r ∈ rs, m.tbl.Mem r) :
    ∃ m', collectGarbage (some rs) m = (.ok (), m') ∧ Inv m' ∧ RefExact m' ext ∧
      (∀ k x, m'.tbl.node? k = some x ↔
        (m.tbl.node? k = some x ∧ ¬ Dead m.tbl ext (gcStart (some rs) m) k)) ∧
      (∀ (u : Int) a, m'.tbl.Mem u → den m'.tbl u a = den m.tbl u a) ∧
      (∀ key : List Int, m'.cache[key]? = none) ∧
      -- the removed set by reachability
      (∀ k x, m'.tbl.node? k = some x ↔
        (m.tbl.node? k = some x ∧ GcReach m.tbl (GcKeep m ext (gcStart (some rs) m)) k)) ∧
      ((∀ k, m.ref[k]? = some 0 → ∃ r ∈ rs, r.natAbs = k) →
        ∀ k x, m'.tbl.node? k = some x ↔ (m.tbl.node? k = some x ∧ GcReach m.tbl (GcHeld ext) k)) ∧
      (∀ u, GcReach m.tbl (GcHeld ext) u → (u = 1 ∨ (m'.tbl.node? u).isSome)) ∧
      -- the order and the switches
      m'.tbl.vars = m.tbl.vars ∧ m'.tbl.l2v = m.tbl.l2v ∧ m'.lastLen = m.lastLen ∧ m'.ctx = m.ctx ∧
      (OrderOK m.tbl → OrderOK m'.tbl) ∧
      -- counts of the survivors
      (∀ u c, m'.ref[u]? = some c → ∃ c0, m.ref[u]? = some c0 ∧ c ≤ c0 ∧
        ((∀ k x, m.tbl.node? k = some x → (x.lo.natAbs = u ∨ x.hi.natAbs = u) →
            m'.tbl.node? k = some x) → c = c0)) ∧
      (∀ u, 0 < ext u → ∃ c, m'.ref[u]? = some (c + 1)) ∧
      -- unique table, `_min_free`, size
      (∀ k x, m'.tbl.node? k = some x → m'.pred[x.key]? = m.pred[x.key]?) ∧
      (∀ k x, m.tbl.node? k = some x → m'.tbl.node? k = none → m'.pred[x.key]? = none) ∧
      (LeastFree m → LeastFree m') ∧ m'.len ≤ m.len := by
  obtain ⟨m', hrun, hp⟩ := collectGarbage_rooted_spec (some rs) m ext hi hr
    (fun r hr' => (hr.dom _).mpr (hroots r hr'))
  have hW : ∀ k, gcStart (some rs) m k → m.ref[k]? = some 0 := fun k h => h.1
  have hnodes : ∀ k x, m'.tbl.node? k = some x ↔
      (m.tbl.node? k = some x ∧ GcReach m.tbl (GcKeep m ext (gcStart (some rs) m)) k) := by
    intro k x
    rw [hp.nodes]
    constructor
    · rintro ⟨h1, h2⟩
      refine ⟨h1, Classical.byContradiction fun hn => h2 ?_⟩
      exact (dead_iff_unreachable hi.toInvS hr hW k x h1).mpr hn
    · rintro ⟨h1, h2⟩
      exact ⟨h1, fun hd => (dead_iff_unreachable hi.toInvS hr hW k x h1).mp hd h2⟩
  refine ⟨m', hrun, hp.inv, hp.refExact, hp.nodes, fun u a hu => hp.den_eq u hu a,
    collectGarbage_ok_cache _ m m' hrun, hnodes, ?_, fun u hu => hp.reach_kept hi.toInvS hu,
    hp.sub.vars, hp.sub.l2v, hp.sub.lastLen, hp.sub.ctx,
    fun ho => ho.of_same_order hp.sub.vars hp.sub.l2v,
    fun u c hc => hp.ref_le hr u c hc, ?_, ?_, hp.sub.predGone, hp.sub.leastFree, ?_⟩
  · intro hall k x
    rw [hnodes, gcReach_keep_full (W := gcStart (some rs) m) (fun k hk => ⟨hk, hall k hk⟩)]
  · intro u he
    have hmem := hp.refExact.mem_of_ext_pos he
    have hg := hp.refExact.get (u := (u : Int)) (by simpa [Tbl.Mem] using hmem)
    simp only [Int.natAbs_natCast] at hg
    exact ⟨indeg m'.tbl u + (ext u - 1) + (if u = 1 then 1 else 0), by rw [hg]; congr 1; omega⟩
  · intro k x hk
    apply hp.sub.predKeep
    intro k' x' hk' hkey
    have hk0 := hp.sub.sub k x hk
    have hx : x' = x := Nd.key_inj hkey
    subst hx
    have : k' = k := hi.wf.unique _ _ _ hk' hk0
    subst this
    simp [hk]
  · have := hp.sub.size; simp only [Mgr.len]; omega

example : ∃ m', collectGarbage (some [2, -3]) exM = (.ok (), m') ∧ Inv m' := by
  obtain ⟨m', h1, h2, -⟩ := C06_gc_rooted [2, -3] exM exExt exM_inv exM_refExact (by
    intro r hr'
    simp only [List.mem_cons, List.not_mem_nil, or_false] at hr'
    rcases hr' with rfl | rfl <;> decide)
  exact ⟨m', h1, h2⟩
/-- on the example the rooted collection from `{2, -3}` frees node 2 only (3 has count 1) -/
example : (collectGarbage (some [2, -3]) exM).2.tbl.succ.keys = [3, 4] := by decide
/-- non-vacuity of the rooted/unrooted difference: with the root `-3` only, the unreferenced
node 2 is NOT among the roots, is a `GcKeep` node, and stays (the code really keeps it);
and the premise "every count-0 node is among the roots" holds for the roots `{2, -3}` -/
example : (collectGarbage (some [-3]) exM).2.tbl.succ.keys = [2, 3, 4] ∧
    GcKeep exM exExt (gcStart (some [-3]) exM) 2 := by
  refine ⟨by decide, Or.inr ⟨by decide, ?_⟩⟩
  · rintro ⟨-, r, hr', h⟩
    simp only [gcRoots, List.mem_cons, List.not_mem_nil, or_false] at hr'
    subst hr'; revert h; decide
/-- … and for the roots `{2, -3}` every count-0 node is a root, so that collection leaves
exactly what is reachable from the held node 4 -/
example : ∀ k, exM.ref[k]? = some 0 → ∃ r ∈ [(2 : Int), -3], r.natAbs = k := by
  intro k h
  have hk := getElem?_mem_keys _ _ _ h
  have hkeys : exM.ref.keys = [1, 2, 3, 4] := by decide
  rw [hkeys] at hk
  simp only [List.mem_cons, List.not_mem_nil, or_false] at hk
  rcases hk with rfl | rfl | rfl | rfl <;> revert h <;> decide

/-! ### no stale computed-table entry -/

/-- (a) whenever `collect_garbage` (full or rooted) returns normally, the computed table is
empty — no hypothesis needed — so no result remembered for a number that was freed (and may be
re-used by the next `find_or_add`) can ever be returned;
(b) between collections every entry `(g,u,v) ↦ w` of a manager satisfying the invariant mentions
only live nodes and is semantically right (this is the clause `Inv.cache`);
(c) in particular no entry names a freed number. -/
theorem C06_no_stale_cache (roots : Option (List Int)) (m m' : Mgr)
    (h : collectGarbage roots m = (.ok (), m')) :
    (∀ key : List Int, m'.cache[key]? = none) ∧
    (∀ g u v w, Inv m' → m'.cache[iteKey g u v]? = some w →
      m'.tbl.Mem g ∧ m'.tbl.Mem u ∧ m'.tbl.Mem v ∧ m'.tbl.Mem w ∧
      ∀ a, den m'.tbl w a = if den m'.tbl g a then den m'.tbl u a else den m'.tbl v a) ∧
    (∀ (k : Nat) g u v, m'.tbl.node? k = none → m'.cache[iteKey g u v]? ≠ some (k : Int) ∧
      m'.cache[iteKey g u v]? ≠ some (-(k : Int))) := by
  have hc := collectGarbage_ok_cache roots m m' h
  refine ⟨hc, ?_, ?_⟩
  · intro g u v w hi he
    have := hi.cache g u v w he
    exact ⟨this.mg, this.mu, this.mv, this.mw, this.den⟩
  · intro k g u v _
    rw [hc]; exact ⟨by simp, by simp⟩

/-- clause (b) for every manager satisfying the invariant (states between collections) -/
theorem C06_cache_entries_live (m : Mgr) (hi : Inv m) (g u v w : Int)
    (h : m.cache[iteKey g u v]? = some w) :
    m.tbl.Mem g ∧ m.tbl.Mem u ∧ m.tbl.Mem v ∧ m.tbl.Mem w ∧
    ∀ a, den m.tbl w a = if den m.tbl g a then den m.tbl u a else den m.tbl v a :=
  ⟨(hi.cache g u v w h).mg, (hi.cache g u v w h).mu, (hi.cache g u v w h).mv, (hi.cache g u v w h).mw,
   (hi.cache g u v w h).den⟩

/-- non-vacuity: a manager WITH a computed-table entry, on which the collection returns normally -/
example : (∀ key : List Int,
    (collectGarbage none { exM with cache := exM.cache.insert (iteKey 2 3 (-1)) 4 }).2.cache[key]? = none) := by
  obtain ⟨m', h⟩ : ∃ m', collectGarbage none { exM with cache := exM.cache.insert (iteKey 2 3 (-1)) 4 }
      = (.ok (), m') := by
    have hi : InvS { exM with cache := exM.cache.insert (iteKey 2 3 (-1)) 4 } :=
      ⟨exM_inv.wf, exM_inv.pred, exM_inv.freeGe, exM_inv.free⟩
    have hr : RefExact { exM with cache := exM.cache.insert (iteKey 2 3 (-1)) 4 } exExt :=
      exM_refExact.congr rfl rfl
    obtain ⟨unused, mf, hrun, -⟩ := collectGarbage_run none _ exExt hi hr (by
      intro r hr'
      exact (gcRoots_none_mem _ r.natAbs).mp ⟨r, hr', rfl⟩)
    exact ⟨_, hrun⟩
  rw [h]
  exact (C06_no_stale_cache none _ m' h).1

end DD
