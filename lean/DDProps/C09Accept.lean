/-
  DDProps.C09Accept — ACCEPTANCE of recorded schedules by the DECORATED calls (C09, C17).

  `C09_*_anySchedule`, `C17_*_dyn_anySchedule`, `*_every_outcome` hold for every recorded schedule,
  with `.sched` (MODEL-SCHEDULE-MISMATCH) allowed for every non-empty one.  Here: for every VALID
  CHOICE of the iteration orders of the sifting between the two attempts (`Choice.Valid`,
  DDProps.C07Accept) there is a schedule — empty if no reordering is requested, else the record of
  the orders picked — with which the scheduled model of the decorated call does exactly what the
  choice-driven call (`tryToReorderC`, DD.DynChoice) does, which it consumes exactly, and with
  which it does NOT answer `.sched`: it returns the documented result (C09), or raises an
  exception of the code with everything kept (C17).

  The body has to be natural in the recorded schedule inside a reordering context (`SNc`: it
  neither reads nor writes `Mgr.sched`) and not answer `.sched` itself (`NSc`); proved for the
  bodies of `var`, `ite`, `cofactor`, `quantify`, `compose`, `rename`, hence for `apply`, `~`,
  `let`: every decorated operation of the histories (`UOp`).
-/
import DDProofs.SchedAcceptGuards
import DDProps.C07Accept
open Std

namespace DD

/-- C09 / C17 (acceptance, generic): `_try_to_reorder` around a body `f` that is natural in the
schedule (`SNc`), does not answer `.sched` (`NSc`) and keeps the invariant whatever its arguments
(`TotE`, the hypothesis of `C17_total_dyn_anySchedule`).  Between two decorated calls (`DynInvS`,
two variables), for every valid choice `c` there is a schedule `sch` such that

* if the choice-driven call returned, `sch` is the record of the orders `c` picked;
* with `sch ++ rest` recorded, the decorated call ends with the result and in the state of the
  choice-driven call, `rest` left: the schedule is consumed exactly;
* in particular it does not end in `MODEL-SCHEDULE-MISMATCH`. -/
theorem C09_decorator_accepts_every_choice {α} (ext : Nat → Nat) (c : Choice) (hc : c.Valid)
    (f : M α) (hf : SNc f) (hns : NSc f)
    (hbody : ∀ m0 : Mgr, Inv m0 → m0.ctx = true → OrderOK m0.tbl → TotE m0 (f m0))
    (m : Mgr) (hD : DynInvS ext m) :
    ∃ sch, (∀ r log', (tryToReorderC c f [] m).1 = .ok (r, log') → log' = sch) ∧
      (∀ rest, tryToReorder f { m with sched := sch ++ rest } =
        (dropLog (tryToReorderC c f [] m).1, { (tryToReorderC c f [] m).2 with sched := rest })) ∧
      ∀ rest, (tryToReorder f { m with sched := sch ++ rest }).1 ≠ .error .sched :=
  tryToReorder_accepts ext c hc f hf hns hbody m hD

/-- the bodies of the decorated operations satisfy the two hypotheses on the body -/
theorem C09_bodies_natural :
    (∀ name, SNc (varBody name) ∧ NSc (varBody name)) ∧
    (∀ g u v, SNc (iteRaw g u v) ∧ NSc (iteRaw g u v)) ∧
    (∀ u values, SNc (cofactorBody u values) ∧ NSc (cofactorBody u values)) ∧
    (∀ u qvars fa, SNc (quantifyBody u qvars fa) ∧ NSc (quantifyBody u qvars fa)) ∧
    (∀ f varSub, SNc (composeBody f varSub) ∧ NSc (composeBody f varSub)) ∧
    (∀ u dvars, SNc (renameBody u dvars) ∧ NSc (renameBody u dvars)) :=
  ⟨fun n => ⟨(varBody_sn n).toC, (varBody_ns n).toC⟩,
   fun g u v => ⟨(iteRaw_sn g u v).toC, (iteRaw_ns g u v).toC⟩,
   fun u vs => ⟨(cofactorBody_sn u vs).toC, (cofactorBody_ns u vs).toC⟩,
   fun u q fa => ⟨(quantifyBody_snk u q fa).snc, (quantifyBody_snk u q fa).nsc⟩,
   fun f vs => ⟨(composeBody_snk f vs).snc, (composeBody_snk f vs).nsc⟩,
   fun u d => ⟨(renameBody_snk u d).snc, (renameBody_snk u d).nsc⟩⟩

/-- C09 / C17 (acceptance, every decorated operation of the histories, ANY arguments): `var`,
`ite`, `apply` with any operator string, `~`, `cofactor`, `quantify`, `compose`, `rename`, `let`.
`runOpC c b` is the choice-driven call; for every valid choice there is a schedule with which
`runOp b` does what `runOpC c b` does, consumes it exactly, and does not answer `.sched`. -/
theorem C09_decorated_accepts_every_choice (ext : Nat → Nat) (c : Choice) (hc : c.Valid) (m : Mgr)
    (hD : DynInvS ext m) (b : UOp) (hdec : b.decorated = true) :
    ∃ sch, (logOf (runOpC c b m).1 = none ∨ logOf (runOpC c b m).1 = some sch) ∧
      (∀ rest, (runOp b { m with sched := sch ++ rest }).2 = { (runOpC c b m).2 with sched := rest }) ∧
      (∀ rest, (runOp b { m with sched := sch ++ rest }).1 =
        (match (runOpC c b m).1 with | .ok (r, _) => .ok r | .error e => .error e)) ∧
      ∀ rest, isSchedErr (runOp b { m with sched := sch ++ rest }).1 = false := by
  obtain ⟨α, FC, F, f, e1, e2, sch, hrec, heq, hns⟩ := decorated_accepts ext c hc m hD b hdec
  refine ⟨sch, ?_, fun rest => ?_, fun rest => ?_, fun rest => ?_⟩
  · rw [e2, logOf_mapResC]
    generalize (FC m).1 = a at hrec
    cases a with
    | error e => exact Or.inl rfl
    | ok p =>
      obtain ⟨r, log'⟩ := p
      exact Or.inr (by rw [hrec r log' rfl]; rfl)
  · have := heq rest
    rw [e1, e2]
    show (F (setS (sch ++ rest) m)).2 = _
    rw [this]
    rfl
  · have := heq rest
    rw [e1, e2]
    show (mapRes f (F (setS (sch ++ rest) m))).1 = _
    rw [this]
    generalize (FC m) = a
    obtain ⟨ra, ma⟩ := a
    cases ra with
    | error e => rfl
    | ok p => rfl
  · have := hns rest
    rw [e1, mapRes_isSchedErr]
    show isSchedErr (F (setS (sch ++ rest) m)).1 = false
    generalize (F (setS (sch ++ rest) m)).1 = r at this
    cases r with
    | ok a => rfl
    | error e' => cases e' <;> first | rfl | exact absurd rfl this

/-- C09 (acceptance + transparency): `ite` of held references under a schedule that realises a
valid choice RETURNS the documented result (`DynPostS`: if-then-else of the operands by name,
every held reference kept) — `.sched` is not among the outcomes -/
theorem C09_ite_choice_documented (ext : Nat → Nat) (c : Choice) (hc : c.Valid) (m : Mgr)
    (hD : DynInvS ext m) (g u v : Int) (hg : HeldX ext g) (hu : HeldX ext u) (hv : HeldX ext v) :
    ∃ sch, ∀ rest, ∃ r m', ite g u v { m with sched := sch ++ rest } = (.ok r, m') ∧
      DynPostS ext (IteDoc g u v) { m with sched := sch ++ rest } r m' ∧ m'.sched = rest := by
  obtain ⟨sch, _, heq, hns⟩ := ite_accepts ext c hc m hD g u v
  refine ⟨sch, fun rest => ?_⟩
  have hO := C09_ite_transparent_anySchedule ext { m with sched := sch ++ rest }
    (hD.setSched _) g u v hg hu hv
  rcases hO.cases with ⟨r, m', hrun, hp⟩ | ⟨m', hrun, _⟩
  · refine ⟨r, m', hrun, hp, ?_⟩
    have := heq rest
    have h2 : (ite g u v (setS (sch ++ rest) m)).2.sched = rest := by
      unfold ite; rw [this]; rfl
    have h3 : ite g u v (setS (sch ++ rest) m) = (.ok r, m') := hrun
    rw [h3] at h2
    exact h2
  · exfalso
    have := hns rest
    have h3 : tryToReorder (iteRaw g u v) (setS (sch ++ rest) m) = (.error .sched, m') := hrun
    rw [h3] at this
    exact this rfl

/-- C17 (acceptance + totality): every decorated operation with ANY arguments, under a schedule
that realises a valid choice: the result is not the internal signal and not `.sched`, and
everything the caller holds is kept (`DynKeptS`) -/
theorem C17_decorated_choice_total (ext : Nat → Nat) (c : Choice) (hc : c.Valid) (m : Mgr)
    (hD : DynInvS ext m) (b : UOp) (hdec : b.decorated = true) :
    ∃ sch, ∀ rest, ∃ (α : Type) (x : Except Err α × Mgr) (f : α → Res),
      runOp b { m with sched := sch ++ rest } = mapRes f x ∧
      x.1 ≠ .error .needsReordering ∧ x.1 ≠ .error .sched ∧
      DynKeptS ext { m with sched := sch ++ rest } x.2 := by
  obtain ⟨sch, _, _, _, hns⟩ := C09_decorated_accepts_every_choice ext c hc m hD b hdec
  refine ⟨sch, fun rest => ?_⟩
  obtain ⟨α, x, f, hrun, htot⟩ := decorated_totalS { m with sched := sch ++ rest } ext
    (hD.setSched _) b hdec
  have h1 := hns rest
  rw [hrun, mapRes_isSchedErr] at h1
  have hx : x.1 ≠ .error .sched := fun h => by rw [h] at h1; cases h1
  rcases htot with ⟨hsig, hk⟩ | ⟨he, _⟩
  · exact ⟨α, x, f, hrun, hsig, hx, hk⟩
  · exact absurd he hx

/-- C09 / C17 (histories): in a good state with two variables, a decorated call with ANY arguments
whose recorded schedule is the record of a valid choice is a GUARDED call of the histories with
recorded schedules (`CallGuardS`, DDProofs.DynSchedReach): `stepS_inv` / `reachableS_inv` apply —
the guard "the model does not answer `.sched`" is discharged -/
theorem C09_callGuardS_of_choice (m : Mgr) (ext : Nat → Nat) (h : Good3 m ext) (h2 : 2 ≤ m.nvars)
    (c : Choice) (hc : c.Valid) (b : UOp) (hdec : b.decorated = true) (s : SchedItem)
    (sch : List SchedItem) (hl : logOf (runOpC c b m).1 = some (s :: sch)) :
    CallGuardS m ext ⟨s :: sch, .op (.base b)⟩ ∧
    Good3 (runCallS ⟨s :: sch, .op (.base b)⟩ m).2 (ledger3 (.op (.base b)) m ext) ∧
    Held2 ext m (runCallS ⟨s :: sch, .op (.base b)⟩ m).2 ∧
    (runCallS ⟨s :: sch, .op (.base b)⟩ m).1 ≠ .error .needsReordering := by
  have hg := callGuardS_of_choice m ext h h2 c hc b hdec s sch hl
  exact ⟨hg, stepS_inv m ext ⟨s :: sch, .op (.base b)⟩ h hg⟩

/-- … and in decidable form: the schedule encodes a choice (replaying the choice read off the
schedule records the schedule) -/
theorem C09_callGuardS_of_encodes (m : Mgr) (ext : Nat → Nat) (h : Good3 m ext) (h2 : 2 ≤ m.nvars)
    (b : UOp) (hdec : b.decorated = true) (s : SchedItem) (sch : List SchedItem)
    (he : logOf (runOpC (Choice.ofSched (s :: sch)) b m).1 = some (s :: sch)) :
    CallGuardS m ext ⟨s :: sch, .op (.base b)⟩ :=
  callGuardS_of_encodes m ext h h2 b hdec s sch he

/-- the decidable guard of a decorated call is EXACT: replaying the choice read off `sch` records
`sch` iff `sch` is the record of the choice-driven call under some valid choice -/
theorem C09_encodes_iff_choice (m : Mgr) (b : UOp) (sch : List SchedItem) :
    logOf (runOpC (Choice.ofSched sch) b m).1 = some sch ↔
      ∃ c : Choice, c.Valid ∧ logOf (runOpC c b m).1 = some sch :=
  ⟨fun h => ⟨_, Choice.ofSched_valid sch, h⟩,
   fun ⟨c, hc, hl⟩ => runOpC_encodes_of_choice c hc m sch b hl⟩

/-! ### non-vacuity -/

/-- `apply('and', 3, 5)` on `exSchedM` (reordering enabled, a request due) under `Choice.rev`: the
choice-driven call records `exRevSched` (thirteen swaps, variables visited `c, b, a`) and returns
node 8; the scheduled model with that schedule returns the same node and consumes it; so does the
schedule recorded from the real run (`exSched`, DDProps.C09Sched), which lists every level -/
theorem C09_accept_example :
    logOf (runOpC Choice.rev (.apply "and" 3 (some 5) none) exSchedM).1 = some exRevSched ∧
    (apply "and" 3 (some 5) none { exSchedM with sched := exRevSched }).1.toOption = some 8 ∧
    (apply "and" 3 (some 5) none { exSchedM with sched := exRevSched }).2.sched = [] ∧
    (apply "and" 3 (some 5) none { exSchedM with sched := exRevSched }).2.tbl.l2v.toList =
      [(0, "a"), (1, "c"), (2, "b")] ∧
    logOf (runOpC (Choice.ofSched exRevSched) (.apply "and" 3 (some 5) none) exSchedM).1 =
      some exRevSched := by
  unfold exSchedM
  decide +kernel

example : CallGuardS exSchedM exSchedExt
    ⟨exRevSched, .op (.base (.apply "and" 3 (some 5) none))⟩ :=
  (C09_callGuardS_of_choice exSchedM exSchedExt (exSchedM_dynInv.good3 (by unfold exSchedM; decide +kernel))
    exSchedM_dynInv.nvars Choice.rev Choice.rev_valid _ rfl _ _ C09_accept_example.1).1

end DD
