/-
  DDProps.C08AcceptMore — recorded schedules and the remaining methods of the autoref layer (C08).

  * `BDD.succ`, `Function.low` / `.high`: no call that can reorder — for EVERY recorded schedule
    they do what they do with none, do not answer `.sched`, and leave the schedule untouched
    (`C08_succ_child_any_schedule`).
  * `BDD.copy(u, other)`, module `copy_bdd(u, target)` between two managers (DD.Auto): a reordering
    may be served in the TARGET; for every valid choice of its iteration orders there is a schedule
    — the record of the choice-driven copy — with which the driver's execution does what the
    choice-driven copy does, consumes it, and does not answer `.sched`
    (`C08_copies_accept_every_choice`).
  Not lifted: `Function.__le__` / `__lt__` (the decorated `other | ~self` runs after a temporary
  `Function` was made: the intermediate session state needs the invariant reasoning of
  DDProofs.AutoTemps), and the faithful recursive copy of DD.ApiXCopy.
-/
import DDProofs.SchedAcceptAutoMore
import DDProps.C08Accept
open Std

namespace DD

/-- C08: `BDD.succ`, `Function.low`, `Function.high` under ANY recorded schedule -/
theorem C08_succ_child_any_schedule (sch : List SchedItem) (a : AMgr) :
    (∀ hu h1 h2, aSucc hu h1 h2 (setSchedA sch a) =
        ((aSucc hu h1 h2 a).1, setSchedA sch (aSucc hu h1 h2 a).2) ∧
      (aSucc hu h1 h2 a).1 ≠ .error .sched) ∧
    (∀ high hs h, fChild high hs h (setSchedA sch a) =
        ((fChild high hs h a).1, setSchedA sch (fChild high hs h a).2) ∧
      (fChild high hs h a).1 ≠ .error .sched) :=
  ⟨fun hu h1 h2 => aSucc_asn hu h1 h2 sch a, fun high hs h => fChild_asn high hs h sch a⟩

/-- C08 (acceptance): the copies between two managers accept every valid choice of the iteration
orders of a reordering served in the target -/
theorem C08_copies_accept_every_choice (dst : AMgr) (hi : AInv false dst) (h2 : Two false dst)
    (c : Choice) (hc : c.Valid) (src : AMgr) (hu h : Nat) :
    RunAccepts (aCopyToC c src hu h) (aCopyTo src hu h) dst ∧
    RunAccepts (aCopyBddToC c src hu h) (aCopyBddTo src hu h) dst :=
  ⟨.of (aCopyTo_accepts (hext dst) c hc dst (hi.dynInvS2 h2) src hu h),
   .of (aCopyBddTo_accepts (hext dst) c hc dst (hi.dynInvS2 h2) src hu h)⟩

/-! ### non-vacuity -/

/-- the hypotheses hold of `exAutoS` (DDProps.C08Sched), taken as source and as target -/
example : RunAccepts (aCopyBddToC Choice.rev exAutoS 2 7) (aCopyBddTo exAutoS 2 7) exAutoS :=
  (C08_copies_accept_every_choice exAutoS exAutoS_inv exAutoS_two Choice.rev Choice.rev_valid
    exAutoS 2 7).2

/-- `Function.high` of `fx` under the recorded schedule of another call: the schedule is untouched -/
theorem C08_child_sched_example :
    (fChild true 2 9 (setSchedA exAutoSched exAutoS)).2.m.sched.length = exAutoSched.length ∧
    (fChild true 2 9 (setSchedA exAutoSched exAutoS)).1.toOption = (fChild true 2 9 exAutoS).1.toOption := by
  unfold exAutoS
  decide +kernel

end DD
