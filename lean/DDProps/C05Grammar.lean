/-
  DDProps.C05Grammar — the Pratt model of `dd._parser` is SOUND for the grammar of the source:
  whatever tree `parse` returns for a token string, the productions of `dd/_parser.py`
  (regenerated table `Gen.grammar`, one entry per alternative of `Gen.productions`) derive that
  string from `expr` with that tree as the value of the semantic actions.

  So "LALR ↔ model" is no longer by test only in this direction: the model never invents a
  reading the grammar does not have.  What remains tied by the correspondence check is the
  CHOICE among the derivations of an ambiguous string (the LALR tables with the precedence
  declarations vs. the binding powers of the model; for the model: `C05_parse_printMin/Top`,
  `C05_precedence_pairs`, `C05_left_assoc`) and the rejection of strings outside the grammar.
-/
import DDProofs.ParseGrammar
import DDProps.C05
open Std
namespace DD

/-- the alternatives of the grammar the relation `Derives` has a constructor for -/
def modelGrammar : List (String × String × List String) :=
  [("p_binary", "expr", ["expr", "AND", "expr"]), ("p_binary", "expr", ["expr", "OR", "expr"]),
   ("p_binary", "expr", ["expr", "XOR", "expr"]), ("p_binary", "expr", ["expr", "IMPLIES", "expr"]),
   ("p_binary", "expr", ["expr", "EQUIV", "expr"]), ("p_binary", "expr", ["expr", "EQUALS", "expr"]),
   ("p_binary", "expr", ["expr", "MINUS", "expr"]), ("p_bool", "expr", ["TRUE"]), ("p_bool", "expr", ["FALSE"]),
   ("p_name", "name", ["NAME"]), ("p_names_end", "names", ["name"]),
   ("p_names_iter", "names", ["names", "COMMA", "name"]), ("p_negative_number", "number", ["MINUS", "NUMBER"]),
   ("p_node", "expr", ["AT", "number"]), ("p_number", "number", ["NUMBER"]),
   ("p_paren", "expr", ["LPAREN", "expr", "RPAREN"]), ("p_quantifier", "expr", ["EXISTS", "names", "COLON", "expr"]),
   ("p_quantifier", "expr", ["FORALL", "names", "COLON", "expr"]),
   ("p_rename", "expr", ["RENAME", "subs", "COLON", "expr"]), ("p_substitution", "sub", ["name", "DIV", "name"]),
   ("p_substitutions_end", "subs", ["sub"]), ("p_substitutions_iter", "subs", ["subs", "COMMA", "sub"]),
   ("p_ternary_conditional", "expr", ["ITE", "LPAREN", "expr", "COMMA", "expr", "COMMA", "expr", "RPAREN"]),
   ("p_unary", "expr", ["NOT", "expr"]), ("p_var", "expr", ["name"])]

set_option maxRecDepth 8192 in
/-- the alternatives of the current source are exactly those (a new or changed production breaks
this obligation; a removed one also breaks `derives_generic`), every alternative has a semantic
action in `act` under its function name, and the table lists the functions of `Gen.productions` -/
theorem C05_grammar_covered :
    Gen.grammar = modelGrammar ∧
    (Gen.grammar.all fun r => Gen.productions.any fun q => q.1 == r.1) = true ∧
    (Gen.productions.all fun q => Gen.grammar.any fun r => q.1 == r.1) = true := by
  decide

/-- C05 (soundness for the grammar, inductive form): a tree the model returns for a token string
is derived for that string by the productions (`Derives`: one constructor per alternative, no
precedence) -/
theorem C05_parse_sound (toks : List Tok) (t : Ast) (h : parse toks = some t) : Derives toks t :=
  parse_sound toks t h

/-- C05 (soundness for the REGENERATED grammar): … and by a parse tree over `Gen.grammar` whose
value under the semantic actions of the `p_*` functions is `t` -/
theorem C05_parse_sound_grammar (toks : List Tok) (t : Ast) (h : parse toks = some t) :
    GDerives toks t :=
  parse_sound_generic toks t h

/-- from text: what `add_expr` evaluates is a tree the grammar derives for the token string of
the text -/
theorem C05_addExpr_tree_derived (s : String) (t : Ast) (h : parse (tokenize s) = some t) :
    GDerives (tokenize s) t ∧ addExpr s = tryToReorder (evalAst t) := by
  refine ⟨parse_sound_generic _ _ h, ?_⟩
  unfold addExpr
  congr 1
  simp only [parse] at h
  unfold addExprToks
  split at h
  · rename_i t' ht'
    simp only [Option.some.injEq] at h
    subst h
    rw [ht']
  · simp at h

/-- every well-formed tree has a derivation of each of its printed forms -/
theorem C05_printed_derived (ex : Ast → Bool) (t : Ast) (h : t.WF) : Derives (printG ex t) t :=
  parse_sound _ _ (parse_printG ex t h)

/-- non-vacuity: the example formula of `DDProps/C05.lean` (every construct) -/
example : Derives (printMin exampleAst) exampleAst :=
  C05_parse_sound _ _ (by decide)

example : GDerives (tokenize "a & \\E x, y: b | c => d")
    (.bin .and (.var "a") (.quant false ["x", "y"]
      (.bin .implies (.bin .or (.var "b") (.var "c")) (.var "d")))) :=
  C05_parse_sound_grammar _ _ (by decide)

/-- the relation is the AMBIGUOUS grammar: `a & b | c` is derived with both trees; `parse`
returns the one the precedence table selects (`C05_precedence_pairs`) -/
example : Derives [.name "a", .op .and, .name "b", .op .or, .name "c"]
      (.bin .and (.var "a") (.bin .or (.var "b") (.var "c"))) ∧
    Derives [.name "a", .op .and, .name "b", .op .or, .name "c"]
      (.bin .or (.bin .and (.var "a") (.var "b")) (.var "c")) ∧
    parse [.name "a", .op .and, .name "b", .op .or, .name "c"] =
      some (.bin .or (.bin .and (.var "a") (.var "b")) (.var "c")) :=
  ⟨.bin .and (.var "a") (.bin .or (.var "b") (.var "c")),
   .bin .or (.bin .and (.var "a") (.var "b")) (.var "c"), by decide⟩

end DD
