/-
  DDProps.Histories5 — what the second audit of the statements asked of the every-history layer.

  * GAP 10 (`_pred` keys).  `KeysOK` / `PredShape` / `KeysShaped` / `PredNodes` — "every key of
    `_pred` is a node triple", what is lost by modelling tuples as lists — was a HYPOTHESIS of
    `C12_json_load_dyn`, `C12_manager_roundtrip`, `C15_bddToMdd_total`, shown for histories over
    the first alphabet only.  It holds in every state of every history over `UOp5`
    (`runOp5_keysOK`: no guard, no invariant needed), so those theorems hold after every guarded
    history WITHOUT the hypothesis: `C12_json_load_dyn_reachable`,
    `C12_manager_roundtrip_reachable`, `C15_bddToMdd_reachable5`.
  * GAP 7.  `load_json(load_order=False)` with reordering ENABLED as a step of a history
    (`loadJson_dyn_step5`, through `C12_json_load_dyn`; its hypothesis is `JsonWF`, which is not a
    decidable guard, so it is a lemma to chain histories with and not a case of `OpGuard5`);
    `copy_vars` under the weakest compatibility and for every outcome
    (`C11_copyVars_weakest_every_history5`, `C11_copyVars_any_outcome`, `copyVars_refused_gap`).
  * GAP 5.  A manager loaded from a DDDMP file as the START of a history (`dddmp_start`).
  * GAP 15.  `C03_quantify_every_history5`, `C04_let_every_history5`.
-/
import DDProofs.Reach5Keys
import DDProofs.AutoValues2
import DDProps.Histories4
import DDProps.C03
import DDProps.C04
import DDProps.C09
import DDProps.C12
import DDProps.C12Dyn
import DDProps.C15
import DDProps.C16
open Std
namespace DD

local notation "⟪" ops "⟫" => run5 ops St.init

/-! ### GAP 10: the keys of `_pred` after every history -/

theorem KeysOK.keysShaped {m : Mgr} (h : KeysOK m) : KeysShaped m :=
  fun k u hk => by obtain ⟨n, hn⟩ := h k u hk; exact ⟨n, hn.symm⟩

theorem KeysShaped.keysOK {m : Mgr} (h : KeysShaped m) : KeysOK m :=
  fun k u hk => by obtain ⟨n, hn⟩ := h k u hk; exact ⟨n, hn.symm⟩

/-- the invariant of reachable states INCLUDING the shape of the `_pred` keys, after every history
over the widest alphabet, from every such state -/
theorem C06_keys_every_history5 (s : St) (hs : GoodK s.m s.ext) (ops : List UOp5)
    (hg : Ops5Guarded ops s) :
    GoodK (run5 ops s).m (run5 ops s).ext ∧ PredNodes (run5 ops s).m ∧ KeysShaped (run5 ops s).m :=
  have h := reachable5K_from ops s hs hg
  ⟨h, h.predNodes, h.keys.keysShaped⟩

/-- `load_json(load_order=False)` as a STEP, dynamic reordering possibly ENABLED, for every
well-formed content: from a good state with at least two variables the call returns; the result is
the one of `C12_json_load_dyn` (`JsonLoadedDyn`); the state is good, with the key shape, for the
ledger grown by one reference per returned `Function` — a history goes on from there -/
theorem loadJson_dyn_step5 (m : Mgr) (ext : Nat → Nat) (h : GoodK m ext) (h2 : 2 ≤ m.nvars)
    (f : JsonFile) (hf : JsonWF f) :
    ∃ roots' m', loadJson f false m = (.ok roots', m') ∧ JsonLoadedDyn f ext m roots' m' ∧
      GoodK m' (extAdd ext (roots'.values.map Int.natAbs)) ∧
      GoodK (runOp5 (.loadJson f) m).2 (ledger5 (.loadJson f) m ext) := by
  obtain ⟨roots', m', he, L⟩ := C12_json_load_dyn f m ext hf (h.good.dynInv h2) h.predNodes
  have hk : KeysOK m' := by
    have := ksm_loadJson_false f m h.keys
    rw [he] at this; exact this
  have hG : GoodK m' (extAdd ext (roots'.values.map Int.natAbs)) :=
    ⟨L.dyn.good3 (L.regRoots.trans h.good.roots), hk⟩
  refine ⟨roots', m', he, L, hG, ?_⟩
  have e1 : (runOp5 (.loadJson f) m).2 = m' := by simp only [runOp5, mapRes, he]
  have e2 : ledger5 (.loadJson f) m ext = extAdd ext (roots'.values.map Int.natAbs) := by
    show jsonLedger (loadJson f false m).1 ext = _
    rw [he]; rfl
  rw [e1, e2]; exact hG

/-- **C12 after every history, the key-shape hypothesis DROPPED**: after any guarded history over
`UOp5` from any good state, reordering enabled or not, with at least two variables declared,
`load_json(load_order=False)` of every well-formed content returns with `JsonLoadedDyn`; and the
state it leaves is one histories start from -/
theorem C12_json_load_dyn_reachable (s : St) (hs : GoodK s.m s.ext) (ops : List UOp5)
    (hg : Ops5Guarded ops s) (h2 : 2 ≤ (run5 ops s).m.nvars) (f : JsonFile) (hf : JsonWF f) :
    ∃ roots' m', loadJson f false (run5 ops s).m = (.ok roots', m') ∧
      JsonLoadedDyn f (run5 ops s).ext (run5 ops s).m roots' m' ∧
      GoodK m' (extAdd (run5 ops s).ext (roots'.values.map Int.natAbs)) ∧
      ∀ (post : List UOp5), Ops5Guarded post (step5 (.loadJson f) (run5 ops s)) →
        GoodK (run5 (ops ++ .loadJson f :: post) s).m (run5 (ops ++ .loadJson f :: post) s).ext := by
  have hG := reachable5K_from ops s hs hg
  obtain ⟨roots', m', he, L, a, b⟩ := loadJson_dyn_step5 _ _ hG h2 f hf
  refine ⟨roots', m', he, L, a, fun post hp => ?_⟩
  rw [run5_append]
  exact reachable5K_from post (step5 (.loadJson f) (run5 ops s)) b hp

/-- **C12, whole-manager round trip after every history, both hypotheses DROPPED**: the manager
reached by any guarded history, dumped and loaded again, is stored as it was -/
theorem C12_manager_roundtrip_reachable (s : St) (hs : GoodK s.m s.ext) (ops : List UOp5)
    (hg : Ops5Guarded ops s) :
    ∃ m', loadManager (dumpManager (run5 ops s).m) = .ok m' ∧ MgrStored (run5 ops s).m m' :=
  have hG := reachable5K_from ops s hs hg
  C12_manager_roundtrip (run5 ops s).m hG.good.order.toDmp hG.keys

/-- **C15, `bdd_to_mdd` after every history, the key-shape hypothesis DROPPED**: for any setting of
dynamic reordering and a complete description of the integer variables the conversion returns
normally with `B2MOK`; the key shape still holds afterwards -/
theorem C15_bddToMdd_reachable5 (s : St) (hs : GoodK s.m s.ext) (ops : List UOp5)
    (hg : Ops5Guarded ops s) (dvars : List MVar) (hd : DvarsFull (run5 ops s).m.tbl dvars) :
    ∃ out mb', bddToMdd dvars none (run5 ops s).m = (.ok out, mb') ∧
      B2MOK (run5 ops s).ext dvars (run5 ops s).m out mb' ∧ KeysOK mb' ∧ mb'.sched = [] := by
  have hG := reachable5K_from ops s hs hg
  have hR : ReorderInv (run5 ops s).ext (run5 ops s).m :=
    ⟨hG.good.inv, hG.good.order, hG.good.exact, Or.inl hG.good.ctx,
      fun r hr => by rw [hG.good.roots] at hr; cases hr⟩
  obtain ⟨out, mb', he, hb, hk, hsd⟩ :=
    C15_bddToMdd_total (run5 ops s).ext (run5 ops s).m hR hG.keys.keysShaped hG.good.sched dvars hd
  exact ⟨out, mb', he, hb, hk.keysOK, hsd⟩

/-! ### GAP 5: a manager loaded from a DDDMP file as the START of a history -/

theorem ksm_dddmpAddVars : ∀ (l : List (DddmpTok × Int)), KSM (dddmpAddVars l) := by
  intro l
  induction l with
  | nil => exact ksm_pure ()
  | cons p rest ih =>
    obtain ⟨var, level⟩ := p
    intro m h
    have h1 := ksm_addVar var.show (some level) m h
    simp only [dddmpAddVars]
    split
    · next e m' heq => exact KeysOK.of_snd_eq heq h1
    · next _ m' heq => exact ih m' (KeysOK.of_snd_eq heq h1)

theorem ksm_dddmpRebuildNode (o2n : List (Int × Int)) (j : Int) (umap : List (Int × Int))
    (e : Int × DddmpEntry) : KSM (dddmpRebuildNode o2n j umap e) := by
  intro m h
  unfold dddmpRebuildNode
  split
  · split <;> exact h
  · split
    · exact h
    · split
      · exact h
      · split
        · exact h
        · split
          · exact h
          · dsimp only
            split
            · next er m' heq => exact KeysOK.of_snd_eq heq (ksm_findOrAdd _ _ _ m h)
            · next r m' heq => exact KeysOK.of_snd_eq heq (ksm_findOrAdd _ _ _ m h)

theorem ksm_dddmpRebuildLevel (o2n : List (Int × Int)) (j : Int) :
    ∀ (l : List (Int × DddmpEntry)) (umap : List (Int × Int)), KSM (dddmpRebuildLevel o2n j l umap) := by
  intro l
  induction l with
  | nil => intro umap m h; exact h
  | cons e rest ih =>
    intro umap m h
    have h1 := ksm_dddmpRebuildNode o2n j umap e m h
    simp only [dddmpRebuildLevel]
    split
    · next er m' heq => exact KeysOK.of_snd_eq heq h1
    · next umap' m' heq => exact ih umap' m' (KeysOK.of_snd_eq heq h1)

theorem ksm_dddmpRebuild (o2n : List (Int × Int)) (bdd : List (Int × DddmpEntry)) :
    ∀ (n : Nat) (umap : List (Int × Int)), KSM (dddmpRebuild o2n bdd n umap) := by
  intro n
  induction n with
  | zero => intro umap m h; exact h
  | succ n ih =>
    intro umap m h
    have h1 := ksm_dddmpRebuildLevel o2n (n : Int) bdd umap m h
    simp only [dddmpRebuild]
    split
    · next er m' heq => exact KeysOK.of_snd_eq heq h1
    · next umap' m' heq => exact ih umap' m' (KeysOK.of_snd_eq heq h1)

/-- the keys of `_pred` of a manager built by `dddmp.load` are node triples -/
theorem keysOK_loadDddmp (f : DddmpFile) (m : Mgr) (h : loadDddmp f = .ok m) : KeysOK m := by
  have hcore : ∀ m0 umap roots, dddmpLoadCore f = .ok (m0, umap, roots) → KeysOK m0 := by
    intro m0 umap roots hc
    unfold dddmpLoadCore at hc
    split at hc
    · cases hc
    · split at hc
      · cases hc
      · split at hc
        · cases hc
        · split at hc
          · cases hc
          · next mnew hnew =>
            have hk0 : KeysOK mnew := by
              unfold dddmpNewMgr at hnew
              dsimp only at hnew
              split at hnew
              · cases hnew
              · split at hnew
                · cases hnew
                · next _ m1 heq =>
                  cases hnew
                  exact KeysOK.of_snd_eq heq (ksm_dddmpAddVars _ {} keysOK_init)
            split at hc
            · cases hc
            · next umap' m1 heq =>
              cases hc
              exact KeysOK.of_snd_eq heq (ksm_dddmpRebuild _ _ _ _ mnew hk0)
  unfold loadDddmp loadDddmpU at h
  split at h
  · cases h
  · next m0 umap roots hc =>
    split at h
    · cases h
    · cases h
      exact (hcore m0 umap roots hc).congr rfl

/-- **`dddmp.load` as the start of a history.**  `load` returns a manager whose attribute `roots`
holds the loaded roots WITHOUT a reference count for them (`C16_load_good`: the counts are exact
for the EMPTY ledger), while every operation of a history assumes what `reorder` / `collect_garbage`
need: a recorded root is a reference the user holds.  So the loaded manager itself is not a state of
the history layer (the first collection frees its roots, and `reorder(order)` then raises on the
recorded root).  What IS one: the manager after the user's assignment `bdd.roots = set()` (or after
`incref` of every root, which the ledger then records — not stated here): good for the empty
ledger, with the key shape, the nodes and the order being the loaded ones. -/
theorem dddmp_start (f : DddmpFile) (hf : f.WF) :
    ∃ m, loadDddmp f = .ok m ∧ GoodK { m with roots := [] } (fun _ => 0) ∧
      ({ m with roots := [] } : Mgr).lastLen = none ∧
      (∀ r ∈ m.roots, ({ m with roots := [] } : Mgr).tbl.Mem r) ∧ DddmpRootsDenote f m ∧
      ∀ (ops : List UOp5), Ops5Guarded ops ⟨{ m with roots := [] }, fun _ => 0⟩ →
        GoodK (run5 ops ⟨{ m with roots := [] }, fun _ => 0⟩).m
          (run5 ops ⟨{ m with roots := [] }, fun _ => 0⟩).ext := by
  obtain ⟨m, hl, hg, hs, -, -, hr, hd, -⟩ := C16_load_good f hf
  have hI : Inv ({ m with roots := [] } : Mgr) :=
    ⟨hg.inv.wf, hg.inv.pred, hg.inv.freeGe, hg.inv.free, hg.inv.refOne, hg.inv.refDom, hg.inv.cache⟩
  have hG : GoodK ({ m with roots := [] } : Mgr) (fun _ => 0) :=
    ⟨⟨hI, hg.order, hg.exact.congr rfl rfl, hg.ctx, hs, rfl⟩, (keysOK_loadDddmp f m hl).congr rfl⟩
  exact ⟨m, hl, hG, hg.off, hr, hd, fun ops ho => reachable5K_from ops _ hG ho⟩

/-! ### GAP 7: `copy_vars`, weakest guard and every outcome -/

/-- C11 after ANY history under the WEAKEST compatibility: the source order is a bijection, `names`
a permutation of its variables, and whatever the manager declares at a level below the source's
number of variables is what the source has there (`varsBelowB`, the guard of `.copyVars`) —
`copy_vars` returns normally, every source variable is then declared at its source level, what was
declared stays, the manager is good for the same ledger and every held reference keeps its
function by name -/
theorem C11_copyVars_weakest_every_history5 (s : St) (hs : Good3 s.m s.ext) (ops : List UOp5)
    (hg : Ops5Guarded ops s) (src : Tbl) (names : List String) (hO : OrderOK src)
    (hperm : names.Perm src.vars.keys)
    (hbelow : ∀ (v : String) (i : Nat), (run5 ops s).m.tbl.vars[v]? = some i → i < src.nvars →
      src.vars[v]? = some i) :
    ∃ m', copyVarsCore src names (run5 ops s).m = (.ok (), m') ∧ Good3 m' (run5 ops s).ext ∧
      Held2 (run5 ops s).ext (run5 ops s).m m' ∧ m'.lastLen = (run5 ops s).m.lastLen ∧
      (∀ (v : String) (l : Nat), src.vars[v]? = some l → m'.tbl.vars[v]? = some l) ∧
      (∀ (v : String) (i : Nat), (run5 ops s).m.tbl.vars[v]? = some i → m'.tbl.vars[v]? = some i) :=
  copyVars_step5w _ _ (reachable5_from ops s hs hg) src names hO hperm hbelow

/-- C11 / C17, `copy_vars`, EVERY outcome after ANY history, NO hypothesis on the source, the
visiting order or the target: returned or raised, the invariant holds, every node is there with
the same function of the LEVELS, every declared variable keeps its level, the switches are
untouched, the counts are exact for the same ledger, no schedule is left.  (A refusal can break
the ORDER only: `copyVars_refused_gap`.) -/
theorem C11_copyVars_any_outcome (s : St) (hs : Good3 s.m s.ext) (ops : List UOp5)
    (hg : Ops5Guarded ops s) (src : Tbl) (names : List String) :
    KeptV (run5 ops s).m (copyVarsCore src names (run5 ops s).m).2 ∧
    RefExact (copyVarsCore src names (run5 ops s).m).2 (run5 ops s).ext ∧
    (copyVarsCore src names (run5 ops s).m).2.sched = [] := by
  have hG := reachable5_from ops s hs hg
  obtain ⟨k, r⟩ := copyVarsCore_any src names (run5 ops s).m hG.inv
  exact ⟨k, r _ hG.exact, (copyVarsCore_sched src names (run5 ops s).m).trans hG.sched⟩

/-- source of the counterexample: variables `a`, `b`, `c` -/
def exSrcGap : Tbl :=
  (run5 [bop5 (.declare "a" none), bop5 (.declare "b" none), bop5 (.declare "c" none)] St.init).m.tbl

/-- target of the counterexample: one variable `x` -/
def exTgtGap : Mgr := (run5 [bop5 (.declare "x" none)] St.init).m

/-- **why the guard cannot be dropped (F7)**: target `{x: 0}`, source `{a: 0, b: 1, c: 2}`, the
dict visited in the order `c, a, b`.  `add_var("c", 2)` succeeds (level 2 is free), then
`add_var("a", 0)` raises `ValueError` (level 0 is `x`): the call is refused having declared `c` at
level 2 with level 1 unnamed — the order of the manager is no bijection any more (`c` has a level
that is not below the number of variables).  Visiting `a` first is refused with nothing declared. -/
theorem copyVars_refused_gap :
    OrderOK exSrcGap ∧ ["c", "a", "b"].Perm exSrcGap.vars.keys ∧ Good3 exTgtGap (fun _ => 0) ∧
    varsBelowB exSrcGap exTgtGap.tbl = false ∧
    (copyVarsCore exSrcGap ["c", "a", "b"] exTgtGap).1 = .error .value ∧
    (copyVarsCore exSrcGap ["c", "a", "b"] exTgtGap).2.tbl.vars.toList = [("c", 2), ("x", 0)] ∧
    ¬ OrderOK (copyVarsCore exSrcGap ["c", "a", "b"] exTgtGap).2.tbl ∧
    (copyVarsCore exSrcGap ["a", "b", "c"] exTgtGap).2.tbl.vars.toList = [("x", 0)] := by
  have hc : (copyVarsCore exSrcGap ["c", "a", "b"] exTgtGap).2.tbl.vars["c"]? = some 2 ∧
      (copyVarsCore exSrcGap ["c", "a", "b"] exTgtGap).2.tbl.nvars = 2 := by decide +kernel
  have he : ∀ r : Except Err Unit, (match r with | .error .value => true | _ => false) = true →
      r = .error .value := by
    intro r
    cases r with
    | ok r => intro h; cases h
    | error e => cases e <;> intro h <;> first | rfl | cases h
  refine ⟨orderOK_of_check (by decide +kernel), by decide +kernel,
    reachable5_inv [bop5 (.declare "x" none)] (by decide +kernel), by decide +kernel,
    he _ (by decide +kernel), by decide +kernel, fun hO => ?_, by decide +kernel⟩
  have := hO.lt "c" 2 hc.1
  rw [hc.2] at this
  exact Nat.lt_irrefl _ this

/-! ### GAP 15: `quantify` and `let` after every history -/

/-- a call of the first alphabet that leaves the ledger alone, as a step of a history -/
theorem base_step5 (m : Mgr) (ext : Nat → Nat) (h : Good3 m ext) (o : UOp) (hgd : OpGuard m ext o)
    (hl : ledger o m ext = ext) (hsafe : m.lastLen.isSome = true → 2 ≤ m.nvars) :
    Good3 (runOp o m).2 ext ∧ Held2 ext m (runOp o m).2 ∧
      (runOp o m).2.lastLen.isSome = m.lastLen.isSome := by
  obtain ⟨a, b, c⟩ := step5_all m ext (bop5 o) h hgd
  have a' : Good3 (runOp o m).2 (ledger o m ext) := a
  rw [hl] at a'
  exact ⟨a', b, c hsafe⟩

/-- the operands of a decorated call after a history: any nodes while dynamic reordering is not
enabled; references the user HOLDS (or the constants) once it is, and then two variables -/
def OperandsOK (m : Mgr) (ext : Nat → Nat) (opnds : List Int) : Prop :=
  (m.lastLen = none ∧ ∀ w ∈ opnds, m.tbl.Mem w) ∨ (2 ≤ m.nvars ∧ ∀ w ∈ opnds, HeldX ext w)

theorem OperandsOK.safe {m : Mgr} {ext : Nat → Nat} {l : List Int} (h : OperandsOK m ext l) :
    m.lastLen.isSome = true → 2 ≤ m.nvars := by
  intro hs
  rcases h with ⟨h0, -⟩ | ⟨h2, -⟩
  · rw [h0] at hs; cases hs
  · exact h2

/-- `quantify` on declared names in a good state, either mode: the documented result by name -/
theorem quantify_good5 (m : Mgr) (ext : Nat → Nat) (h : Good3 m ext) (u : Int) (fa : Bool)
    (names : List String) (hdecl : ∀ s ∈ names, m.tbl.vars.contains s = true)
    (hu : OperandsOK m ext [u]) :
    ∃ r m', quantify u (names.map Key.name) fa m = (.ok r, m') ∧ QuantDoc fa names u m.tbl r m'.tbl := by
  rcases hu with ⟨hoff, hm⟩ | ⟨h2, hh⟩
  · unfold quantify
    refine tryToReorder_off_doc (quantifyBody u (names.map Key.name) fa) [u]
      (fun t => ∀ s ∈ names, t.vars.contains s = true) (QuantDoc fa names u) ?_
      m h.inv h.order hoff hm hdecl
    intro m0 hI0 hc hO hpre hmem
    exact quantifyBody_out m0 hI0 (Or.inl hc) hO u (hmem u (by simp)) fa names hpre
  · obtain ⟨r, m', he, hp⟩ := C09_quantify_transparent ext m (h.dynInv h2) u (hh u (by simp)) fa names hdecl
    exact ⟨r, m', he, hp.doc⟩

theorem cofactor_good5 (m : Mgr) (ext : Nat → Nat) (h : Good3 m ext) (u : Int)
    (vals : List (String × Bool)) (hdecl : ∀ p ∈ vals, m.tbl.vars.contains p.1 = true)
    (hu : OperandsOK m ext [u]) :
    ∃ r m', cofactor u (boolKeys vals) m = (.ok r, m') ∧ CofDoc vals u m.tbl r m'.tbl := by
  rcases hu with ⟨hoff, hm⟩ | ⟨h2, hh⟩
  · unfold cofactor
    refine tryToReorder_off_doc (cofactorBody u (boolKeys vals)) [u]
      (fun t => ∀ p ∈ vals, t.vars.contains p.1 = true) (CofDoc vals u) ?_
      m h.inv h.order hoff hm hdecl
    intro m0 hI0 _ hO hpre hmem
    exact cofactorBody_out m0 hI0 hO u (hmem u (by simp)) vals hpre
  · obtain ⟨r, m', he, hp⟩ := C09_cofactor_transparent ext m (h.dynInv h2) u (hh u (by simp)) vals hdecl
    exact ⟨r, m', he, hp.doc⟩

theorem compose_good5 (m : Mgr) (ext : Nat → Nat) (h : Good3 m ext) (f : Int)
    (varSub : List (String × Int)) (hdecl : ∀ p ∈ varSub, m.tbl.vars.contains p.1 = true)
    (hu : OperandsOK m ext (f :: varSub.map (·.2))) :
    ∃ r m', compose f varSub m = (.ok r, m') ∧ ComposeDoc varSub f m.tbl r m'.tbl := by
  rcases hu with ⟨hoff, hm⟩ | ⟨h2, hh⟩
  · unfold compose
    refine tryToReorder_off_doc (composeBody f varSub) (f :: varSub.map (·.2))
      (fun t => ∀ p ∈ varSub, t.vars.contains p.1 = true) (ComposeDoc varSub f) ?_
      m h.inv h.order hoff hm hdecl
    intro m0 hI0 hc hO hpre hmem
    exact composeBody_out m0 hI0 (Or.inl hc) hO f (hmem f List.mem_cons_self) varSub hpre
      (fun p hp => hmem p.2 (List.mem_cons_of_mem _ (List.mem_map.mpr ⟨p, hp, rfl⟩)))
  · obtain ⟨r, m', he, hp⟩ := C09_compose_transparent ext m (h.dynInv h2) f (hh f List.mem_cons_self)
      varSub hdecl (fun p hp => hh p.2 (List.mem_cons_of_mem _ (List.mem_map.mpr ⟨p, hp, rfl⟩)))
    exact ⟨r, m', he, hp.doc⟩

theorem rename_good5 (m : Mgr) (ext : Nat → Nat) (h : Good3 m ext) (u : Int)
    (dvars : List (String × String)) (hd : ∀ p ∈ dvars, m.tbl.vars.contains p.2 = true)
    (hu : OperandsOK m ext [u]) :
    ∃ r m', rename u dvars m = (.ok r, m') ∧ RenameDoc dvars u m.tbl r m'.tbl := by
  rcases hu with ⟨hoff, hm⟩ | ⟨h2, hh⟩
  · unfold rename
    refine tryToReorder_off_doc (renameBody u dvars) [u]
      (fun t => ∀ p ∈ dvars, t.vars.contains p.2 = true) (RenameDoc dvars u) ?_
      m h.inv h.order hoff hm hd
    intro m0 hI0 hc hO hpre hmem
    exact renameBody_out m0 hI0 (Or.inl hc) hO u (hmem u (by simp)) dvars hpre
  · obtain ⟨r, m', he, hp⟩ := C09_rename_transparent ext m (h.dynInv h2) u (hh u (by simp)) dvars hd
    exact ⟨r, m', he, hp.doc⟩

/-- what every capstone below concludes about the state after the call: good for the same ledger,
the switch as it was, every held reference a node with its function by name -/
def After5 (m : Mgr) (ext : Nat → Nat) (m' : Mgr) : Prop :=
  Good3 m' ext ∧ m'.lastLen.isSome = m.lastLen.isSome ∧ Held2 ext m m'

/-- **C03 after every history**: `quantify(u, names, forall)` (`exist` / `forall`) issued at ANY
point of ANY guarded history over the widest alphabet (from any good state; reordering enabled or
not, a request firing at whichever node creation), on declared names and an operand that is any
node (reordering not enabled) or a held reference (enabled; two variables): the call RETURNS; its
result is a node that is true under `σ` exactly when some / every change of `σ` on `names` makes
`u` true — the function of the variable NAMES that `u` denoted before the call; the state is good
for the same ledger (the history goes on); the switch is as it was; every held reference keeps its
function by name -/
theorem C03_quantify_every_history5 (s : St) (hs : Good3 s.m s.ext) (ops : List UOp5)
    (hg : Ops5Guarded ops s) (u : Int) (fa : Bool) (names : List String)
    (hdecl : ∀ n ∈ names, (run5 ops s).m.tbl.vars.contains n = true)
    (hu : OperandsOK (run5 ops s).m (run5 ops s).ext [u]) :
    ∃ r m', runOp5 (bop5 (.quantify u (names.map Key.name) fa)) (run5 ops s).m = (.ok (.ref r), m') ∧
      m'.tbl.Mem r ∧
      (∀ σ, denN m'.tbl r σ = true ↔ qsemN fa names (denN (run5 ops s).m.tbl u) σ) ∧
      After5 (run5 ops s).m (run5 ops s).ext m' := by
  have hG := reachable5_from ops s hs hg
  obtain ⟨r, m', he, hd⟩ := quantify_good5 _ _ hG u fa names hdecl hu
  have hb := base_step5 _ _ hG (.quantify u (names.map Key.name) fa) trivial rfl hu.safe
  have e : runOp (.quantify u (names.map Key.name) fa) (run5 ops s).m = (.ok (.ref r), m') := by
    simp only [runOp, mapRes, he]
  rw [e] at hb
  exact ⟨r, m', e, hd.1, hd.2, hb.1, hb.2.2, hb.2.1⟩

/-- C03 after every history, quantified variables given as LEVELS or names (`_map_to_level`),
reordering not enabled: the statement of `C03_quantify` by level, plus the state after -/
theorem C03_quantify_levels_every_history5 (s : St) (hs : Good3 s.m s.ext) (ops : List UOp5)
    (hg : Ops5Guarded ops s) (hoff : (run5 ops s).m.lastLen = none) (u : Int)
    (hu : (run5 ops s).m.tbl.Mem u) (qvars : List Key) (fa : Bool) (lv : List Nat)
    (hlv : mapToLevelE (run5 ops s).m.tbl qvars = .ok lv) :
    ∃ r m', runOp5 (bop5 (.quantify u qvars fa)) (run5 ops s).m = (.ok (.ref r), m') ∧
      m'.tbl.Mem r ∧
      (∀ a, den m'.tbl r a = true ↔
        (match fa with
         | true => ∀ b : Asg, (∀ j, j ∉ lv → b j = a j) → den (run5 ops s).m.tbl u b = true
         | false => ∃ b : Asg, (∀ j, j ∉ lv → b j = a j) ∧ den (run5 ops s).m.tbl u b = true)) ∧
      After5 (run5 ops s).m (run5 ops s).ext m' := by
  have hG := reachable5_from ops s hs hg
  obtain ⟨r, m', he, -, -, hm, -, hd⟩ := C03_quantify _ hG.inv hoff u hu qvars fa lv hlv
  have hb := base_step5 _ _ hG (.quantify u qvars fa) trivial rfl
    (fun h => by rw [hoff] at h; cases h)
  have e : runOp (.quantify u qvars fa) (run5 ops s).m = (.ok (.ref r), m') := by
    simp only [runOp, mapRes, he]
  rw [e] at hb
  exact ⟨r, m', e, hm, hd, hb.1, hb.2.2, hb.2.1⟩

/-- **C04 after every history**: `let` in its three homogeneous forms (`{name: bool}` = cofactor,
`{name: reference}` = compose, `{name: name}` = rename) issued at ANY point of ANY guarded history
over the widest alphabet, on declared names and operands that are any nodes (reordering not
enabled) or held references (enabled; two variables): the call RETURNS the node of the documented
function of the variable NAMES — `u` with the named variables fixed / substituted by what the
given references denoted before the call / renamed —, the state is good for the same ledger, the
switch is as it was, every held reference keeps its function by name -/
theorem C04_let_every_history5 (s : St) (hs : Good3 s.m s.ext) (ops : List UOp5)
    (hg : Ops5Guarded ops s) (u : Int) :
    (∀ (vals : List (String × Bool)), vals ≠ [] →
      (∀ p ∈ vals, (run5 ops s).m.tbl.vars.contains p.1 = true) →
      OperandsOK (run5 ops s).m (run5 ops s).ext [u] →
      ∃ r m', runOp5 (bop5 (.let_ (.bools (boolKeys vals)) u)) (run5 ops s).m = (.ok (.ref r), m') ∧
        m'.tbl.Mem r ∧ (∀ σ, denN m'.tbl r σ = denN (run5 ops s).m.tbl u (ovrN vals σ)) ∧
        After5 (run5 ops s).m (run5 ops s).ext m') ∧
    (∀ (varSub : List (String × Int)), varSub ≠ [] →
      (∀ p ∈ varSub, (run5 ops s).m.tbl.vars.contains p.1 = true) →
      OperandsOK (run5 ops s).m (run5 ops s).ext (u :: varSub.map (·.2)) →
      ∃ r m', runOp5 (bop5 (.let_ (.refs varSub) u)) (run5 ops s).m = (.ok (.ref r), m') ∧
        m'.tbl.Mem r ∧
        (∀ σ, denN m'.tbl r σ = denN (run5 ops s).m.tbl u (subN (run5 ops s).m.tbl varSub σ)) ∧
        After5 (run5 ops s).m (run5 ops s).ext m') ∧
    (∀ (dvars : List (String × String)), dvars ≠ [] →
      (∀ p ∈ dvars, (run5 ops s).m.tbl.vars.contains p.2 = true) →
      OperandsOK (run5 ops s).m (run5 ops s).ext [u] →
      ∃ r m', runOp5 (bop5 (.let_ (.names dvars) u)) (run5 ops s).m = (.ok (.ref r), m') ∧
        m'.tbl.Mem r ∧
        (∀ σ, denN m'.tbl r σ = denN (run5 ops s).m.tbl u (fun n => σ (tgtName dvars n))) ∧
        After5 (run5 ops s).m (run5 ops s).ext m') := by
  have hG := reachable5_from ops s hs hg
  refine ⟨fun vals hne hdecl hu => ?_, fun varSub hne hdecl hu => ?_, fun dvars hne hd hu => ?_⟩
  · obtain ⟨r, m', he, hd⟩ := cofactor_good5 _ _ hG u vals hdecl hu
    have hb := base_step5 _ _ hG (.let_ (.bools (boolKeys vals)) u) trivial rfl hu.safe
    have hne' : boolKeys vals ≠ [] := by
      cases vals with
      | nil => exact absurd rfl hne
      | cons _ _ => simp [boolKeys]
    have e : runOp (.let_ (.bools (boolKeys vals)) u) (run5 ops s).m = (.ok (.ref r), m') := by
      simp only [runOp, letOp_bools _ hne', mapRes, he]
    rw [e] at hb
    exact ⟨r, m', e, hd.1, hd.2, hb.1, hb.2.2, hb.2.1⟩
  · obtain ⟨r, m', he, hd⟩ := compose_good5 _ _ hG u varSub hdecl hu
    have hb := base_step5 _ _ hG (.let_ (.refs varSub) u) trivial rfl hu.safe
    have e : runOp (.let_ (.refs varSub) u) (run5 ops s).m = (.ok (.ref r), m') := by
      simp only [runOp, letOp_refs _ hne, mapRes, he]
    rw [e] at hb
    exact ⟨r, m', e, hd.1, hd.2, hb.1, hb.2.2, hb.2.1⟩
  · obtain ⟨r, m', he, hd'⟩ := rename_good5 _ _ hG u dvars hd hu
    have hb := base_step5 _ _ hG (.let_ (.names dvars) u) trivial rfl hu.safe
    have e : runOp (.let_ (.names dvars) u) (run5 ops s).m = (.ok (.ref r), m') := by
      simp only [runOp, letOp_names _ hne, mapRes, he]
    rw [e] at hb
    exact ⟨r, m', e, hd'.1, hd'.2, hb.1, hb.2.2, hb.2.1⟩

/-! ### non-vacuity -/

/-- GAP 10 on the example history of DDProps.Histories4 (twelve calls, both JSON loads, both
`copy_vars`, collections, reordering enabled at the end) -/
example : GoodK ⟪exHistory5⟫.m ⟪exHistory5⟫.ext ∧ PredNodes ⟪exHistory5⟫.m ∧ KeysShaped ⟪exHistory5⟫.m :=
  C06_keys_every_history5 St.init ⟨Good3.init, keysOK_init⟩ exHistory5 exHistory5_guarded

set_option maxRecDepth 100000 in
theorem exHistory5_facts : 2 ≤ ⟪exHistory5⟫.m.nvars ∧ ⟪exHistory5⟫.m.lastLen = some 100 ∧
    ⟪exHistory5⟫.m.tbl.vars.keys = ["a", "b", "d", "e"] ∧
    (∀ n ∈ ["a", "d"], ⟪exHistory5⟫.m.tbl.vars.contains n = true) := by decide +kernel

/-- C12 there: reordering is ENABLED, four variables; `jsonBA` (`b ∧ a`, order b < a) is
well-formed: the load returns with `JsonLoadedDyn`, no key-shape hypothesis -/
example : ∃ roots' m', loadJson jsonBA false ⟪exHistory5⟫.m = (.ok roots', m') ∧
    JsonLoadedDyn jsonBA ⟪exHistory5⟫.ext ⟪exHistory5⟫.m roots' m' := by
  obtain ⟨roots', m', h, L, -⟩ := C12_json_load_dyn_reachable St.init ⟨Good3.init, keysOK_init⟩
    exHistory5 exHistory5_guarded exHistory5_facts.1 jsonBA jsonBA_wf
  exact ⟨roots', m', h, L⟩

example : ∃ m', loadManager (dumpManager ⟪exHistory5⟫.m) = .ok m' ∧ MgrStored ⟪exHistory5⟫.m m' :=
  C12_manager_roundtrip_reachable St.init ⟨Good3.init, keysOK_init⟩ exHistory5 exHistory5_guarded

/-- C15 there: two integer variables of two bits each over `a`, `b`, `d`, `e` -/
def exDvars5 : List MVar := [⟨"x", 0, 4, ["b", "a"]⟩, ⟨"y", 1, 4, ["e", "d"]⟩]

theorem exDvars5_full : DvarsFull ⟪exHistory5⟫.m.tbl exDvars5 := by
  refine ⟨⟨by decide, ?_⟩, by decide, by decide, by decide⟩
  rw [exHistory5_facts.2.2.1]; decide

example : ∃ out mb', bddToMdd exDvars5 none ⟪exHistory5⟫.m = (.ok out, mb') ∧
    B2MOK ⟪exHistory5⟫.ext exDvars5 ⟪exHistory5⟫.m out mb' := by
  obtain ⟨out, mb', h, b, -⟩ := C15_bddToMdd_reachable5 St.init ⟨Good3.init, keysOK_init⟩
    exHistory5 exHistory5_guarded exDvars5 exDvars5_full
  exact ⟨out, mb', h, b⟩

/-- GAP 7 on the example: a source with FEWER variables than the manager (`a`, `b` against `a`,
`b`, `d`, `e`).  The old guard (`varsSubB`: the manager declares nothing the source does not have)
fails, the weakest one holds; the call is a step of a guarded history (the thirteenth) -/
def exSrcAB : Tbl := (run5 [bop5 (.declare "a" none), bop5 (.declare "b" none)] St.init).m.tbl

/-- fifteen calls: the twelve of `exHistory5`, `copy_vars` from the smaller source, then — with
reordering enabled — `∃ a. (a ∧ b)` (the existing node 3 = `b`) and `let a = (a ∧ d) in (a ∧ b)`
(node 9 = `a ∧ b ∧ d`) -/
def exHistory5b : List UOp5 :=
  exHistory5 ++ [ .copyVars exSrcAB ["b", "a"], bop5 (.quantify 4 [.name "a"] false),
    bop5 (.let_ (.refs [("a", 6)]) 4) ]

set_option maxRecDepth 100000 in
theorem exHistory5b_guarded : Ops5Guarded exHistory5b St.init := by decide +kernel

/-- the results, by `#eval` (the kernel does not evaluate the hash-map memo of `quantify` and
`compose`): `[1000, 1001, 4, 0, 0, -1000, 0, 0, 0, 0, 0, 7, 0, 3, 9]` -/
example : varsSubB exSrcAB ⟪exHistory5⟫.m.tbl = false ∧ varsBelowB exSrcAB ⟪exHistory5⟫.m.tbl = true ∧
    OrderOK exSrcAB ∧ ["b", "a"].Perm exSrcAB.vars.keys :=
  ⟨by decide +kernel, by decide +kernel, orderOK_of_check (by decide +kernel), by decide +kernel⟩

example : GoodK ⟪exHistory5b⟫.m ⟪exHistory5b⟫.ext := reachable5K_inv exHistory5b exHistory5b_guarded

example : ∃ m', copyVarsCore exSrcAB ["b", "a"] ⟪exHistory5⟫.m = (.ok (), m') ∧
    Good3 m' ⟪exHistory5⟫.ext := by
  obtain ⟨m', h, g, -⟩ := C11_copyVars_weakest_every_history5 St.init Good3.init exHistory5
    exHistory5_guarded exSrcAB ["b", "a"] (orderOK_of_check (by decide +kernel)) (by decide +kernel)
    (varsBelow_of_check (by decide +kernel))
  exact ⟨m', h, g⟩

/-- GAP 15 on the example, reordering ENABLED: node 4 = `a ∧ b` and node 6 = `a ∧ d` are held -/
theorem exHistory5_operands : OperandsOK ⟪exHistory5⟫.m ⟪exHistory5⟫.ext [4] ∧
    OperandsOK ⟪exHistory5⟫.m ⟪exHistory5⟫.ext (4 :: [("a", (6 : Int))].map (·.2)) := by
  have h4 : HeldX ⟪exHistory5⟫.ext 4 := Or.inr (by rw [show (4 : Int).natAbs = 4 from rfl, exHistory5_results.2.2.1]; decide)
  have h6 : HeldX ⟪exHistory5⟫.ext 6 := Or.inr (by rw [show (6 : Int).natAbs = 6 from rfl, exHistory5_results.2.2.2.1]; decide)
  refine ⟨Or.inr ⟨exHistory5_facts.1, ?_⟩, Or.inr ⟨exHistory5_facts.1, ?_⟩⟩
  · intro w hw
    simp only [List.mem_cons, List.not_mem_nil, or_false] at hw
    subst hw; exact h4
  · intro w hw
    simp only [List.map_cons, List.map_nil, List.mem_cons, List.not_mem_nil, or_false] at hw
    rcases hw with rfl | rfl
    · exact h4
    · exact h6

example : ∃ r m', runOp5 (bop5 (.quantify 4 (["a"].map Key.name) false)) ⟪exHistory5⟫.m = (.ok (.ref r), m') ∧
    (∀ σ, denN m'.tbl r σ = true ↔ qsemN false ["a"] (denN ⟪exHistory5⟫.m.tbl 4) σ) ∧
    Good3 m' ⟪exHistory5⟫.ext := by
  obtain ⟨r, m', h, -, d, g, -⟩ := C03_quantify_every_history5 St.init Good3.init exHistory5
    exHistory5_guarded 4 false ["a"]
    (fun n hn => exHistory5_facts.2.2.2 n (by
      simp only [List.mem_cons, List.not_mem_nil, or_false] at hn ⊢; exact Or.inl hn))
    exHistory5_operands.1
  exact ⟨r, m', h, d, g⟩

example : ∃ r m', runOp5 (bop5 (.let_ (.refs [("a", 6)]) 4)) ⟪exHistory5⟫.m = (.ok (.ref r), m') ∧
    (∀ σ, denN m'.tbl r σ = denN ⟪exHistory5⟫.m.tbl 4 (subN ⟪exHistory5⟫.m.tbl [("a", 6)] σ)) ∧
    Good3 m' ⟪exHistory5⟫.ext := by
  obtain ⟨r, m', h, -, d, g, -⟩ := (C04_let_every_history5 St.init Good3.init exHistory5
    exHistory5_guarded 4).2.1 [("a", 6)] (by simp)
    (fun p hp => by
      simp only [List.mem_cons, List.not_mem_nil, or_false] at hp
      subst hp; exact exHistory5_facts.2.2.2 "a" (by simp))
    exHistory5_operands.2
  exact ⟨r, m', h, d, g⟩

/-- GAP 15, reordering NOT enabled, an operand nobody holds: after three calls node 4 = `a ∧ b`
exists with no reference to it -/
example : OperandsOK ⟪exHistory5.take 3⟫.m ⟪exHistory5.take 3⟫.ext [4] ∧
    ⟪exHistory5.take 3⟫.ext 4 = 0 := by
  have h : ⟪exHistory5.take 3⟫.m.lastLen = none ∧ ⟪exHistory5.take 3⟫.m.mem 4 = true ∧
      ⟪exHistory5.take 3⟫.ext 4 = 0 := by decide +kernel
  refine ⟨Or.inl ⟨h.1, fun w hw => ?_⟩, h.2.2⟩
  simp only [List.mem_cons, List.not_mem_nil, or_false] at hw
  subst hw; exact (Mgr.mem_iff _ 4).mp h.2.1

/-- GAP 5 on the example file of C16 (`dddmpChain`: variables `z`, `x`, `y`; roots 4 and -3): the
loaded manager with `roots` cleared starts a history in which the user takes a reference to the
first loaded root, collects (nothing is freed: the node of the other root is a successor of the
first), declares a variable and builds a formula (node 7 = `x ∧ w`) -/
def exDddmpM : Mgr :=
  match loadDddmp dddmpChain with
  | .ok m => { m with roots := [] }
  | .error _ => {}

def exHistoryDddmp : List UOp5 :=
  [ bop5 (.incref 4), bop5 .collectGarbage, bop5 (.declare "w" none), .op (.addExpr "x /\\ w") ]

set_option maxRecDepth 100000 in
theorem exHistoryDddmp_guarded : Ops5Guarded exHistoryDddmp ⟨exDddmpM, fun _ => 0⟩ := by
  decide +kernel

set_option maxRecDepth 100000 in
theorem exHistoryDddmp_results :
    (results5 exHistoryDddmp ⟨exDddmpM, fun _ => 0⟩).map resCode5 = [0, 0, 1003, 7] ∧
    (run5 exHistoryDddmp ⟨exDddmpM, fun _ => 0⟩).m.ref.toList =
      [(1, 9), (2, 2), (3, 1), (4, 1), (5, 0), (6, 1), (7, 0)] := by decide +kernel

example : GoodK (run5 exHistoryDddmp ⟨exDddmpM, fun _ => 0⟩).m
    (run5 exHistoryDddmp ⟨exDddmpM, fun _ => 0⟩).ext := by
  obtain ⟨m, hl, -, -, -, -, hrun⟩ := dddmp_start dddmpChain dddmpChain_wf
  have e : exDddmpM = { m with roots := [] } := by unfold exDddmpM; rw [hl]
  rw [e]
  exact hrun exHistoryDddmp (by rw [← e]; exact exHistoryDddmp_guarded)

end DD
