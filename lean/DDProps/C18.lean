/-
  DDProps.C18 — structural views are faithful: Shannon expansion through `succ` /
  `low` / `high` / `var` / `negated`, `descendants`, `len`, and the graph exports
  (`to_nx`, `_to_dot`) evaluate to the denotation.
-/
import DDProofs.SatProofs
import DDProofs.SmallViews
import DDProofs.GcExample
namespace DD

/-- Shannon expansion through the user-visible views.  For a non-terminal `u` with
`succ(u) = (level, low, high)` (the entry of `abs(u)`), `negated = (u < 0)`:
`u = negated xor ite(var, high, low)`, at the level of assignments to levels and of
assignments to names (`var = var_at_level(level)`); `low`/`high` are references of the
manager at strictly larger levels, `high` is regular -/
theorem C18_expand_spec (t : Tbl) (hw : WF t) (u : Int) (n : Nd) (h1 : u.natAbs ≠ 1)
    (hn : t.succ[u.natAbs]? = some n) :
    (∀ a, den t u a = ((decide (u < 0)) ^^ (if a n.lvl then den t n.hi a else den t n.lo a))) ∧
    (∀ σ, denN t u σ =
      ((decide (u < 0)) ^^ (if σ (t.nameOf n.lvl) then denN t n.hi σ else denN t n.lo σ))) ∧
    t.Mem n.lo ∧ t.Mem n.hi ∧ 0 < n.hi ∧ t.levelOf u = n.lvl ∧
    n.lvl < t.levelOf n.lo ∧ n.lvl < t.levelOf n.hi :=
  ⟨fun a => den_node t hw u n a h1 hn, fun σ => den_node t hw u n (t.lift σ) h1 hn,
   hw.lo_mem _ _ hn, hw.hi_mem _ _ hn, hw.hi_pos _ _ hn, levelOf_node t u n h1 hn,
   hw.lo_lt _ _ hn, hw.hi_lt _ _ hn⟩

/-- the terminal: `succ` gives level `nvars` and no children; `1` is true, `-1` false -/
theorem C18_expand_terminal (t : Tbl) (u : Int) (h1 : u.natAbs = 1) :
    t.levelOf u = t.nvars ∧ ∀ a, den t u a = decide (0 < u) :=
  ⟨levelOf_term t u h1, fun a => den_term h1 a⟩

/-- `descendants(roots)`: succeeds (the fuel suffices) and is the strictly ascending list
(no duplicates) of exactly the nodes reachable from the roots; the terminal is among them
as soon as there is a root -/
theorem C18_descendants_spec (t : Tbl) (hw : WF t) (roots : List Int) (hm : ∀ r ∈ roots, t.Mem r) :
    ∃ l, descendants t roots = .ok l ∧ l.Pairwise (· < ·) ∧
      (∀ v, v ∈ l ↔ ∃ r ∈ roots, Reach t r.natAbs v) ∧ (roots ≠ [] → 1 ∈ l) := by
  obtain ⟨l, e, p, s⟩ := descendants_spec' hw roots hm
  refine ⟨l, e, p, s, ?_⟩
  intro hne
  cases roots with
  | nil => exact absurd rfl hne
  | cons r rest => exact (s 1).mpr ⟨r, by simp, reach_term hw r (hm r (by simp))⟩

/-- `len(bdd)` (`len(self._succ)`): the number of entries of the node table plus the terminal;
on a well-formed table this is the number of references `u > 0` of the manager: there is a
duplicate-free (strictly ascending) list of exactly the `u` with `u in bdd`, of that length -/
theorem C18_len_spec (m : Mgr) :
    m.len = m.tbl.succ.size + 1 ∧
    (WF m.tbl → ∃ l : List Nat, l.Pairwise (· < ·) ∧ (∀ u : Nat, u ∈ l ↔ m.tbl.Mem (u : Int)) ∧
      m.len = l.length) :=
  ⟨rfl, len_eq_card m⟩

/-- `len(bdd)` after `collect_garbage()`: the number of nodes reachable from the nodes the user
holds (ledger `ext`), the terminal included; never more than before -/
theorem C18_len_after_gc (m : Mgr) (ext : Nat → Nat) (hi : Inv m) (hr : RefExact m ext) :
    ∃ (m' : Mgr) (l : List Nat), collectGarbage none m = (.ok (), m') ∧ l.Pairwise (· < ·) ∧
      (∀ u : Nat, u ∈ l ↔ (u = 1 ∨ GcReach m.tbl (GcHeld ext) u)) ∧ m'.len = l.length ∧
      m'.len ≤ m.len :=
  len_after_gc m ext hi hr

/-- `len(u)` / `u.dag_size` of a `Function` (`len(self.manager.descendants([self.node]))`): on a
live handle it returns, without touching the state, the number of nodes reachable from the
handle's node — the terminal included (so a constant has size 1) -/
theorem C18_fLen_spec (a : AMgr) (hw : WF a.m.tbl) (hs : Nat) (s : Int)
    (hh : a.handles[hs]? = some s) (hm : a.m.tbl.Mem s) :
    ∃ l : List Nat, fLen hs a = (.ok l.length, a) ∧ l.Pairwise (· < ·) ∧
      (∀ v, v ∈ l ↔ Reach a.m.tbl s.natAbs v) ∧ 1 ∈ l :=
  fLen_spec a hw hs s hh hm

/-- `u.level` and `u.var` of a `Function` on a live handle: pure reads; `level` is the level of
the node (`len(vars)` for the terminal); `var` is `None` for the terminal and otherwise
`var_at_level(level)`, which under `VarsOK` (every level has a name; part of `OrderOK`) is the
`t.nameOf n.lvl` in terms of which `C18_expand_spec` states the expansion by NAME -/
theorem C18_fLevel_fVar_spec (a : AMgr) (hw : WF a.m.tbl) (hv : VarsOK a.m.tbl) (hs : Nat) (s : Int)
    (hh : a.handles[hs]? = some s) (hm : a.m.tbl.Mem s) :
    fLevel hs a = (.ok (a.m.tbl.levelOf s), a) ∧
    (s.natAbs = 1 → fVar hs a = (.ok none, a)) ∧
    (∀ n, s.natAbs ≠ 1 → a.m.tbl.succ[s.natAbs]? = some n →
      fVar hs a = (.ok (some (a.m.tbl.nameOf n.lvl)), a) ∧
      varAtLevel (n.lvl : Int) a.m = (.ok (a.m.tbl.nameOf n.lvl), a.m)) :=
  fLevel_fVar_spec a hw hv hs s hh hm

/-- evaluating a faithful export (`GraphOK`) from any exported node gives the denotation,
whichever matching edge is followed -/
theorem C18_graph_eval (t : Tbl) (hw : WF t) (g : Graph) (hg : GraphOK t g) (r : Int)
    (hm : t.Mem r) (hr : HasKey g.1 r.natAbs) (a : Asg) (b : Bool) :
    EvalRoot g a r b ↔ b = den t r a :=
  graph_eval_of_ok hw hg r hm hr a b

/-- the same with an executable evaluator (follow the first matching edge; fuel `nvars + 1`):
on a faithful export it returns the value of the function of the root -/
theorem C18_graph_eval_exec (t : Tbl) (hw : WF t) (g : Graph) (hg : GraphOK t g) (r : Int)
    (hm : t.Mem r) (hr : HasKey g.1 r.natAbs) (a : Asg) :
    (evalGraphF g a (t.nvars + 1) r.natAbs).map (fun b => (decide (r < 0)) ^^ b) =
      some (den t r a) := by
  rw [evalGraphF_eq hw hg a (t.nvars + 1) r.natAbs (mem_natAbs hm) hr (by omega), den_natAbs hw hm]
  rfl

/-- in a faithful export two edges with the same source and `value` mark are identical
(repeated edges of a `MultiDiGraph` are copies) -/
theorem C18_edges_functional (t : Tbl) (g : Graph) (hg : GraphOK t g)
    (e e' : Nat × Nat × Bool × Bool) (he : e ∈ g.2) (he' : e' ∈ g.2)
    (hs : e.1 = e'.1) (hv : e.2.2.1 = e'.2.2.1) : e = e' := by
  obtain ⟨n, hn, h⟩ := hg.edges e he
  obtain ⟨n', hn', h'⟩ := hg.edges e' he'
  rw [hs, hn'] at hn; cases hn
  rcases h with h | h <;> rcases h' with h' | h' <;> rw [h, h'] at hv ⊢ <;>
    simp [loEdge, hiEdge] at hv ⊢ <;> exact hs

/-- `to_nx(bdd, roots)`: succeeds (fuel suffices); exports exactly the nodes reachable from
the roots, each labelled with its level; evaluating the exported multigraph from any root
(or any exported node) gives the function of that reference -/
theorem C18_toNx_eval (t : Tbl) (hw : WF t) (roots : List Int) (hm : ∀ r ∈ roots, t.Mem r) :
    ∃ g, toNx t roots = .ok g ∧
      (∀ u, HasKey g.1 u ↔ ∃ r ∈ roots, Reach t r.natAbs u) ∧
      (∀ u l, (u, l) ∈ g.1 → l = t.levelOf (u : Int)) ∧
      (∀ r ∈ roots, ∀ a b, EvalRoot g a r b ↔ b = den t r a) ∧
      (∀ r : Int, t.Mem r → HasKey g.1 r.natAbs → ∀ a b, EvalRoot g a r b ↔ b = den t r a) := by
  obtain ⟨g, e, ok, s⟩ := toNx_ok hw roots hm
  refine ⟨g, e, s, fun u l h => (ok.nodes u l h).2, ?_, ?_⟩
  · intro r hr a b
    exact graph_eval_of_ok hw ok r (hm r hr) ((s _).mpr ⟨r, hr, Reach.refl _⟩) a b
  · intro r hmr hk a b
    exact graph_eval_of_ok hw ok r hmr hk a b

/-- `_to_dot(roots, bdd)` (node/edge content of the DOT text): with roots, exactly the
reachable nodes; with `roots=None`, all nodes of the manager; evaluating it gives `den` -/
theorem C18_toDot_eval (t : Tbl) (hw : WF t) :
    (∀ roots : List Int, roots ≠ [] → (∀ r ∈ roots, t.Mem r) →
      ∃ g, toDot t (some roots) = .ok g ∧
        (∀ u, HasKey g.1 u ↔ ∃ r ∈ roots, Reach t r.natAbs u) ∧
        (∀ u l, (u, l) ∈ g.1 → l = t.levelOf (u : Int)) ∧
        (∀ r ∈ roots, ∀ a b, EvalRoot g a r b ↔ b = den t r a)) ∧
    (∃ g, toDot t none = .ok g ∧
      (∀ u l, (u, l) ∈ g.1 → l = t.levelOf (u : Int)) ∧
      (∀ r : Int, t.Mem r → ∀ a b, EvalRoot g a r b ↔ b = den t r a)) := by
  constructor
  · intro roots hne hm
    obtain ⟨g, e, ok, s1, s2⟩ := toDot_some_ok hw roots hne hm
    refine ⟨g, e, ?_, fun u l h => (ok.nodes u l h).2, ?_⟩
    · intro u
      constructor
      · rintro ⟨l, hl⟩; exact s1 u l hl
      · rintro ⟨r, hr, h⟩; exact s2 r hr u h
    · intro r hr a b
      exact graph_eval_of_ok hw ok r (hm r hr) (s2 r hr _ (Reach.refl _)) a b
  · obtain ⟨g, e, ok, s⟩ := toDot_none_ok hw
    exact ⟨g, e, fun u l h => (ok.nodes u l h).2,
      fun r hr a b => graph_eval_of_ok hw ok r hr (s r hr) a b⟩

/-- `_to_dot(roots, bdd)`, the exact node/edge content of the DOT graph (the model has the
GRAPH, not the DOT text: layout attributes, the phantom rank nodes `L<i>` and the `ref<u>` marks of
the roots are only in the driver's answer line and in the differential check).
Vertices: exactly one per descendant of the roots (`ns` is strictly ascending, its members are
the reachable nodes), each with the level of the rank it is drawn in (`nvars` for the terminal).
Edges: for every non-terminal vertex `x` with `succ(x) = (i, v, w)` exactly two, in this order:
the low edge `(x, |v|, value=False, complemented = (v < 0))` — the code's `style='dashed'`, with
`taillabel='-1'` exactly when `v < 0` — and the high edge `(x, |w|, True, False)`
(`style='solid'`, never complemented); the terminal has no outgoing edge. -/
theorem C18_toDot_shape (t : Tbl) (hw : WF t) :
    (∀ roots : List Int, roots ≠ [] → (∀ r ∈ roots, t.Mem r) →
      ∃ ns, descendants t roots = .ok ns ∧ ns.Pairwise (· < ·) ∧
        (∀ v, v ∈ ns ↔ ∃ r ∈ roots, Reach t r.natAbs v) ∧
        toDot t (some roots) =
          .ok (ns.map (fun x => (x, t.levelOf (x : Int))), ns.flatMap (edgesOf t))) ∧
    toDot t none =
      .ok ((1 :: t.succ.keys).map (fun x => (x, t.levelOf (x : Int))),
           (1 :: t.succ.keys).flatMap (edgesOf t)) ∧
    edgesOf t 1 = [] ∧ t.levelOf (1 : Int) = t.nvars ∧
    (∀ x n, t.succ[x]? = some n →
      edgesOf t x = [(x, n.lo.natAbs, false, decide (n.lo < 0)), (x, n.hi.natAbs, true, false)] ∧
      t.levelOf (x : Int) = n.lvl) :=
  ⟨fun roots hne hm => toDot_some_shape hw roots hne hm, toDot_none_shape hw,
   edgesOf_terminal t hw, levelOf_term t 1 rfl,
   fun x n hn => ⟨edgesOf_node t x n hn, levelOf_nat_node hw hn⟩⟩

/-! ### non-vacuity on the table of `x ∧ y` -/

example : WF exTbl ∧ exTbl.Mem 3 ∧ exTbl.Mem (-3) := ⟨exTbl_wfu.toWF, exTbl_mem3, exTbl_mem_neg3⟩
example := C18_expand_spec exTbl exTbl_wfu.toWF (-3) ⟨0, -1, 2⟩ (by decide) (by decide)
example := C18_expand_terminal exTbl (-1) (by decide)
example := C18_descendants_spec exTbl exTbl_wfu.toWF [-3, 2] (by decide)
example : descendants exTbl [-3] = .ok [1, 2, 3] := by rfl
example : ({} : Mgr).len = 1 := by decide
example := (C18_len_spec exM).2 exM_inv.wf.toWF
example : exM.len = 4 := by decide
/-- after the collection of the example manager of C06 (user holds node 4 = `a ∧ b`; node 2 is
garbage) three nodes are left: 1, 3, 4 -/
example := C18_len_after_gc exM exExt exM_inv exM_refExact
example : (collectGarbage none exM).2.len = 3 := by decide
/-- a handle on node 3 (`x ∧ y`) of the example table: `len` is 3 (nodes 1, 2, 3) -/
example := C18_fLen_spec { m := { tbl := exTbl }, handles := ({} : Std.TreeMap Nat Int).insert 0 3 }
  exTbl_wfu.toWF 0 3 (by decide) exTbl_mem3
example : (fLen 0 { m := { tbl := exTbl }, handles := ({} : Std.TreeMap Nat Int).insert 0 3 }).1.toOption
    = some 3 := by decide
example := C18_fLevel_fVar_spec { m := { tbl := exTbl }, handles := ({} : Std.TreeMap Nat Int).insert 0 (-3) }
  exTbl_wfu.toWF exTbl_varsOK 0 (-3) (by decide) exTbl_mem_neg3
example : (fVar 0 { m := { tbl := exTbl }, handles := ({} : Std.TreeMap Nat Int).insert 0 (-3) }).1.toOption
    = some (some "x") := by decide
example := (C18_toDot_shape exTbl exTbl_wfu.toWF).1 [-3] (by simp) (by decide)
/-- the DOT graph of `¬(x ∧ y)`: three vertices, the low edges of both nodes complemented -/
example : toDot exTbl (some [-3]) = .ok ([(1, 2), (2, 1), (3, 0)],
    [(2, 1, false, true), (2, 1, true, false), (3, 1, false, true), (3, 2, true, false)]) := by rfl
example := C18_toNx_eval exTbl exTbl_wfu.toWF [3, -3] (by decide)
example : toNx exTbl [2] = .ok ([(2, 1), (1, 2)], [(2, 1, false, true), (2, 1, true, false)]) := by rfl
example := (C18_toDot_eval exTbl exTbl_wfu.toWF).1 [-3] (by simp) (by decide)
example := (C18_toDot_eval exTbl exTbl_wfu.toWF).2
/-- a faithful export exists for the example (hypotheses of `C18_graph_eval`,
`C18_graph_eval_exec`, `C18_edges_functional`) -/
example : ∃ g, GraphOK exTbl g ∧ HasKey g.1 (3 : Int).natAbs := by
  obtain ⟨g, _, ok, s⟩ := toNx_ok exTbl_wfu.toWF [3] (by decide)
  exact ⟨g, ok, (s _).mpr ⟨3, by simp, Reach.refl _⟩⟩

end DD
