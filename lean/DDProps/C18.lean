/-
  DDProps.C18 — structural views are faithful: Shannon expansion through `succ` /
  `low` / `high` / `var` / `negated`, `descendants`, `len`, and the graph exports
  (`to_nx`, `_to_dot`) evaluate to the denotation.
-/
import DDProofs.SatProofs
namespace DD

/-- Shannon expansion through the user-visible views.  For a non-terminal `u` with
`succ(u) = (level, low, high)` (the entry of `abs(u)`), `negated = (u < 0)`:
`u = negated xor ite(var, high, low)`, at the level of assignments to levels and of
assignments to names (`var = var_at_level(level)`); `low`/`high` are references of the
manager at strictly larger levels, `high` is regular -/
theorem C18_expand_spec (t : Tbl) (hw : WF t) (u : Int) (n : Nd) (h1 : u.natAbs ≠ 1)
    (hn : t.succ[u.natAbs]? = some n) :
    (∀ a, den t u a = ((decide (u < 0)) ^^ (if a n.lvl then den t n.hi a else den t n.lo a))) ∧
    (∀ σ, denN t u σ =
      ((decide (u < 0)) ^^ (if σ (t.nameOf n.lvl) then denN t n.hi σ else denN t n.lo σ))) ∧
    t.Mem n.lo ∧ t.Mem n.hi ∧ 0 < n.hi ∧ t.levelOf u = n.lvl ∧
    n.lvl < t.levelOf n.lo ∧ n.lvl < t.levelOf n.hi :=
  ⟨fun a => den_node t hw u n a h1 hn, fun σ => den_node t hw u n (t.lift σ) h1 hn,
   hw.lo_mem _ _ hn, hw.hi_mem _ _ hn, hw.hi_pos _ _ hn, levelOf_node t u n h1 hn,
   hw.lo_lt _ _ hn, hw.hi_lt _ _ hn⟩

/-- the terminal: `succ` gives level `nvars` and no children; `1` is true, `-1` false -/
theorem C18_expand_terminal (t : Tbl) (u : Int) (h1 : u.natAbs = 1) :
    t.levelOf u = t.nvars ∧ ∀ a, den t u a = decide (0 < u) :=
  ⟨levelOf_term t u h1, fun a => den_term h1 a⟩

/-- `descendants(roots)`: succeeds (the fuel suffices) and is the strictly ascending list
(no duplicates) of exactly the nodes reachable from the roots; the terminal is among them
as soon as there is a root -/
theorem C18_descendants_spec (t : Tbl) (hw : WF t) (roots : List Int) (hm : ∀ r ∈ roots, t.Mem r) :
    ∃ l, descendants t roots = .ok l ∧ l.Pairwise (· < ·) ∧
      (∀ v, v ∈ l ↔ ∃ r ∈ roots, Reach t r.natAbs v) ∧ (roots ≠ [] → 1 ∈ l) := by
  obtain ⟨l, e, p, s⟩ := descendants_spec' hw roots hm
  refine ⟨l, e, p, s, ?_⟩
  intro hne
  cases roots with
  | nil => exact absurd rfl hne
  | cons r rest => exact (s 1).mpr ⟨r, by simp, reach_term hw r (hm r (by simp))⟩

/-- `len(bdd)`: the number of stored nodes, terminal included -/
theorem C18_len_spec (m : Mgr) : m.len = m.tbl.succ.size + 1 := rfl

/-- evaluating a faithful export (`GraphOK`) from any exported node gives the denotation,
whichever matching edge is followed -/
theorem C18_graph_eval (t : Tbl) (hw : WF t) (g : Graph) (hg : GraphOK t g) (r : Int)
    (hm : t.Mem r) (hr : HasKey g.1 r.natAbs) (a : Asg) (b : Bool) :
    EvalRoot g a r b ↔ b = den t r a :=
  graph_eval_of_ok hw hg r hm hr a b

/-- the same with an executable evaluator (follow the first matching edge; fuel `nvars + 1`):
on a faithful export it returns the value of the function of the root -/
theorem C18_graph_eval_exec (t : Tbl) (hw : WF t) (g : Graph) (hg : GraphOK t g) (r : Int)
    (hm : t.Mem r) (hr : HasKey g.1 r.natAbs) (a : Asg) :
    (evalGraphF g a (t.nvars + 1) r.natAbs).map (fun b => (decide (r < 0)) ^^ b) =
      some (den t r a) := by
  rw [evalGraphF_eq hw hg a (t.nvars + 1) r.natAbs (mem_natAbs hm) hr (by omega), den_natAbs hw hm]
  rfl

/-- in a faithful export two edges with the same source and `value` mark are identical
(repeated edges of a `MultiDiGraph` are copies) -/
theorem C18_edges_functional (t : Tbl) (g : Graph) (hg : GraphOK t g)
    (e e' : Nat × Nat × Bool × Bool) (he : e ∈ g.2) (he' : e' ∈ g.2)
    (hs : e.1 = e'.1) (hv : e.2.2.1 = e'.2.2.1) : e = e' := by
  obtain ⟨n, hn, h⟩ := hg.edges e he
  obtain ⟨n', hn', h'⟩ := hg.edges e' he'
  rw [hs, hn'] at hn; cases hn
  rcases h with h | h <;> rcases h' with h' | h' <;> rw [h, h'] at hv ⊢ <;>
    simp [loEdge, hiEdge] at hv ⊢ <;> exact hs

/-- `to_nx(bdd, roots)`: succeeds (fuel suffices); exports exactly the nodes reachable from
the roots, each labelled with its level; evaluating the exported multigraph from any root
(or any exported node) gives the function of that reference -/
theorem C18_toNx_eval (t : Tbl) (hw : WF t) (roots : List Int) (hm : ∀ r ∈ roots, t.Mem r) :
    ∃ g, toNx t roots = .ok g ∧
      (∀ u, HasKey g.1 u ↔ ∃ r ∈ roots, Reach t r.natAbs u) ∧
      (∀ u l, (u, l) ∈ g.1 → l = t.levelOf (u : Int)) ∧
      (∀ r ∈ roots, ∀ a b, EvalRoot g a r b ↔ b = den t r a) ∧
      (∀ r : Int, t.Mem r → HasKey g.1 r.natAbs → ∀ a b, EvalRoot g a r b ↔ b = den t r a) := by
  obtain ⟨g, e, ok, s⟩ := toNx_ok hw roots hm
  refine ⟨g, e, s, fun u l h => (ok.nodes u l h).2, ?_, ?_⟩
  · intro r hr a b
    exact graph_eval_of_ok hw ok r (hm r hr) ((s _).mpr ⟨r, hr, Reach.refl _⟩) a b
  · intro r hmr hk a b
    exact graph_eval_of_ok hw ok r hmr hk a b

/-- `_to_dot(roots, bdd)` (node/edge content of the DOT text): with roots, exactly the
reachable nodes; with `roots=None`, all nodes of the manager; evaluating it gives `den` -/
theorem C18_toDot_eval (t : Tbl) (hw : WF t) :
    (∀ roots : List Int, roots ≠ [] → (∀ r ∈ roots, t.Mem r) →
      ∃ g, toDot t (some roots) = .ok g ∧
        (∀ u, HasKey g.1 u ↔ ∃ r ∈ roots, Reach t r.natAbs u) ∧
        (∀ u l, (u, l) ∈ g.1 → l = t.levelOf (u : Int)) ∧
        (∀ r ∈ roots, ∀ a b, EvalRoot g a r b ↔ b = den t r a)) ∧
    (∃ g, toDot t none = .ok g ∧
      (∀ u l, (u, l) ∈ g.1 → l = t.levelOf (u : Int)) ∧
      (∀ r : Int, t.Mem r → ∀ a b, EvalRoot g a r b ↔ b = den t r a)) := by
  constructor
  · intro roots hne hm
    obtain ⟨g, e, ok, s1, s2⟩ := toDot_some_ok hw roots hne hm
    refine ⟨g, e, ?_, fun u l h => (ok.nodes u l h).2, ?_⟩
    · intro u
      constructor
      · rintro ⟨l, hl⟩; exact s1 u l hl
      · rintro ⟨r, hr, h⟩; exact s2 r hr u h
    · intro r hr a b
      exact graph_eval_of_ok hw ok r (hm r hr) (s2 r hr _ (Reach.refl _)) a b
  · obtain ⟨g, e, ok, s⟩ := toDot_none_ok hw
    exact ⟨g, e, fun u l h => (ok.nodes u l h).2,
      fun r hr a b => graph_eval_of_ok hw ok r hr (s r hr) a b⟩

/-! ### non-vacuity on the table of `x ∧ y` -/

example : WF exTbl ∧ exTbl.Mem 3 ∧ exTbl.Mem (-3) := ⟨exTbl_wfu.toWF, exTbl_mem3, exTbl_mem_neg3⟩
example := C18_expand_spec exTbl exTbl_wfu.toWF (-3) ⟨0, -1, 2⟩ (by decide) (by decide)
example := C18_expand_terminal exTbl (-1) (by decide)
example := C18_descendants_spec exTbl exTbl_wfu.toWF [-3, 2] (by decide)
example : descendants exTbl [-3] = .ok [1, 2, 3] := by rfl
example : ({} : Mgr).len = 1 := by decide
example := C18_toNx_eval exTbl exTbl_wfu.toWF [3, -3] (by decide)
example : toNx exTbl [2] = .ok ([(2, 1), (1, 2)], [(2, 1, false, true), (2, 1, true, false)]) := by rfl
example := (C18_toDot_eval exTbl exTbl_wfu.toWF).1 [-3] (by simp) (by decide)
example := (C18_toDot_eval exTbl exTbl_wfu.toWF).2
/-- a faithful export exists for the example (hypotheses of `C18_graph_eval`,
`C18_graph_eval_exec`, `C18_edges_functional`) -/
example : ∃ g, GraphOK exTbl g ∧ HasKey g.1 (3 : Int).natAbs := by
  obtain ⟨g, _, ok, s⟩ := toNx_ok exTbl_wfu.toWF [3] (by decide)
  exact ⟨g, ok, (s _).mpr ⟨3, by simp, Reach.refl _⟩⟩

end DD
