/-
  DDProps.C01 — connectives and ITE compute the stated truth function.
  "Whatever the manager went through before" = any manager satisfying `Inv`
  (warm computed table included: `Inv.cache` says every remembered entry is sound).
-/
import DDProofs.Ite
import DDProps.Tables
namespace DD

/-- C01 (ITE): on any manager satisfying the invariant, with whatever computed table,
`_ite(g, u, v)` either returns a reference denoting `if g then u else v` — leaving the
invariant intact and every existing node untouched — or is aborted by a reordering
request (possible only inside an armed reordering context) having only added nodes. -/
theorem C01_ite (m : Mgr) (hI : Inv m) (g u v : Int)
    (hg : m.tbl.Mem g) (hu : m.tbl.Mem u) (hv : m.tbl.Mem v) :
    IteOutcome m g u v (iteRaw g u v m) := by
  have h := iteF_spec (m.nvars + 2) m g u v hI hg hu hv (by omega)
  simpa [iteRaw, bind, M.bind', M.get] using h

/-- C01 (ITE, reordering not armed): the call cannot fail -/
theorem C01_ite_total (m : Mgr) (hI : Inv m) (g u v : Int)
    (hg : m.tbl.Mem g) (hu : m.tbl.Mem u) (hv : m.tbl.Mem v)
    (hoff : m.ctx = false ∨ m.lastLen = none) :
    ∃ r m', iteRaw g u v m = (.ok r, m') ∧ ItePost m g u v r m' := by
  have h := C01_ite m hI g u v hg hu hv
  generalize iteRaw g u v m = res at h
  obtain ⟨r, m'⟩ := res
  cases r with
  | ok r => exact ⟨r, m', rfl, h⟩
  | error e =>
    exfalso
    have := h.2.armed
    rcases hoff with h1 | h1
    · rw [h1] at this; exact Bool.noConfusion this.1
    · rw [h1] at this; exact Bool.noConfusion this.2

/-- C01 (negation): `-u` denotes the complement -/
theorem C01_neg (m : Mgr) (hI : Inv m) (u : Int) (hu : m.tbl.Mem u) :
    m.tbl.Mem (-u) ∧ ∀ a, den m.tbl (-u) a = !den m.tbl u a :=
  ⟨mem_neg hu, fun a => den_neg m.tbl hI.wf.toWF u a hu⟩

/-- C01 (unique table): `find_or_add(i, v, w)` denotes `if x_i then w else v` -/
theorem C01_find_or_add (m : Mgr) (hI : Inv m) (i : Nat) (v w : Int)
    (hi : i < m.nvars) (hv : m.tbl.Mem v) (hw : m.tbl.Mem w)
    (hlv : i < m.tbl.levelOf v) (hlw : i < m.tbl.levelOf w) :
    ∃ r m', findOrAddCore i v w m = (.ok r, m') ∧ FoaPost m i v w r m' :=
  findOrAddCore_spec m hI i v w hi hv hw hlv hlw

/-- non-vacuity: a manager with two variables reached by model operations satisfies
the hypotheses (built by running the model) -/
example : ∃ m : Mgr, Inv m ∧ m.tbl.Mem 1 ∧ m.tbl.Mem (-1) := ⟨{}, Inv.init, Or.inl rfl, Or.inl rfl⟩

end DD
