/-
  DDProps.C01 — connectives and ITE compute the stated truth function.
  "Whatever the manager went through before" = any manager satisfying `Inv`
  (warm computed table included: `Inv.cache` says every remembered entry is sound).
-/
import DDProofs.Ite
import DDProofs.ApplyProofs
import DDProps.Tables
import DDProofs.UsedObs
namespace DD

/-- C01 (ITE): on any manager satisfying the invariant, with whatever computed table,
`_ite(g, u, v)` either returns a reference denoting `if g then u else v` — leaving the
invariant intact and every existing node untouched — or is aborted by a reordering
request (possible only inside an armed reordering context) having only added nodes. -/
theorem C01_ite (m : Mgr) (hI : Inv m) (g u v : Int)
    (hg : m.tbl.Mem g) (hu : m.tbl.Mem u) (hv : m.tbl.Mem v) :
    IteOutcome m g u v (iteRaw g u v m) := by
  have h := iteF_spec (m.nvars + 2) m g u v hI hg hu hv (by omega)
  simpa [iteRaw, bind, M.bind', M.get] using h

/-- C01 (ITE, reordering not armed): the call cannot fail -/
theorem C01_ite_total (m : Mgr) (hI : Inv m) (g u v : Int)
    (hg : m.tbl.Mem g) (hu : m.tbl.Mem u) (hv : m.tbl.Mem v)
    (hoff : m.ctx = false ∨ m.lastLen = none) :
    ∃ r m', iteRaw g u v m = (.ok r, m') ∧ ItePost m g u v r m' := by
  have h := C01_ite m hI g u v hg hu hv
  generalize iteRaw g u v m = res at h
  obtain ⟨r, m'⟩ := res
  cases r with
  | ok r => exact ⟨r, m', rfl, h⟩
  | error e =>
    exfalso
    have := h.2.armed
    rcases hoff with h1 | h1
    · rw [h1] at this; exact Bool.noConfusion this.1
    · rw [h1] at this; exact Bool.noConfusion this.2

/-- C01 (negation): `-u` denotes the complement -/
theorem C01_neg (m : Mgr) (hI : Inv m) (u : Int) (hu : m.tbl.Mem u) :
    m.tbl.Mem (-u) ∧ ∀ a, den m.tbl (-u) a = !den m.tbl u a :=
  ⟨mem_neg hu, fun a => den_neg m.tbl hI.wf.toWF u a hu⟩

/-- C01 (unique table): `find_or_add(i, v, w)` denotes `if x_i then w else v` -/
theorem C01_find_or_add (m : Mgr) (hI : Inv m) (i : Nat) (v w : Int)
    (hi : i < m.nvars) (hv : m.tbl.Mem v) (hw : m.tbl.Mem w)
    (hlv : i < m.tbl.levelOf v) (hlw : i < m.tbl.levelOf w) :
    ∃ r m', findOrAddCore i v w m = (.ok r, m') ∧ FoaPost m i v w r m' :=
  findOrAddCore_spec m hI i v w hi hv hw hlv hlw

/-- C01 (public `ite`, reordering not enabled): total; result = if-then-else; invariant kept;
existing nodes untouched -/
theorem C01_public_ite (m : Mgr) (hI : Inv m) (hoff : m.lastLen = none) (g u v : Int)
    (hg : m.tbl.Mem g) (hu : m.tbl.Mem u) (hv : m.tbl.Mem v) :
    ∃ r m', ite g u v m = (.ok r, m') ∧ ItePost m g u v r m' :=
  ite_spec_off m hI hoff g u v hg hu hv

/-- C01 (`apply`, binary connectives): for EVERY alias of the vocabulary that the current source
accepts and that documents a propositional binary connective (or / and / xor / implies / equiv /
diff in all their spellings), the result's value under every assignment is that connective of the
operands' values.  The table is regenerated from `dd/bdd.py` on every run; `applyTable_sound` and
`vocab_complete` are re-decided on it. -/
theorem C01_apply_binary (m : Mgr) (hI : Inv m) (hoff : m.lastLen = none)
    (op : String) (c : Conn) (hc : docConn op = some c) (h2 : c.arity = 2)
    (hq1 : c ≠ .forall_) (hq2 : c ≠ .exists_) (hall : Gen.allOps.contains op = true)
    (u v : Int) (hu : m.tbl.Mem u) (hv : m.tbl.Mem v) :
    ∃ r m', apply op u (some v) none m = (.ok r, m') ∧ Inv m' ∧ Ext m.tbl m'.tbl ∧
      m'.tbl.Mem r ∧ Frame m m' ∧
      ∀ a, den m'.tbl r a = c.eval (den m.tbl u a) (den m.tbl v a) false :=
  apply_binary_spec m hI hoff op c hc h2 hq1 hq2 hall u v hu hv

/-- C01 (`apply`, negation in all spellings) -/
theorem C01_apply_not (m : Mgr) (hI : Inv m) (op : String) (hc : docConn op = some .not)
    (hall : Gen.allOps.contains op = true) (u : Int) (hu : m.tbl.Mem u) :
    apply op u none none m = (.ok (-u), m) ∧ m.tbl.Mem (-u) ∧
      ∀ a, den m.tbl (-u) a = !den m.tbl u a :=
  apply_not_spec m hI op hc hall u hu

/-- C01 (`apply('ite', u, v, w)`) -/
theorem C01_apply_ite (m : Mgr) (hI : Inv m) (hoff : m.lastLen = none)
    (op : String) (hc : docConn op = some .ite) (hall : Gen.allOps.contains op = true)
    (u v w : Int) (hu : m.tbl.Mem u) (hv : m.tbl.Mem v) (hw : m.tbl.Mem w) :
    ∃ r m', apply op u (some v) (some w) m = (.ok r, m') ∧ Inv m' ∧ Ext m.tbl m'.tbl ∧
      m'.tbl.Mem r ∧ Frame m m' ∧
      ∀ a, den m'.tbl r a = if den m.tbl u a then den m.tbl v a else den m.tbl w a :=
  apply_ite_spec m hI hoff op hc hall u v w hu hv hw

/-- the hypotheses on the alias are met by every spelling, e.g. the TLA+ conjunction -/
example : docConn "/\\" = some .and ∧ Conn.and.arity = 2 ∧ Gen.allOps.contains "/\\" = true := by decide

/-- non-vacuity: a manager with two variables reached by model operations satisfies
the hypotheses (built by running the model) -/
example : ∃ m : Mgr, Inv m ∧ m.tbl.Mem 1 ∧ m.tbl.Mem (-1) := ⟨{}, Inv.init, Or.inl rfl, Or.inl rfl⟩

end DD

namespace DD

/-- C01 (`Function.__le__`): `u <= v` is computed as `(v | ~u) == true`; it holds exactly when
`u` implies `v` under every assignment (the comparison with `true` decides validity by C02). -/
theorem C01_le_spec (m : Mgr) (hI : Inv m) (hoff : m.lastLen = none) (u v : Int)
    (hu : m.tbl.Mem u) (hv : m.tbl.Mem v) :
    ∃ r m', apply "or" v (some (-u)) none m = (.ok r, m') ∧ Inv m' ∧
      (r = 1 ↔ ∀ a, den m.tbl u a = true → den m.tbl v a = true) := by
  obtain ⟨r, m', he, hI', hext, hmem, _, hden⟩ :=
    apply_binary_spec m hI hoff "or" .or (by decide) (by decide) (by decide) (by decide) (by decide)
      v (-u) hv (mem_neg hu)
  refine ⟨r, m', he, hI', ?_⟩
  have hv1 : r = 1 ↔ ∀ a, den m'.tbl r a = true := by
    have := canonical m'.tbl hI'.wf r 1 hmem (Or.inl rfl)
    rw [← this]
    simp [den_one]
  rw [hv1]
  constructor
  · intro h a hua
    have := h a
    rw [hden a, den_neg m.tbl hI.wf.toWF u a hu] at this
    simp only [Conn.eval, hua, Bool.not_true, Bool.or_false] at this
    exact this
  · intro h a
    rw [hden a, den_neg m.tbl hI.wf.toWF u a hu]
    simp only [Conn.eval]
    cases hua : den m.tbl u a
    · simp
    · simp [h a hua]

/-- C01 (`Function.__eq__` / `__ne__`): integer equality of references decides equality of the
functions (C02) -/
theorem C01_eq_spec (m : Mgr) (hI : Inv m) (u v : Int) (hu : m.tbl.Mem u) (hv : m.tbl.Mem v) :
    (u = v ↔ ∀ a, den m.tbl u a = den m.tbl v a) :=
  (canonical m.tbl hI.wf u v hu hv).symm

end DD

/-! ### non-vacuity on a USED manager

`usedM` (DDProofs.UsedExample): four variables declared in the order c, a, d, b (levels 0..3),
thirteen nodes, reached by a guarded history, node 4 = `a ∧ b` held once, node 13 =
`ite(c ≡ d, a ∧ b, ¬b)` held twice, node 14 = `a ∨ d` garbage, a warm computed table.  Every
hypothesis comes from the reachability theorem (`usedM_good`); the operands are complemented,
have different supports (all four variables / {a, d} / {a, b}), and every conclusion that can be
evaluated is evaluated by the kernel on the sixteen assignments (`tt4`: rows in the order
c a d b). -/
namespace DD

/-- `apply('->', ¬f, a ∨ d)` (TLA+ and Promela spellings alike): the theorem instantiated -/
example : ∃ r m', apply "=>" (-13) (some 14) none usedM = (.ok r, m') ∧ Inv m' ∧
    Ext usedM.tbl m'.tbl ∧ m'.tbl.Mem r ∧ Frame usedM m' ∧
    ∀ a, den m'.tbl r a = (!den usedM.tbl (-13) a || den usedM.tbl 14 a) :=
  C01_apply_binary usedM usedM_good.inv usedM_good.off "=>" .implies (by decide) (by decide)
    (by decide) (by decide) (by decide) (-13) 14 (usedM_mem (by decide)) (usedM_mem (by decide))

/-- … and evaluated: three NEW nodes are built (15, 16, 17), the answer is 17 = `f ∨ a ∨ d` and its table is
row by row the implication of the operands' tables; same for `xor` of two complemented operands
of different supports (answer −15 in that manager: the complement edge is on the result) and for `\/` whose
answer is an EXISTING node (`¬(a ∧ b) ∨ (a ∨ d)` = TRUE) -/
example :
    (apply "=>" (-13) (some 14) none usedM).1 = .ok 17 ∧
    (apply "=>" (-13) (some 14) none usedM).2.tbl.succ.keys.length = 16 ∧
    tt4 (apply "=>" (-13) (some 14) none usedM).2.tbl 17 =
      List.zipWith (fun x y => !x || y) (tt4 usedM.tbl (-13)) (tt4 usedM.tbl 14) ∧
    tt4 (apply "=>" (-13) (some 14) none usedM).2.tbl 17 =
      [false, false, true, true, true, true, true, true,
       true, false, true, true, true, true, true, true] ∧
    (∃ r, (apply "^" (-4) (some (-14)) none usedM).1 = .ok r ∧
      tt4 (apply "^" (-4) (some (-14)) none usedM).2.tbl r =
        List.zipWith (fun x y => x != y) (tt4 usedM.tbl (-4)) (tt4 usedM.tbl (-14))) ∧
    (apply "\\/" (-4) (some 14) none usedM).1 = .ok 1 := by
  refine ⟨by decide +kernel, by decide +kernel, by decide +kernel, by decide +kernel,
    ⟨-15, by decide +kernel, by decide +kernel⟩, by decide +kernel⟩

/-- `_ite(¬(c ≡ d) , ¬f, a ∧ b)` with a complemented condition and a complemented branch, every
outcome (`C01_ite`), the total form and the public `ite` -/
example : IteOutcome usedM (-7) (-13) 4 (iteRaw (-7) (-13) 4 usedM) ∧
    (∃ r m', iteRaw (-7) (-13) 4 usedM = (.ok r, m') ∧ ItePost usedM (-7) (-13) 4 r m') ∧
    (∃ r m', ite (-7) (-13) 4 usedM = (.ok r, m') ∧ ItePost usedM (-7) (-13) 4 r m') :=
  ⟨C01_ite usedM usedM_good.inv _ _ _ (usedM_mem (by decide)) (usedM_mem (by decide))
      (usedM_mem (by decide)),
   C01_ite_total usedM usedM_good.inv _ _ _ (usedM_mem (by decide)) (usedM_mem (by decide))
      (usedM_mem (by decide)) (Or.inl usedM_good.ctx),
   C01_public_ite usedM usedM_good.inv usedM_good.off _ _ _ (usedM_mem (by decide))
      (usedM_mem (by decide)) (usedM_mem (by decide))⟩

/-- evaluated: the public call and the recursion agree, the table is the if-then-else of the
three tables -/
example : ∃ r, (ite (-7) (-13) 4 usedM).1 = .ok r ∧ (iteRaw (-7) (-13) 4 usedM).1 = .ok r ∧
    tt4 (ite (-7) (-13) 4 usedM).2.tbl r =
      (List.zip (tt4 usedM.tbl (-7)) (List.zip (tt4 usedM.tbl (-13)) (tt4 usedM.tbl 4))).map
        (fun x => if x.1 then x.2.1 else x.2.2) :=
  ⟨19, by decide +kernel, by decide +kernel, by decide +kernel⟩

/-- `apply('ite', ...)`, negation in a non-default spelling, `find_or_add` above two existing
nodes (level 0 = `c`; `¬(a ∧ b)` and `a ∨ d` start at level 1), `<=` and `==` between held
functions -/
example :
    (∃ r m', apply "ite" (-7) (some (-13)) (some 4) usedM = (.ok r, m') ∧ Inv m' ∧
      Ext usedM.tbl m'.tbl ∧ m'.tbl.Mem r ∧ Frame usedM m' ∧
      ∀ a, den m'.tbl r a =
        if den usedM.tbl (-7) a then den usedM.tbl (-13) a else den usedM.tbl 4 a) ∧
    (apply "!" (-13) none none usedM = (.ok 13, usedM)) ∧
    (∃ r m', findOrAddCore 0 (-4) 14 usedM = (.ok r, m') ∧ FoaPost usedM 0 (-4) 14 r m') ∧
    (∃ r m', apply "or" 14 (some (-4)) none usedM = (.ok r, m') ∧ Inv m' ∧
      (r = 1 ↔ ∀ a, den usedM.tbl 4 a = true → den usedM.tbl 14 a = true)) ∧
    ((13 : Int) = -13 ↔ ∀ a, den usedM.tbl 13 a = den usedM.tbl (-13) a) :=
  ⟨C01_apply_ite usedM usedM_good.inv usedM_good.off "ite" (by decide) (by decide) _ _ _
      (usedM_mem (by decide)) (usedM_mem (by decide)) (usedM_mem (by decide)),
   (C01_apply_not usedM usedM_good.inv "!" (by decide) (by decide) (-13) (usedM_mem (by decide))).1,
   C01_find_or_add usedM usedM_good.inv 0 (-4) 14 (by decide +kernel) (usedM_mem (by decide))
      (usedM_mem (by decide)) (by decide +kernel) (by decide +kernel),
   C01_le_spec usedM usedM_good.inv usedM_good.off 4 14 (usedM_mem (by decide))
      (usedM_mem (by decide)),
   C01_eq_spec usedM usedM_good.inv 13 (-13) (usedM_mem (by decide)) (usedM_mem (by decide))⟩

/-- evaluated: `a ∧ b ≤ a ∨ d` holds (answer 1), `f ≤ a ∧ b` does not; `find_or_add` builds the
node 15 = `ite(c, a ∨ d, ¬(a ∧ b))` -/
example : (apply "or" 14 (some (-4)) none usedM).1 = .ok 1 ∧
    (apply "or" 4 (some (-13)) none usedM).1 ≠ .ok 1 ∧
    (findOrAddCore 0 (-4) 14 usedM).1 = .ok 15 ∧
    tt4 (findOrAddCore 0 (-4) 14 usedM).2.tbl 15 =
      (tt4 usedM.tbl (-4)).take 8 ++ (tt4 usedM.tbl 14).drop 8 := by
  refine ⟨by decide +kernel, by decide +kernel, by decide +kernel, by decide +kernel⟩

end DD
