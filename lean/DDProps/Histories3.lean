/-
  DDProps.Histories3 — the "for EVERY history" capstone over the WIDE alphabet, and from any start.

  `UOp4` (DDProofs.Reach4) = `UOp3` (every `UOp` with arbitrary arguments, `bdd.swap`, sifting,
  `reorder(bdd, order)`, `undeclare_vars`, `configure(reordering=…)`) plus `cube`, `add_expr` (any
  text), `image` / `preimage` (any nodes, renaming, quantified variables), the rooted
  `collect_garbage(roots)` (any integers), `reorder_to_pairs` (any dictionary, any recorded
  schedule), `copy_bdd(u, other, bdd)` (ANY source table and node), pickle `load(file, levels)`
  (ANY content) — accepted or REJECTED, dynamic reordering enabled or not.  Guards: the three
  caller obligations of DDProps.Histories; "the model does not report a schedule mismatch" for a
  reordering call with a recorded schedule; "`vars` is a dict" (distinct names) for the
  content given to `load(…, levels=True)`.  Nothing else: no well-formedness of files,
  tables, texts or renamings, no "operands held", no "two variables".

  Starting points (DDProofs.Reach4Start): the empty manager `BDD()`; the constructor
  `BDD(levels)` (`newMgrCore_start`); `copy.copy` (`mgrCopy_start`) and `reduction()`
  (`reduction_start`) of ANY reachable manager — the history goes on in the new manager
  (`reachable4_from`).  `⟪ops⟫` is the state after `ops` from the empty manager; the theorems
  `…_from` take any good start state `s`.
-/
import DDProofs.Reach4
import DDProofs.Reach4Start
import DDProps.C09
namespace DD

local notation "⟪" ops "⟫" => run4 ops St.init

/-! ### C02 -/

/-- C02: after ANY history over the wide alphabet, from ANY good start, two nodes are equal
exactly when they denote the same function of the variable NAMES (and of the levels) — whatever
route produced them: connectives, `find_or_add`, substitutions, parsing, cubes, images, copies
from other managers, loaded files, before or after reorderings and collections -/
theorem C02_canonical_every_history4_from (s : St) (hs : Good3 s.m s.ext) (ops : List UOp4)
    (hg : Ops4Guarded ops s) (u v : Int)
    (hu : (run4 ops s).m.tbl.Mem u) (hv : (run4 ops s).m.tbl.Mem v) :
    ((∀ σ, denN (run4 ops s).m.tbl u σ = denN (run4 ops s).m.tbl v σ) ↔ u = v) ∧
    ((∀ a, den (run4 ops s).m.tbl u a = den (run4 ops s).m.tbl v a) ↔ u = v) :=
  have hG := reachable4_from ops s hs hg
  ⟨canonical_by_name3 hG u v hu hv, canonical _ hG.inv.wf u v hu hv⟩

theorem C02_canonical_every_history4 (ops : List UOp4) (hg : Ops4Guarded ops St.init) (u v : Int)
    (hu : ⟪ops⟫.m.tbl.Mem u) (hv : ⟪ops⟫.m.tbl.Mem v) :
    ((∀ σ, denN ⟪ops⟫.m.tbl u σ = denN ⟪ops⟫.m.tbl v σ) ↔ u = v) ∧
    ((∀ a, den ⟪ops⟫.m.tbl u a = den ⟪ops⟫.m.tbl v a) ↔ u = v) :=
  C02_canonical_every_history4_from St.init Good3.init ops hg u v hu hv

/-- C02 ("every route", across time and orders): a reference `u` held since the prefix `pre`;
ANY continuation that ends with a node `v` denoting, by name, what `u` denoted then has `v = u` -/
theorem C02_routes_agree_held4 (s : St) (hs : Good3 s.m s.ext) (pre post : List UOp4)
    (hg : Ops4Guarded (pre ++ post) s) (u v : Int)
    (hheld : ∀ p q, post = p ++ q → 0 < (run4 p (run4 pre s)).ext u.natAbs)
    (hv : (run4 (pre ++ post) s).m.tbl.Mem v)
    (hsame : ∀ σ, denN (run4 (pre ++ post) s).m.tbl v σ = denN (run4 pre s).m.tbl u σ) : v = u := by
  have hg' := (ops4Guarded_append pre post s).mp hg
  have hpre := reachable4_from pre s hs hg'.1
  obtain ⟨hm, hd⟩ := run4_held post (run4 pre s) hpre hg'.2 u hheld
  rw [← run4_append] at hm hd
  exact (canonical_by_name3 (reachable4_from (pre ++ post) s hs hg) v u hv hm).mp
    (fun σ => (hsame σ).trans (hd σ).symm)

/-! ### C06 -/

theorem collectGarbage_good3 (m : Mgr) (ext : Nat → Nat) (h : Good3 m ext) :
    ∃ m', collectGarbage none m = (.ok (), m') ∧ GcFullPost m ext m' ∧ Good3 m' ext ∧
      m'.lastLen = m.lastLen := by
  obtain ⟨m', he, hp⟩ := collectGarbage_spec m ext h.inv h.exact
  exact ⟨m', he, hp, ⟨hp.inv, h.order.congr hp.sub.vars hp.sub.l2v, hp.refExact,
    hp.sub.ctx.trans h.ctx, hp.sub.sched.trans h.sched, hp.sub.roots.trans h.roots⟩, hp.sub.lastLen⟩

/-- C06: after ANY history over the wide alphabet, from ANY good start, the counters are exact
w.r.t. the user's ledger, and a collection at that point succeeds, leaves EXACTLY the nodes
reachable from a held node (unchanged, same functions), keeps the counts exact and empties the
computed table -/
theorem C06_counts_exact_every_history4_from (s : St) (hs : Good3 s.m s.ext) (ops : List UOp4)
    (hg : Ops4Guarded ops s) :
    RefExact (run4 ops s).m (run4 ops s).ext ∧
    ∃ m', collectGarbage none (run4 ops s).m = (.ok (), m') ∧ Good3 m' (run4 ops s).ext ∧
      (∀ u n, m'.tbl.node? u = some n ↔
        ((run4 ops s).m.tbl.node? u = some n ∧ GcReach (run4 ops s).m.tbl (GcHeld (run4 ops s).ext) u)) ∧
      (∀ (u : Int), m'.tbl.Mem u → ∀ a, den m'.tbl u a = den (run4 ops s).m.tbl u a) ∧
      (∀ (u c : Nat), m'.ref[u]? = some c → 0 < c) ∧
      (∀ key : List Int, m'.cache[key]? = none) := by
  have hG := reachable4_from ops s hs hg
  obtain ⟨m', he, hp, hgood, -⟩ := collectGarbage_good3 _ _ hG
  refine ⟨hG.exact, m', he, hgood, hp.nodes hG.inv.toInvS, fun u hu a => hp.den_eq u hu a, ?_,
    collectGarbage_ok_cache none _ m' he⟩
  intro u c hc
  cases c with
  | zero => exact absurd hc (hp.noZero u)
  | succ c => omega

theorem C06_counts_exact_every_history4 (ops : List UOp4) (hg : Ops4Guarded ops St.init) :
    RefExact ⟪ops⟫.m ⟪ops⟫.ext ∧
    ∃ m', collectGarbage none ⟪ops⟫.m = (.ok (), m') ∧ Good3 m' ⟪ops⟫.ext ∧
      (∀ u n, m'.tbl.node? u = some n ↔
        (⟪ops⟫.m.tbl.node? u = some n ∧ GcReach ⟪ops⟫.m.tbl (GcHeld ⟪ops⟫.ext) u)) ∧
      (∀ (u : Int), m'.tbl.Mem u → ∀ a, den m'.tbl u a = den ⟪ops⟫.m.tbl u a) ∧
      (∀ (u c : Nat), m'.ref[u]? = some c → 0 < c) ∧
      (∀ key : List Int, m'.cache[key]? = none) :=
  C06_counts_exact_every_history4_from St.init Good3.init ops hg

/-- C06 / C07 / C09: whatever the next call is — a load, a copy from another manager, an image, a
rooted collection, `reorder_to_pairs`, a decorated call that sifts the manager — a reference the
user holds is a node before and after under the same number, denotes the same function by name,
and its counter is stored edges + the user's references; the internal signal never reaches the
user; with two variables declared (or reordering not enabled) only `configure` changes the switch -/
theorem C06_held_every_history4 (s : St) (hs : Good3 s.m s.ext) (ops : List UOp4)
    (hg : Ops4Guarded ops s) (op : UOp4) (hop : OpGuard4 (run4 ops s).m (run4 ops s).ext op) :
    Good3 (step4 op (run4 ops s)).m (step4 op (run4 ops s)).ext ∧
    (runOp4 op (run4 ops s).m).1 ≠ .error .needsReordering ∧
    (((run4 ops s).m.lastLen.isSome = true → 2 ≤ (run4 ops s).m.nvars) →
      (step4 op (run4 ops s)).m.lastLen.isSome = op.switchAfter (run4 ops s).m.lastLen.isSome) ∧
    ∀ u : Int, 0 < (run4 ops s).ext u.natAbs →
      (run4 ops s).m.tbl.Mem u ∧ (step4 op (run4 ops s)).m.tbl.Mem u ∧
      (∀ σ, denN (step4 op (run4 ops s)).m.tbl u σ = denN (run4 ops s).m.tbl u σ) ∧
      (step4 op (run4 ops s)).m.ref[u.natAbs]? =
        some (indeg (step4 op (run4 ops s)).m.tbl u.natAbs + (step4 op (run4 ops s)).ext u.natAbs +
          (if u.natAbs = 1 then 1 else 0)) :=
  have hG := reachable4_from ops s hs hg
  ⟨step4_inv _ _ op hG hop, step4_noSignal _ _ op hG hop, step4_switch _ _ op hG hop,
   fun u hu => step4_held _ _ op hG hop u hu⟩

/-! ### C17 -/

/-- C17: after ANY history over the wide alphabet, from ANY good start, a call that raises — a
syntax error or an undeclared variable in `add_expr`, an undeclared name in `cube`, an image with
an overlapping renaming, `collect_garbage` of an integer that is no node, `reorder_to_pairs` of an
unknown name or of a variable with itself, a copy of a foreign node or of variables the target
does not declare, a file with a dangling successor … — never raises the internal signal and
leaves a good state: the ledger untouched, every held reference a node with the same function by
name; every theorem applies to the next call, whatever it is, and a collection right after the
failure behaves normally -/
theorem C17_error_then_normal4 (s : St) (hs : Good3 s.m s.ext) (ops : List UOp4)
    (hg : Ops4Guarded ops s) (op : UOp4) (hop : OpGuard4 (run4 ops s).m (run4 ops s).ext op) (e : Err)
    (hrej : (runOp4 op (run4 ops s).m).1 = .error e) :
    e ≠ .needsReordering ∧
    Good3 (step4 op (run4 ops s)).m (step4 op (run4 ops s)).ext ∧
    (step4 op (run4 ops s)).ext = (run4 ops s).ext ∧
    (((run4 ops s).m.lastLen.isSome = true → 2 ≤ (run4 ops s).m.nvars) →
      (step4 op (run4 ops s)).m.lastLen.isSome = (run4 ops s).m.lastLen.isSome) ∧
    (∀ w : Int, HeldX (run4 ops s).ext w → (step4 op (run4 ops s)).m.tbl.Mem w ∧
      ∀ σ, denN (step4 op (run4 ops s)).m.tbl w σ = denN (run4 ops s).m.tbl w σ) ∧
    (∀ op2 : UOp4, OpGuard4 (step4 op (run4 ops s)).m (step4 op (run4 ops s)).ext op2 →
      Good3 (step4 op2 (step4 op (run4 ops s))).m (step4 op2 (step4 op (run4 ops s))).ext) ∧
    (∃ m', collectGarbage none (step4 op (run4 ops s)).m = (.ok (), m') ∧ Good3 m' (run4 ops s).ext) := by
  have hG := reachable4_from ops s hs hg
  have hS : Good3 (step4 op (run4 ops s)).m (step4 op (run4 ops s)).ext := step4_inv _ _ op hG hop
  have hl : (step4 op (run4 ops s)).ext = (run4 ops s).ext := rejected4_ledger _ _ op hG hop e hrej
  have hH : Held2 (run4 ops s).ext (run4 ops s).m (step4 op (run4 ops s)).m :=
    step4_heldSame _ _ op hG hop
  refine ⟨fun he => step4_noSignal _ _ op hG hop (by rw [hrej, he]), hS, hl, ?_,
    fun w hw => hH.heldX hw, fun op2 h2 => step4_inv _ _ op2 hS h2, ?_⟩
  · intro hsafe
    have h := step4_switch _ _ op hG hop hsafe
    cases op with
    | op o =>
      cases o with
      | op o2 => exact h
      | configure b =>
        exfalso
        have h1 := (configure_step3 (run4 ops s).m (run4 ops s).ext hG b).2.2.2.2
        have : (mapRes (fun _ => Res.unit) (configure (some b) (run4 ops s).m)).1 = .error e := hrej
        simp only [mapRes, h1] at this
        cases this
    | _ => exact h
  · obtain ⟨m', he, -, hgood, -⟩ := collectGarbage_good3 _ _ hS
    rw [hl] at hgood
    exact ⟨m', he, hgood⟩

/-- C17: in a history, the state after every call — accepted or rejected — is good -/
theorem C17_every_prefix_good4 (s : St) (hs : Good3 s.m s.ext) (pre post : List UOp4)
    (hg : Ops4Guarded (pre ++ post) s) : Good3 (run4 pre s).m (run4 pre s).ext :=
  reachable4_from pre s hs ((ops4Guarded_append pre post s).mp hg).1

/-! ### C01 -/

/-- C01 (reordering not enabled at that point): after ANY history over the wide alphabet, from ANY
good start, `apply` of every spelling of a binary propositional connective returns a node
denoting that connective of the operands -/
theorem C01_apply_every_history4 (s : St) (hs : Good3 s.m s.ext) (ops : List UOp4)
    (hg : Ops4Guarded ops s) (hoff : (run4 ops s).m.lastLen = none)
    (op : String) (c : Conn) (hc : docConn op = some c) (h2 : c.arity = 2)
    (hq1 : c ≠ .forall_) (hq2 : c ≠ .exists_) (hall : Gen.allOps.contains op = true)
    (u v : Int) (hu : (run4 ops s).m.tbl.Mem u) (hv : (run4 ops s).m.tbl.Mem v) :
    ∃ r m', runOp4 (.op (.op (.base (.apply op u (some v) none)))) (run4 ops s).m = (.ok (.ref r), m') ∧
      Good3 m' (run4 ops s).ext ∧ m'.tbl.Mem r ∧
      ∀ a, den m'.tbl r a = c.eval (den (run4 ops s).m.tbl u a) (den (run4 ops s).m.tbl v a) false := by
  have hG := reachable4_from ops s hs hg
  obtain ⟨r, m', he, -, -, hm, -, hd⟩ :=
    apply_binary_spec (run4 ops s).m hG.inv hoff op c hc h2 hq1 hq2 hall u v hu hv
  have hS := step4_inv _ _ (.op (.op (.base (.apply op u (some v) none)))) hG trivial
  have hrun : runOp4 (.op (.op (.base (.apply op u (some v) none)))) (run4 ops s).m =
      (.ok (.ref r), m') := by
    simp only [runOp4, runOp3, runOp2, runOp, mapRes, he]
  rw [hrun] at hS
  exact ⟨r, m', hrun, hS, hm, hd⟩

/-- C01 / C09 (reordering possibly enabled, the request firing at whichever node creation): for
operands the user holds, with two variables declared, the result denotes BY NAME the connective
of the operands as they were; the state is good; reordering is enabled iff it was -/
theorem C01_apply_every_history4_dyn (s : St) (hs : Good3 s.m s.ext) (ops : List UOp4)
    (hg : Ops4Guarded ops s) (h2 : 2 ≤ (run4 ops s).m.nvars)
    (op : String) (c : Conn) (hc : docConn op = some c) (ha : c.arity = 2)
    (hq1 : c ≠ .forall_) (hq2 : c ≠ .exists_) (hall : Gen.allOps.contains op = true)
    (u v : Int) (hu : HeldX (run4 ops s).ext u) (hv : HeldX (run4 ops s).ext v) :
    ∃ r m', runOp4 (.op (.op (.base (.apply op u (some v) none)))) (run4 ops s).m = (.ok (.ref r), m') ∧
      Good3 m' (run4 ops s).ext ∧ m'.lastLen.isSome = (run4 ops s).m.lastLen.isSome ∧ m'.tbl.Mem r ∧
      (∀ σ, denN m'.tbl r σ =
        c.eval (denN (run4 ops s).m.tbl u σ) (denN (run4 ops s).m.tbl v σ) false) ∧
      (∀ w, HeldX (run4 ops s).ext w → m'.tbl.Mem w ∧
        ∀ σ, denN m'.tbl w σ = denN (run4 ops s).m.tbl w σ) := by
  have hG := reachable4_from ops s hs hg
  obtain ⟨r, m', he, hp⟩ := C09_apply_binary_transparent (run4 ops s).ext (run4 ops s).m
    (hG.dynInv h2) op c hc ha hq1 hq2 hall u v hu hv
  refine ⟨r, m', ?_, hp.inv.good3 (hp.roots.trans hG.roots), hp.enabled, hp.doc.1, hp.doc.2, hp.held⟩
  simp only [runOp4, runOp3, runOp2, runOp, mapRes, he]

/-- C09 over the wide alphabet: after ANY history, with two variables declared, the manager is in
the state `DynInv` from which every C09 theorem (transparency of `ite`, `apply`, `quantify`, `let`,
`cube`, `add_expr`, `image`, `preimage`, copies) starts -/
theorem C09_every_history4 (s : St) (hs : Good3 s.m s.ext) (ops : List UOp4)
    (hg : Ops4Guarded ops s) (h2 : 2 ≤ (run4 ops s).m.nvars) :
    DynInv (run4 ops s).ext (run4 ops s).m :=
  (reachable4_from ops s hs hg).dynInv h2

/-! ### non-vacuity: a history with every new constructor, accepted and rejected -/

def resCode4 : Except Err Res → Int
  | .ok (.ref u) => u
  | .ok (.lvl n) => 1000 + n
  | .ok .unit => 0
  | .error _ => -1000

def bop (o : UOp) : UOp4 := .op (.op (.base o))

/-- the table of ANOTHER manager (variables `c`, `a` in this order; node 4 = `c ∧ a`) -/
def exSrc : Tbl :=
  (run4 [bop (.declare "c" none), bop (.declare "a" none), bop (.var "a"), bop (.var "c"),
    bop (.apply "and" 3 (some 2) none)] St.init).m.tbl

/-- the content of a pickle: variables `a`, `d`; node 2 = `d`, node 3 = `a ∧ d`; root 3 -/
def exPickle : PickleFile :=
  { vars := [("a", 0), ("d", 1)],
    succ := [⟨1, 2, none, none⟩, ⟨2, 1, some (-1), some 1⟩, ⟨3, 0, some (-1), some 2⟩],
    roots := .list [3] }

/-- twenty-three calls: every new constructor, returning and raising; dynamic reordering is
enabled for the last four -/
def exHistory4 : List UOp4 :=
  [ bop (.declare "a" none), bop (.declare "b" none), bop (.declare "c" none),
    .addExpr "a /\\ b",                                   -- node 4 = a ∧ b  (2 = a, 3 = b)
    bop (.incref 4),                                       -- held
    .addExpr "a /\\",                                     -- REJECTED: syntax error
    .cube [("a", true), ("c", false)],                     -- a ∧ ¬c = -6  (5 = c)
    .cube [("nosuch", true)],                              -- REJECTED: undeclared name
    .gcRooted [5, 6],                                      -- rooted collection: frees 6, then 5
    .gcRooted [99],                                        -- REJECTED: 99 is not a node
    .reorderToPairs [] [("a", "c")],                       -- order b, a, c
    .reorderToPairs [] [("a", "a")],                       -- REJECTED: AssertionError
    .loadPickle exPickle false,                            -- declares `d`, builds a ∧ d
    .loadPickle { exPickle with succ := [⟨3, 0, some (-1), some 7⟩] } false,  -- REJECTED: dangling child
    .image (-1) 4 [] [] false,                             -- image of FALSE
    .preimage 4 (-1) [] [] false,
    .copyFrom exSrc 1,                                     -- the constant
    .image 4 4 [(.name "a", .name "c")] [.name "nosuch"] false,   -- REJECTED: undeclared name
    .op (.configure true),                                 -- reordering enabled from here on
    .addExpr "b \\/ c",                                   -- node 8
    .image 4 4 [] [.name "b"] false,                       -- ∃ b. a ∧ b  =  a  : node 2
    .preimage 4 4 [(.name "c", .name "a")] [.name "c"] false,     -- node 4
    .copyFrom exSrc 4 ]                                    -- c ∧ a copied from the other manager: node 9

set_option maxRecDepth 100000 in
/-- the guards of all twenty-three calls hold (kernel) -/
theorem exHistory4_guarded : Ops4Guarded exHistory4 St.init := by decide +kernel

set_option maxRecDepth 100000 in
/-- the answers of the first twenty calls (kernel; `-1000` = raised).  The last three calls go
through per-call memo tables that are `Std.HashMap`s (indices are `USize`, opaque to the kernel):
the compiled evaluator gives `2, 4, 9` for them, and
`[(2,1,-1,1), (3,3,-1,1), (4,0,-1,2), (5,1,-1,3), (6,0,-1,1), (7,2,-1,1), (8,0,7,1), (9,1,-1,7)]`
(node, level, low, high) with the order `b, a, c, d` at the end. -/
theorem exHistory4_results : (results4 (exHistory4.take 20) St.init).map resCode4 =
    [1000, 1001, 1002, 4, 0, -1000, -6, -1000, 0, -1000, 0, -1000, 0, -1000, -1, -1, 1, -1000, 0, 8] ∧
    ⟪exHistory4.take 20⟫.m.tbl.vars.toList = [("a", 1), ("b", 0), ("c", 2), ("d", 3)] ∧
    ⟪exHistory4.take 20⟫.ext 4 = 1 ∧ ⟪exHistory4.take 20⟫.m.lastLen.isSome = true ∧
    2 ≤ ⟪exHistory4.take 20⟫.m.nvars := by decide +kernel

example : Good3 ⟪exHistory4⟫.m ⟪exHistory4⟫.ext := reachable4_inv exHistory4 exHistory4_guarded

/-- with the default schedule and `levels=False` the new calls are admissible whatever their
arguments -/
example (ps : List (String × String)) (f : PickleFile) :
    OpGuard4 ⟪exHistory4⟫.m ⟪exHistory4⟫.ext (.reorderToPairs [] ps) ∧
    OpGuard4 ⟪exHistory4⟫.m ⟪exHistory4⟫.ext (.loadPickle f false) :=
  have h := guard4_default _ _ (reachable4_inv exHistory4 exHistory4_guarded)
  ⟨h.1 ps, h.2 f⟩

/-- C02 on the example: node 4 is the only node denoting `a ∧ b` by name after the history -/
example (v : Int) (hv : ⟪exHistory4⟫.m.tbl.Mem v) (h4 : ⟪exHistory4⟫.m.tbl.Mem 4) :
    (∀ σ, denN ⟪exHistory4⟫.m.tbl 4 σ = denN ⟪exHistory4⟫.m.tbl v σ) ↔ 4 = v :=
  (C02_canonical_every_history4 exHistory4 exHistory4_guarded 4 v h4 hv).1

example : RefExact ⟪exHistory4⟫.m ⟪exHistory4⟫.ext :=
  (C06_counts_exact_every_history4 exHistory4 exHistory4_guarded).1

/-- C06 on the example: node 4 is held when the pickle is loaded (thirteenth call) and survives it
with its function and its counter equation -/
example : (step4 (.loadPickle exPickle false) ⟪exHistory4.take 12⟫).m.tbl.Mem 4 :=
  ((C06_held_every_history4 St.init Good3.init (exHistory4.take 12) (by decide +kernel)
    (.loadPickle exPickle false) (by decide +kernel)).2.2.2 4 (by decide +kernel)).2.1

/-- C17 on the example: the fourteenth call (a file with a dangling successor) raises in the state
reached by thirteen calls -/
theorem exHistory4_rejected :
    (runOp4 (.loadPickle { exPickle with succ := [⟨3, 0, some (-1), some 7⟩] } false)
      ⟪exHistory4.take 13⟫.m).1 = .error .key := by
  have h : ∀ r : Except Err Res, (match r with | .error .key => true | _ => false) = true →
      r = .error .key := by
    intro r
    cases r with
    | ok r => intro h; cases h
    | error e => cases e <;> intro h <;> first | rfl | cases h
  exact h _ (by decide +kernel)

example : Good3 (step4 (.loadPickle { exPickle with succ := [⟨3, 0, some (-1), some 7⟩] } false)
      ⟪exHistory4.take 13⟫).m ⟪exHistory4.take 13⟫.ext := by
  have h := C17_error_then_normal4 St.init Good3.init (exHistory4.take 13) (by decide +kernel)
    (.loadPickle { exPickle with succ := [⟨3, 0, some (-1), some 7⟩] } false) (by decide +kernel)
    .key exHistory4_rejected
  rw [← h.2.2.1]
  exact h.2.1

example : Good3 ⟪exHistory4.take 7⟫.m ⟪exHistory4.take 7⟫.ext :=
  C17_every_prefix_good4 St.init Good3.init (exHistory4.take 7) (exHistory4.drop 7)
    (by rw [List.take_append_drop]; exact exHistory4_guarded)

/-- C01 on the example: after eighteen calls reordering is not enabled -/
example : ∃ r m', runOp4 (.op (.op (.base (.apply "/\\" 2 (some 4) none)))) ⟪exHistory4.take 18⟫.m =
      (.ok (.ref r), m') ∧ Good3 m' ⟪exHistory4.take 18⟫.ext ∧ m'.tbl.Mem r ∧
    ∀ a, den m'.tbl r a = (den ⟪exHistory4.take 18⟫.m.tbl 2 a && den ⟪exHistory4.take 18⟫.m.tbl 4 a) :=
  C01_apply_every_history4 St.init Good3.init (exHistory4.take 18) (by decide +kernel) (by decide +kernel)
    "/\\" .and (by decide) (by decide) (by decide) (by decide) (by decide) 2 4
    (by decide +kernel) (by decide +kernel)

/-- … and after twenty calls it is, with node 4 held and four variables: the C09 form applies -/
example : ∃ r m', runOp4 (.op (.op (.base (.apply "or" 4 (some 4) none)))) ⟪exHistory4.take 20⟫.m =
      (.ok (.ref r), m') ∧ Good3 m' ⟪exHistory4.take 20⟫.ext ∧
    m'.lastLen.isSome = ⟪exHistory4.take 20⟫.m.lastLen.isSome ∧ m'.tbl.Mem r ∧
    (∀ σ, denN m'.tbl r σ = Conn.or.eval (denN ⟪exHistory4.take 20⟫.m.tbl 4 σ)
      (denN ⟪exHistory4.take 20⟫.m.tbl 4 σ) false) ∧
    (∀ w, HeldX ⟪exHistory4.take 20⟫.ext w → m'.tbl.Mem w ∧
      ∀ σ, denN m'.tbl w σ = denN ⟪exHistory4.take 20⟫.m.tbl w σ) :=
  have hh : HeldX ⟪exHistory4.take 20⟫.ext 4 :=
    Or.inr (by rw [show ((4 : Int).natAbs) = 4 from rfl, exHistory4_results.2.2.1]; decide)
  C01_apply_every_history4_dyn St.init Good3.init (exHistory4.take 20) (by decide +kernel)
    exHistory4_results.2.2.2.2 "or" .or (by decide) (by decide) (by decide) (by decide) (by decide)
    4 4 hh hh

example : DynInv ⟪exHistory4.take 20⟫.ext ⟪exHistory4.take 20⟫.m :=
  C09_every_history4 St.init Good3.init (exHistory4.take 20) (by decide +kernel)
    exHistory4_results.2.2.2.2

/-! ### non-vacuity: histories that do not start from `BDD()` -/

/-- from the constructor `BDD({'a': 1, 'b': 0})` -/
example (ops : List UOp4) (hg : Ops4Guarded ops ⟨(newMgrCore [("a", 1), ("b", 0)]).2, fun _ => 0⟩) :
    Good3 (run4 ops ⟨(newMgrCore [("a", 1), ("b", 0)]).2, fun _ => 0⟩).m
      (run4 ops ⟨(newMgrCore [("a", 1), ("b", 0)]).2, fun _ => 0⟩).ext :=
  reachable4_from ops _ (newMgrCore_start [("a", 1), ("b", 0)] (by decide) (by decide)).2.1.good3 hg

/-- … a concrete continuation: `a /\ b` is built in the manager the constructor made -/
example : Ops4Guarded [.addExpr "a /\\ b", .gcRooted [2]] ⟨(newMgrCore [("a", 1), ("b", 0)]).2, fun _ => 0⟩ ∧
    (results4 [.addExpr "a /\\ b", .gcRooted [2]] ⟨(newMgrCore [("a", 1), ("b", 0)]).2, fun _ => 0⟩).map
      resCode4 = [4, 0] := by decide +kernel

/-- from `copy.copy` of the manager reached by the first five calls (node 4 held): the ledger is
carried over, the history continues in the copy -/
example : ∃ b, mgrCopy ⟪exHistory4.take 5⟫.m = .ok b ∧
    Good3 (run4 [.addExpr "a \\/ b", .gcRooted [2]] ⟨b, ⟪exHistory4.take 5⟫.ext⟩).m
      (run4 [.addExpr "a \\/ b", .gcRooted [2]] ⟨b, ⟪exHistory4.take 5⟫.ext⟩).ext := by
  have hgd : ∀ s : St, Ops4Guarded [.addExpr "a \\/ b", .gcRooted [2]] s := fun _ => ⟨trivial, trivial, trivial⟩
  obtain ⟨b, he, hg, -, -⟩ := mgrCopy_start _ _ (reachable4_inv (exHistory4.take 5) (by decide +kernel))
  have key : ∀ (b : Mgr) (ext : Nat → Nat), Good3 b ext →
      Good3 (run4 [.addExpr "a \\/ b", .gcRooted [2]] ⟨b, ext⟩).m
        (run4 [.addExpr "a \\/ b", .gcRooted [2]] ⟨b, ext⟩).ext :=
    fun b ext hb => reachable4_from _ ⟨b, ext⟩ hb (hgd _)
  exact ⟨b, he, key b _ hg⟩

/-- from `reduction()` of the manager reached by the whole history: a new manager, nothing held -/
example : ∃ b tr, reduction (1 :: ⟪exHistory4⟫.m.tbl.succ.keys) ⟪exHistory4⟫.m = (.ok b, ⟪exHistory4⟫.m) ∧
    ReductionPost ⟪exHistory4⟫.m.tbl ⟪exHistory4⟫.m.roots b tr ∧
    Good3 (run4 [.cube [("a", true)], .loadPickle exPickle false] ⟨b, fun _ => 0⟩).m
      (run4 [.cube [("a", true)], .loadPickle exPickle false] ⟨b, fun _ => 0⟩).ext := by
  have hG := reachable4_inv exHistory4 exHistory4_guarded
  have hgd : ∀ s : St, Ops4Guarded [.cube [("a", true)], .loadPickle exPickle false] s :=
    fun _ => ⟨trivial, loadGuard_false _ _, trivial⟩
  obtain ⟨b, tr, he, hg, -, hp⟩ := reduction_start _ _ hG _ (SuccOrder.ascending _ hG.inv.wf.toWF)
  exact ⟨b, tr, he, hp, reachable4_from [.cube [("a", true)], .loadPickle exPickle false] ⟨b, fun _ => 0⟩ hg (hgd _)⟩

end DD
