/-
  DDProps.C09Sched — C09 (dynamic reordering is invisible) and the dynamic part of C17 (rejected
  calls with reordering enabled) for EVERY RECORDED ITERATION SCHEDULE.

  ## What was missing

  The theorems of DDProps.C09 / DDProps.C17 assume `DynInv ext m`, which contains
  `m.sched = []`: the sifting that runs inside `_try_to_reorder` is covered for the model's
  DEFAULT iteration order of the Python sets only (`for var in set(bdd.vars)` in
  `_apply_sifting` sorted by name, the level sets `all_levels[j]` inside `swap` ascending).  The
  differential check runs exactly these operations with RECORDED orders: `DD.stepLine` executes
  a protocol line as `stepMgr op args { m with sched := sched }`, `sched` being the trailing field
  `S:sift=…;swap=…` of the line, and drops what is left afterwards (`{ m' with sched := [] }`,
  answering `SCHED-LEFT` if something was left after a success).

  ## What the schedule is

  `m.sched : List SchedItem` is the sequence of iteration orders of Python `set`s taken by the run
  of the REAL code for this call, in the order in which they were taken, as recorded by the
  harness (`harness/impl.py` wraps `BDD.swap`, `BDD._levels`, `_reorder_var`):
  `.sift names` = the order of `for var in set(bdd.vars)` of one `_apply_sifting`;
  `.swap lv` = the orders of the level sets `all_levels[j]` given to one `swap`.
  The model consumes the head item at each such loop (`takeSiftOrder`, `takeSwapOrders`), checks
  that it is a permutation of the set the MODEL has at that point, and iterates in that order;
  when no item is left it iterates in ascending order.  If the head item is of the wrong kind or
  is not such a permutation, the model raises its own error `.sched`, printed
  `MODEL-SCHEDULE-MISMATCH` (never an answer of the real code).

  ## What is proved here

  `DynInvS ext m` is `DynInv ext m` without the clause on the schedule (`dynInv_iff`).  For EVERY
  list in `m.sched`, every decorated operation, from `DynInvS ext m`,
    * returns `.ok r` with `DynPostS ext Doc m r m'` — the post-condition `DynPostG` of
      DDProps.C09 with `DynInvS ext m'` instead of `DynInv ext m'`, plus "no schedule left if
      there was none"; what the driver stores, `{ m' with sched := [] }`, satisfies `DynInv`
      again and `DynPostG ext Doc m r { m' with sched := [] }` holds literally
      (`C09_decorator_transparent_recorded`);
    * or fails with `.sched`, which happens only if `m.sched ≠ []`, and only inside the sifting
      between the two attempts (the bodies never read or write the schedule).
  With `m.sched = []` the first alternative is the theorem of DDProps.C09
  (`C09_anySchedule_default`), so these theorems strictly generalise those.

  ## Why `.sched` cannot occur for a schedule recorded from a real run

  That is NOT a theorem; it is the tie the harness makes.  The model is deterministic given the
  schedule.  The differential check replays every call on the model and compares answers and
  (sorted) states with the real code's.  As long as they have agreed so far, the sets the real
  code iterated over during the call are, item by item, the sets the model has when it reaches
  the same loop — C07 (`C07_sift`, `C07_swap`) shows that the model's run of sifting reaches each
  loop without any other exception — so each recorded order is a permutation of the model's set
  and the items are consumed in step.  If the model nevertheless answers
  `MODEL-SCHEDULE-MISMATCH`, or succeeds leaving items (`SCHED-LEFT`), the answer differs from
  the real code's and the check reports a violation: a mismatch is a detected disagreement
  between model and code, never silently accepted.  What the theorems contribute is that
  `.sched` is the ONLY way in which the model's decorated call can deviate from "returns the
  documented result, everything held keeps its meaning" — for all lists, not only recorded ones.

  Method: no proof of DDProps.C09 is redone.  Each instance there is
  `tryToReorder_transparent` applied to a triple body / `Pre` / `Doc` whose hypotheses do not
  mention the schedule; here the generalised generic theorem `tryToReorder_transparentS`
  (DDProofs.DynSched) is applied to the same triples (DDProofs.DynSchedOps), and
  `tryToReorder_total_dynS` to the same totality lemmas `*_totE` for C17.  The contract of
  sifting for every schedule, `SiftContractS`, is `applySifting_never_raises` (the theorem behind
  `C07_sift`, i.e. `applySifting_total` for the environment `siftEnv2`).
-/
import DDProofs.DynSchedOps
import DDProofs.DynSchedReach
namespace DD

/-! ## the contract of sifting and the generic theorems -/

/-- C09: the contract of sifting for EVERY schedule holds for every ledger: from `DynInvS ext m`
with requests disabled, `reorder(bdd)` returns normally — `DynInvS`, requests still disabled, same
number of variables, same declared names, every held reference with the same meaning by name,
same roots, no schedule left if there was none — or the model reports `.sched`, which requires a
recorded schedule.  (C07: `applySifting_never_raises`, `applySifting_total_default`.) -/
theorem C09_siftContract_anySchedule (ext : Nat → Nat) : SiftContractS ext := siftContractS ext

/-- C09: the contract for every schedule contains the contract of DDProps.C09 -/
theorem C09_siftContract_anySchedule_default (ext : Nat → Nat) : SiftContract ext :=
  (siftContractS ext).toDefault

/-- C09, GENERIC, EVERY SCHEDULE.  Same hypotheses on the body `f` as
`C09_decorator_transparent` (they do not mention the schedule).  From `DynInvS ext m` — whatever
list of iteration orders is in `m.sched` — the decorated `f`, reordering enabled or not, the
request firing at whichever `find_or_add`:
returns `.ok r` with `DynPostS ext Doc m r m'` (documented result relative to the operands as
they were, `DynInvS ext m'`, reordering enabled iff it was, same declared names, every held
reference with the same meaning by name, same roots, no schedule left if there was none);
or fails with `.sched` (`MODEL-SCHEDULE-MISMATCH`), only if `m.sched ≠ []`.

The schedule is the list of set-iteration orders recorded from the run of the real code; `.sched`
means that this list does not describe a run of the code from this state; that it does not occur
for a list recorded from a real run is the harness's tie (file header), not part of the theorem. -/
theorem C09_decorator_transparent_anySchedule {α} (ext : Nat → Nat) (f : M α) (ops : List Int)
    (Pre : Tbl → Prop) (Doc : Tbl → α → Tbl → Prop)
    (hbody : ∀ m0 : Mgr, Inv m0 → m0.ctx = true → OrderOK m0.tbl → Pre m0.tbl →
      (∀ u ∈ ops, m0.tbl.Mem u) → Outcome m0 (fun r m1 => Doc m0.tbl r m1.tbl) (f m0))
    (hpre : ∀ t t', Bridge ops t t' → Pre t → Pre t')
    (hdoc : ∀ t t' r t'', Bridge ops t t' → Pre t → Doc t' r t'' → Doc t r t'')
    (m : Mgr) (hD : DynInvS ext m) (hops : ∀ u ∈ ops, HeldX ext u) (hpre0 : Pre m.tbl) :
    (∃ r m', tryToReorder f m = (.ok r, m') ∧ DynPostS ext Doc m r m') ∨
    (∃ m', tryToReorder f m = (.error .sched, m') ∧ m.sched ≠ []) :=
  (tryToReorder_transparentS ext (siftContractS ext) f ops Pre Doc hbody hpre hdoc m hD hops
    hpre0).cases

/-- C09, GENERIC, in the form of the driver (`DD.stepLine`): the stored manager `m` is as between
two calls (`DynInv`, no schedule); the recorded schedule `sch` of the protocol line is put in for
the call; whatever is left is dropped afterwards.  Then the call returns with EXACTLY the
post-condition of `C09_decorator_transparent` between `m` and `{ m' with sched := [] }` (in
particular `DynInv ext { m' with sched := [] }`: the next line starts from such a state again) —
or the model answers `MODEL-SCHEDULE-MISMATCH`, only for `sch ≠ []`. -/
theorem C09_decorator_transparent_recorded {α} (ext : Nat → Nat) (f : M α) (ops : List Int)
    (Pre : Tbl → Prop) (Doc : Tbl → α → Tbl → Prop)
    (hbody : ∀ m0 : Mgr, Inv m0 → m0.ctx = true → OrderOK m0.tbl → Pre m0.tbl →
      (∀ u ∈ ops, m0.tbl.Mem u) → Outcome m0 (fun r m1 => Doc m0.tbl r m1.tbl) (f m0))
    (hpre : ∀ t t', Bridge ops t t' → Pre t → Pre t')
    (hdoc : ∀ t t' r t'', Bridge ops t t' → Pre t → Doc t' r t'' → Doc t r t'')
    (m : Mgr) (hD : DynInv ext m) (hops : ∀ u ∈ ops, HeldX ext u) (hpre0 : Pre m.tbl)
    (sch : List SchedItem) :
    (∃ r m', tryToReorder f { m with sched := sch } = (.ok r, m') ∧
      DynPostG ext Doc m r { m' with sched := [] }) ∨
    (∃ m', tryToReorder f { m with sched := sch } = (.error .sched, m') ∧ sch ≠ []) :=
  (tryToReorder_transparentS ext (siftContractS ext) f ops Pre Doc hbody hpre hdoc
    { m with sched := sch } (hD.withSched sch) hops hpre0).driver

/-- C09: how to read the outcome `DynOutS` of the instances below (`OkOr` of DDProofs.MonadM):
`.ok r` with `DynPostS`, or `.error .sched` with a recorded schedule present -/
theorem C09_anySchedule_means {α} (ext : Nat → Nat) (Doc : Tbl → α → Tbl → Prop) (m : Mgr)
    (res : Except Err α × Mgr) (h : DynOutS ext Doc m res) :
    (∃ r m', res = (.ok r, m') ∧ DynInvS ext m' ∧ Doc m.tbl r m'.tbl ∧
      m'.lastLen.isSome = m.lastLen.isSome ∧
      (∀ s, m'.tbl.vars.contains s = m.tbl.vars.contains s) ∧
      (∀ w, HeldX ext w → m'.tbl.Mem w ∧ ∀ σ, denN m'.tbl w σ = denN m.tbl w σ) ∧
      m'.roots = m.roots ∧ (m.sched = [] → m'.sched = [])) ∨
    (∃ m', res = (.error .sched, m') ∧ m.sched ≠ []) := by
  rcases h.cases with ⟨r, m', he, hp⟩ | h
  · exact Or.inl ⟨r, m', he, hp.inv, hp.doc, hp.enabled, hp.names, hp.held, hp.roots, hp.sched⟩
  · exact Or.inr h

/-- C09: with no recorded schedule the outcome is the one of DDProps.C09 — the theorems of this
file contain those -/
theorem C09_anySchedule_default {α} (ext : Nat → Nat) (Doc : Tbl → α → Tbl → Prop) (m : Mgr)
    (res : Except Err α × Mgr) (h : DynOutS ext Doc m res) (hs : m.sched = []) :
    ∃ r m', res = (.ok r, m') ∧ DynPostG ext Doc m r m' := h.default hs

/-- C09: in the driver's form (schedule put in, remainder dropped) -/
theorem C09_anySchedule_recorded {α} (ext : Nat → Nat) (Doc : Tbl → α → Tbl → Prop) (m : Mgr)
    (sch : List SchedItem) (res : Except Err α × Mgr)
    (h : DynOutS ext Doc { m with sched := sch } res) :
    (∃ r m', res = (.ok r, m') ∧ DynPostG ext Doc m r { m' with sched := [] }) ∨
    (∃ m', res = (.error .sched, m') ∧ sch ≠ []) := h.driver

/-- C09: the state the driver gives to a call (`DynInv` between two calls, any schedule put in)
satisfies `DynInvS`; the state it stores afterwards satisfies `DynInv` -/
theorem C09_driver_states (ext : Nat → Nat) (m : Mgr) :
    (DynInv ext m → ∀ sch, DynInvS ext { m with sched := sch }) ∧
    (DynInvS ext m → DynInv ext { m with sched := [] }) ∧
    (DynInv ext m ↔ DynInvS ext m ∧ m.sched = []) :=
  ⟨fun h sch => h.withSched sch, fun h => h.clear, dynInv_iff ext m⟩

/-! ## the instances (same documented results `…Doc` as in DDProps.C09) -/

/-- C09 `ite`, every schedule -/
theorem C09_ite_transparent_anySchedule (ext : Nat → Nat) (m : Mgr) (hD : DynInvS ext m)
    (g u v : Int) (hg : HeldX ext g) (hu : HeldX ext u) (hv : HeldX ext v) :
    DynOutS ext (IteDoc g u v) m (ite g u v m) :=
  ite_transparentS ext m hD g u v hg hu hv

/-- C09 `apply(op, u, v)` for every binary propositional alias, every schedule -/
theorem C09_apply_binary_transparent_anySchedule (ext : Nat → Nat) (m : Mgr) (hD : DynInvS ext m)
    (op : String) (c : Conn) (hc : docConn op = some c)
    (h2 : c.arity = 2) (hq1 : c ≠ .forall_) (hq2 : c ≠ .exists_)
    (hall : Gen.allOps.contains op = true) (u v : Int) (hu : HeldX ext u) (hv : HeldX ext v) :
    DynOutS ext (ConnDoc c u v) m (apply op u (some v) none m) :=
  apply_binary_transparentS ext m hD op c hc h2 hq1 hq2 hall u v hu hv

/-- C09 `apply('ite', u, v, w)`, every schedule -/
theorem C09_apply_ite_transparent_anySchedule (ext : Nat → Nat) (m : Mgr) (hD : DynInvS ext m)
    (op : String) (hc : docConn op = some .ite)
    (hall : Gen.allOps.contains op = true) (u v w : Int) (hu : HeldX ext u) (hv : HeldX ext v)
    (hw : HeldX ext w) :
    DynOutS ext (Ite3Doc u v w) m (apply op u (some v) (some w) m) :=
  apply_ite_transparentS ext m hD op hc hall u v w hu hv hw

/-- C09 `apply` with a quantifier alias, every schedule -/
theorem C09_apply_quant_transparent_anySchedule (ext : Nat → Nat) (m : Mgr) (hD : DynInvS ext m)
    (op : String) (c : Conn) (hc : docConn op = some c) (hq : c = .forall_ ∨ c = .exists_)
    (hall : Gen.allOps.contains op = true) (u v : Int) (hu : m.tbl.Mem u) (hv : HeldX ext v)
    (names : List String) (hsupp : support m.tbl u = .ok names)
    (hdecl : ∀ s ∈ names, m.tbl.vars.contains s = true) :
    DynOutS ext (QuantDoc (decide (c = .forall_)) names v) m (apply op u (some v) none m) :=
  apply_quant_transparentS ext m hD op c hc hq hall u v hu hv names hsupp hdecl

/-- C09 `var(name)`, every schedule -/
theorem C09_var_transparent_anySchedule (ext : Nat → Nat) (m : Mgr) (hD : DynInvS ext m)
    (name : String) (hdecl : m.tbl.vars.contains name = true) :
    DynOutS ext (VarDoc name) m (var name m) :=
  var_transparentS ext m hD name hdecl

/-- C09 `quantify` / `exist` / `forall` over declared names, every schedule -/
theorem C09_quantify_transparent_anySchedule (ext : Nat → Nat) (m : Mgr) (hD : DynInvS ext m)
    (u : Int) (hu : HeldX ext u) (fa : Bool) (names : List String)
    (hdecl : ∀ s ∈ names, m.tbl.vars.contains s = true) :
    DynOutS ext (QuantDoc fa names u) m (quantify u (names.map Key.name) fa m) :=
  quantify_transparentS ext m hD u hu fa names hdecl

/-- C09 `cofactor`, every schedule -/
theorem C09_cofactor_transparent_anySchedule (ext : Nat → Nat) (m : Mgr) (hD : DynInvS ext m)
    (u : Int) (hu : HeldX ext u) (vals : List (String × Bool))
    (hdecl : ∀ p ∈ vals, m.tbl.vars.contains p.1 = true) :
    DynOutS ext (CofDoc vals u) m (cofactor u (boolKeys vals) m) :=
  cofactor_transparentS ext m hD u hu vals hdecl

/-- C09 `compose`, every schedule -/
theorem C09_compose_transparent_anySchedule (ext : Nat → Nat) (m : Mgr) (hD : DynInvS ext m)
    (f : Int) (hf : HeldX ext f) (varSub : List (String × Int))
    (hdecl : ∀ p ∈ varSub, m.tbl.vars.contains p.1 = true)
    (hheld : ∀ p ∈ varSub, HeldX ext p.2) :
    DynOutS ext (ComposeDoc varSub f) m (compose f varSub m) :=
  compose_transparentS ext m hD f hf varSub hdecl hheld

/-- C09 `rename`, every schedule -/
theorem C09_rename_transparent_anySchedule (ext : Nat → Nat) (m : Mgr) (hD : DynInvS ext m)
    (u : Int) (hu : HeldX ext u) (dvars : List (String × String))
    (hd : ∀ p ∈ dvars, m.tbl.vars.contains p.2 = true) :
    DynOutS ext (RenameDoc dvars u) m (rename u dvars m) :=
  rename_transparentS ext m hD u hu dvars hd

/-- C09 `let` in its three homogeneous forms, every schedule -/
theorem C09_let_transparent_anySchedule (ext : Nat → Nat) (m : Mgr) (hD : DynInvS ext m)
    (u : Int) (hu : HeldX ext u) :
    (∀ (vals : List (String × Bool)), vals ≠ [] →
      (∀ p ∈ vals, m.tbl.vars.contains p.1 = true) →
      DynOutS ext (CofDoc vals u) m (letOp (.bools (boolKeys vals)) u m)) ∧
    (∀ (varSub : List (String × Int)), varSub ≠ [] →
      (∀ p ∈ varSub, m.tbl.vars.contains p.1 = true) → (∀ p ∈ varSub, HeldX ext p.2) →
      DynOutS ext (ComposeDoc varSub u) m (letOp (.refs varSub) u m)) ∧
    (∀ (dvars : List (String × String)), dvars ≠ [] →
      (∀ p ∈ dvars, m.tbl.vars.contains p.2 = true) →
      DynOutS ext (RenameDoc dvars u) m (letOp (.names dvars) u m)) :=
  ⟨fun vals hne hd => let_bools_transparentS ext m hD u hu vals hne hd,
   fun varSub hne hd hh => let_refs_transparentS ext m hD u hu varSub hne hd hh,
   fun dvars hne hd => let_names_transparentS ext m hD u hu dvars hne hd⟩

/-- C09 `cube(dvars)` over declared names, every schedule -/
theorem C09_cube_transparent_anySchedule (ext : Nat → Nat) (m : Mgr) (hD : DynInvS ext m)
    (dvars : List (String × Bool)) (hdecl : ∀ p ∈ dvars, m.tbl.vars.contains p.1 = true) :
    DynOutS ext (CubeDoc dvars) m (cube dvars m) :=
  cube_transparentS ext m hD dvars hdecl

/-- C09 `copy_bdd(u, from_bdd, to_bdd)` into a target with dynamic reordering enabled, every
schedule (recorded for the TARGET: the driver's `copy` line puts it into `tgt.sched`) -/
theorem C09_copy_bdd_transparent_anySchedule (ext : Nat → Nat) (s : Tbl) (hS : WF s)
    (hOs : OrderOK s) (m : Mgr) (hD : DynInvS ext m) (u : Int) (hu : s.Mem u)
    (hsup : CopyPre s u m.tbl) :
    DynOutS ext (CopyDoc s u) m (copyBdd s u m) :=
  copyBdd_transparentS ext s hS hOs m hD u hu hsup

/-- C09 `add_expr`, every schedule -/
theorem C09_addExpr_transparent_anySchedule (ext : Nat → Nat) (m : Mgr) (hD : DynInvS ext m)
    (s : String) (t : Ast) (hp : parse (tokenize s) = some t) (hM : Meaningful m.tbl t)
    (hheld : ∀ u ∈ t.atNodes, HeldX ext u) :
    DynOutS ext (ExprDoc t) m (addExpr s m) :=
  addExpr_transparentS ext m hD s t hp hM hheld

/-- C09 `image` (renaming and quantified variables by declared names), every schedule -/
theorem C09_image_transparent_anySchedule (ext : Nat → Nat) (m : Mgr) (hD : DynInvS ext m)
    (trans source : Int) (ht : HeldX ext trans) (hs : HeldX ext source) (fa : Bool)
    (l : List (String × String)) (qs : List String) (hpre : ImagePre trans source l qs m.tbl) :
    DynOutS ext (ImageDoc fa qs l trans source) m
      (image trans source (l.map fun p => (Key.name p.1, Key.name p.2)) (qs.map Key.name) fa m) :=
  image_transparentS ext m hD trans source ht hs fa l qs hpre

/-- C09 `preimage`, every schedule -/
theorem C09_preimage_transparent_anySchedule (ext : Nat → Nat) (m : Mgr) (hD : DynInvS ext m)
    (trans target : Int) (ht : HeldX ext trans) (hs : HeldX ext target) (fa : Bool)
    (l : List (String × String)) (qs : List String) (hpre : PreimagePreN target l qs m.tbl) :
    DynOutS ext (PreimageDoc fa qs l trans target) m
      (preimage trans target (l.map fun p => (Key.name p.1, Key.name p.2)) (qs.map Key.name)
        fa m) :=
  preimage_transparentS ext m hD trans target ht hs fa l qs hpre

/-- C09 `preimage` under its literal preconditions (any order, any renaming, any target), every
schedule -/
theorem C09_preimage_literal_transparent_anySchedule (ext : Nat → Nat) (m : Mgr)
    (hD : DynInvS ext m) (trans target : Int) (ht : HeldX ext trans) (hs : HeldX ext target)
    (fa : Bool) (l : List (String × String)) (qs : List String) (hpre : PreimagePreL l qs m.tbl) :
    DynOutS ext (PreimageDoc fa qs l trans target) m
      (preimage trans target (l.map fun p => (Key.name p.1, Key.name p.2)) (qs.map Key.name)
        fa m) :=
  preimage_literal_transparentS ext m hD trans target ht hs fa l qs hpre

/-- C09 `image`, arguments as names or levels resolving to declared levels, every schedule -/
theorem C09_image_keys_transparent_anySchedule (ext : Nat → Nat) (m : Mgr) (hD : DynInvS ext m)
    (trans source : Int) (ht : HeldX ext trans) (hs : HeldX ext source)
    (fa : Bool) (rn : List (Key × Key)) (qvars : List Key) (q : List Nat)
    (hq : mapToLevelE m.tbl qvars = .ok q)
    (hov : renameOverlap (resolveRename m.tbl rn) = false)
    (hnl : renameNonLevel (resolveRename m.tbl rn) = false)
    (hlv : ∀ p, p ∈ intPairs (resolveRename m.tbl rn) →
      0 ≤ p.1 ∧ p.1 < (m.nvars : Int) ∧ 0 ≤ p.2 ∧ p.2 < (m.nvars : Int))
    (htg : ∀ p, p ∈ intPairs (resolveRename m.tbl rn) → ∀ l : Nat, p.2 = (l : Int) →
      l ∈ q ∨ (¬ dependsOn m.tbl trans l ∧ ¬ dependsOn m.tbl source l)) :
    DynOutS ext (ImageDoc fa (q.map m.tbl.nameOf)
        (namePairs m.tbl (intPairs (resolveRename m.tbl rn))) trans source) m
      (image trans source rn qvars fa m) :=
  image_keys_transparentS ext m hD trans source ht hs fa rn qvars q hq hov hnl hlv htg

/-- C09 `preimage`, arguments as names or levels resolving to declared levels, every schedule -/
theorem C09_preimage_keys_transparent_anySchedule (ext : Nat → Nat) (m : Mgr)
    (hD : DynInvS ext m) (trans target : Int) (ht : HeldX ext trans) (hs : HeldX ext target)
    (fa : Bool) (rn : List (Key × Key)) (qvars : List Key) (q : List Nat)
    (hq : mapToLevelE m.tbl qvars = .ok q)
    (hov : renameOverlap (resolveRename m.tbl rn) = false)
    (hnl : renameNonLevel (resolveRename m.tbl rn) = false)
    (hlv : ∀ p, p ∈ intPairs (resolveRename m.tbl rn) →
      0 ≤ p.1 ∧ p.1 < (m.nvars : Int) ∧ 0 ≤ p.2 ∧ p.2 < (m.nvars : Int)) :
    DynOutS ext (PreimageDoc fa (q.map m.tbl.nameOf)
        (namePairs m.tbl (intPairs (resolveRename m.tbl rn))) trans target) m
      (preimage trans target rn qvars fa m) :=
  preimage_keys_literal_transparentS ext m hD trans target ht hs fa rn qvars q hq hov hnl hlv

/-- C09, chaining under recorded schedules, as the driver does it: two protocol lines in a row,
each with its own recorded schedule (`sch1`, `sch2`), the remainder dropped after each; the first
result is `incref`ed in between.  Either both calls return and the second result is
`ite(g, u, v) ∧ w` of the operands as they were, by name — or one of the two lines answers
`MODEL-SCHEDULE-MISMATCH`. -/
theorem C09_chained_calls_recorded (ext : Nat → Nat) (m : Mgr) (hD : DynInv ext m)
    (g u v w : Int) (hg : HeldX ext g) (hu : HeldX ext u) (hv : HeldX ext v) (hw : HeldX ext w)
    (sch1 sch2 : List SchedItem) :
    (∃ m1, ite g u v { m with sched := sch1 } = (.error .sched, m1) ∧ sch1 ≠ []) ∨
    ∃ r1 m1, ite g u v { m with sched := sch1 } = (.ok r1, m1) ∧
      ∃ m1', incref r1 { m1 with sched := [] } = (.ok (), m1') ∧
        ((∃ m2, apply "and" r1 (some w) none { m1' with sched := sch2 } = (.error .sched, m2) ∧
            sch2 ≠ []) ∨
         ∃ r2 m2, apply "and" r1 (some w) none { m1' with sched := sch2 } = (.ok r2, m2) ∧
          DynInv (extInc ext r1.natAbs) { m2 with sched := [] } ∧ m2.tbl.Mem r2 ∧
          ∀ σ, denN m2.tbl r2 σ =
            ((if denN m.tbl g σ then denN m.tbl u σ else denN m.tbl v σ) && denN m.tbl w σ)) := by
  rcases (ite_transparentS ext _ (hD.withSched sch1) g u v hg hu hv).driver with
    ⟨r1, m1, he1, hp1⟩ | h
  rotate_left
  · exact Or.inl h
  refine Or.inr ⟨r1, m1, he1, ?_⟩
  obtain ⟨m1', hinc, hD1, htbl, _⟩ := hp1.inv.incref r1 hp1.doc.1
  refine ⟨m1', hinc, ?_⟩
  rcases (apply_binary_transparentS (extInc ext r1.natAbs) _ (hD1.withSched sch2)
    "and" .and (by decide) (by decide) (by decide) (by decide) (by decide) r1 w
    (HeldX.extInc_self ext r1) (hw.extInc _)).driver with ⟨r2, m2, he2, hp2⟩ | h
  rotate_left
  · exact Or.inl h
  refine Or.inr ⟨r2, m2, he2, hp2.inv, hp2.doc.1, fun σ => ?_⟩
  have h2 := hp2.doc.2 σ
  rw [and_eval, htbl, hp1.doc.2 σ, (hp1.held w hw).2 σ] at h2
  exact h2

/-! ## histories whose decorated calls run under recorded schedules -/

/-- C09 / C17, EVERY HISTORY WITH RECORDED SCHEDULES.  A call is a pair (recorded schedule,
operation); `runCallS` runs it as `DD.stepLine` does (a decorated operation with a non-empty
schedule runs with that schedule in `m.sched`, the remainder is dropped; the explicit
reorderings of `UOp2` carry their own schedule).  The guard `CallGuardS` is the guard of
DDProofs.Reach3 for a call without schedule; for a call WITH one it asks: the operation is a
decorated one, two variables are declared, and the model's answer is not
`MODEL-SCHEDULE-MISMATCH` (as `OpGuard2` asks of `sift sch`; for a schedule recorded from a real
run that is the harness's tie).  Then: every state reached from the empty manager is good
(`Good3`: invariant, order bijection, exact counts for the user's ledger, flag cleared, no
schedule) — with two variables it satisfies `DynInv`, so the theorems above apply to the next
call; and no call ever answers the internal signal. -/
theorem C09_every_history_recorded (cs : List SCall) (hg : CallsGuardedS cs St.init) :
    Good3 (runS cs St.init).m (runS cs St.init).ext ∧
    (2 ≤ (runS cs St.init).m.nvars → DynInv (runS cs St.init).ext (runS cs St.init).m) ∧
    ∀ r ∈ resultsS cs St.init, r ≠ .error .needsReordering :=
  ⟨reachableS_inv cs hg, fun h2 => (reachableS_inv cs hg).dynInv h2,
    resultsS_noSignal cs St.init Good3.init hg⟩

/-- C09: the same from any good state, and one step spelled out -/
theorem C09_step_recorded (m : Mgr) (ext : Nat → Nat) (c : SCall) (h : Good3 m ext)
    (hg : CallGuardS m ext c) :
    Good3 (runCallS c m).2 (ledger3 c.op m ext) ∧ Held2 ext m (runCallS c m).2 ∧
    (runCallS c m).1 ≠ .error .needsReordering :=
  stepS_inv m ext c h hg

/-- C09: a reference the user holds and does not release stays a node and keeps its function of
the variable NAMES through any guarded continuation, siftings under recorded schedules included -/
theorem C09_held_every_history_recorded (cs : List SCall) (s : St) (h : Good3 s.m s.ext)
    (hg : CallsGuardedS cs s) (u : Int)
    (hheld : ∀ (pre post : List SCall), cs = pre ++ post → 0 < (runS pre s).ext u.natAbs) :
    (runS cs s).m.tbl.Mem u ∧ ∀ σ, denN (runS cs s).m.tbl u σ = denN s.m.tbl u σ :=
  runS_held cs s h hg u hheld

/-- C09: a history without recorded schedules is a history of DDProofs.Reach3 -/
theorem C09_history_recorded_extends (ops : List UOp3) (s : St) :
    runS (ops.map (SCall.mk [])) s = run3 ops s := runS_nil ops s

/-! ## C17: rejected calls with dynamic reordering enabled, every schedule -/

/-- C17, GENERIC, EVERY SCHEDULE (the failure counterpart of
`C09_decorator_transparent_anySchedule`; hypotheses on the body as in `C17_rejected_dyn`).  From
`DynInvS ext m`, whatever is in `m.sched`, the decorated call, whatever it returns or raises:
(1) the exception is never the internal signal; (2) unless the model reports `.sched` (only
possible if `m.sched ≠ []`, raised by the sifting between the two attempts): the final state is
`DynInvS ext m'` — also when the failure happens in the SECOND attempt after sifting —,
reordering is enabled iff it was (F11), same declared names, every held reference a member with
the same function by name, `roots` unchanged, no schedule left if there was none; and a returned
result is the documented one.  The schedule and the status of `.sched` are as in
`C09_decorator_transparent_anySchedule`. -/
theorem C17_rejected_dyn_anySchedule {α} (ext : Nat → Nat) (f : M α) (ops : List Int)
    (Pre : Tbl → Prop) (Doc : Tbl → α → Tbl → Prop)
    (hbody : ∀ m0 : Mgr, Inv m0 → m0.ctx = true → OrderOK m0.tbl → Pre m0.tbl →
      (∀ u ∈ ops, m0.tbl.Mem u) → OutcomeE m0 (fun r m1 => Doc m0.tbl r m1.tbl) (f m0))
    (hpre : ∀ t t', Bridge ops t t' → Pre t → Pre t')
    (hdoc : ∀ t t' r t'', Bridge ops t t' → Pre t → Doc t' r t'' → Doc t r t'')
    (m : Mgr) (hD : DynInvS ext m) (hops : ∀ u ∈ ops, HeldX ext u) (hpre0 : Pre m.tbl) :
    DynResultS ext Doc m (tryToReorder f m) ∧
    (tryToReorder f m).1 ≠ .error .needsReordering ∧
    ((DynKeptS ext m (tryToReorder f m).2) ∨
      ((tryToReorder f m).1 = .error .sched ∧ m.sched ≠ [])) := by
  have h := tryToReorder_rejectedS ext (siftContractS ext) f ops Pre Doc hbody hpre hdoc m hD hops
    hpre0
  refine ⟨h, h.total.noSignal, ?_⟩
  rcases h.total with h' | h'
  · exact Or.inl h'.2
  · exact Or.inr h'

/-- C17, generic, bodies accepting ARBITRARY arguments, every schedule -/
theorem C17_total_dyn_anySchedule {α} (ext : Nat → Nat) (f : M α)
    (hbody : ∀ m0 : Mgr, Inv m0 → m0.ctx = true → OrderOK m0.tbl → TotE m0 (f m0))
    (m : Mgr) (hD : DynInvS ext m) : DynTotalS ext m (tryToReorder f m) :=
  tryToReorder_total_dynS ext (siftContractS ext) f hbody m hD

/-- C17: what `DynTotalS` says, spelled out; and its two specialisations: no recorded schedule
(the statement `DynTotal` of DDProps.C17), and the driver's form -/
theorem C17_dyn_anySchedule_means {α} (ext : Nat → Nat) (m : Mgr) (res : Except Err α × Mgr)
    (h : DynTotalS ext m res) :
    res.1 ≠ .error .needsReordering ∧
    (((Inv res.2 ∧ OrderOK res.2.tbl ∧ RefExact res.2 ext ∧ res.2.ctx = false) ∧
      (res.2.lastLen.isSome = m.lastLen.isSome) ∧
      (∀ s, res.2.tbl.vars.contains s = m.tbl.vars.contains s) ∧
      (∀ w, HeldX ext w → res.2.tbl.Mem w ∧ ∀ σ, denN res.2.tbl w σ = denN m.tbl w σ) ∧
      res.2.roots = m.roots ∧ (m.sched = [] → res.2.sched = [])) ∨
     (res.1 = .error .sched ∧ m.sched ≠ [])) ∧
    (m.sched = [] → DynTotal ext m res) := by
  refine ⟨h.noSignal, ?_, fun hs => h.default hs⟩
  rcases h with h | h
  · exact Or.inl ⟨⟨h.2.inv.inv, h.2.inv.order, h.2.inv.refs, h.2.inv.ctx⟩, h.2.enabled, h.2.names,
      h.2.held, h.2.roots, h.2.sched⟩
  · exact Or.inr h

/-- C17, the driver's form: stored manager as between two calls, recorded schedule put in,
remainder dropped: never the signal; `DynKept ext m { m' with sched := [] }` (the statement of
DDProps.C17), or `MODEL-SCHEDULE-MISMATCH` (only for `sch ≠ []`) -/
theorem C17_dyn_recorded {α} (ext : Nat → Nat) (m : Mgr) (sch : List SchedItem)
    (res : Except Err α × Mgr) (h : DynTotalS ext { m with sched := sch } res) :
    res.1 ≠ .error .needsReordering ∧
    (DynKept ext m { res.2 with sched := [] } ∨ (res.1 = .error .sched ∧ sch ≠ [])) := by
  refine ⟨h.noSignal, ?_⟩
  rcases h.driver with h' | h'
  · exact Or.inl h'.2
  · exact Or.inr h'

/-- C17 `ite` on ARBITRARY integers, every schedule -/
theorem C17_ite_dyn_anySchedule (ext : Nat → Nat) (m : Mgr) (hD : DynInvS ext m) (g u v : Int) :
    DynTotalS ext m (ite g u v m) := ite_total_dynS ext m hD g u v

/-- C17 `apply` with ANY operator string, arity and operands, every schedule -/
theorem C17_apply_dyn_anySchedule (ext : Nat → Nat) (m : Mgr) (hD : DynInvS ext m) (op : String)
    (u : Int) (v w : Option Int) : DynTotalS ext m (apply op u v w m) :=
  apply_total_dynS ext m hD op u v w

/-- C17 `var` for ANY name, every schedule -/
theorem C17_var_dyn_anySchedule (ext : Nat → Nat) (m : Mgr) (hD : DynInvS ext m) (name : String) :
    DynTotalS ext m (var name m) := var_total_dynS ext m hD name

/-- C17 `quantify` for ANY node and names / levels, every schedule -/
theorem C17_quantify_dyn_anySchedule (ext : Nat → Nat) (m : Mgr) (hD : DynInvS ext m) (u : Int)
    (qvars : List Key) (fa : Bool) : DynTotalS ext m (quantify u qvars fa m) :=
  quantify_total_dynS ext m hD u qvars fa

/-- C17 `cofactor` for ANY node and dictionary, every schedule -/
theorem C17_cofactor_dyn_anySchedule (ext : Nat → Nat) (m : Mgr) (hD : DynInvS ext m) (u : Int)
    (values : List (Key × Bool)) : DynTotalS ext m (cofactor u values m) :=
  cofactor_total_dynS ext m hD u values

/-- C17 `compose` for ANY node and dictionary, every schedule -/
theorem C17_compose_dyn_anySchedule (ext : Nat → Nat) (m : Mgr) (hD : DynInvS ext m) (f : Int)
    (varSub : List (String × Int)) : DynTotalS ext m (compose f varSub m) :=
  compose_total_dynS ext m hD f varSub

/-- C17 `rename` for ANY node and renaming, every schedule -/
theorem C17_rename_dyn_anySchedule (ext : Nat → Nat) (m : Mgr) (hD : DynInvS ext m) (u : Int)
    (dvars : List (String × String)) : DynTotalS ext m (rename u dvars m) :=
  rename_total_dynS ext m hD u dvars

/-- C17 `let` for ANY node and (homogeneous) dictionary, every schedule -/
theorem C17_let_dyn_anySchedule (ext : Nat → Nat) (m : Mgr) (hD : DynInvS ext m) (d : LetArg)
    (u : Int) : DynTotalS ext m (letOp d u m) := letOp_total_dynS ext m hD d u

/-- C17 `cube` for ANY names, every schedule -/
theorem C17_cube_dyn_anySchedule (ext : Nat → Nat) (m : Mgr) (hD : DynInvS ext m)
    (dvars : List (String × Bool)) : DynTotalS ext m (cube dvars m) :=
  cube_total_dynS ext m hD dvars

/-- C17 `copy_bdd` for ANY source table and node, every schedule -/
theorem C17_copy_bdd_dyn_anySchedule (ext : Nat → Nat) (m : Mgr) (hD : DynInvS ext m) (src : Tbl)
    (u : Int) : DynTotalS ext m (copyBdd src u m) := copyBdd_total_dynS ext m hD src u

/-- C17 `add_expr` for ANY text, every schedule -/
theorem C17_add_expr_dyn_anySchedule (ext : Nat → Nat) (m : Mgr) (hD : DynInvS ext m)
    (s : String) : DynTotalS ext m (addExpr s m) := addExpr_total_dynS ext m hD s

/-! ## non-vacuity: a run with a NON-default recorded schedule

A state reached by a 13-call history (three variables `a`, `b`, `c` at levels 0, 1, 2; held nodes
2 = `a`, 3 = `b`, 4 = `c`, 5 = `a ∧ c`, 6 = `a xor c`: level 0 carries THREE nodes), with
reordering enabled and a request due at the next `find_or_add`.  The recorded schedule visits the
variables in the order `c, a, b` (the default is `a, b, c`) and iterates every level set in
DESCENDING order (the default is ascending). -/

def exSchedHist : List UOp3 :=
  [.op (.base (.declare "a" none)), .op (.base (.declare "b" none)), .op (.base (.declare "c" none)),
   .op (.base (.var "a")), .op (.base (.incref 2)),
   .op (.base (.var "b")), .op (.base (.incref 3)),
   .op (.base (.var "c")), .op (.base (.incref 4)),
   .op (.base (.apply "and" 2 (some 4) none)), .op (.base (.incref 5)),
   .op (.base (.apply "xor" 2 (some 4) none)), .op (.base (.incref 6))]

theorem exSchedHist_guarded : Ops3Guarded exSchedHist St.init := by decide +kernel

/-- the ledger after the history -/
@[irreducible] def exSchedExt : Nat → Nat := (run3 exSchedHist St.init).ext

/-- the manager after the history, reordering enabled, a request due at the next `find_or_add` -/
@[irreducible] def exSchedM : Mgr :=
  { (run3 exSchedHist St.init).m with lastLen := some 1, fireIn := some 1 }

theorem exSchedM_dynInv : DynInv exSchedExt exSchedM := by
  unfold exSchedM exSchedExt
  have h := (reachable3_inv exSchedHist exSchedHist_guarded).dynInv (by decide +kernel)
  exact ⟨⟨h.inv.wf, h.inv.pred, h.inv.freeGe, h.inv.free, h.inv.refOne, h.inv.refDom, h.inv.cache⟩,
    h.order, h.refs.congr rfl rfl, h.ctx, h.sched, h.roots, h.nvars⟩

/-- a recorded schedule for the call `apply('and', 3, 5)` on `exSchedM`: variables in the order
`c, a, b`, every level set descending; thirteen swaps -/
def exSched : List SchedItem :=
  [.sift ["c", "a", "b"],
   .swap [(0, [6, 5, 2]), (1, [3]), (2, [4])],
   .swap [(0, [6, 5, 2]), (1, [4]), (2, [3])],
   .swap [(0, [6, 5, 4]), (1, [2]), (2, [3])],
   .swap [(0, [6, 5, 2]), (1, [4]), (2, [3])],
   .swap [(0, [6, 5, 2]), (1, [3]), (2, [4])],
   .swap [(0, [3]), (1, [6, 5, 2]), (2, [4])],
   .swap [(0, [3]), (1, [6, 5, 4]), (2, [2])],
   .swap [(0, [3]), (1, [6, 5, 2]), (2, [4])],
   .swap [(0, [6, 5, 2]), (1, [3]), (2, [4])],
   .swap [(0, [6, 5, 2]), (1, [4]), (2, [3])],
   .swap [(0, [6, 5, 2]), (1, [3]), (2, [4])],
   .swap [(0, [3]), (1, [6, 5, 2]), (2, [4])],
   .swap [(0, [6, 5, 2]), (1, [3]), (2, [4])]]

/-- the hypotheses of `C09_apply_binary_transparent_anySchedule` hold for the call
`apply('and', 3, 5)` on `exSchedM` with the recorded schedule `exSched` -/
example : DynInvS exSchedExt { exSchedM with sched := exSched } ∧
    HeldX exSchedExt 3 ∧ HeldX exSchedExt 5 ∧ docConn "and" = some .and ∧
    ({ exSchedM with sched := exSched } : Mgr).lastLen.isSome = true :=
  ⟨exSchedM_dynInv.withSched exSched, Or.inr (by decide +kernel), Or.inr (by decide +kernel),
    by decide, by decide +kernel⟩

/-- on that state the first attempt IS aborted by the request, sifting runs under the recorded
schedule and CONSUMES ALL of it, the retry succeeds: the `.ok` alternative of the theorems is
inhabited by a run with a non-default schedule.  The order afterwards is `a, c, b` — with the
default schedule the same call leaves `a, b, c`: the recorded schedule changes what sifting does,
not what the call returns (by name). -/
theorem C09_recorded_schedule_example :
    (iteRaw 3 5 (-1) { exSchedM with ctx := true, sched := exSched }).1.toOption = none ∧
    (apply "and" 3 (some 5) none { exSchedM with sched := exSched }).1.toOption = some 8 ∧
    (apply "and" 3 (some 5) none { exSchedM with sched := exSched }).2.sched = [] ∧
    (apply "and" 3 (some 5) none { exSchedM with sched := exSched }).2.tbl.l2v.toList =
      [(0, "a"), (1, "c"), (2, "b")] ∧
    (apply "and" 3 (some 5) none exSchedM).1.toOption = some 8 ∧
    (apply "and" 3 (some 5) none exSchedM).2.tbl.l2v.toList = [(0, "a"), (1, "b"), (2, "c")] := by
  decide +kernel

/-- what the theorem gives for that call: it returns (the `.sched` alternative is excluded by
the evaluation above), the result is the conjunction of the operands as they were, by name, and
the state the driver stores satisfies `DynInv` again -/
theorem exSched_held3 : HeldX exSchedExt 3 := Or.inr (by decide +kernel)
theorem exSched_held5 : HeldX exSchedExt 5 := Or.inr (by decide +kernel)

example : ∃ r m', apply "and" 3 (some 5) none { exSchedM with sched := exSched } = (.ok r, m') ∧
    DynPostG exSchedExt (ConnDoc .and 3 5) exSchedM r { m' with sched := [] } := by
  have h0 : DynOutS exSchedExt (ConnDoc .and 3 5) { exSchedM with sched := exSched }
      (apply "and" 3 (some 5) none { exSchedM with sched := exSched }) :=
    C09_apply_binary_transparent_anySchedule exSchedExt { exSchedM with sched := exSched }
      (exSchedM_dynInv.withSched exSched) "and" .and (by decide) (by decide) (by decide)
      (by decide) (by decide) 3 5 exSched_held3 exSched_held5
  rcases C09_anySchedule_recorded exSchedExt (ConnDoc .and 3 5) exSchedM exSched _ h0 with
    h | ⟨m', he, _⟩
  · exact h
  · exfalso
    have h1 := C09_recorded_schedule_example.2.1
    rw [he] at h1
    cases h1

/-- the `.sched` alternative is inhabited too, by schedules that do NOT describe a run of the code
from this state: a schedule starting with a swap order, and a sifting order that is not a
permutation of the declared variables -/
theorem C09_bogus_schedule_example :
    raisedErr (apply "and" 3 (some 5) none { exSchedM with sched := [.swap []] }).1 = some .sched ∧
    raisedErr (apply "and" 3 (some 5) none { exSchedM with sched := [.sift ["a", "b"]] }).1 =
      some .sched := by
  decide +kernel

/-- C17 under the recorded schedule: a call rejected in the RETRY (first attempt aborted while
building the node of `a`, sifting under the recorded schedule, second attempt rejected at the
undeclared name): `ValueError`, reordering still enabled, flag cleared, schedule consumed -/
theorem C17_recorded_schedule_example :
    raisedErr (cubeBody [("a", true), ("nosuch", true)]
      { exSchedM with ctx := true, sched := exSched }).1 = some .needsReordering ∧
    raisedErr (cube [("a", true), ("nosuch", true)] { exSchedM with sched := exSched }).1 =
      some .value ∧
    (cube [("a", true), ("nosuch", true)] { exSchedM with sched := exSched }).2.lastLen.isSome = true ∧
    (cube [("a", true), ("nosuch", true)] { exSchedM with sched := exSched }).2.ctx = false ∧
    (cube [("a", true), ("nosuch", true)] { exSchedM with sched := exSched }).2.sched = [] := by
  decide +kernel

example : DynTotalS exSchedExt { exSchedM with sched := exSched }
    (cube [("a", true), ("nosuch", true)] { exSchedM with sched := exSched }) :=
  C17_cube_dyn_anySchedule exSchedExt _ (exSchedM_dynInv.withSched exSched) _

/-- a history from `exSchedM` whose decorated calls carry recorded schedules: the call of the
example above with its non-default schedule (the request fires, sifting consumes the schedule),
the result `incref`ed, a second decorated call with no schedule, a call with a bogus operator
(rejected), a collection -/
def exSchedCalls : List SCall :=
  [⟨exSched, .op (.base (.apply "and" 3 (some 5) none))⟩,
   ⟨[], .op (.base (.incref 8))⟩,
   ⟨[], .op (.base (.apply "or" 8 (some 6) none))⟩,
   ⟨[], .op (.base (.apply "nand" 8 (some 6) none))⟩,
   ⟨[], .op (.base .collectGarbage)⟩]

theorem exSchedM_good3 : Good3 exSchedM exSchedExt :=
  exSchedM_dynInv.good3 (by decide +kernel)

/-- the history is guarded (in particular the recorded schedule fits), so
`C09_held_every_history_recorded` applies to it from the state `exSchedM` -/
theorem exSchedCalls_guarded : CallsGuardedS exSchedCalls ⟨exSchedM, exSchedExt⟩ := by
  decide +kernel

example : Good3 (runS exSchedCalls ⟨exSchedM, exSchedExt⟩).m (runS exSchedCalls ⟨exSchedM, exSchedExt⟩).ext :=
  runS_inv exSchedCalls ⟨exSchedM, exSchedExt⟩ exSchedM_good3 exSchedCalls_guarded

end DD
