/-
  DDProps.C19Quant — the meaning of the quantifier spellings of the C back ends, stated PER ROW of
  the regenerated table (AUDIT_THEOREMS_2 gap 15: `cQuant_meaning_cube` had a table half and a
  meaning half that shared no variable, so a changed row could not change what the meaning half
  says).

  `cQuant_meaning_row` takes a row `r` of a table `t ∈ Gen.cApply` (regenerated from the four
  `.pyx` files on every run; every back end) that accepts a quantifier spelling, and concludes,
  for the roles READ OFF THAT ROW (`cRoles` of the row's returned expression: which operand is
  quantified, which supplies the variables, in which mode, which quantifier) and for the roles
  read off the row of the same spelling in the regenerated `Gen.applyTable` of `dd/bdd.py`
  (`refRoles`):  whenever the operand that supplies the variables is a positive cube, the
  function the back end's call denotes (`rowMeaning`) is the function `dd.bdd` computes
  (`refMeaning`: the reference operand quantified over the support of the reference
  variable operand) — for every choice of the three operands.  A row whose call quantifies
  another operand, takes the variables from another operand, or uses the other quantifier makes
  the hypothesis `hrow` select different roles, for which the conclusion is false
  (`cQuant_meaning_row_sensitive`).
-/
import DDProps.C19
namespace DD
open CQuant

/-- what the C call of a quantifier row denotes, for operands with the denotations `fn`, when the
operand `o` (as a node) is the positive cube of `S o` and `L o` lists its support: the body
operand quantified over the variables the mode takes from the variable operand -/
def rowMeaning (q : QuantRoles) (S L : COperand → List Nat) (fn : COperand → BFun) : BFun :=
  quantL q.forall_ (quantVars q.mode (S q.varsFrom) (L q.varsFrom)) (fn q.body)

/-- what `dd.bdd.BDD.apply(alias, u, v)` denotes, for roles `(universal?, variables, body)` read
off `Gen.applyTable`: the body operand quantified over the support of the variable operand -/
def refMeaning (ρ : Bool × COperand × COperand) (L : COperand → List Nat)
    (fn : COperand → BFun) : BFun :=
  quantL ρ.1 (L ρ.2.1) (fn ρ.2.2)

/-- the row's roles against the reference's, as a Boolean on the two regenerated tables -/
def rowAgrees (r : CRow) : Bool :=
  match r.outcome, refRoles r.alias with
  | .ret e, some ρ =>
    match cRoles e with
    | some q => q.forall_ == ρ.1 && q.varsFrom == ρ.2.1 && q.body == ρ.2.2
    | none => false
  | _, _ => false

theorem rowAgrees_all :
    (Gen.cApply.all fun t => t.rows.all fun r =>
      !(r.accepted && isQuantAlias r.alias) || rowAgrees r) = true := by decide +kernel

/-- **C19 (meaning of a quantifier row).**  For EVERY back end table `t` of the regenerated
`Gen.cApply` and EVERY row `r` of it that accepts a quantifier spelling: the row returns a
recognised quantifier call with roles `q`, the spelling has roles `ρ` in `dd/bdd.py`'s regenerated
table, and for all operands — `S o` the variables whose positive cube the operand `o` is, `L o` any
list of the support of that cube, `fn o` the function of the operand — the back end's call and
`dd.bdd` denote the same function. -/
theorem cQuant_meaning_row (t : CApplyTable) (ht : t ∈ Gen.cApply) (r : CRow) (hr : r ∈ t.rows)
    (hacc : r.accepted = true) (hq : isQuantAlias r.alias = true) :
    ∃ (e : CExpr) (q : QuantRoles) (ρ : Bool × COperand × COperand),
      r.outcome = .ret e ∧ cRoles e = some q ∧ refRoles r.alias = some ρ ∧
      ∀ (S L : COperand → List Nat) (fn : COperand → BFun),
        (∀ o x, x ∈ L o ↔ DependsOn (cubeOf (S o)) x) →
        rowMeaning q S L fn = refMeaning ρ L fn := by
  have h := rowAgrees_all
  rw [List.all_eq_true] at h
  have h1 := h t ht
  rw [List.all_eq_true] at h1
  have h2 := h1 r hr
  rw [hacc, hq] at h2
  simp only [Bool.and_self, Bool.not_true, Bool.false_or] at h2
  unfold rowAgrees at h2
  split at h2
  · rename_i e ρ he hρ
    split at h2
    · rename_i q hq'
      simp only [Bool.and_eq_true, beq_iff_eq] at h2
      obtain ⟨⟨hfa, hvf⟩, hb⟩ := h2
      refine ⟨e, q, ρ, he, hq', hρ, ?_⟩
      intro S L fn hL
      unfold rowMeaning refMeaning
      rw [← hfa, ← hvf, ← hb]
      cases hm : q.mode
      · exact quant_cube_eq_support q.forall_ (S q.varsFrom) (L q.varsFrom) (fn q.body)
          (hL q.varsFrom)
      · rfl
    · cases h2
  · cases h2

/-- in terms of `u`, `v`: with the reference roles of the current `dd/bdd.py` (`refRoles_eq`), the
conclusion reads "`v` quantified over the support of `u`" -/
theorem cQuant_meaning_row_uv (t : CApplyTable) (ht : t ∈ Gen.cApply) (r : CRow) (hr : r ∈ t.rows)
    (hacc : r.accepted = true) (hq : isQuantAlias r.alias = true)
    (fa : Bool) (href : refRoles r.alias = some (fa, .u, .v)) :
    ∃ (e : CExpr) (q : QuantRoles), r.outcome = .ret e ∧ cRoles e = some q ∧
      ∀ (S L : COperand → List Nat) (fn : COperand → BFun),
        (∀ o x, x ∈ L o ↔ DependsOn (cubeOf (S o)) x) →
        rowMeaning q S L fn = quantL fa (L .u) (fn .v) := by
  obtain ⟨e, q, ρ, he, hq', hρ, hm⟩ := cQuant_meaning_row t ht r hr hacc hq
  rw [href] at hρ
  cases hρ
  exact ⟨e, q, he, hq', hm⟩

/-- the conclusion depends on the row: for the roles of the row BEFORE the repair of F6
(`sylvan_forall(u.node, v.node)`: `u` quantified over the variables of `v`) the meaning statement
is false — `u = x₀`, `v = x₁`: the call denotes `∀x₁. x₀ = x₀`, `dd.bdd` computes `∀x₀. x₁ = x₁` -/
theorem cQuant_meaning_row_sensitive :
    ∃ (S L : COperand → List Nat) (fn : COperand → BFun),
      (∀ o x, x ∈ L o ↔ DependsOn (cubeOf (S o)) x) ∧
      rowMeaning ⟨true, .v, .u, .cubeArg⟩ S L fn ≠ refMeaning (true, .u, .v) L fn := by
  refine ⟨fun o => match o with | .u => [0] | .v => [1] | .w => [],
          fun o => match o with | .u => [0] | .v => [1] | .w => [],
          fun o => match o with | .u => fun a => a 0 | .v => fun a => a 1 | .w => fun _ => true,
          ?_, ?_⟩
  · intro o x
    rw [dependsOn_cubeOf]
  · intro h
    have := congrFun h (fun i => i == 0)
    revert this
    decide +kernel

/-- non-vacuity: all four back-end tables are there, sixteen accepted quantifier rows (four
spellings × CUDD, CUDD-ZDD, Sylvan, and none for BuDDy), and the theorem on the Sylvan row of
`\A` -/
example : Gen.cApply.map (·.backend) = [.cudd, .cuddZdd, .sylvan, .buddy] ∧
    (Gen.cApply.map fun t => (t.rows.filter fun r => r.accepted && isQuantAlias r.alias).length)
      = [4, 4, 4, 0] := by decide +kernel

example : ∃ t ∈ Gen.cApply, ∃ r ∈ t.rows, t.backend = .sylvan ∧ r.alias = "\\A" ∧
    r.accepted = true ∧ isQuantAlias r.alias = true ∧ refRoles r.alias = some (true, .u, .v) := by
  decide +kernel

end DD
