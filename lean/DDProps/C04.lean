/-
  DDProps.C04 — `let` performs exact simultaneous substitution: Boolean constants (cofactor),
  functions (compose, one or several variables at once), names (rename, any map).

  Assignments are over LEVELS; names enter through `vars` / `_level_to_var` lookups only.
  Reordering not enabled: `m.lastLen = none`.  Any manager with `Inv` (warm computed table,
  other nodes, any variable order) is covered; all operands, dictionaries and signs.
-/
import DDProofs.Witness
import DDProofs.UsedObs
namespace DD
open Std

/-! ### cofactor -/

/-- C04 (the recursion `_cofactor`, memo keyed by the signed reference) -/
theorem C04_cofactorF (values : List (Nat × Bool)) (f : Nat) (m : Mgr) (u : Int)
    (ordvar : List Nat) (cache : HashMap Int Int)
    (hI : Inv m) (hoff : m.lastLen = none) (hu : m.tbl.Mem u)
    (hmemo : CofMemo values m.tbl cache)
    (hord : ∀ j, (values.lookup j).isSome = true → m.tbl.levelOf u ≤ j → j ∈ ordvar)
    (hfuel : m.nvars + 1 ≤ f + m.tbl.levelOf u) :
    ∃ r c' m', cofactorF values f u ordvar cache m = (.ok (r, c'), m') ∧
      Inv m' ∧ Ext m.tbl m'.tbl ∧ Frame m m' ∧ CofMemo values m'.tbl c' ∧ m'.tbl.Mem r ∧
      m.tbl.levelOf u ≤ m'.tbl.levelOf r ∧
      ∀ a, den m'.tbl r a = den m.tbl u
        (fun i => match values.lookup i with | some b => b | none => a i) := by
  obtain ⟨r, c', m', he, hs, hm, hp⟩ :=
    cofactorF_spec values f m u ordvar cache hI hoff hu hmemo hord hfuel
  refine ⟨r, c', m', he, hs.inv, hs.ext, hs.frame, hm, hp.mr, ?_, ?_⟩
  · have := hp.lvl; rwa [hs.ext.levelOf hu] at this
  · intro a
    rw [hp.den a]
    exact den_ext hs.ext hI.wf.toWF u _ hu

/-- C04 (`cofactor(u, values)`): `lv` are the levels of the keys (by `_map_to_level`); the
result denotes `u` under the assignment in which every key has its given value (a later
duplicate of a key wins, as in a `dict`) and every other level is untouched. -/
theorem C04_cofactor (m : Mgr) (hI : Inv m) (hoff : m.lastLen = none) (u : Int)
    (hu : m.tbl.Mem u) (values : List (Key × Bool)) (lv : List Nat)
    (hlv : mapToLevelE m.tbl (values.map (·.1)) = .ok lv) :
    ∃ r m', cofactor u values m = (.ok r, m') ∧ Inv m' ∧ Ext m.tbl m'.tbl ∧ m'.tbl.Mem r ∧
      Frame m m' ∧
      ∀ a, den m'.tbl r a = den m.tbl u
        (fun i => match ((lv.zip (values.map (·.2))).reverse).lookup i with
          | some b => b
          | none => a i) :=
  cofactor_spec m hI hoff u hu values lv hlv

/-- C04 (`cofactor` with declared names as keys) -/
theorem C04_cofactor_names (m : Mgr) (hI : Inv m) (hoff : m.lastLen = none) (u : Int)
    (hu : m.tbl.Mem u) (d : List (String × Bool))
    (hdecl : ∀ p, p ∈ d → m.tbl.vars.contains p.1 = true) :
    ∃ r m', cofactor u (d.map fun p => (Key.name p.1, p.2)) m = (.ok r, m') ∧ Inv m' ∧
      Ext m.tbl m'.tbl ∧ m'.tbl.Mem r ∧ Frame m m' ∧
      ∀ a, den m'.tbl r a = den m.tbl u
        (fun i => match ((d.map fun p => (lvlOf m.tbl p.1, p.2)).reverse).lookup i with
          | some b => b
          | none => a i) := by
  have hkeys : (d.map fun p => (Key.name p.1, p.2)).map (·.1) = (d.map (·.1)).map Key.name := by
    simp [List.map_map, Function.comp_def]
  have hlv : mapToLevelE m.tbl ((d.map fun p => (Key.name p.1, p.2)).map (·.1)) =
      .ok ((d.map (·.1)).map (lvlOf m.tbl)) := by
    rw [hkeys]
    apply mapToLevelE_names
    intro s hs
    obtain ⟨p, hp, rfl⟩ := List.mem_map.mp hs
    exact hdecl p hp
  obtain ⟨r, m', h1, h2, h3, h4, h5, h6⟩ := cofactor_spec m hI hoff u hu _ _ hlv
  refine ⟨r, m', h1, h2, h3, h4, h5, ?_⟩
  intro a
  rw [h6 a]
  have : ((d.map (·.1)).map (lvlOf m.tbl)).zip ((d.map fun p => (Key.name p.1, p.2)).map (·.2)) =
      d.map fun p => (lvlOf m.tbl p.1, p.2) := by
    simp only [List.map_map, Function.comp_def]
    rw [List.zip_map']
  rw [this]
  rfl

/-! ### compose -/

/-- C04 (the recursion `_compose`, memo keyed by the pair `(f, g)`, simultaneous descent) -/
theorem C04_composeF (j : Nat) (fu : Nat) (m : Mgr) (f g : Int)
    (cache : HashMap (Int × Int) Int)
    (hI : Inv m) (hoff : m.lastLen = none) (hf : m.tbl.Mem f) (hg : m.tbl.Mem g)
    (hmemo : KMemo j m.tbl cache)
    (hfuel : 2 * m.nvars + 1 ≤ fu + m.tbl.levelOf f + m.tbl.levelOf g) :
    ∃ r c' m', composeF j fu f g cache m = (.ok (r, c'), m') ∧
      Inv m' ∧ Ext m.tbl m'.tbl ∧ Frame m m' ∧ KMemo j m'.tbl c' ∧ m'.tbl.Mem r ∧
      ∀ a, den m'.tbl r a = den m.tbl f (upd a j (den m.tbl g a)) := by
  obtain ⟨r, c', m', he, hs, hm, hp⟩ := composeF_spec j fu m f g cache hI hoff hf hg hmemo hfuel
  refine ⟨r, c', m', he, hs.inv, hs.ext, hs.frame, hm, hp.mr, ?_⟩
  intro a
  have hW := hI.wf.toWF
  rw [hp.den a, den_ext hs.ext hW g a hg, den_ext hs.ext hW f _ hf]

/-- C04 (the recursion `_vector_compose`, memo keyed by the unsigned node): simultaneous
substitution; the replacements are evaluated under the ORIGINAL assignment, so they may mention
replaced variables -/
theorem C04_vectorComposeF (sub : List (Nat × Int)) (fu : Nat) (m : Mgr) (f : Int)
    (cache : HashMap Nat Int)
    (hI : Inv m) (hoff : m.lastLen = none) (hf : m.tbl.Mem f)
    (hsub : ∀ i g, sub.lookup i = some g → m.tbl.Mem g)
    (hmemo : VMemo sub m.tbl cache)
    (hfuel : m.nvars + 1 ≤ fu + m.tbl.levelOf f) :
    ∃ r c' m', vectorComposeF sub fu f cache m = (.ok (r, c'), m') ∧
      Inv m' ∧ Ext m.tbl m'.tbl ∧ Frame m m' ∧ VMemo sub m'.tbl c' ∧ m'.tbl.Mem r ∧
      ∀ a, den m'.tbl r a = den m.tbl f
        (fun i => match sub.lookup i with | some g => den m.tbl g a | none => a i) := by
  obtain ⟨r, c', m', he, hs, hm, hp⟩ :=
    vectorComposeF_spec sub fu m f cache hI hoff hf hsub hmemo hfuel
  refine ⟨r, c', m', he, hs.inv, hs.ext, hs.frame, hm, hp.mr, ?_⟩
  intro a
  have hW := hI.wf.toWF
  rw [hp.den a, den_ext hs.ext hW f _ hf, vsub_ext hs.ext hW hsub]
  rfl

/-- C04 (`compose(f, {var: g})`, one variable) -/
theorem C04_compose_single (m : Mgr) (hI : Inv m) (hoff : m.lastLen = none) (f g : Int)
    (hf : m.tbl.Mem f) (hg : m.tbl.Mem g) (v : String) (j : Nat) (hv : m.tbl.vars[v]? = some j) :
    ∃ r m', compose f [(v, g)] m = (.ok r, m') ∧ Inv m' ∧ Ext m.tbl m'.tbl ∧ m'.tbl.Mem r ∧
      Frame m m' ∧ ∀ a, den m'.tbl r a = den m.tbl f (upd a j (den m.tbl g a)) :=
  compose_single_spec m hI hoff f g hf hg v j hv

/-- C04 (`compose(f, var_sub)`, any number of declared variables — the one-variable path
`_compose` and the general path `_vector_compose` agree on the meaning): simultaneous
substitution of the functions for the variables -/
theorem C04_compose (m : Mgr) (hI : Inv m) (hoff : m.lastLen = none) (f : Int)
    (hf : m.tbl.Mem f) (varSub : List (String × Int))
    (hdecl : ∀ p, p ∈ varSub → m.tbl.vars.contains p.1 = true)
    (hmem : ∀ p, p ∈ varSub → m.tbl.Mem p.2) :
    ∃ r m', compose f varSub m = (.ok r, m') ∧ Inv m' ∧ Ext m.tbl m'.tbl ∧ m'.tbl.Mem r ∧
      Frame m m' ∧
      ∀ a, den m'.tbl r a = den m.tbl f
        (fun i => match (varSub.map fun p => (lvlOf m.tbl p.1, p.2)).lookup i with
          | some g => den m.tbl g a
          | none => a i) :=
  compose_spec m hI hoff f hf varSub hdecl hmem

/-! ### rename -/

/-- C04 (the recursion `_copy_bdd` on ONE manager, i.e. `rename`; memo keyed by the unsigned
node): for any level map defined on the support of `u` (injective or not), the result denotes
`u` read through the map -/
theorem C04_copyBddF_rename (lm : List (Nat × Nat)) (fu : Nat) (m : Mgr) (u : Int)
    (hI : Inv m) (hoff : m.lastLen = none) (hu : m.tbl.Mem u)
    (hlm : ∀ i, InSupp m.tbl u i → ∃ j, lm.lookup i = some j ∧ j < m.nvars)
    (hfuel : m.nvars + 1 ≤ fu + m.tbl.levelOf u) :
    ∃ r c' m', copyBddF none lm fu u {} m = (.ok (r, c'), m') ∧
      Inv m' ∧ Ext m.tbl m'.tbl ∧ Frame m m' ∧ m'.tbl.Mem r ∧ (0 < r ↔ 0 < u) ∧
      ∀ a, den m'.tbl r a = den m.tbl u
        (fun i => match lm.lookup i with | some j => a j | none => false) := by
  obtain ⟨r, c', m', he, hs, _, hp⟩ := copyBddF_spec none lm m.tbl hI.wf.toWF fu m u {} hI hoff
    (Ext.refl _) hu (CMemo.empty _ _ _) hlm hfuel
  exact ⟨r, c', m', he, hs.inv, hs.ext, hs.frame, hp.mr, hp.sign, hp.den⟩

/-- C04 (`rename(u, dvars)`, names to declared names; swaps and non-injective maps included):
the result denotes `u` with every level `i` read at the level of the target name of the
variable at `i` (its own name when it is not a key of `dvars`) -/
theorem C04_rename (m : Mgr) (hI : Inv m) (hoff : m.lastLen = none) (hV : VarsBij m.tbl)
    (u : Int) (hu : m.tbl.Mem u) (dvars : List (String × String))
    (hd : ∀ p, p ∈ dvars → m.tbl.vars.contains p.2 = true) :
    ∃ r m', rename u dvars m = (.ok r, m') ∧ Inv m' ∧ Ext m.tbl m'.tbl ∧ m'.tbl.Mem r ∧
      Frame m m' ∧
      ∀ a, den m'.tbl r a = den m.tbl u (fun i =>
        a (match m.tbl.l2v[i]? with
           | some v => lvlOf m.tbl ((dvars.reverse.lookup v).getD v)
           | none => i)) :=
  rename_spec m hI hoff hV u hu dvars hd

/-! ### `let` -/

/-- C04 (dispatch of `let` on homogeneous dictionaries: the type of the values selects
`cofactor` / `compose` / `rename`; an empty dictionary returns `u`) -/
theorem C04_let_dispatch (u : Int) :
    (∀ m, letOp (.bools []) u m = (.ok u, m)) ∧
    (∀ m, letOp (.refs []) u m = (.ok u, m)) ∧
    (∀ m, letOp (.names []) u m = (.ok u, m)) ∧
    (∀ d, d ≠ [] → letOp (.bools d) u = cofactor u d) ∧
    (∀ d, d ≠ [] → letOp (.refs d) u = compose u d) ∧
    (∀ d, d ≠ [] → letOp (.names d) u = rename u d) :=
  ⟨letOp_bools_nil u, letOp_refs_nil u, letOp_names_nil u,
   fun d hd => letOp_bools d hd u, fun d hd => letOp_refs d hd u, fun d hd => letOp_names d hd u⟩

/-- C04 (`let` with Boolean values) -/
theorem C04_let_bools (m : Mgr) (hI : Inv m) (hoff : m.lastLen = none) (u : Int)
    (hu : m.tbl.Mem u) (d : List (Key × Bool)) (lv : List Nat)
    (hlv : mapToLevelE m.tbl (d.map (·.1)) = .ok lv) :
    ∃ r m', letOp (.bools d) u m = (.ok r, m') ∧ Inv m' ∧ Ext m.tbl m'.tbl ∧ m'.tbl.Mem r ∧
      Frame m m' ∧
      ∀ a, den m'.tbl r a = den m.tbl u
        (fun i => match ((lv.zip (d.map (·.2))).reverse).lookup i with
          | some b => b
          | none => a i) := by
  cases d with
  | nil =>
    cases hlv
    exact ⟨u, m, rfl, hI, Ext.refl _, hu, Frame.refl _, fun a => rfl⟩
  | cons x xs =>
    rw [letOp_bools _ (by simp)]
    exact cofactor_spec m hI hoff u hu _ lv hlv

/-- C04 (`let` with references as values) -/
theorem C04_let_refs (m : Mgr) (hI : Inv m) (hoff : m.lastLen = none) (u : Int)
    (hu : m.tbl.Mem u) (d : List (String × Int))
    (hdecl : ∀ p, p ∈ d → m.tbl.vars.contains p.1 = true)
    (hmem : ∀ p, p ∈ d → m.tbl.Mem p.2) :
    ∃ r m', letOp (.refs d) u m = (.ok r, m') ∧ Inv m' ∧ Ext m.tbl m'.tbl ∧ m'.tbl.Mem r ∧
      Frame m m' ∧
      ∀ a, den m'.tbl r a = den m.tbl u
        (fun i => match (d.map fun p => (lvlOf m.tbl p.1, p.2)).lookup i with
          | some g => den m.tbl g a
          | none => a i) := by
  cases d with
  | nil => exact ⟨u, m, rfl, hI, Ext.refl _, hu, Frame.refl _, fun a => rfl⟩
  | cons x xs =>
    rw [letOp_refs _ (by simp)]
    exact compose_spec m hI hoff u hu _ hdecl hmem

/-- C04 (`let` with names as values) -/
theorem C04_let_names (m : Mgr) (hI : Inv m) (hoff : m.lastLen = none) (hV : VarsBij m.tbl)
    (u : Int) (hu : m.tbl.Mem u) (d : List (String × String))
    (hd : ∀ p, p ∈ d → m.tbl.vars.contains p.2 = true) :
    ∃ r m', letOp (.names d) u m = (.ok r, m') ∧ Inv m' ∧ Ext m.tbl m'.tbl ∧ m'.tbl.Mem r ∧
      Frame m m' ∧
      ∀ a, den m'.tbl r a = den m.tbl u (fun i =>
        a (match m.tbl.l2v[i]? with
           | some v => lvlOf m.tbl ((d.reverse.lookup v).getD v)
           | none => i)) := by
  cases d with
  | nil =>
    -- same statement as `rename` with an empty dictionary, which returns `u`
    obtain ⟨r, m', h1, h2, h3, h4, h5, h6⟩ := rename_spec m hI hoff hV u hu [] hd
    have hr : r = u := by
      have := (canonical m'.tbl h2.wf r u h4 (h3.mem hu)).mp (by
        intro a
        rw [h6 a, den_ext h3 hI.wf.toWF u a hu]
        apply den_agree_ge m.tbl hI.wf.toWF u hu
        intro i _ hlt
        obtain ⟨v, hv⟩ := hV.onto i hlt
        simp [renLevel, hV.v2l _ _ hv, tgtName, lvlOf, hv])
      exact this
    refine ⟨u, m, rfl, hI, Ext.refl _, hu, Frame.refl _, ?_⟩
    intro a
    apply den_agree_ge m.tbl hI.wf.toWF u hu
    intro i _ hlt
    obtain ⟨v, hv⟩ := hV.onto i hlt
    simp [hV.v2l _ _ hv, lvlOf, hv]
  | cons x xs =>
    rw [letOp_names _ (by simp)]
    exact rename_spec m hI hoff hV u hu _ hd

/-- C04 (variables that are not keys are untouched): the overridden / substituted assignment
agrees with the given one at every level that is not a key -/
theorem C04_untouched_levels (a : Asg) (i : Nat) :
    (∀ values : List (Nat × Bool), values.lookup i = none → ovr values a i = a i) ∧
    (∀ (t : Tbl) (sub : List (Nat × Int)), sub.lookup i = none → vsub t sub a i = a i) := by
  constructor
  · intro values h; simp [ovr, h]
  · intro t sub h; simp [vsub, h]

/-- C04 (the operand itself is unchanged): after any operation that only adds nodes — every
operation of this file — `u` is still a reference of the manager and denotes what it did -/
theorem C04_operand_unchanged (m m' : Mgr) (hI : Inv m) (he : Ext m.tbl m'.tbl) (u : Int)
    (hu : m.tbl.Mem u) :
    m'.tbl.Mem u ∧ m'.tbl.levelOf u = m.tbl.levelOf u ∧ ∀ a, den m'.tbl u a = den m.tbl u a :=
  ⟨he.mem hu, he.levelOf hu, fun a => den_ext he hI.wf.toWF u a hu⟩

/-- non-vacuity: a manager with the variable `x`, its node `u` (a non-constant function), a
non-empty dictionary of each of the three kinds meeting the hypotheses above; the substitution
`x := TRUE` really changes the value at the all-false assignment -/
example : ∃ (m : Mgr) (u : Int), Inv m ∧ m.lastLen = none ∧ VarsBij m.tbl ∧ m.tbl.Mem u ∧
    mapToLevelE m.tbl ([(Key.name "x", true)].map (·.1)) = .ok [0] ∧
    (∀ p, p ∈ [("x", u)] → m.tbl.vars.contains p.1 = true ∧ m.tbl.Mem p.2) ∧
    (∀ p, p ∈ [("x", "x")] → m.tbl.vars.contains p.2 = true) ∧
    den m.tbl u (fun _ => false) ≠ den m.tbl u (ovr [(0, true)] (fun _ => false)) := by
  obtain ⟨m, u, hI, hoff, hV, hu, hx, _, hd, _⟩ := witness
  have hc : m.tbl.vars.contains "x" = true := (vars_contains_iff _ _).mpr ⟨0, hx⟩
  refine ⟨m, u, hI, hoff, hV, hu, ?_, ?_, ?_, ?_⟩
  · have := mapToLevelE_names m.tbl ["x"] (by intro s hs; simp at hs; subst hs; exact hc)
    simpa [lvlOf, hx] using this
  · intro p hp; simp at hp; subst hp; exact ⟨hc, hu⟩
  · intro p hp; simp at hp; subst hp; exact hc
  · rw [hd, hd]; simp [ovr, List.lookup]

/-! ### non-vacuity on a USED manager

`usedM` (DDProofs.UsedExample): levels 0..3 = c, a, d, b; thirteen nodes; `f` = node 13 =
`ite(c ≡ d, a ∧ b, ¬b)`, 4 = `a ∧ b`, 14 = `a ∨ d`; hypotheses from the reachability theorem
(`usedM_good`, `usedM_varsBij`).  The substituted variables `a`, `d` are IN THE MIDDLE of the
order, the operand and the substituted functions are complemented and have different supports.
The kernel cannot run the `HashMap` memos of `_cofactor` / `_compose` / `_copy_bdd`, so each TABLE
of a result (rows c a d b) is derived from the theorem's conclusion and then computed by the
kernel from the tables of the operands. -/

private theorem usedM_decl (l : List String)
    (h : l.all (fun s => usedM.tbl.vars.contains s) = true) :
    ∀ s, s ∈ l → usedM.tbl.vars.contains s = true := fun s hs => List.all_eq_true.mp h s hs

/-- `cofactor(¬f, {a: True, d: False})` by names and `cofactor(f, {2: True, 1: False, 2: False})`
by levels (a later duplicate wins); `let` with Boolean values.  (`#eval`: the answers are the NEW nodes 15 and −15.) -/
example :
    (∃ r m', cofactor (-13) ([("a", true), ("d", false)].map fun p => (Key.name p.1, p.2)) usedM
        = (.ok r, m') ∧ Inv m' ∧ Ext usedM.tbl m'.tbl ∧ m'.tbl.Mem r ∧ Frame usedM m' ∧
      tt4 m'.tbl r = rows4.map (fun a => den usedM.tbl (-13) (upd (upd a 1 true) 2 false)) ∧
      tt4 m'.tbl r = [true, false, true, false, true, false, true, false,
                      false, true, false, true, false, true, false, true]) ∧
    (∃ r m', letOp (.bools [(.lvl 2, true), (.lvl 1, false), (.lvl 2, false)]) 13 usedM
        = (.ok r, m') ∧ Inv m' ∧ Frame usedM m' ∧
      tt4 m'.tbl r = rows4.map (fun a => den usedM.tbl 13 (upd (upd a 1 false) 2 false))) := by
  constructor
  · obtain ⟨r, m', he, hI, hx, hm, hf, h⟩ := C04_cofactor_names usedM usedM_good.inv usedM_good.off
      (-13) (usedM_mem (by decide)) [("a", true), ("d", false)] (by
        intro p hp
        exact usedM_decl ["a", "d"] (by decide +kernel) p.1 (List.mem_map.mpr ⟨p, hp, rfl⟩))
    have ht := tt4_of_den h
    exact ⟨r, m', he, hI, hx, hm, hf, ht.trans (by decide +kernel), ht.trans (by decide +kernel)⟩
  · obtain ⟨r, m', he, hI, -, -, hf, h⟩ := C04_let_bools usedM usedM_good.inv usedM_good.off 13
      (usedM_mem (by decide)) [(.lvl 2, true), (.lvl 1, false), (.lvl 2, false)] [2, 1, 2]
      (by decide +kernel)
    exact ⟨r, m', he, hI, hf, (tt4_of_den h).trans (by decide +kernel)⟩

/-- `compose(f, {d: ¬(a ∧ b), a: a ∨ d})` — SIMULTANEOUS substitution for the two middle
variables of functions that mention the substituted variables themselves — and the one-variable
path `compose(¬f, {d: ¬(a ∧ b)})`; `let` with references.  The tables are those of `f` read at
the substituted values.  (`#eval`: the answers are −18, 16, −18 — new nodes.) -/
example :
    (∃ r m', compose 13 [("d", -4), ("a", 14)] usedM = (.ok r, m') ∧ Inv m' ∧
      Ext usedM.tbl m'.tbl ∧ m'.tbl.Mem r ∧ Frame usedM m' ∧
      tt4 m'.tbl r = rows4.map (fun a =>
        den usedM.tbl 13 (upd (upd a 1 (den usedM.tbl 14 a)) 2 (den usedM.tbl (-4) a)))) ∧
    (∃ r m', compose (-13) [("d", -4)] usedM = (.ok r, m') ∧ Inv m' ∧
      tt4 m'.tbl r = rows4.map (fun a => den usedM.tbl (-13) (upd a 2 (den usedM.tbl (-4) a))) ∧
      tt4 m'.tbl r ≠ tt4 usedM.tbl (-13)) ∧
    (∃ r m', letOp (.refs [("d", -4), ("a", 14)]) 13 usedM = (.ok r, m') ∧ Inv m' ∧
      tt4 m'.tbl r = rows4.map (fun a =>
        den usedM.tbl 13 (upd (upd a 1 (den usedM.tbl 14 a)) 2 (den usedM.tbl (-4) a)))) := by
  have hd : ∀ p, p ∈ [("d", (-4 : Int)), ("a", 14)] → usedM.tbl.vars.contains p.1 = true := by
    intro p hp
    exact usedM_decl ["d", "a"] (by decide +kernel) p.1 (List.mem_map.mpr ⟨p, hp, rfl⟩)
  have hm : ∀ p, p ∈ [("d", (-4 : Int)), ("a", 14)] → usedM.tbl.Mem p.2 := by
    intro p hp
    simp only [List.mem_cons, List.not_mem_nil, or_false] at hp
    rcases hp with rfl | rfl <;> exact usedM_mem (by decide)
  refine ⟨?_, ?_, ?_⟩
  · obtain ⟨r, m', he, hI, hx, hmr, hf, h⟩ := C04_compose usedM usedM_good.inv usedM_good.off 13
      (usedM_mem (by decide)) _ hd hm
    exact ⟨r, m', he, hI, hx, hmr, hf, (tt4_of_den h).trans (by decide +kernel)⟩
  · obtain ⟨r, m', he, hI, -, -, -, h⟩ := C04_compose_single usedM usedM_good.inv usedM_good.off
      (-13) (-4) (usedM_mem (by decide)) (usedM_mem (by decide)) "d" 2 (by decide +kernel)
    have ht := tt4_of_den h
    exact ⟨r, m', he, hI, ht, by rw [ht]; decide +kernel⟩
  · obtain ⟨r, m', he, hI, -, -, -, h⟩ := C04_let_refs usedM usedM_good.inv usedM_good.off 13
      (usedM_mem (by decide)) _ hd hm
    exact ⟨r, m', he, hI, (tt4_of_den h).trans (by decide +kernel)⟩

/-- `rename(¬f, {a: d, d: a})` — the SWAP of the two middle variables — and the non-injective
`let(f, {a: 'b'})`: each row of the result's table is the row of the operand with the levels
exchanged / merged.  (`#eval`: the answers are −21 and 15 — new nodes.) -/
example :
    (∃ r m', rename (-13) [("a", "d"), ("d", "a")] usedM = (.ok r, m') ∧ Inv m' ∧
      Ext usedM.tbl m'.tbl ∧ m'.tbl.Mem r ∧ Frame usedM m' ∧
      tt4 m'.tbl r = rows4.map (fun a => den usedM.tbl (-13) (upd (upd a 1 (a 2)) 2 (a 1))) ∧
      tt4 m'.tbl r ≠ tt4 usedM.tbl (-13)) ∧
    (∃ r m', letOp (.names [("a", "b")]) 13 usedM = (.ok r, m') ∧ Inv m' ∧
      tt4 m'.tbl r = rows4.map (fun a => den usedM.tbl 13 (upd a 1 (a 3)))) := by
  constructor
  · obtain ⟨r, m', he, hI, hx, hm, hf, h⟩ := C04_rename usedM usedM_good.inv usedM_good.off
      usedM_varsBij (-13) (usedM_mem (by decide)) [("a", "d"), ("d", "a")] (by
        intro p hp
        exact usedM_decl ["d", "a"] (by decide +kernel) p.2 (List.mem_map.mpr ⟨p, hp, rfl⟩))
    have ht := (tt4_of_den h).trans (show _ = rows4.map (fun a =>
      den usedM.tbl (-13) (upd (upd a 1 (a 2)) 2 (a 1))) by decide +kernel)
    exact ⟨r, m', he, hI, hx, hm, hf, ht, by rw [ht]; decide +kernel⟩
  · obtain ⟨r, m', he, hI, -, -, -, h⟩ := C04_let_names usedM usedM_good.inv usedM_good.off
      usedM_varsBij 13 (usedM_mem (by decide)) [("a", "b")] (by
        intro p hp
        exact usedM_decl ["b"] (by decide +kernel) p.2 (List.mem_map.mpr ⟨p, hp, rfl⟩))
    exact ⟨r, m', he, hI, (tt4_of_den h).trans (by decide +kernel)⟩

end DD
