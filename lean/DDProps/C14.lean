/-
  DDProps.C14 — declaring and undeclaring variables keeps a valid order and all functions.
-/
import DDProofs.VarsProofs
import DDProofs.Undeclare
import DDProofs.UndeclareExample
namespace DD

/-- C14: a new name gets the next bottom level; the manager invariant, every node, every
function of an existing reference, the levels of the existing names, and the bijection
between names and 0..n-1 are all kept -/
theorem C14_add_var_new (m : Mgr) (hI : Inv m) (hO : OrderOK m.tbl) (var : String)
    (hnew : m.tbl.vars[var]? = none) :
    ∃ m', addVar var none m = (.ok m.nvars, m') ∧
      Inv m' ∧ OrderOK m'.tbl ∧ m'.tbl.nvars = m.tbl.nvars + 1 ∧
      m'.tbl.vars[var]? = some m.nvars ∧
      (∀ (v : String) (i : Nat), m.tbl.vars[v]? = some i → m'.tbl.vars[v]? = some i) ∧
      (∀ u, m.tbl.Mem u → m'.tbl.Mem u ∧ ∀ a, den m'.tbl u a = den m.tbl u a) ∧
      m'.tbl.succ = m.tbl.succ ∧ m'.ref = m.ref :=
  ⟨addVarState m var, addVar_new m var hnew hO.l2v_none,
   addVar_new_spec m hI hO var hnew _ rfl⟩

/-- C14: `declare` / `add_var` are idempotent for existing names (with or without their level) -/
theorem C14_add_var_idempotent (m : Mgr) (var : String) (i : Nat) (hex : m.tbl.vars[var]? = some i) :
    addVar var none m = (.ok i, m) ∧ addVar var (some (i : Int)) m = (.ok i, m) :=
  addVar_existing m var i hex

/-- C14: a name at another level, or a level used by another name, is refused; nothing changes -/
theorem C14_add_var_refuses (m : Mgr) (var : String) :
    (∀ (i : Nat) (l : Int), m.tbl.vars[var]? = some i → l ≠ i → addVar var (some l) m = (.error .value, m)) ∧
    (∀ (l : Nat) (other : String), m.tbl.vars[var]? = none → m.tbl.l2v[l]? = some other →
      addVar var (some (l : Int)) m = (.error .value, m)) :=
  ⟨fun i l h1 h2 => addVar_conflict m var i l h1 h2,
   fun l other h1 h2 => addVar_level_in_use m var l other h1 h2⟩

/-- C14: `vars`, `var_levels`, `var_at_level`, `level_of_var` describe one bijection between the
names and the levels 0..n-1 -/
theorem C14_views_agree (t : Tbl) (h : OrderOK t) :
    (∀ (v : String) (i : Nat), t.vars[v]? = some i → t.l2v[i]? = some v ∧ i < t.nvars) ∧
    (∀ (i : Nat) (v : String), t.l2v[i]? = some v → t.vars[v]? = some i ∧ i < t.nvars) ∧
    (∀ (i : Nat), i < t.nvars → ∃ v : String, t.l2v[i]? = some v ∧ t.vars[v]? = some i) :=
  h.views

/-! ### removal -/

/-- C14, removal, refusals: a name that is not declared, or a variable whose level still carries a
node, makes `undeclare_vars` raise `ValueError`, and the manager is exactly as it was -/
theorem C14_undeclare_refuses (m : Mgr) (vrs : List String)
    (h : ∃ v ∈ vrs, m.tbl.vars[v]? = none ∨
      ∃ l, m.tbl.vars[v]? = some l ∧ m.tbl.LevelHasNode l) :
    undeclareVars vrs m = (.error .value, m) :=
  undeclare_refuses m vrs h

/-- non-vacuity: an unknown name; a used variable (`a` carries node 3 in the example manager) -/
example : undeclareVars ["b", "z"] undeclExM = (.error .value, undeclExM) :=
  C14_undeclare_refuses _ _ ⟨"z", by simp, Or.inl (by decide)⟩
example : undeclareVars ["b", "a"] undeclExM = (.error .value, undeclExM) :=
  C14_undeclare_refuses _ _ ⟨"a", by simp, Or.inr undeclExM_a⟩

/-- C14, removal, success: when every named variable is declared and at a level without nodes
(no name: always), the call succeeds and
* removes exactly the named variables — with no name given, exactly the variables whose level
  carries no node (`rm` has no duplicates, all its names were declared);
* keeps every other variable, at the level `f l` where `f` compacts the kept levels;
* `vars` / `_level_to_var` again are inverse bijections onto `0..n'-1`;
* the kept variables keep their relative order;
* the manager invariant holds again (reduced, ordered, unique table; `_pred` in sync with `_succ`;
  empty computed table);
* node numbers and children are unchanged, levels are relabeled by `f`, strictly increasing on
  the levels in use (`Relabel`);
* every reference keeps its function BY NAME (`denN`);
* reference counts, the free-number hint and the roots are untouched. -/
theorem C14_undeclare_spec (m : Mgr) (hI : Inv m) (hO : OrderOK m.tbl) (vrs : List String)
    (hvrs : ∀ v ∈ vrs, ∃ l, m.tbl.vars[v]? = some l ∧ ¬ m.tbl.LevelHasNode l) :
    ∃ (rm : List String) (m' : Mgr) (f : Nat → Nat),
      undeclareVars vrs m = (.ok rm, m') ∧
      (∀ v, v ∈ rm ↔
        if vrs = [] then (∃ l, m.tbl.vars[v]? = some l ∧ ¬ m.tbl.LevelHasNode l) else v ∈ vrs) ∧
      (∀ v ∈ rm, m.tbl.vars.contains v = true) ∧ rm.Nodup ∧
      (∀ (v : String) (j : Nat), m'.tbl.vars[v]? = some j ↔
        ∃ l, m.tbl.vars[v]? = some l ∧ v ∉ rm ∧ j = f l) ∧
      OrderOK m'.tbl ∧
      (∀ (v w : String) (i j i' j' : Nat), m.tbl.vars[v]? = some i → m.tbl.vars[w]? = some j →
        m'.tbl.vars[v]? = some i' → m'.tbl.vars[w]? = some j' → (i < j ↔ i' < j')) ∧
      Inv m' ∧
      Relabel m.tbl m'.tbl f ∧
      (∀ u, m.tbl.Mem u → m'.tbl.Mem u ∧ ∀ σ, denN m'.tbl u σ = denN m.tbl u σ) ∧
      m'.ref = m.ref ∧ m'.minFree = m.minFree ∧ m'.cache.isEmpty = true ∧ m'.roots = m.roots :=
  undeclare_spec m hI hO vrs hvrs

/-- non-vacuity: the example manager (variables a, b, c; nodes 2 = `c`, 3 = `a ∧ c`; no node at
the level of `b`) meets the hypotheses, with `b` named and with no name given -/
example : Inv undeclExM ∧ OrderOK undeclExM.tbl ∧
    (∀ v ∈ ["b"], ∃ l, undeclExM.tbl.vars[v]? = some l ∧ ¬ undeclExM.tbl.LevelHasNode l) ∧
    (∀ v ∈ ([] : List String), ∃ l, undeclExM.tbl.vars[v]? = some l ∧ ¬ undeclExM.tbl.LevelHasNode l) :=
  ⟨undeclExM_ok.1, undeclExM_ok.2, undeclExM_b, by simp⟩
/-- ... and the call then does remove `b` and moves `c` from level 2 to level 1 -/
example : (undeclareVars ["b"] undeclExM).1.toOption = some ["b"] ∧
    (undeclareVars ["b"] undeclExM).2.tbl.vars["c"]? = some 1 ∧
    (undeclareVars [] undeclExM).1.toOption = some ["b"] := by
  refine ⟨by decide, ?_, by decide⟩
  rw [undeclare_ok undeclExM undeclExM_ok.1.wf.toWF undeclExM_ok.2 ["b"] undeclExM_b]
  exact (undeclState_vars _ _ undeclExM_ok.2 "c" 1).mpr ⟨2, by decide, by decide, by decide⟩

/-- C14, removal (the full statement): for EVERY manager satisfying the invariant with a valid
order and EVERY list of names, `undeclare_vars` either succeeds — the invariant and the bijection
hold again, the removed names are exactly the variables that were declared and no longer are, the
kept variables keep their relative order, every reference keeps its function by name — or raises
`ValueError` leaving the manager exactly as it was. -/
theorem C14_undeclare (m : Mgr) (vrs : List String) (hI : Inv m) (hO : OrderOK m.tbl) :
    match undeclareVars vrs m with
    | (.ok removed, m') =>
      Inv m' ∧ OrderOK m'.tbl ∧
      (∀ v, v ∈ removed ↔ (m.tbl.vars.contains v ∧ ¬ m'.tbl.vars.contains v)) ∧
      (∀ (v w : String) (i j i' j' : Nat), m.tbl.vars[v]? = some i → m.tbl.vars[w]? = some j →
        m'.tbl.vars[v]? = some i' → m'.tbl.vars[w]? = some j' → (i < j ↔ i' < j')) ∧
      (∀ u, m.tbl.Mem u → m'.tbl.Mem u ∧ ∀ σ, denN m'.tbl u σ = denN m.tbl u σ)
    | (.error e, m') => e = .value ∧ m' = m := by
  rcases undeclare_cases m vrs with h | h
  · rw [undeclare_refuses m vrs h]
    exact ⟨rfl, rfl⟩
  · obtain ⟨rm, m', f, hrun, _, hdecl, _, hvars, hO', hord, hI', _, hden, _⟩ :=
      undeclare_spec m hI hO vrs h
    rw [hrun]
    refine ⟨hI', hO', ?_, hord, hden⟩
    intro v
    constructor
    · intro hv
      refine ⟨hdecl v hv, ?_⟩
      rw [Std.TreeMap.contains_eq_isSome_getElem?]
      cases hc : m'.tbl.vars[v]? with
      | none => simp
      | some j =>
        obtain ⟨_, _, hn, _⟩ := (hvars v j).mp hc
        exact absurd hv hn
    · rintro ⟨h1, h2⟩
      rw [Std.TreeMap.contains_eq_isSome_getElem?] at h1 h2
      obtain ⟨l, hl⟩ := Option.isSome_iff_exists.mp h1
      by_cases hv : v ∈ rm
      · exact hv
      · exact absurd (by rw [(hvars v (f l)).mpr ⟨l, hl, hv, rfl⟩]; rfl) h2

/-- non-vacuity: both branches of `C14_undeclare` occur on the example manager -/
example : Inv undeclExM ∧ OrderOK undeclExM.tbl ∧
    (undeclareVars ["b"] undeclExM).1.toOption = some ["b"] ∧
    undeclareVars ["a"] undeclExM = (.error .value, undeclExM) :=
  ⟨undeclExM_ok.1, undeclExM_ok.2, by decide,
   C14_undeclare_refuses _ _ ⟨"a", by simp, Or.inr undeclExM_a⟩⟩

/-- non-vacuity: the empty manager has a valid (empty) order and satisfies the invariant -/
example : Inv ({} : Mgr) ∧ OrderOK ({} : Mgr).tbl := ⟨Inv.init, OrderOK.empty⟩

end DD
