/-
  DDProps.C14 — declaring (and undeclaring) variables keeps a valid order and all functions.
-/
import DDProofs.VarsProofs
namespace DD

/-- C14: a new name gets the next bottom level; the manager invariant, every node, every
function of an existing reference, the levels of the existing names, and the bijection
between names and 0..n-1 are all kept -/
theorem C14_add_var_new (m : Mgr) (hI : Inv m) (hO : OrderOK m.tbl) (var : String)
    (hnew : m.tbl.vars[var]? = none) :
    ∃ m', addVar var none m = (.ok m.nvars, m') ∧
      Inv m' ∧ OrderOK m'.tbl ∧ m'.tbl.nvars = m.tbl.nvars + 1 ∧
      m'.tbl.vars[var]? = some m.nvars ∧
      (∀ (v : String) (i : Nat), m.tbl.vars[v]? = some i → m'.tbl.vars[v]? = some i) ∧
      (∀ u, m.tbl.Mem u → m'.tbl.Mem u ∧ ∀ a, den m'.tbl u a = den m.tbl u a) ∧
      m'.tbl.succ = m.tbl.succ ∧ m'.ref = m.ref :=
  ⟨addVarState m var, addVar_new m var hnew hO.l2v_none,
   addVar_new_spec m hI hO var hnew _ rfl⟩

/-- C14: `declare` / `add_var` are idempotent for existing names (with or without their level) -/
theorem C14_add_var_idempotent (m : Mgr) (var : String) (i : Nat) (hex : m.tbl.vars[var]? = some i) :
    addVar var none m = (.ok i, m) ∧ addVar var (some (i : Int)) m = (.ok i, m) :=
  addVar_existing m var i hex

/-- C14: a name at another level, or a level used by another name, is refused; nothing changes -/
theorem C14_add_var_refuses (m : Mgr) (var : String) :
    (∀ (i : Nat) (l : Int), m.tbl.vars[var]? = some i → l ≠ i → addVar var (some l) m = (.error .value, m)) ∧
    (∀ (l : Nat) (other : String), m.tbl.vars[var]? = none → m.tbl.l2v[l]? = some other →
      addVar var (some (l : Int)) m = (.error .value, m)) :=
  ⟨fun i l h1 h2 => addVar_conflict m var i l h1 h2,
   fun l other h1 h2 => addVar_level_in_use m var l other h1 h2⟩

/-- C14: `vars`, `var_levels`, `var_at_level`, `level_of_var` describe one bijection between the
names and the levels 0..n-1 -/
theorem C14_views_agree (t : Tbl) (h : OrderOK t) :
    (∀ (v : String) (i : Nat), t.vars[v]? = some i → t.l2v[i]? = some v ∧ i < t.nvars) ∧
    (∀ (i : Nat) (v : String), t.l2v[i]? = some v → t.vars[v]? = some i ∧ i < t.nvars) ∧
    (∀ (i : Nat), i < t.nvars → ∃ v : String, t.l2v[i]? = some v ∧ t.vars[v]? = some i) :=
  h.views

/-- C14, removal (FULL STATEMENT, not yet proved in Lean — decided by correspondence only):
`undeclare_vars` removes exactly the requested unused variables (all unused ones when none is
named), refuses used or unknown ones leaving the state as it was, compacts levels keeping the
relative order, and keeps the invariant and every function. -/
def C14_undeclare_statement : Prop :=
  ∀ (m : Mgr) (vrs : List String), Inv m → OrderOK m.tbl →
    match undeclareVars vrs m with
    | (.ok removed, m') =>
      Inv m' ∧ OrderOK m'.tbl ∧
      (∀ v, v ∈ removed ↔ (m.tbl.vars.contains v ∧ ¬ m'.tbl.vars.contains v)) ∧
      (∀ (v w : String) (i j i' j' : Nat), m.tbl.vars[v]? = some i → m.tbl.vars[w]? = some j →
        m'.tbl.vars[v]? = some i' → m'.tbl.vars[w]? = some j' → (i < j ↔ i' < j'))
    | (.error _, m') => m'.tbl.vars = m.tbl.vars ∧ m'.tbl.succ = m.tbl.succ

/-- non-vacuity: the empty manager has a valid (empty) order and satisfies the invariant -/
example : Inv ({} : Mgr) ∧ OrderOK ({} : Mgr).tbl := ⟨Inv.init, OrderOK.empty⟩

end DD
