/-
  DDProps.C03 — quantification equals the disjunction / conjunction of cofactors.

  Assignments are over LEVELS (`Asg = Nat → Bool`); names enter only through the `vars`
  lookups of `_map_to_level`.  "Reordering not enabled" is `m.lastLen = none`; "whatever the
  manager went through before" is any manager satisfying `Inv` (warm computed table included).
  Every theorem below is proved for all managers, operands, variable sets and both quantifiers.
-/
import DDProofs.Witness
import DDProofs.SmallSupport
import DDProofs.UsedObs
namespace DD
open Std

/-- C03 (the recursion `_quantify`): for every set `Q` of levels, every sound memo (keyed by the
SIGNED reference), every suffix `ordvar` of the sorted levels that still contains all the levels
of `Q` at or below `u`, the recursion is total, only adds nodes, keeps the memo sound, and returns
`r` with `r` true under `a` iff some / every `b` that agrees with `a` outside `Q` makes `u` true;
the level of `r` is not above that of `u` (which is what `find_or_add(i, p, q)` needs). -/
theorem C03_quantifyF (Q : List Nat) (fa : Bool) (f : Nat) (m : Mgr) (u : Int)
    (ordvar : List Nat) (cache : HashMap Int Int)
    (hI : Inv m) (hoff : m.lastLen = none) (hu : m.tbl.Mem u) (hmemo : QMemo fa Q m.tbl cache)
    (hord : ∀ j, j ∈ Q → m.tbl.levelOf u ≤ j → j ∈ ordvar)
    (hfuel : m.nvars + 1 ≤ f + m.tbl.levelOf u) :
    ∃ r c' m', quantifyF Q fa f u ordvar cache m = (.ok (r, c'), m') ∧
      Inv m' ∧ Ext m.tbl m'.tbl ∧ Frame m m' ∧ QMemo fa Q m'.tbl c' ∧
      m'.tbl.Mem r ∧ m.tbl.levelOf u ≤ m'.tbl.levelOf r ∧
      ∀ a, den m'.tbl r a = true ↔
        (match fa with
         | true => ∀ b : Asg, (∀ j, j ∉ Q → b j = a j) → den m.tbl u b = true
         | false => ∃ b : Asg, (∀ j, j ∉ Q → b j = a j) ∧ den m.tbl u b = true) := by
  obtain ⟨r, c', m', he, hs, hm, hp⟩ := quantifyF_spec Q fa f m u ordvar cache hI hoff hu hmemo hord hfuel
  refine ⟨r, c', m', he, hs.inv, hs.ext, hs.frame, hm, hp.mr, ?_, ?_⟩
  · have := hp.lvl; rwa [hs.ext.levelOf hu] at this
  · intro a
    rw [hp.den a, den_ext_fun hs.ext hI.wf.toWF u hu]
    cases fa <;> exact Iff.rfl

/-- C03 (`quantify(u, qvars, forall)`): with `lv` the levels `_map_to_level` computes for
`qvars` (names or levels), the call succeeds, keeps the invariant, leaves every existing node
untouched, and its result is true under `a` exactly when some (`forall = False`) / every
(`forall = True`) choice of values for the levels in `lv` makes `u` true. -/
theorem C03_quantify (m : Mgr) (hI : Inv m) (hoff : m.lastLen = none) (u : Int)
    (hu : m.tbl.Mem u) (qvars : List Key) (fa : Bool) (lv : List Nat)
    (hlv : mapToLevelE m.tbl qvars = .ok lv) :
    ∃ r m', quantify u qvars fa m = (.ok r, m') ∧ Inv m' ∧ Ext m.tbl m'.tbl ∧ m'.tbl.Mem r ∧
      Frame m m' ∧
      ∀ a, den m'.tbl r a = true ↔
        (match fa with
         | true => ∀ b : Asg, (∀ j, j ∉ lv → b j = a j) → den m.tbl u b = true
         | false => ∃ b : Asg, (∀ j, j ∉ lv → b j = a j) ∧ den m.tbl u b = true) := by
  obtain ⟨r, m', h1, h2, h3, h4, h5, _, h7⟩ := quantify_spec m hI hoff u hu qvars fa lv hlv
  refine ⟨r, m', h1, h2, h3, h4, h5, ?_⟩
  intro a
  rw [h7 a]
  cases fa <;> exact Iff.rfl

/-- C03 (name → level mapping): a set of declared variable names is mapped to their levels -/
theorem C03_map_to_level_names (t : Tbl) (names : List String)
    (h : ∀ s, s ∈ names → t.vars.contains s = true) :
    mapToLevelE t (names.map Key.name) = .ok (names.map (lvlOf t)) :=
  mapToLevelE_names t names h

/-- C03 (level-keyed sets are taken as they are) -/
theorem C03_map_to_level_levels (t : Tbl) (ls : List Nat)
    (h : ∀ i, i ∈ ls → t.l2v.contains i = true) :
    mapToLevelE t (ls.map fun (i : Nat) => Key.lvl (i : Int)) = .ok ls :=
  mapToLevelE_levels t ls h

/-- C03 (`exist(qvars, u)` over declared names) -/
theorem C03_exist (m : Mgr) (hI : Inv m) (hoff : m.lastLen = none) (u : Int)
    (hu : m.tbl.Mem u) (names : List String)
    (hdecl : ∀ s, s ∈ names → m.tbl.vars.contains s = true) :
    ∃ r m', existOp (names.map Key.name) u m = (.ok r, m') ∧ Inv m' ∧ Ext m.tbl m'.tbl ∧
      m'.tbl.Mem r ∧ Frame m m' ∧
      ∀ a, den m'.tbl r a = true ↔
        ∃ b : Asg, (∀ j, j ∉ names.map (lvlOf m.tbl) → b j = a j) ∧ den m.tbl u b = true :=
  C03_quantify m hI hoff u hu _ false _ (mapToLevelE_names m.tbl names hdecl)

/-- C03 (`forall(qvars, u)` over declared names) -/
theorem C03_forall (m : Mgr) (hI : Inv m) (hoff : m.lastLen = none) (u : Int)
    (hu : m.tbl.Mem u) (names : List String)
    (hdecl : ∀ s, s ∈ names → m.tbl.vars.contains s = true) :
    ∃ r m', forallOp (names.map Key.name) u m = (.ok r, m') ∧ Inv m' ∧ Ext m.tbl m'.tbl ∧
      m'.tbl.Mem r ∧ Frame m m' ∧
      ∀ a, den m'.tbl r a = true ↔
        ∀ b : Asg, (∀ j, j ∉ names.map (lvlOf m.tbl) → b j = a j) → den m.tbl u b = true :=
  C03_quantify m hI hoff u hu _ true _ (mapToLevelE_names m.tbl names hdecl)

/-- C03 (independence): the result does not depend on any quantified level -/
theorem C03_quantify_indep (m : Mgr) (hI : Inv m) (hoff : m.lastLen = none) (u : Int)
    (hu : m.tbl.Mem u) (qvars : List Key) (fa : Bool) (lv : List Nat)
    (hlv : mapToLevelE m.tbl qvars = .ok lv) :
    ∃ r m', quantify u qvars fa m = (.ok r, m') ∧
      ∀ j, j ∈ lv → ∀ (a : Asg) (x : Bool), den m'.tbl r (upd a j x) = den m'.tbl r a := by
  obtain ⟨r, m', h1, _, _, _, _, _, h7⟩ := quantify_spec m hI hoff u hu qvars fa lv hlv
  exact ⟨r, m', h1, fun j hj a x => quantify_indep fa lv _ m'.tbl r h7 j hj a x⟩

/-- C03 (no-op): when no quantified level is in the support of `u` — in particular when the
set is empty — the very same reference comes back (canonicity of the extended table) -/
theorem C03_quantify_noop (m : Mgr) (hI : Inv m) (hoff : m.lastLen = none) (u : Int)
    (hu : m.tbl.Mem u) (qvars : List Key) (fa : Bool) (lv : List Nat)
    (hlv : mapToLevelE m.tbl qvars = .ok lv)
    (hdisj : ∀ j, j ∈ lv → ¬ InSupp m.tbl u j) :
    ∃ m', quantify u qvars fa m = (.ok u, m') ∧ Inv m' ∧ Ext m.tbl m'.tbl ∧ Frame m m' := by
  obtain ⟨r, m', h1, h2, h3, h4, h5, _, h7⟩ := quantify_spec m hI hoff u hu qvars fa lv hlv
  have : r = u := quantify_noop fa lv m.tbl m'.tbl hI.wf.toWF h2.wf h3 u r hu h4 h7 hdisj
  subst this
  exact ⟨m', h1, h2, h3, h5⟩

/-- C03 (empty set) -/
theorem C03_quantify_empty (m : Mgr) (hI : Inv m) (hoff : m.lastLen = none) (u : Int)
    (hu : m.tbl.Mem u) (fa : Bool) :
    ∃ m', quantify u [] fa m = (.ok u, m') ∧ Inv m' ∧ Ext m.tbl m'.tbl ∧ Frame m m' :=
  C03_quantify_noop m hI hoff u hu [] fa [] rfl (fun _ h => by cases h)

/-- C03 (`apply` with `\A`, `\E`, `forall`, `exists`): for every such spelling in the regenerated
vocabulary, `apply(op, u, v)` quantifies the SECOND operand `v` over the variables that
`support(u)` returns for the FIRST one.  The one fact used about `support` is its answer `names`
(a list of declared names); its own specification (the names of the levels in `InSupp m.tbl u`)
is property C10. -/
theorem C03_apply_quant (m : Mgr) (hI : Inv m) (hoff : m.lastLen = none)
    (op : String) (c : Conn) (hc : docConn op = some c) (hq : c = .forall_ ∨ c = .exists_)
    (hall : Gen.allOps.contains op = true)
    (u v : Int) (hu : m.tbl.Mem u) (hv : m.tbl.Mem v)
    (names : List String) (hsupp : support m.tbl u = .ok names)
    (hdecl : ∀ s, s ∈ names → m.tbl.vars.contains s = true) :
    ∃ r m', apply op u (some v) none m = (.ok r, m') ∧ Inv m' ∧ Ext m.tbl m'.tbl ∧
      m'.tbl.Mem r ∧ Frame m m' ∧
      ∀ a, den m'.tbl r a = true ↔
        (match decide (c = .forall_) with
         | true => ∀ b : Asg, (∀ j, j ∉ names.map (lvlOf m.tbl) → b j = a j) →
             den m.tbl v b = true
         | false => ∃ b : Asg, (∀ j, j ∉ names.map (lvlOf m.tbl) → b j = a j) ∧
             den m.tbl v b = true) := by
  obtain ⟨r, m', h1, h2, h3, h4, h5, h6⟩ :=
    apply_quant_spec m hI hoff op c hc hq hall u v hu hv names hsupp hdecl
  refine ⟨r, m', h1, h2, h3, h4, h5, ?_⟩
  intro a
  rw [h6 a]
  cases decide (c = .forall_) <;> exact Iff.rfl

/-- C03 (`apply` quantifiers, in terms of the support): if the levels of the names that
`support(u)` returns are exactly the levels of the nodes reachable from `u`, then the result
quantifies `v` over the support of `u`. -/
theorem C03_apply_quant_support (m : Mgr) (hI : Inv m) (hoff : m.lastLen = none)
    (op : String) (c : Conn) (hc : docConn op = some c) (hq : c = .forall_ ∨ c = .exists_)
    (hall : Gen.allOps.contains op = true)
    (u v : Int) (hu : m.tbl.Mem u) (hv : m.tbl.Mem v)
    (names : List String) (hsupp : support m.tbl u = .ok names)
    (hdecl : ∀ s, s ∈ names → m.tbl.vars.contains s = true)
    (hsem : ∀ j, j ∈ names.map (lvlOf m.tbl) ↔ InSupp m.tbl u j) :
    ∃ r m', apply op u (some v) none m = (.ok r, m') ∧ Inv m' ∧ Ext m.tbl m'.tbl ∧
      m'.tbl.Mem r ∧ Frame m m' ∧
      ∀ a, den m'.tbl r a = true ↔
        (match decide (c = .forall_) with
         | true => ∀ b : Asg, (∀ j, ¬ InSupp m.tbl u j → b j = a j) → den m.tbl v b = true
         | false => ∃ b : Asg, (∀ j, ¬ InSupp m.tbl u j → b j = a j) ∧ den m.tbl v b = true) := by
  obtain ⟨r, m', h1, h2, h3, h4, h5, h6⟩ :=
    C03_apply_quant m hI hoff op c hc hq hall u v hu hv names hsupp hdecl
  refine ⟨r, m', h1, h2, h3, h4, h5, ?_⟩
  intro a
  rw [h6 a]
  have hA : ∀ b : Asg, (∀ j, j ∉ names.map (lvlOf m.tbl) → b j = a j) ↔
      (∀ j, ¬ InSupp m.tbl u j → b j = a j) := by
    intro b
    constructor
    · intro h j hj; exact h j (fun hq => hj ((hsem j).mp hq))
    · intro h j hj; exact h j (fun hq => hj ((hsem j).mpr hq))
  cases decide (c = .forall_)
  · simp only
    constructor
    · rintro ⟨b, hb, hf⟩; exact ⟨b, (hA b).mp hb, hf⟩
    · rintro ⟨b, hb, hf⟩; exact ⟨b, (hA b).mpr hb, hf⟩
  · simp only
    constructor
    · intro h b hb; exact h b ((hA b).mpr hb)
    · intro h b hb; exact h b ((hA b).mp hb)

/-- C03: the structural support used above (`InSupp`: levels of the nodes reachable from `u`)
is the semantic one of C10 (`dependsOn`: flipping the level changes the value somewhere). -/
theorem C03_inSupp_iff_dependsOn (t : Tbl) (hw : WFU t) (u : Int) (hm : t.Mem u) (i : Nat) :
    InSupp t u i ↔ dependsOn t u i := inSupp_iff_dependsOn hw u hm i

/-- C03: what `support(u)` answers on a state with `Inv` and a good order: it succeeds, every
returned name is declared, and the levels of the returned names are exactly `InSupp m.tbl u` —
the three facts `hsupp`, `hdecl`, `hsem` that `C03_apply_quant(_support)` take as hypotheses. -/
theorem C03_support_facts (t : Tbl) (hw : WFU t) (hO : OrderOK t) (u : Int) (hm : t.Mem u) :
    ∃ names, support t u = .ok names ∧ (∀ s, s ∈ names → t.vars.contains s = true) ∧
      (∀ j, j ∈ names.map (lvlOf t) ↔ InSupp t u j) := by
  obtain ⟨names, h1, h2, h3, -⟩ := support_inSupp hw hO u hm
  exact ⟨names, h1, h2, h3⟩

/-- C03 (`apply` quantifiers, UNCONDITIONAL form for reachable states): on every manager with
the invariant and a good order (`reachable_inv` gives both for every history), for every
quantifier spelling and every two operands, `apply(op, u, v)` returns normally and its result
quantifies `v` over exactly the variables the function of `u` depends on.  No hypothesis about
`support` is left: `hsupp`, `hdecl`, `hsem` of `C03_apply_quant_support` are discharged by
`C03_support_facts` (= C10's `support` specification). -/
theorem C03_apply_quant_support_reachable (m : Mgr) (hI : Inv m) (hO : OrderOK m.tbl)
    (hoff : m.lastLen = none)
    (op : String) (c : Conn) (hc : docConn op = some c) (hq : c = .forall_ ∨ c = .exists_)
    (hall : Gen.allOps.contains op = true)
    (u v : Int) (hu : m.tbl.Mem u) (hv : m.tbl.Mem v) :
    ∃ r m', apply op u (some v) none m = (.ok r, m') ∧ Inv m' ∧ Ext m.tbl m'.tbl ∧
      m'.tbl.Mem r ∧ Frame m m' ∧
      (∀ a, den m'.tbl r a = true ↔
        (match decide (c = .forall_) with
         | true => ∀ b : Asg, (∀ j, ¬ InSupp m.tbl u j → b j = a j) → den m.tbl v b = true
         | false => ∃ b : Asg, (∀ j, ¬ InSupp m.tbl u j → b j = a j) ∧ den m.tbl v b = true)) ∧
      (∀ a, den m'.tbl r a = true ↔
        (match decide (c = .forall_) with
         | true => ∀ b : Asg, (∀ j, ¬ dependsOn m.tbl u j → b j = a j) → den m.tbl v b = true
         | false => ∃ b : Asg, (∀ j, ¬ dependsOn m.tbl u j → b j = a j) ∧ den m.tbl v b = true)) := by
  obtain ⟨names, hsupp, hdecl, hsem⟩ := C03_support_facts m.tbl hI.wf hO u hu
  obtain ⟨r, m', h1, h2, h3, h4, h5, h6⟩ :=
    C03_apply_quant_support m hI hoff op c hc hq hall u v hu hv names hsupp hdecl hsem
  refine ⟨r, m', h1, h2, h3, h4, h5, h6, ?_⟩
  intro a
  rw [h6 a]
  have hA : ∀ b : Asg, (∀ j, ¬ InSupp m.tbl u j → b j = a j) ↔
      (∀ j, ¬ dependsOn m.tbl u j → b j = a j) := by
    intro b
    constructor
    · intro h j hj; exact h j (fun hq => hj ((inSupp_iff_dependsOn hI.wf u hu j).mp hq))
    · intro h j hj; exact h j (fun hq => hj ((inSupp_iff_dependsOn hI.wf u hu j).mpr hq))
  cases decide (c = .forall_)
  · simp only
    constructor
    · rintro ⟨b, hb, hf⟩; exact ⟨b, (hA b).mp hb, hf⟩
    · rintro ⟨b, hb, hf⟩; exact ⟨b, (hA b).mpr hb, hf⟩
  · simp only
    constructor
    · intro h b hb; exact h b ((hA b).mpr hb)
    · intro h b hb; exact h b ((hA b).mp hb)

/-- non-vacuity of the unconditional form: the witness manager (variable `x`, the node of `x`)
has `Inv`, a good order, reordering off, and an operand whose support is not empty -/
example : ∃ (m : Mgr) (u : Int), Inv m ∧ OrderOK m.tbl ∧ m.lastLen = none ∧ m.tbl.Mem u ∧
    InSupp m.tbl u 0 ∧ dependsOn m.tbl u 0 := by
  obtain ⟨m, u, hI, hoff, hV, hu, _, _, _, hs⟩ := witness
  have hO : OrderOK m.tbl := by
    refine ⟨fun v i => ⟨hV.v2l v i, hV.l2v i v⟩, hV.lt, fun i hi => ?_⟩
    obtain ⟨v, hv⟩ := hV.onto i hi
    exact ⟨v, hV.v2l v i hv⟩
  exact ⟨m, u, hI, hO, hoff, hu, hs, (C03_inSupp_iff_dependsOn m.tbl hI.wf u hu 0).mp hs⟩

/-- every quantifier spelling meets the hypotheses on the alias -/
example : docConn "\\A" = some .forall_ ∧ docConn "\\E" = some .exists_ ∧
    docConn "forall" = some .forall_ ∧ docConn "exists" = some .exists_ ∧
    Gen.allOps.contains "\\A" = true ∧ Gen.allOps.contains "\\E" = true ∧
    Gen.allOps.contains "forall" = true ∧ Gen.allOps.contains "exists" = true := by decide

/-- non-vacuity: a manager, a non-constant operand and a non-empty set of declared names that
meet every hypothesis of `C03_quantify` / `C03_exist` / `C03_forall`; quantifying really changes
the function there (`∃x. x` is true where `x` is false) -/
example : ∃ (m : Mgr) (u : Int) (names : List String), Inv m ∧ m.lastLen = none ∧ m.tbl.Mem u ∧
    (∀ s, s ∈ names → m.tbl.vars.contains s = true) ∧
    mapToLevelE m.tbl (names.map Key.name) = .ok [0] ∧
    den m.tbl u (fun _ => false) = false ∧
    (∃ b : Asg, (∀ j, j ∉ [0] → b j = false) ∧ den m.tbl u b = true) := by
  obtain ⟨m, u, hI, hoff, _, hu, hx, _, hd, _⟩ := witness
  have hdecl : ∀ s, s ∈ ["x"] → m.tbl.vars.contains s = true := by
    intro s hs
    have : s = "x" := by simpa using hs
    subst this
    exact (vars_contains_iff _ _).mpr ⟨0, hx⟩
  refine ⟨m, u, ["x"], hI, hoff, hu, hdecl, ?_, by rw [hd], ?_⟩
  · rw [mapToLevelE_names m.tbl ["x"] hdecl]; simp [lvlOf, hx]
  · refine ⟨upd (fun _ => false) 0 true, ?_, by rw [hd]; simp⟩
    intro j hj
    have : j ≠ 0 := by simpa using hj
    exact upd_other _ _ _ _ this

/-! ### non-vacuity on a USED manager

`usedM` (DDProofs.UsedExample): levels 0..3 = c, a, d, b; thirteen nodes; `f` = node 13 =
`ite(c ≡ d, a ∧ b, ¬b)` (all four variables), 4 = `a ∧ b`, 14 = `a ∨ d` (garbage); hypotheses from
the reachability theorem.  The quantified variables are IN THE MIDDLE of the order (levels 1, 2),
the operands are complemented and of different supports. -/

/-- the levels the support of `a ∧ b` consists of (via `C03_support_facts` and the evaluated
answer of `support`) -/
private theorem usedM_inSupp4 (j : Nat) : InSupp usedM.tbl 4 j ↔ j ∈ [1, 3] := by
  obtain ⟨names, hs, -, hsem⟩ := C03_support_facts usedM.tbl usedM_good.inv.wf usedM_good.order 4
    (usedM_mem (by decide))
  have h4 : support usedM.tbl 4 = .ok ["a", "b"] := by decide +kernel
  rw [h4] at hs
  cases hs
  rw [← hsem j]
  have : ["a", "b"].map (lvlOf usedM.tbl) = [1, 3] := by decide +kernel
  rw [this]

/-- `C03_quantify` (names, both quantifiers; levels, in another order), `C03_exist`, `C03_forall`,
independence, the no-op form (`c`, `d` are not in the support of `a ∧ b`) and the empty set -/
example :
    (∀ fa, ∃ r m', quantify (-13) [.name "a", .name "d"] fa usedM = (.ok r, m') ∧ Inv m' ∧
      Ext usedM.tbl m'.tbl ∧ m'.tbl.Mem r ∧ Frame usedM m' ∧
      ∀ a, den m'.tbl r a = true ↔
        (match fa with
         | true => ∀ b : Asg, (∀ j, j ∉ [1, 2] → b j = a j) → den usedM.tbl (-13) b = true
         | false => ∃ b : Asg, (∀ j, j ∉ [1, 2] → b j = a j) ∧ den usedM.tbl (-13) b = true)) ∧
    (∃ r m', quantify 13 [.lvl 2, .lvl 1] false usedM = (.ok r, m') ∧
      ∀ j, j ∈ [2, 1] → ∀ (a : Asg) (x : Bool), den m'.tbl r (upd a j x) = den m'.tbl r a) ∧
    (∃ r m', existOp (["d"].map Key.name) 13 usedM = (.ok r, m') ∧ Inv m' ∧ Ext usedM.tbl m'.tbl ∧
      m'.tbl.Mem r ∧ Frame usedM m' ∧
      ∀ a, den m'.tbl r a = true ↔
        ∃ b : Asg, (∀ j, j ∉ ["d"].map (lvlOf usedM.tbl) → b j = a j) ∧
          den usedM.tbl 13 b = true) ∧
    (∃ r m', forallOp (["a"].map Key.name) 13 usedM = (.ok r, m') ∧ Inv m' ∧ Ext usedM.tbl m'.tbl ∧
      m'.tbl.Mem r ∧ Frame usedM m' ∧
      ∀ a, den m'.tbl r a = true ↔
        ∀ b : Asg, (∀ j, j ∉ ["a"].map (lvlOf usedM.tbl) → b j = a j) →
          den usedM.tbl 13 b = true) ∧
    (∃ m', quantify 4 [.name "c", .name "d"] true usedM = (.ok 4, m') ∧ Inv m' ∧
      Ext usedM.tbl m'.tbl ∧ Frame usedM m') ∧
    (∃ m', quantify (-13) [] false usedM = (.ok (-13), m') ∧ Inv m' ∧ Ext usedM.tbl m'.tbl ∧
      Frame usedM m') := by
  have hdecl : ∀ (l : List String), l.all (fun s => usedM.tbl.vars.contains s) = true →
      ∀ s, s ∈ l → usedM.tbl.vars.contains s = true := fun l h s hs => List.all_eq_true.mp h s hs
  refine ⟨fun fa => C03_quantify usedM usedM_good.inv usedM_good.off (-13) (usedM_mem (by decide))
      _ fa [1, 2] (by decide +kernel),
    C03_quantify_indep usedM usedM_good.inv usedM_good.off 13 (usedM_mem (by decide)) _ false
      [2, 1] (by decide +kernel),
    C03_exist usedM usedM_good.inv usedM_good.off 13 (usedM_mem (by decide)) ["d"]
      (hdecl _ (by decide +kernel)),
    C03_forall usedM usedM_good.inv usedM_good.off 13 (usedM_mem (by decide)) ["a"]
      (hdecl _ (by decide +kernel)),
    C03_quantify_noop usedM usedM_good.inv usedM_good.off 4 (usedM_mem (by decide)) _ true [0, 2]
      (by decide +kernel) ?_,
    C03_quantify_empty usedM usedM_good.inv usedM_good.off (-13) (usedM_mem (by decide)) false⟩
  intro j hj hs
  have := (usedM_inSupp4 j).mp hs
  simp only [List.mem_cons, List.not_mem_nil, or_false] at hj this
  omega

/-- the conclusion evaluated (the kernel cannot run the `HashMap` memo of `_quantify`, so the
TABLE of the result is derived from the theorem and then computed from `f`'s table by the
kernel; rows c a d b): `∃d. f` = `a ∨ ¬b` and `∀a. f` = `(c xor d) ∧ ¬b`, neither is `f`.
(`#eval`: the answers are 15 and −15 — NEW nodes —, `∀a,d. ¬f` = −1, `∃a,d. ¬f` = 1,
`∀c,d. a ∧ b` = 4 with no node added.) -/
example :
    (∃ r m', quantify 13 [.lvl 2] false usedM = (.ok r, m') ∧
      tt4 m'.tbl r = [true, false, true, false, true, true, true, true,
                      true, false, true, false, true, true, true, true] ∧
      tt4 m'.tbl r ≠ tt4 usedM.tbl 13) ∧
    (∃ r m', quantify 13 [.name "a"] true usedM = (.ok r, m') ∧
      tt4 m'.tbl r = [false, false, true, false, false, false, true, false,
                      true, false, false, false, true, false, false, false] ∧
      tt4 m'.tbl r ≠ tt4 usedM.tbl 13) := by
  constructor
  · obtain ⟨r, m', he, -, -, -, -, h⟩ := C03_quantify usedM usedM_good.inv usedM_good.off 13
      (usedM_mem (by decide)) [.lvl 2] false [2] (by decide +kernel)
    have ht := (tt4_of_iff fun a => (h a).trans (exists_one_level _ a 2)).trans
      (show _ = [true, false, true, false, true, true, true, true,
                 true, false, true, false, true, true, true, true] by decide +kernel)
    exact ⟨r, m', he, ht, by rw [ht]; decide +kernel⟩
  · obtain ⟨r, m', he, -, -, -, -, h⟩ := C03_quantify usedM usedM_good.inv usedM_good.off 13
      (usedM_mem (by decide)) [.name "a"] true [1] (by decide +kernel)
    have ht := (tt4_of_iff fun a => (h a).trans (forall_one_level _ a 1)).trans
      (show _ = [false, false, true, false, false, false, true, false,
                 true, false, false, false, true, false, false, false] by decide +kernel)
    exact ⟨r, m', he, ht, by rw [ht]; decide +kernel⟩

/-- `apply('\\E', ¬(a ∨ d), f)` / `apply('forall', a ∧ b, ¬f)`: the unconditional form on the used
state — the FIRST operand (complemented, support {a, d} in the middle of the order / {a, b}) only
contributes its support, the SECOND is quantified.  (`#eval`: the answers are 1 and −1;
`apply('\\A', a ∧ b, f)` = `quantify(f, {a, b}, forall=True)` = −1.) -/
example :
    (∃ r m', apply "\\E" (-14) (some 13) none usedM = (.ok r, m') ∧ Inv m' ∧ Ext usedM.tbl m'.tbl ∧
      m'.tbl.Mem r ∧ Frame usedM m' ∧
      (∀ a, den m'.tbl r a = true ↔
        ∃ b : Asg, (∀ j, ¬ InSupp usedM.tbl (-14) j → b j = a j) ∧ den usedM.tbl 13 b = true) ∧
      (∀ a, den m'.tbl r a = true ↔
        ∃ b : Asg, (∀ j, ¬ dependsOn usedM.tbl (-14) j → b j = a j) ∧ den usedM.tbl 13 b = true)) ∧
    (∃ r m', apply "forall" 4 (some (-13)) none usedM = (.ok r, m') ∧ Inv m' ∧
      Ext usedM.tbl m'.tbl ∧ m'.tbl.Mem r ∧ Frame usedM m' ∧
      (∀ a, den m'.tbl r a = true ↔
        ∀ b : Asg, (∀ j, ¬ InSupp usedM.tbl 4 j → b j = a j) → den usedM.tbl (-13) b = true) ∧
      (∀ a, den m'.tbl r a = true ↔
        ∀ b : Asg, (∀ j, ¬ dependsOn usedM.tbl 4 j → b j = a j) → den usedM.tbl (-13) b = true)) :=
  ⟨C03_apply_quant_support_reachable usedM usedM_good.inv usedM_good.order usedM_good.off
      "\\E" .exists_ (by decide) (Or.inr rfl) (by decide) (-14) 13 (usedM_mem (by decide))
      (usedM_mem (by decide)),
   C03_apply_quant_support_reachable usedM usedM_good.inv usedM_good.order usedM_good.off
      "forall" .forall_ (by decide) (Or.inl rfl) (by decide) 4 (-13) (usedM_mem (by decide))
      (usedM_mem (by decide))⟩

/-- the three facts about `support` that the conditional forms take as hypotheses, evaluated:
`support(¬(a ∨ d))` = {a, d} (levels 1, 2: the middle of the order), `support(a ∧ b)` = {a, b} -/
example : support usedM.tbl (-14) = .ok ["a", "d"] ∧ support usedM.tbl 4 = .ok ["a", "b"] ∧
    ["a", "d"].map (lvlOf usedM.tbl) = [1, 2] ∧ ["a", "b"].map (lvlOf usedM.tbl) = [1, 3] :=
  ⟨by decide +kernel, by decide +kernel, by decide +kernel, by decide +kernel⟩

end DD
