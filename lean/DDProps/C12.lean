/-
  DDProps.C12 — dump / load round trips (pickle, whole-manager pickle, JSON).

  The serialisers (pickle, json, shelve, the file system) are modelled, not verified:
  the theorems are about file *contents* (`PickleFile`, `ManagerFile`, `JsonFile`), which
  the check re-reads from every file the real code writes and compares with the model's.

  The pickle theorems are unconditional: they rest on the core specifications
  `findOrAdd_spec`, `iteF_spec` (DDProofs.Ite) and the `add_var` facts (DDProofs.VarsProofs).
  They are stated for the code after the fix commits 8564934 (`_load` builds each node with
  `_ite` on the mapped variable) and 58a79f8 (`load` of a file without roots / with constant
  roots): any `levels`, any variable order of the receiving manager, roots given as a
  list, a dict or not at all, constants among them.  The remaining hypotheses describe what
  the loader itself may refuse (`levels=True` with a conflicting order) and exclude the
  level gaps of F7 (`Contig`).  For JSON the writer is proved, the reader is not.
-/
import DDProofs.DumpJsonOrder
open Std
namespace DD

/-! ### pickle -/

/-- `pickle_load_statement` — C12 for `BDD.load` at full strength — holds for the current code -/
theorem C12_pickle_load_statement : pickle_load_statement := pickle_load_statement_holds

/-- `BDD.load` on ANY well-formed content (whatever wrote it, whatever the order of the dict
items), with `load_target_inv`: the receiving manager keeps its invariant (reduced, ordered,
unique — canonicity is C02 on `Inv`), its order tables stay consistent, every node it had is
still there unchanged.  Exact reference counts are not part of `Inv` (C06's counting
invariant): for C12 they are checked by the correspondence (ledger) only. -/
theorem C12_pickle_load (f : PickleFile) (levels : Bool)
    (m : Mgr) (hI : Inv m) (hb : DmpVarsBij m.tbl) (hc : m.ctx = false)
    (hwf : PickleWF f) (hr : RootsResolvable f)
    (lm : List (Nat × Nat)) (m1 : Mgr)
    (hv : loadVars levels f.vars.length f.vars [] m = (.ok lm, m1))
    (hg : Contig m1.tbl) (hperm : levels = true → levelsPermutation f.vars = true) :
    ∃ roots' m', loadPickle f levels m = (.ok roots', m') ∧ Inv m' ∧ DmpVarsBij m'.tbl ∧
      Contig m'.tbl ∧ m'.ctx = false ∧ (∀ u n, m.tbl.node? u = some n → m'.tbl.node? u = some n) ∧
      LoadedFrom f m'.tbl roots' :=
  pickle_load f levels m hI hb hc hwf hr lm m1 hv hg hperm

/-- `pickle_roundtrip` (general): dump the container `roots` of `src`, load the content into
`tgt`: same container shape, every member denotes — by variable name — the dumped function;
the invariant is kept and old nodes of `tgt` are untouched. -/
theorem C12_pickle_roundtrip
    (src : Mgr) (hIs : Inv src) (hvs : DmpVarsOK src.tbl)
    (roots : Roots) (f : PickleFile) (hd : dumpPickle src roots = .ok f)
    (levels : Bool) (tgt : Mgr) (hI : Inv tgt) (hb : DmpVarsBij tgt.tbl) (hc : tgt.ctx = false)
    (lm : List (Nat × Nat)) (m1 : Mgr)
    (hv : loadVars levels f.vars.length f.vars [] tgt = (.ok lm, m1))
    (hg : Contig m1.tbl) :
    ∃ roots' m', loadPickle f levels tgt = (.ok roots', m') ∧ Inv m' ∧ DmpVarsBij m'.tbl ∧
      (∀ u n, tgt.tbl.node? u = some n → m'.tbl.node? u = some n) ∧
      LoadedAs src.tbl roots m'.tbl roots' :=
  pickle_roundtrip src hIs hvs roots f hd levels tgt hI hb hc lm m1 hv hg

/-- `levels=False` into ANY manager with a consistent order (other order, extra or missing
variables, pre-existing nodes): never refused, returns the dumped functions -/
theorem C12_pickle_roundtrip_any_order
    (src : Mgr) (hIs : Inv src) (hvs : DmpVarsOK src.tbl)
    (roots : Roots) (f : PickleFile) (hd : dumpPickle src roots = .ok f)
    (tgt : Mgr) (hI : Inv tgt) (hO : OrderOK tgt.tbl) (hc : tgt.ctx = false) :
    ∃ roots' m', loadPickle f false tgt = (.ok roots', m') ∧ Inv m' ∧ OrderOK m'.tbl ∧
      (∀ u n, tgt.tbl.node? u = some n → m'.tbl.node? u = some n) ∧
      LoadedAs src.tbl roots m'.tbl roots' :=
  pickle_roundtrip_any_order src hIs hvs roots f hd tgt hI hO hc

/-- into a manager that already declares the variables at the same levels, either `levels` -/
theorem C12_pickle_roundtrip_declared
    (src : Mgr) (hIs : Inv src) (hvs : DmpVarsOK src.tbl)
    (roots : Roots) (f : PickleFile) (hd : dumpPickle src roots = .ok f)
    (levels : Bool) (tgt : Mgr) (hI : Inv tgt) (hb : DmpVarsBij tgt.tbl) (hg : Contig tgt.tbl)
    (hc : tgt.ctx = false)
    (hdecl : ∀ (var : String) (i : Nat), src.tbl.vars[var]? = some i → tgt.tbl.vars[var]? = some i) :
    ∃ roots' m', loadPickle f levels tgt = (.ok roots', m') ∧ Inv m' ∧ DmpVarsBij m'.tbl ∧
      (∀ u n, tgt.tbl.node? u = some n → m'.tbl.node? u = some n) ∧
      LoadedAs src.tbl roots m'.tbl roots' :=
  pickle_roundtrip_declared src hIs hvs roots f hd levels tgt hI hb hg hc hdecl

/-- into the same manager -/
theorem C12_pickle_roundtrip_same_manager (m : Mgr) (hI : Inv m) (hv : DmpVarsOK m.tbl)
    (hc : m.ctx = false) (roots : Roots) (f : PickleFile) (hd : dumpPickle m roots = .ok f)
    (levels : Bool) :
    ∃ roots' m', loadPickle f levels m = (.ok roots', m') ∧ Inv m' ∧ DmpVarsBij m'.tbl ∧
      (∀ u n, m.tbl.node? u = some n → m'.tbl.node? u = some n) ∧
      LoadedAs m.tbl roots m'.tbl roots' :=
  pickle_roundtrip_same_manager m hI hv hc roots f hd levels

/-- `roots_container`: list / dict shape (positions, keys) is what was given to `dump` -/
theorem C12_roots_container {m : Mgr} {roots : Roots} {f : PickleFile}
    (h : dumpPickle m roots = .ok f) : f.roots = roots := roots_container h

/-- the writer: well-formed content with resolvable roots, roots container stored as given,
same functions by name -/
theorem C12_pickle_dump_spec {m : Mgr} (hI : Inv m) (hv : DmpVarsOK m.tbl) {roots : Roots} {f : PickleFile}
    (h : dumpPickle m roots = .ok f) :
    PickleWF f ∧ RootsResolvable f ∧ f.roots = roots ∧
    ∀ α, ∀ u ∈ roots.values, evalPickle f u α = denBy m.tbl u α :=
  ⟨dumpPickle_wf hI hv h, dumpPickle_resolvable hI h, roots_container h,
   fun α => dumpPickle_eval hI hv h α⟩

/-- `add_var` keeps the invariant, also at a free level that is not the next one -/
theorem C12_addVar_inv {m m' : Mgr} {var : String} {lvl : Option Int} {j : Nat} (hI : Inv m)
    (h : addVar var lvl m = (.ok j, m')) : Inv m' := addVar_inv hI h

/-! ### whole manager -/

theorem C12_manager_roundtrip (m : Mgr) (hv : DmpVarsOK m.tbl) (hp : PredShape m) :
    ∃ m', loadManager (dumpManager m) = .ok m' ∧ MgrStored m m' :=
  manager_roundtrip m hv hp

/-! ### JSON -/

/-- the writer: the content `dump_json` writes is what `load_json` accepts, the roots
container is stored as given, and every root denotes the same function by name -/
theorem C12_json_dump_spec {m : Mgr} (hI : Inv m) (hv : DmpVarsOK m.tbl) {roots : Roots} {f : JsonFile}
    (h : dumpJson m roots = .ok f) :
    JsonWF f ∧ f.roots = roots ∧ ∀ α, ∀ u ∈ roots.values, evalJson f u α = denBy m.tbl u α :=
  ⟨dumpJson_jsonWF hI hv h, (dumpJson_spec hI hv h).2.1, (dumpJson_spec hI hv h).2.2⟩

/-- the reader, `load_order=False`, dynamic reordering not enabled (the `_partial` of
`json_load_statement`): any well-formed content loads into any good manager — other variable
order, other variables, pre-existing nodes, user references `e` — `assert_consistent` and the
`ref < 2` assertions pass, every temporary `Function` is released, the result has the
container shape of the file's roots and denotes, by variable name, what the file says; the
counts are exact for the ledger `e` plus one reference per returned `Function`; every node
the manager had is still there. -/
theorem C12_json_load_partial (f : JsonFile) (hf : JsonWF f) (tgt : Mgr) (e : Nat → Nat)
    (hg : GoodState tgt e) (hpn : PredNodes tgt) (hroots : ∀ r ∈ tgt.roots, tgt.tbl.Mem r) :
    ∃ roots' m', loadJson f false tgt = (.ok roots', m') ∧
      GoodState m' (extAdd e (roots'.values.map Int.natAbs)) ∧ PredNodes m' ∧
      (∀ u n, tgt.tbl.node? u = some n → m'.tbl.node? u = some n) ∧
      RootsRel (fun u r => m'.tbl.Mem r ∧ ∀ α, denBy m'.tbl r α = evalJson f u α) f.roots roots' :=
  loadJson_false_spec f hf tgt e hg hpn hroots

/-- `json_roundtrip`, `load_order=False`, reordering not enabled -/
theorem C12_json_roundtrip_off (src : Mgr) (hIs : Inv src) (hvs : DmpVarsOK src.tbl)
    (roots : Roots) (f : JsonFile) (hd : dumpJson src roots = .ok f)
    (tgt : Mgr) (e : Nat → Nat) (hg : GoodState tgt e) (hpn : PredNodes tgt)
    (hroots : ∀ r ∈ tgt.roots, tgt.tbl.Mem r) :
    ∃ roots' m', loadJson f false tgt = (.ok roots', m') ∧
      GoodState m' (extAdd e (roots'.values.map Int.natAbs)) ∧
      (∀ u n, tgt.tbl.node? u = some n → m'.tbl.node? u = some n) ∧
      LoadedAs src.tbl roots m'.tbl roots' :=
  json_roundtrip_off src hIs hvs roots f hd tgt e hg hpn hroots

/-- `json_load_statement`: `_copy.load_json` for BOTH values of `load_order`; dynamic reordering
not enabled in the receiving manager (the one remaining restriction).  `load_order=True`:
`reorder(order)` by `C07_reorder_order_total` (default schedule), the unique table stays free of
stray entries through the swaps (`reorder_predNodes`), `find_or_add` by name at the level of the
file, the `ref < 3` assertion by exact counts and in-degrees, `assert_consistent`. -/
theorem C12_json_load : json_load_statement := json_load_holds

/-- `json_roundtrip`, both values of `load_order`; reordering not enabled in the target -/
theorem C12_json_roundtrip : json_roundtrip_statement := json_roundtrip_holds

/-- the reordering operations keep the unique table free of stray entries -/
theorem C12_reorder_predNodes (order : Option (List (String × Int))) (m : Mgr) (hp : PredNodes m)
    (hI : Inv (reorder order m).2) : PredNodes (reorder order m).2 := reorder_predNodes order m hp hI

/-- observation (outside the text of C12): after `load_json(load_order=True)` dynamic
reordering is enabled, whatever it was before -/
theorem C12_loadJson_loadOrder_enables_reordering (f : JsonFile) (m m' : Mgr) (r : Roots)
    (h : loadJson f true m = (.ok r, m')) : m'.lastLen.isSome = true :=
  loadJson_loadOrder_enables_reordering f m m' r h

/-! ### exact reference counts after a load (`RefExact m ext`: every count = in-degree +
the user's ledger `ext`, + 1 for the terminal) -/

/-- `dd.bdd.BDD.load` (pickle): the returned roots are plain integers — nothing is held for
the caller, the counts are exact for the SAME ledger -/
theorem C12_load_target_counts_bdd (ext : Nat → Nat) (f : PickleFile) (levels : Bool)
    (m : Mgr) (hI : Inv m) (hx : RefExact m ext) (hb : DmpVarsBij m.tbl) (hc : m.ctx = false)
    (hwf : PickleWF f) (hr : RootsResolvable f) (lm : List (Nat × Nat)) (m1 : Mgr)
    (hv : loadVars levels f.vars.length f.vars [] m = (.ok lm, m1)) (hg : Contig m1.tbl)
    (hperm : levels = true → levelsPermutation f.vars = true) :
    ∃ roots' m', loadPickle f levels m = (.ok roots', m') ∧ Inv m' ∧ RefExact m' ext ∧
      LoadedFrom f m'.tbl roots' :=
  pickle_load_counts ext f levels m hI hx hb hc hwf hr lm m1 hv hg hperm

/-- `dd.autoref.BDD.load` (pickle): each returned `Function` holds one reference, everything
else nets to zero -/
theorem C12_load_target_counts_autoref_pickle (ext : Nat → Nat) (f : PickleFile) (levels : Bool)
    (m : Mgr) (hI : Inv m) (hx : RefExact m ext) (hb : DmpVarsBij m.tbl) (hc : m.ctx = false)
    (hwf : PickleWF f) (hr : RootsResolvable f) (lm : List (Nat × Nat)) (m1 : Mgr)
    (hv : loadVars levels f.vars.length f.vars [] m = (.ok lm, m1)) (hg : Contig m1.tbl)
    (hperm : levels = true → levelsPermutation f.vars = true) :
    ∃ roots' m', loadPickleAutoref f levels m = (.ok roots', m') ∧ Inv m' ∧
      RefExact m' (extAdd ext (roots'.values.map Int.natAbs)) ∧ LoadedFrom f m'.tbl roots' :=
  pickleAutoref_counts ext f levels m hI hx hb hc hwf hr lm m1 hv hg hperm

/-- `_copy.load_json` on `dd.autoref` (`load_order=False`, reordering not enabled): the `+1` of
`_make_node` and every temporary are released; each returned `Function` holds one reference -/
theorem C12_load_target_counts_json (f : JsonFile) (hf : JsonWF f) (tgt : Mgr) (e : Nat → Nat)
    (hg : GoodState tgt e) (hpn : PredNodes tgt) (hroots : ∀ r ∈ tgt.roots, tgt.tbl.Mem r) :
    ∃ roots' m', loadJson f false tgt = (.ok roots', m') ∧
      RefExact m' (extAdd e (roots'.values.map Int.natAbs)) := by
  obtain ⟨r, m', h1, h2, _⟩ := loadJson_false_spec f hf tgt e hg hpn hroots
  exact ⟨r, m', h1, h2.exact⟩

/-! ### non-vacuity: concrete states meeting the hypotheses -/

/-- the empty manager is a source and a target -/
example : Inv ({} : Mgr) ∧ DmpVarsOK ({} : Mgr).tbl ∧ OrderOK ({} : Mgr).tbl ∧ PredShape {} :=
  ⟨Inv.init, varsOK_empty, OrderOK.empty, by intro k u h; simp at h⟩

/-- every hypothesis of `C12_pickle_load` on a non-trivial input: the content `b ∧ a` written
under the order b < a (`fileBA`, well formed, root resolvable), `levels=False`, a fresh
manager declaring the OTHER order a < b (`mgrAB`), the loader's first loop, no gap -/
example : PickleWF fileBA ∧ RootsResolvable fileBA ∧ Inv mgrAB ∧ DmpVarsBij mgrAB.tbl ∧
    mgrAB.ctx = false ∧ Contig mgrAB.tbl ∧
    ∃ lm, loadVars false fileBA.vars.length fileBA.vars [] mgrAB = (.ok lm, mgrAB) := by
  refine ⟨fileBA_wf, ?_, mgrAB_nodeFree.inv, mgrAB_bij, rfl, mgrAB_contig, [(0, 1), (1, 0)], ?_⟩
  · intro u hu
    simp [fileBA, Roots.values] at hu
    subst hu
    exact Or.inr ⟨⟨3, 0, some (-1), some 2⟩, by simp [fileBA], rfl⟩
  · simp [loadVars, fileBA, addVar, bind, M.bind', M.get, mgrAB_vars, pure, M.pure']

/-- and what the model computes there (formerly F3): the ordered diagram of `a ∧ b` -/
example : (loadPickle fileBA false mgrAB).1 = .ok (.list [4]) ∧
    (loadPickle fileBA false mgrAB).2.tbl.node? 4 = some ⟨0, -1, 3⟩ ∧
    (loadPickle fileBA false mgrAB).2.tbl.node? 3 = some ⟨1, -1, 1⟩ := load_levels_false_ordered

/-- formerly F2 / F11: no roots → empty list; a constant root → itself -/
example : (loadPickle fileNoRoots true {}).1 = .ok (.list []) ∧
    (loadPickle fileConstRoot true {}).1 = .ok (.list [1]) :=
  ⟨load_roots_none_ok, load_constant_root_ok⟩

/-- JSON: the content of `b ∧ a` (order b < a) -/
def jsonBA : JsonFile :=
  { levelOfVar := [("a", 1), ("b", 0)]
    roots := .list [3]
    nodes := [⟨2, 1, -1, 1⟩, ⟨3, 0, -1, 2⟩] }

/-- the hypotheses of `C12_json_load_partial` on the fresh manager (no user references), and
what the model computes for `jsonBA` loaded into a manager declaring a < b: the ordered
diagram of `a ∧ b`, one reference on the returned root, none left on the temporaries -/
example : GoodState ({} : Mgr) (fun _ => 0) ∧ PredNodes {} ∧ (∀ r ∈ ({} : Mgr).roots, ({} : Mgr).tbl.Mem r) :=
  ⟨GoodState.init, by intro k u h; simp at h, by intro r hr; simp at hr⟩

example : (loadJson jsonBA false mgrAB).1 = .ok (.list [4]) ∧
    (loadJson jsonBA false mgrAB).2.tbl.node? 4 = some ⟨0, -1, 3⟩ ∧
    (loadJson jsonBA false mgrAB).2.ref[4]? = some 1 ∧
    (loadJson jsonBA false mgrAB).2.ref[2]? = some 0 := by decide +kernel

end DD
