/-
  DDProps.C12 — dump / load round trips (pickle, whole-manager pickle, JSON).

  The serialisers (pickle, json, shelve, the file system) are modelled, not verified:
  the theorems are about file *contents* (`PickleFile`, `ManagerFile`, `JsonFile`), which
  the check re-reads from every file the real code writes and compares with the model's.

  `DmpFoaSpec` / `AddVarInv` are the specifications of `find_or_add` / `add_var` proved with the
  core (C01/C02/C14); the theorems that need them carry them as explicit hypotheses
  (`…_of_specs`).  Statements that the CURRENT code does not satisfy are kept as
  `…_statement`, refuted on concrete witnesses (`…_false_F2/F3/F11`), and proved with the
  excluding hypothesis (roots present, non-constant roots, increasing level map).
-/
import DDProofs.DumpProofs
open Std
namespace DD

/-! ### pickle -/

/-- `pickle_roundtrip` (general): dump the container `roots` of `src`, load the content into
`tgt`: same container shape, every member denotes — by variable name — the dumped function;
the invariant is kept and old nodes of `tgt` are untouched. -/
theorem C12_pickle_roundtrip_of_specs (hF : DmpFoaSpec) (hA : AddVarInv)
    (src : Mgr) (hIs : Inv src) (hvs : DmpVarsOK src.tbl)
    (roots : Roots) (hsome : roots ≠ .none) (hnc : ∀ u ∈ roots.values, u.natAbs ≠ 1)
    (f : PickleFile) (hd : dumpPickle src roots = .ok f)
    (levels : Bool) (tgt : Mgr) (hI : Inv tgt) (hb : DmpVarsBij tgt.tbl) (hc : tgt.ctx = false)
    (lm : List (Nat × Nat)) (m1 : Mgr)
    (hv : loadVars levels f.vars.length f.vars [] tgt = (.ok lm, m1))
    (hg : Contig m1.tbl) (hm : levels = false → MonoMap lm) :
    ∃ roots' m', loadPickle f levels tgt = (.ok roots', m') ∧ Inv m' ∧ DmpVarsBij m'.tbl ∧
      (∀ u n, tgt.tbl.node? u = some n → m'.tbl.node? u = some n) ∧
      LoadedAs src.tbl roots m'.tbl roots' :=
  pickle_roundtrip_of_specs hF hA src hIs hvs roots hsome hnc f hd levels tgt hI hb hc lm m1 hv hg hm

/-- into a manager that already declares the variables at the same levels, either `levels` -/
theorem C12_pickle_roundtrip_declared (hF : DmpFoaSpec)
    (src : Mgr) (hIs : Inv src) (hvs : DmpVarsOK src.tbl)
    (roots : Roots) (hsome : roots ≠ .none) (hnc : ∀ u ∈ roots.values, u.natAbs ≠ 1)
    (f : PickleFile) (hd : dumpPickle src roots = .ok f)
    (levels : Bool) (tgt : Mgr) (hI : Inv tgt) (hb : DmpVarsBij tgt.tbl) (hg : Contig tgt.tbl)
    (hc : tgt.ctx = false)
    (hdecl : ∀ (var : String) (i : Nat), src.tbl.vars[var]? = some i → tgt.tbl.vars[var]? = some i) :
    ∃ roots' m', loadPickle f levels tgt = (.ok roots', m') ∧ Inv m' ∧ DmpVarsBij m'.tbl ∧
      (∀ u n, tgt.tbl.node? u = some n → m'.tbl.node? u = some n) ∧
      LoadedAs src.tbl roots m'.tbl roots' :=
  pickle_roundtrip_declared hF src hIs hvs roots hsome hnc f hd levels tgt hI hb hg hc hdecl

/-- into the same manager -/
theorem C12_pickle_roundtrip_same_manager (hF : DmpFoaSpec) (m : Mgr) (hI : Inv m) (hv : DmpVarsOK m.tbl)
    (hc : m.ctx = false) (roots : Roots) (hsome : roots ≠ .none)
    (hnc : ∀ u ∈ roots.values, u.natAbs ≠ 1) (f : PickleFile) (hd : dumpPickle m roots = .ok f)
    (levels : Bool) :
    ∃ roots' m', loadPickle f levels m = (.ok roots', m') ∧ Inv m' ∧ DmpVarsBij m'.tbl ∧
      (∀ u n, m.tbl.node? u = some n → m'.tbl.node? u = some n) ∧
      LoadedAs m.tbl roots m'.tbl roots' :=
  pickle_roundtrip_same_manager hF m hI hv hc roots hsome hnc f hd levels

/-- into a fresh manager -/
theorem C12_pickle_roundtrip_fresh (hF : DmpFoaSpec)
    (src : Mgr) (hIs : Inv src) (hvs : DmpVarsOK src.tbl)
    (roots : Roots) (hsome : roots ≠ .none) (hnc : ∀ u ∈ roots.values, u.natAbs ≠ 1)
    (f : PickleFile) (hd : dumpPickle src roots = .ok f)
    (levels : Bool) (tgt : Mgr) (hN : NodeFree tgt) (hb : DmpVarsBij tgt.tbl) (hc : tgt.ctx = false)
    (lm : List (Nat × Nat)) (m1 : Mgr)
    (hv : loadVars levels f.vars.length f.vars [] tgt = (.ok lm, m1))
    (hg : Contig m1.tbl) (hm : levels = false → MonoMap lm) :
    ∃ roots' m', loadPickle f levels tgt = (.ok roots', m') ∧ Inv m' ∧ DmpVarsBij m'.tbl ∧
      LoadedAs src.tbl roots m'.tbl roots' :=
  pickle_roundtrip_fresh hF src hIs hvs roots hsome hnc f hd levels tgt hN hb hc lm m1 hv hg hm

/-- `load_target_inv` + load semantics on ANY well-formed content (whatever wrote it, whatever
the order of the dict items): the partial version of `pickle_load_statement` -/
theorem C12_pickle_load_partial (hF : DmpFoaSpec) (hA : AddVarInv) (f : PickleFile) (levels : Bool)
    (m : Mgr) (hI : Inv m) (hb : DmpVarsBij m.tbl) (hc : m.ctx = false)
    (hwf : PickleWF f) (hr : RootsOK f) (lm : List (Nat × Nat)) (m1 : Mgr)
    (hv : loadVars levels f.vars.length f.vars [] m = (.ok lm, m1))
    (hg : Contig m1.tbl) (hm : levels = false → MonoMap lm) :
    ∃ roots' m', loadPickle f levels m = (.ok roots', m') ∧ Inv m' ∧ DmpVarsBij m'.tbl ∧
      m'.ctx = false ∧ (∀ u n, m.tbl.node? u = some n → m'.tbl.node? u = some n) ∧
      RootsRel (fun u r => m'.tbl.Mem r ∧ ∀ α, denBy m'.tbl r α = evalPickle f u α) f.roots roots' :=
  pickle_load_of_specs hF Inv f levels (fun m var _ j m' _ hJ h => hA m var _ j m' hJ h)
    (fun _ h => h) m hI hb hc hwf hr lm m1 hv hg hm

/-- `load_target_inv`: whatever a successful `BDD.load` of a well-formed content does, the
receiving manager keeps its invariant (reduced, ordered, unique — canonicity is C02 on `Inv`),
its variable tables stay inverse of each other, and every node it had is still there
unchanged.  Exact reference counts are NOT part of `Inv` (they belong to C06's counting
invariant): for C12 they are checked by the correspondence (ledger) only. -/
theorem C12_load_target_inv_of_specs (hF : DmpFoaSpec) (hA : AddVarInv) (f : PickleFile) (levels : Bool)
    (m : Mgr) (hI : Inv m) (hb : DmpVarsBij m.tbl) (hc : m.ctx = false)
    (hwf : PickleWF f) (hr : RootsOK f) (lm : List (Nat × Nat)) (m1 : Mgr)
    (hv : loadVars levels f.vars.length f.vars [] m = (.ok lm, m1))
    (hg : Contig m1.tbl) (hm : levels = false → MonoMap lm) :
    ∃ roots' m', loadPickle f levels m = (.ok roots', m') ∧ Inv m' ∧ DmpVarsBij m'.tbl ∧
      (∀ u n, m.tbl.node? u = some n → m'.tbl.node? u = some n) := by
  obtain ⟨r, m', e, I, B, _, N, _⟩ :=
    C12_pickle_load_partial hF hA f levels m hI hb hc hwf hr lm m1 hv hg hm
  exact ⟨r, m', e, I, B, N⟩

/-- `roots_container`: list / dict shape (positions, keys) is what was given to `dump` -/
theorem C12_roots_container {m : Mgr} {roots : Roots} {f : PickleFile}
    (h : dumpPickle m roots = .ok f) : f.roots = roots := roots_container h

/-- the writer: well-formed content, roots container stored as given, same functions by name -/
theorem C12_pickle_dump_spec {m : Mgr} (hI : Inv m) (hv : DmpVarsOK m.tbl) {roots : Roots} {f : PickleFile}
    (h : dumpPickle m roots = .ok f) :
    PickleWF f ∧ f.roots = roots ∧ ∀ α, ∀ u ∈ roots.values, evalPickle f u α = denBy m.tbl u α :=
  ⟨dumpPickle_wf hI hv h, roots_container h, fun α => dumpPickle_eval hI hv h α⟩

/-- the full statement fails on the current code: roots `None` (F2), a constant root (F11),
`levels=False` into another order (F3) -/
theorem C12_pickle_load_statement_false_F2 : ¬ pickle_load_statement := pickle_load_statement_false_F2
theorem C12_pickle_load_statement_false_F11 : ¬ pickle_load_statement := pickle_load_statement_false_F11
theorem C12_pickle_load_statement_false_F3 : ¬ pickle_load_statement := pickle_load_statement_false_F3

/-! ### whole manager -/

theorem C12_manager_roundtrip (m : Mgr) (hv : DmpVarsOK m.tbl) (hp : PredShape m) :
    ∃ m', loadManager (dumpManager m) = .ok m' ∧ MgrStored m m' :=
  manager_roundtrip m hv hp

/-! ### JSON -/

/-- the writer (proved); the reader's half is `json_load_statement` (not proved) -/
theorem C12_json_dump_spec {m : Mgr} (hI : Inv m) (hv : DmpVarsOK m.tbl) {roots : Roots} {f : JsonFile}
    (h : dumpJson m roots = .ok f) :
    PickleWF f.toPickle ∧ ChildrenFirst f.nodes ∧ f.roots = roots ∧
    ∀ α, ∀ u ∈ roots.values, evalJson f u α = denBy m.tbl u α :=
  ⟨(dumpJson_spec hI hv h).1, dumpJson_childrenFirst h, (dumpJson_spec hI hv h).2.1,
   (dumpJson_spec hI hv h).2.2⟩

theorem C12_json_roundtrip_of_load (hL : json_load_statement) : json_roundtrip_statement :=
  json_roundtrip_of_load hL

/-- F10: after `load_json(load_order=True)` dynamic reordering is enabled -/
theorem C12_loadJson_loadOrder_enables_reordering (f : JsonFile) (m m' : Mgr) (r : Roots)
    (h : loadJson f true m = (.ok r, m')) : m'.lastLen.isSome = true :=
  loadJson_loadOrder_enables_reordering f m m' r h

/-! ### non-vacuity: concrete states meeting the hypotheses -/

/-- the empty manager is a source and a target -/
example : Inv ({} : Mgr) ∧ DmpVarsOK ({} : Mgr).tbl ∧ PredShape {} ∧ NodeFree {} :=
  ⟨Inv.init, varsOK_empty, by intro k u h; simp at h,
   ⟨by intro u; simp, by intro k; simp, by intro k; simp, by decide, by decide +kernel⟩⟩

/-- a well-formed content with a non-constant root (`b ∧ a`, written under the order b < a), a
fresh manager declaring b < a, the loader's first loop, no level gap: every hypothesis of
`C12_pickle_load_partial` except the two specs -/
example : PickleWF fileBA ∧ RootsOK fileBA ∧ NodeFree mgrBA ∧ DmpVarsBij mgrBA.tbl ∧ mgrBA.ctx = false ∧
    Contig mgrBA.tbl ∧ ∃ lm, loadVars true fileBA.vars.length fileBA.vars [] mgrBA = (.ok lm, mgrBA) :=
  ⟨fileBA_wf,
   ⟨by simp [fileBA], by
      intro u hu
      simp [fileBA, Roots.values] at hu
      subst hu
      exact ⟨by decide, ⟨3, 0, some (-1), some 2⟩, by simp [fileBA], rfl⟩⟩,
   mgr2_nodeFree _ _, mgr2_bij _ _ (by decide), rfl, mgr2_contig _ _ (by decide),
   loadVars_declared true _ _ [] mgrBA (by
     intro var i h
     simp [fileBA] at h
     rcases h with ⟨rfl, rfl⟩ | ⟨rfl, rfl⟩
     · exact ⟨by rw [mgr2_vars]; simp, by decide⟩
     · exact ⟨by rw [mgr2_vars]; simp, by decide⟩)⟩

/-- on that input the model returns a root and builds the two ordered nodes -/
example : (loadPickle fileBA true mgrBA).1 = .ok (.list [3]) ∧
    (loadPickle fileBA true mgrBA).2.tbl.node? 3 = some ⟨0, -1, 2⟩ ∧
    (loadPickle fileBA true mgrBA).2.tbl.node? 2 = some ⟨1, -1, 1⟩ := by decide +kernel

end DD
