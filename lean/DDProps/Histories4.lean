/-
  DDProps.Histories4 — the every-history capstone over `UOp5` (DDProofs.Reach5): the alphabet of
  DDProps.Histories3 plus `load_json` (`load_order=False`, ANY content) and `copy_vars`, from any
  good start state.

  Guards of the two new calls: for `load_json`, no node line of the file uses the terminal's id
  `1` (a quirk of the code, DESIGN §7) and dynamic reordering is not enabled at that point; for
  `copy_vars`, its documented obligations (source order a bijection, target declarations
  compatible with the source; `names` — the order in which the source's dict is visited — a
  permutation of its variables).  A JSON load that returns gives the user one reference per
  returned root: the ledger grows (`ledger5`); a load that raises leaves the ledger as it was.

  Not in the alphabet: `load_json(load_order=True)`, `dd.dddmp.load` — see DDProofs.Reach5.
-/
import DDProofs.Reach5
namespace DD

local notation "⟪" ops "⟫" => run5 ops St.init

/-! ### C02 -/

/-- C02: after ANY history over `UOp5`, from ANY good start, two nodes are equal exactly when they
denote the same function of the variable NAMES (and of the levels) — nodes made by JSON loads and
nodes that lived through `copy_vars` included -/
theorem C02_canonical_every_history5_from (s : St) (hs : Good3 s.m s.ext) (ops : List UOp5)
    (hg : Ops5Guarded ops s) (u v : Int)
    (hu : (run5 ops s).m.tbl.Mem u) (hv : (run5 ops s).m.tbl.Mem v) :
    ((∀ σ, denN (run5 ops s).m.tbl u σ = denN (run5 ops s).m.tbl v σ) ↔ u = v) ∧
    ((∀ a, den (run5 ops s).m.tbl u a = den (run5 ops s).m.tbl v a) ↔ u = v) :=
  have hG := reachable5_from ops s hs hg
  ⟨canonical_by_name3 hG u v hu hv, canonical _ hG.inv.wf u v hu hv⟩

theorem C02_canonical_every_history5 (ops : List UOp5) (hg : Ops5Guarded ops St.init) (u v : Int)
    (hu : ⟪ops⟫.m.tbl.Mem u) (hv : ⟪ops⟫.m.tbl.Mem v) :
    ((∀ σ, denN ⟪ops⟫.m.tbl u σ = denN ⟪ops⟫.m.tbl v σ) ↔ u = v) ∧
    ((∀ a, den ⟪ops⟫.m.tbl u a = den ⟪ops⟫.m.tbl v a) ↔ u = v) :=
  C02_canonical_every_history5_from St.init Good3.init ops hg u v hu hv

/-- C02 ("every route", across time and orders) -/
theorem C02_routes_agree_held5 (s : St) (hs : Good3 s.m s.ext) (pre post : List UOp5)
    (hg : Ops5Guarded (pre ++ post) s) (u v : Int)
    (hheld : ∀ p q, post = p ++ q → 0 < (run5 p (run5 pre s)).ext u.natAbs)
    (hv : (run5 (pre ++ post) s).m.tbl.Mem v)
    (hsame : ∀ σ, denN (run5 (pre ++ post) s).m.tbl v σ = denN (run5 pre s).m.tbl u σ) : v = u := by
  have hg' := (ops5Guarded_append pre post s).mp hg
  have hpre := reachable5_from pre s hs hg'.1
  obtain ⟨hm, hd⟩ := run5_held post (run5 pre s) hpre hg'.2 u hheld
  rw [← run5_append] at hm hd
  exact (canonical_by_name3 (reachable5_from (pre ++ post) s hs hg) v u hv hm).mp
    (fun σ => (hsame σ).trans (hd σ).symm)

/-! ### C06 -/

/-- C06: after ANY history over `UOp5`, from ANY good start, the counters are exact w.r.t. the
user's ledger — which counts, besides the user's own `incref`s, one reference per root that a JSON
load returned — and a collection at that point succeeds, leaves EXACTLY the nodes reachable from a
held node, keeps the counts exact and empties the computed table -/
theorem C06_counts_exact_every_history5_from (s : St) (hs : Good3 s.m s.ext) (ops : List UOp5)
    (hg : Ops5Guarded ops s) :
    RefExact (run5 ops s).m (run5 ops s).ext ∧
    ∃ m', collectGarbage none (run5 ops s).m = (.ok (), m') ∧ Good3 m' (run5 ops s).ext ∧
      (∀ u n, m'.tbl.node? u = some n ↔
        ((run5 ops s).m.tbl.node? u = some n ∧ GcReach (run5 ops s).m.tbl (GcHeld (run5 ops s).ext) u)) ∧
      (∀ (u : Int), m'.tbl.Mem u → ∀ a, den m'.tbl u a = den (run5 ops s).m.tbl u a) ∧
      (∀ (u c : Nat), m'.ref[u]? = some c → 0 < c) ∧
      (∀ key : List Int, m'.cache[key]? = none) := by
  have hG := reachable5_from ops s hs hg
  obtain ⟨m', he, hp⟩ := collectGarbage_spec _ _ hG.inv hG.exact
  refine ⟨hG.exact, m', he, ⟨hp.inv, hG.order.congr hp.sub.vars hp.sub.l2v, hp.refExact,
    hp.sub.ctx.trans hG.ctx, hp.sub.sched.trans hG.sched, hp.sub.roots.trans hG.roots⟩,
    hp.nodes hG.inv.toInvS, fun u hu a => hp.den_eq u hu a, ?_, collectGarbage_ok_cache none _ m' he⟩
  intro u c hc
  cases c with
  | zero => exact absurd hc (hp.noZero u)
  | succ c => omega

theorem C06_counts_exact_every_history5 (ops : List UOp5) (hg : Ops5Guarded ops St.init) :
    RefExact ⟪ops⟫.m ⟪ops⟫.ext ∧
    ∃ m', collectGarbage none ⟪ops⟫.m = (.ok (), m') ∧ Good3 m' ⟪ops⟫.ext ∧
      (∀ u n, m'.tbl.node? u = some n ↔
        (⟪ops⟫.m.tbl.node? u = some n ∧ GcReach ⟪ops⟫.m.tbl (GcHeld ⟪ops⟫.ext) u)) ∧
      (∀ (u : Int), m'.tbl.Mem u → ∀ a, den m'.tbl u a = den ⟪ops⟫.m.tbl u a) ∧
      (∀ (u c : Nat), m'.ref[u]? = some c → 0 < c) ∧
      (∀ key : List Int, m'.cache[key]? = none) :=
  C06_counts_exact_every_history5_from St.init Good3.init ops hg

/-- C06: whatever the next call is — a JSON load, `copy_vars`, anything of `UOp4` — a reference the
user holds is a node before and after under the same number, denotes the same function by name,
and its counter is stored edges + the user's references for the ledger after the call -/
theorem C06_held_every_history5 (s : St) (hs : Good3 s.m s.ext) (ops : List UOp5)
    (hg : Ops5Guarded ops s) (op : UOp5) (hop : OpGuard5 (run5 ops s).m (run5 ops s).ext op) :
    Good3 (step5 op (run5 ops s)).m (step5 op (run5 ops s)).ext ∧
    (((run5 ops s).m.lastLen.isSome = true → 2 ≤ (run5 ops s).m.nvars) →
      (step5 op (run5 ops s)).m.lastLen.isSome = op.switchAfter (run5 ops s).m.lastLen.isSome) ∧
    ∀ u : Int, 0 < (run5 ops s).ext u.natAbs →
      (run5 ops s).m.tbl.Mem u ∧ (step5 op (run5 ops s)).m.tbl.Mem u ∧
      (∀ σ, denN (step5 op (run5 ops s)).m.tbl u σ = denN (run5 ops s).m.tbl u σ) ∧
      (run5 ops s).ext u.natAbs ≤ (step5 op (run5 ops s)).ext u.natAbs + 1 ∧
      (step5 op (run5 ops s)).m.ref[u.natAbs]? =
        some (indeg (step5 op (run5 ops s)).m.tbl u.natAbs + (step5 op (run5 ops s)).ext u.natAbs +
          (if u.natAbs = 1 then 1 else 0)) := by
  have hG := reachable5_from ops s hs hg
  refine ⟨step5_inv _ _ op hG hop, step5_switch _ _ op hG hop, fun u hu => ?_⟩
  obtain ⟨a, b, c, d⟩ := step5_held _ _ op hG hop u hu
  refine ⟨a, b, c, ?_, d⟩
  -- the ledger entry drops by at most one (the user's own `decref`)
  show (run5 ops s).ext u.natAbs ≤ ledger5 op (run5 ops s).m (run5 ops s).ext u.natAbs + 1
  cases op with
  | loadJson f => exact Nat.le_succ_of_le (ledger5_loadJson_le f _ _ _)
  | copyVars src names => exact Nat.le_succ _
  | op o4 =>
    cases o4 with
    | op o3 =>
      cases o3 with
      | configure b => exact Nat.le_succ _
      | op o2 =>
        cases o2 with
        | base bo =>
          cases bo with
          | incref w =>
            show _ ≤ (if (run5 ops s).m.mem w then extInc (run5 ops s).ext w.natAbs else (run5 ops s).ext) u.natAbs + 1
            split
            · unfold extInc; split <;> omega
            · exact Nat.le_succ _
          | decref w =>
            show _ ≤ (if (run5 ops s).m.mem w then extDec (run5 ops s).ext w.natAbs else (run5 ops s).ext) u.natAbs + 1
            split
            · unfold extDec; split <;> omega
            · exact Nat.le_succ _
          | _ => exact Nat.le_succ _
        | _ => exact Nat.le_succ _
    | _ => exact Nat.le_succ _

/-! ### C17 -/

/-- C17: after ANY history over `UOp5`, from ANY good start, a call that raises — a JSON file with
a dangling successor, a level out of range, an unknown root …, or any rejected call of `UOp4` —
leaves a good state: the ledger untouched (the JSON loader's `except` clause has released its
shelf), every held reference a node with the same function by name; every theorem applies to the
next call, whatever it is, and a collection right after the failure behaves normally -/
theorem C17_error_then_normal5 (s : St) (hs : Good3 s.m s.ext) (ops : List UOp5)
    (hg : Ops5Guarded ops s) (op : UOp5) (hop : OpGuard5 (run5 ops s).m (run5 ops s).ext op) (e : Err)
    (hrej : (runOp5 op (run5 ops s).m).1 = .error e) :
    e ≠ .needsReordering ∧
    Good3 (step5 op (run5 ops s)).m (step5 op (run5 ops s)).ext ∧
    (step5 op (run5 ops s)).ext = (run5 ops s).ext ∧
    (∀ w : Int, HeldX (run5 ops s).ext w → (step5 op (run5 ops s)).m.tbl.Mem w ∧
      ∀ σ, denN (step5 op (run5 ops s)).m.tbl w σ = denN (run5 ops s).m.tbl w σ) ∧
    (∀ op2 : UOp5, OpGuard5 (step5 op (run5 ops s)).m (step5 op (run5 ops s)).ext op2 →
      Good3 (step5 op2 (step5 op (run5 ops s))).m (step5 op2 (step5 op (run5 ops s))).ext) ∧
    (∃ m', collectGarbage none (step5 op (run5 ops s)).m = (.ok (), m') ∧ Good3 m' (run5 ops s).ext) := by
  have hG := reachable5_from ops s hs hg
  have hS : Good3 (step5 op (run5 ops s)).m (step5 op (run5 ops s)).ext := step5_inv _ _ op hG hop
  have hl : (step5 op (run5 ops s)).ext = (run5 ops s).ext := rejected5_ledger _ _ op hG hop e hrej
  have hH : Held2 (run5 ops s).ext (run5 ops s).m (step5 op (run5 ops s)).m :=
    step5_heldSame _ _ op hG hop
  refine ⟨fun he => step5_noSignal _ _ op hG hop (by rw [hrej, he]), hS, hl,
    fun w hw => hH.heldX hw, fun op2 h2 => step5_inv _ _ op2 hS h2, ?_⟩
  obtain ⟨m', he, hp⟩ := collectGarbage_spec _ _ hS.inv hS.exact
  refine ⟨m', he, hp.inv, hS.order.congr hp.sub.vars hp.sub.l2v, ?_,
    hp.sub.ctx.trans hS.ctx, hp.sub.sched.trans hS.sched, hp.sub.roots.trans hS.roots⟩
  rw [← hl]; exact hp.refExact

theorem C17_every_prefix_good5 (s : St) (hs : Good3 s.m s.ext) (pre post : List UOp5)
    (hg : Ops5Guarded (pre ++ post) s) : Good3 (run5 pre s).m (run5 pre s).ext :=
  reachable5_from pre s hs ((ops5Guarded_append pre post s).mp hg).1

/-! ### C12 / C11: the two new calls after every history -/

/-- C12: after ANY history (reordering not enabled at that point), `load_json` of ANY content:
returning, the state is good for the ledger plus one reference per
returned root; raising, for the unchanged ledger; in both cases every held reference keeps its
function by name and every declared variable its level -/
theorem C12_loadJson_every_history5 (s : St) (hs : Good3 s.m s.ext) (ops : List UOp5)
    (hg : Ops5Guarded ops s) (f : JsonFile) (hoff : (run5 ops s).m.lastLen = none) :
    Good3 (loadJson f false (run5 ops s).m).2
      (jsonLedger (loadJson f false (run5 ops s).m).1 (run5 ops s).ext) ∧
    Held2 (run5 ops s).ext (run5 ops s).m (loadJson f false (run5 ops s).m).2 ∧
    (∀ (v : String) (i : Nat), (run5 ops s).m.tbl.vars[v]? = some i →
      (loadJson f false (run5 ops s).m).2.tbl.vars[v]? = some i) :=
  have h := loadJson_step5 _ _ (reachable5_from ops s hs hg) f hoff
  ⟨h.1, h.2.1, h.2.2.2⟩

/-- C11: after ANY history, `copy_vars` from a source with a bijective order whose variables the
manager's declarations agree with: returns normally, the manager then declares exactly the
source's variables at the source's levels, is good for the same ledger, and every held reference
keeps its function by name -/
theorem C11_copyVars_every_history5 (s : St) (hs : Good3 s.m s.ext) (ops : List UOp5)
    (hg : Ops5Guarded ops s) (src : Tbl) (names : List String) (hO : OrderOK src)
    (hperm : names.Perm src.vars.keys)
    (hsub : ∀ (v : String) (i : Nat), (run5 ops s).m.tbl.vars[v]? = some i → src.vars[v]? = some i) :
    ∃ m', copyVarsCore src names (run5 ops s).m = (.ok (), m') ∧ Good3 m' (run5 ops s).ext ∧
      Held2 (run5 ops s).ext (run5 ops s).m m' ∧ m'.lastLen = (run5 ops s).m.lastLen ∧
      (∀ v : String, m'.tbl.vars[v]? = src.vars[v]?) :=
  copyVars_step5 _ _ (reachable5_from ops s hs hg) src names hO hperm hsub

/-! ### non-vacuity -/

def resCode5 : Except Err Res → Int
  | .ok (.ref u) => u
  | .ok (.lvl n) => 1000 + n
  | .ok .unit => 0
  | .error _ => -1000

def bop5 (o : UOp) : UOp5 := .op (.op (.op (.base o)))

/-- a JSON file: variables `a`, `d`; node 2 = `d`, node 3 = `a ∧ d`; root 3 -/
def exJson : JsonFile :=
  { levelOfVar := [("a", 0), ("d", 1)], roots := .list [3],
    nodes := [⟨2, 1, -1, 1⟩, ⟨3, 0, -1, 2⟩] }

/-- the same with a dangling successor -/
def exJsonBad : JsonFile := { exJson with nodes := [⟨2, 1, -1, 1⟩, ⟨3, 0, -1, 7⟩] }

/-- the variables of ANOTHER manager: `a`, `b`, `d`, `e` -/
def exSrc5 : Tbl :=
  (run5 [bop5 (.declare "a" none), bop5 (.declare "b" none), bop5 (.declare "d" none),
    bop5 (.declare "e" none)] St.init).m.tbl

/-- twelve calls: a JSON load that returns (the user gets a reference to the returned root, node
6 = `a ∧ d`), one that raises (`KeyError`: the node of `d` was built, the shelf is released),
`copy_vars` visiting the source's dict in two different orders (the first declares `e`, the second
finds everything declared), a rooted and a full collection in between, reordering enabled at the
end -/
def exHistory5 : List UOp5 :=
  [ bop5 (.declare "a" none), bop5 (.declare "b" none),
    .op (.addExpr "a /\\ b"),                       -- node 4
    bop5 (.incref 4),
    .loadJson exJson,                               -- declares `d`; returns node 6, now held
    .loadJson exJsonBad,                            -- REJECTED: dangling successor
    .copyVars exSrc5 ["e", "a", "d", "b"],          -- declares `e`
    .op (.gcRooted [2]),
    bop5 .collectGarbage,
    .op (.op (.configure true)),
    .copyVars exSrc5 ["a", "b", "d", "e"],          -- nothing left to declare
    .op (.addExpr "d \\/ e") ]                      -- node 7

set_option maxRecDepth 100000 in
theorem exHistory5_guarded : Ops5Guarded exHistory5 St.init := by decide +kernel

set_option maxRecDepth 100000 in
theorem exHistory5_results : (results5 exHistory5 St.init).map resCode5 =
    [1000, 1001, 4, 0, 0, -1000, 0, 0, 0, 0, 0, 7] ∧
    ⟪exHistory5⟫.m.tbl.vars.toList = [("a", 0), ("b", 1), ("d", 2), ("e", 3)] ∧
    ⟪exHistory5⟫.ext 4 = 1 ∧ ⟪exHistory5⟫.ext 6 = 1 ∧
    ⟪exHistory5⟫.m.ref.toList = [(1, 10), (2, 1), (3, 1), (4, 1), (5, 1), (6, 1), (7, 0)] := by
  decide +kernel

example : Good3 ⟪exHistory5⟫.m ⟪exHistory5⟫.ext := reachable5_inv exHistory5 exHistory5_guarded

/-- C02 on the example -/
example (v : Int) (hv : ⟪exHistory5⟫.m.tbl.Mem v) :
    (∀ σ, denN ⟪exHistory5⟫.m.tbl 6 σ = denN ⟪exHistory5⟫.m.tbl v σ) ↔ 6 = v :=
  (C02_canonical_every_history5 exHistory5 exHistory5_guarded 6 v (by decide +kernel) hv).1

example : RefExact ⟪exHistory5⟫.m ⟪exHistory5⟫.ext :=
  (C06_counts_exact_every_history5 exHistory5 exHistory5_guarded).1

/-- C06 on the example: node 4 is held when the JSON file is loaded (fifth call) -/
example : (step5 (.loadJson exJson) ⟪exHistory5.take 4⟫).m.tbl.Mem 4 :=
  ((C06_held_every_history5 St.init Good3.init (exHistory5.take 4) (by decide +kernel)
    (.loadJson exJson) (by decide +kernel)).2.2 4 (by decide +kernel)).2.1

/-- C17 on the example: the sixth call raises in the state reached by five calls -/
theorem exHistory5_rejected :
    (runOp5 (.loadJson exJsonBad) ⟪exHistory5.take 5⟫.m).1 = .error .key := by
  have h : ∀ r : Except Err Res, (match r with | .error .key => true | _ => false) = true →
      r = .error .key := by
    intro r
    cases r with
    | ok r => intro h; cases h
    | error e => cases e <;> intro h <;> first | rfl | cases h
  exact h _ (by decide +kernel)

example : Good3 (step5 (.loadJson exJsonBad) ⟪exHistory5.take 5⟫).m
    (step5 (.loadJson exJsonBad) ⟪exHistory5.take 5⟫).ext :=
  (C17_error_then_normal5 St.init Good3.init (exHistory5.take 5) (by decide +kernel)
    (.loadJson exJsonBad) (by decide +kernel) .key exHistory5_rejected).2.1

example : Good3 ⟪exHistory5.take 7⟫.m ⟪exHistory5.take 7⟫.ext :=
  C17_every_prefix_good5 St.init Good3.init (exHistory5.take 7) (exHistory5.drop 7)
    (by rw [List.take_append_drop]; exact exHistory5_guarded)

/-- C12 on the example: the hypotheses of `C12_loadJson_every_history5` after four calls -/
example : ⟪exHistory5.take 4⟫.m.lastLen = none ∧ (∀ ln ∈ exJson.nodes, ln.id ≠ 1) ∧
    (∀ ln ∈ exJsonBad.nodes, ln.id ≠ 1) := by decide +kernel

/-- C11 on the example: the source order is a bijection, `names` a permutation of its variables,
and after six calls the manager declares `a`, `b`, `d` at the source's levels -/
example : OrderOK exSrc5 ∧ ["e", "a", "d", "b"].Perm exSrc5.vars.keys ∧
    varsSubB exSrc5 ⟪exHistory5.take 6⟫.m.tbl = true :=
  ⟨orderOK_of_check (by decide +kernel), by decide +kernel, by decide +kernel⟩

/-- the histories of DDProps.Histories3 are histories -/
example (ops : List UOp4) (hg : Ops4Guarded ops St.init) :
    Good3 (run4 ops St.init).m (run4 ops St.init).ext := by
  rw [← run5_op]
  exact reachable5_inv _ ((ops5Guarded_op ops St.init).mpr hg)

end DD
