/-
  DDProps.C06Rooted — `collect_garbage(roots)` maps reachable states to reachable states
  (C06, "rooted collections in interleavings"): the `GoodState` of the every-history theorems
  (DDProofs.Reach: `Inv`, `OrderOK`, `RefExact`, reordering off, no context open) is kept for
  the same ledger, so every per-operation theorem and every history theorem can be continued
  after a rooted collection.
-/
import DDProps.C06
import DDProofs.Reach
import DDProps.C07
open Std

namespace DD

/-- C06 (rooted collection, good states): from a good state, `collect_garbage(roots)` with roots
that are nodes returns normally into a good state for the SAME ledger; everything reachable from
a held node is still there and denotes what it denoted -/
theorem C06_gc_rooted_good (rs : List Int) (m : Mgr) (ext : Nat → Nat) (h : GoodState m ext)
    (hroots : ∀ r ∈ rs, m.tbl.Mem r) :
    ∃ m', collectGarbage (some rs) m = (.ok (), m') ∧ GoodState m' ext ∧
      (∀ u, GcReach m.tbl (GcHeld ext) u →
        (u = 1 ∨ (m'.tbl.node? u).isSome) ∧ ∀ a, den m'.tbl (u : Int) a = den m.tbl (u : Int) a) ∧
      m'.tbl.vars = m.tbl.vars ∧ m'.tbl.l2v = m.tbl.l2v := by
  obtain ⟨m', hrun, hI, hR, _, hden, _, _, _, hkeep, hv, hl, hoff, hctx, hO, _⟩ :=
    C06_gc_rooted rs m ext h.inv h.exact hroots
  refine ⟨m', hrun, ⟨hI, hO h.order, hR, by rw [hoff]; exact h.off, by rw [hctx]; exact h.ctx⟩,
    fun u hu => ?_, hv, hl⟩
  have hmem := hkeep u hu
  exact ⟨hmem, fun a => hden (u : Int) a (by simpa [Tbl.Mem] using hmem)⟩

/-- non-vacuity: the initial state is good, and so is the state after a rooted collection there -/
example : ∃ m', collectGarbage (some [1]) ({} : Mgr) = (.ok (), m') ∧ GoodState m' (fun _ => 0) := by
  obtain ⟨m', h1, h2, _⟩ := C06_gc_rooted_good [1] {} (fun _ => 0) GoodState.init (by
    intro r hr
    simp only [List.mem_cons, List.not_mem_nil, or_false] at hr
    subst hr; exact Or.inl rfl)
  exact ⟨m', h1, h2⟩

/-- … and on the example manager of C06 (variables `a`, `b`; nodes 2, 3, 4; the user holds 4):
it is a good state, `{2, -3}` are nodes, the rooted collection from them frees node 2 -/
example : GoodState exM exExt ∧ (∀ r ∈ [(2 : Int), -3], exM.tbl.Mem r) ∧
    (collectGarbage (some [2, -3]) exM).2.tbl.succ.keys = [3, 4] := by
  refine ⟨⟨exM_inv, exM_order, exM_refExact, by decide, by decide⟩, ?_, by decide⟩
  intro r hr
  simp only [List.mem_cons, List.not_mem_nil, or_false] at hr
  rcases hr with rfl | rfl <;> decide

end DD
