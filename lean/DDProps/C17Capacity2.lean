/-
  DDProps.C17Capacity2 — the capacity layer lifted to `BDD.apply`, for every operator of the
  vocabulary that does not quantify (`NonQuantOp op`: the connectives in all their spellings, the
  ternary `ite`, negation — whatever the regenerated table maps to `self.ite(a, b, c)` or `-u`).
  `applyCap cap = applyG (iteCap cap) quantify`, `applyG ite quantify = apply` (by `rfl`).

  NOT lifted (no capacity-aware version; the harness checks them on the real code only, oracle
  `checks_capacity.op_scenario`): `apply` with the quantifier aliases, `quantify` / `exist` /
  `forall`, `cofactor`, `let`, `compose`, `rename`, `cube`, `add_expr`, `copy_bdd`, `load`.
  Their `.ok` / totality theorems remain statements about a manager whose `max_nodes` is not
  reached.  What blocks a mechanical lift: those recursions call `findOrAdd` / the decorated `ite`
  directly (no `find_or_add` parameter), so a twin must be a copy of the text; the refinement
  `CapSim` then follows from closure under `bind`, but the FULL outcome needs the abort-aware
  specification of each recursion (`quantifyF_out`, `cofactorF_out`, …) re-proved over an
  arbitrary `find_or_add` with a third outcome, as `iteG_outX` does for `_ite`.
-/
import DDProofs.Capacity2Apply
import DDProps.C17Capacity
open Std

namespace DD

/-- the layer is the model -/
theorem C17_apply_layer_is_model : applyG ite quantify = apply := applyG_model

/-- every connective of the vocabulary the source accepts is covered: the operators that are
NOT covered are exactly those whose regenerated row is a quantifier template -/
theorem C17_apply_nonquant_iff (op : String) : NonQuantOp op ↔ isQuantOp op = false := by
  unfold NonQuantOp isQuantOp
  cases findRow op Gen.applyTable with
  | none => simp
  | some row =>
    cases h : row.templ <;> simp [h]

/-- C17/(a) for `apply` — `C01_apply_binary`, `C01_apply_not`, `C17_apply`, … TRANSFER: with
`max_nodes = cap`, reordering not enabled, ANY arity and operands, `apply` is the capacity-free
`apply` (answer and state) when that call created nothing or left `_min_free < cap`, and raises
`RuntimeError` otherwise -/
theorem C17_capacity_apply (cap : Nat) (m : Mgr) (hI : Inv m) (hoff : m.lastLen = none)
    (op : String) (u : Int) (v w : Option Int) (hnq : NonQuantOp op) :
    (CapOK cap m (apply op u v w m).2 → applyCap cap op u v w m = apply op u v w m) ∧
    (¬ CapOK cap m (apply op u v w m).2 → (applyCap cap op u v w m).1 = .error .runtime) :=
  applyCap_vs_apply_off cap m hI hoff op u v w hnq

/-- `BDD.ite` with capacity on ARBITRARY integers (the hypothesis `Mem` of `C17_capacity_ite`
removed) -/
theorem C17_capacity_ite_any (cap : Nat) (m : Mgr) (hI : Inv m) (hoff : m.lastLen = none) (g u v : Int) :
    (CapOK cap m (ite g u v m).2 → iteCap cap g u v m = ite g u v m) ∧
    (¬ CapOK cap m (ite g u v m).2 → (iteCap cap g u v m).1 = .error .runtime) :=
  iteCap_vs_ite_off cap m hI hoff g u v

/-- `C01_apply_binary` transferred, as an instance: the connective of the operands, under the
side condition -/
theorem C17_capacity_apply_binary (cap : Nat) (m : Mgr) (hI : Inv m) (hoff : m.lastLen = none)
    (op : String) (c : Conn) (hc : docConn op = some c) (h2 : c.arity = 2)
    (hq1 : c ≠ .forall_) (hq2 : c ≠ .exists_) (hall : Gen.allOps.contains op = true)
    (hnq : NonQuantOp op) (u v : Int) (hu : m.tbl.Mem u) (hv : m.tbl.Mem v)
    (hcap : CapOK cap m (apply op u (some v) none m).2) :
    ∃ r m', applyCap cap op u (some v) none m = (.ok r, m') ∧ Inv m' ∧ Ext m.tbl m'.tbl ∧
      m'.tbl.Mem r ∧ Frame m m' ∧
      ∀ a, den m'.tbl r a = c.eval (den m.tbl u a) (den m.tbl v a) false := by
  rw [(C17_capacity_apply cap m hI hoff op u (some v) none hnq).1 hcap]
  exact C01_apply_binary m hI hoff op c hc h2 hq1 hq2 hall u v hu hv

/-- C17/(2) for `apply`: with `max_nodes = cap`, ANY operator string that is not a quantifier
alias, ANY arity and operands, dynamic reordering enabled or not, whatever it returns or raises
— `RuntimeError('full')` half-way through the `ite` included: never the internal signal, `DynInv`
for the caller's ledger (invariant, order bijection, exact counts, flag cleared), reordering
enabled iff it was, same names and roots, every held reference a member with the same function
by name (`DynTotal`) -/
theorem C17_apply_full_dyn (cap : Nat) (ext : Nat → Nat) (m : Mgr) (hD : DynInv ext m)
    (op : String) (u : Int) (v w : Option Int) (hnq : NonQuantOp op) :
    DynTotal ext m (applyCap cap op u v w m) :=
  applyCap_total_dyn cap ext m hD op u v w hnq

/-- reordering not enabled: `Kept` and `GoodState` for the same ledger after ANY outcome -/
theorem C17_apply_full_off (cap : Nat) (ext : Nat → Nat) (m : Mgr) (hG : GoodState m ext)
    (op : String) (u : Int) (v w : Option Int) (hnq : NonQuantOp op) :
    Kept m (applyCap cap op u v w m).2 ∧ GoodState (applyCap cap op u v w m).2 ext :=
  applyCap_off cap ext m hG op u v w hnq

/-! ### non-vacuity, on `capM` (a, b, c; nodes 2, 3, 4 held; `_min_free = 5`) -/

example : NonQuantOp "and" ∧ NonQuantOp "<=>" ∧ NonQuantOp "ite" ∧ NonQuantOp "~" ∧ ¬ NonQuantOp "\\E" := by
  simp only [C17_apply_nonquant_iff]
  decide +kernel

/-- `apply('ite', b, a, c)` needs three nodes (5, 6, 7): refused half-way with `max_nodes = 7`
(node 5 stays), fine with 9; `a <=> b` needs one node: refused with `max_nodes = 6` -/
example : raisedErr (applyCap 7 "ite" 3 (some 2) (some 4) capM).1 = some .runtime ∧
    (applyCap 7 "ite" 3 (some 2) (some 4) capM).2.len = 5 ∧
    (applyCap 9 "ite" 3 (some 2) (some 4) capM).1.toOption = some 7 ∧
    (apply "ite" 3 (some 2) (some 4) capM).1.toOption = some 7 ∧
    raisedErr (applyCap 6 "<=>" 2 (some 3) none capM).1 = some .runtime ∧
    (applyCap 6 "<=>" 2 (some 3) none capM).2.len = 4 := by decide +kernel

example : DynTotal capSt.ext capM (applyCap 7 "<=>" 2 (some 3) none capM) :=
  C17_apply_full_dyn 7 capSt.ext capM capM_dynInv _ _ _ _
    ((C17_apply_nonquant_iff _).mpr (by decide +kernel))

end DD
