/-
  DDProps.C02 — canonical form.
-/
import DDProofs.Canon
import DDProofs.Inv
import DDProofs.UsedObs
namespace DD

/-- C02 (core): in a manager satisfying the invariant, two references are equal exactly
when they denote the same Boolean function (complemented edges included) -/
theorem C02_canonical (m : Mgr) (h : Inv m) (u v : Int) (hu : m.tbl.Mem u) (hv : m.tbl.Mem v) :
    (∀ a, den m.tbl u a = den m.tbl v a) ↔ u = v :=
  canonical m.tbl h.wf u v hu hv

/-- comparison with `true` decides validity -/
theorem C02_eq_true_iff_valid (m : Mgr) (h : Inv m) (u : Int) (hu : m.tbl.Mem u) :
    u = 1 ↔ ∀ a, den m.tbl u a = true := by
  rw [← C02_canonical m h u 1 hu (Or.inl rfl)]
  simp [den_one]

/-- comparison with `false` decides unsatisfiability -/
theorem C02_eq_false_iff_unsat (m : Mgr) (h : Inv m) (u : Int) (hu : m.tbl.Mem u) :
    u = -1 ↔ ∀ a, den m.tbl u a = false := by
  rw [← C02_canonical m h u (-1) hu (Or.inl rfl)]
  simp [den_neg_one]

/-- the stored diagram is reduced and ordered (the four structural clauses of the statement) -/
theorem C02_reduced_ordered (m : Mgr) (h : Inv m) (u : Nat) (n : Nd) (hn : m.tbl.node? u = some n) :
    n.lo ≠ n.hi ∧ 0 < n.hi ∧ n.lvl < m.tbl.levelOf n.lo ∧ n.lvl < m.tbl.levelOf n.hi ∧
    (∀ u', m.tbl.node? u' = some n → u' = u) :=
  ⟨h.wf.lo_ne_hi _ _ hn, h.wf.hi_pos _ _ hn, h.wf.lo_lt _ _ hn, h.wf.hi_lt _ _ hn,
   fun u' hn' => h.wf.unique _ _ _ hn' hn⟩

/-- non-vacuity: the empty manager satisfies the invariant -/
example : Inv ({} : Mgr) := Inv.init

/-! ### non-vacuity on a USED manager (`usedM`, DDProofs.UsedExample: levels c, a, d, b; thirteen
nodes; 4 = `a ∧ b`, 13 = `ite(c ≡ d, a ∧ b, ¬b)` held, 14 = `a ∨ d` garbage; reached by a guarded
history, so `Inv` comes from `reachable_inv`) -/

/-- the theorems instantiated on complemented references of different supports: the FOUR-variable
function `f` (13) against its complement, against `a ∨ d`; validity / unsatisfiability tests; the
structural clauses on the top node of `f`, whose else-edge is complemented -/
example :
    ((∀ a, den usedM.tbl 13 a = den usedM.tbl (-13) a) ↔ (13 : Int) = -13) ∧
    ((∀ a, den usedM.tbl (-13) a = den usedM.tbl 14 a) ↔ (-13 : Int) = 14) ∧
    ((-14 : Int) = 1 ↔ ∀ a, den usedM.tbl (-14) a = true) ∧
    ((-4 : Int) = -1 ↔ ∀ a, den usedM.tbl (-4) a = false) ∧
    ((-10 : Int) ≠ 12 ∧ (0 : Int) < 12 ∧ 0 < usedM.tbl.levelOf (-10) ∧ 0 < usedM.tbl.levelOf 12 ∧
      ∀ u', usedM.tbl.node? u' = some ⟨0, -10, 12⟩ → u' = 13) :=
  ⟨C02_canonical usedM usedM_good.inv 13 (-13) (usedM_mem (by decide)) (usedM_mem (by decide)),
   C02_canonical usedM usedM_good.inv (-13) 14 (usedM_mem (by decide)) (usedM_mem (by decide)),
   C02_eq_true_iff_valid usedM usedM_good.inv (-14) (usedM_mem (by decide)),
   C02_eq_false_iff_unsat usedM usedM_good.inv (-4) (usedM_mem (by decide)),
   C02_reduced_ordered usedM usedM_good.inv 13 ⟨0, -10, 12⟩ usedM_shape.2.2.1⟩

/-- evaluated: the same function built by ANOTHER route gets the SAME reference — `b ∧ a`,
`¬(¬a ∨ ¬b)` and `ite(b, a, FALSE)` all answer 4 = `a ∧ b`; `ite(c xor d, b, ¬(a ∧ b))` — the complement of `f` written
another way — answers −13; and the tables of different references differ -/
example :
    (apply "and" 3 (some 2) none usedM).1 = .ok 4 ∧
    (apply "or" (-2) (some (-3)) none usedM).1 = .ok (-4) ∧
    (ite 3 2 (-1) usedM).1 = .ok 4 ∧
    (ite (-7) 3 (-4) usedM).1 = .ok (-13) ∧
    tt4 usedM.tbl 13 ≠ tt4 usedM.tbl (-13) ∧ tt4 usedM.tbl (-13) ≠ tt4 usedM.tbl 14 := by
  refine ⟨by decide +kernel, by decide +kernel, by decide +kernel, by decide +kernel,
    by decide +kernel, by decide +kernel⟩

end DD
