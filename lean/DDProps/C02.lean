/-
  DDProps.C02 — canonical form.
-/
import DDProofs.Canon
import DDProofs.Inv
namespace DD

/-- C02 (core): in a manager satisfying the invariant, two references are equal exactly
when they denote the same Boolean function (complemented edges included) -/
theorem C02_canonical (m : Mgr) (h : Inv m) (u v : Int) (hu : m.tbl.Mem u) (hv : m.tbl.Mem v) :
    (∀ a, den m.tbl u a = den m.tbl v a) ↔ u = v :=
  canonical m.tbl h.wf u v hu hv

/-- comparison with `true` decides validity -/
theorem C02_eq_true_iff_valid (m : Mgr) (h : Inv m) (u : Int) (hu : m.tbl.Mem u) :
    u = 1 ↔ ∀ a, den m.tbl u a = true := by
  rw [← C02_canonical m h u 1 hu (Or.inl rfl)]
  simp [den_one]

/-- comparison with `false` decides unsatisfiability -/
theorem C02_eq_false_iff_unsat (m : Mgr) (h : Inv m) (u : Int) (hu : m.tbl.Mem u) :
    u = -1 ↔ ∀ a, den m.tbl u a = false := by
  rw [← C02_canonical m h u (-1) hu (Or.inl rfl)]
  simp [den_neg_one]

/-- the stored diagram is reduced and ordered (the four structural clauses of the statement) -/
theorem C02_reduced_ordered (m : Mgr) (h : Inv m) (u : Nat) (n : Nd) (hn : m.tbl.node? u = some n) :
    n.lo ≠ n.hi ∧ 0 < n.hi ∧ n.lvl < m.tbl.levelOf n.lo ∧ n.lvl < m.tbl.levelOf n.hi ∧
    (∀ u', m.tbl.node? u' = some n → u' = u) :=
  ⟨h.wf.lo_ne_hi _ _ hn, h.wf.hi_pos _ _ hn, h.wf.lo_lt _ _ hn, h.wf.hi_lt _ _ hn,
   fun u' hn' => h.wf.unique _ _ _ hn' hn⟩

/-- non-vacuity: the empty manager satisfies the invariant -/
example : Inv ({} : Mgr) := Inv.init

end DD
