/-
  DDProps.C08 — dd.autoref keeps live Functions valid and releases exactly what
  is dropped.

  Model: `DD.AMgr` (a `dd.bdd.BDD` manager + registry of live `Function`s),
  `lean/DD/Auto.lean`.  Invariant: `DD.AInv`
      Inv m  ∧  every handle points to a stored node  ∧
      ∀ k, ref k = indeg k + #{h | |handles h| = k} + (if k = 1 then 1 else 0)
  (`ref` has no key outside `_succ`).

  Proved without hypotheses: the registry bookkeeping (`C08_wrap`, `C08_drop`,
  `C08_drop_wrap_id`), the operations whose core part does not touch the table
  (`C08_ops_unconditional`), the history theorem `C08_live_den` (relative to the
  per-operation guarantee `AKeeps`).
  Proved from explicit hypotheses about `dd.bdd` alone (`CoreSpecs`, `GcSpec`:
  frame properties of the core operations, to be discharged by the core proofs):
  `C08_ops_of_coreSpecs`, `C08_shutdown_of_gcSpec`.
  The unconditional statements are kept as `C08_ops_statement`,
  `C08_shutdown_statement`.
-/
import DDProofs.AutoProofs
import DDProofs.AutoTemps
open Std

namespace DD

/-- creating a `Function` (`Function.__init__`, `_wrap`) on a stored node with a fresh id:
succeeds, the invariant (count equation included) is kept, the table is untouched -/
theorem C08_wrap (a : AMgr) (h : Nat) (u : Int) (hi : AInv a)
    (hf : a.handles.contains h = false) (hu : a.m.tbl.Mem u) :
    ∃ a', wrap h u a = (.ok (), a') ∧ wrapF h u a = (.ok (), a') ∧ AInv a' ∧ a'.m.tbl = a.m.tbl ∧
      a'.handles = a.handles.insert h u := by
  obtain ⟨a1, h1, i1, t1, hh1, _⟩ := wrap_spec a h u hi hf hu
  obtain ⟨a2, h2, _⟩ := wrapF_spec a h u hi hf hu
  have : a2 = a1 := by
    have : wrap h u a = wrapF h u a := by
      unfold wrap; rw [(Mgr.mem_iff a.m u).mpr hu]; rfl
    rw [h1, h2] at this
    cases this; rfl
  subst this
  exact ⟨a2, h1, h2, i1, t1, hh1⟩

/-- dropping a live `Function` (`__del__`): exactly one reference is released, the invariant
(count equation included) is kept, the table is untouched -/
theorem C08_drop (a : AMgr) (h : Nat) (u : Int) (hi : AInv a) (hh : a.handles[h]? = some u) :
    ∃ a', drop h a = (.ok (), a') ∧ AInv a' ∧ a'.m.tbl = a.m.tbl ∧
      a'.handles = a.handles.erase h := by
  obtain ⟨a1, h1, i1, t1, hh1, _⟩ := drop_spec a h u hi hh
  exact ⟨a1, h1, i1, t1, hh1⟩

/-- a temporary `Function` (created and dropped again) leaves every count as it was -/
theorem C08_drop_wrap_id (a : AMgr) (h : Nat) (u : Int) (hi : AInv a)
    (hf : a.handles.contains h = false) (hu : a.m.tbl.Mem u) :
    ∃ a1 a2, wrap h u a = (.ok (), a1) ∧ drop h a1 = (.ok (), a2) ∧ AInv a2 ∧
      a2.m.tbl = a.m.tbl ∧ (∀ k : Nat, a2.m.ref[k]? = a.m.ref[k]?) ∧
      (∀ j : Nat, a2.handles[j]? = a.handles[j]?) :=
  drop_wrap_id a h u hi hf hu

/-- the per-operation guarantee: invariant kept (count equation included), no handle
touched other than the new one(s), every live `Function` keeps its node and its meaning by
variable name, whether the method returns or raises.
`AKeeps h` : creates at most handle `h`;  `AKeeps0` : the registry ends exactly as it
started (temporaries of `<=`, `<` released);  `AKeepsL [h1, h2]` : `succ`. -/
def C08_ops_list (h : Nat) : Prop :=
  (∀ name, AKeeps h (aVar name h)) ∧
  (∀ b, AKeeps h (aConst b h)) ∧
  (∀ op hu hv hw, AKeeps h (aApply op hu hv hw h)) ∧
  (∀ hg hu hv, AKeeps h (aIte hg hu hv h)) ∧
  (∀ d hu, AKeeps h (aLet d hu h)) ∧
  (∀ hu q fa, AKeeps h (aQuantify hu q fa h)) ∧
  (∀ d, AKeeps h (aCube d h)) ∧
  (∀ i, AKeeps h (aAddInt i h)) ∧
  (∀ hu, AKeeps h (aCopyBddSame hu h)) ∧
  (∀ pre ht hs rn q fa, AKeeps h (aImage pre ht hs rn q fa h)) ∧
  (∀ src hu, AKeeps h (aCopyTo src hu h)) ∧
  (∀ src hu, AKeeps h (aCopyBddTo src hu h)) ∧
  (∀ op hs ho, AKeeps h (fApply op hs ho h)) ∧
  (∀ high hs, AKeeps h (fChild high hs h)) ∧
  (∀ hs, AKeeps h (fCopy hs h)) ∧
  (∀ hu h2, h ≠ h2 → AKeepsL [h, h2] (aSucc hu h h2)) ∧
  (∀ hs ho, AKeeps0 (fEq hs ho)) ∧
  (∀ hs ho, AKeeps0 (fNe hs ho)) ∧
  (∀ hs ho, AKeeps0 (fLe hs ho)) ∧
  (∀ hs ho, AKeeps0 (fLt hs ho)) ∧
  AKeeps h aCollectGarbage ∧
  (∀ o, AKeeps h (aReorder o)) ∧
  (∀ r, AKeeps h (aConfigure r)) ∧
  (∀ ns, AKeeps h (aDeclare ns)) ∧
  (∀ n l, AKeeps h (aAddVar n l)) ∧
  (∀ src names, AKeeps h (aCopyVars src names))

/-- the unconditional statement -/
def C08_ops_statement : Prop := ∀ h, C08_ops_list h

/-- … proved from the frame properties of the core operations -/
theorem C08_ops_of_coreSpecs (cs : CoreSpecs) : C08_ops_statement := fun h =>
  ⟨fun n => aVar_keeps cs n h, fun b => aConst_keeps b h,
   fun op hu hv hw => aApply_keeps cs op hu hv hw h, fun hg hu hv => aIte_keeps cs hg hu hv h,
   fun d hu => aLet_keeps cs d hu h, fun hu q fa => aQuantify_keeps cs hu q fa h,
   fun d => aCube_keeps cs d h, fun i => aAddInt_keeps i h, fun hu => aCopyBddSame_keeps hu h,
   fun pre ht hs rn q fa => aImage_keeps cs pre ht hs rn q fa h,
   fun src hu => aCopyTo_keeps cs src hu h, fun src hu => aCopyBddTo_keeps cs src hu h,
   fun op hs ho => fApply_keeps cs op hs ho h, fun high hs => fChild_keeps high hs h,
   fun hs => fCopy_keeps hs h, fun hu h2 hne => aSucc_keepsL hu h h2 hne,
   fun hs ho => fEq_keeps0 hs ho, fun hs ho => fNe_keeps0 hs ho,
   fun hs ho => fLe_keeps0 cs hs ho, fun hs ho => fLt_keeps0 cs hs ho,
   aCollectGarbage_keeps cs h, fun o => aReorder_keeps cs o h, fun r => aConfigure_keeps r h,
   fun ns => aDeclare_keeps cs ns h, fun n l => aAddVar_keeps cs n l h,
   fun src names => aCopyVars_keeps cs src names h⟩

/-- `find_or_add(var, low, high)` has no test of its own: the guarantee holds in every state
in which the core `find_or_add` keeps the invariants for the level and children that the
wrapper reads (documented precondition: level above both children) -/
theorem C08_find_or_add (a : AMgr) (var : String) (hlow hhigh h : Nat)
    (hfoa : ∀ level lo hi, (levelOfVar var a.m).1 = .ok level → (nodeAny hlow a).1 = .ok lo →
      (nodeAny hhigh a).1 = .ok hi → CoreKeepsAt a.m (findOrAdd level lo hi)) :
    AKeepsAt a h (aFindOrAdd var hlow hhigh h) :=
  aFindOrAdd_keepsAt a var hlow hhigh h hfoa

/-- the methods that need no hypothesis at all: `true`/`false`, `_add_int`, `copy_bdd` into
the same manager, `low`/`high`, `copy.copy(f)`, `succ`, `==`, `!=`, `configure` -/
theorem C08_ops_unconditional (h : Nat) :
    (∀ b, AKeeps h (aConst b h)) ∧ (∀ i, AKeeps h (aAddInt i h)) ∧
    (∀ hu, AKeeps h (aCopyBddSame hu h)) ∧ (∀ high hs, AKeeps h (fChild high hs h)) ∧
    (∀ hs, AKeeps h (fCopy hs h)) ∧
    (∀ hu h2, h ≠ h2 → AKeepsL [h, h2] (aSucc hu h h2)) ∧
    (∀ hs ho, AKeeps0 (fEq hs ho)) ∧ (∀ hs ho, AKeeps0 (fNe hs ho)) ∧
    (∀ r, AKeeps h (aConfigure r)) :=
  ⟨fun b => aConst_keeps b h, fun i => aAddInt_keeps i h, fun hu => aCopyBddSame_keeps hu h,
   fun high hs => fChild_keeps high hs h, fun hs => fCopy_keeps hs h,
   fun hu h2 hne => aSucc_keepsL hu h h2 hne, fun hs ho => fEq_keeps0 hs ho,
   fun hs ho => fNe_keeps0 hs ho, fun r => aConfigure_keeps r h⟩

/-- histories: through any sequence of operations with the guarantee `AKeepsL` (constructions,
operators, traversals, collections, reorderings; `AKeeps h x` gives `AKeepsL [h] x`, `AKeeps0 x`
gives `AKeepsL [] x`) and drops of *other* handles in any order,
the invariant holds and every protected live `Function` keeps its node and its meaning -/
theorem C08_live_den (P : Nat → Prop) {a a' : AMgr} (hi : AInv a) (hr : AReach P a a') :
    AInv a' ∧ ∀ h, P h → ∀ u, a.handles[h]? = some u →
      a'.handles[h]? = some u ∧ a'.m.tbl.Mem u ∧
      ∀ asg, denN a'.m.tbl u asg = denN a.m.tbl u asg :=
  autoref_live_den P hi hr

/-- the count equation in the form of the property statement -/
theorem C08_counts (a : AMgr) (hi : AInv a) (u : Int) (hu : a.m.tbl.Mem u) :
    a.m.ref[u.natAbs]? =
      some (indeg a.m.tbl u.natAbs + hcount a.handles u.natAbs + (if u.natAbs = 1 then 1 else 0)) := by
  rw [hi.counts.of_mem hu]; unfold aext; simp [Nat.add_assoc]

/-- shutdown, unconditional statement -/
def C08_shutdown_statement : Prop :=
  ∀ a : AMgr, AInv a → a.handles.isEmpty = true →
    ∃ m', shutdown a.m = (.ok (), m') ∧ (∀ u : Nat, m'.tbl.node? u = none) ∧
      (∀ (k c : Nat), m'.ref[k]? = some c → c = 0)

/-- … proved from the specification of `collect_garbage` -/
theorem C08_shutdown_of_gcSpec (gs : GcSpec) : C08_shutdown_statement :=
  fun a hi he => autoref_shutdown_of_gcSpec gs a hi he

/-! ### non-vacuity -/

/-- a fresh `autoref.BDD()` satisfies the invariant -/
theorem AInv.empty : AInv ({} : AMgr) := by
  refine ⟨Inv.init, fun h u hh => ?_, fun k => ?_⟩
  · rw [show ({} : AMgr).handles = (∅ : TreeMap Nat Int) from rfl, TreeMap.getElem?_emptyc] at hh
    cases hh
  · have hnode : ∀ u : Nat, ({} : AMgr).m.tbl.node? u = none := fun u => by
      show (∅ : TreeMap Nat Nd)[u]? = none
      exact TreeMap.getElem?_emptyc
    have hind : indeg ({} : AMgr).m.tbl k = 0 := indeg_of_isEmpty _ _ TreeMap.isEmpty_emptyc
    have hcnt : hcount ({} : AMgr).handles k = 0 := hcount_of_isEmpty _ _ TreeMap.isEmpty_emptyc
    show ((∅ : TreeMap Nat Nat).insert 1 1)[k]? = _
    by_cases hk : k = 1
    · subst hk
      have hm : NMem ({} : AMgr).m.tbl 1 := Or.inl rfl
      rw [TreeMap.getElem?_insert_self, if_pos hm, hind]
      unfold aext; rw [hcnt]; rfl
    · rw [getElem?_insert_ne _ _ _ _ hk, TreeMap.getElem?_emptyc, if_neg]
      intro hm
      rcases hm with hm | hm
      · exact hk hm
      · rw [hnode k] at hm; cases hm

/-- a state with a live `Function` (the constant `true` as handle 0) satisfies the invariant:
the hypotheses of `C08_drop`, `C08_live_den` are satisfiable with a non-empty registry -/
example : AInv (aConst true 0 {}).2 ∧ (aConst true 0 {}).2.handles[(0 : Nat)]? = some 1 := by
  obtain ⟨a', hw, i', _, hh, _⟩ := wrap_spec {} 0 1 AInv.empty
    (by show (∅ : TreeMap Nat Int).contains 0 = false; exact TreeMap.contains_emptyc) (Or.inl rfl)
  have : aConst true 0 {} = (.ok 1, a') := by
    show AM.bind' (AM.liftM (pure 1)) (fun r => AM.bind' (wrap 0 r) (fun _ => AM.pure' r)) {} = _
    unfold AM.bind' AM.liftM
    simp only [pure, M.pure']
    rw [show ({ ({} : AMgr) with m := ({} : AMgr).m } : AMgr) = {} from rfl, hw]
    rfl
  rw [this]
  exact ⟨i', by rw [hh]; exact TreeMap.getElem?_insert_self⟩

/-- the hypothesis structure `CoreKeeps` is satisfiable (here: by a read) -/
example : CoreKeeps (addInt 1) := CoreKeeps.of_read (addInt_read 1)

/-- the hypotheses of the shutdown theorem are met by a fresh manager -/
example : AInv ({} : AMgr) ∧ ({} : AMgr).handles.isEmpty = true := ⟨AInv.empty, TreeMap.isEmpty_emptyc⟩

end DD
