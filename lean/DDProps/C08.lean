/-
  DDProps.C08 — dd.autoref keeps live Functions valid and releases exactly what
  is dropped.

  Model: `DD.AMgr` (a `dd.bdd.BDD` manager + registry of live `Function`s),
  `lean/DD/Auto.lean`.  Invariant `DD.AInv off a`:
      Inv m  ∧  every handle points to a stored node  ∧
      RefExact m (number of live handles on the node), i.e.
      ∀ k, ref k = indeg k + #{h | |handles h| = k} + (if k = 1 then 1 else 0),
      `_ref` has no key outside `_succ`
      ∧ (mode `off = true`) dynamic reordering is not enabled.

  UNCONDITIONAL (no hypothesis about the core left):
    * registry bookkeeping: `C08_wrap`, `C08_drop`, `C08_drop_wrap_id`, `C08_counts`
    * with reordering not enabled (`off = true`): `C08_ops_off` — `var`, `true/false`,
      `apply` with every alias that does not quantify, `ite`, `quantify/exist/forall`, `cube`,
      `_add_int`, `copy_bdd` into the same manager, `copy.copy`, the operators
      `~ & | implies equiv`, `== != <= <` (temporaries released), `low/high`, `succ`,
      `collect_garbage`, `configure` — and histories over them (`C08_live_den`)
    * in every mode: `collect_garbage`, and the methods whose core part does not touch the
      table (`C08_ops_unconditional`)
    * shutdown after "drop everything, collect" (`C08_collect_then_shutdown`)
  CONDITIONAL, hypotheses named: `CoreSpecs off` (mode `false` = reordering possibly enabled:
  everything that can reorder), and for mode `true` the rest: `let` (`LetSpec`), `apply` with the quantifier aliases (`ApplyQuantSpec`), `image/preimage`
  (`ImageSpec`), copies between managers (`CopySpec`), `declare/add_var/copy_vars`
  (`VarsSpec`), `reorder` (`ReorderSpec`); `find_or_add` per state (`C08_find_or_add`);
  shutdown with garbage still stored (`GcSpec0`: `collect_garbage` after the terminal's own
  reference is released).
-/
import DDProofs.AutoProofs
import DDProofs.AutoTemps
import DDProofs.AutoCore
open Std

namespace DD

variable {off : Bool}

/-- creating a `Function` (`Function.__init__`, `_wrap`) on a stored node with a fresh id:
succeeds, the invariant (count equation included) is kept, the table is untouched -/
theorem C08_wrap (a : AMgr) (h : Nat) (u : Int) (hi : AInv off a)
    (hf : a.handles.contains h = false) (hu : a.m.tbl.Mem u) :
    ∃ a', wrap h u a = (.ok (), a') ∧ wrapF h u a = (.ok (), a') ∧ AInv off a' ∧ a'.m.tbl = a.m.tbl ∧
      a'.handles = a.handles.insert h u := by
  obtain ⟨a1, h1, i1, t1, hh1, _⟩ := wrap_spec a h u hi hf hu
  obtain ⟨a2, h2, _⟩ := wrapF_spec a h u hi hf hu
  have : a2 = a1 := by
    have : wrap h u a = wrapF h u a := by
      unfold wrap; rw [(Mgr.mem_iff a.m u).mpr hu]; rfl
    rw [h1, h2] at this
    cases this; rfl
  subst this
  exact ⟨a2, h1, h2, i1, t1, hh1⟩

/-- dropping a live `Function` (`__del__`): exactly one reference is released, the invariant
(count equation included) is kept, the table is untouched -/
theorem C08_drop (a : AMgr) (h : Nat) (u : Int) (hi : AInv off a) (hh : a.handles[h]? = some u) :
    ∃ a', drop h a = (.ok (), a') ∧ AInv off a' ∧ a'.m.tbl = a.m.tbl ∧
      a'.handles = a.handles.erase h := by
  obtain ⟨a1, h1, i1, t1, hh1, _⟩ := drop_spec a h u hi hh
  exact ⟨a1, h1, i1, t1, hh1⟩

/-- a temporary `Function` (created and dropped again) leaves every count as it was -/
theorem C08_drop_wrap_id (a : AMgr) (h : Nat) (u : Int) (hi : AInv off a)
    (hf : a.handles.contains h = false) (hu : a.m.tbl.Mem u) :
    ∃ a1 a2, wrap h u a = (.ok (), a1) ∧ drop h a1 = (.ok (), a2) ∧ AInv off a2 ∧
      a2.m.tbl = a.m.tbl ∧ (∀ k : Nat, a2.m.ref[k]? = a.m.ref[k]?) ∧
      (∀ j : Nat, a2.handles[j]? = a.handles[j]?) :=
  drop_wrap_id a h u hi hf hu

/-- the count equation in the form of the property statement -/
theorem C08_counts (a : AMgr) (hi : AInv off a) (u : Int) (hu : a.m.tbl.Mem u) :
    a.m.ref[u.natAbs]? =
      some (indeg a.m.tbl u.natAbs + hcount a.handles u.natAbs + (if u.natAbs = 1 then 1 else 0)) :=
  hi.counts.get hu

/-! ### the methods -/

/-- the per-operation guarantee: invariant kept (count equation included), no handle
touched other than the new one(s), every live `Function` keeps its node and its meaning by
variable name, whether the method returns or raises.
`AKeeps off h` : creates at most handle `h`;  `AKeeps0 off` : the registry ends exactly as
it started (temporaries of `<=`, `<` released);  `AKeepsL off [h1, h2]` : `succ`. -/
def C08_ops_list (off : Bool) (h : Nat) : Prop :=
  (∀ name, AKeeps off h (aVar name h)) ∧
  (∀ b, AKeeps off h (aConst b h)) ∧
  (∀ op hu hv hw, AKeeps off h (aApply op hu hv hw h)) ∧
  (∀ hg hu hv, AKeeps off h (aIte hg hu hv h)) ∧
  (∀ d hu, AKeeps off h (aLet d hu h)) ∧
  (∀ hu q fa, AKeeps off h (aQuantify hu q fa h)) ∧
  (∀ d, AKeeps off h (aCube d h)) ∧
  (∀ i, AKeeps off h (aAddInt i h)) ∧
  (∀ hu, AKeeps off h (aCopyBddSame hu h)) ∧
  (∀ pre ht hs rn q fa, AKeeps off h (aImage pre ht hs rn q fa h)) ∧
  (∀ src hu, AKeeps off h (aCopyTo src hu h)) ∧
  (∀ src hu, AKeeps off h (aCopyBddTo src hu h)) ∧
  (∀ op hs ho, AKeeps off h (fApply op hs ho h)) ∧
  (∀ high hs, AKeeps off h (fChild high hs h)) ∧
  (∀ hs, AKeeps off h (fCopy hs h)) ∧
  (∀ hu h2, h ≠ h2 → AKeepsL off [h, h2] (aSucc hu h h2)) ∧
  (∀ hs ho, AKeeps0 off (fEq hs ho)) ∧
  (∀ hs ho, AKeeps0 off (fNe hs ho)) ∧
  (∀ hs ho, AKeeps0 off (fLe hs ho)) ∧
  (∀ hs ho, AKeeps0 off (fLt hs ho)) ∧
  AKeeps off h aCollectGarbage ∧
  (∀ o, AKeeps off h (aReorder o)) ∧
  (∀ r, (off = true → r ≠ some true) → AKeeps off h (aConfigure r)) ∧
  (∀ ns, AKeeps off h (aDeclare ns)) ∧
  (∀ n l, AKeeps off h (aAddVar n l)) ∧
  (∀ src names, AKeeps off h (aCopyVars src names))

/-- the unconditional statement (every mode) -/
def C08_ops_statement (off : Bool) : Prop := ∀ h, C08_ops_list off h

/-- … proved from the frame properties of the core operations (`collect_garbage` needs none) -/
theorem C08_ops_of_coreSpecs (cs : CoreSpecs off) : C08_ops_statement off := fun h =>
  ⟨fun n => aVar_keeps n (cs.var n) h, fun b => aConst_keeps b h,
   fun op hu hv hw => aApply_keeps op (cs.apply op) hu hv hw h,
   fun hg hu hv => aIte_keeps cs.ite hg hu hv h,
   fun d hu => aLet_keeps cs d hu h,
   fun hu q fa => aQuantify_keeps q fa (fun m u hm => cs.quantify m u hm q fa) hu h,
   fun d => aCube_keeps cs d h, fun i => aAddInt_keeps i h, fun hu => aCopyBddSame_keeps hu h,
   fun pre ht hs rn q fa => aImage_keeps cs pre ht hs rn q fa h,
   fun src hu => aCopyTo_keeps cs src hu h, fun src hu => aCopyBddTo_keeps cs src hu h,
   fun op hs ho => fApply_keeps op (fun u v => cs.apply op u v none) hs ho h,
   fun high hs => fChild_keeps high hs h,
   fun hs => fCopy_keeps hs h, fun hu h2 hne => aSucc_keepsL hu h h2 hne,
   fun hs ho => fEq_keeps0 hs ho, fun hs ho => fNe_keeps0 hs ho,
   fun hs ho => fLe_keeps0 (fun u => cs.apply "not" u none none)
     (fun u v => cs.apply "or" u (some v) none) hs ho,
   fun hs ho => fLt_keeps0 (fun u => cs.apply "not" u none none)
     (fun u v => cs.apply "or" u (some v) none) hs ho,
   aCollectGarbage_keepsAll h, fun o => aReorder_keeps cs o h,
   fun r hr => aConfigure_keeps r hr h,
   fun ns => aDeclare_keeps cs ns h, fun n l => aAddVar_keeps cs n l h,
   fun src names => aCopyVars_keeps cs src names h⟩

/-- reordering NOT enabled: these methods need no hypothesis at all -/
theorem C08_ops_off (h : Nat) :
    (∀ name, AKeeps true h (aVar name h)) ∧
    (∀ b, AKeeps true h (aConst b h)) ∧
    (∀ op, NonQuant op → ∀ hu hv hw, AKeeps true h (aApply op hu hv hw h)) ∧
    (∀ hg hu hv, AKeeps true h (aIte hg hu hv h)) ∧
    (∀ hu q fa, AKeeps true h (aQuantify hu q fa h)) ∧
    (∀ d, AKeeps true h (aCube d h)) ∧
    (∀ i, AKeeps true h (aAddInt i h)) ∧
    (∀ hu, AKeeps true h (aCopyBddSame hu h)) ∧
    (∀ op, NonQuant op → ∀ hs ho, AKeeps true h (fApply op hs ho h)) ∧
    (∀ high hs, AKeeps true h (fChild high hs h)) ∧
    (∀ hs, AKeeps true h (fCopy hs h)) ∧
    (∀ hu h2, h ≠ h2 → AKeepsL true [h, h2] (aSucc hu h h2)) ∧
    (∀ hs ho, AKeeps0 true (fEq hs ho)) ∧
    (∀ hs ho, AKeeps0 true (fNe hs ho)) ∧
    (∀ hs ho, AKeeps0 true (fLe hs ho)) ∧
    (∀ hs ho, AKeeps0 true (fLt hs ho)) ∧
    AKeeps true h aCollectGarbage ∧
    (∀ r, r ≠ some true → AKeeps true h (aConfigure r)) :=
  ⟨fun n => aVar_keepsOff n h, fun b => aConst_keeps b h,
   fun op hnq hu hv hw => aApply_keepsOff op hnq hu hv hw h,
   fun hg hu hv => aIte_keepsOff hg hu hv h,
   fun hu q fa => aQuantify_keepsOff hu q fa h, fun d => aCube_keepsOff d h,
   fun i => aAddInt_keeps i h, fun hu => aCopyBddSame_keeps hu h,
   fun op hnq hs ho => fApply_keepsOff op hnq hs ho h,
   fun high hs => fChild_keeps high hs h, fun hs => fCopy_keeps hs h,
   fun hu h2 hne => aSucc_keepsL hu h h2 hne,
   fun hs ho => fEq_keeps0 hs ho, fun hs ho => fNe_keeps0 hs ho,
   fun hs ho => fLe_keepsOff hs ho, fun hs ho => fLt_keepsOff hs ho,
   aCollectGarbage_keepsAll h, fun r hr => aConfigure_keeps r (fun _ => hr) h⟩

/-- the operators of `Function` use aliases that do not quantify -/
theorem C08_operator_aliases :
    NonQuant "not" ∧ NonQuant "and" ∧ NonQuant "or" ∧ NonQuant "implies" ∧ NonQuant "equiv" :=
  ⟨nonQuant_not, nonQuant_and, nonQuant_or, nonQuant_implies, nonQuant_equiv⟩

/-! the hypotheses that remain when reordering is not enabled -/

/-- `let` (cofactor / compose / rename) -/
structure LetSpec : Prop where
  letOp : ∀ d u, CoreKeeps true (letOp d u)
/-- `apply` with the aliases that quantify (`\A`, `\E`, `forall`, `exists`) -/
structure ApplyQuantSpec : Prop where
  apply : ∀ op, ¬ NonQuant op → ∀ u v w, CoreKeeps true (apply op u v w)
/-- `image` / `preimage` -/
structure ImageSpec : Prop where
  image : ∀ t s rn q f, CoreKeeps true (image t s rn q f)
  preimage : ∀ t s rn q f, CoreKeeps true (preimage t s rn q f)
/-- `copy_bdd` into another manager -/
structure CopySpec : Prop where
  copyBdd : ∀ src u, CoreKeeps true (copyBdd src u)
/-- `declare` / `add_var` / `copy_vars` -/
structure VarsSpec : Prop where
  declare : ∀ ns, CoreKeeps true (declare ns)
  addVar : ∀ n l, CoreKeeps true (addVar n l)
  copyVars : ∀ src names, CoreKeeps true (copyVarsCore src names)
/-- explicit `reorder` (sifting or a given order) that leaves reordering disabled -/
structure ReorderSpec : Prop where
  reorder : ∀ o, CoreKeeps true (reorder o)

/-- reordering not enabled: the whole list, from the remaining named hypotheses only -/
theorem C08_ops_off_of_rest (hl : LetSpec) (hq : ApplyQuantSpec) (hi : ImageSpec)
    (hcp : CopySpec) (hv : VarsSpec) (hr : ReorderSpec) : C08_ops_statement true :=
  C08_ops_of_coreSpecs
    { var := var_keepsOff
      apply := fun op u v w => by
        by_cases hnq : NonQuant op
        · exact apply_keepsOff op u v w hnq
        · exact hq.apply op hnq u v w
      ite := ite_keepsOff
      letOp := hl.letOp
      quantify := fun m u hm q f => quantify_keepsAtOff m u hm q f
      cube := cube_keepsOff
      image := hi.image
      preimage := hi.preimage
      reorder := hr.reorder
      declare := hv.declare
      addVar := hv.addVar
      copyBdd := hcp.copyBdd
      copyVars := hv.copyVars }

/-- `find_or_add(var, low, high)` has no test of its own: the guarantee holds in every state
in which the core `find_or_add` keeps the invariants for the level and children that the
wrapper reads (documented precondition: level above both children) -/
theorem C08_find_or_add (a : AMgr) (var : String) (hlow hhigh h : Nat)
    (hfoa : ∀ level lo hi, (levelOfVar var a.m).1 = .ok level → (nodeAny hlow a).1 = .ok lo →
      (nodeAny hhigh a).1 = .ok hi → CoreKeepsAt off a.m (findOrAdd level lo hi)) :
    AKeepsAt off a h (aFindOrAdd var hlow hhigh h) :=
  aFindOrAdd_keepsAt a var hlow hhigh h hfoa

/-- the methods that need no hypothesis in ANY mode (reordering enabled or not): `true`/`false`,
`_add_int`, `copy_bdd` into the same manager, `low`/`high`, `copy.copy(f)`, `succ`, `==`, `!=`,
`collect_garbage` -/
theorem C08_ops_unconditional (h : Nat) :
    (∀ b, AKeeps off h (aConst b h)) ∧ (∀ i, AKeeps off h (aAddInt i h)) ∧
    (∀ hu, AKeeps off h (aCopyBddSame hu h)) ∧ (∀ high hs, AKeeps off h (fChild high hs h)) ∧
    (∀ hs, AKeeps off h (fCopy hs h)) ∧
    (∀ hu h2, h ≠ h2 → AKeepsL off [h, h2] (aSucc hu h h2)) ∧
    (∀ hs ho, AKeeps0 off (fEq hs ho)) ∧ (∀ hs ho, AKeeps0 off (fNe hs ho)) ∧
    AKeeps off h aCollectGarbage :=
  ⟨fun b => aConst_keeps b h, fun i => aAddInt_keeps i h, fun hu => aCopyBddSame_keeps hu h,
   fun high hs => fChild_keeps high hs h, fun hs => fCopy_keeps hs h,
   fun hu h2 hne => aSucc_keepsL hu h h2 hne, fun hs ho => fEq_keeps0 hs ho,
   fun hs ho => fNe_keeps0 hs ho, aCollectGarbage_keepsAll h⟩

/-! ### histories -/

/-- histories: through any sequence of operations with the guarantee `AKeepsL` (constructions,
operators, traversals, collections, reorderings; `AKeeps off h x` gives `AKeepsL off [h] x`,
`AKeeps0 off x` gives `AKeepsL off [] x`) and drops of *other* handles in any order, the
invariant holds and every protected live `Function` keeps its node and its meaning.
With `off = true` every operation of `C08_ops_off` qualifies without hypothesis. -/
theorem C08_live_den (P : Nat → Prop) {a a' : AMgr} (hi : AInv off a) (hr : AReach off P a a') :
    AInv off a' ∧ ∀ h, P h → ∀ u, a.handles[h]? = some u →
      a'.handles[h]? = some u ∧ a'.m.tbl.Mem u ∧
      ∀ asg, denN a'.m.tbl u asg = denN a.m.tbl u asg :=
  autoref_live_den P hi hr

/-! ### shutdown -/

/-- all `Function`s dropped, then `collect_garbage()`, then the manager dies: the collection
leaves only the terminal, the shutdown check (`dd.bdd.BDD.__del__`) passes, every count is
zero — no hypothesis, every mode -/
theorem C08_collect_then_shutdown (a : AMgr) (hi : AInv off a) (he : a.handles.isEmpty = true) :
    ∃ m1 m2, collectGarbage none a.m = (.ok (), m1) ∧ (∀ u : Nat, m1.tbl.node? u = none) ∧
      shutdown m1 = (.ok (), m2) ∧ (∀ u : Nat, m2.tbl.node? u = none) ∧
      (∀ (k c : Nat), m2.ref[k]? = some c → c = 0) :=
  autoref_collect_then_shutdown a hi he

/-- shutdown with garbage still stored, unconditional statement -/
def C08_shutdown_statement : Prop :=
  ∀ (off : Bool) (a : AMgr), AInv off a → a.handles.isEmpty = true →
    ∃ m', shutdown a.m = (.ok (), m') ∧ (∀ u : Nat, m'.tbl.node? u = none) ∧
      (∀ (k c : Nat), m'.ref[k]? = some c → c = 0)

/-- … proved from the specification of `collect_garbage` in the state *after* the terminal's
own reference has been released (`collectGarbage_spec` covers the states before) -/
theorem C08_shutdown_of_gcSpec0 (gs : GcSpec0) : C08_shutdown_statement :=
  fun _ a hi he => autoref_shutdown_of_gcSpec0 gs a hi he

/-! ### non-vacuity -/

/-- a fresh `autoref.BDD()` satisfies the invariant (reordering is not enabled in it) -/
theorem AInv.empty : AInv off ({} : AMgr) := by
  refine ⟨Inv.init, fun h u hh => ?_, ⟨fun k => ?_, fun k c hk => ?_, fun k hk => ?_⟩, fun _ => rfl⟩
  · rw [show ({} : AMgr).handles = (∅ : TreeMap Nat Int) from rfl, TreeMap.getElem?_emptyc] at hh
    cases hh
  · show (((∅ : TreeMap Nat Nat).insert 1 1)[k]?).isSome ↔ (k = 1 ∨ ((∅ : TreeMap Nat Nd)[k]?).isSome)
    by_cases hk : k = 1
    · subst hk; simp
    · rw [getElem?_insert_ne _ _ _ _ hk]; simp [hk]
  · have hk' : ((∅ : TreeMap Nat Nat).insert 1 1)[k]? = some c := hk
    by_cases h1 : k = 1
    · subst h1
      rw [TreeMap.getElem?_insert_self] at hk'
      cases hk'
      have hnode : ∀ u : Nat, ({} : AMgr).m.tbl.node? u = none := fun u => by
        show (∅ : TreeMap Nat Nd)[u]? = none
        exact TreeMap.getElem?_emptyc
      rw [indeg_zero_of_no_nodes _ hnode 1]
      show 1 = 0 + hcount (∅ : TreeMap Nat Int) 1 + 1
      rw [hcount_of_isEmpty _ _ TreeMap.isEmpty_emptyc]
    · rw [getElem?_insert_ne _ _ _ _ h1, TreeMap.getElem?_emptyc] at hk'
      cases hk'
  · exact hcount_of_isEmpty _ _ TreeMap.isEmpty_emptyc

/-- a state with a live `Function` (the constant `true` as handle 0) satisfies the invariant:
the hypotheses of `C08_drop`, `C08_live_den` are satisfiable with a non-empty registry -/
example : AInv true (aConst true 0 {}).2 ∧ (aConst true 0 {}).2.handles[(0 : Nat)]? = some 1 := by
  obtain ⟨a', hw, i', _, hh, _⟩ := wrap_spec (off := true) {} 0 1 AInv.empty
    (by show (∅ : TreeMap Nat Int).contains 0 = false; exact TreeMap.contains_emptyc) (Or.inl rfl)
  have : aConst true 0 {} = (.ok 1, a') := by
    show AM.bind' (AM.liftM (pure 1)) (fun r => AM.bind' (wrap 0 r) (fun _ => AM.pure' r)) {} = _
    unfold AM.bind' AM.liftM
    simp only [pure, M.pure']
    rw [show ({ ({} : AMgr) with m := ({} : AMgr).m } : AMgr) = {} from rfl, hw]
    rfl
  rw [this]
  exact ⟨i', by rw [hh]; exact TreeMap.getElem?_insert_self⟩

/-- the hypothesis structure `CoreKeeps` is satisfiable (here: by a read; `ite_keepsOff`,
`apply_keepsOff`, `var_keepsOff`, `gc_keeps` are instances for real operations) -/
example : CoreKeeps off (addInt 1) := CoreKeeps.of_read (addInt_read 1)
example : CoreKeeps true (ite 2 3 4) := ite_keepsOff 2 3 4

/-- the hypotheses of the shutdown theorems are met by a fresh manager -/
example : AInv off ({} : AMgr) ∧ ({} : AMgr).handles.isEmpty = true :=
  ⟨AInv.empty, TreeMap.isEmpty_emptyc⟩

end DD
