/-
  DDProps.C08 — dd.autoref keeps live Functions valid and releases exactly what
  is dropped.

  Model: `DD.AMgr` (a `dd.bdd.BDD` manager + registry of live `Function`s),
  `lean/DD/Auto.lean`.  Invariant `DD.AInv off a`:
      Inv m  ∧  every handle points to a stored node  ∧
      RefExact m (number of live handles on the node), i.e.
      ∀ k, ref k = indeg k + #{h | |handles h| = k} + (if k = 1 then 1 else 0),
      `_ref` has no key outside `_succ`
      ∧ (mode `off = true`) dynamic reordering is not enabled;  the mode `off = false` is EVERY
      configuration: reordering enabled or not, any number of declared variables.

  UNCONDITIONAL (no hypothesis about the core left):
    * registry bookkeeping: `C08_wrap`, `C08_drop`, `C08_drop_wrap_id`, `C08_counts`
    * with reordering not enabled (`off = true`), ARBITRARY arguments: `C08_ops_off` — `var`,
      `true/false`, `apply` (every alias, the quantifiers included), `ite`, `let` (three forms),
      `quantify/exist/forall`, `cube`, `image/preimage` (as state transformers), `_add_int`,
      `copy_bdd` into the same manager, `copy.copy`, the operators `~ & | implies equiv`,
      `== != <= <` (temporaries released), `low/high`, `succ`, `collect_garbage`, `configure`,
      `declare` — and histories over them (`C08_live_den`)
    * methods with a documented precondition, in every state that meets it: `C08_ops_guarded`
      (`add_var` without gap, `find_or_add` under its level guard, `reorder()` with ≥ 2
      variables, `reorder(order)` for a complete order, `copy`/`copy_bdd` into another manager
      whose variables cover the support)
    * in every mode: `C08_ops_unconditional` (no table change) and `collect_garbage`
    * shutdown after "drop everything, collect" (`C08_collect_then_shutdown`)
    * shutdown with garbage still stored (`C08_shutdown`), `copy_vars` into a target without
      nodes (`C08_copy_vars_fresh`)
  `copy_vars` into any target with compatible declarations (`C08_copy_vars`, from C11; with
  incompatible declarations `add_var` raises or leaves a gap, F7: not covered).
  Dynamic reordering ENABLED: `C08_ops_dyn_total` (ARBITRARY arguments, returns or raises; from
  main's `*_total_dyn`), `C08_ops_dyn` / `C08_image_dyn` (well-formed calls, from the C09
  transparency theorems), `C08_find_or_add` (both modes), plus everything of
  `C08_ops_unconditional` / `C08_ops_guarded` that is stated for every mode.
  What the methods RETURN: `DDProps/C08Values.lean`.
-/
import DDProofs.AutoProofs
import DDProofs.AutoTemps
import DDProofs.AutoCore
import DDProofs.AutoImage
import DDProofs.AutoDyn
import DDProofs.AutoCopyVars
import DDProofs.AutoShutdown
import DDProofs.AutoDynTotal
import DDProofs.ImageDynTotal
open Std

namespace DD

variable {off : Bool}

/-- creating a `Function` (`Function.__init__`, `_wrap`) on a stored node with a fresh id:
succeeds, the invariant (count equation included) is kept, the table is untouched -/
theorem C08_wrap (a : AMgr) (h : Nat) (u : Int) (hi : AInv off a)
    (hf : a.handles.contains h = false) (hu : a.m.tbl.Mem u) :
    ∃ a', wrap h u a = (.ok (), a') ∧ wrapF h u a = (.ok (), a') ∧ AInv off a' ∧ a'.m.tbl = a.m.tbl ∧
      a'.handles = a.handles.insert h u := by
  obtain ⟨a1, h1, i1, t1, hh1, _⟩ := wrap_spec a h u hi hf hu
  obtain ⟨a2, h2, _⟩ := wrapF_spec a h u hi hf hu
  have : a2 = a1 := by
    have : wrap h u a = wrapF h u a := by
      unfold wrap; rw [(Mgr.mem_iff a.m u).mpr hu]; rfl
    rw [h1, h2] at this
    cases this; rfl
  subst this
  exact ⟨a2, h1, h2, i1, t1, hh1⟩

/-- dropping a live `Function` (`__del__`): exactly one reference is released, the invariant
(count equation included) is kept, the table is untouched -/
theorem C08_drop (a : AMgr) (h : Nat) (u : Int) (hi : AInv off a) (hh : a.handles[h]? = some u) :
    ∃ a', drop h a = (.ok (), a') ∧ AInv off a' ∧ a'.m.tbl = a.m.tbl ∧
      a'.handles = a.handles.erase h := by
  obtain ⟨a1, h1, i1, t1, hh1, _⟩ := drop_spec a h u hi hh
  exact ⟨a1, h1, i1, t1, hh1⟩

/-- a temporary `Function` (created and dropped again) leaves every count as it was -/
theorem C08_drop_wrap_id (a : AMgr) (h : Nat) (u : Int) (hi : AInv off a)
    (hf : a.handles.contains h = false) (hu : a.m.tbl.Mem u) :
    ∃ a1 a2, wrap h u a = (.ok (), a1) ∧ drop h a1 = (.ok (), a2) ∧ AInv off a2 ∧
      a2.m.tbl = a.m.tbl ∧ (∀ k : Nat, a2.m.ref[k]? = a.m.ref[k]?) ∧
      (∀ j : Nat, a2.handles[j]? = a.handles[j]?) :=
  drop_wrap_id a h u hi hf hu

/-- the count equation in the form of the property statement -/
theorem C08_counts (a : AMgr) (hi : AInv off a) (u : Int) (hu : a.m.tbl.Mem u) :
    a.m.ref[u.natAbs]? =
      some (indeg a.m.tbl u.natAbs + hcount a.handles u.natAbs + (if u.natAbs = 1 then 1 else 0)) :=
  hi.counts.get hu

/-! ### the methods -/

/-- the per-operation guarantee: invariant kept (count equation included), no handle
touched other than the new one(s), every live `Function` keeps its node and its meaning by
variable name, whether the method returns or raises.
`AKeeps off h` : creates at most handle `h`;  `AKeeps0 off` : the registry ends exactly as
it started (temporaries of `<=`, `<` released);  `AKeepsL off [h1, h2]` : `succ`;
`AKeepsAt off a h` : the same for the start state `a` only (methods with a precondition). -/
def C08_ops_list (off : Bool) (h : Nat) : Prop :=
  (∀ name, AKeeps off h (aVar name h)) ∧
  (∀ b, AKeeps off h (aConst b h)) ∧
  (∀ op hu hv hw, AKeeps off h (aApply op hu hv hw h)) ∧
  (∀ hg hu hv, AKeeps off h (aIte hg hu hv h)) ∧
  (∀ d hu, AKeeps off h (aLet d hu h)) ∧
  (∀ hu q fa, AKeeps off h (aQuantify hu q fa h)) ∧
  (∀ d, AKeeps off h (aCube d h)) ∧
  (∀ i, AKeeps off h (aAddInt i h)) ∧
  (∀ hu, AKeeps off h (aCopyBddSame hu h)) ∧
  (∀ pre ht hs rn q fa, AKeeps off h (aImage pre ht hs rn q fa h)) ∧
  (∀ op hs ho, AKeeps off h (fApply op hs ho h)) ∧
  (∀ high hs, AKeeps off h (fChild high hs h)) ∧
  (∀ hs, AKeeps off h (fCopy hs h)) ∧
  (∀ hu h2, h ≠ h2 → AKeepsL off [h, h2] (aSucc hu h h2)) ∧
  (∀ hs ho, AKeeps0 off (fEq hs ho)) ∧
  (∀ hs ho, AKeeps0 off (fNe hs ho)) ∧
  (∀ hs ho, AKeeps0 off (fLe hs ho)) ∧
  (∀ hs ho, AKeeps0 off (fLt hs ho)) ∧
  AKeeps off h aCollectGarbage ∧
  (∀ r, (off = true → r ≠ some true) → AKeeps off h (aConfigure r)) ∧
  (∀ ns, AKeeps off h (aDeclare ns))

/-- reordering NOT enabled: every method of the list, ARBITRARY arguments, no hypothesis.
(`apply` with every alias incl. the quantifiers; `let` in its three forms; `image`/`preimage`
as state transformers — their denotation is C13.) -/
theorem C08_ops_off (h : Nat) : C08_ops_list true h :=
  ⟨fun n => aVar_keepsOff n h, fun b => aConst_keeps b h,
   fun op hu hv hw => aApply_keepsOff op hu hv hw h,
   fun hg hu hv => aIte_keepsOff hg hu hv h,
   fun d hu => aLet_keepsOff d hu h,
   fun hu q fa => aQuantify_keepsOff hu q fa h, fun d => aCube_keepsOff d h,
   fun i => aAddInt_keeps i h, fun hu => aCopyBddSame_keeps hu h,
   fun pre ht hs rn q fa => aImage_keepsOff pre ht hs rn q fa h,
   fun op hs ho => fApply_keepsOff op hs ho h,
   fun high hs => fChild_keeps high hs h, fun hs => fCopy_keeps hs h,
   fun hu h2 hne => aSucc_keepsL hu h h2 hne,
   fun hs ho => fEq_keeps0 hs ho, fun hs ho => fNe_keeps0 hs ho,
   fun hs ho => fLe_keepsOff hs ho, fun hs ho => fLt_keepsOff hs ho,
   aCollectGarbage_keepsAll h, fun r hr => aConfigure_keeps r hr h,
   fun ns => aDeclare_keepsOff ns h⟩

/-- the methods with a documented precondition, reordering not enabled: the guarantee holds
in every state that meets it.
* `add_var(name, level)`: the level leaves no gap (finding F7) — every mode;
* `find_or_add(var, low, high)`: the level of `var` is above both children (the wrapper adds no
  test of its own);
* `reorder()`: at least two variables (with one the code raises `ValueError`) — every mode;
* `reorder(order)`: a complete order of the declared variables — every mode;
* `copy(u, other)` / `copy_bdd(u, other)`: the source satisfies the invariant and every variable
  of the support of `u` is declared in the target. -/
theorem C08_ops_guarded (a : AMgr) (h : Nat) :
    (∀ n l, (∀ l' : Int, l = some l' → a.m.tbl.vars[n]? = none → l' ≤ (a.m.nvars : Int)) →
      AKeepsAt off a h (aAddVar n l)) ∧
    (∀ var hlow hhigh, (∀ level lo hi, (levelOfVar var a.m).1 = .ok level →
        (nodeAny hlow a).1 = .ok lo → (nodeAny hhigh a).1 = .ok hi → FoaGuard a.m level lo hi) →
      AKeepsAt true a h (aFindOrAdd var hlow hhigh h)) ∧
    (2 ≤ a.m.nvars → AKeepsAt off a h (aReorder none)) ∧
    (∀ o, ReqOrder o a.m → AKeepsAt off a h (aReorder (some o))) ∧
    (∀ (src : AMgr) (offS : Bool) hu, AInv offS src →
      (∀ u, (nodeIn hu src).1 = .ok u → CopyPreA src.m.tbl u a.m.tbl) →
      AKeepsAt true a h (aCopyTo src hu h)) ∧
    (∀ (src : AMgr) (offS : Bool) hu, AInv offS src →
      (∀ u, (nodeOwn hu src).1 = .ok u → CopyPreA src.m.tbl u a.m.tbl) →
      AKeepsAt true a h (aCopyBddTo src hu h)) :=
  ⟨fun n l hg => aAddVar_keepsAt' a n l hg h,
   fun var hlow hhigh hg => aFindOrAdd_keepsAtOff a var hlow hhigh h hg,
   fun h2 => aReorder_sift_keepsAt a h2 h,
   fun o ho => aReorder_order_keepsAt a o ho h,
   fun src _ hu hsrc hpre => aCopyTo_keepsAtOff a src hsrc hu h hpre,
   fun src _ hu hsrc hpre => aCopyBddTo_keepsAtOff a src hsrc hu h hpre⟩

/-- the methods that need no hypothesis in ANY mode (reordering enabled or not): `true`/`false`,
`_add_int`, `copy_bdd` into the same manager, `low`/`high`, `copy.copy(f)`, `succ`, `==`, `!=`,
`collect_garbage` -/
theorem C08_ops_unconditional (h : Nat) :
    (∀ b, AKeeps off h (aConst b h)) ∧ (∀ i, AKeeps off h (aAddInt i h)) ∧
    (∀ hu, AKeeps off h (aCopyBddSame hu h)) ∧ (∀ high hs, AKeeps off h (fChild high hs h)) ∧
    (∀ hs, AKeeps off h (fCopy hs h)) ∧
    (∀ hu h2, h ≠ h2 → AKeepsL off [h, h2] (aSucc hu h h2)) ∧
    (∀ hs ho, AKeeps0 off (fEq hs ho)) ∧ (∀ hs ho, AKeeps0 off (fNe hs ho)) ∧
    AKeeps off h aCollectGarbage :=
  ⟨fun b => aConst_keeps b h, fun i => aAddInt_keeps i h, fun hu => aCopyBddSame_keeps hu h,
   fun high hs => fChild_keeps high hs h, fun hs => fCopy_keeps hs h,
   fun hu h2 hne => aSucc_keepsL hu h h2 hne, fun hs ho => fEq_keeps0 hs ho,
   fun hs ho => fNe_keeps0 hs ho, aCollectGarbage_keepsAll h⟩

/-- comparisons with an operand that is not a `Function`, and `f ^ g` (no `__xor__`): nothing
changes in any mode, whatever the answer — `f == None` is `False`, `f != None` is `True`, everything
else raises `NotImplementedError`; `f ^ g` raises `TypeError` -/
theorem C08_function_non_function_operands :
    (∀ op hs x, AKeeps0 off (fCmpOther op hs x)) ∧ (∀ hs ho, AKeeps0 off (fXor hs ho)) ∧
    (∀ (a : AMgr) hs u, a.handles[hs]? = some u →
      fCmpOther "eq" hs .none_ a = (.ok false, a) ∧ fCmpOther "ne" hs .none_ a = (.ok true, a) ∧
      (∀ op, fCmpOther op hs .other a = (.error .notImplemented, a)) ∧
      (∀ x, fCmpOther "le" hs x a = (.error .notImplemented, a)) ∧
      (∀ x, fCmpOther "lt" hs x a = (.error .notImplemented, a)) ∧
      ∀ ho v, a.handles[ho]? = some v → fXor hs ho a = (.error .type, a)) := by
  have hread : ∀ op hs x, ARead (fCmpOther op hs x) := by
    intro op hs x
    unfold fCmpOther
    refine ARead.bind (nodeOwn_read hs) fun _ => ?_
    split
    · exact ARead.pure _
    · split
      · exact ARead.pure _
      · exact ARead.throw _
  have hxor : ∀ hs ho, ARead (fXor hs ho) := by
    intro hs ho
    unfold fXor
    exact ARead.bind (nodeOwn_read hs) fun _ => ARead.bind (nodeAny_read ho) fun _ => ARead.throw _
  refine ⟨fun op hs x => AKeeps0.of_read (hread op hs x), fun hs ho => AKeeps0.of_read (hxor hs ho),
    fun a hs u hu => ?_⟩
  have hown : nodeOwn hs a = (.ok u, a) := by unfold nodeOwn; rw [hu]
  have ev : ∀ op x, fCmpOther op hs x a =
      (if op == "eq" && x == .none_ then (pure false : AM Bool)
       else if op == "ne" && x == .none_ then pure true else AM.throw .notImplemented) a := by
    intro op x
    unfold fCmpOther
    rw [AM.bind_eq, hown]
  refine ⟨by rw [ev]; rfl, by rw [ev]; rfl, fun op => ?_, fun x => by rw [ev]; rfl,
    fun x => by rw [ev]; rfl, fun ho v hv => ?_⟩
  · rw [ev]
    have h1 : (AOther.other == AOther.none_) = false := by decide
    simp only [h1, Bool.and_false, Bool.false_eq_true, if_false]
    rfl
  · have hany : nodeAny ho a = (.ok v, a) := by unfold nodeAny; rw [hv]
    unfold fXor
    rw [AM.bind_eq, hown]
    simp only
    rw [AM.bind_eq, hany]
    rfl

/-- dynamic reordering possibly ENABLED (mode `off = false`: `AInv false` = the invariant with at
least two variables; the reordering request may fire at any node creation, C09): for live
`Function` operands and declared names these methods keep the invariant, every other handle
and the meaning of every live `Function`.
`apply` with a quantifier alias quantifies over the support of its first operand (the names are
declared: C10 + the order invariant); `let` with `Function` values needs the values to be
`Function`s of this manager; `declare` never reorders.
`image` / `preimage` with reordering enabled are in `C08_image_dyn` below (repair of finding
F4c); the raw `find_or_add` is `C08_find_or_add`; arbitrary arguments: `C08_ops_dyn_total`. -/
theorem C08_ops_dyn (a : AMgr) (h : Nat) :
    (∀ hg hu hv, AKeepsAt false a h (aIte hg hu hv h)) ∧
    (∀ op c, docConn op = some c → c.arity = 2 → c ≠ .forall_ → c ≠ .exists_ →
      Gen.allOps.contains op = true → ∀ hu hv, AKeepsAt false a h (aApply op hu (some hv) none h)) ∧
    (∀ op, docConn op = some .ite → Gen.allOps.contains op = true →
      ∀ hu hv hw, AKeepsAt false a h (aApply op hu (some hv) (some hw) h)) ∧
    (∀ name, AKeepsAt false a h (aVar name h)) ∧
    (∀ hu (names : List String) fa, (∀ s ∈ names, a.m.tbl.vars.contains s = true) →
      AKeepsAt false a h (aQuantify hu (names.map Key.name) fa h)) ∧
    (∀ (d : List (String × Bool)), (∀ p ∈ d, a.m.tbl.vars.contains p.1 = true) →
      AKeepsAt false a h (aCube d h)) ∧
    (∀ (vals : List (String × Bool)), vals ≠ [] → (∀ p ∈ vals, a.m.tbl.vars.contains p.1 = true) →
      ∀ hu, AKeepsAt false a h (aLet (.bools (boolKeys vals)) hu h)) ∧
    (∀ (dvars : List (String × String)), dvars ≠ [] → (∀ p ∈ dvars, a.m.tbl.vars.contains p.2 = true) →
      ∀ hu, AKeepsAt false a h (aLet (.names dvars) hu h)) ∧
    (∀ op c, docConn op = some c → c.arity = 2 → c ≠ .forall_ → c ≠ .exists_ →
      Gen.allOps.contains op = true → ∀ hs ho, AKeepsAt false a h (fApply op hs (some ho) h)) ∧
    (∀ op c, docConn op = some c → (c = .forall_ ∨ c = .exists_) → Gen.allOps.contains op = true →
      ∀ hu hv, AKeepsAt false a h (aApply op hu (some hv) none h)) ∧
    (∀ (d : List (String × Nat)), d ≠ [] → (∀ p ∈ d, a.m.tbl.vars.contains p.1 = true) →
      (∀ p ∈ d, ∃ v, a.handles[p.2]? = some v) → ∀ hu, AKeepsAt false a h (aLet (.funs d) hu h)) ∧
    (∀ ns, AKeeps false h (aDeclare ns)) ∧
    (∀ op hs, AKeeps false h (fApply op hs none h)) ∧
    (∀ hs ho, AKeeps0 false (fLe hs ho)) ∧
    (∀ hs ho, AKeeps0 false (fLt hs ho)) ∧
    (∀ (src : AMgr) (offS : Bool) hu, AInv offS src →
      (∀ u, (nodeIn hu src).1 = .ok u → CopyPre src.m.tbl u a.m.tbl) →
      AKeepsAt false a h (aCopyTo src hu h)) :=
  ⟨fun hg hu hv => aIte_keepsAtDyn a hg hu hv h,
   fun op c hc h2 hq1 hq2 hall hu hv => aApply_binary_keepsAtDyn a op c hc h2 hq1 hq2 hall hu hv h,
   fun op hc hall hu hv hw => aApply_ite_keepsAtDyn a op hc hall hu hv hw h,
   fun name => aVar_keepsAtDyn a name h,
   fun hu names fa hd => aQuantify_keepsAtDyn a hu names fa hd h,
   fun d hd => aCube_keepsAtDyn a d hd h,
   fun vals hne hd hu => aLet_bools_keepsAtDyn a vals hne hd hu h,
   fun dvars hne hd hu => aLet_names_keepsAtDyn a dvars hne hd hu h,
   fun op c hc h2 hq1 hq2 hall hs ho => fApply_binary_keepsAtDyn a op c hc h2 hq1 hq2 hall hs ho h,
   fun op c hc hq hall hu hv => aApply_quant_keepsAtDyn a op c hc hq hall hu hv h,
   fun d hne hd hown hu => aLet_funs_keepsAtDyn a d hne hd hown hu h,
   fun ns => aDeclare_keepsAll ns h,
   fun op hs => fApply_unary_keeps op hs h,
   fun hs ho => fLe_keepsDyn hs ho, fun hs ho => fLt_keepsDyn hs ho,
   fun src _ hu hsrc hpre => aCopyTo_keepsAtDyn a src hsrc hu h hpre⟩

/-- dynamic reordering possibly ENABLED, ARBITRARY arguments (the counterpart of `C08_ops_off`; lifted
from main's `ite_total_dyn`, `apply_total_dyn`, `var_total_dyn`, `quantify_total_dyn`,
`letOp_total_dyn`, `cube_total_dyn`, `copyBdd_total_dyn`, `addExpr_total_dyn`): every method of the
list, whatever the handle ids (`Function`s of this manager, of another manager, ids that are not
in use), names (declared or not) and operator strings, whether it returns or raises — with a
reordering fired at any node creation or not — keeps `AInv false` (count equation included),
touches no handle other than the new one, and every live `Function` keeps its node and its
meaning by name.  `copy` / `copy_bdd` INTO this manager from any source state.
`image` / `preimage` with arbitrary arguments (last conjunct) come from `image_total_dyn` /
`preimage_total_dyn` (DDProofs/ImageDynTotal.lean: the arguments are named and validated outside
the decorator, the bodies — fused traversal, or `_copy_bdd` / `ite` / `quantify` in the fallback
of `_preimage_of` — only add nodes); the documented result of well-formed calls is `C08_image_dyn`.
Not in this list: `reorder` / `add_var` / `find_or_add` (preconditions: `C08_ops_guarded`,
`C08_find_or_add`). -/
theorem C08_ops_dyn_total (h : Nat) :
    (∀ name, AKeeps false h (aVar name h)) ∧
    (∀ b, AKeeps false h (aConst b h)) ∧
    (∀ op hu hv hw, AKeeps false h (aApply op hu hv hw h)) ∧
    (∀ hg hu hv, AKeeps false h (aIte hg hu hv h)) ∧
    (∀ d hu, AKeeps false h (aLet d hu h)) ∧
    (∀ hu q fa, AKeeps false h (aQuantify hu q fa h)) ∧
    (∀ d, AKeeps false h (aCube d h)) ∧
    (∀ i, AKeeps false h (aAddInt i h)) ∧
    (∀ hu, AKeeps false h (aCopyBddSame hu h)) ∧
    (∀ e, AKeeps false h (aAddExpr e h)) ∧
    (∀ op hs ho, AKeeps false h (fApply op hs ho h)) ∧
    (∀ high hs, AKeeps false h (fChild high hs h)) ∧
    (∀ hs, AKeeps false h (fCopy hs h)) ∧
    (∀ hu h2, h ≠ h2 → AKeepsL false [h, h2] (aSucc hu h h2)) ∧
    (∀ hs ho, AKeeps0 false (fEq hs ho)) ∧
    (∀ hs ho, AKeeps0 false (fNe hs ho)) ∧
    (∀ hs ho, AKeeps0 false (fLe hs ho)) ∧
    (∀ hs ho, AKeeps0 false (fLt hs ho)) ∧
    AKeeps false h aCollectGarbage ∧
    (∀ r, AKeeps false h (aConfigure r)) ∧
    (∀ ns, AKeeps false h (aDeclare ns)) ∧
    (∀ (src : AMgr) hu, AKeeps false h (aCopyTo src hu h)) ∧
    (∀ (src : AMgr) hu, AKeeps false h (aCopyBddTo src hu h)) ∧
    (∀ pre ht hs rn q fa, AKeeps false h (aImage pre ht hs rn q fa h)) :=
  ⟨fun n => aVar_keepsDynTotal n h, fun b => aConst_keeps b h,
   fun op hu hv hw => aApply_keepsDynTotal op hu hv hw h,
   fun hg hu hv => aIte_keepsDynTotal hg hu hv h,
   fun d hu => aLet_keepsDynTotal d hu h,
   fun hu q fa => aQuantify_keepsDynTotal hu q fa h, fun d => aCube_keepsDynTotal d h,
   fun i => aAddInt_keeps i h, fun hu => aCopyBddSame_keeps hu h,
   fun e => aAddExpr_keepsDynTotal e h,
   fun op hs ho => fApply_keepsDynTotal op hs ho h,
   fun high hs => fChild_keeps high hs h, fun hs => fCopy_keeps hs h,
   fun hu h2 hne => aSucc_keepsL hu h h2 hne,
   fun hs ho => fEq_keeps0 hs ho, fun hs ho => fNe_keeps0 hs ho,
   fun hs ho => fLe_keepsDynTotal hs ho, fun hs ho => fLt_keepsDynTotal hs ho,
   aCollectGarbage_keepsAll h, fun r => aConfigure_keeps (off := false) r (fun hf => Bool.noConfusion hf) h,
   fun ns => aDeclare_keepsAll ns h,
   fun src hu => aCopyTo_keepsDynTotal src hu h, fun src hu => aCopyBddTo_keepsDynTotal src hu h,
   fun pre ht hs rn q fa => aImage_keepsDynTotal pre ht hs rn q fa h⟩

/-- the raw `find_or_add(var, low, high)` of `autoref.BDD` in BOTH modes (it runs outside the
reordering decorator, so it never reorders: `C09_findOrAdd_outside_context`): under its
documented level guard the invariant, the other handles and every live meaning are kept; the
name may be undeclared and the operands need not be live (the method raises) -/
theorem C08_find_or_add (a : AMgr) (var : String) (hlow hhigh h : Nat)
    (hg : ∀ level lo hi, (levelOfVar var a.m).1 = .ok level → (nodeAny hlow a).1 = .ok lo →
      (nodeAny hhigh a).1 = .ok hi → FoaGuard a.m level lo hi) :
    AKeepsAt off a h (aFindOrAdd var hlow hhigh h) :=
  aFindOrAdd_keepsAtAll a var hlow hhigh h hg

/-- reordering possibly enabled, `image` / `preimage` (since the repair of F4c they run inside the
decorator with their arguments turned into names; from `C09_image_transparent` /
`C09_preimage_transparent`): operands live `Function`s, renaming and `qvars` by declared names,
the preconditions by name.  The invariant (count equation included) is kept, no handle other than
the new one is touched, every live `Function` keeps its node and its meaning by name — at
whichever `find_or_add` a reordering is requested. -/
theorem C08_image_dyn (a : AMgr) (h : Nat) (ht hs : Nat) (l : List (String × String))
    (qs : List String) (fa : Bool) :
    ((∀ t s, a.handles[ht]? = some t → a.handles[hs]? = some s → ImagePre t s l qs a.m.tbl) →
      AKeepsAt false a h (aImage false ht hs (l.map fun p => (Key.name p.1, Key.name p.2))
        (qs.map Key.name) fa h)) ∧
    ((∀ s, a.handles[hs]? = some s → PreimagePreN s l qs a.m.tbl) →
      AKeepsAt false a h (aImage true ht hs (l.map fun p => (Key.name p.1, Key.name p.2))
        (qs.map Key.name) fa h)) :=
  ⟨fun hpre => aImage_image_keepsAtDyn a ht hs l qs fa h hpre,
   fun hpre => aImage_preimage_keepsAtDyn a ht hs l qs fa h hpre⟩

/-- non-vacuity (`C08_image_dyn`): the preconditions by name on the C09 example manager -/
example : ImagePre 4 1 [("b", "a")] ["a"] exDyn.tbl ∧ PreimagePreN 1 [("a", "b")] ["b"] exDyn.tbl := by
  constructor
  · refine ⟨by simp, ?_, ?_, ?_, ?_⟩
    · intro p hp
      simp only [List.mem_cons, List.not_mem_nil, or_false] at hp
      subst hp
      exact ⟨by decide, by decide⟩
    · intro s hs
      simp only [List.mem_cons, List.not_mem_nil, or_false] at hs
      subst hs
      decide
    · intro p p' hp hp'
      simp only [List.mem_cons, List.not_mem_nil, or_false] at hp hp'
      subst hp hp'
      decide
    · intro p hp
      simp only [List.mem_cons, List.not_mem_nil, or_false] at hp
      subst hp
      exact Or.inl (by simp)
  · refine ⟨by simp, ?_, ?_, ?_, ?_, ?_⟩
    · intro p hp
      simp only [List.mem_cons, List.not_mem_nil, or_false] at hp
      subst hp
      exact ⟨by decide, by decide⟩
    · intro s hs
      simp only [List.mem_cons, List.not_mem_nil, or_false] at hs
      subst hs
      decide
    · intro p p' hp hp'
      simp only [List.mem_cons, List.not_mem_nil, or_false] at hp hp'
      subst hp hp'
      decide
    · intro p p' hp hp' _
      simp only [List.mem_cons, List.not_mem_nil, or_false] at hp hp'
      rw [hp, hp']
    · intro p _
      exact not_dependsOnN_one _ _

/-- non-vacuity of the mode: the C09 example manager (reordering enabled, two variables) -/
example : DynInv exExt exDyn := exDyn_dynInv

/-- `copy_vars(source, target)` into a target WITHOUT nodes whose declarations are compatible with
the source (a fresh target in particular, `VarsCompat.empty`): every mode.  Afterwards the target
declares exactly the source's variables at the source's levels (C11 `copyVarsCore_spec`). -/
theorem C08_copy_vars_fresh (a : AMgr) (src : Tbl) (hO : OrderOK src) (names : List String)
    (hperm : names.Perm src.vars.keys) (hc : VarsCompat src a.m.tbl)
    (hnone : ∀ u : Nat, a.m.tbl.node? u = none) (h : Nat) :
    AKeepsAt off a h (aCopyVars src names) :=
  aCopyVars_keepsAt_noNodes a src hO names hperm hc hnone h

/-- `copy_vars(source, target)` into ANY target whose declarations are compatible with the source
(`VarsCompat`: every variable the target declares is declared by the source at the same level —
the condition under which `add_var(var, level)` of the loop neither raises nor leaves a gap, F7), the
target possibly storing nodes: every mode, no hypothesis about the core left (discharged by C11
`C11_copy_vars` = `copyVarsCore_spec` + `copyVarsCore_inv`).  The invariant with the count equation
is kept, and every live `Function` keeps its meaning by name. -/
theorem C08_copy_vars (a : AMgr) (src : Tbl) (hO : OrderOK src) (names : List String)
    (hperm : names.Perm src.vars.keys) (hc : VarsCompat src a.m.tbl) (h : Nat) :
    AKeepsAt off a h (aCopyVars src names) :=
  aCopyVars_keepsAt_compat a src hO names hperm hc h

/-- the general form with the core hypothesis (kept for callers that have it) -/
theorem C08_copy_vars_of_core (a : AMgr) (src : Tbl) (names : List String) (h : Nat)
    (hs : CoreKeepsAt off a.m (copyVarsCore src names)) : AKeepsAt off a h (aCopyVars src names) :=
  aCopyVars_keepsAt a src names hs h

/-! ### histories -/

/-- histories: through any sequence of operations with the guarantee `AKeepsL` (constructions,
operators, traversals, collections, reorderings; `AKeeps off h x` gives `AKeepsL off [h] x`,
`AKeeps0 off x` gives `AKeepsL off [] x`) and drops of *other* handles in any order, the
invariant holds and every protected live `Function` keeps its node and its meaning.
With `off = true` every operation of `C08_ops_off` qualifies without hypothesis. -/
theorem C08_live_den (P : Nat → Prop) {a a' : AMgr} (hi : AInv off a) (hr : AReach off P a a') :
    AInv off a' ∧ ∀ h, P h → ∀ u, a.handles[h]? = some u →
      a'.handles[h]? = some u ∧ a'.m.tbl.Mem u ∧
      ∀ asg, denN a'.m.tbl u asg = denN a.m.tbl u asg :=
  autoref_live_den P hi hr

/-! ### shutdown -/

/-- all `Function`s dropped, then `collect_garbage()`, then the manager dies: the collection
leaves only the terminal, the shutdown check (`dd.bdd.BDD.__del__`) passes, every count is
zero — no hypothesis, every mode -/
theorem C08_collect_then_shutdown (a : AMgr) (hi : AInv off a) (he : a.handles.isEmpty = true) :
    ∃ m1 m2, collectGarbage none a.m = (.ok (), m1) ∧ (∀ u : Nat, m1.tbl.node? u = none) ∧
      shutdown m1 = (.ok (), m2) ∧ (∀ u : Nat, m2.tbl.node? u = none) ∧
      (∀ (k c : Nat), m2.ref[k]? = some c → c = 0) :=
  autoref_collect_then_shutdown a hi he

/-- shutdown, the statement of the property: once every `Function` of a manager is gone, the
manager's shutdown check (`dd.bdd.BDD.__del__`: release the terminal's own reference, collect,
assert that every count is zero) passes, whatever garbage is still stored -/
def C08_shutdown_statement : Prop :=
  ∀ (off : Bool) (a : AMgr), AInv off a → a.handles.isEmpty = true →
    ∃ m', shutdown a.m = (.ok (), m') ∧ (∀ u : Nat, m'.tbl.node? u = none) ∧
      (∀ (k c : Nat), m'.ref[k]? = some c → c = 0)

/-- … proved without hypothesis: the collection after the terminal's release is simulated step by
step by the collection of the state with exact counts (`sim_step`, `sim_loop`), to which C06's
`GcRun.spec` applies -/
theorem C08_shutdown : C08_shutdown_statement :=
  fun _ a hi he => autoref_shutdown a hi he

/-! ### non-vacuity -/

/-- a fresh `autoref.BDD()` satisfies the invariant (reordering is not enabled in it) -/
theorem AInv.empty : AInv true ({} : AMgr) := by
  refine ⟨⟨Inv.init, OrderOK.empty, ⟨fun k => ?_, fun k c hk => ?_, fun k hk => ?_⟩, rfl, rfl, rfl,
    fun _ => rfl⟩, fun h u hh => ?_⟩
  rotate_left 3
  · rw [show ({} : AMgr).handles = (∅ : TreeMap Nat Int) from rfl, TreeMap.getElem?_emptyc] at hh
    cases hh
  · show (((∅ : TreeMap Nat Nat).insert 1 1)[k]?).isSome ↔ (k = 1 ∨ ((∅ : TreeMap Nat Nd)[k]?).isSome)
    by_cases hk : k = 1
    · subst hk; simp
    · rw [getElem?_insert_ne _ _ _ _ hk]; simp [hk]
  · have hk' : ((∅ : TreeMap Nat Nat).insert 1 1)[k]? = some c := hk
    by_cases h1 : k = 1
    · subst h1
      rw [TreeMap.getElem?_insert_self] at hk'
      cases hk'
      have hnode : ∀ u : Nat, ({} : AMgr).m.tbl.node? u = none := fun u => by
        show (∅ : TreeMap Nat Nd)[u]? = none
        exact TreeMap.getElem?_emptyc
      rw [indeg_zero_of_no_nodes _ hnode 1]
      show 1 = 0 + hcount (∅ : TreeMap Nat Int) 1 + 1
      rw [hcount_of_isEmpty _ _ TreeMap.isEmpty_emptyc]
    · rw [getElem?_insert_ne _ _ _ _ h1, TreeMap.getElem?_emptyc] at hk'
      cases hk'
  · exact hcount_of_isEmpty _ _ TreeMap.isEmpty_emptyc

/-- the usual script start `b = autoref.BDD(); b.configure(reordering=True); b.declare('x');
f = b.var('x'); g = b.var('x')`: every state is inside the mode `off = false` (which asks nothing
about the number of variables), so `C08_ops_dyn_total` applies from the empty manager on -/
def nvS1 : AMgr := (aConfigure (some true) {}).2
def nvS2 : AMgr := (aDeclare ["x"] nvS1).2
def nvS3 : AMgr := (aVar "x" 0 nvS2).2
def nvS4 : AMgr := (aVar "x" 1 nvS3).2

theorem nvS_inv : AInv false nvS1 ∧ AInv false nvS2 ∧ AInv false nvS3 ∧ AInv false nvS4 ∧
    nvS4.m.lastLen.isSome = true ∧ nvS4.m.nvars = 1 ∧ nvS4.handles.toList = [(0, 2), (1, 2)] := by
  have i1 : AInv false nvS1 :=
    ((C08_ops_dyn_total 99).2.2.2.2.2.2.2.2.2.2.2.2.2.2.2.2.2.2.2.1 (some true) {} AInv.empty.toDyn
      (by decide) _ _ rfl).1
  have i2 : AInv false nvS2 :=
    ((C08_ops_dyn_total 99).2.2.2.2.2.2.2.2.2.2.2.2.2.2.2.2.2.2.2.2.1 ["x"] nvS1 i1
      (by decide +kernel) _ _ rfl).1
  have i3 : AInv false nvS3 := ((C08_ops_dyn_total 0).1 "x" nvS2 i2 (by decide +kernel) _ _ rfl).1
  have i4 : AInv false nvS4 := ((C08_ops_dyn_total 1).1 "x" nvS3 i3 (by decide +kernel) _ _ rfl).1
  exact ⟨i1, i2, i3, i4, by decide +kernel, by decide +kernel, by decide +kernel⟩

/-- a state with a live `Function` (the constant `true` as handle 0) satisfies the invariant:
the hypotheses of `C08_drop`, `C08_live_den` are satisfiable with a non-empty registry -/
example : AInv true (aConst true 0 {}).2 ∧ (aConst true 0 {}).2.handles[(0 : Nat)]? = some 1 := by
  obtain ⟨a', hw, i', _, hh, _⟩ := wrap_spec {} 0 1 AInv.empty
    (by show (∅ : TreeMap Nat Int).contains 0 = false; exact TreeMap.contains_emptyc) (Or.inl rfl)
  have : aConst true 0 {} = (.ok 1, a') := by
    show AM.bind' (AM.liftM (pure 1)) (fun r => AM.bind' (wrap 0 r) (fun _ => AM.pure' r)) {} = _
    unfold AM.bind' AM.liftM
    simp only [pure, M.pure']
    rw [show ({ ({} : AMgr) with m := ({} : AMgr).m } : AMgr) = {} from rfl, hw]
    rfl
  rw [this]
  exact ⟨i', by rw [hh]; exact TreeMap.getElem?_insert_self⟩

/-- the hypothesis structure `CoreKeeps` is satisfiable (here: by a read; `ite_keepsOff`,
`apply_keepsOff`, `var_keepsOff`, `gc_keeps` are instances for real operations) -/
example : CoreKeeps off (addIntA 1) := CoreKeeps.of_read (addIntA_read 1)
example : CoreKeeps true (ite 2 3 4) := ite_keepsOff 2 3 4

/-- the hypotheses of the shutdown theorems are met by a fresh manager -/
example : AInv true ({} : AMgr) ∧ ({} : AMgr).handles.isEmpty = true :=
  ⟨AInv.empty, TreeMap.isEmpty_emptyc⟩

/-! ### non-vacuity on a state with variables, nodes, several handles, a drop and a collection

`bdd = autoref.BDD(); bdd.declare('a', 'b', 'c'); fa = bdd.var('a'); fb = bdd.var('b');
fx = bdd.apply('xor', fa, fb); del fa; bdd.collect_garbage()` — handles `0 ↦ 2` (`a`),
`1 ↦ 3` (`b`), `2 ↦ -4` (`a xor b`, a complemented edge); the collection removes node 2. -/

def nvA1 : AMgr := (aDeclare ["a", "b", "c"] {}).2
def nvA2 : AMgr := (aVar "a" 0 nvA1).2
def nvA3 : AMgr := (aVar "b" 1 nvA2).2
def nvA4 : AMgr := (aApply "xor" 0 (some 1) none 2 nvA3).2
def nvA5 : AMgr := (drop 0 nvA4).2
def nvA6 : AMgr := (aCollectGarbage nvA5).2

theorem nvA1_inv : AInv true nvA1 :=
  ((C08_ops_off 99).2.2.2.2.2.2.2.2.2.2.2.2.2.2.2.2.2.2.2.2 ["a", "b", "c"] {} AInv.empty
    (by decide) _ _ rfl).1
theorem nvA2_inv : AInv true nvA2 := ((C08_ops_off 0).1 "a" nvA1 nvA1_inv (by decide) _ _ rfl).1
theorem nvA3_inv : AInv true nvA3 :=
  ((C08_ops_off 1).1 "b" nvA2 nvA2_inv (by decide +kernel) _ _ rfl).1
theorem nvA4_inv : AInv true nvA4 :=
  ((C08_ops_off 2).2.2.1 "xor" 0 (some 1) none nvA3 nvA3_inv (by decide +kernel) _ _ rfl).1
theorem nvA4_h0 : nvA4.handles[(0 : Nat)]? = some 2 := by decide +kernel
theorem nvA4_h1 : nvA4.handles[(1 : Nat)]? = some 3 := by decide +kernel
theorem nvA4_h2 : nvA4.handles[(2 : Nat)]? = some (-4) := by decide +kernel
theorem nvA4_f3 : nvA4.handles.contains 3 = false := by decide +kernel

/-- what the state looks like: three stored nodes, three handles, counts 2 = one handle + one
in-edge … -/
example : nvA4.m.tbl.succ.toList.map (fun (k, n) => (k, n.lvl, n.lo, n.hi)) =
      [(2, 0, -1, 1), (3, 1, -1, 1), (4, 0, -3, 3)] ∧
    nvA4.m.ref.toList = [(1, 5), (2, 1), (3, 3), (4, 1)] := by decide +kernel

/-- the count equation (`C08_counts`) on a non-terminal node with two in-edges and a handle -/
example : nvA4.m.ref[(3 : Nat)]? = some (indeg nvA4.m.tbl 3 + hcount nvA4.handles 3 + 0) := by
  have := C08_counts nvA4 nvA4_inv 3 (Or.inr (by decide +kernel))
  simpa using this

/-- `del fa` (`C08_drop`) -/
theorem nvA5_inv : AInv true nvA5 := by
  obtain ⟨a', he, i', _⟩ := C08_drop nvA4 0 2 nvA4_inv nvA4_h0
  have : nvA5 = a' := by show (drop 0 nvA4).2 = a'; rw [he]
  rw [this]; exact i'
theorem nvA5_h2 : nvA5.handles[(2 : Nat)]? = some (-4) := by decide +kernel

/-- the history "drop `fa`, collect" protects `fx` (handle 2): `C08_live_den` applies, the
collection really removes a node (node 2 is gone, node 3 keeps count 3) -/
theorem nvA_history : AReach true (· = 2) nvA4 nvA6 :=
  .step (.step (.refl _) (.drop 0 (by decide) nvA4 nvA5 2 nvA4_h0
      (by obtain ⟨a', he, _⟩ := C08_drop nvA4 0 2 nvA4_inv nvA4_h0
          have : nvA5 = a' := by show (drop 0 nvA4).2 = a'; rw [he]
          rw [this]; exact he)))
    (.op [99] aCollectGarbage nvA5 ((aCollectGarbage_keepsAll 99).toL.at nvA5)
      (fun h hh => by
        rcases List.mem_cons.mp hh with rfl | hh
        · decide +kernel
        · cases hh) (aCollectGarbage nvA5).1 nvA6 rfl)

example : AInv true nvA6 ∧ nvA6.handles[(2 : Nat)]? = some (-4) ∧
    (∀ σ, denN nvA6.m.tbl (-4) σ = denN nvA4.m.tbl (-4) σ) ∧
    nvA6.m.tbl.node? 2 = none ∧ nvA6.m.ref[(3 : Nat)]? = some 3 := by
  obtain ⟨i6, h⟩ := C08_live_den (· = 2) nvA4_inv nvA_history
  obtain ⟨h2, _, hd⟩ := h 2 rfl (-4) nvA4_h2
  exact ⟨i6, h2, hd, by decide +kernel, by decide +kernel⟩

/-- after the remaining `Function`s are dropped the shutdown theorem applies to this state -/
example : ∃ m', shutdown ((drop 2 (drop 1 nvA6).2).2).m = (.ok (), m') ∧
    (∀ u : Nat, m'.tbl.node? u = none) := by
  obtain ⟨i6, h⟩ := C08_live_den (· = 2) nvA4_inv nvA_history
  obtain ⟨a7, he7, i7, _, hh7⟩ := C08_drop nvA6 1 3 i6 (by decide +kernel)
  obtain ⟨a8, he8, i8, _, hh8⟩ := C08_drop a7 2 (-4) i7
    (by rw [hh7, getElem?_erase_ne _ _ _ (by decide)]; exact (h 2 rfl (-4) nvA4_h2).1)
  have e : (drop 2 (drop 1 nvA6).2).2 = a8 := by rw [he7]; show (drop 2 a7).2 = a8; rw [he8]
  rw [e]
  obtain ⟨m', hm, hn, _⟩ := C08_shutdown true a8 i8 (by
    rw [hh8, hh7]; decide +kernel)
  exact ⟨m', hm, hn⟩

end DD
