/-
  DDProps.C02Copy — C02 / C11 for `copy.copy(bdd)`: a route by which functions reach another
  manager ("by loading or copying").
-/
import DDProofs.MgrCopyProofs
import DDProofs.UsedObs
namespace DD
open Std

local notation "⟪" ops "⟫" => run ops St.init

/-- C02 / C11 (`BDD.__copy__`): the copy of a manager in a good state (every reachable state:
`reachable_inv`) is a manager in a good state — canonical, counts exact for the same ledger — with
the same nodes under the same numbers, so every reference means in the copy what it means in the
original; its computed table starts empty (nothing remembered in one manager can be read in the
other: the two allocate node numbers independently from then on). -/
theorem C02_manager_copy (m : Mgr) (ext : Nat → Nat) (h : GoodState m ext) :
    ∃ b, mgrCopy m = .ok b ∧ b.tbl = m.tbl ∧ b.cache.isEmpty = true ∧ GoodState b ext ∧
      (∀ u a, den b.tbl u a = den m.tbl u a) ∧
      (∀ u v, b.tbl.Mem u → b.tbl.Mem v → (u = v ↔ ∀ a, den b.tbl u a = den b.tbl v a)) := by
  obtain ⟨b, he, ht, _, _, _, _, hc, hg, hd⟩ := mgrCopy_spec m ext h.inv h.order h.exact
  refine ⟨b, he, ht, hc, hg, hd, fun u v hu hv => ?_⟩
  exact (canonical b.tbl hg.inv.wf u v hu hv).symm

/-- after any history -/
theorem C02_manager_copy_every_history (ops : List UOp) (hg : OpsGuarded ops St.init) :
    ∃ b, mgrCopy ⟪ops⟫.m = .ok b ∧ GoodState b ⟪ops⟫.ext ∧ b.tbl = ⟪ops⟫.m.tbl :=
  let ⟨b, he, ht, _, hgd, _, _⟩ := C02_manager_copy _ _ (reachable_inv ops hg)
  ⟨b, he, hgd, ht⟩

/-- non-vacuity: the empty manager -/
example : ∃ b, mgrCopy ({} : Mgr) = .ok b ∧ b.tbl = ({} : Mgr).tbl :=
  let ⟨b, he, ht, _⟩ := C02_manager_copy {} St.init.ext (reachable_inv [] (by trivial))
  ⟨b, he, ht⟩

/-! ### non-vacuity on a USED manager (`usedM`: levels c, a, d, b — not the order of the names —,
thirteen nodes, 4 = `a ∧ b` held once, 13 = `ite(c ≡ d, a ∧ b, ¬b)` held twice, garbage, a warm
computed table) -/

/-- the theorem on the used state and on the history that reaches it -/
example : (∃ b, mgrCopy usedM = .ok b ∧ b.tbl = usedM.tbl ∧ b.cache.isEmpty = true ∧
      GoodState b usedExt ∧ (∀ u a, den b.tbl u a = den usedM.tbl u a) ∧
      (∀ u v, b.tbl.Mem u → b.tbl.Mem v → (u = v ↔ ∀ a, den b.tbl u a = den b.tbl v a))) ∧
    (∃ b, mgrCopy ⟪usedHistory⟫.m = .ok b ∧ GoodState b ⟪usedHistory⟫.ext ∧
      b.tbl = ⟪usedHistory⟫.m.tbl) :=
  ⟨C02_manager_copy usedM usedExt usedM_good,
   C02_manager_copy_every_history usedHistory usedHistory_guarded⟩

/-- evaluated: the copy has the thirteen nodes under the same numbers, the same reference counts
(4 held once, 13 twice), the same tables for `f`, `¬(a ∧ b)` and the garbage node — and an EMPTY
computed table although the original's is warm; then the two managers diverge independently:
`c ∧ b` built in the copy gets number 15 there, the original still has thirteen nodes -/
example : (match mgrCopy usedM with
    | .ok b => some (b.tbl.succ.keys, b.tbl.vars.toList)
    | .error _ => none) =
    some ([2, 3, 4, 5, 6, 7, 8, 9, 10, 11, 12, 13, 14],
      [("a", 1), ("b", 3), ("c", 0), ("d", 2)]) := by decide +kernel

example : (match mgrCopy usedM with
    | .ok b => some (b.ref[4]?, b.ref[13]?, b.ref[14]?, b.cache.isEmpty, usedM.cache.isEmpty)
    | .error _ => none) = some (some 1, some 2, some 0, true, false) := by decide +kernel

example : (match mgrCopy usedM with
    | .ok b => some (tt4 b.tbl 13 == tt4 usedM.tbl 13, tt4 b.tbl (-4) == tt4 usedM.tbl (-4),
        tt4 b.tbl 14 == tt4 usedM.tbl 14)
    | .error _ => none) = some (true, true, true) := by decide +kernel

example : (match mgrCopy usedM with
    | .ok b => some ((apply "and" 5 (some 3) none b).1.toOption,
        (apply "and" 5 (some 3) none b).2.tbl.succ.keys.length, usedM.tbl.succ.keys.length)
    | .error _ => none) = some (some 15, 14, 13) := by decide +kernel

end DD
