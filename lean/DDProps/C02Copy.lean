/-
  DDProps.C02Copy — C02 / C11 for `copy.copy(bdd)`: a route by which functions reach another
  manager ("by loading or copying").
-/
import DDProofs.MgrCopyProofs
namespace DD
open Std

local notation "⟪" ops "⟫" => run ops St.init

/-- C02 / C11 (`BDD.__copy__`): the copy of a manager in a good state (every reachable state:
`reachable_inv`) is a manager in a good state — canonical, counts exact for the same ledger — with
the same nodes under the same numbers, so every reference means in the copy what it means in the
original; its computed table starts empty (nothing remembered in one manager can be read in the
other: the two allocate node numbers independently from then on). -/
theorem C02_manager_copy (m : Mgr) (ext : Nat → Nat) (h : GoodState m ext) :
    ∃ b, mgrCopy m = .ok b ∧ b.tbl = m.tbl ∧ b.cache.isEmpty = true ∧ GoodState b ext ∧
      (∀ u a, den b.tbl u a = den m.tbl u a) ∧
      (∀ u v, b.tbl.Mem u → b.tbl.Mem v → (u = v ↔ ∀ a, den b.tbl u a = den b.tbl v a)) := by
  obtain ⟨b, he, ht, _, _, _, _, hc, hg, hd⟩ := mgrCopy_spec m ext h.inv h.order h.exact
  refine ⟨b, he, ht, hc, hg, hd, fun u v hu hv => ?_⟩
  exact (canonical b.tbl hg.inv.wf u v hu hv).symm

/-- after any history -/
theorem C02_manager_copy_every_history (ops : List UOp) (hg : OpsGuarded ops St.init) :
    ∃ b, mgrCopy ⟪ops⟫.m = .ok b ∧ GoodState b ⟪ops⟫.ext ∧ b.tbl = ⟪ops⟫.m.tbl :=
  let ⟨b, he, ht, _, hgd, _, _⟩ := C02_manager_copy _ _ (reachable_inv ops hg)
  ⟨b, he, hgd, ht⟩

/-- non-vacuity: the empty manager -/
example : ∃ b, mgrCopy ({} : Mgr) = .ok b ∧ b.tbl = ({} : Mgr).tbl :=
  let ⟨b, he, ht, _⟩ := C02_manager_copy {} St.init.ext (reachable_inv [] (by trivial))
  ⟨b, he, ht⟩

end DD
