/-
  DDProps.C08AcceptLe — C08 (acceptance): `Function.__le__` / `__lt__` of `dd.autoref`, ANY operands,
  from the state between two calls with two variables: for every valid choice of iteration orders
  there is a schedule — the record of the choice-driven comparison (DD.AutoChoiceLe) — with which the
  driver's execution does what the choice-driven comparison does, consumes it, and does not answer
  `MODEL-SCHEDULE-MISMATCH`.  (The one call that can reorder, `other | ~self`, runs after the
  temporary `Function` `~self` was made: the session state in between still satisfies the
  invariant.)
-/
import DDProofs.SchedAcceptAutoLe
import DDProps.C08AcceptMore
open Std

namespace DD

theorem C08_le_lt_accept_every_choice (a : AMgr) (hi : AInv false a) (h2 : Two false a)
    (c : Choice) (hc : c.Valid) (hs ho : Nat) :
    RunAccepts (fLeC c hs ho) (fLe hs ho) a ∧ RunAccepts (fLtC c hs ho) (fLt hs ho) a :=
  ⟨.of (fLe_accepts c hc a hi h2 hs ho), .of (fLt_accepts c hc a hi h2 hs ho)⟩

/-- the hypotheses hold of `exAutoS` (DDProps.C08Sched: reordering enabled, a request due, which
fires inside `fx | ~fb`; evaluating the model there gives a record of fourteen items, the answer
`False`, and no temporary `Function` left — `TreeMap.maxKey?` in `freshH` does not reduce in the
kernel, so that computation is not restated as a `decide` here) -/
example : RunAccepts (fLeC Choice.rev 1 2) (fLe 1 2) exAutoS :=
  (C08_le_lt_accept_every_choice exAutoS exAutoS_inv exAutoS_two Choice.rev Choice.rev_valid 1 2).1

end DD
