/-
  DDProps.Histories2 — the "for EVERY history" capstone with REORDERINGS in the history
  (C01, C02, C06, C07, C14, C17).

  DDProps.Histories quantifies over lists of `UOp` — no reordering.  Here a history is a list of
  `UOp2` (DDProofs.Reach2): every `UOp` with arbitrary arguments, plus `bdd.swap(x, y)` (any names
  or levels), `reorder(bdd)` (sifting, any number of variables), `reorder(bdd, order)` (any
  dictionary) and `undeclare_vars(*names)` (any names) — accepted or REJECTED, each reordering
  with any recorded iteration order `sch` of the Python sets it walks through.  `Ops2Guarded` asks
  for the three caller obligations of DDProps.Histories and, for a reordering with a recorded
  schedule, that the model does not answer `MODEL-SCHEDULE-MISMATCH` (never the case for
  `sch = []`: `guard2_default`).  `reachable2_inv` gives `Good2` (= `GoodState`, no schedule
  left, no registered roots) after every such history; levels move under reorderings, so
  "keeps its meaning" is stated by variable NAME (`denN`).  `⟪ops⟫` is the state (manager +
  ledger of user-held references) after `ops`, from the empty manager.

  Part 2 (dynamic reordering ENABLED in the history) is at the end: `UOp3` adds `configure`.
-/
import DDProofs.Reach2
import DDProofs.Reach3
import DDProps.C09
namespace DD

local notation "⟪" ops "⟫" => run2 ops St.init

/-! ### C02 — canonicity in every reachable state -/

/-- C02: after ANY history — level swaps, siftings, reorderings to an order, removals of
variables, collections, rejected calls — two references are equal exactly when they denote the
same function of the variable NAMES (and exactly when they denote the same function of the
levels of the order the manager is in) -/
theorem C02_canonical_every_history2 (ops : List UOp2) (hg : Ops2Guarded ops St.init) (u v : Int)
    (hu : ⟪ops⟫.m.tbl.Mem u) (hv : ⟪ops⟫.m.tbl.Mem v) :
    ((∀ σ, denN ⟪ops⟫.m.tbl u σ = denN ⟪ops⟫.m.tbl v σ) ↔ u = v) ∧
    ((∀ a, den ⟪ops⟫.m.tbl u a = den ⟪ops⟫.m.tbl v a) ↔ u = v) :=
  ⟨canonical_by_name (reachable2_inv ops hg) u v hu hv,
   canonical _ (reachable2_inv ops hg).good.inv.wf u v hu hv⟩

/-- C02 ("every route", across time AND across orders): a reference `u` the user holds since the
prefix `pre` and does not release; ANY continuation `post` — reorderings included — that ends
with a node `v` denoting, by name, what `u` denoted back then has `v = u` -/
theorem C02_routes_agree_held2 (pre post : List UOp2) (hg : Ops2Guarded (pre ++ post) St.init) (u v : Int)
    (hheld : ∀ p q, post = p ++ q → 0 < (run2 p ⟪pre⟫).ext u.natAbs)
    (hv : ⟪pre ++ post⟫.m.tbl.Mem v)
    (hsame : ∀ σ, denN ⟪pre ++ post⟫.m.tbl v σ = denN ⟪pre⟫.m.tbl u σ) : v = u := by
  have hg' := (ops2Guarded_append pre post St.init).mp hg
  have hpre := reachable2_inv pre hg'.1
  obtain ⟨hm, hd⟩ := run2_held post ⟪pre⟫ hpre hg'.2 u hheld
  rw [← run2_append] at hm hd
  exact (canonical_by_name (reachable2_inv (pre ++ post) hg) v u hv hm).mp
    (fun σ => (hsame σ).trans (hd σ).symm)

/-! ### C06 — exact counts in every reachable state -/

theorem collectGarbage_good2 (m : Mgr) (ext : Nat → Nat) (h : Good2 m ext) :
    ∃ m', collectGarbage none m = (.ok (), m') ∧ GcFullPost m ext m' ∧ Good2 m' ext := by
  obtain ⟨m', he, hp, hgood⟩ := collectGarbage_good m ext h.good
  exact ⟨m', he, hp, hgood, hp.sub.sched.trans h.sched, hp.sub.roots.trans h.roots⟩

/-- C06: after ANY history (reorderings included) the counters are exact w.r.t. the user's ledger,
and a collection at that point succeeds, leaves EXACTLY the nodes reachable from a held node
(unchanged, same functions), keeps the counts exact and empties the computed table -/
theorem C06_counts_exact_every_history2 (ops : List UOp2) (hg : Ops2Guarded ops St.init) :
    RefExact ⟪ops⟫.m ⟪ops⟫.ext ∧
    ∃ m', collectGarbage none ⟪ops⟫.m = (.ok (), m') ∧ Good2 m' ⟪ops⟫.ext ∧
      (∀ u n, m'.tbl.node? u = some n ↔
        (⟪ops⟫.m.tbl.node? u = some n ∧ GcReach ⟪ops⟫.m.tbl (GcHeld ⟪ops⟫.ext) u)) ∧
      (∀ (u : Int), m'.tbl.Mem u → ∀ a, den m'.tbl u a = den ⟪ops⟫.m.tbl u a) ∧
      (∀ (u c : Nat), m'.ref[u]? = some c → 0 < c) ∧
      (∀ key : List Int, m'.cache[key]? = none) := by
  have hG := reachable2_inv ops hg
  obtain ⟨m', he, hp, hgood⟩ := collectGarbage_good2 _ _ hG
  refine ⟨hG.good.exact, m', he, hgood, hp.nodes hG.good.inv.toInvS, fun u hu a => hp.den_eq u hu a, ?_,
    collectGarbage_ok_cache none _ m' he⟩
  intro u c hc
  cases c with
  | zero => exact absurd hc (hp.noZero u)
  | succ c => omega

/-- C06: a reference the user holds is never freed and never changes meaning (by name), whatever
the next call is — a collection, a reordering, the user's own `decref` — and its counter is again
stored edges + the user's references for the ledger after the call -/
theorem C06_held_every_history2 (ops : List UOp2) (hg : Ops2Guarded ops St.init) (op : UOp2)
    (hop : OpGuard2 ⟪ops⟫.m ⟪ops⟫.ext op) (u : Int) (hu : 0 < ⟪ops⟫.ext u.natAbs) :
    ⟪ops⟫.m.tbl.Mem u ∧ (step2 op ⟪ops⟫).m.tbl.Mem u ∧
    (∀ σ, denN (step2 op ⟪ops⟫).m.tbl u σ = denN ⟪ops⟫.m.tbl u σ) ∧
    (step2 op ⟪ops⟫).m.ref[u.natAbs]? =
      some (indeg (step2 op ⟪ops⟫).m.tbl u.natAbs + (step2 op ⟪ops⟫).ext u.natAbs +
        (if u.natAbs = 1 then 1 else 0)) :=
  step2_held _ _ op (reachable2_inv ops hg) hop u hu

/-! ### C07 — reorderings after every history -/

/-- the reordering calls -/
def UOp2.IsReorder (op : UOp2) : Prop :=
  (∃ sch x y, op = .swap sch x y) ∨ (∃ sch, op = .sift sch) ∨ (∃ sch o, op = .reorderTo sch o)

/-- C07 as a statement about histories: after ANY history, a level swap (any two names or levels),
a sifting (any number of variables), a reordering to a given order (any dictionary) — for every
recorded iteration order the model does not reject, and whether the call returns or raises —
leaves a good state with the SAME ledger and the same declared variables, and every reference
the user holds is a node before and after, under the same number, denotes the same function of
the variable names, and has the counter `stored edges + the user's references` -/
theorem C07_held_every_history2 (ops : List UOp2) (hg : Ops2Guarded ops St.init) (op : UOp2)
    (hre : op.IsReorder) (hop : OpGuard2 ⟪ops⟫.m ⟪ops⟫.ext op) :
    Good2 (step2 op ⟪ops⟫).m ⟪ops⟫.ext ∧ (step2 op ⟪ops⟫).ext = ⟪ops⟫.ext ∧
    (∀ s, (step2 op ⟪ops⟫).m.tbl.vars.contains s = ⟪ops⟫.m.tbl.vars.contains s) ∧
    (step2 op ⟪ops⟫).m.nvars = ⟪ops⟫.m.nvars ∧
    ∀ u : Int, 0 < ⟪ops⟫.ext u.natAbs →
      ⟪ops⟫.m.tbl.Mem u ∧ (step2 op ⟪ops⟫).m.tbl.Mem u ∧
      (∀ σ, denN (step2 op ⟪ops⟫).m.tbl u σ = denN ⟪ops⟫.m.tbl u σ) ∧
      (step2 op ⟪ops⟫).m.ref[u.natAbs]? =
        some (indeg (step2 op ⟪ops⟫).m.tbl u.natAbs + ⟪ops⟫.ext u.natAbs +
          (if u.natAbs = 1 then 1 else 0)) := by
  have hG := reachable2_inv ops hg
  obtain ⟨h', hrel⟩ := reorder_step _ _ hG op hop hre
  have hl : (step2 op ⟪ops⟫).ext = ⟪ops⟫.ext := by
    rcases hre with ⟨sch, x, y, rfl⟩ | ⟨sch, rfl⟩ | ⟨sch, o, rfl⟩ <;> rfl
  refine ⟨h', hl, hrel.names, hrel.nvars, fun u hu => ?_⟩
  have := step2_held _ _ op hG hop u hu
  have hl' : ledger2 op ⟪ops⟫.m ⟪ops⟫.ext = ⟪ops⟫.ext := hl
  rw [hl'] at this
  exact this

/-- C07 (what the accepted calls do), after ANY history: `swap` on two adjacent levels exchanges
exactly the two names -/
theorem C07_swap_every_history2 (ops : List UOp2) (hg : Ops2Guarded ops St.init)
    (sch : List SchedItem) (xa ya : VarOrLevel) (x a b : Nat) (hx : x + 1 < ⟪ops⟫.m.nvars)
    (ha : Resolves ⟪ops⟫.m xa a) (hb : Resolves ⟪ops⟫.m ya b)
    (hab : (a = x ∧ b = x + 1) ∨ (a = x + 1 ∧ b = x))
    (hop : OpGuard2 ⟪ops⟫.m ⟪ops⟫.ext (.swap sch xa ya)) :
    (runOp2 (.swap sch xa ya) ⟪ops⟫.m).1 = .ok .unit ∧
    ∀ j, (step2 (.swap sch xa ya) ⟪ops⟫).m.tbl.l2v[j]? = ⟪ops⟫.m.tbl.l2v[swp x (x + 1) j]? := by
  have hG := reachable2_inv ops hg
  have hR := hG.reorderInv sch
  have h := swap_public_spec ⟪ops⟫.ext { ⟪ops⟫.m with sched := sch } hR xa ya x a b hx ha hb hab
  have hne := isSchedErr_false hop
  show (mapRes _ (swap xa ya false { ⟪ops⟫.m with sched := sch })).1 = _ ∧
    ∀ j, (swap xa ya false { ⟪ops⟫.m with sched := sch }).2.tbl.l2v[j]? = _
  generalize swap xa ya false { ⟪ops⟫.m with sched := sch } = res at h hne
  obtain ⟨r, m'⟩ := res
  cases r with
  | error e => exact absurd (by rw [show e = Err.sched from h]) hne
  | ok r => exact ⟨rfl, h.2.2.1.l2v⟩

/-- C07, after ANY history: `reorder(bdd, order)` with a bijective `order` reaches exactly it -/
theorem C07_reorderTo_every_history2 (ops : List UOp2) (hg : Ops2Guarded ops St.init)
    (sch : List SchedItem) (order : List (String × Int)) (ho : ReqOrder order ⟪ops⟫.m)
    (hop : OpGuard2 ⟪ops⟫.m ⟪ops⟫.ext (.reorderTo sch order)) :
    (runOp2 (.reorderTo sch order) ⟪ops⟫.m).1 = .ok .unit ∧
    ∀ v p, order.lookup v = some p → ⟪ops⟫.m.tbl.vars.contains v = true →
      (step2 (.reorderTo sch order) ⟪ops⟫).m.tbl.vars[v]? = some p.toNat ∧
      (step2 (.reorderTo sch order) ⟪ops⟫).m.tbl.l2v[p.toNat]? = some v := by
  have hG := reachable2_inv ops hg
  have hR := hG.reorderInv sch
  have ho' : ReqOrder order { ⟪ops⟫.m with sched := sch } := ⟨ho.len, ho.cover, ho.range, ho.inj⟩
  have h := sortToOrder_exact (swapOK ⟪ops⟫.ext) order { ⟪ops⟫.m with sched := sch } hR ho'
  have hne := isSchedErr_false hop
  show (mapRes (fun _ => Res.unit) (sortToOrder order { ⟪ops⟫.m with sched := sch })).1 = .ok .unit ∧
    ∀ (v : String) (p : Int), order.lookup v = some p → ⟪ops⟫.m.tbl.vars.contains v = true →
      (sortToOrder order { ⟪ops⟫.m with sched := sch }).2.tbl.vars[v]? = some p.toNat ∧
      (sortToOrder order { ⟪ops⟫.m with sched := sch }).2.tbl.l2v[p.toNat]? = some v
  have hne' : (sortToOrder order { ⟪ops⟫.m with sched := sch }).1 ≠ .error .sched := hne
  generalize sortToOrder order { ⟪ops⟫.m with sched := sch } = res at h hne'
  obtain ⟨r, m'⟩ := res
  cases r with
  | error e => exact absurd (by rw [show e = Err.sched from h]) hne'
  | ok r => exact ⟨rfl, h.2.2.2⟩

/-- C07, after ANY history: sifting with at least two variables returns normally (none of its
size assertions can fire) and leaves no unreferenced node -/
theorem C07_sift_every_history2 (ops : List UOp2) (hg : Ops2Guarded ops St.init)
    (sch : List SchedItem) (h2 : 2 ≤ ⟪ops⟫.m.nvars)
    (hop : OpGuard2 ⟪ops⟫.m ⟪ops⟫.ext (.sift sch)) :
    (runOp2 (.sift sch) ⟪ops⟫.m).1 = .ok .unit ∧ NoGarbage (step2 (.sift sch) ⟪ops⟫).m := by
  have hG := reachable2_inv ops hg
  have hR := hG.reorderInv sch
  have h := applySifting_never_raises ⟪ops⟫.ext { ⟪ops⟫.m with sched := sch } hR h2
  have hne := isSchedErr_false hop
  show (mapRes _ (applySifting { ⟪ops⟫.m with sched := sch })).1 = _ ∧
    NoGarbage { (applySifting { ⟪ops⟫.m with sched := sch }).2 with sched := [] }
  have hne' : (applySifting { ⟪ops⟫.m with sched := sch }).1 ≠ .error .sched := hne
  generalize applySifting { ⟪ops⟫.m with sched := sch } = res at h hne'
  obtain ⟨r, m'⟩ := res
  cases r with
  | error e => exact absurd (by rw [show e = Err.sched from h]) hne'
  | ok r => exact ⟨rfl, h.1.2⟩

/-! ### C17 — a rejected call leaves everything intact, and what follows behaves normally -/

/-- C17: after ANY history, a call that raises — an embedded operation with any argument, a
`swap` of non-adjacent levels or unknown names (after its collection), sifting fewer than two
variables, a reordering to a dictionary that is no bijection (after some swaps), the removal of
a variable in use — leaves a good state: the ledger is untouched, the declared variables are the
same, every reference the user holds is a node with the same function of the variable names; an
embedded operation has only added nodes (`Kept`); hence EVERY theorem applies to the next call,
whatever it is, and a collection right after the failure behaves normally -/
theorem C17_error_then_normal2 (ops : List UOp2) (hg : Ops2Guarded ops St.init) (op : UOp2)
    (hop : OpGuard2 ⟪ops⟫.m ⟪ops⟫.ext op) (e : Err) (hrej : (runOp2 op ⟪ops⟫.m).1 = .error e) :
    Good2 (step2 op ⟪ops⟫).m (step2 op ⟪ops⟫).ext ∧
    (step2 op ⟪ops⟫).ext = ⟪ops⟫.ext ∧
    (∀ s, (step2 op ⟪ops⟫).m.tbl.vars.contains s = ⟪ops⟫.m.tbl.vars.contains s) ∧
    (∀ o, op = .base o → Kept ⟪ops⟫.m (step2 op ⟪ops⟫).m) ∧
    (∀ u : Int, 0 < ⟪ops⟫.ext u.natAbs →
      (step2 op ⟪ops⟫).m.tbl.Mem u ∧
      ∀ σ, denN (step2 op ⟪ops⟫).m.tbl u σ = denN ⟪ops⟫.m.tbl u σ) ∧
    (∀ op2 : UOp2, OpGuard2 (step2 op ⟪ops⟫).m (step2 op ⟪ops⟫).ext op2 →
      Good2 (step2 op2 (step2 op ⟪ops⟫)).m (step2 op2 (step2 op ⟪ops⟫)).ext) ∧
    (∃ m', collectGarbage none (step2 op ⟪ops⟫).m = (.ok (), m') ∧ Good2 m' ⟪ops⟫.ext) := by
  have hG := reachable2_inv ops hg
  have hS : Good2 (step2 op ⟪ops⟫).m (step2 op ⟪ops⟫).ext := step2_inv _ _ op hG hop
  have hl : (step2 op ⟪ops⟫).ext = ⟪ops⟫.ext := rejected2_ledger _ _ op hG hop e hrej
  refine ⟨hS, hl, ?_, ?_, step2_heldSame _ _ op hG hop, fun op2 h2 => step2_inv _ _ op2 hS h2, ?_⟩
  · intro s
    cases op with
    | base o =>
      have hk := (rejected_kept _ _ o hG.good hop e hrej).1
      show (runOp o ⟪ops⟫.m).2.tbl.vars.contains s = _
      rw [hk.frame.vars]
    | swap sch x y => exact (reorder_step _ _ hG _ hop (Or.inl ⟨sch, x, y, rfl⟩)).2.names s
    | sift sch => exact (reorder_step _ _ hG _ hop (Or.inr (Or.inl ⟨sch, rfl⟩))).2.names s
    | reorderTo sch o => exact (reorder_step _ _ hG _ hop (Or.inr (Or.inr ⟨sch, o, rfl⟩))).2.names s
    | undeclare vrs =>
      show (undeclareVars vrs ⟪ops⟫.m).2.tbl.vars.contains s = _
      rcases undeclare_step _ _ hG vrs with ⟨-, he⟩ | ⟨⟨rm, hok⟩, -, -⟩
      · rw [he]
      · exfalso
        have hrej' : (mapRes (fun _ => Res.unit) (undeclareVars vrs ⟪ops⟫.m)).1 = .error e := hrej
        simp only [mapRes, hok] at hrej'
        cases hrej'
  · rintro o rfl
    exact (rejected_kept _ _ o hG.good hop e hrej).1
  · obtain ⟨m', he, -, hgood⟩ := collectGarbage_good2 _ _ hS
    rw [hl] at hgood
    exact ⟨m', he, hgood⟩

/-- C17: in a history, the state after every call — accepted or rejected — is good -/
theorem C17_every_prefix_good2 (pre post : List UOp2) (hg : Ops2Guarded (pre ++ post) St.init) :
    Good2 ⟪pre⟫.m ⟪pre⟫.ext :=
  reachable2_inv pre ((ops2Guarded_append pre post St.init).mp hg).1

/-! ### C01 — the connectives after every history -/

/-- C01: after ANY history — whatever operations, collections AND REORDERINGS the manager went
through — `apply` of every spelling of a binary propositional connective returns a node denoting
that connective of the operands, in a good state with the same ledger -/
theorem C01_apply_every_history2 (ops : List UOp2) (hg : Ops2Guarded ops St.init)
    (op : String) (c : Conn) (hc : docConn op = some c) (h2 : c.arity = 2)
    (hq1 : c ≠ .forall_) (hq2 : c ≠ .exists_) (hall : Gen.allOps.contains op = true)
    (u v : Int) (hu : ⟪ops⟫.m.tbl.Mem u) (hv : ⟪ops⟫.m.tbl.Mem v) :
    ∃ r m', runOp2 (.base (.apply op u (some v) none)) ⟪ops⟫.m = (.ok (.ref r), m') ∧
      Good2 m' ⟪ops⟫.ext ∧ m'.tbl.Mem r ∧
      ∀ a, den m'.tbl r a = c.eval (den ⟪ops⟫.m.tbl u a) (den ⟪ops⟫.m.tbl v a) false := by
  have hG := reachable2_inv ops hg
  obtain ⟨r, m', he, -, -, hm, -, hd⟩ :=
    apply_binary_spec ⟪ops⟫.m hG.good.inv hG.good.off op c hc h2 hq1 hq2 hall u v hu hv
  have hS := step2_inv _ _ (.base (.apply op u (some v) none)) hG trivial
  have hrun : runOp2 (.base (.apply op u (some v) none)) ⟪ops⟫.m = (.ok (.ref r), m') := by
    simp only [runOp2, runOp, mapRes, he]
  rw [hrun] at hS
  exact ⟨r, m', hrun, hS, hm, hd⟩

/-- C01: `ite` after ANY history (reorderings, warm computed table, re-used numbers, …) -/
theorem C01_ite_every_history2 (ops : List UOp2) (hg : Ops2Guarded ops St.init)
    (g u v : Int) (hgm : ⟪ops⟫.m.tbl.Mem g) (hu : ⟪ops⟫.m.tbl.Mem u) (hv : ⟪ops⟫.m.tbl.Mem v) :
    ∃ r m', runOp2 (.base (.ite g u v)) ⟪ops⟫.m = (.ok (.ref r), m') ∧
      Good2 m' ⟪ops⟫.ext ∧ m'.tbl.Mem r ∧
      ∀ a, den m'.tbl r a = if den ⟪ops⟫.m.tbl g a then den ⟪ops⟫.m.tbl u a else den ⟪ops⟫.m.tbl v a := by
  have hG := reachable2_inv ops hg
  obtain ⟨r, m', he, hp⟩ := ite_spec_off ⟪ops⟫.m hG.good.inv hG.good.off g u v hgm hu hv
  have hS := step2_inv _ _ (.base (.ite g u v)) hG trivial
  have hrun : runOp2 (.base (.ite g u v)) ⟪ops⟫.m = (.ok (.ref r), m') := by
    simp only [runOp2, runOp, mapRes, he]
  rw [hrun] at hS
  exact ⟨r, m', hrun, hS, hp.mem, hp.den⟩

/-- C01: negation after ANY history -/
theorem C01_neg_every_history2 (ops : List UOp2) (hg : Ops2Guarded ops St.init)
    (op : String) (hc : docConn op = some .not) (hall : Gen.allOps.contains op = true)
    (u : Int) (hu : ⟪ops⟫.m.tbl.Mem u) :
    runOp2 (.base (.apply op u none none)) ⟪ops⟫.m = (.ok (.ref (-u)), ⟪ops⟫.m) ∧
      ⟪ops⟫.m.tbl.Mem (-u) ∧ ∀ a, den ⟪ops⟫.m.tbl (-u) a = !den ⟪ops⟫.m.tbl u a := by
  have hG := reachable2_inv ops hg
  obtain ⟨he, hm, hd⟩ := apply_not_spec ⟪ops⟫.m hG.good.inv op hc hall u hu
  exact ⟨by simp only [runOp2, runOp, mapRes, he], hm, hd⟩

/-- C01: `var(name)` of a declared variable denotes that variable — whatever level the
reorderings of the history left it at -/
theorem C01_var_every_history2 (ops : List UOp2) (hg : Ops2Guarded ops St.init)
    (name : String) (j : Nat) (hj : ⟪ops⟫.m.tbl.vars[name]? = some j) :
    ∃ r m', runOp2 (.base (.var name)) ⟪ops⟫.m = (.ok (.ref r), m') ∧
      Good2 m' ⟪ops⟫.ext ∧ m'.tbl.Mem r ∧ (∀ a, den m'.tbl r a = a j) ∧
      ∀ σ, denN m'.tbl r σ = σ name := by
  have hG := reachable2_inv ops hg
  obtain ⟨r, m', he, hk, hm, hd⟩ :=
    var_spec ⟪ops⟫.m hG.good.inv hG.good.off name j hj (hG.good.order.lt name j hj)
  have hS := step2_inv _ _ (.base (.var name)) hG trivial
  have hrun : runOp2 (.base (.var name)) ⟪ops⟫.m = (.ok (.ref r), m') := by
    simp only [runOp2, runOp, mapRes, he]
  rw [hrun] at hS
  refine ⟨r, m', hrun, hS, hm, hd, fun σ => ?_⟩
  unfold denN
  rw [hd]
  have hl : m'.tbl.l2v[j]? = some name := (hS.good.order.inv name j).mp (by
    have : m'.tbl.vars = ⟪ops⟫.m.tbl.vars := hk.frame.vars
    rw [this]; exact hj)
  simp only [Tbl.lift, Tbl.nameOf, hl, Option.getD_some]

/-! ### C14 — the variable order in every reachable state -/

/-- C14: after ANY history — swaps, siftings, reorderings, removals — `vars` / `_level_to_var`
are inverse bijections onto `0 .. n-1`; declaring a new name appends it at the bottom level and
moves nothing else -/
theorem C14_order_every_history2 (ops : List UOp2) (hg : Ops2Guarded ops St.init) :
    OrderOK ⟪ops⟫.m.tbl ∧
    ∀ name : String, ⟪ops⟫.m.tbl.vars[name]? = none →
      ∃ m', runOp2 (.base (.declare name none)) ⟪ops⟫.m = (.ok (.lvl ⟪ops⟫.m.nvars), m') ∧
        Good2 m' ⟪ops⟫.ext ∧ m'.tbl.vars[name]? = some ⟪ops⟫.m.nvars ∧
        (∀ (v : String) (i : Nat), ⟪ops⟫.m.tbl.vars[v]? = some i → m'.tbl.vars[v]? = some i) ∧
        (∀ u, ⟪ops⟫.m.tbl.Mem u → m'.tbl.Mem u ∧ ∀ a, den m'.tbl u a = den ⟪ops⟫.m.tbl u a) := by
  have hG := reachable2_inv ops hg
  refine ⟨hG.good.order, fun name hnew => ?_⟩
  have he := addVar_new ⟪ops⟫.m name hnew hG.good.order.l2v_none
  obtain ⟨-, -, -, hv, hold, hden, -, -⟩ :=
    addVar_new_spec ⟪ops⟫.m hG.good.inv hG.good.order name hnew _ rfl
  have hS := step2_inv _ _ (.base (.declare name none)) hG trivial
  have hrun : runOp2 (.base (.declare name none)) ⟪ops⟫.m =
      (.ok (.lvl ⟪ops⟫.m.nvars), addVarState ⟪ops⟫.m name) := by
    simp only [runOp2, runOp, mapRes, he]
  rw [hrun] at hS
  exact ⟨addVarState ⟪ops⟫.m name, hrun, hS, hv, hold, hden⟩

/-- C14: after ANY history, `undeclare_vars` with ANY names either raises `ValueError` leaving
the manager exactly as it was, or succeeds: good state, same ledger, every reference keeps its
function by name -/
theorem C14_undeclare_every_history2 (ops : List UOp2) (hg : Ops2Guarded ops St.init)
    (vrs : List String) :
    ((runOp2 (.undeclare vrs) ⟪ops⟫.m).1 = .error .value ∧
      (step2 (.undeclare vrs) ⟪ops⟫).m = ⟪ops⟫.m) ∨
    ((runOp2 (.undeclare vrs) ⟪ops⟫.m).1 = .ok .unit ∧
      Good2 (step2 (.undeclare vrs) ⟪ops⟫).m ⟪ops⟫.ext ∧
      ∀ u, ⟪ops⟫.m.tbl.Mem u → (step2 (.undeclare vrs) ⟪ops⟫).m.tbl.Mem u ∧
        ∀ σ, denN (step2 (.undeclare vrs) ⟪ops⟫).m.tbl u σ = denN ⟪ops⟫.m.tbl u σ) := by
  have hG := reachable2_inv ops hg
  rcases undeclare_step _ _ hG vrs with ⟨h1, h2⟩ | ⟨⟨rm, hok⟩, h2, h3⟩
  · left
    refine ⟨?_, h2⟩
    show (mapRes _ (undeclareVars vrs ⟪ops⟫.m)).1 = _
    simp only [mapRes, h1]
  · right
    refine ⟨?_, h2, h3⟩
    show (mapRes _ (undeclareVars vrs ⟪ops⟫.m)).1 = _
    simp only [mapRes, hok]

/-! ### non-vacuity: a concrete history with a swap, a sifting and a reordering to an order -/

/-- seventeen calls on three variables: `a ∧ b` is built and held; `swap(a, b)` (its collection
frees the node of `a`, the swap re-creates it at the re-used number 2, one level down); a
sifting with a recorded order of the variables; a reordering to the order b, c, a; a REJECTED
swap (not adjacent), the removal of `c`, a REJECTED reordering (wrong length), and the second
route to `a ∧ b` in the new order: the SAME reference 4 -/
def exHistoryR : List UOp2 :=
  [ .base (.declare "a" none), .base (.declare "b" none), .base (.declare "c" none),
    .base (.var "a"),                                -- node 2
    .base (.var "b"),                                -- node 3
    .base (.apply "and" 2 (some 3) none),            -- node 4 = a ∧ b
    .base (.incref 4),                               -- the user holds node 4
    .swap [] (.name "a") (.name "b"),                -- order b, a, c
    .sift [.sift ["c", "a", "b"]],                   -- Rudell sifting, recorded set order
    .reorderTo [] [("a", 2), ("b", 0), ("c", 1)],    -- order b, c, a
    .swap [] (.level 0) (.level 2),                  -- REJECTED: not adjacent
    .undeclare ["c"],                                -- order b, a
    .reorderTo [] [("a", 0)],                        -- REJECTED: one name, two variables
    .base (.var "a"),                                -- node 2 (level 1)
    .base (.var "b"),                                -- node 3 (level 0)
    .base (.apply "and" 2 (some 3) none),            -- the SAME reference 4
    .sift [] ]                                       -- two variables: returns normally

def resCode2 : Except Err Res → Int
  | .ok (.ref u) => u
  | .ok (.lvl n) => 1000 + n
  | .ok .unit => 0
  | .error _ => -1000

/-- the history respects the obligations (the recorded sifting order is a possible one) … -/
theorem exHistoryR_guarded : Ops2Guarded exHistoryR St.init := by decide +kernel

/-- … and does what the comments say (`-1000` = rejected) -/
theorem exHistoryR_results : (results2 exHistoryR St.init).map resCode2 =
    [1000, 1001, 1002, 2, 3, 4, 0, 0, 0, 0, -1000, 0, -1000, 2, 3, 4, 0] := by decide +kernel

/-- the orders along the way: after the swap, after the reordering to an order, at the end -/
example : ⟪exHistoryR.take 8⟫.m.tbl.vars.toList = [("a", 1), ("b", 0), ("c", 2)] ∧
    ⟪exHistoryR.take 10⟫.m.tbl.vars.toList = [("a", 2), ("b", 0), ("c", 1)] ∧
    ⟪exHistoryR⟫.m.tbl.vars.toList = [("a", 1), ("b", 0)] ∧ ⟪exHistoryR⟫.ext 4 = 1 := by
  decide +kernel

example : Good2 ⟪exHistoryR⟫.m ⟪exHistoryR⟫.ext := reachable2_inv exHistoryR exHistoryR_guarded

/-- a recorded schedule that is no permutation of the variables IS reported by the model: such a
history is excluded by the guard, not silently accepted -/
example : ¬ OpGuard2 ⟪exHistoryR⟫.m ⟪exHistoryR⟫.ext (.sift [.sift ["zz"]]) := by decide +kernel

/-- with the default orders every reordering call is admissible after the history, whatever its
arguments -/
example (x y : VarOrLevel) (o : List (String × Int)) :
    OpGuard2 ⟪exHistoryR⟫.m ⟪exHistoryR⟫.ext (.swap [] x y) ∧
    OpGuard2 ⟪exHistoryR⟫.m ⟪exHistoryR⟫.ext (.reorderTo [] o) :=
  have h := guard2_default _ _ (reachable2_inv exHistoryR exHistoryR_guarded)
  ⟨h.1 x y, h.2.2.1 o⟩

/-- C02 on the example: node 4 is the only node denoting `a ∧ b` by name after the history -/
example (v : Int) (hv : ⟪exHistoryR⟫.m.tbl.Mem v) :
    (∀ σ, denN ⟪exHistoryR⟫.m.tbl 4 σ = denN ⟪exHistoryR⟫.m.tbl v σ) ↔ 4 = v :=
  (C02_canonical_every_history2 exHistoryR exHistoryR_guarded 4 v (by decide +kernel) hv).1

/-- node 4 is held from call 7 on, through the swap, the sifting and the reordering -/
theorem exHistoryR_held (p q : List UOp2) (hpq : (exHistoryR.drop 7).take 5 = p ++ q) :
    0 < (run2 p ⟪exHistoryR.take 7⟫).ext (4 : Int).natAbs := by
  have hlen : p.length ≤ 5 := by
    have := congrArg List.length hpq
    simp [exHistoryR] at this
    omega
  have hp : p = ((exHistoryR.drop 7).take 5).take p.length := by rw [hpq]; simp
  rw [hp]
  match p.length, hlen with
  | 0, _ => decide +kernel
  | 1, _ => decide +kernel
  | 2, _ => decide +kernel
  | 3, _ => decide +kernel
  | 4, _ => decide +kernel
  | 5, _ => decide +kernel

/-- C02 across time and orders on the example: whatever node denotes, after the swap, the
sifting, the reordering, the rejected swap and the removal of `c`, the function that node 4
denoted (by name) when it was taken, is node 4 -/
example (v : Int) (hv : ⟪exHistoryR.take 7 ++ (exHistoryR.drop 7).take 5⟫.m.tbl.Mem v)
    (hsame : ∀ σ, denN ⟪exHistoryR.take 7 ++ (exHistoryR.drop 7).take 5⟫.m.tbl v σ =
      denN ⟪exHistoryR.take 7⟫.m.tbl 4 σ) : v = 4 :=
  C02_routes_agree_held2 (exHistoryR.take 7) ((exHistoryR.drop 7).take 5) (by decide +kernel) 4 v
    (fun p q h => exHistoryR_held p q h) hv hsame

/-- C06 on the example -/
example : RefExact ⟪exHistoryR⟫.m ⟪exHistoryR⟫.ext :=
  (C06_counts_exact_every_history2 exHistoryR exHistoryR_guarded).1

/-- C07 on the example: the eighth call is a swap issued after seven calls, with node 4 held -/
example : (UOp2.swap [] (.name "a") (.name "b")).IsReorder ∧
    Ops2Guarded (exHistoryR.take 7) St.init ∧
    OpGuard2 ⟪exHistoryR.take 7⟫.m ⟪exHistoryR.take 7⟫.ext (.swap [] (.name "a") (.name "b")) ∧
    0 < ⟪exHistoryR.take 7⟫.ext 4 :=
  ⟨Or.inl ⟨_, _, _, rfl⟩, by decide +kernel, by decide +kernel, by decide +kernel⟩

/-- … its arguments denote the adjacent levels 0, 1 … -/
example : 0 + 1 < ⟪exHistoryR.take 7⟫.m.nvars ∧ Resolves ⟪exHistoryR.take 7⟫.m (.name "a") 0 ∧
    Resolves ⟪exHistoryR.take 7⟫.m (.name "b") 1 := by
  refine ⟨by decide +kernel, ?_, ?_⟩
  · show ⟪exHistoryR.take 7⟫.m.tbl.vars["a"]? = some 0
    decide +kernel
  · show ⟪exHistoryR.take 7⟫.m.tbl.vars["b"]? = some 1
    decide +kernel

/-- … the ninth a sifting with three variables, the tenth a reordering to a bijective order -/
example : 2 ≤ ⟪exHistoryR.take 8⟫.m.nvars ∧ (UOp2.sift [.sift ["c", "a", "b"]]).IsReorder ∧
    (UOp2.reorderTo [] [("a", 2), ("b", 0), ("c", 1)]).IsReorder :=
  ⟨by decide +kernel, Or.inr (Or.inl ⟨_, rfl⟩), Or.inr (Or.inr ⟨_, _, rfl⟩)⟩

/-- the tenth call asks for a bijective order of the three variables -/
theorem exHistoryR_reqOrder : ReqOrder [("a", 2), ("b", 0), ("c", 1)] ⟪exHistoryR.take 9⟫.m :=
  reqOrder_of_check (by decide +kernel)

/-- C07 applied to the example: the swap after seven calls keeps node 4 (held) a node with the
same function of `a`, `b`, `c` and the same counter equation … -/
example : ⟪exHistoryR.take 7⟫.m.tbl.Mem 4 ∧
    (step2 (.swap [] (.name "a") (.name "b")) ⟪exHistoryR.take 7⟫).m.tbl.Mem 4 ∧
    (∀ σ, denN (step2 (.swap [] (.name "a") (.name "b")) ⟪exHistoryR.take 7⟫).m.tbl 4 σ =
      denN ⟪exHistoryR.take 7⟫.m.tbl 4 σ) :=
  have h := (C07_held_every_history2 (exHistoryR.take 7) (by decide +kernel) _ (Or.inl ⟨_, _, _, rfl⟩)
    (by decide +kernel)).2.2.2.2 4 (by decide +kernel)
  ⟨h.1, h.2.1, h.2.2.1⟩

/-- … it exchanges exactly the names at the levels 0 and 1 … -/
example : ∀ j, (step2 (.swap [] (.name "a") (.name "b")) ⟪exHistoryR.take 7⟫).m.tbl.l2v[j]? =
    ⟪exHistoryR.take 7⟫.m.tbl.l2v[swp 0 1 j]? :=
  (C07_swap_every_history2 (exHistoryR.take 7) (by decide +kernel) [] (.name "a") (.name "b") 0 0 1
    (by decide +kernel) (by show ⟪exHistoryR.take 7⟫.m.tbl.vars["a"]? = some 0; decide +kernel)
    (by show ⟪exHistoryR.take 7⟫.m.tbl.vars["b"]? = some 1; decide +kernel) (Or.inl ⟨rfl, rfl⟩)
    (by decide +kernel)).2

/-- … the sifting after eight calls returns normally and leaves no unreferenced node, and the
reordering after nine calls reaches exactly the requested order -/
example : NoGarbage (step2 (.sift [.sift ["c", "a", "b"]]) ⟪exHistoryR.take 8⟫).m :=
  (C07_sift_every_history2 (exHistoryR.take 8) (by decide +kernel) _ (by decide +kernel)
    (by decide +kernel)).2

example : (step2 (.reorderTo [] [("a", 2), ("b", 0), ("c", 1)]) ⟪exHistoryR.take 9⟫).m.tbl.vars["a"]? =
    some 2 :=
  ((C07_reorderTo_every_history2 (exHistoryR.take 9) (by decide +kernel) [] _ exHistoryR_reqOrder
    (by decide +kernel)).2 "a" 2 (by decide) (by decide +kernel)).1

/-- C06 on the example: the collection inside the swap, the sifting … never free node 4 -/
example : (step2 (.sift [.sift ["c", "a", "b"]]) ⟪exHistoryR.take 8⟫).m.tbl.Mem 4 :=
  (C06_held_every_history2 (exHistoryR.take 8) (by decide +kernel) _ (by decide +kernel) 4
    (by decide +kernel)).2.1

/-- C17 on the example: the eleventh call (`swap` of the levels 0 and 2) is rejected in the state
reached by the first ten; so is the thirteenth (`reorder` to an order of the wrong length) -/
theorem exHistoryR_rejected :
    (runOp2 (.swap [] (.level 0) (.level 2)) ⟪exHistoryR.take 10⟫.m).1 = .error .value ∧
    (runOp2 (.reorderTo [] [("a", 0)]) ⟪exHistoryR.take 12⟫.m).1 = .error .value := by
  have h : ∀ r : Except Err Res, (match r with | .error .value => true | _ => false) = true →
      r = .error .value := by
    intro r
    cases r with
    | ok r => intro h; cases h
    | error e => cases e <;> intro h <;> first | rfl | cases h
  exact ⟨h _ (by decide +kernel), h _ (by decide +kernel)⟩

example : Good2 (step2 (.swap [] (.level 0) (.level 2)) ⟪exHistoryR.take 10⟫).m
    (step2 (.swap [] (.level 0) (.level 2)) ⟪exHistoryR.take 10⟫).ext :=
  (C17_error_then_normal2 (exHistoryR.take 10) (by decide +kernel) _ (by decide +kernel)
    .value exHistoryR_rejected.1).1

/-- C01 on the example: the operands are nodes after the whole history (the node of `b` alone,
held by nobody, was freed by the collection of the last sifting) -/
example : ∃ r m', runOp2 (.base (.apply "/\\" 2 (some 4) none)) ⟪exHistoryR⟫.m = (.ok (.ref r), m') ∧
    Good2 m' ⟪exHistoryR⟫.ext ∧ m'.tbl.Mem r ∧
    ∀ a, den m'.tbl r a = (den ⟪exHistoryR⟫.m.tbl 2 a && den ⟪exHistoryR⟫.m.tbl 4 a) :=
  C01_apply_every_history2 exHistoryR exHistoryR_guarded "/\\" .and (by decide) (by decide)
    (by decide) (by decide) (by decide) 2 4 (by decide +kernel) (by decide +kernel)

/-- C01 (`ite`, negation, `var`) on the example -/
example : ∃ r m', runOp2 (.base (.ite 4 2 (-1))) ⟪exHistoryR⟫.m = (.ok (.ref r), m') ∧ m'.tbl.Mem r := by
  obtain ⟨r, m', h1, -, h3, -⟩ := C01_ite_every_history2 exHistoryR exHistoryR_guarded 4 2 (-1)
    (by decide +kernel) (by decide +kernel) (by decide)
  exact ⟨r, m', h1, h3⟩

example : runOp2 (.base (.apply "!" 4 none none)) ⟪exHistoryR⟫.m = (.ok (.ref (-4)), ⟪exHistoryR⟫.m) :=
  (C01_neg_every_history2 exHistoryR exHistoryR_guarded "!" (by decide) (by decide) 4
    (by decide +kernel)).1

/-- `a` ended at level 1: `var("a")` denotes the variable `a` all the same -/
example : ∃ r m', runOp2 (.base (.var "a")) ⟪exHistoryR⟫.m = (.ok (.ref r), m') ∧
    ∀ σ, denN m'.tbl r σ = σ "a" := by
  obtain ⟨r, m', h1, -, -, -, h5⟩ :=
    C01_var_every_history2 exHistoryR exHistoryR_guarded "a" 1 (by decide +kernel)
  exact ⟨r, m', h1, h5⟩

/-- C14 (removal) on the example: after eleven calls `c` carries no node -/
example : (runOp2 (.undeclare ["c"]) ⟪exHistoryR.take 11⟫.m).1 = .ok .unit := by
  rcases C14_undeclare_every_history2 (exHistoryR.take 11) (by decide +kernel) ["c"] with h | h
  · exfalso
    have : (match (runOp2 (.undeclare ["c"]) ⟪exHistoryR.take 11⟫.m).1 with
        | .ok _ => true | .error _ => false) = true := by decide +kernel
    rw [h.1] at this
    cases this
  · exact h.1

example : Good2 ⟪exHistoryR.take 5⟫.m ⟪exHistoryR.take 5⟫.ext :=
  C17_every_prefix_good2 (exHistoryR.take 5) (exHistoryR.drop 5)
    (by rw [List.take_append_drop]; exact exHistoryR_guarded)

/-- C14 on the example: `c` is not declared any more after the history -/
example : ⟪exHistoryR⟫.m.tbl.vars["c"]? = none ∧ ⟪exHistoryR⟫.m.nvars = 2 := by decide +kernel

/-- an embedded history is a history: the theorems of DDProps.Histories are instances -/
example (ops : List UOp) (hg : OpsGuarded ops St.init) :
    Good2 (run ops St.init).m (run ops St.init).ext := by
  rw [← run2_base]
  exact reachable2_inv _ ((ops2Guarded_base ops St.init).mpr hg)

/-! ## Part 2 — dynamic reordering switched ON in the history

`UOp3` (DDProofs.Reach3) = `UOp2` + `configure(reordering=b)`.  `Good3` is `Good2` without the
clause `_last_len = None`.  `⟪ops⟫₃` is the state after `ops` from the empty manager.  The guard
is that of `UOp2`, nothing more: neither "operands held" nor "two variables declared" is needed
for the invariant; they are hypotheses of the theorems that describe RESULTS (C09) and of "the
switch is unchanged". -/

local notation "⟪" ops "⟫₃" => run3 ops St.init

/-- every state of a history with `configure` in it is good; and the histories of Part 1 are the
histories that never call `configure` -/
theorem C17_every_prefix_good3 (pre post : List UOp3) (hg : Ops3Guarded (pre ++ post) St.init) :
    Good3 ⟪pre⟫₃.m ⟪pre⟫₃.ext :=
  reachable3_inv pre ((ops3Guarded_append pre post St.init).mp hg).1

/-- C09 as a statement about histories: after ANY history — reordering enabled or not at that
point, whatever automatic and explicit reorderings, collections and rejected calls happened —
with two variables declared the manager is in the state `DynInv` from which every C09 theorem
starts; in particular (generic form) EVERY decorated body whose outcome is "documented result by
name, or aborted having only added nodes" is transparent there, for operands the user holds -/
theorem C09_every_history (ops : List UOp3) (hg : Ops3Guarded ops St.init)
    (h2 : 2 ≤ ⟪ops⟫₃.m.nvars) :
    DynInv ⟪ops⟫₃.ext ⟪ops⟫₃.m ∧
    ∀ {α : Type} (f : M α) (opnds : List Int) (Pre : Tbl → Prop) (Doc : Tbl → α → Tbl → Prop),
      (∀ m0 : Mgr, Inv m0 → m0.ctx = true → OrderOK m0.tbl → Pre m0.tbl →
        (∀ u ∈ opnds, m0.tbl.Mem u) → Outcome m0 (fun r m1 => Doc m0.tbl r m1.tbl) (f m0)) →
      (∀ t t', Bridge opnds t t' → Pre t → Pre t') →
      (∀ t t' r t'', Bridge opnds t t' → Pre t → Doc t' r t'' → Doc t r t'') →
      (∀ u ∈ opnds, HeldX ⟪ops⟫₃.ext u) → Pre ⟪ops⟫₃.m.tbl →
      ∃ r m', tryToReorder f ⟪ops⟫₃.m = (.ok r, m') ∧ DynPostG ⟪ops⟫₃.ext Doc ⟪ops⟫₃.m r m' ∧
        Good3 m' ⟪ops⟫₃.ext := by
  have hG := reachable3_inv ops hg
  have hD := hG.dynInv h2
  refine ⟨hD, fun f opnds Pre Doc hbody hpre hdoc hops hpre0 => ?_⟩
  obtain ⟨r, m', he, hp⟩ :=
    C09_decorator_transparent ⟪ops⟫₃.ext f opnds Pre Doc hbody hpre hdoc ⟪ops⟫₃.m hD hops hpre0
  exact ⟨r, m', he, hp, hp.inv.good3 (hp.roots.trans hG.roots)⟩

/-- C09 / C01: `ite` after ANY history, reordering possibly enabled, the request firing at
whichever node creation: for operands the user holds (or constants) the call returns normally;
the result denotes, BY NAME, the if-then-else of the operands as they were; the state is good
for the same ledger; reordering is enabled iff it was; every held reference keeps its function -/
theorem C01_ite_every_history_dyn (ops : List UOp3) (hg : Ops3Guarded ops St.init)
    (h2 : 2 ≤ ⟪ops⟫₃.m.nvars) (g u v : Int) (hgh : HeldX ⟪ops⟫₃.ext g) (hu : HeldX ⟪ops⟫₃.ext u)
    (hv : HeldX ⟪ops⟫₃.ext v) :
    ∃ r m', runOp3 (.op (.base (.ite g u v))) ⟪ops⟫₃.m = (.ok (.ref r), m') ∧
      Good3 m' ⟪ops⟫₃.ext ∧ m'.lastLen.isSome = ⟪ops⟫₃.m.lastLen.isSome ∧ m'.tbl.Mem r ∧
      (∀ σ, denN m'.tbl r σ =
        if denN ⟪ops⟫₃.m.tbl g σ then denN ⟪ops⟫₃.m.tbl u σ else denN ⟪ops⟫₃.m.tbl v σ) ∧
      (∀ w, HeldX ⟪ops⟫₃.ext w → m'.tbl.Mem w ∧ ∀ σ, denN m'.tbl w σ = denN ⟪ops⟫₃.m.tbl w σ) := by
  have hG := reachable3_inv ops hg
  obtain ⟨r, m', he, hp⟩ := C09_ite_transparent ⟪ops⟫₃.ext ⟪ops⟫₃.m (hG.dynInv h2) g u v hgh hu hv
  refine ⟨r, m', ?_, hp.inv.good3 (hp.roots.trans hG.roots), hp.enabled, hp.doc.1, hp.doc.2, hp.held⟩
  simp only [runOp3, runOp2, runOp, mapRes, he]

/-- C09 / C01: `apply` of every spelling of a binary propositional connective after ANY history,
reordering possibly enabled -/
theorem C01_apply_every_history_dyn (ops : List UOp3) (hg : Ops3Guarded ops St.init)
    (h2 : 2 ≤ ⟪ops⟫₃.m.nvars)
    (op : String) (c : Conn) (hc : docConn op = some c) (ha : c.arity = 2)
    (hq1 : c ≠ .forall_) (hq2 : c ≠ .exists_) (hall : Gen.allOps.contains op = true)
    (u v : Int) (hu : HeldX ⟪ops⟫₃.ext u) (hv : HeldX ⟪ops⟫₃.ext v) :
    ∃ r m', runOp3 (.op (.base (.apply op u (some v) none))) ⟪ops⟫₃.m = (.ok (.ref r), m') ∧
      Good3 m' ⟪ops⟫₃.ext ∧ m'.lastLen.isSome = ⟪ops⟫₃.m.lastLen.isSome ∧ m'.tbl.Mem r ∧
      (∀ σ, denN m'.tbl r σ = c.eval (denN ⟪ops⟫₃.m.tbl u σ) (denN ⟪ops⟫₃.m.tbl v σ) false) ∧
      (∀ w, HeldX ⟪ops⟫₃.ext w → m'.tbl.Mem w ∧ ∀ σ, denN m'.tbl w σ = denN ⟪ops⟫₃.m.tbl w σ) := by
  have hG := reachable3_inv ops hg
  obtain ⟨r, m', he, hp⟩ := C09_apply_binary_transparent ⟪ops⟫₃.ext ⟪ops⟫₃.m (hG.dynInv h2) op c hc ha
    hq1 hq2 hall u v hu hv
  refine ⟨r, m', ?_, hp.inv.good3 (hp.roots.trans hG.roots), hp.enabled, hp.doc.1, hp.doc.2, hp.held⟩
  simp only [runOp3, runOp2, runOp, mapRes, he]

/-- C02 with reordering switched on and off in the history: two nodes are equal exactly when they
denote the same function of the variable names -/
theorem C02_canonical_every_history3 (ops : List UOp3) (hg : Ops3Guarded ops St.init) (u v : Int)
    (hu : ⟪ops⟫₃.m.tbl.Mem u) (hv : ⟪ops⟫₃.m.tbl.Mem v) :
    (∀ σ, denN ⟪ops⟫₃.m.tbl u σ = denN ⟪ops⟫₃.m.tbl v σ) ↔ u = v :=
  canonical_by_name3 (reachable3_inv ops hg) u v hu hv

/-- C06 / C07 with reordering switched on and off in the history: the counts are exact, and the
next call — a decorated operation that sifts the manager, an explicit reordering, a collection —
keeps every reference the user holds: a node under the same number, the same function by name,
counter = stored edges + the user's references; the internal signal never reaches the user; the
switch is changed by `configure` only (outside the situation `SwitchSafe` excludes: reordering
enabled, a decorated call, fewer than two variables) -/
theorem C06_held_every_history3 (ops : List UOp3) (hg : Ops3Guarded ops St.init) (op : UOp3)
    (hop : OpGuard3 ⟪ops⟫₃.m ⟪ops⟫₃.ext op) :
    RefExact ⟪ops⟫₃.m ⟪ops⟫₃.ext ∧ Good3 (step3 op ⟪ops⟫₃).m (step3 op ⟪ops⟫₃).ext ∧
    (runOp3 op ⟪ops⟫₃.m).1 ≠ .error .needsReordering ∧
    (SwitchSafe ⟪ops⟫₃.m op →
      (step3 op ⟪ops⟫₃).m.lastLen.isSome = op.switchAfter ⟪ops⟫₃.m.lastLen.isSome) ∧
    ∀ u : Int, 0 < ⟪ops⟫₃.ext u.natAbs →
      ⟪ops⟫₃.m.tbl.Mem u ∧ (step3 op ⟪ops⟫₃).m.tbl.Mem u ∧
      (∀ σ, denN (step3 op ⟪ops⟫₃).m.tbl u σ = denN ⟪ops⟫₃.m.tbl u σ) ∧
      (step3 op ⟪ops⟫₃).m.ref[u.natAbs]? =
        some (indeg (step3 op ⟪ops⟫₃).m.tbl u.natAbs + (step3 op ⟪ops⟫₃).ext u.natAbs +
          (if u.natAbs = 1 then 1 else 0)) :=
  have hG := reachable3_inv ops hg
  ⟨hG.exact, step3_inv _ _ op hG hop, step3_noSignal _ _ op hG hop, step3_switch _ _ op hG hop,
   fun u hu => step3_held _ _ op hG hop u hu⟩

/-- C17 with reordering switched on and off in the history: after ANY history a call that raises
— reordering enabled or not, in the first attempt or in the RETRY after a sifting — never raises
the internal signal and leaves a good state: the ledger untouched, reordering enabled iff it was
(two variables declared), every held reference a node with the same function by name; hence every theorem applies to the
next call, whatever it is; and with two variables declared the next `ite` on held operands
returns the if-then-else of the operands AS THEY WERE BEFORE the rejected call, by name -/
theorem C17_error_then_normal_dyn_history (ops : List UOp3) (hg : Ops3Guarded ops St.init) (op : UOp3)
    (hop : OpGuard3 ⟪ops⟫₃.m ⟪ops⟫₃.ext op) (e : Err) (hrej : (runOp3 op ⟪ops⟫₃.m).1 = .error e) :
    e ≠ .needsReordering ∧
    Good3 (step3 op ⟪ops⟫₃).m (step3 op ⟪ops⟫₃).ext ∧
    (step3 op ⟪ops⟫₃).ext = ⟪ops⟫₃.ext ∧
    (2 ≤ ⟪ops⟫₃.m.nvars → (step3 op ⟪ops⟫₃).m.lastLen.isSome = ⟪ops⟫₃.m.lastLen.isSome) ∧
    (∀ w : Int, HeldX ⟪ops⟫₃.ext w → (step3 op ⟪ops⟫₃).m.tbl.Mem w ∧
      ∀ σ, denN (step3 op ⟪ops⟫₃).m.tbl w σ = denN ⟪ops⟫₃.m.tbl w σ) ∧
    (∀ op2 : UOp3, OpGuard3 (step3 op ⟪ops⟫₃).m (step3 op ⟪ops⟫₃).ext op2 →
      Good3 (step3 op2 (step3 op ⟪ops⟫₃)).m (step3 op2 (step3 op ⟪ops⟫₃)).ext) ∧
    (2 ≤ (step3 op ⟪ops⟫₃).m.nvars → ∀ g u v : Int, HeldX ⟪ops⟫₃.ext g → HeldX ⟪ops⟫₃.ext u →
      HeldX ⟪ops⟫₃.ext v →
      ∃ r m'', runOp3 (.op (.base (.ite g u v))) (step3 op ⟪ops⟫₃).m = (.ok (.ref r), m'') ∧
        Good3 m'' ⟪ops⟫₃.ext ∧ m''.tbl.Mem r ∧
        ∀ σ, denN m''.tbl r σ =
          if denN ⟪ops⟫₃.m.tbl g σ then denN ⟪ops⟫₃.m.tbl u σ else denN ⟪ops⟫₃.m.tbl v σ) := by
  have hG := reachable3_inv ops hg
  have hS : Good3 (step3 op ⟪ops⟫₃).m (step3 op ⟪ops⟫₃).ext := step3_inv _ _ op hG hop
  have hl : (step3 op ⟪ops⟫₃).ext = ⟪ops⟫₃.ext := rejected3_ledger _ _ op hG hop e hrej
  have hH : Held2 ⟪ops⟫₃.ext ⟪ops⟫₃.m (step3 op ⟪ops⟫₃).m := step3_heldSame _ _ op hG hop
  have hsw : 2 ≤ ⟪ops⟫₃.m.nvars →
      (step3 op ⟪ops⟫₃).m.lastLen.isSome = ⟪ops⟫₃.m.lastLen.isSome := by
    intro h2
    cases op with
    | op o => exact step3_switch _ _ (.op o) hG hop (switchSafe_of_two _ _ h2)
    | configure b =>
      exfalso
      have h1 := (configure_step3 ⟪ops⟫₃.m ⟪ops⟫₃.ext hG b).2.2.2.2
      have : (mapRes (fun _ => Res.unit) (configure (some b) ⟪ops⟫₃.m)).1 = .error e := hrej
      simp only [mapRes, h1] at this
      cases this
  refine ⟨fun he => step3_noSignal _ _ op hG hop (by rw [hrej, he]), hS, hl, hsw,
    fun w hw => hH.heldX hw, fun op2 h2 => step3_inv _ _ op2 hS h2, ?_⟩
  intro h2 g u v hgh hu hv
  rw [hl] at hS
  obtain ⟨r, m'', he, hp⟩ :=
    C09_ite_transparent ⟪ops⟫₃.ext (step3 op ⟪ops⟫₃).m (hS.dynInv h2) g u v hgh hu hv
  refine ⟨r, m'', ?_, hp.inv.good3 (hp.roots.trans hS.roots), hp.doc.1, fun σ => ?_⟩
  · simp only [runOp3, runOp2, runOp, mapRes, he]
  · rw [hp.doc.2 σ, (hH.heldX hgh).2 σ, (hH.heldX hu).2 σ, (hH.heldX hv).2 σ]

/-! ### non-vacuity of Part 2 -/

def resCode3 : Except Err Res → Int := resCode2

/-- a history with `configure`: explicit reorderings and a rejected call while reordering is
enabled, the switch turned off and on again -/
def exHistoryD : List UOp3 :=
  [ .op (.base (.declare "a" none)), .op (.base (.declare "b" none)), .op (.base (.declare "c" none)),
    .configure true,                                   -- reordering enabled from here on
    .op (.base (.var "a")),                            -- node 2
    .op (.base (.var "b")),                            -- node 3
    .op (.base (.apply "and" 2 (some 3) none)),        -- node 4 = a ∧ b
    .op (.base (.incref 4)),
    .op (.swap [] (.name "a") (.name "b")),            -- explicit swap, reordering enabled
    .op (.base (.ite 7 1 (-1))),                       -- REJECTED (unknown node), reordering enabled
    .op (.sift []),                                    -- explicit sifting, reordering enabled
    .configure false,
    .op (.base (.var "c")),                            -- node 3 (re-used), reordering not enabled
    .configure true,
    .op (.base (.apply "or" 4 (some 2) none)) ]        -- (a ∧ b) ∨ a = a : node 2

theorem exHistoryD_guarded : Ops3Guarded exHistoryD St.init := by decide +kernel

theorem exHistoryD_results : (results3 exHistoryD St.init).map resCode3 =
    [1000, 1001, 1002, 0, 2, 3, 4, 0, 0, -1000, 0, 0, 3, 0, 2] ∧
    ⟪exHistoryD⟫₃.m.lastLen.isSome = true ∧ ⟪exHistoryD.take 12⟫₃.m.lastLen.isSome = false ∧
    ⟪exHistoryD⟫₃.ext 4 = 1 ∧ 2 ≤ ⟪exHistoryD⟫₃.m.nvars := by decide +kernel

example : Good3 ⟪exHistoryD⟫₃.m ⟪exHistoryD⟫₃.ext := reachable3_inv exHistoryD exHistoryD_guarded

/-- C09 on the example: after the history reordering is enabled and node 4 is held -/
example : ∃ r m', runOp3 (.op (.base (.ite 4 4 (-1)))) ⟪exHistoryD⟫₃.m = (.ok (.ref r), m') ∧
    Good3 m' ⟪exHistoryD⟫₃.ext ∧ m'.lastLen.isSome = ⟪exHistoryD⟫₃.m.lastLen.isSome ∧ m'.tbl.Mem r ∧
    (∀ σ, denN m'.tbl r σ =
      if denN ⟪exHistoryD⟫₃.m.tbl 4 σ then denN ⟪exHistoryD⟫₃.m.tbl 4 σ
      else denN ⟪exHistoryD⟫₃.m.tbl (-1) σ) ∧
    (∀ w, HeldX ⟪exHistoryD⟫₃.ext w →
      m'.tbl.Mem w ∧ ∀ σ, denN m'.tbl w σ = denN ⟪exHistoryD⟫₃.m.tbl w σ) :=
  C01_ite_every_history_dyn exHistoryD exHistoryD_guarded exHistoryD_results.2.2.2.2 4 4 (-1)
    (Or.inr (by rw [show ((4 : Int).natAbs) = 4 from rfl, exHistoryD_results.2.2.2.1]; decide))
    (Or.inr (by rw [show ((4 : Int).natAbs) = 4 from rfl, exHistoryD_results.2.2.2.1]; decide))
    (Or.inl rfl)

/-- C09 on the example: the state after the history is the state the C09 theorems start from -/
example : DynInv ⟪exHistoryD⟫₃.ext ⟪exHistoryD⟫₃.m :=
  (C09_every_history exHistoryD exHistoryD_guarded exHistoryD_results.2.2.2.2).1

example (v : Int) (hv : ⟪exHistoryD⟫₃.m.tbl.Mem v) :
    (∀ σ, denN ⟪exHistoryD⟫₃.m.tbl 4 σ = denN ⟪exHistoryD⟫₃.m.tbl v σ) ↔ 4 = v :=
  C02_canonical_every_history3 exHistoryD exHistoryD_guarded 4 v (by decide +kernel) hv

/-- C06 / C07: the explicit swap issued while reordering is enabled (ninth call) -/
example : Good3 (step3 (.op (.swap [] (.name "a") (.name "b"))) ⟪exHistoryD.take 8⟫₃).m
    (step3 (.op (.swap [] (.name "a") (.name "b"))) ⟪exHistoryD.take 8⟫₃).ext :=
  (C06_held_every_history3 (exHistoryD.take 8) (by decide +kernel) _ (by decide +kernel)).2.1

example : Good3 ⟪exHistoryD.take 5⟫₃.m ⟪exHistoryD.take 5⟫₃.ext :=
  C17_every_prefix_good3 (exHistoryD.take 5) (exHistoryD.drop 5)
    (by rw [List.take_append_drop]; exact exHistoryD_guarded)

/-- C17 on the example: the tenth call (`ite` on an unknown node) is rejected while reordering is
enabled, in the state reached by the first nine -/
theorem exHistoryD_rejected :
    (runOp3 (.op (.base (.ite 7 1 (-1)))) ⟪exHistoryD.take 9⟫₃.m).1 = .error .key ∧
    ⟪exHistoryD.take 9⟫₃.m.lastLen.isSome = true := by
  have h : ∀ r : Except Err Res, (match r with | .error .key => true | _ => false) = true →
      r = .error .key := by
    intro r
    cases r with
    | ok r => intro h; cases h
    | error e => cases e <;> intro h <;> first | rfl | cases h
  exact ⟨h _ (by decide +kernel), by decide +kernel⟩

example : Good3 (step3 (.op (.base (.ite 7 1 (-1)))) ⟪exHistoryD.take 9⟫₃).m
    (step3 (.op (.base (.ite 7 1 (-1)))) ⟪exHistoryD.take 9⟫₃).ext :=
  (C17_error_then_normal_dyn_history (exHistoryD.take 9) (by decide +kernel) _ (by decide +kernel)
    .key exHistoryD_rejected.1).2.1

/-- ONE variable and reordering enabled: no guard excludes the decorated calls, the explicit
sifting is REJECTED (`ValueError`: `min()` of an empty dict) and leaves a good state -/
def exHistoryOne : List UOp3 :=
  [ .op (.base (.declare "x" none)), .configure true, .op (.base (.var "x")),
    .op (.base (.incref 2)), .op (.base (.apply "and" 2 (some (-2)) none)), .op (.sift []) ]

theorem exHistoryOne_guarded : Ops3Guarded exHistoryOne St.init := by decide +kernel

example : (results3 exHistoryOne St.init).map resCode3 = [1000, 0, 2, 0, -1, -1000] ∧
    ⟪exHistoryOne⟫₃.m.nvars = 1 ∧ ⟪exHistoryOne⟫₃.m.lastLen.isSome = true := by decide +kernel

example : Good3 ⟪exHistoryOne⟫₃.m ⟪exHistoryOne⟫₃.ext := reachable3_inv exHistoryOne exHistoryOne_guarded

/-! #### a history in which dynamic reordering FIRES (naturally: `len ≥ 2 * _last_len`)

Seven pairs `x_i`, `y_i`, all `x` above all `y` — the worst order for `⋁ x_i ∧ y_i`.  Reordering
is enabled before the first node is made (`_last_len = 100`); every operand is held.  Before the
last call the manager has 193 nodes; during the last `or` (= `ite(192, 1, 193)`) the 200th node
is requested: the attempt is aborted (`exBig_fires`, evaluated by the kernel), the manager is
sifted and the connective computed again.  Evaluating the sifting itself is too much for the
kernel's evaluator (minutes); `#eval` (compiled evaluator) gives, for
`(results3 exBig St.init).map resCode3`, `⟪exBig⟫₃.m.len`, `⟪exBig⟫₃.m.lastLen`,
`⟪exBig⟫₃.m.tbl.vars.toList`:

    [1000, …, 1013, 0, 2, 0, 3, 0, …, 15, 0,                       -- declare ×14, configure, var/incref ×14
     16, 0, 16, 0, 17, 0, 20, 0, 21, 0, 30, 0, 31, 0, 52, 0, 53, 0, 98, 0, 99, 0, 192, 0, 193, 0, 62]
    66                          -- nodes after the automatic sifting (193 before the call)
    some 104                    -- `_last_len` re-armed: 2 * 52
    [("x0", 2), ("x1", 4), ("x2", 6), ("x3", 7), ("x4", 9), ("x5", 11), ("x6", 1),
     ("y0", 0), ("y1", 3), ("y2", 5), ("y3", 8), ("y4", 10), ("y5", 12), ("y6", 13)]   -- pairs interleaved

The guards of the seventy calls hold (`exBig_guarded`, kernel), so every theorem of this file
applies to the history and to each of its prefixes. -/

def exBigAnds : List Int := [16, 17, 21, 31, 53, 99, 193]
def exBigOrs : List Int := [-1, 16, 20, 30, 52, 98, 192]

def exBig : List UOp3 :=
  ((List.range 7).map fun i => .op (.base (.declare s!"x{i}" none))) ++
  ((List.range 7).map fun i => .op (.base (.declare s!"y{i}" none))) ++
  [.configure true] ++
  ((List.range 7).flatMap fun (i : Nat) =>
    [.op (.base (.var s!"x{i}")), .op (.base (.incref (2 + (i : Int))))]) ++
  ((List.range 7).flatMap fun (i : Nat) =>
    [.op (.base (.var s!"y{i}")), .op (.base (.incref (9 + (i : Int))))]) ++
  ((List.range 7).flatMap fun (i : Nat) =>
    [.op (.base (.apply "and" (2 + (i : Int)) (some (9 + (i : Int))) none)),
     .op (.base (.incref (exBigAnds.getD i 0))),
     .op (.base (.apply "or" (exBigOrs.getD i 0) (some (exBigAnds.getD i 0)) none))] ++
     (if i < 6 then [.op (.base (.incref (exBigOrs.getD (i + 1) 0)))] else []))

set_option maxRecDepth 1000000 in
theorem exBig_guarded : Ops3Guarded exBig St.init := by decide +kernel

/-- the exception raised, if it is the internal signal -/
def isSignal {α : Type} : Except Err α → Bool
  | .error .needsReordering => true
  | _ => false

set_option maxRecDepth 1000000 in
/-- in the state reached by the first 69 calls the body of the last call (`or` = `ite(u, 1, v)`) IS
aborted by a reordering request — no harness trigger: `fireIn = none` in every reachable state -/
theorem exBig_fires :
    isSignal (iteRaw 192 1 193 { ⟪exBig.take 69⟫₃.m with ctx := true }).1 = true := by
  decide +kernel

/-- C09 / C01 on that very call: 69 calls were made, reordering is enabled, the operands 192 and
193 are held; the theorem says the call returns normally — although its first attempt is aborted
(`exBig_fires`) — and what it returns is the disjunction of the operands as they were, by name -/
example : ∃ r m', runOp3 (.op (.base (.apply "or" 192 (some 193) none))) ⟪exBig.take 69⟫₃.m =
      (.ok (.ref r), m') ∧
    Good3 m' ⟪exBig.take 69⟫₃.ext ∧ m'.lastLen.isSome = ⟪exBig.take 69⟫₃.m.lastLen.isSome ∧
    m'.tbl.Mem r ∧
    (∀ σ, denN m'.tbl r σ =
      Conn.or.eval (denN ⟪exBig.take 69⟫₃.m.tbl 192 σ) (denN ⟪exBig.take 69⟫₃.m.tbl 193 σ) false) ∧
    (∀ w, HeldX ⟪exBig.take 69⟫₃.ext w →
      m'.tbl.Mem w ∧ ∀ σ, denN m'.tbl w σ = denN ⟪exBig.take 69⟫₃.m.tbl w σ) :=
  C01_apply_every_history_dyn (exBig.take 69) (by decide +kernel) (by decide +kernel) "or" .or
    (by decide) (by decide) (by decide) (by decide) (by decide) 192 193
    (Or.inr (by decide +kernel)) (Or.inr (by decide +kernel))

/-- the theorems apply to it: the state after the automatic sifting is good -/
example : Good3 ⟪exBig⟫₃.m ⟪exBig⟫₃.ext := reachable3_inv exBig exBig_guarded

end DD
