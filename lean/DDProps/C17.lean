/-
  DDProps.C17 — an operation that raises leaves the manager and all references intact.
  The model functions are TOTAL (`Mgr → Except Err α × Mgr`, the state persists when the
  Python code would have raised), so "after a failed call" is just the second component.
  `Kept m m'` = `Inv m'` (canonical, unique table in sync, computed table sound) ∧
  `Ext` (every node that existed is still there, unchanged) ∧ `Frame` (variable order,
  reordering threshold, context flag unchanged).
-/
import DDProofs.Total
namespace DD

/-- C17 (ITE): arbitrary integers as operands — unknown nodes included — never damage the
manager, whether the call returns or raises -/
theorem C17_ite (m : Mgr) (hI : Inv m) (hoff : m.lastLen = none) (g u v : Int) :
    Kept m (ite g u v m).2 :=
  ite_total m hI hoff g u v

/-- C17 (apply): unknown operator, wrong arity, unknown operands, or a valid call — the manager
is kept (for the aliases that do not quantify; quantifier aliases: see C03) -/
theorem C17_apply (m : Mgr) (hI : Inv m) (hoff : m.lastLen = none)
    (op : String) (u : Int) (v w : Option Int)
    (hnq : ∀ row, findRow op Gen.applyTable = some row → ∀ fa f b, row.templ ≠ .quant fa f b) :
    Kept m (apply op u v w m).2 :=
  apply_total m hI hoff op u v w hnq

/-- C17 (find_or_add): bad level, unknown children → refused with nothing changed; accepted
calls keep the invariant under the documented precondition -/
theorem C17_find_or_add (m : Mgr) (hI : Inv m) (i : Nat) (v w : Int) (hg : FoaGuard m i v w) :
    Kept m (findOrAddCore i v w m).2 :=
  findOrAddCore_total m hI i v w hg

/-- C17 (incref/decref of anything) -/
theorem C17_incref_decref (m : Mgr) (hI : Inv m) (u : Int) :
    Kept m (incref u m).2 ∧ Kept m (decref u m).2 :=
  ⟨incref_kept m hI u, decref_kept m hI u⟩

/-- C17: what `Kept` gives the user — every reference that was valid still is and denotes the
same function; the next call starts from a state satisfying every theorem's hypothesis -/
theorem C17_kept_means (m m' : Mgr) (hI : Inv m) (h : Kept m m') (u : Int) (hu : m.tbl.Mem u) :
    Inv m' ∧ m'.tbl.Mem u ∧ (∀ a, den m'.tbl u a = den m.tbl u a) ∧
    m'.tbl.vars = m.tbl.vars ∧ m'.tbl.l2v = m.tbl.l2v ∧ m'.ctx = m.ctx ∧ m'.lastLen = m.lastLen :=
  ⟨h.inv, (h.den hI u hu).1, (h.den hI u hu).2, h.frame.vars, h.frame.l2v, h.frame.ctx, h.frame.lastLen⟩

/-- a concrete rejected call: an unknown operator on the empty manager -/
example : (match (apply "nand" 1 (some 1) none ({} : Mgr)).1 with
    | .error .value => true | _ => false) = true := by decide

example : Kept ({} : Mgr) (ite 7 1 (-1) {}).2 := C17_ite {} Inv.init rfl 7 1 (-1)

end DD
