/-
  DDProps.C17 — an operation that raises leaves the manager and all references intact.
  The model functions are TOTAL (`Mgr → Except Err α × Mgr`, the state persists when the
  Python code would have raised), so "after a failed call" is just the second component.
  `Kept m m'` = `Inv m'` (canonical, unique table in sync, computed table sound) ∧
  `Ext` (every node that existed is still there, unchanged) ∧ `Frame` (variable order,
  reordering threshold, context flag unchanged).
-/
import DDProofs.Total
import DDProofs.ReachTotal
import DDProofs.Reach
import DDProofs.DynRejectedExpr
import DDProofs.DynExample
import DDProofs.RejectedOrder
import DDProps.C14
import DD.Dump
namespace DD

/-- C17 (ITE): arbitrary integers as operands — unknown nodes included — never damage the
manager, whether the call returns or raises -/
theorem C17_ite (m : Mgr) (hI : Inv m) (hoff : m.lastLen = none) (g u v : Int) :
    Kept m (ite g u v m).2 :=
  ite_total m hI hoff g u v

/-- C17 (apply): unknown operator, wrong arity, unknown operands, or a valid call — the manager
is kept (for the aliases that do not quantify; quantifier aliases: see C03) -/
theorem C17_apply (m : Mgr) (hI : Inv m) (hoff : m.lastLen = none)
    (op : String) (u : Int) (v w : Option Int)
    (hnq : ∀ row, findRow op Gen.applyTable = some row → ∀ fa f b, row.templ ≠ .quant fa f b) :
    Kept m (apply op u v w m).2 :=
  apply_total m hI hoff op u v w hnq

/-- C17 (find_or_add): bad level, unknown children → refused with nothing changed; accepted
calls keep the invariant under the documented precondition -/
theorem C17_find_or_add (m : Mgr) (hI : Inv m) (i : Nat) (v w : Int) (hg : FoaGuard m i v w) :
    Kept m (findOrAddCore i v w m).2 :=
  findOrAddCore_total m hI i v w hg

/-- C17 (incref/decref of anything) -/
theorem C17_incref_decref (m : Mgr) (hI : Inv m) (u : Int) :
    Kept m (incref u m).2 ∧ Kept m (decref u m).2 :=
  ⟨incref_kept m hI u, decref_kept m hI u⟩

/-- C17: what `Kept` gives the user — every reference that was valid still is and denotes the
same function; the next call starts from a state satisfying every theorem's hypothesis -/
theorem C17_kept_means (m m' : Mgr) (hI : Inv m) (h : Kept m m') (u : Int) (hu : m.tbl.Mem u) :
    Inv m' ∧ m'.tbl.Mem u ∧ (∀ a, den m'.tbl u a = den m.tbl u a) ∧
    m'.tbl.vars = m.tbl.vars ∧ m'.tbl.l2v = m.tbl.l2v ∧ m'.ctx = m.ctx ∧ m'.lastLen = m.lastLen :=
  ⟨h.inv, (h.den hI u hu).1, (h.den hI u hu).2, h.frame.vars, h.frame.l2v, h.frame.ctx, h.frame.lastLen⟩

/-- a concrete rejected call: an unknown operator on the empty manager -/
example : (match (apply "nand" 1 (some 1) none ({} : Mgr)).1 with
    | .error .value => true | _ => false) = true := by decide

example : Kept ({} : Mgr) (ite 7 1 (-1) {}).2 := C17_ite {} Inv.init rfl 7 1 (-1)

/-! ## the remaining decorated operations, dynamic reordering NOT enabled

`Kept` for ARBITRARY arguments (DDProofs.ReachTotal); `C17_error_then_normal` (DDProps.Histories)
is the every-history form. -/

/-- C17 (reordering off): `var` with any name, `quantify` / `cofactor` / `compose` / `rename` /
`let` with any node and any dictionary (undeclared names, unknown levels, unknown nodes), `apply`
with any operator string, arity and operands (quantifier aliases included) -/
theorem C17_ops_off (m : Mgr) (ext : Nat → Nat) (hI : Inv m) (hr : RefExact m ext)
    (hoff : m.lastLen = none) :
    (∀ name, Kept m (var name m).2) ∧
    (∀ u qvars fa, Kept m (quantify u qvars fa m).2) ∧
    (∀ u values, Kept m (cofactor u values m).2) ∧
    (∀ f varSub, Kept m (compose f varSub m).2) ∧
    (∀ u dvars, Kept m (rename u dvars m).2) ∧
    (∀ d u, Kept m (letOp d u m).2) ∧
    (∀ op u v w, Kept m (apply op u v w m).2) :=
  ⟨fun name => var_total m ext hI hr hoff name,
   fun u q fa => quantify_total m ext hI hr hoff u q fa,
   fun u vs => cofactor_total m ext hI hr hoff u vs,
   fun f vs => compose_total m ext hI hr hoff f vs,
   fun u d => rename_total m ext hI hr hoff u d,
   fun d u => letOp_total m ext hI hr hoff d u,
   fun op u v w => apply_total' m ext hI hr hoff op u v w⟩

/-- C17 (syntax error, undeclared variable, unknown `@n`; reordering off): `add_expr` on ANY
text — the sub-formulas reduced before the error is detected have been evaluated, so nodes may
have been added, nothing else: never the internal signal, `Kept`, counts exact for the ledger
they were exact for -/
theorem C17_add_expr (m : Mgr) (hI : Inv m) (hoff : m.lastLen = none) (s : String) :
    (addExpr s m).1 ≠ .error .needsReordering ∧ Kept m (addExpr s m).2 ∧
      RefKeep m (addExpr s m).2 :=
  addExpr_total_off m hI hoff s

/-- a syntax error after a complete sub-formula, on the example manager (a, b; nodes 2, 3, 4) -/
example : (raisedErr (addExpr "a /\\ b /\\" exM).1).isSome = true := by
  decide +kernel

/-! ## dynamic reordering ENABLED (or not): the decorator around a call that fails

`DynInv ext m` is the state between two calls (invariant, order bijection, counts exact for the
ledger `ext`, flag cleared, no schedule, at least two variables); it does not say whether
reordering is enabled, so every theorem below covers both. `DynKept ext m m'`:
`DynInv ext m'` ∧ enabled iff it was ∧ same declared names ∧ every held reference still a member
with the same function of the variable names ∧ same roots. -/

/-- C17, GENERIC (the failure counterpart of `C09_decorator_transparent`): for any body `f` that,
inside a context, in every state satisfying the invariant, returns a documented result, or is
aborted by a reordering request, or raises another exception — always having only added nodes —
the decorated call from `DynInv ext m` with the operands held, whatever it returns or raises:
(1) the exception is never the internal signal; (2) the final state is `DynInv ext m'`, also when
the failure happens in the SECOND attempt after sifting; (3) reordering is enabled afterwards iff
it was (F11); (4) same declared names; (5) every held reference is a member with the same
function by name; (6) `roots` unchanged; and a returned result is the documented one. -/
theorem C17_rejected_dyn {α} (ext : Nat → Nat) (f : M α) (ops : List Int)
    (Pre : Tbl → Prop) (Doc : Tbl → α → Tbl → Prop)
    (hbody : ∀ m0 : Mgr, Inv m0 → m0.ctx = true → OrderOK m0.tbl → Pre m0.tbl →
      (∀ u ∈ ops, m0.tbl.Mem u) → OutcomeE m0 (fun r m1 => Doc m0.tbl r m1.tbl) (f m0))
    (hpre : ∀ t t', Bridge ops t t' → Pre t → Pre t')
    (hdoc : ∀ t t' r t'', Bridge ops t t' → Pre t → Doc t' r t'' → Doc t r t'')
    (m : Mgr) (hD : DynInv ext m) (hops : ∀ u ∈ ops, HeldX ext u) (hpre0 : Pre m.tbl) :
    DynResult ext Doc m (tryToReorder f m) ∧
    (tryToReorder f m).1 ≠ .error .needsReordering ∧ DynKept ext m (tryToReorder f m).2 :=
  have h := tryToReorder_rejected ext (siftContract ext) f ops Pre Doc hbody hpre hdoc m hD hops hpre0
  ⟨h, h.kept⟩

/-- non-vacuity of `C17_rejected_dyn`: the body of `ite` with held operands meets its hypotheses
(two-outcome specification `iteF_out`, seen as a three-outcome one) -/
example (ext : Nat → Nat) (m : Mgr) (hD : DynInv ext m) (g u v : Int) (hg : HeldX ext g)
    (hu : HeldX ext u) (hv : HeldX ext v) : DynResult ext (IteDoc g u v) m (ite g u v m) := by
  refine (C17_rejected_dyn ext (iteRaw g u v) [g, u, v] (fun _ => True) (IteDoc g u v)
    ?_ (fun _ _ _ _ => trivial) ?_ m hD ?_ trivial).1
  · intro m0 hI0 _ _ _ hmem
    rw [iteRaw_eq]
    refine ((iteF_out (m0.nvars + 2) m0 g u v hI0 (hmem g (by simp)) (hmem u (by simp))
      (hmem v (by simp)) (by omega)).mono ?_).toE
    intro r m1 _ hp
    refine ⟨hp.mem, fun σ => ?_⟩
    have hl : m1.tbl.l2v = m0.tbl.l2v := hp.frame.l2v
    unfold denN Tbl.lift Tbl.nameOf
    rw [hl, hp.den]
  · intro t t' r t'' hB _ hd
    refine ⟨hd.1, fun σ => ?_⟩
    rw [hd.2 σ, (hB.ops g (by simp)).2 σ, (hB.ops u (by simp)).2 σ, (hB.ops v (by simp)).2 σ]
  · intro w hw
    simp only [List.mem_cons, List.not_mem_nil, or_false] at hw
    rcases hw with rfl | rfl | rfl
    · exact hg
    · exact hu
    · exact hv

/-- C17, generic, for bodies that accept ARBITRARY arguments (`TotE`: whatever they return or
raise, only nodes were added and the signal comes only from an armed context) -/
theorem C17_total_dyn {α} (ext : Nat → Nat) (f : M α)
    (hbody : ∀ m0 : Mgr, Inv m0 → m0.ctx = true → OrderOK m0.tbl → TotE m0 (f m0))
    (m : Mgr) (hD : DynInv ext m) : DynTotal ext m (tryToReorder f m) :=
  tryToReorder_total_dyn ext (siftContract ext) f hbody m hD

/-- C17: the path on which defect F11 lived — first attempt aborted by a request, sifting, the
retry REJECTED: the exception of the retry reaches the caller and `_last_len` is re-armed -/
theorem C17_retry_rejected_path {α} (f : M α) (m m1 m3 m4 : Mgr) (e : Err) (hctx : m.ctx = false)
    (h1 : f { m with ctx := true } = (.error .needsReordering, m1))
    (h2 : reorder none { m1 with ctx := m.ctx, lastLen := none } = (.ok (), m3))
    (h3 : f { m3 with ctx := true } = (.error e, m4)) (hne : e ≠ .needsReordering) :
    tryToReorder f m =
      (.error e, { m4 with ctx := m3.ctx, lastLen := some (Gen.growthFactor * m3.len) }) :=
  tryToReorder_retry_err f m m1 m3 m4 e hctx h1 h2 h3 hne

/-- C17 `ite` on ARBITRARY integers (unknown or foreign nodes) -/
theorem C17_ite_dyn (ext : Nat → Nat) (m : Mgr) (hD : DynInv ext m) (g u v : Int) :
    DynTotal ext m (ite g u v m) :=
  ite_total_dyn ext (siftContract ext) m hD g u v

/-- C17 `apply` with ANY operator string, arity and operands, quantifier aliases included -/
theorem C17_apply_dyn (ext : Nat → Nat) (m : Mgr) (hD : DynInv ext m) (op : String) (u : Int)
    (v w : Option Int) : DynTotal ext m (apply op u v w m) :=
  apply_total_dyn ext (siftContract ext) m hD op u v w

/-- C17 `var` with ANY (undeclared) name -/
theorem C17_var_dyn (ext : Nat → Nat) (m : Mgr) (hD : DynInv ext m) (name : String) :
    DynTotal ext m (var name m) :=
  var_total_dyn ext (siftContract ext) m hD name

/-- C17 `quantify` / `exist` / `forall` with ANY node and ANY names or levels -/
theorem C17_quantify_dyn (ext : Nat → Nat) (m : Mgr) (hD : DynInv ext m) (u : Int)
    (qvars : List Key) (fa : Bool) : DynTotal ext m (quantify u qvars fa m) :=
  quantify_total_dyn ext (siftContract ext) m hD u qvars fa

/-- C17 `cofactor` with ANY node and ANY dictionary -/
theorem C17_cofactor_dyn (ext : Nat → Nat) (m : Mgr) (hD : DynInv ext m) (u : Int)
    (values : List (Key × Bool)) : DynTotal ext m (cofactor u values m) :=
  cofactor_total_dyn ext (siftContract ext) m hD u values

/-- C17 `compose` with ANY node and ANY dictionary (undeclared names, unknown nodes) -/
theorem C17_compose_dyn (ext : Nat → Nat) (m : Mgr) (hD : DynInv ext m) (f : Int)
    (varSub : List (String × Int)) : DynTotal ext m (compose f varSub m) :=
  compose_total_dyn ext (siftContract ext) m hD f varSub

/-- C17 `rename` with ANY node and ANY renaming -/
theorem C17_rename_dyn (ext : Nat → Nat) (m : Mgr) (hD : DynInv ext m) (u : Int)
    (dvars : List (String × String)) : DynTotal ext m (rename u dvars m) :=
  rename_total_dyn ext (siftContract ext) m hD u dvars

/-- C17 `let` in its three homogeneous forms, ANY node and dictionary -/
theorem C17_let_dyn (ext : Nat → Nat) (m : Mgr) (hD : DynInv ext m) (d : LetArg) (u : Int) :
    DynTotal ext m (letOp d u m) :=
  letOp_total_dyn ext (siftContract ext) m hD d u

/-- C17 `cube` with ANY names (an undeclared name after some literals were already conjoined) -/
theorem C17_cube_dyn (ext : Nat → Nat) (m : Mgr) (hD : DynInv ext m)
    (dvars : List (String × Bool)) : DynTotal ext m (cube dvars m) :=
  cube_total_dyn ext (siftContract ext) m hD dvars

/-- C17 `copy_bdd(u, from_bdd, to_bdd)` into the manager: ANY source table (not even well
formed), ANY node (foreign to the source, variables not declared in the target) -/
theorem C17_copy_bdd_dyn (ext : Nat → Nat) (m : Mgr) (hD : DynInv ext m) (src : Tbl) (u : Int) :
    DynTotal ext m (copyBdd src u m) :=
  copyBdd_total_dyn ext (siftContract ext) m hD src u

/-- C17 `add_expr` on ANY text: syntax error at any token, undeclared variable, unknown `@n` -/
theorem C17_add_expr_dyn (ext : Nat → Nat) (m : Mgr) (hD : DynInv ext m) (s : String) :
    DynTotal ext m (addExpr s m) :=
  addExpr_total_dyn ext (siftContract ext) m hD s

/-- C17: what `DynTotal` gives the user, spelled out — the six points of the generic theorem -/
theorem C17_dyn_means {α} (ext : Nat → Nat) (m : Mgr) (res : Except Err α × Mgr)
    (h : DynTotal ext m res) :
    res.1 ≠ .error .needsReordering ∧
    (Inv res.2 ∧ OrderOK res.2.tbl ∧ RefExact res.2 ext ∧ res.2.ctx = false ∧ res.2.sched = []) ∧
    (res.2.lastLen.isSome = m.lastLen.isSome) ∧
    (∀ s, res.2.tbl.vars.contains s = m.tbl.vars.contains s) ∧
    (∀ w, HeldX ext w → res.2.tbl.Mem w ∧ ∀ σ, denN res.2.tbl w σ = denN m.tbl w σ) ∧
    res.2.roots = m.roots :=
  ⟨h.1, ⟨h.2.inv.inv, h.2.inv.order, h.2.inv.refs, h.2.inv.ctx, h.2.inv.sched⟩, h.2.enabled,
   h.2.names, h.2.held, h.2.roots⟩

/-- C17, "subsequent operations behave normally" with reordering enabled: after ANY call that
left `DynTotal` (in particular any rejected call above), the next `ite` on held operands returns
the if-then-else of the operands AS THEY WERE BEFORE the rejected call, by name — and that call
again leaves a state in which every theorem applies -/
theorem C17_error_then_normal_dyn {α} (ext : Nat → Nat) (m : Mgr) (res : Except Err α × Mgr)
    (h : DynTotal ext m res) (g u v : Int) (hg : HeldX ext g) (hu : HeldX ext u) (hv : HeldX ext v) :
    ∃ r m'', ite g u v res.2 = (.ok r, m'') ∧ DynInv ext m'' ∧ m''.tbl.Mem r ∧
      (m''.lastLen.isSome = m.lastLen.isSome) ∧
      (∀ σ, denN m''.tbl r σ = if denN m.tbl g σ then denN m.tbl u σ else denN m.tbl v σ) ∧
      (∀ w, HeldX ext w → m''.tbl.Mem w ∧ ∀ σ, denN m''.tbl w σ = denN m.tbl w σ) := by
  obtain ⟨r, m'', he, hp⟩ := ite_transparent ext (siftContract ext) res.2 h.2.inv g u v hg hu hv
  refine ⟨r, m'', he, hp.inv, hp.doc.1, by rw [hp.enabled, h.2.enabled], fun σ => ?_, fun w hw => ?_⟩
  · rw [hp.doc.2 σ, (h.2.held g hg).2 σ, (h.2.held u hu).2 σ, (h.2.held v hv).2 σ]
  · exact ⟨(hp.held w hw).1, fun σ => by rw [(hp.held w hw).2 σ, (h.2.held w hw).2 σ]⟩

/-! ### non-vacuity: `exDyn` (variables a, b; nodes 2 = a, 3 = b, 4 = a ∧ b held by the user;
reordering enabled, `_last_len = 1`, a request due at the next `find_or_add`) -/

example : DynInv exExt exDyn ∧ exDyn.lastLen.isSome = true := ⟨exDyn_dynInv, rfl⟩

/-- rejected before anything is built: unknown node, unknown operator, undeclared variable -/
example : raisedErr (ite 7 4 (-1) exDyn).1 = some .key ∧
    raisedErr (apply "nand" 4 (some 4) none exDyn).1 = some .value ∧
    raisedErr (var "nosuch" exDyn).1 = some .value ∧
    raisedErr (quantify 4 [Key.name "nosuch"] false exDyn).1 = some .value := by
  decide +kernel

/-- rejected AFTER the reordering request was served — the failure happens in the retry: in the
first attempt `cube(a, nosuch)` creates the node of `a` (the request fires: abort, sifting), the
second attempt is rejected at `nosuch`; reordering is still enabled, the flag is cleared -/
example : raisedErr (cubeBody [("a", true), ("nosuch", true)] { exDyn with ctx := true }).1 =
      some .needsReordering ∧
    raisedErr (cube [("a", true), ("nosuch", true)] exDyn).1 = some .value ∧
    (cube [("a", true), ("nosuch", true)] exDyn).2.lastLen.isSome = true ∧
    (cube [("a", true), ("nosuch", true)] exDyn).2.ctx = false := by
  decide +kernel

example : DynTotal exExt exDyn (cube [("a", true), ("nosuch", true)] exDyn) :=
  C17_cube_dyn exExt exDyn exDyn_dynInv _

/-- a syntax error with reordering enabled -/
example : (raisedErr (addExpr "a /\\ b /\\" exDyn).1).isSome = true ∧
    raisedErr (addExpr "a /\\ b /\\" exDyn).1 ≠ some .needsReordering := by
  decide +kernel

example : HeldX exExt 4 ∧ HeldX exExt (-1) := ⟨exExt_held4, Or.inl rfl⟩

/-! ## the other kinds of rejected call named in the property -/

/-- C17 (conflicting level): `add_var(name, level)` that raises — the name exists at another
level, the level is used by another name, the level is negative — changes NOTHING
(validation before mutation; the two refusals are `C14_add_var_refuses`) -/
theorem C17_add_var_rejected (m m' : Mgr) (var : String) (level : Option Int) (e : Err)
    (h : addVar var level m = (.error e, m')) : m' = m ∧ e ≠ .needsReordering := by
  unfold addVar at h
  simp only [bind, M.bind', M.get, pure] at h
  cases hv : m.tbl.vars[var]? with
  | some vl =>
    simp only [hv] at h
    cases level with
    | none => simp [M.pure'] at h
    | some l =>
      by_cases hl : l = (vl : Int)
      · simp [M.pure', hl] at h
      · simp [M.throw, hl] at h
        exact ⟨h.2.symm, by rw [← h.1]; simp⟩
  | none =>
    simp only [hv] at h
    by_cases hneg : level.getD (m.nvars : Int) < 0
    · simp [hneg, M.bind', M.throw] at h
      exact ⟨h.2.symm, by rw [← h.1]; simp⟩
    · simp only [hneg, if_false] at h
      cases hl : m.tbl.l2v[(level.getD (m.nvars : Int)).toNat]? with
      | some x =>
        simp [hl, M.throw] at h
        exact ⟨h.2.symm, by rw [← h.1]; simp⟩
      | none => simp [hl, M.bind', M.set, M.pure'] at h

/-- the two documented refusals do occur (C14) -/
theorem C17_add_var_conflict (m : Mgr) (var : String) :
    (∀ (i : Nat) (l : Int), m.tbl.vars[var]? = some i → l ≠ i →
      addVar var (some l) m = (.error .value, m)) ∧
    (∀ (l : Nat) (other : String), m.tbl.vars[var]? = none → m.tbl.l2v[l]? = some other →
      addVar var (some (l : Int)) m = (.error .value, m)) :=
  C14_add_var_refuses m var

example : addVar "a" (some 1) exM = (.error .value, exM) :=
  (C17_add_var_conflict exM "a").1 0 1 (by decide) (by decide)

/-- C17 (variable still in use, unknown variable): `undeclare_vars` that raises changes NOTHING
(`C14_undeclare`: it either succeeds or raises `ValueError` leaving the manager as it was) -/
theorem C17_undeclare_rejected (m m' : Mgr) (vrs : List String) (hI : Inv m) (hO : OrderOK m.tbl)
    (e : Err) (h : undeclareVars vrs m = (.error e, m')) : m' = m ∧ e = .value := by
  have := C14_undeclare m vrs hI hO
  rw [h] at this
  exact ⟨this.2, this.1⟩

example : undeclareVars ["b", "a"] undeclExM = (.error .value, undeclExM) :=
  C14_undeclare_refuses _ _ ⟨"a", by simp, Or.inr undeclExM_a⟩

/-- C17 (bad order, `swap`): `swap(x, y, levels)` whose levels are not two adjacent valid levels,
or with an undeclared name, raises `ValueError` and changes NOTHING -/
theorem C17_swap_bad_args (m : Mgr) :
    (∀ x y : Int, ¬ (0 ≤ x ∧ x < m.nvars ∧ 0 ≤ y ∧ y < m.nvars ∧ (y - x = 1 ∨ x - y = 1)) →
      swap (.level x) (.level y) true m = (.error .value, m)) ∧
    (∀ (s : String) (ya : VarOrLevel), m.tbl.vars[s]? = none →
      swap (.name s) ya true m = (.error .value, m)) :=
  ⟨fun x y h => swap_given_bad_levels m x y h, fun s ya h => swap_unknown_name m s ya h⟩

/-- C17 (bad order, the public `swap(x, y)`): it runs the full collection BEFORE validating its
arguments, so a refused call leaves the state of `collect_garbage()`: good again for the same
ledger, everything the user holds kept with its meaning (`GcFullPost`, C06) -/
theorem C17_swap_public_bad_args (m : Mgr) (ext : Nat → Nat) (h : GoodState m ext) (x y : Int)
    (hbad : ¬ (0 ≤ x ∧ x < m.nvars ∧ 0 ≤ y ∧ y < m.nvars ∧ (y - x = 1 ∨ x - y = 1))) :
    ∃ m', swap (.level x) (.level y) false m = (.error .value, m') ∧ GcFullPost m ext m' ∧
      GoodState m' ext :=
  swap_public_rejected m ext h x y hbad

/-- C17 (bad order, `reorder(bdd, order)`): an order that does not list every variable raises
`ValueError` and changes NOTHING -/
theorem C17_reorder_bad_order (m : Mgr) (order : List (String × Int)) (h : m.nvars ≠ order.length) :
    reorder (some order) m = (.error .value, m) :=
  reorder_bad_length m order h

example : swap (.level 0) (.level 2) true exM = (.error .value, exM) :=
  (C17_swap_bad_args exM).1 0 2 (by decide)
example : reorder (some [("a", 0)]) exM = (.error .value, exM) :=
  C17_reorder_bad_order exM _ (by decide)

/-! ## unreadable files — what is and what is not a theorem

* A file that cannot be opened or unpickled (`OSError`, `UnpicklingError`, JSON syntax) fails in
  Python BEFORE any method of the manager runs; the models of `load` (`loadPickle`, `loadJson`,
  `loadDddmp`) take the file's CONTENT as argument, so this kind of failure has no counterpart in
  the model: nothing to prove, the correspondence check (C12: "unreadable / wrong-extension
  files") observes the manager after the exception.
* A wrong file extension is refused by a function that does not see the manager at all
  (`bddLoadKind`, `autorefLoadKind` : `String → Except Err FileKind`): stated below.
* `dddmp.load` builds a FRESH manager (`loadDddmp : DddmpFile → Except Err Mgr`): a refused file
  (`C16_unsupported_varinfo`) leaves no manager behind.
* A readable file with ILL-FORMED content loaded into an existing manager (`loadPickle` /
  `loadJson` failing half-way): NOT covered by any existing theorem (C12 is proved for
  well-formed files only); `loadVars` declares the file's variables before the nodes are read,
  so "nothing changed" is false there, and with `levels=True` the declared levels may leave a
  gap (F7), so `OrderOK` cannot be claimed in general. -/

/-- C17 (wrong file type): the refusal of `load` for a name that is not `*.p` (`*.json`) is
decided by the file name alone -/
theorem C17_load_wrong_filetype (filename : String) :
    (filename.toLower.endsWith ".p" = false → bddLoadKind filename = .error .value) ∧
    (filename.toLower.endsWith ".p" = false → filename.toLower.endsWith ".json" = false →
      autorefLoadKind filename = .error .value) := by
  refine ⟨fun h => ?_, fun h1 h2 => ?_⟩
  · unfold bddLoadKind; simp [h]
  · unfold autorefLoadKind; simp [h1, h2]

end DD
