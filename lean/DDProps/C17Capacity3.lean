/-
  DDProps.C17Capacity3 — the capacity layer, operation by operation (round 3).

  DONE here: `_quantify` / `BDD.quantify` / `exist` / `forall` and the quantifier aliases of
  `apply` (so `apply` with capacity now covers EVERY operator: `applyCapQ`); `cofactor` / `let` with
  Boolean values; `compose` / `let` with functions; `rename` / `let` with names / `copy_bdd`; `cube`; `add_expr`.
  For each: the twin over an arbitrary `find_or_add` (and nested `ite`) is the model when
  instantiated with the capacity-free ones; the three-outcome specification holds over ANY
  `find_or_add` / `ite` with three-outcome specifications (documented result | aborted by a
  request | exception of `E`, always `StepK`); instance `max_nodes = cap`; the decorated call keeps
  `DynInv` after ANY outcome.
  NOT done for `quantify`: the refinement under `CapOK` as a THEOREM (it is compared line by line
  on `ddvcap`): `_quantify` calls the decorated `ite`, so `CapSim` must be relativised to states
  inside a context; the infrastructure (`CapKAt.seq`) was written but the induction did not
  elaborate within the time available.
-/
import DDProofs.Capacity3Quantify
import DDProofs.Capacity3Cofactor
import DDProofs.Capacity3Rename
import DDProofs.Capacity3Cube
import DDProofs.Capacity3Expr
import DDProps.C17Capacity2
open Std

namespace DD

/-- the layer is the model -/
theorem C17_quantify_layer_is_model :
    (∀ Q fa f u ov c, quantifyFG findOrAdd ite Q fa f u ov c = quantifyF Q fa f u ov c) ∧
    quantifyG findOrAdd ite = quantify ∧ applyG ite quantify = apply :=
  ⟨quantifyFG_model, quantifyG_model, applyG_model⟩

/-- GENERIC: `_quantify` over ANY `find_or_add` and nested `ite` with three-outcome
specifications: the documented quantification (memo sound) | aborted by a request | an exception of
`E` — always having only added nodes, counts exact -/
theorem C17_quantify_over (E : Err → Prop) (foa iteX : Int → Int → Int → M Int)
    (hfoa : FoaX E foa) (hite : IteNestedX E iteX) (Q : List Nat) (fa : Bool)
    (f : Nat) (m : Mgr) (u : Int) (ordvar : List Nat) (cache : HashMap Int Int)
    (hI : Inv m) (hq : Quiet m) (hu : m.tbl.Mem u) (hmemo : QMemo fa Q m.tbl cache)
    (hord : ∀ j, j ∈ Q → m.tbl.levelOf u ≤ j → j ∈ ordvar) (hf : m.nvars + 1 ≤ f + m.tbl.levelOf u) :
    OutcomeX2 E m (fun r c m' => QMemo fa Q m'.tbl c ∧ QEntry fa Q m'.tbl u r)
      (quantifyFG foa iteX Q fa f u ordvar cache m) :=
  quantifyFG_outX E foa iteX hfoa hite Q fa f m u ordvar cache hI hq hu hmemo hord hf

/-- C17 `_quantify` with `max_nodes = cap`: the only exception besides the signal is
`RuntimeError`, and whatever happens only nodes were added (`StepK`) -/
theorem C17_quantify_full (cap : Nat) (Q : List Nat) (fa : Bool) (f : Nat) (m : Mgr) (u : Int)
    (ordvar : List Nat) (cache : HashMap Int Int) (hI : Inv m) (hq : Quiet m) (hu : m.tbl.Mem u)
    (hmemo : QMemo fa Q m.tbl cache) (hord : ∀ j, j ∈ Q → m.tbl.levelOf u ≤ j → j ∈ ordvar)
    (hf : m.nvars + 1 ≤ f + m.tbl.levelOf u) :
    OutcomeX2 (fun e => e = .runtime) m (fun r c m' => QMemo fa Q m'.tbl c ∧ QEntry fa Q m'.tbl u r)
      (quantifyFG (findOrAddCap cap) (iteCap cap) Q fa f u ordvar cache m) :=
  quantifyCapF_outX cap Q fa f m u ordvar cache hI hq hu hmemo hord hf

/-- C17 `BDD.quantify` / `exist` / `forall` with `max_nodes = cap`: ANY node, ANY names or levels,
dynamic reordering enabled or not, whatever it returns or raises — `RuntimeError('full')`
half-way included: `DynTotal` (never the signal; `DynInv` for the caller's ledger, flag cleared;
enabled iff it was; held references keep their function by name) -/
theorem C17_quantify_full_dyn (cap : Nat) (ext : Nat → Nat) (m : Mgr) (hD : DynInv ext m)
    (u : Int) (qvars : List Key) (fa : Bool) : DynTotal ext m (quantifyCap cap u qvars fa m) :=
  quantifyCap_total_dyn cap ext m hD u qvars fa

/-- held node, declared names: the documented quantification by name, or an exception that is not
the signal with everything kept -/
theorem C17_quantify_full_result (cap : Nat) (ext : Nat → Nat) (m : Mgr) (hD : DynInv ext m)
    (u : Int) (hu : HeldX ext u) (fa : Bool) (names : List String)
    (hdecl : ∀ s ∈ names, m.tbl.vars.contains s = true) :
    DynResult ext (QuantDoc fa names u) m (quantifyCap cap u (names.map Key.name) fa m) :=
  quantifyCap_result_dyn cap ext m hD u hu fa names hdecl

/-- C17 `BDD.apply` with `max_nodes = cap`, EVERY operator of the vocabulary (the exception of
`C17_apply_nonquant_iff` is closed for the full outcome), ANY arity and operands: `DynTotal` -/
theorem C17_apply_all_full_dyn (cap : Nat) (ext : Nat → Nat) (m : Mgr) (hD : DynInv ext m)
    (op : String) (u : Int) (v w : Option Int) : DynTotal ext m (applyCapQ cap op u v w m) :=
  applyCapQ_total_dyn cap ext m hD op u v w

/-! ### non-vacuity on `capM` (a, b, c; nodes 2, 3, 4 held; `_min_free = 5`) -/

/- (the memo of `_quantify` is a `HashMap`, which the kernel does not evaluate: the concrete
refusals half-way are the protocol lines of `checks_capacity.py`, replayed on `ddvcap`; here the
hypotheses of the theorems are met by `capM`) -/
example : DynTotal capSt.ext capM (quantifyCap 6 2 [Key.name "a"] false capM) :=
  C17_quantify_full_dyn 6 capSt.ext capM capM_dynInv _ _ _

example : DynResult capSt.ext (QuantDoc false ["a", "b"] 2) capM
    (quantifyCap 6 2 (["a", "b"].map Key.name) false capM) :=
  C17_quantify_full_result 6 capSt.ext capM capM_dynInv 2 capM_held.1 false ["a", "b"]
    (by decide +kernel)

example : DynTotal capSt.ext capM (applyCapQ 6 "\\E" 2 (some 3) none capM) :=
  C17_apply_all_full_dyn 6 capSt.ext capM capM_dynInv _ _ _ _

/-! ## `cofactor` / `let` with Boolean values -/

theorem C17_cofactor_layer_is_model :
    (∀ values f u ov c, cofactorFG findOrAdd values f u ov c = cofactorF values f u ov c) ∧
    cofactorG findOrAdd = cofactor ∧ (∀ d u, letBoolsG cofactor d u = letOp (.bools d) u) :=
  ⟨cofactorFG_model, cofactorG_model, letBoolsG_model⟩

/-- GENERIC: `_cofactor` over ANY `find_or_add` with a three-outcome specification -/
theorem C17_cofactor_over (E : Err → Prop) (foa : Int → Int → Int → M Int) (hfoa : FoaX E foa)
    (values : List (Nat × Bool)) (f : Nat) (m : Mgr) (u : Int) (ordvar : List Nat)
    (cache : HashMap Int Int) (hI : Inv m) (hu : m.tbl.Mem u) (hmemo : CofMemo values m.tbl cache)
    (hord : ∀ j, (values.lookup j).isSome = true → m.tbl.levelOf u ≤ j → j ∈ ordvar)
    (hf : m.nvars + 1 ≤ f + m.tbl.levelOf u) :
    OutcomeX2 E m (fun r c m' => CofMemo values m'.tbl c ∧ CofEntry values m'.tbl u r)
      (cofactorFG foa values f u ordvar cache m) :=
  cofactorFG_outX E foa hfoa values f m u ordvar cache hI hu hmemo hord hf

/-- C17 `_cofactor` with `max_nodes = cap`: restriction (memo sound) | aborted | `RuntimeError`,
always `StepK` -/
theorem C17_cofactor_full (cap : Nat) (values : List (Nat × Bool)) (f : Nat) (m : Mgr) (u : Int)
    (ordvar : List Nat) (cache : HashMap Int Int) (hI : Inv m) (hu : m.tbl.Mem u)
    (hmemo : CofMemo values m.tbl cache)
    (hord : ∀ j, (values.lookup j).isSome = true → m.tbl.levelOf u ≤ j → j ∈ ordvar)
    (hf : m.nvars + 1 ≤ f + m.tbl.levelOf u) :
    OutcomeX2 (fun e => e = .runtime) m
      (fun r c m' => CofMemo values m'.tbl c ∧ CofEntry values m'.tbl u r)
      (cofactorFG (findOrAddCap cap) values f u ordvar cache m) :=
  cofactorCapF_outX cap values f m u ordvar cache hI hu hmemo hord hf

/-- C17 `BDD.cofactor` and `BDD.let` with Boolean values, `max_nodes = cap`: ANY node, ANY
dictionary, whatever they return or raise: `DynTotal` -/
theorem C17_cofactor_full_dyn (cap : Nat) (ext : Nat → Nat) (m : Mgr) (hD : DynInv ext m) :
    (∀ u values, DynTotal ext m (cofactorCap cap u values m)) ∧
    (∀ d u, DynTotal ext m (letBoolsG (cofactorCap cap) d u m)) :=
  ⟨cofactorCap_total_dyn cap ext m hD, letBoolsCap_total_dyn cap ext m hD⟩

example : DynTotal capSt.ext capM (cofactorCap 6 2 [(Key.name "a", true)] capM) :=
  (C17_cofactor_full_dyn 6 capSt.ext capM capM_dynInv).1 _ _

/-! ## `compose` / `let` with functions -/

theorem C17_compose_layer_is_model :
    (∀ j fu f g c, composeFG findOrAdd ite j fu f g c = composeF j fu f g c) ∧
    (∀ sub fu f c, vectorComposeFG findOrAdd ite sub fu f c = vectorComposeF sub fu f c) ∧
    composeG findOrAdd ite = compose ∧ (∀ d u, letRefsG compose d u = letOp (.refs d) u) :=
  ⟨composeFG_model, vectorComposeFG_model, composeG_model, letRefsG_model⟩

/-- GENERIC: `_compose` over ANY `find_or_add` / nested `ite` with three-outcome specifications -/
theorem C17_compose_over (E : Err → Prop) (foa iteX : Int → Int → Int → M Int)
    (hfoa : FoaX E foa) (hite : IteNestedX E iteX) (j fu : Nat) (m : Mgr) (f g : Int)
    (cache : HashMap (Int × Int) Int) (hI : Inv m) (hq : Quiet m) (hf : m.tbl.Mem f)
    (hg : m.tbl.Mem g) (hmemo : KMemo j m.tbl cache)
    (hfu : 2 * m.nvars + 1 ≤ fu + m.tbl.levelOf f + m.tbl.levelOf g) :
    OutcomeX2 E m (fun r c m' => KMemo j m'.tbl c ∧ KPost j m'.tbl f g r)
      (composeFG foa iteX j fu f g cache m) :=
  composeFG_outX E foa iteX hfoa hite j fu m f g cache hI hq hf hg hmemo hfu

/-- C17 `BDD.compose` and `BDD.let` with functions, `max_nodes = cap`: ANY node, ANY dictionary
(one variable: `_compose`; several: `_vector_compose`), whatever they return or raise: `DynTotal` -/
theorem C17_compose_full_dyn (cap : Nat) (ext : Nat → Nat) (m : Mgr) (hD : DynInv ext m) :
    (∀ f varSub, DynTotal ext m (composeCap cap f varSub m)) ∧
    (∀ d u, DynTotal ext m (letRefsG (composeCap cap) d u m)) :=
  ⟨composeCap_total_dyn cap ext m hD, letRefsCap_total_dyn cap ext m hD⟩

/-! ## `rename` / `let` with names / `copy_bdd` -/

theorem C17_rename_layer_is_model :
    (∀ src lm fu u c, copyBddFG findOrAdd ite src lm fu u c = copyBddF src lm fu u c) ∧
    renameG findOrAdd ite = rename ∧ copyBddG findOrAdd ite = copyBdd ∧
    (∀ d u, letNamesG rename d u = letOp (.names d) u) :=
  ⟨copyBddFG_model, renameG_model, copyBddG_model, letNamesG_model⟩

/-- GENERIC: `_copy_bdd` over ANY `find_or_add` / nested `ite` that are total on arbitrary
integers (only nodes added, whatever they answer) is total: ANY node, level map, source table -/
theorem C17_copy_over (foa iteX : Int → Int → Int → M Int) (hvar : VarTotX foa) (hiteT : IteTotX iteX)
    (src : Option Tbl) (lm : List (Nat × Nat)) (fu : Nat) (u : Int) (cache : HashMap Nat Int)
    (m : Mgr) (hI : Inv m) (hc : m.ctx = true) : TotE m (copyBddFG foa iteX src lm fu u cache m) :=
  copyBddFG_totE foa iteX hvar hiteT src lm fu u cache m hI hc

/-- C17 `BDD.rename`, `BDD.let` with names, and `copy_bdd(u, from, to)` INTO a manager with
`max_nodes = cap`: ANY arguments, whatever they return or raise: `DynTotal` -/
theorem C17_rename_full_dyn (cap : Nat) (ext : Nat → Nat) (m : Mgr) (hD : DynInv ext m) :
    (∀ u dvars, DynTotal ext m (renameCap cap u dvars m)) ∧
    (∀ d u, DynTotal ext m (letNamesG (renameCap cap) d u m)) ∧
    (∀ src u, DynTotal ext m (copyBddCap cap src u m)) :=
  ⟨renameCap_total_dyn cap ext m hD, letNamesCap_total_dyn cap ext m hD, copyBddCap_total_dyn cap ext m hD⟩

example : DynTotal capSt.ext capM (composeCap 6 2 [("a", 3)] capM) :=
  (C17_compose_full_dyn 6 capSt.ext capM capM_dynInv).1 _ _
example : DynTotal capSt.ext capM (renameCap 6 3 [("b", "a")] capM) :=
  (C17_rename_full_dyn 6 capSt.ext capM capM_dynInv).1 _ _

/-! ## `cube` -/

theorem C17_cube_layer_is_model : cubeG var apply = cube := cubeG_model

/-- GENERIC: `cube` over ANY nested `var` / `apply` that are total on arbitrary arguments -/
theorem C17_cube_over (varX : String → M Int) (applyX : String → Int → Option Int → Option Int → M Int)
    (hv : VarNestedTot varX) (ha : ApplyNestedTot applyX) (m : Mgr) (hI : Inv m) (hc : m.ctx = true)
    (dvars : List (String × Bool)) : TotE m (cubeBodyG varX applyX dvars m) :=
  cubeBodyG_totE varX applyX hv ha m hI hc dvars

/-- C17 `BDD.cube` with `max_nodes = cap`: ANY names, whatever it returns or raises (refused after
some literals were already conjoined included): `DynTotal` -/
theorem C17_cube_full_dyn (cap : Nat) (ext : Nat → Nat) (m : Mgr) (hD : DynInv ext m)
    (dvars : List (String × Bool)) : DynTotal ext m (cubeCap cap dvars m) :=
  cubeCap_total_dyn cap ext m hD dvars

example : DynTotal capSt.ext capM (cubeCap 6 [("a", true), ("b", false)] capM) :=
  C17_cube_full_dyn 6 capSt.ext capM capM_dynInv _

/-! ## `add_expr` -/

theorem C17_add_expr_layer_is_model :
    (∀ t, evalAstG var apply quantify rename t = evalAst t) ∧
    addExprG (evalAstG var apply quantify rename) = addExpr :=
  ⟨evalAstG_model, addExprG_model⟩

/-- GENERIC: the evaluation of ANY syntax tree over nested `var` / `apply` / `quantify` / `rename`
that are total on arbitrary arguments -/
theorem C17_add_expr_over (varX : String → M Int)
    (applyX : String → Int → Option Int → Option Int → M Int)
    (quantX : Int → List Key → Bool → M Int) (renameX : Int → List (String × String) → M Int)
    (hv : VarNestedTot varX) (ha : ApplyNestedTot applyX) (hq : QuantNestedTot quantX)
    (hr : RenameNestedTot renameX) (toks : List Tok) (m : Mgr) (hI : Inv m) (hc : m.ctx = true) :
    TotE m (addExprToksG (evalAstG varX applyX quantX renameX) toks m) :=
  addExprToksG_totE _ (evalAstG_totE _ _ _ _ hv ha hq hr) toks m hI hc

/-- C17 `BDD.add_expr` with `max_nodes = cap`: ANY text, whatever it returns or raises — refused
half-way through the formula, or a syntax error after some sub-formulas were built: `DynTotal` -/
theorem C17_add_expr_full_dyn (cap : Nat) (ext : Nat → Nat) (m : Mgr) (hD : DynInv ext m)
    (s : String) : DynTotal ext m (addExprCap cap s m) :=
  addExprCap_total_dyn cap ext m hD s

example : DynTotal capSt.ext capM (addExprCap 6 "a /\\ (b \\/ ~ c)" capM) :=
  C17_add_expr_full_dyn 6 capSt.ext capM capM_dynInv _

end DD
