/-
  DDProps.C08Values — what the methods of `dd.autoref` RETURN (C08 with C01 / C18 behind it).

  `DDProps/C08.lean` states that every method keeps the invariant, the other handles and the
  live meanings.  Here: the new `Function` sits on the node the core operation returned and
  that node means the documented connective BY VARIABLE NAME (`C08_fApply_value`,
  `C08_function_operators`); `<=`, `<`, `==`, `!=` return the truth value of the relation
  between the two functions, with the temporaries released (`C08_le_value`, `C08_lt_value`,
  `C08_eq_value`); `var`, `level`, `low`, `high`, `negated` of a live `Function` satisfy the
  Shannon expansion by name (`C08_shannon`); `len(f)` / `dag_size` is the number of reachable
  nodes (`C08_len_value`); `succ` (`C08_succ_value`).
  Every theorem holds in BOTH modes (`off = true`: reordering not enabled; `off = false`: it
  may be enabled and may fire inside the call, C09).  Where a decorated operation is involved the
  mode `off = false` carries `Two off a` = at least two declared variables (`DD.Two`: with fewer a
  request that fires ends in the `ValueError` of sifting — an outcome of `C08_ops_dyn_total`, not a
  value).
-/
import DDProps.C08
import DDProofs.AutoValues
open Std

namespace DD

variable {off : Bool}

/-! ### operators -/

/-- `f.<op>(g)` (`Function._apply`) for live `Function`s `f` on `u`, `g` on `v` of this manager
and a binary propositional alias `op`: the method RETURNS; the new `Function` `h` sits on the
node `r` that `apply(op, u, v)` of the wrapped manager returned; `r` denotes the documented
connective of the operands as a function of the variable NAMES; the invariant (count equation
included) holds afterwards, no other handle is touched, every live `Function` keeps its
meaning. -/
theorem C08_fApply_value (a : AMgr) (hi : AInv off a) (ht : Two off a) (op : String) (c : Conn)
    (hc : docConn op = some c) (h2 : c.arity = 2) (hq1 : c ≠ .forall_) (hq2 : c ≠ .exists_)
    (hall : Gen.allOps.contains op = true) (hs ho h : Nat)
    (hf : a.handles.contains h = false) (u v : Int)
    (hu : a.handles[hs]? = some u) (hv : a.handles[ho]? = some v) :
    ∃ (r : Int) (a' : AMgr), fApply op hs (some ho) h a = (.ok r, a') ∧
      a'.handles[h]? = some r ∧
      (∃ m1, apply op u (some v) none a.m = (.ok r, m1) ∧ a'.m.tbl = m1.tbl) ∧
      (∀ σ, denN a'.m.tbl r σ = c.eval (denN a.m.tbl u σ) (denN a.m.tbl v σ) false) ∧
      AInv off a' ∧ (∀ j : Nat, j ≠ h → a'.handles[j]? = a.handles[j]?) ∧
      (∀ (j : Nat) (w : Int), a.handles[j]? = some w →
        a'.m.tbl.Mem w ∧ ∀ σ, denN a'.m.tbl w σ = denN a.m.tbl w σ) := by
  obtain ⟨r, a', he, hh, hm, _, hd⟩ :=
    fApply_binary_value a hi ht op c hc h2 hq1 hq2 hall hs ho h hf u v hu hv
  obtain ⟨i', hs', hd'⟩ := fApply_keepsAll off op hs (some ho) h a hi hf _ _ he
  exact ⟨r, a', he, by rw [hh]; exact TreeMap.getElem?_insert_self, hm, hd, i', hs', hd'⟩

/-- the implication form asked for: IF `fApply` returned `r`, then … (the call is
deterministic, so this is the previous theorem read backwards) -/
theorem C08_fApply_value_of_ok (a : AMgr) (hi : AInv off a) (ht : Two off a) (op : String) (c : Conn)
    (hc : docConn op = some c) (h2 : c.arity = 2) (hq1 : c ≠ .forall_) (hq2 : c ≠ .exists_)
    (hall : Gen.allOps.contains op = true) (hs ho h : Nat)
    (hf : a.handles.contains h = false) (u v : Int)
    (hu : a.handles[hs]? = some u) (hv : a.handles[ho]? = some v)
    (r : Int) (a' : AMgr) (he : fApply op hs (some ho) h a = (.ok r, a')) :
    a'.handles[h]? = some r ∧
      (∃ m1, apply op u (some v) none a.m = (.ok r, m1) ∧ a'.m.tbl = m1.tbl) ∧
      (∀ σ, denN a'.m.tbl r σ = c.eval (denN a.m.tbl u σ) (denN a.m.tbl v σ) false) := by
  obtain ⟨r0, a0, he0, h1, h2', h3, _⟩ :=
    C08_fApply_value a hi ht op c hc h2 hq1 hq2 hall hs ho h hf u v hu hv
  rw [he] at he0
  cases he0
  exact ⟨h1, h2', h3⟩

/-- `~f` (every unary alias): returns `-u`, the new `Function` sits on it, it means the
negation by name, the table is untouched -/
theorem C08_fApply_not_value (a : AMgr) (hi : AInv off a) (op : String)
    (hc : docConn op = some .not) (hall : Gen.allOps.contains op = true) (hs h : Nat)
    (hf : a.handles.contains h = false) (u : Int) (hu : a.handles[hs]? = some u) :
    ∃ a', fApply op hs none h a = (.ok (-u), a') ∧ a'.handles[h]? = some (-u) ∧
      a'.m.tbl = a.m.tbl ∧ (∀ σ, denN a'.m.tbl (-u) σ = !denN a.m.tbl u σ) ∧
      AInv off a' ∧ (∀ j : Nat, j ≠ h → a'.handles[j]? = a.handles[j]?) := by
  obtain ⟨a', he, ht, hh⟩ := fApply_not_eval a hi op hc hall hs h hf u hu
  obtain ⟨i', hs', _⟩ := fApply_keepsAll off op hs none h a hi hf _ _ he
  refine ⟨a', he, by rw [hh]; exact TreeMap.getElem?_insert_self, ht, fun σ => ?_, i', hs'⟩
  rw [ht]
  exact den_neg a.m.tbl hi.inv.wf.toWF u _ (hi.hmem hs u hu)

/-- the operators of `dd.autoref.Function` by their Python spelling — `f & g`, `f | g`,
`f.implies(g)`, `f.equiv(g)`, `~f`: each returns a `Function` whose node means, by name,
the conjunction / disjunction / implication / equivalence / negation of the operands -/
theorem C08_function_operators (a : AMgr) (hi : AInv off a) (ht : Two off a) (hs ho h : Nat)
    (hf : a.handles.contains h = false) (u v : Int)
    (hu : a.handles[hs]? = some u) (hv : a.handles[ho]? = some v) :
    (∃ r a', fApply "and" hs (some ho) h a = (.ok r, a') ∧ a'.handles[h]? = some r ∧ AInv off a' ∧
      ∀ σ, denN a'.m.tbl r σ = (denN a.m.tbl u σ && denN a.m.tbl v σ)) ∧
    (∃ r a', fApply "or" hs (some ho) h a = (.ok r, a') ∧ a'.handles[h]? = some r ∧ AInv off a' ∧
      ∀ σ, denN a'.m.tbl r σ = (denN a.m.tbl u σ || denN a.m.tbl v σ)) ∧
    (∃ r a', fApply "implies" hs (some ho) h a = (.ok r, a') ∧ a'.handles[h]? = some r ∧
      AInv off a' ∧ ∀ σ, denN a'.m.tbl r σ = (!denN a.m.tbl u σ || denN a.m.tbl v σ)) ∧
    (∃ r a', fApply "equiv" hs (some ho) h a = (.ok r, a') ∧ a'.handles[h]? = some r ∧
      AInv off a' ∧ ∀ σ, denN a'.m.tbl r σ = (denN a.m.tbl u σ == denN a.m.tbl v σ)) ∧
    (∃ a', fApply "not" hs none h a = (.ok (-u), a') ∧ a'.handles[h]? = some (-u) ∧ AInv off a' ∧
      ∀ σ, denN a'.m.tbl (-u) σ = !denN a.m.tbl u σ) := by
  refine ⟨?_, ?_, ?_, ?_, ?_⟩
  · obtain ⟨r, a', he, hh, _, hd, i', _⟩ := C08_fApply_value a hi ht "and" .and (by decide) (by decide)
      (by decide) (by decide) (by decide) hs ho h hf u v hu hv
    exact ⟨r, a', he, hh, i', hd⟩
  · obtain ⟨r, a', he, hh, _, hd, i', _⟩ := C08_fApply_value a hi ht "or" .or (by decide) (by decide)
      (by decide) (by decide) (by decide) hs ho h hf u v hu hv
    exact ⟨r, a', he, hh, i', hd⟩
  · obtain ⟨r, a', he, hh, _, hd, i', _⟩ := C08_fApply_value a hi ht "implies" .implies (by decide)
      (by decide) (by decide) (by decide) (by decide) hs ho h hf u v hu hv
    exact ⟨r, a', he, hh, i', hd⟩
  · obtain ⟨r, a', he, hh, _, hd, i', _⟩ := C08_fApply_value a hi ht "equiv" .equiv (by decide)
      (by decide) (by decide) (by decide) (by decide) hs ho h hf u v hu hv
    exact ⟨r, a', he, hh, i', hd⟩
  · obtain ⟨a', he, hh, _, hd, i', _⟩ := C08_fApply_not_value a hi "not" (by decide) (by decide)
      hs h hf u hu
    exact ⟨a', he, hh, i', hd⟩

/-! ### comparisons -/

/-- `f <= g` for live `Function`s `f` on `u`, `g` on `v`: the method RETURNS, and returns
`True` exactly when `f` implies `g` as functions of the variable names; its three temporaries
(`~f`, `g | ~f`, `bdd.true`) are released: the registry ends exactly as it started, the
invariant (count equation included) holds, every live `Function` keeps its meaning -/
theorem C08_le_value (a : AMgr) (hi : AInv off a) (ht : Two off a) (hs ho : Nat) (u v : Int)
    (hu : a.handles[hs]? = some u) (hv : a.handles[ho]? = some v) :
    ∃ (b : Bool) (a' : AMgr), fLe hs ho a = (.ok b, a') ∧
      (b = true ↔ ∀ σ, denN a.m.tbl u σ = true → denN a.m.tbl v σ = true) ∧
      AInv off a' ∧ (∀ j : Nat, a'.handles[j]? = a.handles[j]?) ∧
      (∀ (j : Nat) (w : Int), a.handles[j]? = some w →
        a'.m.tbl.Mem w ∧ ∀ σ, denN a'.m.tbl w σ = denN a.m.tbl w σ) := by
  obtain ⟨b, a', he, hb⟩ := fLe_eval (orOk_all off) a hi ht hs ho u v hu hv
  exact ⟨b, a', he, hb, fLe_keepsAll off hs ho a hi _ _ he⟩

/-- `f < g`: `True` exactly when `f` implies `g` and they are not the same function -/
theorem C08_lt_value (a : AMgr) (hi : AInv off a) (ht : Two off a) (hs ho : Nat) (u v : Int)
    (hu : a.handles[hs]? = some u) (hv : a.handles[ho]? = some v) :
    ∃ (b : Bool) (a' : AMgr), fLt hs ho a = (.ok b, a') ∧
      (b = true ↔ (∀ σ, denN a.m.tbl u σ = true → denN a.m.tbl v σ = true) ∧
        ¬ ∀ σ, denN a.m.tbl u σ = denN a.m.tbl v σ) ∧
      AInv off a' ∧ (∀ j : Nat, a'.handles[j]? = a.handles[j]?) ∧
      (∀ (j : Nat) (w : Int), a.handles[j]? = some w →
        a'.m.tbl.Mem w ∧ ∀ σ, denN a'.m.tbl w σ = denN a.m.tbl w σ) := by
  obtain ⟨b, a', he, hb⟩ := fLt_eval a hi ht hs ho u v hu hv
  exact ⟨b, a', he, hb, fLt_keepsAll off hs ho a hi _ _ he⟩

/-- `f == g` / `f != g`: nothing changes, and the answer is "the same function of the
variable names" (canonicity, C01) -/
theorem C08_eq_value (a : AMgr) (hi : AInv off a) (hs ho : Nat) (u v : Int)
    (hu : a.handles[hs]? = some u) (hv : a.handles[ho]? = some v) :
    (∃ b, fEq hs ho a = (.ok b, a) ∧ (b = true ↔ ∀ σ, denN a.m.tbl u σ = denN a.m.tbl v σ)) ∧
    (∃ b, fNe hs ho a = (.ok b, a) ∧ (b = true ↔ ¬ ∀ σ, denN a.m.tbl u σ = denN a.m.tbl v σ)) := by
  have hq := eq_iff_denN hi.inv.wf hi.order u v (hi.hmem hs u hu) (hi.hmem ho v hv)
  refine ⟨⟨u == v, fEq_eval a hs ho u v hu hv, ?_⟩, ⟨!(u == v), fNe_eval a hs ho u v hu hv, ?_⟩⟩
  · rw [beq_iff_eq, hq]
  · rw [← hq]; simp

/-! ### looking through a `Function` -/

/-- a live `Function` `f` on a NON-TERMINAL node `u`: `f.var` is a declared name `x` whose level
is `f.level`; `f.low` / `f.high` return new `Function`s on stored nodes `lo`, `hi` (`hi`
positive); `f.negated` is `u < 0`; and the function of `f` is the Shannon expansion BY NAME
  `⟦f⟧ σ = (if σ x then ⟦hi⟧ σ else ⟦lo⟧ σ) xor negated`.
The reads change nothing; `low` / `high` create the one new handle and keep the invariant. -/
theorem C08_shannon (a : AMgr) (hi : AInv off a) (hs h : Nat) (hf : a.handles.contains h = false)
    (u : Int) (hu : a.handles[hs]? = some u) (hnt : u.natAbs ≠ 1) :
    ∃ (x : String) (lvl : Nat) (lo hiN : Int),
      fVar hs a = (.ok (some x), a) ∧ fLevel hs a = (.ok lvl, a) ∧
      a.m.tbl.vars[x]? = some lvl ∧
      (∃ a1, fChild false hs h a = (.ok (some lo), a1) ∧ a1.handles[h]? = some lo ∧
        a1.m.tbl = a.m.tbl ∧ AInv off a1 ∧ ∀ j : Nat, j ≠ h → a1.handles[j]? = a.handles[j]?) ∧
      (∃ a2, fChild true hs h a = (.ok (some hiN), a2) ∧ a2.handles[h]? = some hiN ∧
        a2.m.tbl = a.m.tbl ∧ AInv off a2 ∧ ∀ j : Nat, j ≠ h → a2.handles[j]? = a.handles[j]?) ∧
      a.m.tbl.Mem lo ∧ a.m.tbl.Mem hiN ∧ 0 < hiN ∧
      lvl < a.m.tbl.levelOf lo ∧ lvl < a.m.tbl.levelOf hiN ∧
      ∀ σ, denN a.m.tbl u σ =
        ((decide (u < 0)) ^^ (if σ x then denN a.m.tbl hiN σ else denN a.m.tbl lo σ)) := by
  obtain ⟨n, hn⟩ := node_of_mem (hi.hmem hs u hu) hnt
  obtain ⟨_, hsh, hml, hmh, hpos, _, hll, hlh⟩ :=
    C18_expand_spec a.m.tbl hi.inv.wf.toWF u n hnt hn
  have hlt : n.lvl < a.m.tbl.nvars := hi.inv.wf.toWF.lvl_lt _ _ hn
  obtain ⟨a1, he1, ht1, hh1⟩ := fChild_eval a hi false hs h u n hf hu hnt hn
  obtain ⟨a2, he2, ht2, hh2⟩ := fChild_eval a hi true hs h u n hf hu hnt hn
  obtain ⟨i1, hs1, _⟩ := fChild_keeps false hs h a hi hf _ _ he1
  obtain ⟨i2, hs2, _⟩ := fChild_keeps true hs h a hi hf _ _ he2
  exact ⟨a.m.tbl.nameOf n.lvl, n.lvl, n.lo, n.hi, fVar_eval a hi hs u n hu hnt hn,
    fLevel_eval a hs u n hu hnt hn, hi.order.vars_nameOf hlt,
    ⟨a1, he1, by rw [hh1]; exact TreeMap.getElem?_insert_self, ht1, i1, hs1⟩,
    ⟨a2, he2, by rw [hh2]; exact TreeMap.getElem?_insert_self, ht2, i2, hs2⟩,
    hml, hmh, hpos, hll, hlh, hsh⟩

/-- `len(f)` / `f.dag_size` of a live `Function` on `u`: changes nothing and returns the
number of nodes reachable from `u`, the terminal included (the list `l` of these nodes is
strictly ascending, so its length counts each node once) -/
theorem C08_len_value (a : AMgr) (hi : AInv off a) (hs : Nat) (u : Int)
    (hu : a.handles[hs]? = some u) :
    ∃ l : List Nat, fLen hs a = (.ok l.length, a) ∧ l.Pairwise (· < ·) ∧
      (∀ v, v ∈ l ↔ Reach a.m.tbl u.natAbs v) ∧ 1 ∈ l :=
  fLen_eval a hi hs u hu

/-- `bdd.succ(f)` on a non-terminal node: returns `(level, low, high)` with two new
`Function`s on the stored children; together with the name at that level they satisfy the
Shannon expansion; the invariant holds, no other handle is touched -/
theorem C08_succ_value (a : AMgr) (hi : AInv off a) (hu h1 h2 : Nat) (hne : h1 ≠ h2)
    (hf1 : a.handles.contains h1 = false) (hf2 : a.handles.contains h2 = false)
    (u : Int) (hl : a.handles[hu]? = some u) (hnt : u.natAbs ≠ 1) :
    ∃ (lvl : Nat) (lo hiN : Int) (a' : AMgr),
      aSucc hu h1 h2 a = (.ok (lvl, some (lo, hiN)), a') ∧
      a'.handles[h1]? = some lo ∧ a'.handles[h2]? = some hiN ∧ a'.m.tbl = a.m.tbl ∧
      AInv off a' ∧ (∀ j : Nat, j ∉ [h1, h2] → a'.handles[j]? = a.handles[j]?) ∧
      ∀ σ, denN a.m.tbl u σ = ((decide (u < 0)) ^^
        (if σ (a.m.tbl.nameOf lvl) then denN a.m.tbl hiN σ else denN a.m.tbl lo σ)) := by
  obtain ⟨n, hn⟩ := node_of_mem (hi.hmem hu u hl) hnt
  obtain ⟨_, hsh, _⟩ := C18_expand_spec a.m.tbl hi.inv.wf.toWF u n hnt hn
  obtain ⟨a', he, ht, hh⟩ := aSucc_eval a hi hu h1 h2 hne hf1 hf2 u n hl hnt hn
  obtain ⟨i', hs', _⟩ := aSucc_keepsL hu h1 h2 hne a hi
    (fun j hj => by
      rcases List.mem_cons.mp hj with rfl | hj
      · exact hf1
      · rcases List.mem_cons.mp hj with rfl | hj
        · exact hf2
        · cases hj) _ _ he
  refine ⟨n.lvl, n.lo, n.hi, a', he, ?_, ?_, ht, i', hs', hsh⟩
  · rw [hh, getElem?_insert_ne _ _ _ _ hne]; exact TreeMap.getElem?_insert_self
  · rw [hh]; exact TreeMap.getElem?_insert_self

/-! ### non-vacuity: the state of `DDProps/C08.lean` (three variables, handles on 2, 3, −4) -/

theorem nvA4_two : Two true nvA4 := fun h => nomatch h

/-- `fa & fx`: hypotheses met; the theorem gives a returned node, its handle and its meaning -/
example := C08_fApply_value nvA4 nvA4_inv nvA4_two "and" .and (by decide) (by decide) (by decide)
  (by decide) (by decide) 0 2 3 nvA4_f3 2 (-4) nvA4_h0 nvA4_h2
example := C08_function_operators nvA4 nvA4_inv nvA4_two 0 2 3 nvA4_f3 2 (-4) nvA4_h0 nvA4_h2
example := C08_lt_value nvA4 nvA4_inv nvA4_two 0 2 2 (-4) nvA4_h0 nvA4_h2
example := C08_eq_value nvA4 nvA4_inv 0 2 2 (-4) nvA4_h0 nvA4_h2
/-- `fx` sits on a non-terminal, complemented node: `var`, `low`, `high`, `negated` -/
example := C08_shannon nvA4 nvA4_inv 2 3 nvA4_f3 (-4) nvA4_h2 (by decide)
example := C08_succ_value nvA4 nvA4_inv 2 3 4 (by decide) nvA4_f3 (by decide +kernel) (-4) nvA4_h2
  (by decide)
example : (fVar 2 nvA4).1 = .ok (some "a") ∧ (fLen 2 nvA4).1 = .ok 3 ∧
    (fEq 0 2 nvA4).1 = .ok false := by decide +kernel

/-- `fa <= fx` is `False` (not vacuously: from the value theorem and the assignment that makes
every variable true) -/
example : ∃ a', fLe 0 2 nvA4 = (.ok false, a') ∧ ∀ j : Nat, a'.handles[j]? = nvA4.handles[j]? := by
  obtain ⟨b, a', he, hb, _, hsame, _⟩ := C08_le_value nvA4 nvA4_inv nvA4_two 0 2 2 (-4) nvA4_h0 nvA4_h2
  cases b with
  | false => exact ⟨a', he, hsame⟩
  | true =>
    have h1 := hb.mp rfl (fun _ => true) (by decide +kernel)
    have h2 : denN nvA4.m.tbl (-4) (fun _ => true) = false := by decide +kernel
    rw [h2] at h1
    cases h1

/-- `fx <= fx` is `True` -/
example : ∃ a', fLe 2 2 nvA4 = (.ok true, a') := by
  obtain ⟨b, a', he, hb, _⟩ := C08_le_value nvA4 nvA4_inv nvA4_two 2 2 (-4) (-4) nvA4_h2 nvA4_h2
  have : b = true := hb.mpr (fun _ h => h)
  subst this
  exact ⟨a', he⟩

/-- the same state with dynamic reordering ENABLED (`bdd.configure(reordering=True)`): the
mode `off = false` is inhabited by a state with variables, nodes and handles, and the value
theorems and `C08_ops_dyn_total` apply to it -/
def nvD : AMgr := (aConfigure (some true) nvA4).2

theorem nvD_inv : AInv false nvD :=
  ((C08_ops_dyn_total 99).2.2.2.2.2.2.2.2.2.2.2.2.2.2.2.2.2.2.2.1 (some true) nvA4
    nvA4_inv.toDyn (by decide +kernel) _ _ rfl).1
example : nvD.m.lastLen.isSome = true := by decide +kernel
theorem nvD_two : Two false nvD := fun _ => by decide +kernel
theorem nvD_h0 : nvD.handles[(0 : Nat)]? = some 2 := by decide +kernel
theorem nvD_h2 : nvD.handles[(2 : Nat)]? = some (-4) := by decide +kernel
theorem nvD_f3 : nvD.handles.contains 3 = false := by decide +kernel

example := C08_fApply_value nvD nvD_inv nvD_two "and" .and (by decide) (by decide) (by decide) (by decide)
  (by decide) 0 2 3 nvD_f3 2 (-4) nvD_h0 nvD_h2
example := C08_le_value nvD nvD_inv nvD_two 0 2 2 (-4) nvD_h0 nvD_h2
example := C08_shannon nvD nvD_inv 2 3 nvD_f3 (-4) nvD_h2 (by decide)
/-- a rejected call with reordering enabled: an id that is not in use, an unknown operator, an
undeclared name — the guarantee of `C08_ops_dyn_total` applies to this state -/
example := (C08_ops_dyn_total 3).2.2.1 "nonsense" 7 (some 0) none nvD nvD_inv nvD_f3 _ _ rfl
example := (C08_ops_dyn_total 3).1 "undeclared" nvD nvD_inv nvD_f3 _ _ rfl
/-- … and these calls do raise (`ValueError` for the undeclared name and for the unknown
operator on live operands; the lookup of the id that is not in use fails first) -/
example : (aVar "undeclared" 3 nvD).1 = .error .value ∧
    (aApply "nonsense" 7 (some 0) none 3 nvD).1 = .error .other ∧
    (aApply "nonsense" 0 (some 1) none 3 nvD).1 = .error .value := by decide +kernel

end DD
