/-
  DDProps.C09 — dynamic reordering is invisible.
  The decorator `_try_to_reorder` is modelled exactly as written (context flag, swallowing the
  signal only at the outermost level, `_last_len := None`, sifting, one retry, re-arming with
  `GROWTH_FACTOR * len`).  The TRIGGER is left abstract: `ite_dyn_spec` never unfolds
  `requestReordering`, so it covers the request firing at any node creation (every `_last_len`,
  and the harness's "fire at the k-th request" override).
-/
import DDProofs.DynProofs
import DDProps.Tables
namespace DD

/-- C09 (decorated `ite`, hence `apply` of every propositional alias), conditional on the
specification of sifting (C07) `SiftSpec` and on counts not decreasing while an attempt only
adds nodes: with dynamic reordering enabled, at whichever node creation the request fires,
the result denotes — by variable name — the if-then-else of the operands as they were; the
operands and every other held reference keep their meaning; the internal signal is not
raised (the call returns `.ok`); reordering is still enabled afterwards; the context flag is
restored. -/
theorem C09_ite_transparent_of_siftSpec (hS : SiftSpec) (m : Mgr) (hI : Inv m)
    (hctx : m.ctx = false) (hn : 2 ≤ m.nvars) (g u v : Int)
    (hg : m.tbl.Mem g) (hu : m.tbl.Mem u) (hv : m.tbl.Mem v)
    (hhg : Held m g) (hhu : Held m u) (hhv : Held m v)
    (hmono : ∀ (m0 m1 : Mgr) (e : Err), iteRaw g u v m0 = (.error e, m1) →
      ∀ w, Held m0 w → Held m1 w) :
    ∃ r m', ite g u v m = (.ok r, m') ∧ DynPost m g u v r m' :=
  ite_dyn_spec hS m hI hctx hn g u v hg hu hv hhg hhu hhv hmono

/-- C09 (unconditional part): an attempt aborted by a reordering request has only ADDED nodes —
the invariant holds, every existing node is unchanged, the order and the flags are as before;
and a request can only fire inside an armed context. -/
theorem C09_abort_only_adds (m : Mgr) (hI : Inv m) (g u v : Int)
    (hg : m.tbl.Mem g) (hu : m.tbl.Mem u) (hv : m.tbl.Mem v) (m1 : Mgr)
    (h : iteF (m.nvars + 2) g u v m = (.error .needsReordering, m1)) :
    AbortPost m m1 := by
  have := iteF_spec (m.nvars + 2) m g u v hI hg hu hv (by omega)
  rw [h] at this
  exact this.2

/-- C09 (unconditional part): the path of the decorator after an aborted first attempt —
requests disabled during sifting and the retry, re-armed with `GROWTH_FACTOR * len` -/
theorem C09_retry_path {α} (f : M α) (m m1 m3 m4 : Mgr) (a : α) (hctx : m.ctx = false)
    (h1 : f { m with ctx := true } = (.error .needsReordering, m1))
    (h2 : reorder none { m1 with ctx := m.ctx, lastLen := none } = (.ok (), m3))
    (h3 : f { m3 with ctx := true } = (.ok a, m4)) :
    tryToReorder f m =
      (.ok a, { m4 with ctx := m3.ctx, lastLen := some (Gen.growthFactor * m3.len) }) :=
  tryToReorder_retry f m m1 m3 m4 a hctx h1 h2 h3

/-- C09 (FULL STATEMENT for the record; open: needs `SiftSpec` from C07 and the analogous
abort-aware specifications of `quantify`, `cofactor`, `compose`, `rename`, `cube`, `var`,
`add_expr`, `copy_bdd`): every decorated operation is transparent. Decided for those
operations by correspondence at every trigger position only. -/
def C09_all_operations_statement : Prop :=
  SiftSpec → ∀ (m : Mgr) (g u v : Int), Inv m → m.ctx = false → 2 ≤ m.nvars →
    m.tbl.Mem g → m.tbl.Mem u → m.tbl.Mem v → Held m g → Held m u → Held m v →
    ∃ r m', ite g u v m = (.ok r, m') ∧ DynPost m g u v r m'

end DD
