/-
  DDProps.C09 — dynamic reordering is invisible.

  The decorator `_try_to_reorder` is modelled exactly as written (context flag, swallowing the
  signal only at the outermost level, `_last_len := None`, sifting, one retry, the `finally`
  that re-arms with `GROWTH_FACTOR * len`).  The TRIGGER is left abstract: no theorem below
  unfolds `requestReordering`, so each covers the request firing at any `find_or_add` (every
  `_last_len`, and the harness's "fire at the k-th request" override).

  ## The contract of sifting: `SiftContract ext`  (DDProofs.DynGeneric), PROVED in DDProofs.DynSift

  ```
  structure DynInv (ext : Nat → Nat) (m : Mgr) : Prop where
    inv : Inv m                  order : OrderOK m.tbl        refs : RefExact m ext
    ctx : m.ctx = false          sched : m.sched = []
    roots : ∀ r ∈ m.roots, 0 < ext r.natAbs                   nvars : 2 ≤ m.nvars

  structure SiftContract (ext : Nat → Nat) : Prop where
    run : ∀ (m : Mgr), DynInv ext m → m.lastLen = none →
      ∃ m', reorder none m = (.ok (), m') ∧ DynInv ext m' ∧ m'.lastLen = none ∧
        m'.nvars = m.nvars ∧
        (∀ s, m'.tbl.vars.contains s = m.tbl.vars.contains s) ∧
        ∀ u : Int, HeldX ext u → ∀ σ, denN m'.tbl u σ = denN m.tbl u σ
  ```
  where `HeldX ext u := u.natAbs = 1 ∨ 0 < ext u.natAbs` ("the user holds `u`", `ext` being the
  ghost ledger of user-held references of `RefExact`, C06) and `denN` is the denotation as a
  function of variable NAMES.  It is the statement of C07 about `reorder(bdd)` (sifting).

  Mapping to C07: `DynInv ext m` is `ReorderInv ext m` (`inv`, `order`, `refExact`, `rootsHeld`;
  its `off` follows from `ctx = false`) plus `sched = []` and `2 ≤ nvars` (with one variable the
  real `reorder` raises `ValueError`, C07 `sift_single_variable_raises`).  The contract is C07's
  totality theorem for the default schedule (`C07_sift_total` / `applySifting_total_default`):
  `ReorderInv ext m'`, `m'.sched = []`, and `ReorderRel ext m m'` (held denotations by name,
  declared names, `nvars`, `roots`, `ctx`, `lastLen` kept).  The bridge is
  `siftContract (ext) : SiftContract ext` (DDProofs.DynSift, `C09_siftContract` below), so the
  transparency theorems of this file are UNCONDITIONAL.  The lemmas with the contract as an
  explicit hypothesis are `tryToReorder_transparent`, `ite_transparent`, `var_transparent`,
  `quantify_transparent`, `cofactor_transparent`, `compose_transparent`, `rename_transparent`,
  `apply_binary_transparent`, `apply_ite_transparent`, `let_*_transparent` (DDProofs.Dyn*).
  `SiftContract` replaces the former `SiftSpec`, which quantified over every `Inv` state and is
  FALSE (`not_siftSpec` in DDProofs.DynApply: sifting fails on a state whose recorded schedule
  does not start with a sifting order).  `C09_siftContract_example` evaluates the contract's
  conclusion on a concrete manager.
-/
import DDProofs.DynExample
import DDProofs.DynSift
import DDProofs.DynCube
import DDProofs.DynExpr
import DDProofs.DynLoad
import DDProofs.DynImageKeys
import DDProps.Tables
namespace DD

/-! ## unconditional parts -/

/-- C09: an attempt aborted by a reordering request has only ADDED nodes — the invariant holds,
every existing node is unchanged, the order and the flags are as before; and a request can only
fire inside an armed context. -/
theorem C09_abort_only_adds (m : Mgr) (hI : Inv m) (g u v : Int)
    (hg : m.tbl.Mem g) (hu : m.tbl.Mem u) (hv : m.tbl.Mem v) (m1 : Mgr)
    (h : iteF (m.nvars + 2) g u v m = (.error .needsReordering, m1)) :
    AbortPost m m1 := by
  have := iteF_spec (m.nvars + 2) m g u v hI hg hu hv (by omega)
  rw [h] at this
  exact this.2

/-- C09: the path of the decorator after an aborted first attempt — requests disabled during
sifting and the retry, re-armed with `GROWTH_FACTOR * len` -/
theorem C09_retry_path {α} (f : M α) (m m1 m3 m4 : Mgr) (a : α) (hctx : m.ctx = false)
    (h1 : f { m with ctx := true } = (.error .needsReordering, m1))
    (h2 : reorder none { m1 with ctx := m.ctx, lastLen := none } = (.ok (), m3))
    (h3 : f { m3 with ctx := true } = (.ok a, m4)) :
    tryToReorder f m =
      (.ok a, { m4 with ctx := m3.ctx, lastLen := some (Gen.growthFactor * m3.len) }) :=
  tryToReorder_retry f m m1 m3 m4 a hctx h1 h2 h3

/-- C09 (and C06): through `_ite`, whether it returns or is aborted by a reordering request, the
reference counts stay EXACT for the same ledger of user-held references (the nodes an aborted
attempt leaves behind are unreferenced), no count decreases and no key of `_ref` disappears —
so everything the user holds is still held when sifting takes over. -/
theorem C09_counts_through_ite (f : Nat) (m : Mgr) (ext : Nat → Nat) (g u v : Int) (hI : Inv m)
    (hr : RefExact m ext) (hg : m.tbl.Mem g) (hu : m.tbl.Mem u) (hv : m.tbl.Mem v)
    (hf : m.nvars + 1 ≤ f + min (m.tbl.levelOf g) (min (m.tbl.levelOf u) (m.tbl.levelOf v))) :
    RefExact (iteF f g u v m).2 ext ∧ RefMono m (iteF f g u v m).2 :=
  iteF_refKeep f m g u v hI hg hu hv hf ext hr

example : Inv exM ∧ RefExact exM exExt ∧ exM.tbl.Mem 4 := ⟨exM_inv, exM_refExact, Or.inr (by decide)⟩

/-- C09: the decorated `ite` NESTED in a reordering context (as the recursions call it) is `_ite`:
the flag stays set and every exception, the reordering signal included, is re-raised. -/
theorem C09_nested_ite_is_raw (g u v : Int) (m : Mgr) (h : m.ctx = true) :
    ite g u v m = ((iteRaw g u v m).1, { (iteRaw g u v m).2 with ctx := true }) :=
  ite_nested_eq g u v m h

/-- C09: hence, inside a context or with requests disabled (`Quiet`), the decorated `ite` returns
the if-then-else or is aborted having only added nodes (`Outcome`) — it never reorders. -/
theorem C09_nested_ite (m : Mgr) (hI : Inv m) (hq : Quiet m) (g u v : Int)
    (hg : m.tbl.Mem g) (hu : m.tbl.Mem u) (hv : m.tbl.Mem v) :
    Outcome m (fun r m' => ItePost m g u v r m') (ite g u v m) :=
  ite_nested_spec m hI hq g u v hg hu hv

/-- C09: `_cofactor` in ANY state satisfying the invariant: documented restriction, or abort by a
reordering request having only added nodes (counts exact and monotone included). -/
theorem C09_cofactorF_abort_aware (values : List (Nat × Bool)) (f : Nat) (m : Mgr) (u : Int)
    (ordvar : List Nat) (cache : Std.HashMap Int Int) (hI : Inv m) (hu : m.tbl.Mem u)
    (hmemo : CofMemo values m.tbl cache)
    (hord : ∀ j, (values.lookup j).isSome = true → m.tbl.levelOf u ≤ j → j ∈ ordvar)
    (hf : m.nvars + 1 ≤ f + m.tbl.levelOf u) :
    Outcome2 m (fun r c m' => CofMemo values m'.tbl c ∧ CofEntry values m'.tbl u r)
      (cofactorF values f u ordvar cache m) :=
  cofactorF_out values f m u ordvar cache hI hu hmemo hord hf

/-- C09: `_quantify` inside a context (or with requests disabled) -/
theorem C09_quantifyF_abort_aware (Q : List Nat) (fa : Bool) (f : Nat) (m : Mgr) (u : Int)
    (ordvar : List Nat) (cache : Std.HashMap Int Int) (hI : Inv m) (hq : Quiet m)
    (hu : m.tbl.Mem u) (hmemo : QMemo fa Q m.tbl cache)
    (hord : ∀ j, j ∈ Q → m.tbl.levelOf u ≤ j → j ∈ ordvar)
    (hf : m.nvars + 1 ≤ f + m.tbl.levelOf u) :
    Outcome2 m (fun r c m' => QMemo fa Q m'.tbl c ∧ QEntry fa Q m'.tbl u r)
      (quantifyF Q fa f u ordvar cache m) :=
  quantifyF_out Q fa f m u ordvar cache hI hq hu hmemo hord hf

/-- C09: `_compose` inside a context (or with requests disabled) -/
theorem C09_composeF_abort_aware (j : Nat) (fu : Nat) (m : Mgr) (f g : Int)
    (cache : Std.HashMap (Int × Int) Int) (hI : Inv m) (hq : Quiet m) (hf : m.tbl.Mem f)
    (hg : m.tbl.Mem g) (hmemo : KMemo j m.tbl cache)
    (hfu : 2 * m.nvars + 1 ≤ fu + m.tbl.levelOf f + m.tbl.levelOf g) :
    Outcome2 m (fun r c m' => KMemo j m'.tbl c ∧ KPost j m'.tbl f g r)
      (composeF j fu f g cache m) :=
  composeF_out j fu m f g cache hI hq hf hg hmemo hfu

/-- C09: `_vector_compose` inside a context (or with requests disabled) -/
theorem C09_vectorComposeF_abort_aware (sub : List (Nat × Int)) (fu : Nat) (m : Mgr) (f : Int)
    (cache : Std.HashMap Nat Int) (hI : Inv m) (hq : Quiet m) (hf : m.tbl.Mem f)
    (hsub : SubMem m.tbl sub) (hmemo : VMemo sub m.tbl cache)
    (hfu : m.nvars + 1 ≤ fu + m.tbl.levelOf f) :
    Outcome2 m (fun r c m' => VMemo sub m'.tbl c ∧ VPost sub m'.tbl f r)
      (vectorComposeF sub fu f cache m) :=
  vectorComposeF_out sub fu m f cache hI hq hf hsub hmemo hfu

/-- C09: `_copy_bdd` (rename, copy between managers) inside a context of the target -/
theorem C09_copyBddF_abort_aware (src : Option Tbl) (lm : List (Nat × Nat)) (S : Tbl) (hS : WF S)
    (fu : Nat) (m : Mgr) (u : Int) (cache : Std.HashMap Nat Int) (hI : Inv m) (hq : Quiet m)
    (hsrc : SrcOK src S m.tbl) (hu : S.Mem u) (hmemo : CMemo lm S m.tbl cache)
    (hlm : ∀ i, InSupp S u i → ∃ j, lm.lookup i = some j ∧ j < m.nvars)
    (hfu : S.nvars + 1 ≤ fu + S.levelOf u) :
    Outcome2 m (fun r c m' => CMemo lm S m'.tbl c ∧ CPost lm S m'.tbl u r)
      (copyBddF src lm fu u cache m) :=
  copyBddF_out src lm S hS fu m u cache hI hq hsrc hu hmemo hlm hfu

example : Inv { exM with ctx := true } ∧ Quiet { exM with ctx := true } :=
  ⟨exM_inv.setCtx true, Or.inl rfl⟩

/-! ## the decorator (the contract of sifting is `siftContract`, from C07) -/

/-- C09, GENERIC: for any body `f` that in every state satisfying the invariant (inside a context,
`Pre` on its table, operands `ops` present) returns a result documented by `Doc` or is aborted
having only added nodes, with `Pre` / `Doc` stable under a change of order that keeps the
operands' meaning by name: the decorated `f` — reordering enabled or not, the request firing at
whichever `find_or_add` — returns the documented result relative to the operands as they were,
never raises the signal (`.ok`), leaves a state `DynInv` (counts exact for the same ledger, flag
cleared), reordering enabled iff it was, the same declared names, and every user-held reference
with the same meaning by name. -/
theorem C09_decorator_transparent {α} (ext : Nat → Nat) (f : M α) (ops : List Int)
    (Pre : Tbl → Prop) (Doc : Tbl → α → Tbl → Prop)
    (hbody : ∀ m0 : Mgr, Inv m0 → m0.ctx = true → OrderOK m0.tbl → Pre m0.tbl →
      (∀ u ∈ ops, m0.tbl.Mem u) → Outcome m0 (fun r m1 => Doc m0.tbl r m1.tbl) (f m0))
    (hpre : ∀ t t', Bridge ops t t' → Pre t → Pre t')
    (hdoc : ∀ t t' r t'', Bridge ops t t' → Pre t → Doc t' r t'' → Doc t r t'')
    (m : Mgr) (hD : DynInv ext m) (hops : ∀ u ∈ ops, HeldX ext u) (hpre0 : Pre m.tbl) :
    ∃ r m', tryToReorder f m = (.ok r, m') ∧ DynPostG ext Doc m r m' :=
  tryToReorder_transparent ext (siftContract ext) f ops Pre Doc hbody hpre hdoc m hD hops hpre0

/-- C09 `ite` (with dynamic reordering enabled, at whichever node creation the request fires):
the result denotes — by variable name — the if-then-else of the operands as they were. -/
theorem C09_ite_transparent (ext : Nat → Nat) (m : Mgr)
    (hD : DynInv ext m) (g u v : Int) (hg : HeldX ext g) (hu : HeldX ext u) (hv : HeldX ext v) :
    ∃ r m', ite g u v m = (.ok r, m') ∧ DynPostG ext (IteDoc g u v) m r m' :=
  ite_transparent ext (siftContract ext) m hD g u v hg hu hv

/-- non-vacuity: a state with reordering enabled and a request due at the next `find_or_add`,
operands held; on it the first attempt IS aborted and the decorated call returns normally -/
example : DynInv exExt exDyn ∧ HeldX exExt 4 ∧ HeldX exExt (-1) ∧ exDyn.lastLen.isSome = true ∧
    (iteRaw 4 4 (-1) { exDyn with ctx := true }).1.toOption = none :=
  ⟨exDyn_dynInv, exExt_held4, Or.inl rfl, rfl, by decide⟩

/-- C09 `apply(op, u, v)` for every binary propositional alias of the regenerated vocabulary -/
theorem C09_apply_binary_transparent (ext : Nat → Nat) (m : Mgr) (hD : DynInv ext m) (op : String)
    (c : Conn) (hc : docConn op = some c)
    (h2 : c.arity = 2) (hq1 : c ≠ .forall_) (hq2 : c ≠ .exists_)
    (hall : Gen.allOps.contains op = true) (u v : Int) (hu : HeldX ext u) (hv : HeldX ext v) :
    ∃ r m', apply op u (some v) none m = (.ok r, m') ∧ DynPostG ext (ConnDoc c u v) m r m' :=
  apply_binary_transparent ext (siftContract ext) m hD op c hc h2 hq1 hq2 hall u v hu hv

example : docConn "and" = some .and ∧ Conn.and.arity = 2 ∧ Gen.allOps.contains "and" = true := by
  decide

/-- C09 `apply('ite', u, v, w)` -/
theorem C09_apply_ite_transparent (ext : Nat → Nat) (m : Mgr) (hD : DynInv ext m) (op : String)
    (hc : docConn op = some .ite)
    (hall : Gen.allOps.contains op = true) (u v w : Int) (hu : HeldX ext u) (hv : HeldX ext v)
    (hw : HeldX ext w) :
    ∃ r m', apply op u (some v) (some w) m = (.ok r, m') ∧ DynPostG ext (Ite3Doc u v w) m r m' :=
  apply_ite_transparent ext (siftContract ext) m hD op hc hall u v w hu hv hw

/-- C09 `var(name)` -/
theorem C09_var_transparent (ext : Nat → Nat) (m : Mgr)
    (hD : DynInv ext m) (name : String) (hdecl : m.tbl.vars.contains name = true) :
    ∃ r m', var name m = (.ok r, m') ∧ DynPostG ext (VarDoc name) m r m' :=
  var_transparent ext (siftContract ext) m hD name hdecl

example : exDyn.tbl.vars.contains "a" = true := by decide

/-- C09 `quantify` / `exist` / `forall` over declared variable NAMES: the result is the
quantification, over those names, of the operand as it was -/
theorem C09_quantify_transparent (ext : Nat → Nat) (m : Mgr) (hD : DynInv ext m) (u : Int)
    (hu : HeldX ext u) (fa : Bool) (names : List String)
    (hdecl : ∀ s ∈ names, m.tbl.vars.contains s = true) :
    ∃ r m', quantify u (names.map Key.name) fa m = (.ok r, m') ∧
      DynPostG ext (QuantDoc fa names u) m r m' :=
  quantify_transparent ext (siftContract ext) m hD u hu fa names hdecl

example : ∀ s ∈ ["a"], exDyn.tbl.vars.contains s = true := by decide

/-- C09 `cofactor` (`let` with Boolean values) -/
theorem C09_cofactor_transparent (ext : Nat → Nat) (m : Mgr) (hD : DynInv ext m) (u : Int)
    (hu : HeldX ext u) (vals : List (String × Bool))
    (hdecl : ∀ p ∈ vals, m.tbl.vars.contains p.1 = true) :
    ∃ r m', cofactor u (boolKeys vals) m = (.ok r, m') ∧ DynPostG ext (CofDoc vals u) m r m' :=
  cofactor_transparent ext (siftContract ext) m hD u hu vals hdecl

/-- C09 `compose` (`let` with references) -/
theorem C09_compose_transparent (ext : Nat → Nat) (m : Mgr) (hD : DynInv ext m) (f : Int)
    (hf : HeldX ext f) (varSub : List (String × Int))
    (hdecl : ∀ p ∈ varSub, m.tbl.vars.contains p.1 = true)
    (hheld : ∀ p ∈ varSub, HeldX ext p.2) :
    ∃ r m', compose f varSub m = (.ok r, m') ∧ DynPostG ext (ComposeDoc varSub f) m r m' :=
  compose_transparent ext (siftContract ext) m hD f hf varSub hdecl hheld

example : ∀ p ∈ [("a", (4 : Int))], exDyn.tbl.vars.contains p.1 = true ∧ HeldX exExt p.2 := by
  intro p hp
  simp only [List.mem_cons, List.not_mem_nil, or_false] at hp
  subst hp
  exact ⟨by decide, exExt_held4⟩

/-- C09 `rename` (`let` with names) -/
theorem C09_rename_transparent (ext : Nat → Nat) (m : Mgr) (hD : DynInv ext m) (u : Int)
    (hu : HeldX ext u) (dvars : List (String × String))
    (hd : ∀ p ∈ dvars, m.tbl.vars.contains p.2 = true) :
    ∃ r m', rename u dvars m = (.ok r, m') ∧ DynPostG ext (RenameDoc dvars u) m r m' :=
  rename_transparent ext (siftContract ext) m hD u hu dvars hd

/-- C09 `let` in its three homogeneous forms -/
theorem C09_let_transparent (ext : Nat → Nat) (m : Mgr)
    (hD : DynInv ext m) (u : Int) (hu : HeldX ext u) :
    (∀ (vals : List (String × Bool)), vals ≠ [] →
      (∀ p ∈ vals, m.tbl.vars.contains p.1 = true) →
      ∃ r m', letOp (.bools (boolKeys vals)) u m = (.ok r, m') ∧
        DynPostG ext (CofDoc vals u) m r m') ∧
    (∀ (varSub : List (String × Int)), varSub ≠ [] →
      (∀ p ∈ varSub, m.tbl.vars.contains p.1 = true) → (∀ p ∈ varSub, HeldX ext p.2) →
      ∃ r m', letOp (.refs varSub) u m = (.ok r, m') ∧
        DynPostG ext (ComposeDoc varSub u) m r m') ∧
    (∀ (dvars : List (String × String)), dvars ≠ [] →
      (∀ p ∈ dvars, m.tbl.vars.contains p.2 = true) →
      ∃ r m', letOp (.names dvars) u m = (.ok r, m') ∧
        DynPostG ext (RenameDoc dvars u) m r m') :=
  ⟨fun vals hne hd => let_bools_transparent ext (siftContract ext) m hD u hu vals hne hd,
   fun varSub hne hd hh => let_refs_transparent ext (siftContract ext) m hD u hu varSub hne hd hh,
   fun dvars hne hd => let_names_transparent ext (siftContract ext) m hD u hu dvars hne hd⟩

/-- C09, non-vacuity of the contract: its conclusion HOLDS (by evaluation of the model) for the
concrete manager `exM` — sifting returns normally, `DynInv` for the same ledger, same variables,
the held node 4 denotes the same function of the names. -/
theorem C09_siftContract_example :
    DynInv exExt exM ∧ exM.lastLen = none ∧
    ∃ m', reorder none exM = (.ok (), m') ∧ DynInv exExt m' ∧ m'.lastLen = none ∧
      m'.nvars = exM.nvars ∧
      (∀ s, m'.tbl.vars.contains s = exM.tbl.vars.contains s) ∧
      ∀ u : Int, HeldX exExt u → ∀ σ, denN m'.tbl u σ = denN exM.tbl u σ :=
  ⟨exM_dynInv, rfl, siftContract_conclusion_exM⟩

/-- C09, the retry path is inhabited in the model: on `exDyn` the first attempt of
`ite(4, 3, -1)` is aborted by the request, yet the decorated call returns the reference of
`a ∧ b` with reordering still enabled and the flag cleared. -/
theorem C09_retry_example :
    (iteRaw 4 3 (-1) { exDyn with ctx := true }).1.toOption = none ∧
    (ite 4 3 (-1) exDyn).1.toOption = some 4 ∧ (ite 4 3 (-1) exDyn).2.lastLen = some 6 ∧
      (ite 4 3 (-1) exDyn).2.ctx = false :=
  ⟨exDyn_first_attempt_aborts, exDyn_ite_ok⟩

/-! ## the contract of sifting, and the remaining entry points -/

/-- C09: the contract of sifting holds for every ledger (C07's totality of sifting). -/
theorem C09_siftContract (ext : Nat → Nat) : SiftContract ext := siftContract ext

/-- C09 `cube(dvars)` over declared names (a loop of the decorated `var` and `apply('and')`,
nested in the context of `cube`, where they re-raise the signal): the conjunction of the
literals, by name. -/
theorem C09_cube_transparent (ext : Nat → Nat) (m : Mgr) (hD : DynInv ext m)
    (dvars : List (String × Bool)) (hdecl : ∀ p ∈ dvars, m.tbl.vars.contains p.1 = true) :
    ∃ r m', cube dvars m = (.ok r, m') ∧ DynPostG ext (CubeDoc dvars) m r m' :=
  cube_transparent ext (siftContract ext) m hD dvars hdecl

example : ∀ p ∈ [("a", true), ("b", false)], exDyn.tbl.vars.contains p.1 = true := by decide

/-- C09 `copy_bdd(u, from_bdd, to_bdd)` into a target with dynamic reordering enabled (the body
runs inside the target's decorator, fix F4b): the copy denotes the same function of the variable
names as `u` in the source `s`, whatever the target does to its order meanwhile. -/
theorem C09_copy_bdd_transparent (ext : Nat → Nat) (s : Tbl) (hS : WF s) (hOs : OrderOK s)
    (m : Mgr) (hD : DynInv ext m) (u : Int) (hu : s.Mem u) (hsup : CopyPre s u m.tbl) :
    ∃ r m', copyBdd s u m = (.ok r, m') ∧ DynPostG ext (CopyDoc s u) m r m' :=
  copyBdd_transparent ext (siftContract ext) s hS hOs m hD u hu hsup

example : WF exM.tbl ∧ OrderOK exM.tbl ∧ exM.tbl.Mem 4 ∧ CopyPre exM.tbl 4 exDyn.tbl := by
  refine ⟨exM_inv.wf.toWF, exM_orderOK, Or.inr (by decide), ?_⟩
  intro i v hi hv
  have hlt := hi.lt_nvars exM_inv.wf.toWF
  have hn : exM.tbl.nvars = 2 := by decide
  rw [hn] at hlt
  have h0 : exM.tbl.l2v[0]? = some "a" := by decide
  have h1 : exM.tbl.l2v[1]? = some "b" := by decide
  match i, hlt with
  | 0, _ => rw [h0] at hv; cases hv; decide
  | 1, _ => rw [h1] at hv; cases hv; decide

/-- C09 `apply` with a quantifier alias (`\A`, `\E`, `forall`, `exists`): the variables are the
support of the first operand (`names`, all declared), the second operand is quantified. -/
theorem C09_apply_quant_transparent (ext : Nat → Nat) (m : Mgr) (hD : DynInv ext m) (op : String)
    (c : Conn) (hc : docConn op = some c) (hq : c = .forall_ ∨ c = .exists_)
    (hall : Gen.allOps.contains op = true) (u v : Int) (hu : m.tbl.Mem u) (hv : HeldX ext v)
    (names : List String) (hsupp : support m.tbl u = .ok names)
    (hdecl : ∀ s ∈ names, m.tbl.vars.contains s = true) :
    ∃ r m', apply op u (some v) none m = (.ok r, m') ∧
      DynPostG ext (QuantDoc (decide (c = .forall_)) names v) m r m' :=
  apply_quant_transparent ext (siftContract ext) m hD op c hc hq hall u v hu hv names hsupp hdecl

/-- C09, chaining: two decorated calls in a row (the expression `ite(g, u, v) /\ w`), the first
result `incref`ed in between as the autoref wrapper does; a reordering request may fire in either
call, the ledger of user-held references grows along the way. -/
theorem C09_chained_calls_transparent (ext : Nat → Nat) (m : Mgr) (hD : DynInv ext m)
    (g u v w : Int) (hg : HeldX ext g) (hu : HeldX ext u) (hv : HeldX ext v) (hw : HeldX ext w) :
    ∃ r1 m1, ite g u v m = (.ok r1, m1) ∧ ∃ m1', incref r1 m1 = (.ok (), m1') ∧
      ∃ r2 m2, apply "and" r1 (some w) none m1' = (.ok r2, m2) ∧
        DynInv (extInc ext r1.natAbs) m2 ∧ m2.tbl.Mem r2 ∧
        ∀ σ, denN m2.tbl r2 σ =
          ((if denN m.tbl g σ then denN m.tbl u σ else denN m.tbl v σ) && denN m.tbl w σ) :=
  ite_then_and_transparent ext m hD siftContract g u v w hg hu hv hw

/-! ## `add_expr` -/

/-- C09, the bottom-up evaluation of a syntax tree INSIDE a reordering context (what the
translator of `add_expr` does during the reductions): every node of the tree is a public decorated
operation (`var`, `apply`, `quantify`, `rename`) nested in the context, where its decorator runs the
body and re-raises the signal.  For a meaningful tree the evaluation returns the reference of the
documented meaning (`evalFormula`, by variable name), or it is aborted by a reordering request —
at whichever `find_or_add` of whichever operation — having only added nodes. -/
theorem C09_evalAst_abort_aware (t : Ast) (m : Mgr) (hI : Inv m) (hc : m.ctx = true)
    (hO : OrderOK m.tbl) (hM : Meaningful m.tbl t) :
    Outcome m (fun r m' => m'.tbl.Mem r ∧ ∀ σ, denN m'.tbl r σ = evalFormula m.tbl t σ)
      (evalAst t m) :=
  evalAst_out t m hI hc hO hM

/-- C09 `add_expr`: for a text `s` that the front end reads as the tree `t` (C05), meaningful in
the manager (names declared, no `=`, every `@n` a node) and whose `@n` nodes the user holds:
with dynamic reordering enabled or not, and at whichever `find_or_add` of whichever nested
operation the request fires, `add_expr(s)` returns normally a reference that denotes — by variable
NAME — the value the independent evaluator `evalFormula` gives to the tree, the `@n` read as the
functions those nodes had at the call (`ExprDoc`); the state is again as between two calls
(`DynInv`: invariant, counts exact for the same ledger, flag cleared), reordering is enabled iff
it was, the declared names are the same, every held reference keeps its meaning by name.  All
constructs of the grammar are covered: names, constants, `@n`, `~`, the binary connectives,
`ite(…)`, `\A` / `\E`, `\S`.

The intermediate results of the evaluation are NOT referenced (the translator holds plain
integers): that is harmless, because no sifting happens in the middle of an evaluation — an
aborted attempt leaves only unreferenced nodes, sifting collects them, and the retry starts again
from the operands the user holds. -/
theorem C09_addExpr_transparent (ext : Nat → Nat) (m : Mgr) (hD : DynInv ext m) (s : String)
    (t : Ast) (hp : parse (tokenize s) = some t) (hM : Meaningful m.tbl t)
    (hheld : ∀ u ∈ t.atNodes, HeldX ext u) :
    ∃ r m', addExpr s m = (.ok r, m') ∧ DynPostG ext (ExprDoc t) m r m' :=
  addExpr_transparent ext (siftContract ext) m hD s t hp hM hheld

/-- C09 `add_expr`, "invisible" literally: the call with reordering enabled (any threshold, any
trigger position) and the call on the same manager with reordering switched off both return
normally, and the two results denote the same function of the variable names. -/
theorem C09_addExpr_same_as_disabled (ext : Nat → Nat) (m : Mgr) (hD : DynInv ext m) (s : String)
    (t : Ast) (hp : parse (tokenize s) = some t) (hM : Meaningful m.tbl t)
    (hheld : ∀ u ∈ t.atNodes, HeldX ext u) :
    ∃ r m' r0 m0', addExpr s m = (.ok r, m') ∧
      addExpr s { m with lastLen := none } = (.ok r0, m0') ∧ m'.tbl.Mem r ∧ m0'.tbl.Mem r0 ∧
      ∀ σ, denN m'.tbl r σ = denN m0'.tbl r0 σ := by
  have hD0 : DynInv ext { m with lastLen := none } :=
    ⟨⟨hD.inv.wf, hD.inv.pred, hD.inv.freeGe, hD.inv.free, hD.inv.refOne, hD.inv.refDom, hD.inv.cache⟩,
      hD.order, hD.refs.congr rfl rfl, hD.ctx, hD.sched, hD.roots, hD.nvars⟩
  obtain ⟨r, m', he, hp1⟩ := C09_addExpr_transparent ext m hD s t hp hM hheld
  obtain ⟨r0, m0', he0, hp0⟩ := C09_addExpr_transparent ext _ hD0 s t hp hM hheld
  exact ⟨r, m', r0, m0', he, he0, hp1.doc.1, hp0.doc.1, fun σ => by rw [hp1.doc.2 σ, hp0.doc.2 σ]⟩

/-- C09 `add_expr` from the text of a tree: the canonical text of any lexically well-formed,
meaningful tree — with the parentheses the precedence table requires and any redundant ones
(`ex`) — is given the meaning of the tree, reordering enabled or not (C05's round trip
`parse_tokenize_spell` composed with the theorem above) -/
theorem C09_addExpr_text_transparent (ext : Nat → Nat) (m : Mgr) (hD : DynInv ext m)
    (ex : Ast → Bool) (t : Ast) (hwf : t.WF) (hlex : t.LexWF) (hM : Meaningful m.tbl t)
    (hheld : ∀ u ∈ t.atNodes, HeldX ext u) :
    ∃ r m', addExpr (spell (printG ex t)) m = (.ok r, m') ∧ DynPostG ext (ExprDoc t) m r m' :=
  C09_addExpr_transparent ext m hD _ t (parse_tokenize_spell ex t hwf hlex) hM hheld

/-- the formula of the non-vacuity example: a quantifier, `@n`, `~`, connectives, `ite(…)`, `\S` -/
def exFormula : String := "\\E a: (@4 | ~ b) & ite(a, b, TRUE) & (\\S b / a: a)"

def exFormulaTree : Ast :=
  .quant false ["a"] (.bin .and (.bin .and (.bin .or (.num false "4") (.not (.var "b")))
    (.ite (.var "a") (.var "b") (.bool true))) (.subst [("b", "a")] (.var "a")))

/-- non-vacuity of `C09_addExpr_transparent`: on `exDyn` (reordering enabled, a request due at the
next `find_or_add`) the text reads as the tree, the tree is meaningful, its `@4` is held; the first
evaluation IS aborted by the request (so the call goes through sifting and the retry) -/
example : DynInv exExt exDyn ∧ parse (tokenize exFormula) = some exFormulaTree ∧
    Meaningful exDyn.tbl exFormulaTree ∧ (∀ u ∈ exFormulaTree.atNodes, HeldX exExt u) ∧
    (evalAst exFormulaTree { exDyn with ctx := true }).1.toOption = none := by
  have ha : exDyn.tbl.vars.contains "a" = true := by decide
  have hb : exDyn.tbl.vars.contains "b" = true := by decide
  have h4 : exDyn.tbl.Mem (if false = true then -(digitsToNat "4" : Int) else (digitsToNat "4" : Int)) :=
    Or.inr (by decide)
  refine ⟨exDyn_dynInv, by decide, ?_, ?_, by decide +kernel⟩
  · refine ⟨?_, ⟨by decide, ⟨by decide, ⟨by decide, h4, hb⟩, ha, hb, trivial⟩, ?_, ha⟩⟩
    · intro x hx
      simp only [List.mem_cons, List.not_mem_nil, or_false] at hx
      subst hx; exact ha
    · intro p hp
      simp only [List.mem_cons, List.not_mem_nil, or_false] at hp
      subst hp; exact hb
  · intro u hu
    have : u = 4 := by
      simp only [exFormulaTree, Ast.atNodes, List.append_nil, List.mem_cons,
        List.not_mem_nil, or_false] at hu
      rw [hu]; decide
    subst this
    exact exExt_held4

/-! ## `load` -/

/-- C09: OUTSIDE a reordering context `find_or_add` does not even call `_request_reordering`
(repair F4a: `if self._reordering_context: _request_reordering(self)`), whatever `_last_len` is -/
theorem C09_findOrAdd_outside_context (i v w : Int) (m : Mgr) (hc : m.ctx = false) :
    findOrAdd i v w m = if i < 0 then (.error .value, m) else findOrAddCore i.toNat v w m :=
  findOrAdd_noctx i v w m hc

/-- C09 `load` (pickle) NEVER reorders.  `BDD.load` / `_load_pickle` / `_load` are not decorated,
open no reordering context, and build the nodes with the private `find_or_add` / `_ite`.  Hence
for ANY value of `_last_len` — dynamic reordering enabled at whatever threshold, or not — the call
(outside a context) returns exactly what it returns with `_last_len = None`, in exactly that
state except that `_last_len` is what it was; the reordering signal is not raised;
`_request_reordering` is not called (the trigger counter `fireIn` is untouched); the flag stays
cleared. -/
theorem C09_load_never_reorders (f : PickleFile) (levels : Bool) (m : Mgr) (hc : m.ctx = false) :
    loadPickle f levels m =
      ((loadPickle f levels { m with lastLen := none }).1,
       { (loadPickle f levels { m with lastLen := none }).2 with lastLen := m.lastLen }) ∧
    (loadPickle f levels m).1 ≠ .error .needsReordering ∧
    (loadPickle f levels m).2.lastLen = m.lastLen ∧
    (loadPickle f levels m).2.fireIn = m.fireIn ∧
    (loadPickle f levels m).2.ctx = false :=
  loadPickle_never_reorders f levels m hc

/-- the same for `dd.autoref.BDD.load` of a pickle (the roots wrapped in `Function`s) -/
theorem C09_load_autoref_never_reorders (f : PickleFile) (levels : Bool) (m : Mgr)
    (hc : m.ctx = false) :
    loadPickleAutoref f levels m =
      ((loadPickleAutoref f levels { m with lastLen := none }).1,
       { (loadPickleAutoref f levels { m with lastLen := none }).2 with lastLen := m.lastLen }) ∧
    (loadPickleAutoref f levels m).1 ≠ .error .needsReordering :=
  loadPickleAutoref_never_reorders f levels m hc

/-- C09 / C12: the theorem of C12 for `BDD.load` (`C12_pickle_load`: any well-formed content, any
`levels`, any order of the receiving manager, constant or absent roots) holds VERBATIM with
dynamic reordering enabled — there is no hypothesis on `_last_len` — and the threshold and the
trigger counter are what they were. -/
theorem C09_load_spec_enabled (f : PickleFile) (levels : Bool)
    (m : Mgr) (hI : Inv m) (hb : DmpVarsBij m.tbl) (hc : m.ctx = false)
    (hwf : PickleWF f) (hr : RootsResolvable f)
    (lm : List (Nat × Nat)) (m1 : Mgr)
    (hv : loadVars levels f.vars.length f.vars [] m = (.ok lm, m1))
    (hg : Contig m1.tbl) (hperm : levels = true → levelsPermutation f.vars = true) :
    ∃ roots' m', loadPickle f levels m = (.ok roots', m') ∧ Inv m' ∧ DmpVarsBij m'.tbl ∧
      Contig m'.tbl ∧ m'.ctx = false ∧ (∀ u n, m.tbl.node? u = some n → m'.tbl.node? u = some n) ∧
      LoadedFrom f m'.tbl roots' ∧ m'.lastLen = m.lastLen ∧ m'.fireIn = m.fireIn :=
  pickle_load_enabled f levels m hI hb hc hwf hr lm m1 hv hg hperm

/-- non-vacuity: the target `mgrAB` of C12's example with reordering ENABLED and a request due at
the very next eligible `find_or_add` (`fireIn = 1`): every hypothesis of `C09_load_spec_enabled`
holds, and the model computes the ordered diagram of `a ∧ b` with the threshold and the trigger
counter untouched -/
example : PickleWF fileBA ∧ Inv { mgrAB with lastLen := some 1, fireIn := some 1 } ∧
    DmpVarsBij ({ mgrAB with lastLen := some 1, fireIn := some 1 } : Mgr).tbl ∧
    ({ mgrAB with lastLen := some 1, fireIn := some 1 } : Mgr).ctx = false ∧
    (loadPickle fileBA false { mgrAB with lastLen := some 1, fireIn := some 1 }).1 = .ok (.list [4]) ∧
    (loadPickle fileBA false { mgrAB with lastLen := some 1, fireIn := some 1 }).2.lastLen = some 1 ∧
    (loadPickle fileBA false { mgrAB with lastLen := some 1, fireIn := some 1 }).2.fireIn = some 1 := by
  have hI := mgrAB_nodeFree.inv
  exact ⟨fileBA_wf, ⟨hI.wf, hI.pred, hI.freeGe, hI.free, hI.refOne, hI.refDom, hI.cache⟩, mgrAB_bij,
    rfl, by decide +kernel⟩
/-! ## `image` / `preimage` (the repair of finding F4c)

The module-level functions turn `qvars` and `rename` into variable NAMES (`_image_args_by_name`)
and run the bodies `_image_of` / `_preimage_of` under `_try_to_reorder`: a request raised by a
nested `ite` / `find_or_add` propagates to that outermost decorator, sifting runs, and the body is
retried with the names mapped to the new levels.  Both theorems are instances of
`C09_decorator_transparent`. -/

/-- C09: `_image` (the recursion behind `image` and `preimage`) inside a context (or with requests
disabled): it returns a reference or is aborted by a request having only added nodes — whatever
the level maps do to the order (`ImgOKs`: no monotonicity asked); the reference denotes
`rename_U (Q qvars. u ∧ rename_V v)` under any condition `C` that makes `vmap` increasing on the
support of `v` (`C = True` for `image`) -/
theorem C09_imageF_abort_aware (umap vmap : Option (List (Int × Int))) (ubad vbad : List Int)
    (Q : List Nat) (fa : Bool) (rU rV : Nat → Nat) (S : Nat → Prop) (C : Prop)
    (f : Nat) (m : Mgr) (u v : Int) (cache : Std.HashMap (Int × Int) Int)
    (hP : ImgOKs umap vmap ubad vbad Q rU rV S m.nvars) (hmono : C → MonoOn rV S)
    (hI : Inv m) (hq : Quiet m) (hu : m.tbl.Mem u) (hv : m.tbl.Mem v)
    (hS : ∀ j, InSupp m.tbl v j → S j) (hmemo : IMemoC C fa Q rU rV m.tbl cache)
    (hf : 2 * m.nvars + 1 ≤ f + m.tbl.levelOf u + m.tbl.levelOf v) :
    Outcome2 m (fun r c m' => IMemoC C fa Q rU rV m'.tbl c ∧ IPostC C fa Q rU rV m'.tbl u v r)
      (imageF umap vmap ubad vbad Q fa f u v cache m) :=
  imageF_out umap vmap ubad vbad Q fa rU rV S m.nvars C hP hmono f m u v cache hI hq rfl hu hv hS
    hmemo hf

/-- non-vacuity (`C09_imageF_abort_aware`): `image`'s use on `exDyn` inside a context -/
example : ImgOKs (some [(1, 0)]) none [] [] [0] (renOf [(1, 0)]) id (fun j => j < 2)
      ({ exDyn with ctx := true } : Mgr).nvars ∧ Quiet { exDyn with ctx := true } ∧
    (True → MonoOn id (fun j => j < 2)) := by
  have hn : ({ exDyn with ctx := true } : Mgr).nvars = 2 := by decide
  refine ⟨⟨?_, fun j hj => ⟨rfl, by rw [hn]; exact hj⟩, rfl, fun _ _ _ => rfl, fun _ _ => rfl⟩,
    Or.inl rfl, fun _ _ _ _ _ h => h⟩
  intro z hz hq
  rw [hn] at hz ⊢
  have : z = 1 := by
    match z, hz with
    | 0, _ => simp at hq
    | 1, _ => rfl
  subst this
  decide

/-- C09: the branch of `_preimage_of` for partners that are not neighbours (rename with
`_copy_bdd`, conjoin with `ite`, quantify — three calls nested in the decorator's context): the
documented result `Q q. trans ∧ target[rename]`, or abort having only added nodes; any order -/
theorem C09_preimageFallback_abort_aware (m : Mgr) (hI : Inv m) (hc : m.ctx = true)
    (trans target : Int) (hu : m.tbl.Mem trans) (hv : m.tbl.Mem target) (fa : Bool)
    (rn : List (Key × Key)) (q : List Nat) (hb : badKeys rn = [])
    (hlv : ∀ p, p ∈ intPairs rn →
      0 ≤ p.1 ∧ p.1 < (m.nvars : Int) ∧ 0 ≤ p.2 ∧ p.2 < (m.nvars : Int))
    (hql : ∀ i, i ∈ q → m.tbl.l2v.contains i = true) :
    Outcome m (fun r m' => PreFallbackPost fa q (intPairs rn) trans target m.tbl r m'.tbl)
      (preimageFallback trans target rn q fa m) :=
  preimageFallback_out m hI hc trans target hu hv fa rn q hb hlv hql

/-- non-vacuity (`C09_preimageFallback_abort_aware`) on `exDyn` inside a context -/
example : Inv { exDyn with ctx := true } ∧ ({ exDyn with ctx := true } : Mgr).ctx = true ∧
    badKeys [(Key.lvl 0, Key.lvl 1)] = [] ∧
    ∀ i, i ∈ [1] → ({ exDyn with ctx := true } : Mgr).tbl.l2v.contains i = true := by
  refine ⟨exDyn_dynInv.inv.setCtx true, rfl, by decide, ?_⟩
  intro i hi
  simp only [List.mem_cons, List.not_mem_nil, or_false] at hi
  subst hi
  decide

/-- C09 `image(trans, source, rename, qvars, bdd, forall)`, renaming and quantified variables given
by declared NAMES, operands held by the user, under the code's own preconditions stated by name
(`ImagePre`: pairwise distinct keys, no key is a value, every target quantified or outside the
supports of both operands): whether or not a reordering request is served — at whichever
`find_or_add` — the call returns normally; the result is the C13 image
`rename(Q qvars. trans ∧ source)` of the operands AS THEY WERE, by name (`ImageDoc`); `DynInv`
again (invariant, order maps, counts exact for the same ledger, flag cleared); reordering stays
enabled; every held reference keeps its meaning by name.  No condition on the variable order
(C13: `image` is correct for any order), so none on what sifting does. -/
theorem C09_image_transparent (ext : Nat → Nat) (m : Mgr) (hD : DynInv ext m)
    (trans source : Int) (ht : HeldX ext trans) (hs : HeldX ext source) (fa : Bool)
    (l : List (String × String)) (qs : List String) (hpre : ImagePre trans source l qs m.tbl) :
    ∃ r m', image trans source (l.map fun p => (Key.name p.1, Key.name p.2)) (qs.map Key.name)
        fa m = (.ok r, m') ∧ DynPostG ext (ImageDoc fa qs l trans source) m r m' :=
  image_transparent ext (siftContract ext) m hD trans source ht hs fa l qs hpre

/-- the constant TRUE depends on no variable -/
theorem not_dependsOnN_one (t : Tbl) (s : String) : ¬ dependsOnN t 1 s := by
  rintro ⟨σ, hne⟩
  exact hne (by unfold denN; rw [den_one, den_one])

/-- non-vacuity (`C09_image_transparent`): on `exDyn` (order `a < b`, node 4 = `a ∧ b` held,
reordering enabled, a request due at the next `find_or_add`): `image(a ∧ b, TRUE, {b: a}, {a})` -/
example : ImagePre 4 1 [("b", "a")] ["a"] exDyn.tbl ∧ HeldX exExt 4 ∧ HeldX exExt 1 ∧
    ∃ r m', image 4 1 [(.name "b", .name "a")] [.name "a"] false exDyn = (.ok r, m') ∧
      m'.lastLen.isSome = true := by
  have hpre : ImagePre 4 1 [("b", "a")] ["a"] exDyn.tbl := by
    refine ⟨by simp, ?_, ?_, ?_, ?_⟩
    · intro p hp
      simp only [List.mem_cons, List.not_mem_nil, or_false] at hp
      subst hp
      exact ⟨by decide, by decide⟩
    · intro s hs
      simp only [List.mem_cons, List.not_mem_nil, or_false] at hs
      subst hs
      decide
    · intro p p' hp hp'
      simp only [List.mem_cons, List.not_mem_nil, or_false] at hp hp'
      subst hp hp'
      decide
    · intro p hp
      simp only [List.mem_cons, List.not_mem_nil, or_false] at hp
      subst hp
      exact Or.inl (by simp)
  refine ⟨hpre, exExt_held4, Or.inl rfl, ?_⟩
  obtain ⟨r, m', he, hp⟩ := C09_image_transparent exExt exDyn exDyn_dynInv 4 1 exExt_held4
    (Or.inl rfl) false [("b", "a")] ["a"] hpre
  exact ⟨r, m', he, by rw [hp.enabled]; rfl⟩

/-- C09 `preimage(trans, target, rename, qvars, bdd, forall)`, arguments by declared NAMES,
operands held, under the preconditions of `C13_preimage_any_order` by name (`PreimagePreN`:
pairwise distinct keys, no key is a value, no two keys with the same value, the target
independent of every value — NOTHING about the variable order): whether or not a request is
served, the call returns normally with the frame of every decorated operation (`DynInv`, counts,
reordering enabled, held references) and the result denotes `Q qvars. trans ∧ rename(target)` of
the operands as they were (`PreimageDoc`).  Sifting moves single variables and may separate a
variable from its partner (finding F4d): the retried body then renames, conjoins and quantifies
instead of running the recursion `_image` (repair of F4d). -/
theorem C09_preimage_transparent (ext : Nat → Nat) (m : Mgr) (hD : DynInv ext m)
    (trans target : Int) (ht : HeldX ext trans) (hs : HeldX ext target) (fa : Bool)
    (l : List (String × String)) (qs : List String) (hpre : PreimagePreN target l qs m.tbl) :
    ∃ r m', preimage trans target (l.map fun p => (Key.name p.1, Key.name p.2)) (qs.map Key.name)
        fa m = (.ok r, m') ∧ DynPostG ext (PreimageDoc fa qs l trans target) m r m' :=
  preimage_transparent ext (siftContract ext) m hD trans target ht hs fa l qs hpre

/-- non-vacuity (`C09_preimage_transparent`): on `exDyn`, `preimage(a ∧ b, TRUE, {a: b}, {b})` -/
example : PreimagePreN 1 [("a", "b")] ["b"] exDyn.tbl ∧ HeldX exExt 4 ∧ HeldX exExt 1 ∧
    ∃ r m', preimage 4 1 [(.name "a", .name "b")] [.name "b"] false exDyn = (.ok r, m') ∧
      m'.lastLen.isSome = true ∧ m'.tbl.Mem r := by
  have hpre : PreimagePreN 1 [("a", "b")] ["b"] exDyn.tbl := by
    refine ⟨by simp, ?_, ?_, ?_, ?_, ?_⟩
    · intro p hp
      simp only [List.mem_cons, List.not_mem_nil, or_false] at hp
      subst hp
      exact ⟨by decide, by decide⟩
    · intro s hs
      simp only [List.mem_cons, List.not_mem_nil, or_false] at hs
      subst hs
      decide
    · intro p p' hp hp'
      simp only [List.mem_cons, List.not_mem_nil, or_false] at hp hp'
      subst hp hp'
      decide
    · intro p p' hp hp' _
      simp only [List.mem_cons, List.not_mem_nil, or_false] at hp hp'
      rw [hp, hp']
    · intro p _
      exact not_dependsOnN_one _ _
  refine ⟨hpre, exExt_held4, Or.inl rfl, ?_⟩
  obtain ⟨r, m', he, hp⟩ := C09_preimage_transparent exExt exDyn exDyn_dynInv 4 1 exExt_held4
    (Or.inl rfl) false [("a", "b")] ["b"] hpre
  exact ⟨r, m', he, by rw [hp.enabled]; rfl, hp.doc.1⟩

/-- C09 `image` with the arguments of `C13_image`: renaming and `qvars` given by ANY keys (names
or LEVELS) that resolve, at the time of the call, to declared levels; the code's own checks pass
(no key is a value; every target quantified or outside the supports).  The wrapper turns the keys
into the names at these levels before anything can reorder, so the result is the documented image
stated with the names the levels had when the call was made (`namePairs`, `nameOf`). -/
theorem C09_image_keys_transparent (ext : Nat → Nat) (m : Mgr) (hD : DynInv ext m)
    (trans source : Int) (ht : HeldX ext trans) (hs : HeldX ext source)
    (fa : Bool) (rn : List (Key × Key)) (qvars : List Key) (q : List Nat)
    (hq : mapToLevelE m.tbl qvars = .ok q)
    (hov : renameOverlap (resolveRename m.tbl rn) = false)
    (hnl : renameNonLevel (resolveRename m.tbl rn) = false)
    (hlv : ∀ p, p ∈ intPairs (resolveRename m.tbl rn) →
      0 ≤ p.1 ∧ p.1 < (m.nvars : Int) ∧ 0 ≤ p.2 ∧ p.2 < (m.nvars : Int))
    (htg : ∀ p, p ∈ intPairs (resolveRename m.tbl rn) → ∀ l : Nat, p.2 = (l : Int) →
      l ∈ q ∨ (¬ dependsOn m.tbl trans l ∧ ¬ dependsOn m.tbl source l)) :
    ∃ r m', image trans source rn qvars fa m = (.ok r, m') ∧
      DynPostG ext (ImageDoc fa (q.map m.tbl.nameOf)
        (namePairs m.tbl (intPairs (resolveRename m.tbl rn))) trans source) m r m' :=
  image_keys_transparent ext (siftContract ext) m hD trans source ht hs fa rn qvars q hq hov hnl
    hlv htg

/-- C09 `preimage` with the arguments of `C13_preimage_any_order` (any keys resolving to declared
levels; no key is a value; no two keys with the same value; the target independent of every
value; no adjacency asked, neither of the order of the call nor of the order the manager is left
in): the documented preimage, stated with the names the levels had when the call was made. -/
theorem C09_preimage_keys_transparent (ext : Nat → Nat) (m : Mgr) (hD : DynInv ext m)
    (trans target : Int) (ht : HeldX ext trans) (hs : HeldX ext target)
    (fa : Bool) (rn : List (Key × Key)) (qvars : List Key) (q : List Nat)
    (hq : mapToLevelE m.tbl qvars = .ok q)
    (hov : renameOverlap (resolveRename m.tbl rn) = false)
    (hnl : renameNonLevel (resolveRename m.tbl rn) = false)
    (hlv : ∀ p, p ∈ intPairs (resolveRename m.tbl rn) →
      0 ≤ p.1 ∧ p.1 < (m.nvars : Int) ∧ 0 ≤ p.2 ∧ p.2 < (m.nvars : Int))
    (hinj : ∀ p p', p ∈ intPairs (resolveRename m.tbl rn) →
      p' ∈ intPairs (resolveRename m.tbl rn) → p.2 = p'.2 → p.1 = p'.1)
    (hind : ∀ p, p ∈ intPairs (resolveRename m.tbl rn) → ∀ l : Nat, p.2 = (l : Int) →
      ¬ dependsOn m.tbl target l) :
    ∃ r m', preimage trans target rn qvars fa m = (.ok r, m') ∧
      DynPostG ext (PreimageDoc fa (q.map m.tbl.nameOf)
        (namePairs m.tbl (intPairs (resolveRename m.tbl rn))) trans target) m r m' :=
  preimage_keys_transparent ext (siftContract ext) m hD trans target ht hs fa rn qvars q hq hov
    hnl hlv hinj hind

/-- C09 `preimage` under its LITERAL preconditions (repair of F5 / F5b on top of F4d), arguments
by declared names: pairwise distinct keys, no key is a value — ANY order, ANY renaming (two keys
may share a value), ANY target (it may depend on the values): the documented preimage
`Q qvars. trans ∧ rename(target)` of the operands as they were, whether or not a reordering
request is served. -/
theorem C09_preimage_literal_transparent (ext : Nat → Nat) (m : Mgr) (hD : DynInv ext m)
    (trans target : Int) (ht : HeldX ext trans) (hs : HeldX ext target) (fa : Bool)
    (l : List (String × String)) (qs : List String) (hpre : PreimagePreL l qs m.tbl) :
    ∃ r m', preimage trans target (l.map fun p => (Key.name p.1, Key.name p.2)) (qs.map Key.name)
        fa m = (.ok r, m') ∧ DynPostG ext (PreimageDoc fa qs l trans target) m r m' :=
  preimage_literal_transparent ext (siftContract ext) m hD trans target ht hs fa l qs hpre

/-- the same with keys as names or levels resolving to declared levels at the time of the call -/
theorem C09_preimage_keys_literal_transparent (ext : Nat → Nat) (m : Mgr) (hD : DynInv ext m)
    (trans target : Int) (ht : HeldX ext trans) (hs : HeldX ext target)
    (fa : Bool) (rn : List (Key × Key)) (qvars : List Key) (q : List Nat)
    (hq : mapToLevelE m.tbl qvars = .ok q)
    (hov : renameOverlap (resolveRename m.tbl rn) = false)
    (hnl : renameNonLevel (resolveRename m.tbl rn) = false)
    (hlv : ∀ p, p ∈ intPairs (resolveRename m.tbl rn) →
      0 ≤ p.1 ∧ p.1 < (m.nvars : Int) ∧ 0 ≤ p.2 ∧ p.2 < (m.nvars : Int)) :
    ∃ r m', preimage trans target rn qvars fa m = (.ok r, m') ∧
      DynPostG ext (PreimageDoc fa (q.map m.tbl.nameOf)
        (namePairs m.tbl (intPairs (resolveRename m.tbl rn))) trans target) m r m' :=
  preimage_keys_literal_transparent ext (siftContract ext) m hD trans target ht hs fa rn qvars q hq
    hov hnl hlv

/-- non-vacuity (`C09_preimage_literal_transparent`): on `exDyn` the target `a ∧ b` DEPENDS on the
value `b` of the renaming `{a: b}` (the F5 shape): `preimage(a ∧ b, a ∧ b, {a: b}, {b})` -/
example : PreimagePreL [("a", "b")] ["b"] exDyn.tbl ∧
    ∃ r m', preimage 4 4 [(.name "a", .name "b")] [.name "b"] false exDyn = (.ok r, m') ∧
      m'.lastLen.isSome = true ∧ m'.tbl.Mem r := by
  have hpre : PreimagePreL [("a", "b")] ["b"] exDyn.tbl := by
    refine ⟨by simp, ?_, ?_, ?_⟩
    · intro p hp
      simp only [List.mem_cons, List.not_mem_nil, or_false] at hp
      subst hp
      exact ⟨by decide, by decide⟩
    · intro s hs
      simp only [List.mem_cons, List.not_mem_nil, or_false] at hs
      subst hs
      decide
    · intro p p' hp hp'
      simp only [List.mem_cons, List.not_mem_nil, or_false] at hp hp'
      subst hp hp'
      decide
  refine ⟨hpre, ?_⟩
  obtain ⟨r, m', he, hp⟩ := C09_preimage_literal_transparent exExt exDyn exDyn_dynInv 4 4
    exExt_held4 exExt_held4 false [("a", "b")] ["b"] hpre
  exact ⟨r, m', he, by rw [hp.enabled]; rfl, hp.doc.1⟩

/-- non-vacuity (`C09_image_keys_transparent`, `C09_preimage_keys_transparent`, keys as LEVELS):
on `exDyn` (`a` at level 0, `b` at level 1): `image(a ∧ b, TRUE, {1: 0}, {0})` and
`preimage(a ∧ b, TRUE, {0: 1}, {1})` -/
example : (∃ r m', image 4 1 [(.lvl 1, .lvl 0)] [.lvl 0] false exDyn = (.ok r, m') ∧
      DynPostG exExt (ImageDoc false ["a"] [("b", "a")] 4 1) exDyn r m') ∧
    (∃ r m', preimage 4 1 [(.lvl 0, .lvl 1)] [.lvl 1] false exDyn = (.ok r, m') ∧
      DynPostG exExt (PreimageDoc false ["b"] [("a", "b")] 4 1) exDyn r m') := by
  have hn : exDyn.nvars = 2 := by decide
  have h0 : exDyn.tbl.nameOf 0 = "a" := by decide
  have h1 : exDyn.tbl.nameOf 1 = "b" := by decide
  have hnd : ∀ l, ¬ dependsOn exDyn.tbl 1 l := by
    rintro l ⟨a, hne⟩
    exact hne (by rw [den_one, den_one])
  constructor
  · obtain ⟨hres, hip⟩ := intPairs_resolveRename_levels exDyn.tbl [(1, 0)] (by simp)
    simp only [List.map] at hres hip
    have := C09_image_keys_transparent exExt exDyn exDyn_dynInv 4 1 exExt_held4 (Or.inl rfl) false
      [(.lvl 1, .lvl 0)] [.lvl 0] [0] (by rfl) (by rw [hres]; decide) (by rw [hres]; decide)
      (by rw [hres, hip]; intro p hp; simp at hp; subst hp; rw [hn]; decide)
      (by
        rw [hres, hip]; intro p hp l hl; simp at hp; subst hp
        simp only at hl
        left
        have : l = 0 := by omega
        subst this; simp)
    rw [hres, hip] at this
    simpa [namePairs, h0, h1] using this
  · obtain ⟨hres, hip⟩ := intPairs_resolveRename_levels exDyn.tbl [(0, 1)] (by simp)
    simp only [List.map] at hres hip
    have := C09_preimage_keys_transparent exExt exDyn exDyn_dynInv 4 1 exExt_held4 (Or.inl rfl)
      false [(.lvl 0, .lvl 1)] [.lvl 1] [1] (by rfl) (by rw [hres]; decide)
      (by rw [hres]; decide)
      (by rw [hres, hip]; intro p hp; simp at hp; subst hp; rw [hn]; decide)
      (by rw [hres, hip]; intro p p' hp hp' _; simp at hp hp'; rw [hp, hp'])
      (by rw [hres, hip]; intro p hp l _; exact hnd l)
    rw [hres, hip] at this
    simpa [namePairs, h0, h1] using this

/-! ## what is not covered

Proved above for the decorated entry points of the model: `ite`, `apply` (binary propositional
aliases, `ite`, quantifier aliases), `var`, `quantify`/`exist`/`forall`, `let` in its three forms
(`cofactor`, `compose`, `rename`), `cube`, `copy_bdd` into the manager, `add_expr` (every construct
of the grammar), `image`, `preimage` (arguments by name or by level, any order), the chaining of calls with
`incref` in between; `load` (pickle) never reorders.
NOT covered by a theorem: `load_json` (it calls the decorated `var` / `ite` of `dd.autoref`, whose
wrappers hold every operand), DDDMP `load` (C16), and `autoref.BDD.find_or_add` (outside a context
it never requests a reordering, F4a).  Those are decided by correspondence at every trigger
position. -/

end DD
