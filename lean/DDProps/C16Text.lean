/-
  DDProps.C16Text — the text layer of `dd.dddmp.load` (model `DD/DddmpText.lean`): which header
  lines the parser REFUSES, which it accepts and IGNORES (`.add` among them: an ADD file is read
  as a BDD), how the file is cut into header and node lines (by the START of a line since
  f9d6f33: a valid file whose variable is called `y.end` or `y.nodes` loads), and that a text which parses is
  loaded as its content — so that the theorems of `DDProps/C16.lean` apply to texts.

  The PLY lexer / LALR tables of the real code are tied to `dddmpLex` / `dddmpParseHeaderF` by the
  correspondence check (`harness/checks_dddmp.py`: every generated file as text AND as abstract
  content, header/body fuzzing), and by the `decide` obligations on the regenerated tables below.
-/
import DDProofs.DddmpTextProofs
import DDProps.C16
open Std
namespace DD

/-! ## obligations on the regenerated tables -/

/-- the grammar of `dd/dddmp.py` the model was written for -/
def modelDddmpProductions : List (String × String) :=
  [("p_algebraic_dd", "algdd : ADD"), ("p_aux_ids", "auxids : AUXIDS integers"),
   ("p_dd_name", "diagram_name : DD name"), ("p_expression_name", "name : NAME"),
   ("p_file", "file : lines"), ("p_integers_end", "integers : number"),
   ("p_integers_iter", "integers : integers number"),
   ("p_line", "line : version | mode | varinfo | diagram_name | nnodes | nvars | nsupportvars | supportvars | orderedvars | varids | permids | auxids | nroots | rootids | algdd | rootnames"),
   ("p_lines_end", "lines : line"), ("p_lines_iter", "lines : lines line"),
   ("p_neg_number", "number : MINUS NUMBER"), ("p_nsupport_vars", "nsupportvars : NSUPPVARS number"),
   ("p_num_nodes", "nnodes : NNODES number"), ("p_num_roots", "nroots : NROOTS number"),
   ("p_num_vars", "nvars : NVARS number"), ("p_number", "number : NUMBER"),
   ("p_ordered_varnames", "orderedvars : ORDEREDVARNAMES varnames"),
   ("p_permuted_ids", "permids : PERMIDS integers"), ("p_root_ids", "rootids : ROOTIDS integers"),
   ("p_root_names", "rootnames : ROOTNAMES varnames"),
   ("p_support_varnames", "supportvars : SUPPVARNAMES varnames"),
   ("p_text_mode", "mode : FILEMODE NAME"), ("p_var_ids", "varids : IDS integers"),
   ("p_varinfo", "varinfo : VARINFO number"), ("p_varname", "varname : name | number"),
   ("p_varnames_end", "varnames : varname"), ("p_varnames_iter", "varnames : varnames varname"),
   ("p_version", "version : VERSION name MINUS number DOT number")]

set_option maxRecDepth 8192 in
/-- the header grammar, the reserved words, the token rules and their order in the current
source are the ones the model implements; every reserved word has a keyword of the model -/
theorem C16_header_tables :
    Gen.dddmpProductions = modelDddmpProductions ∧
    Gen.dddmpReserved.map (·.1) = [".add", ".auxids", ".dd", ".ids", ".mode", ".nnodes", ".nroots",
      ".nsuppvars", ".nvars", ".orderedvarnames", ".permids", ".rootids", ".rootnames",
      ".suppvarnames", ".varinfo", ".ver"] ∧
    (Gen.dddmpReserved.all fun r => (HKw.ofType r.2).isSome) = true ∧
    Gen.dddmpLexRuleOrder = ["KEYWORD", "NAME", "comment", "newline", "NUMBER", "DOT", "MINUS"] ∧
    Gen.dddmpTokenRules = [("DOT", "\\."), ("KEYWORD", "\\.[a-zA-Z][a-zA-Z]*"), ("MINUS", "\\-"),
      ("NAME", "[a-zA-Z_][a-zA-Z_@0-9'\\.]*"), ("NUMBER", "\\d+"), ("comment", "\\#.*"),
      ("newline", "\\n+")] ∧
    Gen.dddmpLexIgnore = " \t" := by
  decide

/-! ## refused and ignored header lines -/

/-- C16 (refused headers): the parse of a header fails exactly when one of its lines is
`.mode X` with `X ≠ A` (binary mode `B` included: `Exception`) or `.rootnames …`
(`NotImplementedError`); the FIRST such line in file order decides the exception -/
theorem C16_header_refused (ls : List DddmpLine) (f : DddmpFile) (e : Err) :
    dddmpApplyLines f ls = .error e ↔ (ls.filterMap DddmpLine.refusal).head? = some e :=
  dddmpApplyLines_error_iff ls f e

theorem C16_refusal_cases (l : DddmpLine) (e : Err) :
    l.refusal = some e ↔
      (∃ s, l = .mode s ∧ s ≠ "A" ∧ e = .other) ∨ (∃ ns, l = .rootnames ns ∧ e = .notImplemented) := by
  cases l with
  | mode s => by_cases hs : s = "A" <;> simp [DddmpLine.refusal, hs, eq_comm]
  | rootnames l => simp [DddmpLine.refusal, eq_comm]
  | _ => simp [DddmpLine.refusal]

/-- … every other header is accepted: `.ver` (any name and numbers), `.mode A`, `.dd`, `.add`,
and the lines that carry content -/
theorem C16_header_accepted (ls : List DddmpLine) (f : DddmpFile) :
    (∃ f', dddmpApplyLines f ls = .ok f') ↔ ∀ l ∈ ls, l.refusal = none :=
  dddmpApplyLines_ok_iff ls f

/-- the exception of a result -/
def dddmpErrOf {α : Type} : Except Err α → Option Err
  | .error e => some e
  | .ok _ => none

example : dddmpErrOf (dddmpApplyLines {} [.ver "DDDMP" 2 0, .add, .mode "B", .rootnames [.str "f"]]) = some .other ∧
    dddmpErrOf (dddmpApplyLines {} [.ver "DDDMP" 2 0, .rootnames [.str "f"], .mode "B"]) = some .notImplemented ∧
    (dddmpApplyLines {} [.ver "x" (-2) 0, .add, .mode "A", .dd "foo", .nvars 3]).toOption.map
      (fun f => (f.add, f.nvars)) = some (true, some 3) := by decide

/-- C16 (ignored headers): erasing the lines `.ver`, `.mode A`, `.dd`, `.add` from an accepted
header gives an accepted header, and `load` returns the same manager, the same map and the same
file semantics.  In particular `.add` — the mark of an ADD file — is silently accepted: the file
is read as a BDD. -/
theorem C16_header_ignored (ls : List DddmpLine) (f1 : DddmpFile)
    (h : dddmpApplyLines {} ls = .ok f1) (nodes : List DddmpNode) :
    ∃ f2, dddmpApplyLines {} (ls.filter fun l => !l.ignored) = .ok f2 ∧
      loadDddmpU { f2 with nodes := nodes } = loadDddmpU { f1 with nodes := nodes } ∧
      loadDddmp { f2 with nodes := nodes } = loadDddmp { f1 with nodes := nodes } ∧
      evalFile { f2 with nodes := nodes } = evalFile { f1 with nodes := nodes } ∧
      evalFormat { f2 with nodes := nodes } = evalFormat { f1 with nodes := nodes } := by
  obtain ⟨f2, h2, hc⟩ := dddmpApplyLines_filter ls {} {} f1 h rfl
  have hc' : ({ f2 with nodes := nodes } : DddmpFile).content =
      ({ f1 with nodes := nodes } : DddmpFile).content := by
    simp only [DddmpFile.content, DddmpFile.mk.injEq] at hc ⊢
    obtain ⟨h1, h2, h3, h4, h5, h6, h7, h8, h9, h10, h11, -, -⟩ := hc
    simp [*]
  refine ⟨f2, h2, loadDddmpU_congr hc', ?_, ?_, ?_⟩
  · rw [← loadDddmp_content, hc', loadDddmp_content]
  · rw [← evalFile_content, hc', evalFile_content]
  · rw [← evalFormat_content, hc', evalFormat_content]

/-- `.add` alone -/
theorem C16_add_accepted (f : DddmpFile) :
    dddmpApplyLine f .add = .ok { f with add := true } ∧
      loadDddmpU { f with add := true } = loadDddmpU f := ⟨rfl, rfl⟩

/-- `.auxids` is only counted (`len(aux_var_ids) == n_support_vars`) -/
theorem C16_auxids_only_counted (f : DddmpFile) (l : List Int) (h : lenNe l f.nsuppvars = false) :
    loadDddmpU { f with auxids := some l } = loadDddmpU { f with auxids := none } :=
  loadDddmpU_auxids f l h

/-! ## from the text -/

/-- the header text is lexed, parsed by the grammar, and the actions run in file order -/
theorem C16_text_header (s : List Char) (t : HTok) (toks : List HTok) (ill : Bool)
    (ls : List DddmpLine)
    (hl : dddmpLex (joinNl (dddmpHeaderLines (pyLines s))) = (t :: toks, ill))
    (hs : dddmpSyntaxF ((t :: toks).length + 1) (t :: toks) ill = some ls) :
    dddmpHeaderOfText s = dddmpApplyLines {} ls := by
  unfold dddmpHeaderOfText dddmpParseHeader
  rw [hl]
  exact dddmpParseHeaderF_of_syntax _ _ _ _ _ hs

/-- C16 from the TEXT of a file: when the text parses to the content `f` (header in the grammar
with no refused line, every node line five columns with integers) and `f` is well-formed,
`dd.dddmp.load` on the text returns what `C16_load_good` states for `f` -/
theorem C16_text_load (s : List Char) (f : DddmpFile) (hp : dddmpParseText s = some f) (hf : f.WF) :
    ∃ m, loadDddmpText s = .ok m ∧ GoodState m (fun _ => 0) ∧ m.sched = [] ∧
      (∀ r ∈ m.roots, m.tbl.Mem r) ∧ DddmpRootsDenote f m := by
  obtain ⟨m, h, hg, hs, -, -, hr, hd, -⟩ := C16_load_good f hf
  exact ⟨m, by rw [loadDddmpText_of_parse hp]; exact h, hg, hs, hr, hd⟩

/-- the file of the chain example, as text: shuffled header lines, a comment, `.add`, `.dd`, a
list that runs over two lines, tabs, `\r\n` line ends -/
def dddmpChainText : String :=
  ".ver DDDMP-2.0\r\n.add\n.mode A\n.varinfo 0 # ids\n.dd chain\n.nnodes 4\n.nvars 6\n.nsuppvars 3\n" ++
  ".suppvarnames x y\n\tz\n.ids 4 7 1\n.permids 2 5 0\n.nroots 2\n.rootids 2 -4\n" ++
  ".nodes\n2 1 2 4 3\n1 T 1 0 0\n4 4 0 1 -3\n3 7 1 1 -1\n.end\nanything\n"

example : (dddmpParseText dddmpChainText.toList).map DddmpFile.content = some dddmpChain.content := by
  decide +kernel

example : ∃ f, dddmpParseText dddmpChainText.toList = some f ∧ f.WF ∧ f.add = true := by
  have h : ((dddmpParseText dddmpChainText.toList).map fun f => (decide f.WF, f.add)) =
      some (true, true) := by decide +kernel
  cases hf : dddmpParseText dddmpChainText.toList with
  | none => rw [hf] at h; cases h
  | some f =>
    rw [hf] at h
    simp only [Option.map_some, Option.some.injEq, Prod.mk.injEq, decide_eq_true_eq] at h
    exact ⟨f, rfl, h.1, h.2⟩

/-! ## the line dispatch: dotted variable names (finding F23, repaired in f9d6f33)

`t_NAME` is `[a-zA-Z_][a-zA-Z_@0-9'\.]*`: `y.end` and `y.nodes` are variable names of the
format (CUDD stores whatever names the application passes; `dd.cudd` passes the names of its
variables, in which dots are usual).  `_parse_header` and `_parse_body` used to cut the file with
`'.nodes' in line` / `'.end' in line`: the node line `2 y.end 1 1 -1` ended the body
(`AssertionError`), the header line `.orderedvarnames x y.nodes` ended the header (`TypeError`).
Now they test `line.startswith(..)`. -/

/-- a minimal valid `.varinfo 3` file: `x`, then the variable `y`; root 3 = `ite(x, TRUE, y)` -/
def dddmpDottedTextM (mode y : String) : String :=
  ".ver DDDMP-2.0\n" ++ mode ++ "\n.varinfo 3\n.nnodes 3\n.nvars 2\n.nsuppvars 2\n" ++
  ".orderedvarnames x " ++ y ++ "\n.suppvarnames x " ++ y ++ "\n.ids 0 1\n.permids 0 1\n.nroots 1\n.rootids 3\n" ++
  ".nodes\n1 T 1 0 0\n2 " ++ y ++ " 1 1 -1\n3 x 0 1 2\n.end\n"

def dddmpDottedText (y : String) : String := dddmpDottedTextM ".mode A" y

/-- the content of that file -/
def dddmpDottedFile (y : String) : DddmpFile := {
  varinfo := some 3, nnodes := some 3, nvars := some 2, nsuppvars := some 2,
  suppvarnames := some [.str "x", .str y], orderedvarnames := some [.str "x", .str y],
  ids := some [0, 1], permids := some [0, 1], nroots := some 1, rootids := some [3],
  nodes := [⟨1, .str "T", 1, 0, 0⟩, ⟨2, .str y, 1, 1, -1⟩, ⟨3, .str "x", 0, 1, 2⟩],
  ver := some ("DDDMP", 2, 0), mode := some "A" }

/-- what such a file says: root 3 is `x ∨ y` -/
theorem dddmpDotted_meaning (y : String) (hy : y ≠ "x") (hT : y ≠ "T") (α : String → Bool) :
    evalFormat (dddmpDottedFile y) α 3 = (α "x" || α y) := by
  have e1 : (DddmpTok.str "x" == DddmpTok.str y) = false := by
    rw [beq_eq_false_iff_ne]; intro e; cases e; exact hy rfl
  have e2 : ¬ (DddmpTok.str y = DddmpTok.str "T") := by intro e; cases e; exact hT rfl
  have e3 : ¬ (DddmpTok.str "x" = DddmpTok.str "T") := by decide
  simp [evalFormat, dddmpDottedFile, evalNodesF, dddmpNameOf, DddmpTok.show, e1, e2, e3]

/-- C16 (dotted names, after f9d6f33): the valid `.varinfo 3` file whose second variable is
called `y.end` / `y.nodes` parses to its content, which is well-formed; `load` on the TEXT
returns a good state whose roots denote, by variable NAME, what the file says (root 3 = `x ∨ y`);
the variable is declared under its dotted name at level 1 -/
theorem C16_dotted_names_load (y : String) (hy : y = "y.end" ∨ y = "y.nodes") :
    dddmpParseText (dddmpDottedText y).toList = some (dddmpDottedFile y) ∧ (dddmpDottedFile y).WF ∧
    ∃ m, loadDddmpText (dddmpDottedText y).toList = .ok m ∧ GoodState m (fun _ => 0) ∧
      DddmpRootsDenoteBy (evalFormat (dddmpDottedFile y)) (dddmpDottedFile y) m ∧
      (∀ α, evalFormat (dddmpDottedFile y) α 3 = (α "x" || α y)) ∧
      m.nvars = 2 ∧ m.tbl.vars["x"]? = some 0 ∧ m.tbl.vars[y]? = some 1 := by
  have key : dddmpParseText (dddmpDottedText y).toList = some (dddmpDottedFile y) ∧
      (dddmpDottedFile y).WF ∧ DddmpHeaderOK (dddmpDottedFile y) := by
    rcases hy with rfl | rfl <;> decide +kernel
  obtain ⟨hp, hwf, hH⟩ := key
  refine ⟨hp, hwf, ?_⟩
  obtain ⟨m, h, hg, hr, -, hn, hord⟩ := C16_varinfo3 (dddmpDottedFile y) hwf hH rfl
    (ov := [.str "x", .str y]) rfl
  refine ⟨m, by rw [loadDddmpText_of_parse hp]; exact h, hg, hr, ?_, hn, ?_, ?_⟩
  · intro α
    exact dddmpDotted_meaning y (by rcases hy with rfl | rfl <;> decide)
      (by rcases hy with rfl | rfl <;> decide) α
  · exact (hord 0 (.str "x") rfl).1
  · exact (hord 1 (.str y) rfl).1

example : ((loadDddmpText (dddmpDottedText "y.end").toList).toOption.map fun m => (m.roots, m.nvars)) =
    some ([3], 2) := by decide +kernel

/-- the facts behind it: the header ends at the first line that STARTS with `.nodes`, the body at
the first line after it that starts with `.end` -/
theorem C16_line_dispatch (pre : List (List Char)) (l : List Char) (body : List (List Char))
    (l' : List Char) (post : List (List Char))
    (hpre : ∀ x ∈ pre, hasNodesMark x = false) (hl : hasNodesMark l = true)
    (hbody : ∀ x ∈ body, hasEndMark x = false) (hl' : hasEndMark l' = true) :
    dddmpHeaderLines (pre ++ l :: (body ++ l' :: post)) = pre ∧
      dddmpBodyLines (pre ++ l :: (body ++ l' :: post)) = body :=
  ⟨dddmpHeaderLines_cut pre l _ hpre hl, dddmpBodyLines_cut pre l body l' post hpre hl hbody hl'⟩

/-- … and a line that does not start with a dot is never a mark, whatever names stand on it:
every node line (it starts with the node number), every comment line -/
theorem C16_no_mark_inside (c : Char) (l : List Char) (h : c ≠ '.') :
    hasNodesMark (c :: l) = false ∧ hasEndMark (c :: l) = false :=
  noMark_of_head h

example : hasEndMark "2 y.end 1 1 -1\n".toList = false ∧
    hasNodesMark ".orderedvarnames x y.nodes\n".toList = false ∧
    hasNodesMark "# the .nodes follow\n".toList = false ∧
    hasNodesMark ".nodes\n".toList = true ∧ hasEndMark ".end\n".toList = true := by decide

/-- HISTORICAL (the code before f9d6f33, finding F23): with the substring test a name that
contains the mark made every line on which it stands a mark -/
theorem C16_substring_dispatch_cut (a name b : List Char) :
    (isInfixC ['.', 'e', 'n', 'd'] name = true → isInfixC ['.', 'e', 'n', 'd'] (a ++ name ++ b) = true) ∧
    (isInfixC ['.', 'n', 'o', 'd', 'e', 's'] name = true →
      isInfixC ['.', 'n', 'o', 'd', 'e', 's'] (a ++ name ++ b) = true) :=
  ⟨isInfixC_append _ a name b, isInfixC_append _ a name b⟩

example : isInfixC ['.', 'e', 'n', 'd'] "2 y.end 1 1 -1\n".toList = true := by decide

/-! ## other refusals / quirks of the text, on the minimal file -/

example : dddmpErrOf (loadDddmpText (dddmpDottedTextM ".mode B" "y").toList) = some .other ∧
    dddmpErrOf (loadDddmpText (dddmpDottedTextM ".mode A .rootnames f" "y").toList) = some .notImplemented ∧
    dddmpErrOf (loadDddmpText (dddmpDottedTextM ".add" "y").toList) = none := by decide +kernel

end DD
