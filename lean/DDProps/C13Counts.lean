/-
  DDProps.C13Counts — `image` / `preimage` keep the reference counts exact (C13 + C06/C17):
  for ANY arguments (well-formed or rejected), with reordering not enabled, the call — whether
  it returns or raises — leaves a manager with the invariant, every old node unchanged, the
  order and switches unchanged (`Kept`), and `RefExact` for the SAME ledger: the operation takes
  no reference of its own, so a following `collect_garbage` / reordering theorem applies.
  (The value of the result is `C13_image` / `C13_preimage` in DDProps.C13.)
-/
import DDProofs.AutoImage
import DDProofs.GcExample
open Std

namespace DD

/-- C13 (`image`, counts): any arguments, reordering not enabled -/
theorem C13_image_counts (ext : Nat → Nat) (t s : Int) (rn : List (Key × Key)) (q : List Key)
    (fa : Bool) (m : Mgr) (hI : Inv m) (hr : RefExact m ext) (hoff : m.lastLen = none) :
    Kept m (image t s rn q fa m).2 ∧ RefExact (image t s rn q fa m).2 ext ∧
    (image t s rn q fa m).2.lastLen = none := by
  obtain ⟨k, l⟩ := image_kl ext t s rn q fa m hI (hI.lite hr hoff)
  exact ⟨k, l.exact, l.off⟩

/-- C13 (`preimage`, counts): any arguments, reordering not enabled -/
theorem C13_preimage_counts (ext : Nat → Nat) (t s : Int) (rn : List (Key × Key)) (q : List Key)
    (fa : Bool) (m : Mgr) (hI : Inv m) (hr : RefExact m ext) (hoff : m.lastLen = none) :
    Kept m (preimage t s rn q fa m).2 ∧ RefExact (preimage t s rn q fa m).2 ext ∧
    (preimage t s rn q fa m).2.lastLen = none := by
  obtain ⟨k, l⟩ := preimage_kl ext t s rn q fa m hI (hI.lite hr hoff)
  exact ⟨k, l.exact, l.off⟩

/-- non-vacuity: the example manager of C06 (variables `a`, `b`; the user holds `a ∧ b`) meets
the hypotheses; `image(a ∧ b, b, {}, {a})` on it -/
example : RefExact (image 4 3 [] [.name "a"] false exM).2 exExt :=
  (C13_image_counts exExt 4 3 [] [.name "a"] false exM exM_inv exM_refExact (by decide)).2.1
example : RefExact (preimage 4 3 [(.name "a", .name "b")] [] true exM).2 exExt :=
  (C13_preimage_counts exExt 4 3 _ [] true exM exM_inv exM_refExact (by decide)).2.1

end DD
