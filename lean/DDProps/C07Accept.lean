/-
  DDProps.C07Accept — ACCEPTANCE of recorded schedules by the reordering model (C07).

  The theorems of DDProps.C07 / C07Levels / C09SchedKeep hold "for every recorded schedule", with
  `.sched` (MODEL-SCHEDULE-MISMATCH) as an allowed outcome of every non-empty schedule.  Here: the
  iteration orders the real code can take are the VALID CHOICES (`Choice.Valid`: a permutation of
  the variable names for `for var in names`, a permutation of each level set at the entry of each
  `swap`); the choice-driven model (DD.OrderChoice: the text of DD.Order with the orders taken
  from the choice, returning the record of the orders it was given) is the relation "the run
  follows this choice"; and

  * the scheduled model REALISES every element of the relation: the record of a returning
    choice-driven run is a schedule that the scheduled model accepts — it returns the same value in
    the same state and consumes the schedule exactly (`C07_reorder_realises_choice`, …);
  * a choice-driven run that raises, raises an exception of the code — never `.sched` — and so
    does the scheduled model under some schedule;
  * for sifting with two variables the relation is TOTAL: every valid choice has a returning run
    (`C07_sift_accepts_every_choice`, from `C07_sift`);
  * the guards `isSchedErr … = false` of the history theorems follow from "`sch` encodes a
    choice" (`EncodesChoice`, decidable), which holds exactly of the records of valid choices
    (`C07_encodes_iff_choice`).
-/
import DDProofs.SchedAcceptGuards
import DDProofs.SchedReplay
import DDProps.C09Sched
open Std

namespace DD

/-- C07 (acceptance, sifting): with at least two variables, FOR EVERY VALID CHOICE `c` of iteration
orders there is a schedule `sch` — the record of the orders `c` picked: `reorderC c none [] m`
returns it — such that `reorder(bdd)` started with `sch` in `m.sched` returns normally, in the
state the choice-driven run ended in, with the schedule consumed exactly (`sched = []`; followed by
any `rest`, exactly `rest` is left); that state satisfies `ReorderInv`, has no unreferenced node
and keeps every held reference. -/
theorem C07_sift_accepts_every_choice (ext : Nat → Nat) (c : Choice) (hc : c.Valid) (m : Mgr)
    (h : ReorderInv ext m) (h2 : 2 ≤ m.nvars) :
    ∃ sch m', reorderC c none [] m = (.ok ((), sch), m') ∧
      reorder none { m with sched := sch } = (.ok (), { m' with sched := [] }) ∧
      (∀ rest, reorder none { m with sched := sch ++ rest } = (.ok (), { m' with sched := rest })) ∧
      ReorderInv ext m' ∧ NoGarbage m' ∧ ReorderRel ext m m' := by
  obtain ⟨sch, m', hrun, hp, hrel, hacc⟩ := applySiftingC_total ext c hc m h h2 []
  refine ⟨sch, m', by rw [← List.nil_append sch]; exact hrun, ?_, hacc, hp.1, hp.2, hrel⟩
  have := hacc []
  rw [List.append_nil] at this
  exact this

/-- C07 (acceptance, `reorder(bdd)` / `reorder(bdd, order)`, any arguments): the record of a
returning choice-driven run is accepted and consumed exactly -/
theorem C07_reorder_realises_choice (ext : Nat → Nat) (c : Choice) (hc : c.Valid) (m : Mgr)
    (h : ReorderInv ext m) (order : Option (List (String × Int))) (sch : List SchedItem) (m' : Mgr)
    (hrun : reorderC c order [] m = (.ok ((), sch), m')) :
    ReorderInv ext m' ∧
    ∀ rest, reorder order { m with sched := sch ++ rest } = (.ok (), { m' with sched := rest }) := by
  have hA := reorderC_acc ext c hc order [] m h
  rw [hrun] at hA
  obtain ⟨new, hl, hR, _, hacc⟩ := hA.ok_run
  have : sch = new := by rw [hl]; rfl
  subst this
  exact ⟨hR, hacc⟩

/-- … and a choice-driven run that raises, raises an exception of the code, which the scheduled
model raises too under some schedule -/
theorem C07_reorder_choice_raises (ext : Nat → Nat) (c : Choice) (hc : c.Valid) (m : Mgr)
    (h : ReorderInv ext m) (order : Option (List (String × Int))) (e : Err) (m' : Mgr)
    (hrun : reorderC c order [] m = (.error e, m')) :
    e ≠ .sched ∧ ∃ sch, ∀ rest, (reorder order { m with sched := sch ++ rest }).1 = .error e := by
  have hA := reorderC_acc ext c hc order [] m h
  rw [hrun] at hA
  exact hA.err_run

/-- C07 (acceptance, the public `swap(x, y)`, any arguments) -/
theorem C07_swap_realises_choice (ext : Nat → Nat) (c : Choice) (hc : c.Valid) (m : Mgr)
    (h : ReorderInv ext m) (x y : VarOrLevel) (r : Nat × Nat) (sch : List SchedItem) (m' : Mgr)
    (hrun : swapPublicC c x y [] m = (.ok (r, sch), m')) :
    ReorderInv ext m' ∧
    ∀ rest, swap x y false { m with sched := sch ++ rest } = (.ok r, { m' with sched := rest }) := by
  have hA := swapPublicC_acc ext c hc m h x y []
  rw [hrun] at hA
  obtain ⟨new, hl, hR, _, hacc⟩ := hA.ok_run
  have : sch = new := by rw [hl]; rfl
  subst this
  exact ⟨hR, hacc⟩

/-- C07 (acceptance, `reorder_to_pairs`) -/
theorem C07_reorderToPairs_realises_choice (ext : Nat → Nat) (c : Choice) (hc : c.Valid) (m : Mgr)
    (h : ReorderInv ext m) (ps : List (String × String)) (sch : List SchedItem) (m' : Mgr)
    (hrun : reorderToPairsC c ps [] m = (.ok ((), sch), m')) :
    ReorderInv ext m' ∧
    ∀ rest, reorderToPairs ps { m with sched := sch ++ rest } = (.ok (), { m' with sched := rest }) := by
  have hA := reorderToPairsC_acc ext c hc ps [] m h
  rw [hrun] at hA
  obtain ⟨new, hl, hR, _, hacc⟩ := hA.ok_run
  have : sch = new := by rw [hl]; rfl
  subst this
  exact ⟨hR, hacc⟩

/-- the default choice (ascending orders) is valid; so is the choice read off ANY schedule -/
theorem C07_choices_exist : Choice.default.Valid ∧ ∀ sch, (Choice.ofSched sch).Valid :=
  ⟨Choice.default_valid, Choice.ofSched_valid⟩

/-- C07 (guards): in a good state of a history, a schedule that ENCODES A CHOICE (decidable:
replaying the choice read off the schedule records exactly the schedule) passes the guards that
`OpGuard2` / `OpGuard4` put on the explicit reorderings -/
theorem C07_guards_of_encodes (m : Mgr) (ext : Nat → Nat) (h : Good3 m ext) (sch : List SchedItem) :
    (EncodesChoice (fun c => reorderC c none) m sch → OpGuard2 m ext (.sift sch)) ∧
    (∀ o, EncodesChoice (fun c => reorderC c (some o)) m sch → OpGuard2 m ext (.reorderTo sch o)) ∧
    (∀ x y, EncodesChoice (fun c => swapPublicC c x y) m sch → OpGuard2 m ext (.swap sch x y)) ∧
    (∀ ps, EncodesChoice (fun c => reorderToPairsC c ps) m sch →
      OpGuard4 m ext (.reorderToPairs sch ps)) :=
  ⟨sift_guard_of_encodes m ext h sch, fun o => reorderTo_guard_of_encodes m ext h o sch,
    fun x y => swap_guard_of_encodes m ext h x y sch,
    fun ps => reorderToPairs_guard_of_encodes m ext h ps sch⟩

/-- C07 (guards, sifting is total): with two variables every valid choice yields a schedule that
passes the guard of `sift` -/
theorem C07_sift_guard_every_choice (m : Mgr) (ext : Nat → Nat) (h : Good3 m ext) (h2 : 2 ≤ m.nvars)
    (c : Choice) (hc : c.Valid) :
    ∃ sch, logOf (reorderC c none [] m).1 = some sch ∧ OpGuard2 m ext (.sift sch) :=
  sift_guard_total m ext h h2 c hc

/-- C07 (guards, the decidable guard is EXACT): a schedule encodes a choice — replaying the choice
read off the schedule records the schedule — IFF it is the record of a returning choice-driven run
under SOME valid choice (DDProofs.SchedReplay: a run depends on the choice only through the
answers recorded) -/
theorem C07_encodes_iff_choice (m : Mgr) (sch : List SchedItem) :
    (∀ order, EncodesChoice (fun c => reorderC c order) m sch ↔
      ∃ c : Choice, c.Valid ∧ logOf (reorderC c order [] m).1 = some sch) ∧
    (∀ x y, EncodesChoice (fun c => swapPublicC c x y) m sch ↔
      ∃ c : Choice, c.Valid ∧ logOf (swapPublicC c x y [] m).1 = some sch) ∧
    (∀ ps, EncodesChoice (fun c => reorderToPairsC c ps) m sch ↔
      ∃ c : Choice, c.Valid ∧ logOf (reorderToPairsC c ps [] m).1 = some sch) :=
  ⟨fun order => ⟨fun h => ⟨_, Choice.ofSched_valid sch, h⟩,
      fun ⟨c, hc, hl⟩ => (encodes_of_choice c hc m sch).1 order hl⟩,
   fun x y => ⟨fun h => ⟨_, Choice.ofSched_valid sch, h⟩,
      fun ⟨c, hc, hl⟩ => (encodes_of_choice c hc m sch).2.1 x y hl⟩,
   fun ps => ⟨fun h => ⟨_, Choice.ofSched_valid sch, h⟩,
      fun ⟨c, hc, hl⟩ => (encodes_of_choice c hc m sch).2.2 ps hl⟩⟩

/-! ### non-vacuity: a choice that is not the default one -/

/-- every set in descending order -/
def Choice.rev : Choice := ⟨fun _ l => l.reverse, fun _ _ l => l.reverse⟩

theorem Choice.rev_valid : Choice.rev.Valid :=
  ⟨fun _ l => List.reverse_perm l, fun _ _ l => List.reverse_perm l⟩

/-- the record of sifting `exSchedM` (three variables, five nodes; DDProps.C09Sched) under
`Choice.rev`: the variables in the order `c, b, a`, thirteen swaps — the default choice visits
`a, b, c` and swaps fourteen times -/
def exRevSched : List SchedItem :=
  [.sift ["c", "b", "a"],
   .swap [(1, [3]), (2, [4])],
   .swap [(0, [6, 5, 2]), (1, [4])],
   .swap [(0, [6, 5, 4]), (1, [2])],
   .swap [(1, [4]), (2, [3])],
   .swap [(1, [3]), (2, [4])],
   .swap [(1, [4]), (2, [3])],
   .swap [(0, [6, 5, 2]), (1, [3])],
   .swap [(0, [3]), (1, [6, 5, 2])],
   .swap [(1, [3]), (2, [4])],
   .swap [(0, [6, 5, 2]), (1, [4])],
   .swap [(1, [2]), (2, [3])],
   .swap [(1, [3]), (2, [2])],
   .swap [(0, [6, 5, 4]), (1, [2])]]

theorem C07_accept_example :
    logOf (reorderC Choice.rev none [] exSchedM).1 = some exRevSched ∧
    (logOf (reorderC Choice.default none [] exSchedM).1).map List.length = some 15 ∧
    (reorder none { exSchedM with sched := exRevSched }).1.toOption = some () ∧
    (reorder none { exSchedM with sched := exRevSched }).2.sched = [] ∧
    (reorder none { exSchedM with sched := exRevSched }).2.tbl.l2v.toList =
      [(0, "a"), (1, "c"), (2, "b")] ∧
    (reorderC Choice.rev none [] exSchedM).2.tbl.l2v.toList = [(0, "a"), (1, "c"), (2, "b")] ∧
    EncodesChoice (fun c => reorderC c none) exSchedM exRevSched := by
  unfold exSchedM
  decide +kernel

/-- the hypotheses of `C07_sift_accepts_every_choice` hold of the example, and the schedule it
yields is the one computed above -/
example : ∃ m', reorder none { exSchedM with sched := exRevSched } =
      (.ok (), { m' with sched := [] }) ∧ ReorderInv exSchedExt m' ∧ NoGarbage m' := by
  obtain ⟨sch, m', hrun, hacc, _, hR, hN, _⟩ :=
    C07_sift_accepts_every_choice exSchedExt Choice.rev Choice.rev_valid exSchedM
      exSchedM_dynInv.toS.reorderInv exSchedM_dynInv.nvars
  have h1 := C07_accept_example.1
  rw [hrun] at h1
  cases h1
  exact ⟨m', hacc, hR, hN⟩

end DD
