/-
  DDProps.C12Total — C12 without hypotheses about the callee's own intermediate results
  (audit gaps 6 and 13).

  * `dump` is TOTAL on references of the manager: the round-trip theorems no longer assume
    `dump … = .ok f`.
  * The default call `load(file)` (`levels=True`): after the pre-check of `_load_pickle`
    (`levelsCompatible`) the declaration loop cannot fail for a file whose `(variable, level)`
    pairs are a bijection onto `0..n-1` (`VarsWF`; every dump writes such pairs), the transient
    level gaps (F7) are closed when the loop ends, and the conclusion is `OrderOK`, not merely
    "consistent tables".  A fresh manager passes the pre-check.
-/
import DDProofs.DumpTotal
import DDProofs.DynExample
import DDProofs.PredNodesReach
import DDProofs.UsedExample
import DDProofs.DumpPerm
import DDProps.Histories
open Std
namespace DD

/-- C12: `BDD.dump(file.p, roots)` cannot fail on references of the manager (any container,
`roots=None` included) -/
theorem C12_dump_pickle_total (m : Mgr) (hI : Inv m) (roots : Roots)
    (hr : ∀ u ∈ roots.values, m.tbl.Mem u) : ∃ f, dumpPickle m roots = .ok f :=
  dumpPickle_total m hI roots hr

/-- C12: `autoref.BDD.dump(file.json, roots)` cannot fail on a non-empty container of references
of the manager (`roots=None` and an empty container are refused: `ValueError` / `StopIteration`) -/
theorem C12_dump_json_total (m : Mgr) (hI : Inv m) (roots : Roots) (hn : roots ≠ .none)
    (hne : roots.values ≠ []) (hr : ∀ u ∈ roots.values, m.tbl.Mem u) :
    ∃ f, dumpJson m roots = .ok f :=
  dumpJson_total m hI roots hn hne hr

/-- C12: every dump writes pairs that are a bijection onto `0..n-1` -/
theorem C12_dump_varsWF {m : Mgr} (hv : DmpVarsOK m.tbl) {roots : Roots} {f : PickleFile}
    (h : dumpPickle m roots = .ok f) : VarsWF f.vars := dumpPickle_varsWF hv h

/-- C12: the declaration loop of `load(levels=True)` after the pre-check: it cannot fail, the
order is a bijection again when it ends, every pair of the file is in place, declared variables
keep their level -/
theorem C12_loadVars_true_total (F : List (String × Nat)) (hF : VarsWF F) (m : Mgr) (hO : OrderOK m.tbl)
    (hc : levelsCompatible m.tbl F = true) :
    ∃ lm m1, loadVars true F.length F [] m = (.ok lm, m1) ∧ OrderOK m1.tbl ∧
      (∀ var i, (var, i) ∈ F → m1.tbl.vars[var]? = some i) ∧
      (∀ (v : String) (l : Nat), m.tbl.vars[v]? = some l → m1.tbl.vars[v]? = some l) :=
  loadVars_true_total F hF m hO hc

/-- a fresh manager passes the pre-check, whatever the file -/
theorem C12_levelsCompatible_fresh (vs : List (String × Nat)) :
    levelsCompatible ({} : Mgr).tbl vs = true := levelsCompatible_fresh vs

/-- C12: `BDD.load(file)` (`levels=True`) of any well-formed content with bijective pairs into a
manager that passes the pre-check: returns, `Inv`, `OrderOK`, exact counts, the variables at the
file's levels, old nodes kept, the roots by name -/
theorem C12_pickle_load_levels (f : PickleFile) (hwf : PickleWF f) (hV : VarsWF f.vars)
    (hr : RootsResolvable f) (m : Mgr) (hI : Inv m) (hO : OrderOK m.tbl) (hc : m.ctx = false)
    (hcomp : levelsCompatible m.tbl f.vars = true) :
    ∃ roots' m', loadPickle f true m = (.ok roots', m') ∧ Inv m' ∧ OrderOK m'.tbl ∧
      (∀ ext, RefExact m ext → RefExact m' ext) ∧
      (∀ var i, (var, i) ∈ f.vars → m'.tbl.vars[var]? = some i) ∧
      (∀ u n, m.tbl.node? u = some n → m'.tbl.node? u = some n) ∧ LoadedFrom f m'.tbl roots' :=
  pickle_load_levels f hwf hV hr m hI hO hc hcomp

/-- C12: `dump(file, roots); load(file)` with the defaults, no hypothesis about the dump or the
loader's first loop -/
theorem C12_pickle_roundtrip_levels (src : Mgr) (hIs : Inv src) (hOs : OrderOK src.tbl) (roots : Roots)
    (hroots : ∀ u ∈ roots.values, src.tbl.Mem u)
    (tgt : Mgr) (hI : Inv tgt) (hO : OrderOK tgt.tbl) (hc : tgt.ctx = false)
    (hcomp : levelsCompatible tgt.tbl src.tbl.vars.toList = true) :
    ∃ f roots' m', dumpPickle src roots = .ok f ∧ loadPickle f true tgt = (.ok roots', m') ∧
      Inv m' ∧ OrderOK m'.tbl ∧ (∀ ext, RefExact tgt ext → RefExact m' ext) ∧
      (∀ (v : String) (i : Nat), src.tbl.vars[v]? = some i → m'.tbl.vars[v]? = some i) ∧
      (∀ u n, tgt.tbl.node? u = some n → m'.tbl.node? u = some n) ∧
      LoadedAs src.tbl roots m'.tbl roots' :=
  pickle_roundtrip_levels src hIs hOs roots hroots tgt hI hO hc hcomp

/-- C12: the same into `BDD()`: the loaded manager has the source's order and exact counts -/
theorem C12_pickle_roundtrip_fresh (src : Mgr) (hIs : Inv src) (hOs : OrderOK src.tbl) (roots : Roots)
    (hroots : ∀ u ∈ roots.values, src.tbl.Mem u) :
    ∃ f roots' m', dumpPickle src roots = .ok f ∧ loadPickle f true {} = (.ok roots', m') ∧
      Inv m' ∧ OrderOK m'.tbl ∧ RefExact m' (fun _ => 0) ∧
      (∀ (v : String) (i : Nat), src.tbl.vars[v]? = some i → m'.tbl.vars[v]? = some i) ∧
      LoadedAs src.tbl roots m'.tbl roots' :=
  pickle_roundtrip_fresh src hIs hOs roots hroots

/-- C12: JSON round trip (either `load_order`, reordering not enabled in the target) without the
hypothesis that the dump succeeds -/
theorem C12_json_roundtrip_total (src : Mgr) (hIs : Inv src) (hOs : OrderOK src.tbl) (roots : Roots)
    (hn : roots ≠ .none) (hne : roots.values ≠ []) (hroots : ∀ u ∈ roots.values, src.tbl.Mem u)
    (lo : Bool) (tgt : Mgr) (e : Nat → Nat) (hg : GoodState tgt e) (hpn : PredNodes tgt)
    (hr : ∀ r ∈ tgt.roots, tgt.tbl.Mem r)
    (hlo : lo = true → tgt.sched = [] ∧ (∀ r ∈ tgt.roots, 0 < e r.natAbs) ∧
      ∀ v : String, tgt.tbl.vars.contains v = true → src.tbl.vars.contains v = true) :
    ∃ f roots' m', dumpJson src roots = .ok f ∧ loadJson f lo tgt = (.ok roots', m') ∧
      JsonLoaded f e lo roots' m' ∧ LoadedAs src.tbl roots m'.tbl roots' :=
  json_roundtrip_total src hIs hOs roots hn hne hroots lo tgt e hg hpn hr hlo

/-! ### the model-artefact hypotheses hold in every reachable state (audit gap 14) -/

/-- C12: `PredNodes` — the hypothesis of `C12_json_load` / `C12_json_roundtrip` about the unique
table — holds in every state reached from the empty manager by a guarded history of user
operations (whatever their arguments, whichever were rejected) -/
theorem C12_reachable_predNodes (ops : List UOp) (hg : OpsGuarded ops St.init) :
    PredNodes (run ops St.init).m := reachable_predNodes ops hg

/-- C12: `PredShape` — the hypothesis of `C12_manager_roundtrip` — holds in every such state -/
theorem C12_reachable_predShape (ops : List UOp) : PredShape (run ops St.init).m :=
  reachable_predShape ops

/-- C12: every user operation keeps the unique table free of stray keys -/
theorem C12_runOp_keysOK (op : UOp) (m : Mgr) (h : KeysOK m) : KeysOK (runOp op m).2 :=
  runOp_keysOK op m h

/-- C12: `load_json` into ANY reachable manager (reordering is not enabled in these histories):
no hypothesis about the unique table left -/
theorem C12_json_load_reachable (f : JsonFile) (lo : Bool) (hf : JsonWF f) (ops : List UOp)
    (hg : OpsGuarded ops St.init)
    (hroots : ∀ r ∈ (run ops St.init).m.roots, (run ops St.init).m.tbl.Mem r)
    (hlo : lo = true → LoadOrderOK f (run ops St.init).m (run ops St.init).ext) :
    ∃ roots' m', loadJson f lo (run ops St.init).m = (.ok roots', m') ∧
      JsonLoaded f (run ops St.init).ext lo roots' m' :=
  json_load_holds f lo _ _ hf (reachable_inv ops hg) (reachable_predNodes ops hg) hroots hlo

/-! ### non-vacuity: the example manager `exM` (a < b; 2 = a, 3 = b, 4 = a ∧ b) -/

example : ∃ f roots' m', dumpPickle exM (.list [4]) = .ok f ∧ loadPickle f true {} = (.ok roots', m') ∧
    Inv m' ∧ OrderOK m'.tbl ∧ RefExact m' (fun _ => 0) ∧
    (∀ (v : String) (i : Nat), exM.tbl.vars[v]? = some i → m'.tbl.vars[v]? = some i) ∧
    LoadedAs exM.tbl (.list [4]) m'.tbl roots' :=
  C12_pickle_roundtrip_fresh exM exM_inv exM_orderOK (.list [4]) (by
    intro u hu
    have : u = 4 := by simpa [Roots.values] using hu
    subst this
    exact Or.inr (by decide))

/-- what the model computes for it -/
example : (dumpPickle exM (.list [4])).toOption.map (·.vars) = some [("a", 0), ("b", 1)] ∧
    (match dumpPickle exM (.list [4]) with
     | .ok f => decide ((loadPickle f true {}).1 = .ok (.list [4])) &&
         decide ((loadPickle f true {}).2.tbl.vars.toList = [("a", 0), ("b", 1)])
     | .error _ => false) = true := by decide +kernel

/-! ### non-vacuity on a USED manager: `usedM` (four variables declared c, a, d, b; thirteen
nodes; the user holds `a ∧ b` once and the four-variable node 13 twice, DDProofs.UsedExample) -/

/-- `dump(file, [13, -4]); load(file)` of the used manager into ITSELF (it passes the pre-check),
with its user references in place: exact counts for the same ledger -/
example : ∃ f roots' m', dumpPickle usedM (.list [13, -4]) = .ok f ∧ loadPickle f true usedM = (.ok roots', m') ∧
    Inv m' ∧ OrderOK m'.tbl ∧ RefExact m' usedExt ∧ LoadedAs usedM.tbl (.list [13, -4]) m'.tbl roots' := by
  obtain ⟨f, roots', m', hd, e, I, O, X, _, _, R⟩ := C12_pickle_roundtrip_levels usedM usedM_good.inv
    usedM_good.order (.list [13, -4]) (by
      intro u hu
      have : u = 13 ∨ u = -4 := by simpa [Roots.values] using hu
      rcases this with rfl | rfl
      · exact usedM_mem13
      · exact mem_neg usedM_mem4)
    usedM usedM_good.inv usedM_good.order usedM_good.ctx
    (levelsCompatible_declared _ _ (fun var i hm => TreeMap.mem_toList_iff_getElem?_eq_some.mp hm))
  exact ⟨f, roots', m', hd, e, I, O, X _ usedM_good.exact, R⟩

/-- the JSON round trip, BOTH values of `load_order`, from the used manager (order c < a < d < b)
into ANOTHER used manager with another order (`a < b` only, nodes 2, 3, 4, the user holds node
4): `load_order=True` imposes the source's order on it -/
example (lo : Bool) : ∃ f roots' m', dumpJson usedM (.dict [("f", 13), ("g", -4)]) = .ok f ∧
    loadJson f lo (run (exHistory.take 12) St.init).m = (.ok roots', m') ∧
    JsonLoaded f (run (exHistory.take 12) St.init).ext lo roots' m' ∧
    LoadedAs usedM.tbl (.dict [("f", 13), ("g", -4)]) m'.tbl roots' := by
  have hops : OpsGuarded (exHistory.take 12) St.init := by decide
  have hg := reachable_inv _ hops
  have hroots : (run (exHistory.take 12) St.init).m.roots = [] := by decide
  have hsub : ∀ v : String, (run (exHistory.take 12) St.init).m.tbl.vars.contains v = true →
      usedM.tbl.vars.contains v = true := by
    intro v hv
    have hk : (run (exHistory.take 12) St.init).m.tbl.vars.keys = ["a", "b"] := by decide
    have : v ∈ (run (exHistory.take 12) St.init).m.tbl.vars.keys := by
      rw [TreeMap.mem_keys, TreeMap.mem_iff_contains]; exact hv
    rw [hk] at this
    have hs := usedM_shape.1
    rw [TreeMap.contains_eq_isSome_getElem?]
    rcases (by simpa using this : v = "a" ∨ v = "b") with rfl | rfl
    · have : ("a", 1) ∈ usedM.tbl.vars.toList := by rw [hs]; simp
      rw [TreeMap.mem_toList_iff_getElem?_eq_some.mp this]; rfl
    · have : ("b", 3) ∈ usedM.tbl.vars.toList := by rw [hs]; simp
      rw [TreeMap.mem_toList_iff_getElem?_eq_some.mp this]; rfl
  have hnone : ∀ r ∈ (run (exHistory.take 12) St.init).m.roots,
      0 < (run (exHistory.take 12) St.init).ext r.natAbs := by
    rw [hroots]; intro r hr; cases hr
  exact C12_json_roundtrip_total usedM usedM_good.inv usedM_good.order _ (by simp) (by simp [Roots.values]) (by
      intro u hu
      have : u = 13 ∨ u = -4 := by simpa [Roots.values] using hu
      rcases this with rfl | rfl
      · exact usedM_mem13
      · exact mem_neg usedM_mem4) lo _ _ hg (reachable_predNodes _ hops)
    (by rw [hroots]; intro r hr; cases hr) (fun _ => ⟨by decide, hnone, hsub⟩)

end DD
