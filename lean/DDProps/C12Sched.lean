/-
  DDProps.C12Sched — C12 for `_copy.load_json(load_order=False)` with dynamic reordering ENABLED
  in the receiving manager, for EVERY RECORDED ITERATION SCHEDULE.

  `C12_json_load_dyn` / `C12_json_roundtrip_dyn` (DDProps.C12Dyn) assume `DynInv ext tgt`, which
  contains `tgt.sched = []`: the siftings that the decorated `var` / `ite` of the loader may
  trigger are covered for the model's default iteration order only, while the differential check
  runs the `load_json` line with the recorded schedule of ALL the siftings of that load put into
  `tgt.sched` (one schedule, consumed front to back by the successive decorated calls).

  Here (DDProofs.SchedDumpJsonDyn: the development of DDProofs.DumpJsonDyn re-checked for
  `DynInvS`, with the additional outcome at each decorated call): from `DynInvS ext tgt` —
  whatever is in `tgt.sched` — the load
    * returns the documented result with `JsonLoadedS` (the conclusion `JsonLoadedDyn` of
      DDProps.C12Dyn with `DynInvS` for `DynInv`: ledger = the caller's plus ONE reference per
      returned `Function`, the reader's assertions pass, reordering enabled iff it was, names,
      roots, every held reference by name, the container denotes what the file says);
    * or one of the siftings reported a schedule mismatch: the `try:` body of `_load_json`
      (`jsonTry`) failed with the model's `.sched`, and `_load_json` raises.
  With `tgt.sched = []` the first alternative is `C12_json_load_dyn`.  That `.sched` does not occur
  for a schedule recorded from a real run is the harness's tie (DDProps.C09Sched).
  `load_order=True` switches reordering off first and then calls the explicit `reorder(order)`:
  that case is C07's (`C07_reorder_order`, every schedule), not lifted here.
-/
import DDProofs.SchedDumpJsonDyn
import DDProps.C12Dyn
open Std
namespace DD

/-- the state after `load_json(load_order=False)` under an arbitrary recorded schedule:
`JsonLoadedDyn` with `DynInvS` -/
structure JsonLoadedS (f : JsonFile) (ext : Nat → Nat) (tgt : Mgr) (roots' : Roots) (m' : Mgr) : Prop where
  dyn : DynInvS (extAdd ext (roots'.values.map Int.natAbs)) m'
  pred : PredNodes m'
  reordering : m'.lastLen.isSome = tgt.lastLen.isSome
  oldNames : ∀ v : String, tgt.tbl.vars.contains v = true → m'.tbl.vars.contains v = true
  fileNames : ∀ v ∈ f.levelOfVar.map (·.1), m'.tbl.vars.contains v = true
  regRoots : m'.roots = tgt.roots
  held : ∀ w, HeldX ext w → m'.tbl.Mem w ∧ ∀ σ, denN m'.tbl w σ = denN tgt.tbl w σ
  roots : RootsRel (fun u r => m'.tbl.Mem r ∧ ∀ σ, denN m'.tbl r σ = evalJson f u σ) f.roots roots'

theorem JsonLoadedS.of {f : JsonFile} {ext : Nat → Nat} {tgt : Mgr} {roots' : Roots} {m' : Mgr}
    (h : S.JsonLoadedDyn f ext tgt roots' m') : JsonLoadedS f ext tgt roots' m' :=
  ⟨h.dyn, h.pred, h.reordering, h.oldNames, h.fileNames, h.regRoots, h.held, h.roots⟩

/-- what the driver stores after the line (`{ m' with sched := [] }`) satisfies the conclusion of
DDProps.C12Dyn literally -/
theorem JsonLoadedS.driver {f : JsonFile} {ext : Nat → Nat} {tgt : Mgr} {sch : List SchedItem}
    {roots' : Roots} {m' : Mgr} (h : JsonLoadedS f ext { tgt with sched := sch } roots' m') :
    JsonLoadedDyn f ext tgt roots' { m' with sched := [] } :=
  ⟨h.dyn.clear, h.pred.congr rfl rfl, h.reordering, h.oldNames, h.fileNames, h.regRoots, h.held, h.roots⟩

/-- C12, `load_json(load_order=False)`, dynamic reordering enabled, EVERY RECORDED SCHEDULE: for
every well-formed content, from `DynInvS ext tgt` (whatever is in `tgt.sched`): the load returns
with `JsonLoadedS`, or the `try:` body failed with the model's `.sched` (a sifting inside one of
the decorated `var` / `ite` calls found that the recorded schedule does not fit) and the load
raises -/
theorem C12_json_load_dyn_anySchedule (f : JsonFile) (tgt : Mgr) (ext : Nat → Nat) (hf : JsonWF f)
    (hD : DynInvS ext tgt) (hpn : PredNodes tgt) :
    (∃ roots' m', loadJson f false tgt = (.ok roots', m') ∧ JsonLoadedS f ext tgt roots' m') ∨
    ((jsonTry f false tgt).1 = .error .sched ∧ ∃ e, (loadJson f false tgt).1 = .error e) := by
  rcases S.json_load_dyn_holds f tgt ext hf hD hpn with ⟨roots', m', el, L⟩ | hfail
  · exact Or.inl ⟨roots', m', el, JsonLoadedS.of L⟩
  · exact Or.inr hfail

/-- C12, in the driver's form: the stored manager is as between two calls (`DynInv`), the
recorded schedule of the line is put in, the remainder dropped: the conclusion of
`C12_json_load_dyn` for `{ m' with sched := [] }`, or the schedule mismatch -/
theorem C12_json_load_dyn_recorded (f : JsonFile) (tgt : Mgr) (ext : Nat → Nat) (hf : JsonWF f)
    (hD : DynInv ext tgt) (hpn : PredNodes tgt) (sch : List SchedItem) :
    (∃ roots' m', loadJson f false { tgt with sched := sch } = (.ok roots', m') ∧
      JsonLoadedDyn f ext tgt roots' { m' with sched := [] }) ∨
    ((jsonTry f false { tgt with sched := sch }).1 = .error .sched ∧
      ∃ e, (loadJson f false { tgt with sched := sch }).1 = .error e) := by
  rcases C12_json_load_dyn_anySchedule f { tgt with sched := sch } ext hf (hD.withSched sch)
    (hpn.congr rfl rfl) with ⟨roots', m', el, L⟩ | hfail
  · exact Or.inl ⟨roots', m', el, L.driver⟩
  · exact Or.inr hfail

/-- C12, JSON round trip into a manager with reordering enabled, every recorded schedule -/
theorem C12_json_roundtrip_dyn_anySchedule (src : Mgr) (roots : Roots) (f : JsonFile) (tgt : Mgr)
    (ext : Nat → Nat) (hIs : Inv src) (hvs : DmpVarsOK src.tbl) (hd : dumpJson src roots = .ok f)
    (hD : DynInvS ext tgt) (hpn : PredNodes tgt) :
    (∃ roots' m', loadJson f false tgt = (.ok roots', m') ∧ JsonLoadedS f ext tgt roots' m' ∧
      LoadedAs src.tbl roots m'.tbl roots') ∨
    ((jsonTry f false tgt).1 = .error .sched ∧ ∃ e, (loadJson f false tgt).1 = .error e) := by
  rcases S.json_roundtrip_dyn_holds src roots f tgt ext hIs hvs hd hD hpn with
    ⟨roots', m', el, L, hl⟩ | hfail
  · exact Or.inl ⟨roots', m', el, JsonLoadedS.of L, hl⟩
  · exact Or.inr hfail

/-- the one-step lemma: one node line under an arbitrary recorded schedule — the documented
shelf entry, or the decorated `var` / `ite` made the model report `.sched` -/
theorem C12_makeNode_dyn_anySchedule {f : PickleFile} (hw : PickleWF f) (vat : List (Nat × String))
    (ln : JLine) (e0 : Nat → Nat) (l : List Nat) (m : Mgr) (h : S.DynL e0 l m) (hk : KeysOK m)
    (cache : List (Nat × Int)) (hc : S.ShelfN f m.tbl cache)
    (hheld : ∀ k u, cache.lookup k = some u → u.natAbs ∈ l)
    (hnew : cache.lookup ln.id = none)
    (hline : PEntry.find f.succ ln.id = some ⟨ln.id, ln.lvl, some ln.lo, some ln.hi⟩) (hid : ln.id ≠ 1)
    (hlo : ln.lo.natAbs = 1 ∨ (cache.lookup ln.lo.natAbs).isSome)
    (hhi : ln.hi.natAbs = 1 ∨ (cache.lookup ln.hi.natAbs).isSome)
    (name : String) (hvat : vat.lookup ln.lvl = some name) (hname : f.nameAt ln.lvl = some name)
    (hdecl : m.tbl.vars.contains name = true) :
    (∃ u m', makeNode false vat ln cache m = (.ok (cache ++ [(ln.id, u)]), m') ∧
      S.DynL e0 (u.natAbs :: l) m' ∧ KeysOK m' ∧ S.ShelfN f m'.tbl (cache ++ [(ln.id, u)]) ∧
      S.DynKeeps (extAdd e0 l) m m') ∨ (makeNode false vat ln cache m).1 = .error .sched :=
  S.makeNode_dyn hw vat ln e0 l m h hk cache hc hheld hnew hline hid hlo hhi name hvat hname hdecl

/-! ### non-vacuity: `jsonBA` into `exDyn` under a NON-default recorded schedule -/

/-- the variables are visited in the order `b, a` (the default is `a, b`); four swaps -/
def exJsonSched : List SchedItem :=
  [.sift ["b", "a"], .swap [(0, [4]), (1, [3])], .swap [(0, [4]), (1, [2])],
   .swap [(0, [4]), (1, [3])], .swap [(0, [4]), (1, [2])]]

/-- `exDyn` with that schedule put in -/
@[irreducible] def exDynJ : Mgr := { exDyn with sched := exJsonSched }

/-- `exDyn` with a schedule that does not describe a run of the code -/
@[irreducible] def exDynBad : Mgr := { exDyn with sched := [.swap []] }

theorem exDynJ_inv : DynInvS exExt exDynJ ∧ PredNodes exDynJ := by
  unfold exDynJ
  exact ⟨exDyn_dynInv.withSched _, exDyn_predNodes.congr rfl rfl⟩

/-- under the recorded schedule the request fires in the first decorated call, sifting consumes
the WHOLE schedule, the load returns the existing node 4; under the bogus schedule the `try:`
body fails with `.sched`, the load raises, and its clean-up has released every reference it took
(the caller's node 4 keeps its count 1) -/
theorem C12_recorded_schedule_example :
    (loadJson jsonBA false exDynJ).1 = .ok (.list [4]) ∧
    (loadJson jsonBA false exDynJ).2.sched = [] ∧
    (loadJson jsonBA false exDynJ).2.ref.toList = [(1, 6), (2, 0), (3, 1), (4, 2)] ∧
    (jsonTry jsonBA false exDynBad).1 = .error .sched ∧
    (loadJson jsonBA false exDynBad).1 = .error .sched ∧
    (loadJson jsonBA false exDynBad).2.ref.toList = [(1, 4), (3, 1), (4, 1)] := by
  decide +kernel

example : ∃ roots' m', loadJson jsonBA false exDynJ = (.ok roots', m') ∧
    JsonLoadedS jsonBA exExt exDynJ roots' m' := by
  rcases C12_json_load_dyn_anySchedule jsonBA exDynJ exExt jsonBA_wf exDynJ_inv.1 exDynJ_inv.2 with
    h | ⟨_, e, he⟩
  · exact h
  · rw [C12_recorded_schedule_example.1] at he
    cases he

end DD
