/-
  DDProps.C05Lex — C05, the lexical layer: every spelling of every operator, anywhere in a
  formula, with any blanks and comments, is read as the same token; hence all spellings mean
  the same in every formula, and comments are skipped.

  Model: `tokenize` of `DD/Parse.lean` (the PLY lexer of `dd/_parser.py`: rule order of the
  master regular expression, `t_ignore`, the two comment rules, the newline rule); the tables
  `Gen.spellings`, `Gen.reserved`, `Gen.lexIgnore` are regenerated from the source.
-/
import DDProofs.LexLayout
import DDProofs.LexComments
import DDProofs.LexNeeds
import DDProofs.ParseBad
import DDProofs.ParseOpen
import DDProofs.LexOpen
import DDProps.C05
open Std
namespace DD

/-! ## every spelling, in every context -/

/-- C05 (lexer round trip).  For EVERY token string `toks` — operators, delimiters, `\A \E \S`,
`ite`, `TRUE`/`FALSE`, names `[A-Za-z_][A-Za-z0-9_']*` that are not reserved words, numbers
`\d+` — and EVERY layout `L`: a choice, per position, of one of the spellings the regenerated
tables offer for the token (`Tok.spellings`: `&& & /\`, `|| | \/`, `~ !`, `=> ->`, `<=> <->`,
`TRUE True`, `FALSE False`, …), blanks and comments before, between and after the tokens —
the lexer returns `toks`.  The one side condition, inside `layoutOk`, is maximal munch: the
text of a token must not `clash` with the single character that follows it. -/
theorem C05_tokenize_spellWith (L : Layout) (toks : List Tok) (h : layoutOk L toks = true) :
    tokenize (spellWith L toks) = toks :=
  tokenize_spellWith L toks h

/-- … with at least one space / tab / newline / `(* *)` comment after every token there is no
side condition at all: every choice of spellings is read back -/
theorem C05_tokenize_spellWith_spaced (L : Layout) (toks : List Tok) (hok : ∀ t ∈ toks, t.lexOk = true)
    (h : L.spaced toks.length) : tokenize (spellWith L toks) = toks :=
  tokenize_spellWith_spaced L toks hok h

/-- the alternatives are those of the regenerated tables, and every row of the tables is an
alternative of some token -/
theorem C05_spellings_table :
    (Tok.spellings (.op .and) = ["&&", "&", "/\\"] ∧ Tok.spellings (.op .or) = ["||", "|", "\\/"] ∧
     Tok.spellings .not = ["~", "!"] ∧ Tok.spellings (.op .implies) = ["=>", "->"] ∧
     Tok.spellings (.op .equiv) = ["<=>", "<->"] ∧ Tok.spellings (.op .xorHash) = ["#"] ∧
     Tok.spellings (.op .xorCaret) = ["^"] ∧ Tok.spellings (.op .minus) = ["-"] ∧
     Tok.spellings (.op .equals) = ["="] ∧ Tok.spellings .tt = ["TRUE", "True"] ∧
     Tok.spellings .ff = ["FALSE", "False"] ∧ Tok.spellings .ite = ["ite"] ∧
     Tok.spellings .forall_ = ["\\A"] ∧ Tok.spellings .exists_ = ["\\E"] ∧ Tok.spellings .rename = ["\\S"] ∧
     Tok.spellings .lparen = ["("] ∧ Tok.spellings .rparen = [")"] ∧ Tok.spellings .comma = [","] ∧
     Tok.spellings .colon = [":"] ∧ Tok.spellings .div = ["/"] ∧ Tok.spellings .at = ["@"]) ∧
    ((Gen.spellings.all fun r => match tokOfRow r.2.1 r.2.2 with
      | some t => t.spellings.contains r.1 | none => false) = true ∧
     (Gen.reserved.all fun r => (nameTok r.1).spellings.contains r.1) = true) :=
  ⟨spellings_table, spellings_complete⟩

/-- all spellings mean the same IN EVERY FORMULA: two admissible layouts of one token string
— different spellings, different blanks, different comments — are parsed to the same result
(tree, or error with the same partially reduced forest) and `add_expr` does the same -/
theorem C05_spelling_independent (L L' : Layout) (toks : List Tok)
    (h : layoutOk L toks = true) (h' : layoutOk L' toks = true) :
    parseE (tokenize (spellWith L toks)) = parseE (tokenize (spellWith L' toks)) ∧
    addExpr (spellWith L toks) = addExpr (spellWith L' toks) := by
  unfold addExpr
  rw [tokenize_layout_irrelevant L L' toks h h']
  exact ⟨rfl, rfl⟩

/-- the text of every formula, under every admissible layout, is read back as its tree
(parentheses where the precedence table requires them and wherever `ex` adds redundant ones) -/
theorem C05_parse_text_any_spelling (ex : Ast → Bool) (t : Ast) (hwf : t.WF) (L : Layout)
    (hL : layoutOk L (printG ex t) = true) :
    parse (tokenize (spellWith L (printG ex t))) = some t :=
  parse_tokenize_spellWith ex t hwf L hL

/-- … in particular with a blank after every token, for every choice of spellings -/
theorem C05_parse_text_spaced (ex : Ast → Bool) (t : Ast) (hwf : t.WF) (hlex : t.LexWF) (L : Layout)
    (hL : L.spaced (printG ex t).length) :
    parse (tokenize (spellWith L (printG ex t))) = some t :=
  parse_tokenize_spellWith ex t hwf L (layoutOk_spaced L _ (lexOk_printG ex t hlex) hL)

/-- C05 (meaning, every spelling): in a manager that satisfies the invariant, the text of a
meaningful tree under ANY admissible layout is given the documented meaning of the tree -/
theorem C05_addExpr_any_spelling_spec (m : Mgr) (hI : Inv m) (hoff : m.lastLen = none) (hO : OrderOK m.tbl)
    (ex : Ast → Bool) (t : Ast) (hwf : t.WF) (hM : Meaningful m.tbl t) (L : Layout)
    (hL : layoutOk L (printG ex t) = true) :
    ∃ r m', addExpr (spellWith L (printG ex t)) m = (.ok r, m') ∧ Inv m' ∧ Ext m.tbl m'.tbl ∧
      m'.tbl.Mem r ∧ ∀ an, den m'.tbl r (asgOf m'.tbl an) = evalFormula m.tbl t an := by
  obtain ⟨r, m', he, hI', hx, _, hm, hd⟩ :=
    C05_addExpr_spec m hI hoff hO _ t (parse_tokenize_spellWith ex t hwf L hL) hM
  exact ⟨r, m', he, hI', hx, hm, hd⟩

/-- non-vacuity of `C05_addExpr_any_spelling_spec`: the fresh manager, a formula over constants
and the node `@1` with three operators, the layout "second spelling, no blanks" -/
def exConst : Ast := .bin .implies (.bin .and (.bool true) (.not (.bool false))) (.bin .or (.num false "1") (.bool false))

example : Inv ({} : Mgr) ∧ ({} : Mgr).lastLen = none ∧ OrderOK ({} : Mgr).tbl ∧ exConst.WF ∧
    Meaningful ({} : Mgr).tbl exConst ∧
    layoutOk { choice := fun _ => 1, gap := fun _ => [] } (printG (fun _ => false) exConst) = true ∧
    spellWith { choice := fun _ => 1, gap := fun _ => [] } (printG (fun _ => false) exConst) = "True&!False->@1|False" := by
  refine ⟨Inv.init, rfl, OrderOK.empty, by simp [exConst, Ast.WF], ?_, by decide, by decide⟩
  have e : digitsToNat "1" = 1 := by decide
  simp only [exConst, Meaningful, e]
  exact ⟨by decide, ⟨by decide, trivial, trivial⟩, by decide, mem_one _, trivial⟩

/-! ### non-vacuity: one token string with every kind of token, primed names, nested binders -/

def exToks : List Tok :=
  [.forall_, .name "x'", .comma, .name "_y1", .colon, .lparen, .name "a", .op .and, .name "b", .rparen,
   .op .or, .not, .name "c''", .op .implies, .tt, .op .equiv,
   .ite, .lparen, .ff, .comma, .at, .op .minus, .number "3", .comma,
   .exists_, .name "z", .colon, .rename, .name "p", .div, .name "q", .colon,
   .name "d", .op .xorHash, .name "e", .op .xorCaret, .name "f", .op .equals, .name "g", .op .minus,
   .not, .name "h", .rparen]

/-- the three layouts "`k`-th spelling everywhere, one space" use every row of the tables -/
example : spellWith {} exToks =
    "\\A x' , _y1 : ( a && b ) || ~ c'' => TRUE <=> ite ( FALSE , @ - 3 , \\E z : \\S p / q : d # e ^ f = g - ~ h ) " := by
  decide
example : spellWith { choice := fun _ => 1 } exToks =
    "\\A x' , _y1 : ( a & b ) | ! c'' -> True <-> ite ( False , @ - 3 , \\E z : \\S p / q : d # e ^ f = g - ! h ) " := by
  decide
example : spellWith { choice := fun _ => 2 } exToks =
    "\\A x' , _y1 : ( a /\\ b ) \\/ ~ c'' => TRUE <=> ite ( FALSE , @ - 3 , \\E z : \\S p / q : d # e ^ f = g - ~ h ) " := by
  decide
example : layoutOk {} exToks = true ∧ layoutOk { choice := fun _ => 1 } exToks = true ∧
    layoutOk { choice := fun _ => 2 } exToks = true := by decide

/-- one space after every token: EVERY choice function `ch` of spellings is read back -/
example (ch : Nat → Nat) : tokenize (spellWith { choice := ch } exToks) = exToks :=
  C05_tokenize_spellWith_spaced _ _ (by decide) ⟨rfl, rfl, fun _ _ => ⟨rfl, .sp, [], rfl, rfl⟩⟩

/-- no blank at all, spellings mixed by position -/
example : spellWith { choice := fun i => i + 1, gap := fun _ => [] } exToks =
    "\\Ax',_y1:(a/\\b)\\/~c''=>True<=>ite(False,@-3,\\Ez:\\Sp/q:d#e^f=g-!h)" := by decide
example : layoutOk { choice := fun i => i + 1, gap := fun _ => [] } exToks = true := by decide


/-! ## where a blank is needed (maximal munch) -/

/-- the side condition of the round trip, per pair of adjacent tokens: after a word (a name,
`ite`, `TRUE`, `FALSE`, …) a blank is needed before a word or a number starting with an ASCII
digit; after a number before a number; and between the operator spellings `& &`, `& &&`,
`| |`, `| ||`, `/ \/`, `/ \A`, `/ \E`, `/ \S` — nowhere else: a number may be followed directly
by a name (`7x` is `7`,`x`), every operator by a name or number, `!` by `=`, `=` by `=>`, … -/
theorem C05_needsBlank_spec (t1 t2 : Tok) (a b : String) (h1 : t1.lexOk = true) (h2 : t2.lexOk = true)
    (ha : a ∈ t1.spellings) (hb : b ∈ t2.spellings) :
    needsBlank a b =
      if t1.isWord then (t2.isWord || (t2.isNum && startsAscii b))
      else if t1.isNum then t2.isNum
      else clashPairs.contains (a, b) :=
  needsBlank_spec t1 t2 a b h1 h2 ha hb

/-- the operator spellings that can be extended by one more character, read off the regenerated
table; no spelling extends another by more than one character -/
theorem C05_clash_table :
    (Gen.spellings.filterMap fun r =>
      if (extChars r.1.toList).isEmpty then none else some (r.1, extChars r.1.toList)) =
      [("&", ['&']), ("/", ['\\']), ("=", ['>']), ("-", ['>']), ("|", ['|'])] ∧
    (Gen.spellings.flatMap fun r1 => Gen.spellings.filterMap fun r2 =>
      if needsBlank r1.1 r2.1 then some (r1.1, r2.1) else none) = clashPairs ∧
    (Gen.spellings.all fun r1 => Gen.spellings.all fun r2 =>
      !(isPrefixChars r1.1.toList r2.1.toList && r1.1 != r2.1) ||
      r2.1.toList.length == r1.1.toList.length + 1) = true :=
  ⟨clash_table, clashPairs_eq, ext_by_one⟩

/-- the blank IS needed there: where `needsBlank` holds, the glued text is not read as the two
tokens — except `&` `&&` and `|` `||`, where `&&&` splits as `&&`,`&` into the same two tokens -/
theorem C05_needsBlank_necessary (t1 t2 : Tok) (a b : String) (h1 : t1.lexOk = true) (h2 : t2.lexOk = true)
    (ha : a ∈ t1.spellings) (hb : b ∈ t2.spellings) (hn : needsBlank a b = true)
    (hex : (a, b) ∉ coincide) : tokenize (a ++ b) ≠ [t1, t2] :=
  needsBlank_necessary t1 t2 a b h1 h2 ha hb hn hex

example : needsBlank "x'" "y" = true ∧ needsBlank "x" "7" = true ∧ needsBlank "7" "x" = false ∧
    needsBlank "7" "٣" = true ∧ needsBlank "x" "٣" = false ∧ needsBlank "ite" "(" = false ∧
    needsBlank "!" "=" = false ∧ needsBlank "=" "=>" = false ∧ needsBlank "/" "\\/" = true ∧
    needsBlank "\\A" "x" = false ∧ needsBlank "&" "&&" = true := by decide
example : tokenize "7x" = [.number "7", .name "x"] ∧ tokenize "x7" = [.name "x7"] ∧
    tokenize "/\\/" = [.op .and, .div] ∧ tokenize "&&&" = [.op .and, .op .and] ∧
    tokenize "\\Ax':y" = [.forall_, .name "x'", .colon, .name "y"] := by decide
/-- a layout is rejected exactly for the clash -/
example : layoutOk { gap := fun _ => [] } [.name "a", .op .and, .op .and, .name "b"] = true ∧
    layoutOk { choice := fun _ => 1, gap := fun _ => [] } [.name "a", .op .and, .op .and, .name "b"] = false ∧
    layoutOk { choice := fun _ => 1, gap := fun i => if i = 1 then [.block []] else [] }
      [.name "a", .op .and, .op .and, .name "b"] = true := by decide

/-! ## comments -/

/-- COMMENTS (1): `(* body *)` in front of ANY text — well-formed or not — is dropped -/
theorem C05_block_comment_skipped (body s : String) (hb : hasClose body.toList = false) :
    tokenize ("(*" ++ body ++ "*)" ++ s) = tokenize s :=
  tokenize_block_comment body s hb

/-- COMMENTS (2): `\* body ⏎` in front of any text is dropped; without newline it swallows
the rest of the text -/
theorem C05_line_comment_skipped (body s : String) (hb : body.toList.contains '\n' = false) :
    tokenize ("\\*" ++ body ++ "\n" ++ s) = tokenize s ∧ tokenize ("\\*" ++ body) = [] :=
  ⟨tokenize_line_comment body s hb, tokenize_line_comment_end body hb⟩

/-- COMMENTS (3): after any well-spelled tokens, a comment (or any blank) followed by ANY text:
the tokens, then the tokens of that text -/
theorem C05_comment_after_tokens (lead : List Blank) (ps : List Piece) (c : Blank) (k : List Char)
    (hl : lead.all Blank.ok = true) (hc : c.ok = true) (h : piecesOk (some c.first) ps = true) :
    tokenize (String.ofList (layoutChars lead ps (c.chars ++ k))) =
      ps.map (·.tok) ++ tokenize (String.ofList k) :=
  tokenize_tokens_comment_rest lead ps c k hl hc h

/-- COMMENTS (4): inserting a comment `c` anywhere into the blanks after a token of an
admissible text does not change the token string: `(* … *)` anywhere, also directly after the
token and where there was no blank (`sepOk_blank`); `\* … ⏎` anywhere but directly after `/`
(`sepOk_line_comment`: `/\` is the conjunction) -/
theorem C05_comment_between_tokens (lead : List Blank) (fin : Option (List Char)) (t : Tok) (sp : String)
    (g₁ g₂ : List Blank) (c : Blank) (ps₁ ps₂ : List Piece)
    (hl : lead.all Blank.ok = true) (hfin : finOk fin = true) (hc : c.ok = true)
    (hfront : g₁ = [] → sepOk sp.toList (some c.first) = true)
    (h : piecesOk (finChars fin).head? (ps₁ ++ ⟨t, sp, g₁ ++ g₂⟩ :: ps₂) = true) :
    tokenize (String.ofList (layoutChars lead (ps₁ ++ ⟨t, sp, g₁ ++ c :: g₂⟩ :: ps₂) (finChars fin))) =
    tokenize (String.ofList (layoutChars lead (ps₁ ++ ⟨t, sp, g₁ ++ g₂⟩ :: ps₂) (finChars fin))) :=
  tokenize_insert_blank lead fin t sp g₁ g₂ c ps₁ ps₂ hl hfin hc hfront h

/-- the side condition `hfront` of (4), discharged: a `(* *)` comment may follow every token
text; a `\*` comment every token text but `/` -/
theorem C05_comment_may_follow (t : Tok) (sp : String) (hok : t.lexOk = true) (hsp : sp ∈ t.spellings) :
    (∀ body, sepOk sp.toList (some (Blank.block body).first) = true) ∧
    (∀ body, sepOk sp.toList (some (Blank.line body).first) = (sp != "/")) :=
  ⟨fun body => sepOk_blank t sp hok hsp (.block body) rfl, fun _ => sepOk_line_comment t sp hok hsp⟩

/-- UNTERMINATED COMMENT: `(*` without `*)` after any well-spelled tokens is read as `(`
followed by an illegal character; the parser answers with the syntax error (`RuntimeError`,
raised by the lexer's `t_error` in the code) after the reductions done so far -/
theorem C05_unterminated_comment (lead : List Blank) (ps : List Piece) (b : List Char)
    (hl : lead.all Blank.ok = true) (h : piecesOk (some '(') ps = true) (hb : closeComment b = none) :
    tokenize (String.ofList (layoutChars lead ps ('(' :: '*' :: b))) = ps.map (·.tok) ++ [.lparen, .bad] ∧
    ∃ fr, parseE (tokenize (String.ofList (layoutChars lead ps ('(' :: '*' :: b)))) = .error (fr, .syntax) ∧
      addExpr (String.ofList (layoutChars lead ps ('(' :: '*' :: b))) =
        tryToReorder (do evalForest fr; M.throw .runtime) := by
  have ht := tokenize_open_comment lead ps b hl h hb
  refine ⟨ht, ?_⟩
  obtain ⟨fr, hfr⟩ := (parseE_bad (ps.map (·.tok) ++ [.lparen, .bad])).2 (by simp)
  refine ⟨fr, by rw [ht]; exact hfr, ?_⟩
  unfold addExpr addExprToks
  rw [ht, hfr]
  rfl

/-- an ILLEGAL CHARACTER anywhere: whatever the text, if the lexer meets a character it has no
rule for, the parser answers with the syntax error — never "unexpected end of input", and the
model parser never runs out of fuel -/
theorem C05_illegal_character (s : String) :
    (∀ fr, parseE (tokenize s) ≠ .error (fr, .fuel)) ∧
    (Tok.bad ∈ tokenize s → ∃ fr, parseE (tokenize s) = .error (fr, .syntax)) :=
  parseE_bad (tokenize s)

/-! ### non-vacuity: comments of both kinds, with comment-like and formula-like bodies -/

def exGap (i : Nat) : List Blank :=
  if i % 3 == 0 then [.block "c *".toList]
  else if i % 3 == 1 then [.nl, .line " x (* ".toList, .tab]
  else [.sp, .block []]

def exLayout : Layout :=
  { lead := [.block "lead".toList], choice := fun i => i, gap := exGap, fin := some " end".toList }

example : layoutOk exLayout exToks = true := by decide
example : tokenize (spellWith exLayout exToks) = exToks := C05_tokenize_spellWith _ _ (by decide)
example : spellWith exLayout [.name "a", .op .and, .not, .name "b'"] =
    "(*lead*)a(*c **)&\n\\* x (* \n\t~ (**)b'(*c **)\\* end" := by decide
example : tokenize "a (* b" = [.name "a", .lparen, .bad] ∧ tokenize "a (*)" = [.name "a", .lparen, .bad] ∧
    tokenize "a /\\* c\n b" = [.name "a", .op .and, .bad] ∧ tokenize "a / \\* c\n b" = [.name "a", .div, .name "b"] ∧
    tokenize "(* a *) b (* c \n *)" = [.name "b"] := by decide
example : closeComment " b".toList = none ∧ hasClose "c *".toList = false ∧ hasClose "a *) b".toList = true := by
  decide

/-- the whole example formula: every layout above is read as the same tree -/
example : ∃ t, parse exToks = some t ∧ parse (tokenize (spellWith exLayout exToks)) = some t ∧
    parse (tokenize (spellWith { choice := fun i => i + 1, gap := fun _ => [] } exToks)) = some t := by
  rw [C05_tokenize_spellWith exLayout exToks (by decide),
    C05_tokenize_spellWith { choice := fun i => i + 1, gap := fun _ => [] } exToks (by decide)]
  cases h : parse exToks with
  | none => exact absurd h (by decide)
  | some t => exact ⟨t, rfl, rfl, rfl⟩


/-! ## the grammar side: more of the strings of a tree -/

/-- C05 (precedence, wider printer).  Print a tree with the parentheses that precedence and left
associativity require, ANY number `ex e` of redundant pairs around every sub-formula `e`
(`((a))`), and binders `\A \E \S` left open — unparenthesised as right operand or operand of
`~` — wherever only a closing token follows (`a & \E x: b | c => d`, `~ \S p/q: c <-> \E z: z`):
the parser returns the tree.  (`C05_parse_redundant` is the case of at most one redundant pair
and binders always parenthesised in operand position.) -/
theorem C05_parse_printTop (ex : Ast → Nat) (t : Ast) (h : t.WF) : parse (printTop ex t) = some t :=
  parse_printTop ex t h

/-- … and as TEXT under every admissible layout: spellings, blanks, comments, parentheses and
open binders all at once -/
theorem C05_parse_text_open_any_spelling (ex : Ast → Nat) (t : Ast) (hwf : t.WF) (L : Layout)
    (hL : layoutOk L (printTop ex t) = true) :
    parse (tokenize (spellWith L (printTop ex t))) = some t := by
  rw [tokenize_spellWith L _ hL, parse_printTop ex t hwf]

/-- … with a blank after every token: no side condition besides lexable names and numbers -/
theorem C05_parse_text_open_spaced (ex : Ast → Nat) (t : Ast) (hwf : t.WF) (hlex : t.LexWF) (L : Layout)
    (hL : L.spaced (printTop ex t).length) :
    parse (tokenize (spellWith L (printTop ex t))) = some t :=
  C05_parse_text_open_any_spelling ex t hwf L (layoutOk_spaced L _ (lexOk_printTop ex t hlex) hL)

/-- non-vacuity: open binders in right-operand and `~` position, nested, doubled parentheses -/
def exOpen : Ast :=
  .bin .or (.not (.quant true ["x", "y"] (.var "a")))
    (.bin .and (.var "b") (.not (.subst [("p", "q")] (.bin .equiv (.var "c") (.quant false ["z"] (.var "z'"))))))

example : exOpen.WF := by simp [exOpen, Ast.WF]
example : spell (printTop (fun _ => 0) exOpen) =
    "~ ( \\A x , y : a ) | b & ~ \\S p / q : c <-> \\E z : z' " := by decide
example : spell (printMin exOpen) =
    "~ ( \\A x , y : a ) | b & ~ ( \\S p / q : c <-> ( \\E z : z' ) ) " := by decide
example : spell (printTop (fun e => if e matches .var _ then 2 else 0) exOpen) =
    "~ ( \\A x , y : ( ( a ) ) ) | ( ( b ) ) & ~ \\S p / q : ( ( c ) ) <-> \\E z : ( ( z' ) ) " := by decide
example : layoutOk { choice := fun i => i, gap := fun i => if i % 2 = 0 then [] else [.block "c".toList] }
    (printTop (fun _ => 0) exOpen) = true := by decide
example : spellWith { choice := fun i => i, gap := fun i => if i % 2 = 0 then [] else [.block "c".toList] }
    (printTop (fun _ => 0) exOpen) =
    "~((*c*)\\Ax(*c*),y(*c*):a(*c*))||(*c*)b/\\(*c*)~\\S(*c*)p/(*c*)q:(*c*)c<->(*c*)\\Ez(*c*):z'(*c*)" := by decide

end DD
