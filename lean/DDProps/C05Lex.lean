/-
  DDProps.C05Lex — C05, the lexical layer: every spelling of every operator, anywhere in a
  formula, with any blanks and comments, is read as the same token; hence all spellings mean
  the same in every formula, and comments are skipped.

  Model: `tokenize` of `DD/Parse.lean` (the PLY lexer of `dd/_parser.py`: rule order of the
  master regular expression, `t_ignore`, the two comment rules, the newline rule); the tables
  `Gen.spellings`, `Gen.reserved`, `Gen.lexIgnore` are regenerated from the source.
-/
import DDProofs.LexLayout
import DDProps.C05
open Std
namespace DD

/-! ## every spelling, in every context -/

/-- C05 (lexer round trip).  For EVERY token string `toks` — operators, delimiters, `\A \E \S`,
`ite`, `TRUE`/`FALSE`, names `[A-Za-z_][A-Za-z0-9_']*` that are not reserved words, numbers
`\d+` — and EVERY layout `L`: a choice, per position, of one of the spellings the regenerated
tables offer for the token (`Tok.spellings`: `&& & /\`, `|| | \/`, `~ !`, `=> ->`, `<=> <->`,
`TRUE True`, `FALSE False`, …), blanks and comments before, between and after the tokens —
the lexer returns `toks`.  The one side condition, inside `layoutOk`, is maximal munch: the
text of a token must not `clash` with the single character that follows it. -/
theorem C05_tokenize_spellWith (L : Layout) (toks : List Tok) (h : layoutOk L toks = true) :
    tokenize (spellWith L toks) = toks :=
  tokenize_spellWith L toks h

/-- … with at least one space / tab / newline / `(* *)` comment after every token there is no
side condition at all: every choice of spellings is read back -/
theorem C05_tokenize_spellWith_spaced (L : Layout) (toks : List Tok) (hok : ∀ t ∈ toks, t.lexOk = true)
    (h : L.spaced toks.length) : tokenize (spellWith L toks) = toks :=
  tokenize_spellWith_spaced L toks hok h

/-- the alternatives are those of the regenerated tables, and every row of the tables is an
alternative of some token -/
theorem C05_spellings_table :
    (Tok.spellings (.op .and) = ["&&", "&", "/\\"] ∧ Tok.spellings (.op .or) = ["||", "|", "\\/"] ∧
     Tok.spellings .not = ["~", "!"] ∧ Tok.spellings (.op .implies) = ["=>", "->"] ∧
     Tok.spellings (.op .equiv) = ["<=>", "<->"] ∧ Tok.spellings (.op .xorHash) = ["#"] ∧
     Tok.spellings (.op .xorCaret) = ["^"] ∧ Tok.spellings (.op .minus) = ["-"] ∧
     Tok.spellings (.op .equals) = ["="] ∧ Tok.spellings .tt = ["TRUE", "True"] ∧
     Tok.spellings .ff = ["FALSE", "False"] ∧ Tok.spellings .ite = ["ite"] ∧
     Tok.spellings .forall_ = ["\\A"] ∧ Tok.spellings .exists_ = ["\\E"] ∧ Tok.spellings .rename = ["\\S"] ∧
     Tok.spellings .lparen = ["("] ∧ Tok.spellings .rparen = [")"] ∧ Tok.spellings .comma = [","] ∧
     Tok.spellings .colon = [":"] ∧ Tok.spellings .div = ["/"] ∧ Tok.spellings .at = ["@"]) ∧
    ((Gen.spellings.all fun r => match tokOfRow r.2.1 r.2.2 with
      | some t => t.spellings.contains r.1 | none => false) = true ∧
     (Gen.reserved.all fun r => (nameTok r.1).spellings.contains r.1) = true) :=
  ⟨spellings_table, spellings_complete⟩

/-- all spellings mean the same IN EVERY FORMULA: two admissible layouts of one token string
— different spellings, different blanks, different comments — are parsed to the same result
(tree, or error with the same partially reduced forest) and `add_expr` does the same -/
theorem C05_spelling_independent (L L' : Layout) (toks : List Tok)
    (h : layoutOk L toks = true) (h' : layoutOk L' toks = true) :
    parseE (tokenize (spellWith L toks)) = parseE (tokenize (spellWith L' toks)) ∧
    addExpr (spellWith L toks) = addExpr (spellWith L' toks) := by
  unfold addExpr
  rw [tokenize_layout_irrelevant L L' toks h h']
  exact ⟨rfl, rfl⟩

/-- the text of every formula, under every admissible layout, is read back as its tree
(parentheses where the precedence table requires them and wherever `ex` adds redundant ones) -/
theorem C05_parse_text_any_spelling (ex : Ast → Bool) (t : Ast) (hwf : t.WF) (L : Layout)
    (hL : layoutOk L (printG ex t) = true) :
    parse (tokenize (spellWith L (printG ex t))) = some t :=
  parse_tokenize_spellWith ex t hwf L hL

/-- … in particular with a blank after every token, for every choice of spellings -/
theorem C05_parse_text_spaced (ex : Ast → Bool) (t : Ast) (hwf : t.WF) (hlex : t.LexWF) (L : Layout)
    (hL : L.spaced (printG ex t).length) :
    parse (tokenize (spellWith L (printG ex t))) = some t :=
  parse_tokenize_spellWith ex t hwf L (layoutOk_spaced L _ (lexOk_printG ex t hlex) hL)

/-- C05 (meaning, every spelling): in a manager that satisfies the invariant, the text of a
meaningful tree under ANY admissible layout is given the documented meaning of the tree -/
theorem C05_addExpr_any_spelling_spec (m : Mgr) (hI : Inv m) (hoff : m.lastLen = none) (hO : OrderOK m.tbl)
    (ex : Ast → Bool) (t : Ast) (hwf : t.WF) (hM : Meaningful m.tbl t) (L : Layout)
    (hL : layoutOk L (printG ex t) = true) :
    ∃ r m', addExpr (spellWith L (printG ex t)) m = (.ok r, m') ∧ Inv m' ∧ Ext m.tbl m'.tbl ∧
      m'.tbl.Mem r ∧ ∀ an, den m'.tbl r (asgOf m'.tbl an) = evalFormula m.tbl t an := by
  obtain ⟨r, m', he, hI', hx, _, hm, hd⟩ :=
    C05_addExpr_spec m hI hoff hO _ t (parse_tokenize_spellWith ex t hwf L hL) hM
  exact ⟨r, m', he, hI', hx, hm, hd⟩

/-! ### non-vacuity: one token string with every kind of token, primed names, nested binders -/

def exToks : List Tok :=
  [.forall_, .name "x'", .comma, .name "_y1", .colon, .lparen, .name "a", .op .and, .name "b", .rparen,
   .op .or, .not, .name "c''", .op .implies, .tt, .op .equiv,
   .ite, .lparen, .ff, .comma, .at, .op .minus, .number "3", .comma,
   .exists_, .name "z", .colon, .rename, .name "p", .div, .name "q", .colon,
   .name "d", .op .xorHash, .name "e", .op .xorCaret, .name "f", .op .equals, .name "g", .op .minus,
   .not, .name "h", .rparen]

/-- the three layouts "`k`-th spelling everywhere, one space" use every row of the tables -/
example : spellWith {} exToks =
    "\\A x' , _y1 : ( a && b ) || ~ c'' => TRUE <=> ite ( FALSE , @ - 3 , \\E z : \\S p / q : d # e ^ f = g - ~ h ) " := by
  decide
example : spellWith { choice := fun _ => 1 } exToks =
    "\\A x' , _y1 : ( a & b ) | ! c'' -> True <-> ite ( False , @ - 3 , \\E z : \\S p / q : d # e ^ f = g - ! h ) " := by
  decide
example : spellWith { choice := fun _ => 2 } exToks =
    "\\A x' , _y1 : ( a /\\ b ) \\/ ~ c'' => TRUE <=> ite ( FALSE , @ - 3 , \\E z : \\S p / q : d # e ^ f = g - ~ h ) " := by
  decide
example : layoutOk {} exToks = true ∧ layoutOk { choice := fun _ => 1 } exToks = true ∧
    layoutOk { choice := fun _ => 2 } exToks = true := by decide

/-- no blank at all, spellings mixed by position -/
example : spellWith { choice := fun i => i + 1, gap := fun _ => [] } exToks =
    "\\Ax',_y1:(a/\\b)\\/~c''=>True<=>ite(False,@-3,\\Ez:\\Sp/q:d#e^f=g-!h)" := by decide
example : layoutOk { choice := fun i => i + 1, gap := fun _ => [] } exToks = true := by decide

end DD
