/-
  DDProps.ApiAuto — slice "api", the autoref part: the `Function` methods inherited from the mixin
  class `dd._abc.Operator` (`count`, `pick`, `exist`, `forall`, `let`, `__hash__`, `__str__`) and
  `autoref.BDD.add_expr`, as corollaries of the C08 / C10 theorems; `BDD.pick` (inherited from
  `dd._abc.BDD`).
-/
import DDProofs.ApiAutoProofs
import DDProofs.ApiXCopyAuto
import DDProps.C08
import DDProps.C10
open Std

namespace DD

/-! ## C08 / C10 — `Function` methods inherited from `dd._abc.Operator` -/

/-- C08: `f.exist(*vars)`, `f.forall(*vars)`, `f.let(**defs)` and `bdd.add_expr(text)`, reordering
not enabled, ARBITRARY arguments: the invariant with the count equation is kept, at most the
handle of the result is created, every live `Function` keeps its node and its meaning — whether
the method returns or raises. -/
theorem C08_function_mixins (h : Nat) :
    (∀ hs vs, AKeeps true h (fExist hs vs h)) ∧ (∀ hs vs, AKeeps true h (fForall hs vs h)) ∧
    (∀ d hs, AKeeps true h (fLet d hs h)) ∧ (∀ e, AKeeps true h (aAddExpr e h)) :=
  ⟨fun hs vs => fExist_keepsOff hs vs h, fun hs vs => fForall_keepsOff hs vs h,
   fun d hs => fLet_keepsOff d hs h, fun e => aAddExpr_keepsOff e h⟩

/-- C08: the read-only methods of a live `Function` on node `u` (`count`, `pick`, `hash`, `str`)
return the value of the core function at `u` and change NOTHING (no handle, no count). -/
theorem C08_function_readonly (off : Bool) (a : AMgr) (hi : AInv off a) (hs : Nat) (u : Int)
    (hh : a.handles[hs]? = some u) :
    (∀ n, fCount hs n a = (count a.m.tbl u n, a)) ∧
    (∀ care, fPick hs care a = ((pickIter a.m.tbl u care).map List.head?, a)) ∧
    fHash hs a = (.ok (pyHash u), a) ∧ fStr hs a = (.ok s!"@{u}", a) :=
  ⟨fun n => fCount_live a hs u n hh (hi.hmem hs u hh),
   fun care => fPick_live a hs u care hh (hi.hmem hs u hh),
   fHash_live a hs u hh, fStr_live a hs u hh⟩

/-- C10 through `Function`: `f.count(n)` for a live `f` is the number of satisfying assignments
over the support times `2^(n − |support|)`, refused for smaller `n`; `f.count()` the number over
the support. -/
theorem C10_function_count (off : Bool) (a : AMgr) (hi : AInv off a) (hs : Nat) (u : Int)
    (hh : a.handles[hs]? = some u) :
    ∃ ls, supportLevels a.m.tbl u = .ok ls ∧ (∀ i, i ∈ ls ↔ dependsOn a.m.tbl u i) ∧
      (∀ (n : Nat) (a0 : Asg), ls.length ≤ n →
        fCount hs (some (n : Int)) a =
          (.ok (((allAsg ls a0).filter (den a.m.tbl u)).length * 2 ^ (n - ls.length)), a)) ∧
      (∀ a0 : Asg, fCount hs none a = (.ok ((allAsg ls a0).filter (den a.m.tbl u)).length, a)) ∧
      (∀ n : Int, n < ls.length → fCount hs (some n) a = (.error .value, a)) := by
  have hm := hi.hmem hs u hh
  obtain ⟨ls, e, s, h1, h2⟩ := C10_count_spec a.m.tbl hi.inv.wf u hm
  obtain ⟨ls', e', h3⟩ := C10_count_refuses a.m.tbl hi.inv.wf u hm
  rw [e] at e'; cases e'
  refine ⟨ls, e, s, fun n a0 hn => ?_, fun a0 => ?_, fun n hn => ?_⟩
  · rw [fCount_live a hs u _ hh hm, h1 n a0 hn]
  · rw [fCount_live a hs u _ hh hm, h2 a0]
  · rw [fCount_live a hs u _ hh hm, h3 n hn]

/-- C10 through `Function`: `f.pick(care)` is `None` exactly for the constant `false`, otherwise
one of the assignments `pick_iter` yields. -/
theorem C10_function_pick (off : Bool) (a : AMgr) (hi : AInv off a) (hs : Nat) (u : Int)
    (hh : a.handles[hs]? = some u) (care : Option (List String)) :
    ∃ L, pickIter a.m.tbl u care = .ok L ∧ fPick hs care a = (.ok L.head?, a) ∧
      (L.head? = none ↔ u = -1) ∧ (∀ m, L.head? = some m → m ∈ L) := by
  have hm := hi.hmem hs u hh
  obtain ⟨L, hL, h1, h2⟩ := C10_pick_spec a.m.tbl hi.inv.wf hi.order.toVarsOK u hm care
  exact ⟨L, hL, by rw [fPick_live a hs u care hh hm, hL]; rfl, h1, h2⟩

/-- C10 (`BDD.pick(u, care_vars)`, inherited from `dd._abc.BDD`): the first assignment `pick_iter`
yields — `None` exactly for the reference `-1`, otherwise one of the assignments of
`C10_pickIter_spec`. -/
theorem C10_pick_method (t : Tbl) (hw : WFU t) (hv : VarsOK t) (u : Int) (hm : t.Mem u)
    (care : Option (List String)) :
    ∃ L, pickIter t u care = .ok L ∧ pickOp t u care = .ok L.head? ∧
      (L.head? = none ↔ u = -1) ∧ (∀ m, L.head? = some m → m ∈ L) := by
  obtain ⟨L, hL, h1, h2⟩ := C10_pick_spec t hw hv u hm care
  exact ⟨L, hL, by simp [pickOp, hL], h1, h2⟩

/-- C08 / C11 (`dd._copy.copy_bdd(u, target)` between two `dd.autoref` managers — the model
`DD.aXCopyRun` runs the recursion as the code does, every intermediate result a `Function`, in the
target and in the source): the target in ANY mode (dynamic reordering enabled or not; enabled, it
may fire inside `target.var` / `target.ite` in the middle of the recursion), ANY arguments, whether
the call returns or raises: the target keeps its invariant with the count equation — every
temporary `Function` the recursion created is gone, exactly one new handle holds the result — and
every `Function` alive in the target keeps its node and its meaning.  (The source: `C08_xcopy_total`,
DDProps/C08XCopy.lean; the value: `C08_xcopy_value`.) -/
theorem C08_copy_bdd_public {off : Bool} (a src : AMgr) {offS : Bool} (hsrc : AInv offS src)
    (hu h : Nat) : AKeepsAt off a h (aXCopyTo src hu h) :=
  aXCopyTo_keepsAll a src hsrc hu h

/-! ## non-vacuity -/

/-- a live `Function` (the constant `true` as handle 0) -/
theorem apiExA : AInv true (aConst true 0 {}).2 ∧ (aConst true 0 {}).2.handles[(0 : Nat)]? = some 1 := by
  obtain ⟨a', hw, i', _, hh, _⟩ := wrap_spec {} 0 1 AInv.empty
    (by show (∅ : TreeMap Nat Int).contains 0 = false; exact TreeMap.contains_emptyc) (Or.inl rfl)
  have : aConst true 0 {} = (.ok 1, a') := by
    show AM.bind' (AM.liftM (pure 1)) (fun r => AM.bind' (wrap 0 r) (fun _ => AM.pure' r)) {} = _
    unfold AM.bind' AM.liftM
    simp only [pure, M.pure']
    rw [show ({ ({} : AMgr) with m := ({} : AMgr).m } : AMgr) = {} from rfl, hw]
    rfl
  rw [this]
  exact ⟨i', by rw [hh]; exact TreeMap.getElem?_insert_self⟩

example := C08_function_readonly true _ apiExA.1 0 1 apiExA.2
example := C10_function_count true _ apiExA.1 0 1 apiExA.2
example := C10_function_pick true _ apiExA.1 0 1 apiExA.2 none

example := C10_pick_method exTbl exTbl_wfu exTbl_varsOK 3 exTbl_mem3 none

/-- the same on a state with three variables, stored nodes and three handles (`nvA4` of
`DDProps/C08.lean`: `fa`, `fb`, `fx = fa xor fb` on the complemented node −4) -/
example := C08_function_readonly true nvA4 nvA4_inv 2 (-4) nvA4_h2
example := C10_function_count true nvA4 nvA4_inv 2 (-4) nvA4_h2
example := C10_function_pick true nvA4 nvA4_inv 2 (-4) nvA4_h2 none
example := (C08_function_mixins 3).1 2 ["a"] nvA4 nvA4_inv nvA4_f3 _ _ rfl
example : (fHash 2 nvA4).1 = .ok (-4) ∧ (fStr 2 nvA4).1 = .ok "@-4" := by decide +kernel


end DD
