/-
  DDProps.C08Accept — ACCEPTANCE of recorded schedules by the autoref layer (C08).

  `C08_ops_dyn_total_anySchedule` & co. (DDProps.C08Sched) hold for every recorded schedule, with
  the model's `MODEL-SCHEDULE-MISMATCH` allowed for every non-empty one.  Here: for the methods of
  `autoref.BDD` / `Function` that may serve a reordering — `var`, `apply` (any operator string),
  `ite`, `let`, `quantify`, `cube`, `add_expr`, `image` / `preimage`, `Function._apply` (the
  operators `~ & | ^ …`) — with ANY arguments, from the state between two calls with two
  variables (`AInv false a`, `Two false a`): for every VALID CHOICE of iteration orders
  (DDProps.C07Accept) there is a schedule `sch` — the record of the choice-driven method
  (DD.AutoChoice), empty if no reordering is served — such that the driver's execution
  `runSched sch x` does exactly what the choice-driven method does (same result, same session
  state, schedule consumed) and does not answer `.sched`.
  (The other methods of the list of `C08_ops_dyn_total` never consume a schedule item.)
-/
import DDProofs.SchedAcceptAuto
import DDProps.C08Sched
import DDProps.C07Accept
open Std

namespace DD

/-- what acceptance says of a method `x` and its choice-driven version `xC`, in the driver's terms -/
def RunAccepts {α} (xC : AM (α × List SchedItem)) (x : AM α) (a : AMgr) : Prop :=
  ∃ sch, (∀ r log', (xC a).1 = .ok (r, log') → log' = sch) ∧
    runSched sch x a = (dropLog (xC a).1, setSchedA [] (xC a).2) ∧
    (runSched sch x a).1 ≠ .error .sched ∧
    ∀ rest, (x (setSchedA (sch ++ rest) a)).2.m.sched = rest

theorem RunAccepts.of {α} {xC : AM (α × List SchedItem)} {x : AM α} {a : AMgr}
    (h : AAccepts xC x a) : RunAccepts xC x a := by
  obtain ⟨sch, h1, h2, h3⟩ := h
  refine ⟨sch, h1, ?_, ?_, fun rest => ?_⟩
  · have := h2 []
    rw [List.append_nil] at this
    show ((x (setSA sch a)).1, setSA [] (x (setSA sch a)).2) = _
    rw [this]
    rfl
  · have := h3 []
    rw [List.append_nil] at this
    exact this
  · show (x (setSA (sch ++ rest) a)).2.m.sched = rest
    rw [h2 rest]
    rfl

theorem AInv.dynInvS2 {a : AMgr} (hi : AInv false a) (h2 : Two false a) : DynInvS (hext a) a.m :=
  ⟨hi.minv.inv, hi.minv.order, hi.minv.counts, hi.minv.ctx,
    (fun r hr => by rw [hi.minv.roots] at hr; cases hr), h2 rfl⟩

/-- C08 (acceptance): the methods of the autoref layer that may serve a reordering, ANY arguments,
accept every valid choice of iteration orders -/
theorem C08_methods_accept_every_choice (a : AMgr) (hi : AInv false a) (h2 : Two false a)
    (c : Choice) (hc : c.Valid) (h : Nat) :
    (∀ name, RunAccepts (wrapResultC h (tryToReorderC c (varBody name) [])) (aVar name h) a) ∧
    (∀ op hu hv hw, RunAccepts (aApplyC c op hu hv hw h) (aApply op hu hv hw h) a) ∧
    (∀ hg hu hv, RunAccepts (aIteC c hg hu hv h) (aIte hg hu hv h) a) ∧
    (∀ d hu, RunAccepts (aLetC c d hu h) (aLet d hu h) a) ∧
    (∀ hu q fa, RunAccepts (aQuantifyC c hu q fa h) (aQuantify hu q fa h) a) ∧
    (∀ d, RunAccepts (wrapResultC h (tryToReorderC c (cubeBody d) [])) (aCube d h) a) ∧
    (∀ e, RunAccepts (wrapResultC h (tryToReorderC c (addExprToks (tokenize e)) [])) (aAddExpr e h) a) ∧
    (∀ op hs ho, RunAccepts (fApplyC c op hs ho h) (fApply op hs ho h) a) ∧
    (∀ pre ht hs rn q fa, RunAccepts (aImageC c pre ht hs rn q fa h) (aImage pre ht hs rn q fa h) a) := by
  have hD := hi.dynInvS2 h2
  exact ⟨fun n => .of (aVar_accepts (hext a) c hc a hD h n),
    fun op hu hv hw => .of (aApply_accepts (hext a) c hc a hD h op hu hv hw),
    fun hg hu hv => .of (aIte_accepts (hext a) c hc a hD h hg hu hv),
    fun d hu => .of (aLet_accepts (hext a) c hc a hD h d hu),
    fun hu q fa => .of (aQuantify_accepts (hext a) c hc a hD h hu q fa),
    fun d => .of (aCube_accepts (hext a) c hc a hD h d),
    fun e => .of (aAddExpr_accepts (hext a) c hc a hD h e),
    fun op hs ho => .of (fApply_accepts (hext a) c hc a hD h op hs ho),
    fun pre ht hs rn q fa => .of (aImage_accepts (hext a) c hc a hD h pre ht hs rn q fa)⟩

/-- C08 (acceptance + every outcome): under the schedule that realises a valid choice the
guarantees of `C08_ops_dyn_total_anySchedule` hold and the outcome is not `.sched` — e.g. for
`Function._apply` -/
theorem C08_fApply_choice (a : AMgr) (hi : AInv false a) (h2 : Two false a) (c : Choice)
    (hc : c.Valid) (h : Nat) (hfresh : a.handles.contains h = false) (op : String) (hs : Nat)
    (ho : Option Nat) :
    ∃ sch, (runSched sch (fApply op hs ho h) a).1 ≠ .error .sched ∧
      AInv false (runSched sch (fApply op hs ho h) a).2 ∧
      (∀ j : Nat, j ≠ h → (runSched sch (fApply op hs ho h) a).2.handles[j]? = a.handles[j]?) ∧
      (∀ (j : Nat) (u : Int), a.handles[j]? = some u →
        (runSched sch (fApply op hs ho h) a).2.m.tbl.Mem u ∧
        ∀ asg, denN (runSched sch (fApply op hs ho h) a).2.m.tbl u asg = denN a.m.tbl u asg) := by
  obtain ⟨sch, _, _, hns, _⟩ :=
    (C08_methods_accept_every_choice a hi h2 c hc h).2.2.2.2.2.2.2.1 op hs ho
  have hk := (C08_ops_dyn_total_anySchedule h sch).2.2.2.2.2.2.2.2.2.2.1 op hs ho a hi h2 hfresh
    _ _ rfl
  exact ⟨sch, hns, hk⟩

/-! ### non-vacuity -/

/-- the record of `fb & fx` on `exAutoS` (DDProps.C08Sched: reordering enabled, a request due) under
the choice `Choice.rev` (DDProps.C07Accept): variables visited `c, b, a`, thirteen swaps; only the
two level sets of each swap are listed (the schedule recorded from the real run, `exAutoSched`,
lists every level) -/
def exAutoRevSched : List SchedItem :=
  [.sift ["c", "b", "a"],
   .swap [(1, [3]), (2, [])],
   .swap [(0, [4, 2]), (1, [])],
   .swap [(0, []), (1, [4, 2])],
   .swap [(1, []), (2, [3])],
   .swap [(1, [3]), (2, [])],
   .swap [(1, []), (2, [3])],
   .swap [(0, [4, 2]), (1, [3])],
   .swap [(0, [4, 3]), (1, [2])],
   .swap [(1, [3]), (2, [])],
   .swap [(0, [4, 2]), (1, [])],
   .swap [(1, [4, 2]), (2, [3])],
   .swap [(1, [4, 3]), (2, [2])],
   .swap [(0, []), (1, [4, 2])]]

/-- with that record the driver's execution returns the new `Function` on node `-5`, consumes the
schedule, and leaves the order `a, c, b` -/
theorem C08_accept_example :
    logOf (fApplyC Choice.rev "and" 1 (some 2) 5 exAutoS).1 = some exAutoRevSched ∧
    (runSched exAutoRevSched (fApply "and" 1 (some 2) 5) exAutoS).1.toOption = some (-5) ∧
    (fApply "and" 1 (some 2) 5 (setSchedA exAutoRevSched exAutoS)).2.m.sched = [] ∧
    (runSched exAutoRevSched (fApply "and" 1 (some 2) 5) exAutoS).2.m.tbl.l2v.toList =
      [(0, "a"), (1, "c"), (2, "b")] := by
  unfold exAutoS
  decide +kernel

example : ∃ sch, (runSched sch (fApply "and" 1 (some 2) 5) exAutoS).1 ≠ .error .sched ∧
    AInv false (runSched sch (fApply "and" 1 (some 2) 5) exAutoS).2 := by
  obtain ⟨sch, h1, h2, _⟩ := C08_fApply_choice exAutoS exAutoS_inv exAutoS_two Choice.rev
    Choice.rev_valid 5 (by unfold exAutoS; decide +kernel) "and" 1 (some 2)
  exact ⟨sch, h1, h2⟩

end DD
