/-
  DDProps.C09Few — C09 / C17: the decorated calls with FEWER THAN TWO declared variables under ANY
  recorded schedule, every outcome.  The every-schedule theorems (DDProps.C09Sched, C09SchedKeep)
  assume two variables; `tryToReorder_few` (DDProofs.Reach3) covers fewer with the default schedule.
  With fewer than two variables a request that fires ends in an exception of sifting — or in the
  model's `.sched` when the recorded schedule does not begin with the order of `for var in names`
  (the model reads that item before the loop fails: the schedule is NOT untouched, one item may be
  consumed) — and in every case the manager is kept.
-/
import DDProofs.DynSchedFew
open Std

namespace DD

/-- C09 / C17 (generic): `_try_to_reorder` around a body that accepts arbitrary arguments and does
not answer `.sched` inside a context; fewer than two variables; whatever the switch; ANY recorded
schedule: the manager stays good (counts exact for the same ledger), every held reference keeps its
function of the variable names, the signal does not escape, `.sched` only with a recorded schedule -/
theorem C17_decorator_few_anySchedule {α : Type} (ext : Nat → Nat) (f : M α)
    (hbody : ∀ m0 : Mgr, Inv m0 → m0.ctx = true → OrderOK m0.tbl → TotE m0 (f m0)) (hns : NSc f)
    (m : Mgr) (h : Good3S m ext) (hfew : m.nvars < 2) : Few3S m ext (tryToReorder f m) :=
  tryToReorder_fewS ext f hbody hns m h hfew

/-- C17: every decorated operation of `UOp`, ANY arguments, fewer than two variables, ANY recorded
schedule, in the driver's form -/
theorem C17_decorated_few_anySchedule (ext : Nat → Nat) (m : Mgr) (h : Good3 m ext) (hfew : m.nvars < 2)
    (sch : List SchedItem) (b : UOp) (hdec : b.decorated = true) :
    Few3 m ext (clearSched (runOp b { m with sched := sch })) :=
  decorated_few_recorded ext m h hfew sch b hdec

/-- C09 (histories with recorded schedules): with fewer than two variables a decorated call with ANY
recorded schedule is a good step; the guard `CallGuardS` (two variables, no `.sched`) is needed only
from two variables on -/
theorem C09_stepS_few (m : Mgr) (ext : Nat → Nat) (h : Good3 m ext) (hfew : m.nvars < 2) (b : UOp)
    (hdec : b.decorated = true) (s : SchedItem) (sch : List SchedItem) :
    Good3 (runCallS ⟨s :: sch, .op (.base b)⟩ m).2 (ledger3 (.op (.base b)) m ext) ∧
    Held2 ext m (runCallS ⟨s :: sch, .op (.base b)⟩ m).2 ∧
    (runCallS ⟨s :: sch, .op (.base b)⟩ m).1 ≠ .error .needsReordering :=
  stepS_few m ext h hfew b hdec s sch

/-! ### non-vacuity: one variable, reordering enabled, a request due -/

def exFewHist : List UOp3 := [.op (.base (.declare "x" none))]

theorem exFewHist_guarded : Ops3Guarded exFewHist St.init := by decide +kernel

@[irreducible] def exFewExt : Nat → Nat := (run3 exFewHist St.init).ext

@[irreducible] def exFewM : Mgr :=
  { (run3 exFewHist St.init).m with lastLen := some 1, fireIn := some 1 }

theorem exFewM_good3 : Good3 exFewM exFewExt := by
  unfold exFewM exFewExt
  have h := reachable3_inv exFewHist exFewHist_guarded
  exact ⟨⟨h.inv.wf, h.inv.pred, h.inv.freeGe, h.inv.free, h.inv.refOne, h.inv.refDom, h.inv.cache⟩,
    h.order, h.exact.congr rfl rfl, h.ctx, h.sched, h.roots⟩

/-- `bdd.var('x')`: the request fires, sifting one variable raises `ValueError`; with the recorded
order of `for var in names` that item is consumed; with a schedule that does not fit the model
answers `.sched`; the variable stays declared and reordering is switched off in both cases -/
theorem C09_few_example :
    exFewM.nvars = 1 ∧
    raisedErr (var "x" { exFewM with sched := [.sift ["x"]] }).1 = some .value ∧
    (var "x" { exFewM with sched := [.sift ["x"]] }).2.sched = [] ∧
    raisedErr (var "x" { exFewM with sched := [.swap []] }).1 = some .sched ∧
    (var "x" { exFewM with sched := [.swap []] }).2.tbl.vars.toList = [("x", 0)] ∧
    (var "x" { exFewM with sched := [.swap []] }).2.lastLen = none := by
  unfold exFewM
  decide +kernel

example : Few3 exFewM exFewExt (clearSched (runOp (.var "x") { exFewM with sched := [.swap []] })) :=
  C17_decorated_few_anySchedule exFewExt exFewM exFewM_good3 (by rw [C09_few_example.1]; decide)
    [.swap []] (.var "x") rfl

end DD
