/-
  DDProps.All — the WHOLE property set imported together, and used together.

  Every module under `DDProps/` is imported here (and through them every module of `DDProofs/`,
  `DD/`, `Generated/`; the line-protocol drivers and the one proof file about the driver's
  constructor are imported explicitly, so that every library module of the project is covered).
  Two modules that declare the same name cannot be imported together, so this file compiling
  is the check that the names of the project are disjoint (AUDIT_THEOREMS.md gap 15: before,
  `DD.MInv`, `DD.Res`, `DD.Tok`, `DD.asgOf`, `DD.exTbl`, `DD.rowOf`, `DD.addVar_good`, … were
  each declared twice, e.g. `import DDProps.C08` + `import DDProps.Histories` failed).

  The section at the end chains theorems of DIFFERENT properties on the SAME state in one
  statement — each chain needs both sides of a former clash in one environment.
-/
import DDProps.Api
import DDProps.ApiAuto
import DDProps.ApiMdd
import DDProps.C01
import DDProps.C02
import DDProps.C02Constructor
import DDProps.C02Copy
import DDProps.C03
import DDProps.C04
import DDProps.C05
import DDProps.C05Auto
import DDProps.C05Grammar
import DDProps.C05Lex
import DDProps.C06
import DDProps.C06Rooted
import DDProps.C07
import DDProps.C07Accept
import DDProps.C07Levels
import DDProps.C08
import DDProps.C08Accept
import DDProps.C08AcceptLe
import DDProps.C08AcceptMore
import DDProps.C08Sched
import DDProps.C08Values
import DDProps.C08Values2
import DDProps.C09
import DDProps.C09Accept
import DDProps.C09Few
import DDProps.C09Sched
import DDProps.C09SchedKeep
import DDProps.C10
import DDProps.C11
import DDProps.C11CopyVars
import DDProps.C12
import DDProps.C12Dyn
import DDProps.C12Sched
import DDProps.C12SchedKeep
import DDProps.C12Total
import DDProps.C12Perm
import DDProps.C13
import DDProps.C13Counts
import DDProps.C14
import DDProps.C15
import DDProps.C16
import DDProps.C16Chain
import DDProps.C16Text
import DDProps.C17
import DDProps.C17Load
import DDProps.C17Load2
import DDProps.C17Load2Sched
import DDProps.C17Reorder
import DDProps.C18
import DDProps.C19
import DDProps.C19Quant
import DDProps.Histories
import DDProps.Histories2
import DDProps.Histories3
import DDProps.Histories4
import DDProps.Histories5
import DDProps.Histories4Sched
import DDProps.Tables
import DD.ApiDriver
import DD.AutoDriver
import DD.DumpDriver
import DD.MddDriver
import DD.ParseDriver
import DDProofs.Reach4New
import DDProps.C08XCopy
import DDProps.C17Capacity
import DDProps.C17Capacity2
import DDProps.C17Capacity3
open Std

namespace DD

/-! ### C16 → C05 (formerly both sides declared `DD.Tok` and `DD.asgOf`) -/

/-- the assignment of levels induced by an assignment of names, as C16 (`dddmpAsgOf`) and as C05
(`asgOf`) write it: the same function -/
theorem All_asgOf_eq : @dddmpAsgOf = @asgOf := rfl

/-- load a DDDMP file (C16), then `add_expr` (C05) in the loaded manager: any text that parses to
a formula over declared variables is added, its node means the formula, and every root entry of
the file is still denoted by a root of the manager — both meanings read with the same assignment
of the names -/
theorem All_load_then_addExpr (f : DddmpFile) (hf : f.WF) (s : String) (t : Ast)
    (hp : parse (tokenize s) = some t) :
    ∃ m, loadDddmp f = .ok m ∧ (Meaningful m.tbl t →
      ∃ r m', addExpr s m = (.ok r, m') ∧ Inv m' ∧ m'.tbl.Mem r ∧
        (∀ α, den m'.tbl r (asgOf m'.tbl α) = evalFormula m.tbl t α) ∧
        ∀ ρ ∈ f.rootids.getD [], ∃ r₀ ∈ m.roots, m'.tbl.Mem r₀ ∧
          ∀ α, den m'.tbl r₀ (asgOf m'.tbl α) = evalFile f α ρ) := by
  obtain ⟨m, h, hg, -, -, -, -, hr, -⟩ := C16_load_good f hf
  refine ⟨m, h, fun hM => ?_⟩
  obtain ⟨r, m', he, hI', hx, hfr, hm, hd⟩ := C05_addExpr_spec m hg.inv hg.off hg.order s t hp hM
  refine ⟨r, m', he, hI', hm, hd, fun ρ hρ => ?_⟩
  obtain ⟨r₀, hr₀, hm₀, hd₀⟩ := hr.1 ρ hρ
  refine ⟨r₀, hr₀, hx.mem hm₀, fun α => ?_⟩
  rw [asgOf_congr hfr.l2v, den_ext hx hg.inv.wf.toWF r₀ _ hm₀, ← hd₀ α, All_asgOf_eq]

/-! ### C16 → histories → C06 → C12 (formerly `DD.addVar_good`, `DD.Res`: Reach vs AutoCore / Driver) -/

/-- load a DDDMP file (C16); run ANY guarded history of user calls on the loaded manager
(DDProofs.Reach: declarations, `apply`, `ite`, `let`, quantification, `incref` / `decref`,
collections, accepted or rejected); `collect_garbage()` (C06): it succeeds, the state is good for
the same ledger and exactly the nodes reachable from a held node remain; `dump` to a pickle
(C12) whatever roots are given: if it returns, the file is well formed, stores the roots as
given and evaluates, by name, to the functions of the collected manager -/
theorem All_load_history_gc_dump (f : DddmpFile) (hf : f.WF) :
    ∃ m, loadDddmp f = .ok m ∧ ∀ ops : List UOp, OpsGuarded ops ⟨m, fun _ => 0⟩ →
      ∃ m', collectGarbage none (run ops ⟨m, fun _ => 0⟩).m = (.ok (), m') ∧
        GoodState m' (run ops ⟨m, fun _ => 0⟩).ext ∧
        (∀ u : Nat, (u = 1 ∨ (m'.tbl.node? u).isSome) ↔
          (u = 1 ∨ GcReach (run ops ⟨m, fun _ => 0⟩).m.tbl (GcHeld (run ops ⟨m, fun _ => 0⟩).ext) u)) ∧
        ∀ (roots : Roots) (pf : PickleFile), dumpPickle m' roots = .ok pf →
          PickleWF pf ∧ pf.roots = roots ∧
          ∀ α, ∀ u ∈ roots.values, evalPickle pf u α = denBy m'.tbl u α := by
  obtain ⟨m, h, hh⟩ := C16_then_every_history f hf
  refine ⟨m, h, fun ops hops => ?_⟩
  have hG := hh ops hops
  obtain ⟨m', he, -, hG'⟩ := collectGarbage_good _ _ hG
  obtain ⟨m'', he', -, -, hmem, -⟩ := C06_gc_exact _ _ hG.inv hG.exact
  rw [he] at he'
  cases he'
  refine ⟨m', he, hG', hmem, fun roots pf hd => ?_⟩
  obtain ⟨h1, -, h3, h4⟩ := C12_pickle_dump_spec hG'.inv hG'.order.toDmp hd
  exact ⟨h1, h3, h4⟩

/-! ### the driver's constructor → histories → C08 → C15 (formerly `DD.Res`, `DD.MInv`) -/

/-- a good manager with nothing held, wrapped by `autoref.BDD` with no `Function` alive,
satisfies the autoref invariant (C08) -/
theorem All_autoref_of_goodParts {m : Mgr} (h : GoodParts m (fun _ => 0)) :
    AInv true ({ m := m } : AMgr) :=
  ⟨⟨h.inv, h.order, h.exact.extCongr fun k => (hcount_of_isEmpty _ k TreeMap.isEmpty_emptyc).symm,
    h.ctx, h.sched, h.roots, fun _ => h.off⟩,
   fun hd u hh => by
    rw [show ({ m := m } : AMgr).handles = (∅ : TreeMap Nat Int) from rfl,
      TreeMap.getElem?_emptyc] at hh
    cases hh⟩

/-- `BDD(levels)` as the line-protocol DRIVER runs it (DD.Driver, result type `DRes`) for a valid
table of levels: (1) every guarded history of the fourth vocabulary (DDProofs.Reach4, result
type `Res`) that starts there reaches a good state; (2) wrapped by `autoref` (C08), dropping
every `Function`, collecting and shutting down passes the shutdown check; (3) `bdd_to_mdd` on it
(C15) returns, and the MDD manager satisfies ITS invariant `MInv` while the autoref side holds
`AutoMInv` (both were `DD.MInv`) -/
theorem All_constructor_chains (levels : List (String × Int)) (hnames : (levels.map (·.1)).Nodup)
    (hchk : newMgrCheck levels = true) :
    (newMgr levels).1 = .ok DRes.unit ∧
    (∀ ops : List UOp4, Ops4Guarded ops ⟨(newMgr levels).2, fun _ => 0⟩ →
      Good3 (run4 ops ⟨(newMgr levels).2, fun _ => 0⟩).m (run4 ops ⟨(newMgr levels).2, fun _ => 0⟩).ext) ∧
    (∃ m1 m2, collectGarbage none (newMgr levels).2 = (.ok (), m1) ∧ shutdown m1 = (.ok (), m2) ∧
      ∀ (k c : Nat), m2.ref[k]? = some c → c = 0) ∧
    (AutoMInv true (fun _ => 0) (newMgr levels).2 ∧
      ∀ dvars, KeysShaped (newMgr levels).2 → DvarsFull (newMgr levels).2.tbl dvars →
        ∃ out mb', bddToMdd dvars none (newMgr levels).2 = (.ok out, mb') ∧ MInv out.mdd ∧ Inv mb') := by
  obtain ⟨h1, hP, -, -⟩ := newMgr_good levels hnames hchk
  have hA := All_autoref_of_goodParts hP
  refine ⟨h1, fun ops hg => reachable4_from_parts ops _ _ hP hg, ?_, ?_, ?_⟩
  · obtain ⟨m1, m2, e1, -, e2, -, hz⟩ := C08_collect_then_shutdown _ hA TreeMap.isEmpty_emptyc
    exact ⟨m1, m2, e1, e2, hz⟩
  · exact ⟨hP.inv, hP.order, hP.exact, hP.ctx, hP.sched, hP.roots, fun _ => hP.off⟩
  · intro dvars hks hd
    obtain ⟨out, mb', he, hb, -, -⟩ :=
      C15_bddToMdd_total _ _ hA.minv.reorderInv hks hP.sched dvars hd
    exact ⟨out, mb', he, hb.mdd, hb.bdd⟩

/-! ### non-vacuity: the chains on concrete inputs -/

/-- C16 → C05 on the example file of DDProps.C16Chain (`x, y, z`; roots `2` and `-4`):
`add_expr('x /\ ~ z')` in the loaded manager -/
example : ∃ m, loadDddmp dddmpChain = .ok m ∧ ∃ r m', addExpr "x /\\ ~ z" m = (.ok r, m') ∧
    Inv m' ∧ (∀ α, den m'.tbl r (asgOf m'.tbl α) = (α "x" && !α "z")) ∧
    ∀ ρ ∈ [(2 : Int), -4], ∃ r₀ ∈ m.roots, m'.tbl.Mem r₀ ∧
      ∀ α, den m'.tbl r₀ (asgOf m'.tbl α) = evalFile dddmpChain α ρ := by
  obtain ⟨m, h, hh⟩ := All_load_then_addExpr dddmpChain dddmpChain_wf "x /\\ ~ z"
    (.bin .and (.var "x") (.not (.var "z"))) (by decide +kernel)
  have hv : (loadDddmp dddmpChain).toOption.map
      (fun m => (m.tbl.vars.contains "x", m.tbl.vars.contains "z")) = some (true, true) := by
    decide +kernel
  rw [h] at hv
  have hx : m.tbl.vars.contains "x" = true := congrArg Prod.fst (Option.some.inj hv)
  have hz : m.tbl.vars.contains "z" = true := congrArg Prod.snd (Option.some.inj hv)
  obtain ⟨r, m', he, hI, -, hd, hr⟩ := hh ⟨by decide, hx, hz⟩
  exact ⟨m, h, r, m', he, hI, fun α => by rw [hd α]; rfl, hr⟩

/-- C16 → history → C06 → C12 on the same file: declare `w`, a rejected `ite`, the conjunction
of the two loaded roots, then collect and dump -/
example : ∃ m, loadDddmp dddmpChain = .ok m ∧
    ∃ m', collectGarbage none (run [.declare "w" none, .ite 99 1 1,
        .apply "and" 4 (some (-3)) none] ⟨m, fun _ => 0⟩).m = (.ok (), m') ∧ Inv m' ∧
      ∀ (roots : Roots) (pf : PickleFile), dumpPickle m' roots = .ok pf → PickleWF pf := by
  obtain ⟨m, h, hh⟩ := All_load_history_gc_dump dddmpChain dddmpChain_wf
  obtain ⟨m', he, hG, -, hd⟩ := hh [.declare "w" none, .ite 99 1 1, .apply "and" 4 (some (-3)) none]
    ⟨trivial, trivial, trivial, trivial⟩
  exact ⟨m, h, m', he, hG.inv, fun roots pf hp => (hd roots pf hp).1⟩

/-- the constructor chains on `BDD({'a': 1, 'b': 0})` -/
example : (newMgr [("a", 1), ("b", 0)]).1 = .ok DRes.unit ∧
    AutoMInv true (fun _ => 0) (newMgr [("a", 1), ("b", 0)]).2 ∧
    ∃ m1 m2, collectGarbage none (newMgr [("a", 1), ("b", 0)]).2 = (.ok (), m1) ∧
      shutdown m1 = (.ok (), m2) ∧ ∀ (k c : Nat), m2.ref[k]? = some c → c = 0 :=
  let h := All_constructor_chains [("a", 1), ("b", 0)] (by decide) (by decide)
  ⟨h.1, h.2.2.2.1, h.2.2.1⟩

end DD
