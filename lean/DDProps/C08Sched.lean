/-
  DDProps.C08Sched — C08 (`dd.autoref`) with dynamic reordering ENABLED, for EVERY RECORDED
  ITERATION SCHEDULE, every outcome accounted for.

  `C08_ops_dyn`, `C08_ops_dyn_total`, `C08_image_dyn` (DDProps.C08) assume `AInv false a`, whose
  manager part `AutoMInv` contains `a.m.sched = []`: the sifting that a method may trigger is covered
  for the model's default iteration order only.  The autoref driver (`DD.runA`, DD/AutoDriver.lean)
  runs a protocol line exactly as `DD.stepLine` does: the recorded schedule of the line is put
  into `a.m.sched`, the method runs, what is left of the schedule is dropped.

  Here: `runSched sch x` is that execution of an autoref operation `x`;
  `C08_ops_dyn_total_anySchedule` / `C08_ops_dyn_anySchedule` / `C08_image_dyn_anySchedule` state
  the SAME guarantees (`AKeeps false h`: the invariant `AInv false` with the count equation, no
  handle other than the new one touched, every live `Function` keeps its node and its meaning by
  variable name) for `runSched sch x`, for EVERY `sch` and WHATEVER the method returns or raises —
  the model's own `MODEL-SCHEDULE-MISMATCH` (`.sched`) included: DDProofs.DynSchedKeep shows that a
  mismatch inside sifting leaves the reordering invariant and every held reference intact, so
  `.sched` is one more rejected call (that it does not occur for a schedule recorded from a real
  run is the harness's tie, DDProps.C09Sched).  Also the explicit `reorder()` / `reorder(order)`.

  Method.  The autoref development is generic in the core operations (`aIte_keeps` : `CoreKeeps`
  of `ite` ⇒ `AKeeps` of `aIte`, …); its only dependence on the schedule is the field
  `AutoMInv.sched`.  DDProofs/Sched{AutoProofs,AutoTemps,AutoCore,AutoImage,AutoDyn,AutoDynTotal,
  ImageDynTotal}.lean are those files re-checked in the namespace `DD.S` with `AutoMInv` WITHOUT that
  field (the proofs go through unchanged up to the constructor sites), the core hypotheses coming
  from the every-outcome theorems `*_total_dynK` (DDProofs.DynSchedTotalOps) instead of
  `*_total_dyn`.  `DD.S.AInv` is `AInv` without the clause on the schedule; `runSched_keeps`
  converts back to the statement about `AInv`.
-/
import DDProofs.SchedImageDynTotal
import DDProofs.SchedAutoDynTotal
import DDProps.C08
open Std

namespace DD

/-! ### the driver's execution of an autoref operation under a recorded schedule -/

/-- put a schedule into the manager of an autoref session -/
def setSchedA (sch : List SchedItem) (a : AMgr) : AMgr := { a with m := { a.m with sched := sch } }

/-- `DD.runA`: the recorded schedule is put in, the operation runs, the remainder is dropped -/
def runSched {α} (sch : List SchedItem) (x : AM α) : AM α := fun a =>
  ((x (setSchedA sch a)).1, setSchedA [] (x (setSchedA sch a)).2)

theorem hext_setSchedA (sch : List SchedItem) (a : AMgr) : hext (setSchedA sch a) = hext a := rfl

theorem ainvS_of_ainv {off : Bool} {a : AMgr} (h : AInv off a) (h2 : Two off a) (sch : List SchedItem) :
    S.AInv off (setSchedA sch a) :=
  ⟨⟨h.minv.inv.setSched sch, h.minv.order, h.minv.counts.congr rfl rfl, h.minv.ctx, h.minv.roots,
    ⟨h.minv.mode, h2⟩⟩, h.hmem⟩

theorem ainv_of_ainvS {off : Bool} {a : AMgr} (h : S.AInv off a) : AInv off (setSchedA [] a) :=
  ⟨⟨h.minv.inv.setSched [], h.minv.order, h.minv.counts.congr rfl rfl, h.minv.ctx, rfl, h.minv.roots,
    h.minv.mode.1⟩, h.hmem⟩

/-- `DD.S.AInv` is `AInv` without the clause on the recorded schedule -/
theorem ainvS_iff {off : Bool} (a : AMgr) :
    (AInv off a ∧ Two off a) ↔ (S.AInv off a ∧ a.m.sched = []) := by
  constructor
  · rintro ⟨h, h2⟩
    exact ⟨⟨⟨h.minv.inv, h.minv.order, h.minv.counts, h.minv.ctx, h.minv.roots, ⟨h.minv.mode, h2⟩⟩, h.hmem⟩,
      h.minv.sched⟩
  · rintro ⟨h, hs⟩
    exact ⟨⟨⟨h.minv.inv, h.minv.order, h.minv.counts, h.minv.ctx, hs, h.minv.roots, h.minv.mode.1⟩, h.hmem⟩,
      h.minv.mode.2⟩

/-! ### the guarantees of DDProps.C08 for start states with at least two variables

The every-schedule theorems below come from the C09 / C17 theorems about the decorator, which assume
two declared variables (`Two false a := 2 ≤ a.m.nvars`; nothing for `off = true`).  `AKeeps2` … are
`AKeeps` … for those start states.  (With fewer variables and the model's DEFAULT schedule the
methods are covered by `C08_ops_dyn_total`, DDProofs.AutoFew.) -/

def AKeeps2 {α} (off : Bool) (h : Nat) (x : AM α) : Prop :=
  ∀ a, AInv off a → Two off a → a.handles.contains h = false → ∀ r a', x a = (r, a') →
    AInv off a' ∧ (∀ j : Nat, j ≠ h → a'.handles[j]? = a.handles[j]?) ∧
    (∀ (j : Nat) (u : Int), a.handles[j]? = some u →
      a'.m.tbl.Mem u ∧ ∀ asg, denN a'.m.tbl u asg = denN a.m.tbl u asg)

def AKeepsAt2 {α} (off : Bool) (a : AMgr) (h : Nat) (x : AM α) : Prop :=
  AInv off a → Two off a → a.handles.contains h = false → ∀ r a', x a = (r, a') →
    AInv off a' ∧ (∀ j : Nat, j ≠ h → a'.handles[j]? = a.handles[j]?) ∧
    (∀ (j : Nat) (u : Int), a.handles[j]? = some u →
      a'.m.tbl.Mem u ∧ ∀ asg, denN a'.m.tbl u asg = denN a.m.tbl u asg)

def AKeepsL2 {α} (off : Bool) (H : List Nat) (x : AM α) : Prop :=
  ∀ a, AInv off a → Two off a → (∀ h, h ∈ H → a.handles.contains h = false) → ∀ r a', x a = (r, a') →
    AInv off a' ∧ (∀ j : Nat, j ∉ H → a'.handles[j]? = a.handles[j]?) ∧
    (∀ (j : Nat) (u : Int), a.handles[j]? = some u →
      a'.m.tbl.Mem u ∧ ∀ asg, denN a'.m.tbl u asg = denN a.m.tbl u asg)

def AKeeps02 {α} (off : Bool) (x : AM α) : Prop :=
  ∀ a, AInv off a → Two off a → ∀ r a', x a = (r, a') →
    AInv off a' ∧ (∀ j : Nat, a'.handles[j]? = a.handles[j]?) ∧
    (∀ (j : Nat) (u : Int), a.handles[j]? = some u →
      a'.m.tbl.Mem u ∧ ∀ asg, denN a'.m.tbl u asg = denN a.m.tbl u asg)

/-- from the guarantee for every state without the schedule clause to the guarantee, in the terms
of DDProps.C08, for the driver's execution under ANY recorded schedule -/
theorem runSched_keeps {α} {off : Bool} {h : Nat} {x : AM α} (hk : S.AKeeps off h x)
    (sch : List SchedItem) : AKeeps2 off h (runSched sch x) := by
  intro a hi h2 hf r a' he
  have he' : x (setSchedA sch a) = (r, (x (setSchedA sch a)).2) := by
    have : (x (setSchedA sch a)).1 = r := by
      have := congrArg Prod.fst he; exact this
    rw [← this]
  obtain ⟨i, s, d⟩ := hk (setSchedA sch a) (ainvS_of_ainv hi h2 sch) hf r _ he'
  have ha' : a' = setSchedA [] (x (setSchedA sch a)).2 := by
    have := congrArg Prod.snd he; exact this.symm
  subst ha'
  exact ⟨ainv_of_ainvS i, s, d⟩

theorem runSched_keepsL {α} {off : Bool} {H : List Nat} {x : AM α} (hk : S.AKeepsL off H x)
    (sch : List SchedItem) : AKeepsL2 off H (runSched sch x) := by
  intro a hi h2 hf r a' he
  have he' : x (setSchedA sch a) = (r, (x (setSchedA sch a)).2) := by
    have : (x (setSchedA sch a)).1 = r := by
      have := congrArg Prod.fst he; exact this
    rw [← this]
  obtain ⟨i, s, d⟩ := hk (setSchedA sch a) (ainvS_of_ainv hi h2 sch) hf r _ he'
  have ha' : a' = setSchedA [] (x (setSchedA sch a)).2 := by
    have := congrArg Prod.snd he; exact this.symm
  subst ha'
  exact ⟨ainv_of_ainvS i, s, d⟩

theorem runSched_keeps0 {α} {off : Bool} {x : AM α} (hk : S.AKeeps0 off x)
    (sch : List SchedItem) : AKeeps02 off (runSched sch x) := by
  intro a hi h2 r a' he
  have he' : x (setSchedA sch a) = (r, (x (setSchedA sch a)).2) := by
    have : (x (setSchedA sch a)).1 = r := by
      have := congrArg Prod.fst he; exact this
    rw [← this]
  obtain ⟨i, s, d⟩ := hk (setSchedA sch a) (ainvS_of_ainv hi h2 sch) r _ he'
  have ha' : a' = setSchedA [] (x (setSchedA sch a)).2 := by
    have := congrArg Prod.snd he; exact this.symm
  subst ha'
  exact ⟨ainv_of_ainvS i, s, d⟩

theorem runSched_keepsAt {α} {off : Bool} {h : Nat} {x : AM α} (a : AMgr)
    (hk : ∀ sch, S.AKeepsAt off (setSchedA sch a) h x) (sch : List SchedItem) :
    AKeepsAt2 off a h (runSched sch x) := by
  intro hi h2 hf r a' he
  have he' : x (setSchedA sch a) = (r, (x (setSchedA sch a)).2) := by
    have : (x (setSchedA sch a)).1 = r := by
      have := congrArg Prod.fst he; exact this
    rw [← this]
  obtain ⟨i, s, d⟩ := hk sch (ainvS_of_ainv hi h2 sch) hf r _ he'
  have ha' : a' = setSchedA [] (x (setSchedA sch a)).2 := by
    have := congrArg Prod.snd he; exact this.symm
  subst ha'
  exact ⟨ainv_of_ainvS i, s, d⟩

/-- with no recorded schedule the driver's execution is the operation itself (on the states the
theorems are about) -/
theorem runSched_nil {α} {off : Bool} (x : AM α) (a : AMgr) (hi : AInv off a) :
    (runSched [] x a).1 = (x a).1 ∧ (runSched [] x a).2 = setSchedA [] (x a).2 := by
  have : setSchedA [] a = a := by
    unfold setSchedA
    have := hi.minv.sched
    cases a with
    | mk m hd fr =>
      simp only at this ⊢
      congr
      cases m
      simp_all
  unfold runSched
  rw [this]
  exact ⟨rfl, rfl⟩

/-! ### the guarantees without the schedule clause (namespace `DD.S`) -/

namespace S

/-- `C08_ops_dyn_total` re-checked without the clause `sched = []`: ARBITRARY arguments,
reordering enabled, ANY schedule in `a.m.sched`, EVERY outcome -/
theorem C08_ops_dyn_total (h : Nat) :
    (∀ name, AKeeps false h (aVar name h)) ∧
    (∀ b, AKeeps false h (aConst b h)) ∧
    (∀ op hu hv hw, AKeeps false h (aApply op hu hv hw h)) ∧
    (∀ hg hu hv, AKeeps false h (aIte hg hu hv h)) ∧
    (∀ d hu, AKeeps false h (aLet d hu h)) ∧
    (∀ hu q fa, AKeeps false h (aQuantify hu q fa h)) ∧
    (∀ d, AKeeps false h (aCube d h)) ∧
    (∀ i, AKeeps false h (aAddInt i h)) ∧
    (∀ hu, AKeeps false h (aCopyBddSame hu h)) ∧
    (∀ e, AKeeps false h (aAddExpr e h)) ∧
    (∀ op hs ho, AKeeps false h (fApply op hs ho h)) ∧
    (∀ high hs, AKeeps false h (fChild high hs h)) ∧
    (∀ hs, AKeeps false h (fCopy hs h)) ∧
    (∀ hu h2, h ≠ h2 → AKeepsL false [h, h2] (aSucc hu h h2)) ∧
    (∀ hs ho, AKeeps0 false (fEq hs ho)) ∧
    (∀ hs ho, AKeeps0 false (fNe hs ho)) ∧
    (∀ hs ho, AKeeps0 false (fLe hs ho)) ∧
    (∀ hs ho, AKeeps0 false (fLt hs ho)) ∧
    AKeeps false h aCollectGarbage ∧
    (∀ r, AKeeps false h (aConfigure r)) ∧
    (∀ ns, AKeeps false h (aDeclare ns)) ∧
    (∀ (src : AMgr) hu, AKeeps false h (aCopyTo src hu h)) ∧
    (∀ (src : AMgr) hu, AKeeps false h (aCopyBddTo src hu h)) ∧
    (∀ pre ht hs rn q fa, AKeeps false h (aImage pre ht hs rn q fa h)) :=
  ⟨fun n => aVar_keepsDynTotal n h, fun b => aConst_keeps b h,
   fun op hu hv hw => aApply_keepsDynTotal op hu hv hw h,
   fun hg hu hv => aIte_keepsDynTotal hg hu hv h,
   fun d hu => aLet_keepsDynTotal d hu h,
   fun hu q fa => aQuantify_keepsDynTotal hu q fa h, fun d => aCube_keepsDynTotal d h,
   fun i => aAddInt_keeps i h, fun hu => aCopyBddSame_keeps hu h,
   fun e => aAddExpr_keepsDynTotal e h,
   fun op hs ho => fApply_keepsDynTotal op hs ho h,
   fun high hs => fChild_keeps high hs h, fun hs => fCopy_keeps hs h,
   fun hu h2 hne => aSucc_keepsL hu h h2 hne,
   fun hs ho => fEq_keeps0 hs ho, fun hs ho => fNe_keeps0 hs ho,
   fun hs ho => fLe_keepsDynTotal hs ho, fun hs ho => fLt_keepsDynTotal hs ho,
   aCollectGarbage_keepsAll h, fun r => aConfigure_keeps (off := false) r (fun hf => Bool.noConfusion hf) h,
   fun ns => aDeclare_keepsAll ns h,
   fun src hu => aCopyTo_keepsDynTotal src hu h, fun src hu => aCopyBddTo_keepsDynTotal src hu h,
   fun pre ht hs rn q fa => aImage_keepsDynTotal pre ht hs rn q fa h⟩

end S

/-! ### C08 under every recorded schedule, in the terms of DDProps.C08 -/

/-- C08, dynamic reordering ENABLED, ARBITRARY arguments, EVERY RECORDED SCHEDULE, EVERY outcome.
`runSched sch x` is the driver's execution of the method `x` (`DD.runA`: the schedule of the
protocol line put into the manager, the remainder dropped).  From `AInv false a` (the state
between two calls), for every list `sch` whatsoever and whatever the method returns or raises —
an exception of the code, or the model's `MODEL-SCHEDULE-MISMATCH` when `sch` does not describe a
run of the code from this state —: `AInv false a'` (manager invariant, order bijection, count
equation for the live `Function`s, no schedule), no handle other than the new one touched, every
live `Function` is still a node and denotes the same function of the variable NAMES.
The list is `C08_ops_dyn_total`'s. -/
theorem C08_ops_dyn_total_anySchedule (h : Nat) (sch : List SchedItem) :
    (∀ name, AKeeps2 false h (runSched sch (aVar name h))) ∧
    (∀ b, AKeeps2 false h (runSched sch (aConst b h))) ∧
    (∀ op hu hv hw, AKeeps2 false h (runSched sch (aApply op hu hv hw h))) ∧
    (∀ hg hu hv, AKeeps2 false h (runSched sch (aIte hg hu hv h))) ∧
    (∀ d hu, AKeeps2 false h (runSched sch (aLet d hu h))) ∧
    (∀ hu q fa, AKeeps2 false h (runSched sch (aQuantify hu q fa h))) ∧
    (∀ d, AKeeps2 false h (runSched sch (aCube d h))) ∧
    (∀ i, AKeeps2 false h (runSched sch (aAddInt i h))) ∧
    (∀ hu, AKeeps2 false h (runSched sch (aCopyBddSame hu h))) ∧
    (∀ e, AKeeps2 false h (runSched sch (aAddExpr e h))) ∧
    (∀ op hs ho, AKeeps2 false h (runSched sch (fApply op hs ho h))) ∧
    (∀ high hs, AKeeps2 false h (runSched sch (fChild high hs h))) ∧
    (∀ hs, AKeeps2 false h (runSched sch (fCopy hs h))) ∧
    (∀ hu h2, h ≠ h2 → AKeepsL2 false [h, h2] (runSched sch (aSucc hu h h2))) ∧
    (∀ hs ho, AKeeps02 false (runSched sch (fEq hs ho))) ∧
    (∀ hs ho, AKeeps02 false (runSched sch (fNe hs ho))) ∧
    (∀ hs ho, AKeeps02 false (runSched sch (fLe hs ho))) ∧
    (∀ hs ho, AKeeps02 false (runSched sch (fLt hs ho))) ∧
    AKeeps2 false h (runSched sch aCollectGarbage) ∧
    (∀ r, AKeeps2 false h (runSched sch (aConfigure r))) ∧
    (∀ ns, AKeeps2 false h (runSched sch (aDeclare ns))) ∧
    (∀ (src : AMgr) hu, AKeeps2 false h (runSched sch (aCopyTo src hu h))) ∧
    (∀ (src : AMgr) hu, AKeeps2 false h (runSched sch (aCopyBddTo src hu h))) ∧
    (∀ pre ht hs rn q fa, AKeeps2 false h (runSched sch (aImage pre ht hs rn q fa h))) := by
  obtain ⟨a1, a2, a3, a4, a5, a6, a7, a8, a9, a10, a11, a12, a13, a14, a15, a16, a17, a18, a19, a20,
    a21, a22, a23, a24⟩ := S.C08_ops_dyn_total h
  exact ⟨fun n => runSched_keeps (a1 n) sch, fun b => runSched_keeps (a2 b) sch,
    fun op hu hv hw => runSched_keeps (a3 op hu hv hw) sch,
    fun hg hu hv => runSched_keeps (a4 hg hu hv) sch, fun d hu => runSched_keeps (a5 d hu) sch,
    fun hu q fa => runSched_keeps (a6 hu q fa) sch, fun d => runSched_keeps (a7 d) sch,
    fun i => runSched_keeps (a8 i) sch, fun hu => runSched_keeps (a9 hu) sch,
    fun e => runSched_keeps (a10 e) sch, fun op hs ho => runSched_keeps (a11 op hs ho) sch,
    fun high hs => runSched_keeps (a12 high hs) sch, fun hs => runSched_keeps (a13 hs) sch,
    fun hu h2 hne => runSched_keepsL (a14 hu h2 hne) sch,
    fun hs ho => runSched_keeps0 (a15 hs ho) sch, fun hs ho => runSched_keeps0 (a16 hs ho) sch,
    fun hs ho => runSched_keeps0 (a17 hs ho) sch, fun hs ho => runSched_keeps0 (a18 hs ho) sch,
    runSched_keeps a19 sch, fun r => runSched_keeps (a20 r) sch, fun ns => runSched_keeps (a21 ns) sch,
    fun src hu => runSched_keeps (a22 src hu) sch, fun src hu => runSched_keeps (a23 src hu) sch,
    fun pre ht hs rn q fa => runSched_keeps (a24 pre ht hs rn q fa) sch⟩

/-- C08 `C08_ops_dyn` for every recorded schedule: the well-formed calls of that theorem are
instances of the calls with arbitrary arguments above (its hypotheses — declared names, live
operands — are not needed for "the invariant and every live meaning are kept") -/
theorem C08_ops_dyn_anySchedule (a : AMgr) (h : Nat) (sch : List SchedItem) :
    (∀ hg hu hv, AKeepsAt2 false a h (runSched sch (aIte hg hu hv h))) ∧
    (∀ op hu hv hw, AKeepsAt2 false a h (runSched sch (aApply op hu hv hw h))) ∧
    (∀ name, AKeepsAt2 false a h (runSched sch (aVar name h))) ∧
    (∀ hu q fa, AKeepsAt2 false a h (runSched sch (aQuantify hu q fa h))) ∧
    (∀ d, AKeepsAt2 false a h (runSched sch (aCube d h))) ∧
    (∀ d hu, AKeepsAt2 false a h (runSched sch (aLet d hu h))) ∧
    (∀ op hs ho, AKeepsAt2 false a h (runSched sch (fApply op hs ho h))) ∧
    (∀ ns, AKeepsAt2 false a h (runSched sch (aDeclare ns))) ∧
    (∀ hs ho, AKeeps02 false (runSched sch (fLe hs ho))) ∧
    (∀ hs ho, AKeeps02 false (runSched sch (fLt hs ho))) ∧
    (∀ (src : AMgr) hu, AKeepsAt2 false a h (runSched sch (aCopyTo src hu h))) ∧
    (∀ (src : AMgr) hu, AKeepsAt2 false a h (runSched sch (aCopyBddTo src hu h))) := by
  obtain ⟨a1, _, a3, a4, a5, a6, a7, _, _, _, a11, _, _, _, _, _, a17, a18, _, _,
    a21, a22, a23, _⟩ := C08_ops_dyn_total_anySchedule h sch
  exact ⟨fun hg hu hv => a4 hg hu hv a, fun op hu hv hw => a3 op hu hv hw a, fun n => a1 n a,
    fun hu q fa => a6 hu q fa a, fun d => a7 d a, fun d hu => a5 d hu a,
    fun op hs ho => a11 op hs ho a, fun ns => a21 ns a, a17, a18,
    fun src hu => a22 src hu a, fun src hu => a23 src hu a⟩

/-- C08 `C08_image_dyn` for every recorded schedule (ANY arguments) -/
theorem C08_image_dyn_anySchedule (h : Nat) (sch : List SchedItem) (pre : Bool) (ht hs : Nat)
    (rn : List (Key × Key)) (q : List Key) (fa : Bool) :
    AKeeps2 false h (runSched sch (aImage pre ht hs rn q fa h)) :=
  (C08_ops_dyn_total_anySchedule h sch).2.2.2.2.2.2.2.2.2.2.2.2.2.2.2.2.2.2.2.2.2.2.2 pre ht hs rn q fa

/-- C08, the explicit `reorder()` (sifting, at least two variables) and `reorder(order)` (a
complete order) under ANY recorded schedule, any mode: every outcome — returned, or the model's
schedule mismatch — keeps the invariant and every live meaning -/
theorem C08_reorder_anySchedule {off : Bool} (a : AMgr) (h : Nat) (sch : List SchedItem) :
    (2 ≤ a.m.nvars → AKeepsAt2 off a h (runSched sch (aReorder none))) ∧
    (∀ o, ReqOrder o a.m → AKeepsAt2 off a h (runSched sch (aReorder (some o)))) :=
  ⟨fun h2 => runSched_keepsAt a (fun s => S.aReorder_sift_keepsAt (setSchedA s a) h2 h) sch,
   fun o ho => runSched_keepsAt a
     (fun s => S.aReorder_order_keepsAt (setSchedA s a) o ⟨ho.len, ho.cover, ho.range, ho.inj⟩ h) sch⟩

/-- what `AKeeps2 false h (runSched sch x)` says, spelled out -/
theorem C08_anySchedule_means {α} (h : Nat) (sch : List SchedItem) (x : AM α)
    (hk : AKeeps2 false h (runSched sch x)) (a : AMgr) (hi : AInv false a) (h2 : Two false a)
    (hf : a.handles.contains h = false) :
    AInv false (setSchedA [] (x (setSchedA sch a)).2) ∧
    (∀ j : Nat, j ≠ h → (x (setSchedA sch a)).2.handles[j]? = a.handles[j]?) ∧
    (∀ (j : Nat) (u : Int), a.handles[j]? = some u →
      (x (setSchedA sch a)).2.m.tbl.Mem u ∧
      ∀ asg, denN (x (setSchedA sch a)).2.m.tbl u asg = denN a.m.tbl u asg) :=
  hk a hi h2 hf _ _ rfl

/-- with no recorded schedule the statements above are those of DDProps.C08 -/
theorem C08_anySchedule_default {α} {off : Bool} (x : AM α) (a : AMgr) (hi : AInv off a) :
    (runSched [] x a).1 = (x a).1 ∧ (runSched [] x a).2 = setSchedA [] (x a).2 :=
  runSched_nil x a hi

/-! ### non-vacuity: an autoref session under a NON-default recorded schedule

`nvA4` (DDProps.C08): `bdd.declare('a', 'b', 'c'); fa = bdd.var('a'); fb = bdd.var('b');
fx = bdd.apply('xor', fa, fb)` — handles `0 ↦ 2` (`a`), `1 ↦ 3` (`b`), `2 ↦ -4` (`a xor b`) — with
dynamic reordering switched on and a request due at the next `find_or_add`. -/

@[irreducible] def exAutoS : AMgr :=
  { nvA4 with m := { nvA4.m with lastLen := some 1, fireIn := some 1 } }

theorem exAutoS_inv : AInv false exAutoS := by
  unfold exAutoS
  have h := nvA4_inv
  exact ⟨⟨⟨h.minv.inv.wf, h.minv.inv.pred, h.minv.inv.freeGe, h.minv.inv.free, h.minv.inv.refOne,
    h.minv.inv.refDom, h.minv.inv.cache⟩, h.minv.order, h.minv.counts.congr rfl rfl, h.minv.ctx,
    h.minv.sched, h.minv.roots, fun hf => nomatch hf⟩, h.hmem⟩

theorem exAutoS_two : Two false exAutoS := fun _ => by unfold exAutoS; decide +kernel

/-- a recorded schedule for `fb & fx` on that session: variables in the order `c, b, a` (the
default is `a, b, c`), every level set descending; thirteen swaps -/
def exAutoSched : List SchedItem :=
  [.sift ["c", "b", "a"],
   .swap [(0, [4, 2]), (1, [3]), (2, [])],
   .swap [(0, [4, 2]), (1, []), (2, [3])],
   .swap [(0, []), (1, [4, 2]), (2, [3])],
   .swap [(0, [4, 2]), (1, []), (2, [3])],
   .swap [(0, [4, 2]), (1, [3]), (2, [])],
   .swap [(0, [4, 2]), (1, []), (2, [3])],
   .swap [(0, [4, 2]), (1, [3]), (2, [])],
   .swap [(0, [4, 3]), (1, [2]), (2, [])],
   .swap [(0, [4, 2]), (1, [3]), (2, [])],
   .swap [(0, [4, 2]), (1, []), (2, [3])],
   .swap [(0, []), (1, [4, 2]), (2, [3])],
   .swap [(0, []), (1, [4, 3]), (2, [2])],
   .swap [(0, []), (1, [4, 2]), (2, [3])]]

/-- under that schedule the call `fb & fx` IS served a reordering (the schedule is consumed to
the last item), returns the new `Function` 5 on node `-5`, leaves the order `a, c, b` (the default
schedule leaves `a, b, c`), the other handles as they were, reordering still enabled; a schedule
that does not describe a run of the code makes the model answer `.sched` -/
theorem C08_recorded_schedule_example :
    (fApply "and" 1 (some 2) 5 (setSchedA exAutoSched exAutoS)).1.toOption = some (-5) ∧
    (fApply "and" 1 (some 2) 5 (setSchedA exAutoSched exAutoS)).2.m.sched = [] ∧
    (fApply "and" 1 (some 2) 5 (setSchedA exAutoSched exAutoS)).2.m.tbl.l2v.toList =
      [(0, "a"), (1, "c"), (2, "b")] ∧
    (fApply "and" 1 (some 2) 5 (setSchedA exAutoSched exAutoS)).2.handles.toList =
      [(0, 2), (1, 3), (2, -4), (5, -5)] ∧
    (fApply "and" 1 (some 2) 5 exAutoS).2.m.tbl.l2v.toList = [(0, "a"), (1, "b"), (2, "c")] ∧
    raisedErr (fApply "and" 1 (some 2) 5 (setSchedA [.swap []] exAutoS)).1 = some .sched := by
  decide +kernel

/-- what the theorem says of that call, and of the call under the bogus schedule -/
example : AInv false (setSchedA [] (fApply "and" 1 (some 2) 5 (setSchedA exAutoSched exAutoS)).2) ∧
    AInv false (setSchedA [] (fApply "and" 1 (some 2) 5 (setSchedA [.swap []] exAutoS)).2) :=
  ⟨(C08_anySchedule_means 5 exAutoSched _
      ((C08_ops_dyn_total_anySchedule 5 exAutoSched).2.2.2.2.2.2.2.2.2.2.1 "and" 1 (some 2))
      exAutoS exAutoS_inv exAutoS_two (by unfold exAutoS; decide +kernel)).1,
   (C08_anySchedule_means 5 [.swap []] _
      ((C08_ops_dyn_total_anySchedule 5 [.swap []]).2.2.2.2.2.2.2.2.2.2.1 "and" 1 (some 2))
      exAutoS exAutoS_inv exAutoS_two (by unfold exAutoS; decide +kernel)).1⟩

end DD
