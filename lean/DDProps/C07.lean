/-
  DDProps.C07 — reordering never changes what a held reference denotes.

  State predicate (`ReorderInv ext m`, DDProofs.SwapDrivers): the manager invariant `Inv`, the name
  maps `OrderOK` (C14), exact reference counts `RefExact m ext` (C06) w.r.t. the ledger `ext` of
  externally held references, reordering requests not armed (explicit reordering, or inside
  `_try_to_reorder` where `_last_len = None`), every element of `bdd.roots` held.
  Relation (`ReorderRel ext m m'`): every held reference denotes the same function of the variable
  NAMES (`.held : HeldSame`, via `denN`); the same names are declared; `roots`, the reordering
  switches and an empty schedule are kept.  Integer identity is built in (the same number `u` is
  looked up in both managers); "same external count" is `RefExact m' ext` for the SAME ledger.

  Iteration orders of Python sets are schedule inputs (`Mgr.sched`); every theorem holds for every
  schedule: the outcome `OkOrSched Q r` is "returned normally with `Q`", the only alternative being
  the model's own report `MODEL-SCHEDULE-MISMATCH` (the recorded schedule is not a permutation of
  the level sets — not a behaviour of the code).  With no recorded schedule the calls are total.

  Proved: `C07_swap*`, `C07_shift`, `C07_sortToOrder*`, `C07_reorder_order`, `C07_reorderToPairs`,
  `C07_sift` (sifting returns normally for every schedule — none of its size assertions can fire —
  and ends with no more nodes than after its initial collection), `C07_sift_partial`,
  `sift_never_asserts`.  Finding: `sift_single_variable_raises`.
-/
import DDProofs.SwapDrivers
import DDProofs.SiftFinal
import DDProofs.GcExample
import DD.Ops
open Std

namespace DD

/-! ### the identity behind the swap -/

/-- C07 (semantic core): exchanging the order of two Shannon expansions exchanges the two middle
cofactors — `(x, (y, f00, f01), (y, f10, f11))` and `(y, (x, f00, f10), (x, f01, f11))` are the
same function. -/
theorem C07_shannon_exchange (x y : Nat) (f00 f01 f10 f11 : Asg → Bool) :
    iteA x (iteA y f11 f10) (iteA y f01 f00) = iteA y (iteA x f11 f01) (iteA x f10 f00) :=
  shannon_exchange_fun x y f00 f01 f10 f11

/-- C07 (names): the in-place update of `vars` / `_level_to_var` done by `swap` keeps the two maps
mutually inverse bijections onto `0..n-1` (hence the four views of the order — `vars`,
`_level_to_var`, `level_of_var`, `var_at_level` — agree, C14_views_agree), exchanges exactly the
two names and keeps the number of variables. -/
theorem C07_names_exchange (t : Tbl) (h : OrderOK t) (x : Nat) (vx vy : String)
    (hx : t.l2v[x]? = some vx) (hy : t.l2v[x + 1]? = some vy) :
    OrderOK (exchangeVars t x (x + 1) vx vy) ∧
    (exchangeVars t x (x + 1) vx vy).nvars = t.nvars ∧
    (exchangeVars t x (x + 1) vx vy).l2v[x]? = some vy ∧
    (exchangeVars t x (x + 1) vx vy).l2v[x + 1]? = some vx ∧
    (exchangeVars t x (x + 1) vx vy).vars[vx]? = some (x + 1) ∧
    (exchangeVars t x (x + 1) vx vy).vars[vy]? = some x ∧
    (∀ i, i ≠ x → i ≠ x + 1 → (exchangeVars t x (x + 1) vx vy).l2v[i]? = t.l2v[i]?) := by
  have hxy : x ≠ x + 1 := by omega
  have hO := h.exchange x (x + 1) vx vy hxy hx hy
  obtain ⟨a, b, c⟩ := exchangeVars_names t x (x + 1) vx vy hxy hx hy
  exact ⟨hO, exchangeVars_nvars t h x (x + 1) vx vy hx hy, a, b, (hO.inv vx (x + 1)).mpr b,
    (hO.inv vy x).mpr a, c⟩

/-! ### `swap` -/

/-- C07 (swap): `swap(x, x+1, levels)` on two adjacent valid levels, FOR EVERY SCHEDULE: returns
normally; afterwards `Inv` (reduced, ordered w.r.t. the new levels, unique table in sync for all
levels, computed table empty), `OrderOK`, exact counts for the same ledger; exactly the two names
are exchanged; every reference present before and after denotes the same function of the variable
names; every externally held reference is present before and after; the result is
`(len before, len after)`.  In particular none of the `AssertionError`s / `KeyError`s inside
`swap` can fire. -/
theorem C07_swap (ext : Nat → Nat) (m : Mgr) (h : ReorderInv ext m) (x : Nat) (hx : x + 1 < m.nvars) :
    OkOrSched (SwapPost m ext x) (swap (.level x) (.level ((x : Int) + 1)) true m) := by
  rw [swap_levels_eq m x hx]
  exact OkOrSched.mono (fun _ _ hp => hp.1) (swapBody_spec m ext h.inv h.order h.refExact h.off x hx)

/-- C07 (swap, arguments the other way round — `_shift` towards the top) -/
theorem C07_swap_flipped (ext : Nat → Nat) (m : Mgr) (h : ReorderInv ext m) (x : Nat)
    (hx : x + 1 < m.nvars) :
    OkOrSched (SwapPost m ext x) (swap (.level ((x : Int) + 1)) (.level x) true m) := by
  rw [swap_levels_eq' m x hx]
  exact OkOrSched.mono (fun _ _ hp => hp.1) (swapBody_spec m ext h.inv h.order h.refExact h.off x hx)

/-- C07 (swap, no recorded schedule): total -/
theorem C07_swap_total (ext : Nat → Nat) (m : Mgr) (h : ReorderInv ext m) (x : Nat)
    (hx : x + 1 < m.nvars) (hs : m.sched = []) :
    ∃ r m', swap (.level x) (.level ((x : Int) + 1)) true m = (.ok r, m') ∧ SwapPost m ext x r m' := by
  rw [swap_levels_eq m x hx]
  obtain ⟨r, m', h1, h2, _⟩ := swapBody_total m ext h.inv h.order h.refExact h.off x hx hs
  exact ⟨r, m', h1, h2⟩

/-- C07 (swap, public form `bdd.swap(x, y)`): names or levels of two adjacent levels in either
order, preceded by the full collection -/
theorem C07_swap_public (ext : Nat → Nat) (m : Mgr) (h : ReorderInv ext m) (xa ya : VarOrLevel)
    (x a b : Nat) (hx : x + 1 < m.nvars) (ha : Resolves m xa a) (hb : Resolves m ya b)
    (hab : (a = x ∧ b = x + 1) ∨ (a = x + 1 ∧ b = x)) :
    OkOrSched (fun r m' => ReorderInv ext m' ∧ ReorderRel ext m m' ∧ Exch m m' x ∧ r.2 = m'.len ∧
        r.1 ≤ m.len)
      (swap xa ya false m) :=
  swap_public_spec ext m h xa ya x a b hx ha hb hab

/-- C07 (held references through a swap, spelled out): a held reference `u` is a node before and
after, denotes the same function of the names, and its counter still is
`stored edges + external references (+1 for the terminal)` for the unchanged number `ext u` of
external references. -/
theorem C07_swap_held (ext : Nat → Nat) (m : Mgr) (x : Nat) (r : Nat × Nat) (m' : Mgr)
    (hp : SwapPost m ext x r m') (u : Nat) (hu : 0 < ext u) :
    m.tbl.Mem (u : Int) ∧ m'.tbl.Mem (u : Int) ∧
    (∀ a, denN m'.tbl (u : Int) a = denN m.tbl (u : Int) a) ∧
    m'.ref[u]? = some (indeg m'.tbl u + ext u + (if u = 1 then 1 else 0)) := by
  obtain ⟨h0, h1⟩ := hp.held u hu
  refine ⟨h0, h1, hp.denN _ h0 h1, ?_⟩
  have := hp.refExact.get h1
  simpa using this

/-! ### the drivers above `swap` -/

/-- C07 (`_shift(start, end)`): for valid levels, for every schedule: returns normally, keeps
`ReorderInv`, held references keep their denotation; the variable at `start` is at `end`
afterwards, the ones in between moved one level towards `start`, all others stayed. -/
theorem C07_shift (ext : Nat → Nat) (m : Mgr) (h : ReorderInv ext m) (s e : Nat)
    (hs : s < m.nvars) (he : e < m.nvars) :
    OkOrSched (fun _ m' => ReorderInv ext m' ∧ ReorderRel ext m m' ∧ m'.nvars = m.nvars ∧
        ∀ j, m'.tbl.l2v[j]? = m.tbl.l2v[shiftPerm s e j]?)
      (shift s e m) :=
  OkOrSched.mono (fun _ _ hp => ⟨hp.1, hp.2.1, hp.2.2.1, hp.2.2.2.2⟩)
    (shift_order (swapOK ext) m h s e hs he)

/-- C07 (`_sort_to_order`, sortedness): for every table of requested ranks covering the declared
variables, for every schedule: returns normally, keeps `ReorderInv` and the denotation of held
references, and the requested ranks along the levels are non-decreasing afterwards. -/
theorem C07_sortToOrder_sorted (ext : Nat → Nat) (m : Mgr) (h : ReorderInv ext m)
    (order : List (String × Int)) (hlen : order.length = m.nvars) (hc : Covered order m.nvars m) :
    OkOrSched (fun _ m' => ReorderInv ext m' ∧ ReorderRel ext m m' ∧ m'.nvars = m.nvars ∧
        SortedBy order m')
      (sortToOrder order m) :=
  OkOrSched.mono (fun _ _ hp => ⟨hp.1, hp.2.1, hp.2.2.1, hp.2.2.2.2.1⟩)
    (sortToOrder_sorted (swapOK ext) order m h hlen hc)

/-- C07 (`_sort_to_order` reaches exactly the requested order): when `order` maps the declared
variables bijectively onto `0..n-1`, afterwards `level_of_var(v) = order[v]` and
`var_at_level(order[v]) = v` for every variable. -/
theorem C07_sortToOrder (ext : Nat → Nat) (m : Mgr) (h : ReorderInv ext m)
    (order : List (String × Int)) (ho : ReqOrder order m) :
    OkOrSched (fun _ m' => ReorderInv ext m' ∧ ReorderRel ext m m' ∧ m'.nvars = m.nvars ∧
        ∀ v p, order.lookup v = some p → m.tbl.vars.contains v = true →
          m'.tbl.vars[v]? = some p.toNat ∧ m'.tbl.l2v[p.toNat]? = some v)
      (sortToOrder order m) :=
  sortToOrder_exact (swapOK ext) order m h ho

/-- C07 (`reorder(bdd, order)`) -/
theorem C07_reorder_order (ext : Nat → Nat) (m : Mgr) (h : ReorderInv ext m)
    (order : List (String × Int)) (ho : ReqOrder order m) :
    OkOrSched (fun _ m' => ReorderInv ext m' ∧ ReorderRel ext m m' ∧ m'.nvars = m.nvars ∧
        ∀ v p, order.lookup v = some p → m.tbl.vars.contains v = true →
          m'.tbl.vars[v]? = some p.toNat ∧ m'.tbl.l2v[p.toNat]? = some v)
      (reorder (some order) m) :=
  C07_sortToOrder ext m h order ho

/-- C07 (`reorder_to_pairs`): for a pairing of pairwise distinct declared variables, for every
schedule: returns normally, keeps `ReorderInv` and the denotation of held references, and every
requested pair is adjacent afterwards. -/
theorem C07_reorderToPairs (ext : Nat → Nat) (m : Mgr) (h : ReorderInv ext m)
    (pairs : List (String × String))
    (hdecl : ∀ v ∈ pairNames pairs, m.tbl.vars.contains v = true) (hnd : (pairNames pairs).Nodup) :
    OkOrSched (fun _ m' => ReorderInv ext m' ∧ ReorderRel ext m m' ∧ m'.nvars = m.nvars ∧
        ∀ p ∈ pairs, Adj m' p.1 p.2)
      (reorderToPairs pairs m) :=
  OkOrSched.mono (fun _ _ hp => ⟨hp.1, hp.2.1, hp.2.2.1, hp.2.2.2.1⟩)
    (reorderToPairs_adjacent (swapOK ext) pairs m h hdecl hnd)

/-- C07 (sifting, what a normal return guarantees): if `_apply_sifting` (= `reorder(bdd)`) returns
normally — for whatever schedule of variable and level-set iteration orders — then `ReorderInv`
holds, every held reference denotes the same function, the variables are the same, and there are
no more nodes than after the initial collection (the inequality is the code's own final check). -/
theorem C07_sift_partial (ext : Nat → Nat) (m m' : Mgr) (h : ReorderInv ext m)
    (hrun : reorder none m = (.ok (), m')) :
    ∃ mg, collectGarbage none m = (.ok (), mg) ∧ ReorderInv ext m' ∧ ReorderRel ext m m' ∧
      m'.nvars = mg.nvars ∧ m'.len ≤ mg.len ∧ mg.len ≤ m.len := by
  obtain ⟨mg, h1, h2, h3, h4, h5⟩ := applySifting_partial (siftEnv ext) m m' h hrun
  refine ⟨mg, h1, h2, h3, h4, h5, ?_⟩
  obtain ⟨mg', hrun', hp⟩ := collectGarbage_spec m ext h.inv h.refExact
  rw [h1] at hrun'
  cases hrun'
  have := hp.sub.size
  show mg.tbl.succ.size + 1 ≤ m.tbl.succ.size + 1
  omega

/-- C07 (sifting): with at least two variables, FOR EVERY SCHEDULE of variable and level-set
iteration orders, `reorder(bdd)` (Rudell sifting) returns normally: none of the size assertions of
`_reorder_var` / `_apply_sifting` / `_shift` can fire and no other exception is possible.
Afterwards `ReorderInv` holds, no unreferenced node is left, every held reference denotes the same
function of the names, the same variables are declared. -/
theorem C07_sift (ext : Nat → Nat) (m : Mgr) (h : ReorderInv ext m) (h2 : 2 ≤ m.nvars) :
    OkOrSched (fun _ m' => ReorderInv ext m' ∧ NoGarbage m' ∧ ReorderRel ext m m') (reorder none m) :=
  OkOrSched.mono (fun _ _ hp => ⟨hp.1.1, hp.1.2, hp.2⟩) (applySifting_never_raises ext m h h2)

/-- the clause of C07 that the design expected to stay open, as a statement … -/
def sift_never_asserts_statement : Prop :=
  ∀ (ext : Nat → Nat) (m : Mgr), ReorderInv ext m → 2 ≤ m.nvars →
    OkOrSched (fun _ _ => True) (reorder none m)

/-- … and its proof.  Key facts: a swap leaves no unreferenced node behind (`SwapPost.noZero`), so
the number of nodes is a function of the variable order and of the held functions
(`len_determined`: reachability from held references + canonicity across two tables); shifting
back to a level visited before reproduces the recorded size, and the recorded sizes include the
size at the starting level.  The hypothesis `2 ≤ nvars` is necessary:
`sift_single_variable_raises`. -/
theorem sift_never_asserts : sift_never_asserts_statement :=
  fun ext m h h2 => OkOrSched.mono (fun _ _ _ => trivial) (C07_sift ext m h h2)

/-! ### with no recorded schedule (the model iterates in ascending order) every call is total -/

/-- C07 (sifting, default schedule): returns normally -/
theorem C07_sift_total (ext : Nat → Nat) (m : Mgr) (h : ReorderInv ext m) (h2 : 2 ≤ m.nvars)
    (hs : m.sched = []) :
    ∃ m', reorder none m = (.ok (), m') ∧ ReorderInv ext m' ∧ NoGarbage m' ∧ m'.sched = [] ∧
      ReorderRel ext m m' := by
  obtain ⟨m', a, b, c, d⟩ := applySifting_total_default ext m h h2 hs
  exact ⟨m', a, b.1, b.2, c, d⟩

/-- C07 (`_shift`, default schedule) -/
theorem C07_shift_total (ext : Nat → Nat) (m : Mgr) (h : ReorderInv ext m) (hs0 : m.sched = [])
    (s e : Nat) (hs : s < m.nvars) (he : e < m.nvars) :
    ∃ r m', shift s e m = (.ok r, m') ∧ ReorderInv ext m' ∧ m'.sched = [] ∧ ReorderRel ext m m' ∧
      ∀ j, m'.tbl.l2v[j]? = m.tbl.l2v[shiftPerm s e j]? := by
  obtain ⟨r, m', hrun, hp⟩ := (shift_order (swapOK0 ext) m ⟨h, hs0⟩ s e hs he).total
  exact ⟨r, m', hrun, hp.1.1, hp.1.2, hp.2.1, hp.2.2.2.2⟩

/-- C07 (`reorder(bdd, order)`, default schedule) -/
theorem C07_reorder_order_total (ext : Nat → Nat) (m : Mgr) (h : ReorderInv ext m)
    (hs0 : m.sched = []) (order : List (String × Int)) (ho : ReqOrder order m) :
    ∃ m', reorder (some order) m = (.ok (), m') ∧ ReorderInv ext m' ∧ m'.sched = [] ∧
      ReorderRel ext m m' ∧
      ∀ v p, order.lookup v = some p → m.tbl.vars.contains v = true →
        m'.tbl.vars[v]? = some p.toNat ∧ m'.tbl.l2v[p.toNat]? = some v := by
  obtain ⟨_, m', hrun, hp⟩ := (sortToOrder_exact (swapOK0 ext) order m ⟨h, hs0⟩ ho).total
  exact ⟨m', hrun, hp.1.1, hp.1.2, hp.2.1, hp.2.2.2⟩

/-- C07 (`reorder_to_pairs`, default schedule) -/
theorem C07_reorderToPairs_total (ext : Nat → Nat) (m : Mgr) (h : ReorderInv ext m)
    (hs0 : m.sched = []) (pairs : List (String × String))
    (hdecl : ∀ v ∈ pairNames pairs, m.tbl.vars.contains v = true) (hnd : (pairNames pairs).Nodup) :
    ∃ m', reorderToPairs pairs m = (.ok (), m') ∧ ReorderInv ext m' ∧ m'.sched = [] ∧
      ReorderRel ext m m' ∧ ∀ p ∈ pairs, Adj m' p.1 p.2 := by
  obtain ⟨_, m', hrun, hp⟩ :=
    (reorderToPairs_adjacent (swapOK0 ext) pairs m ⟨h, hs0⟩ hdecl hnd).total
  exact ⟨m', hrun, hp.1.1, hp.1.2, hp.2.1, hp.2.2.2.1⟩

/-- the exception raised, if any -/
def errOf {α} : Except Err α → Option Err
  | .error e => some e
  | .ok _ => none

/-- a manager with exactly one declared variable and no node -/
def exOneVar : Mgr := ((addVar "x" none : M Nat) {}).2

/-- FINDING (real code: `b = BDD(); b.declare('x'); dd.bdd.reorder(b)` raises
`ValueError: min() iterable argument is empty`): with exactly one variable `_reorder_var` calls
`min` on an empty `sizes` dict.  (With no variable at all `_apply_sifting` raises
`UnboundLocalError`.)  The model mirrors both. -/
theorem sift_single_variable_raises :
    exOneVar.nvars = 1 ∧ errOf (reorder none exOneVar).1 = some .value ∧
    errOf (reorder none ({} : Mgr)).1 = some .other := by
  decide

/-! ### non-vacuity

`exM` (DDProofs.GcExample): variables `a` (level 0), `b` (level 1); nodes 2 = `a`, 3 = `b`,
4 = `a ∧ b`; the user holds node 4, which depends on both levels. -/

theorem exM_order : OrderOK exM.tbl := by
  have hk : exM.tbl.vars.keys = ["a", "b"] := by decide
  have hl : exM.tbl.l2v.keys = [0, 1] := by decide
  have ha : exM.tbl.vars["a"]? = some 0 := by decide
  have hb : exM.tbl.vars["b"]? = some 1 := by decide
  have h0 : exM.tbl.l2v[0]? = some "a" := by decide
  have h1 : exM.tbl.l2v[1]? = some "b" := by decide
  have hn : exM.tbl.nvars = 2 := by decide
  refine ⟨?_, ?_, ?_⟩
  · intro v i
    constructor
    · intro h
      have := getElem?_mem_keys _ _ _ h
      rw [hk] at this
      simp only [List.mem_cons, List.not_mem_nil, or_false] at this
      rcases this with rfl | rfl
      · rw [ha] at h; cases h; exact h0
      · rw [hb] at h; cases h; exact h1
    · intro h
      have := getElem?_mem_keys _ _ _ h
      rw [hl] at this
      simp only [List.mem_cons, List.not_mem_nil, or_false] at this
      rcases this with rfl | rfl
      · rw [h0] at h; cases h; exact ha
      · rw [h1] at h; cases h; exact hb
  · intro v i h
    have := getElem?_mem_keys _ _ _ h
    rw [hk] at this
    simp only [List.mem_cons, List.not_mem_nil, or_false] at this
    rw [hn]
    rcases this with rfl | rfl
    · rw [ha] at h; cases h; omega
    · rw [hb] at h; cases h; omega
  · intro i hi
    rw [hn] at hi
    match i, hi with
    | 0, _ => exact ⟨_, h0⟩
    | 1, _ => exact ⟨_, h1⟩

/-- the example manager meets the hypotheses of every theorem above -/
theorem exM_reorderInv : ReorderInv exExt exM :=
  ⟨exM_inv, exM_order, exM_refExact, Or.inl (by decide), by
    have : exM.roots = [] := by decide
    rw [this]; intro r hr; cases hr⟩

/-- … and the swap of its two levels returns normally with the postcondition -/
example : ∃ r m', swap (.level 0) (.level 1) true exM = (.ok r, m') ∧ SwapPost exM exExt 0 r m' :=
  C07_swap_total exExt exM exM_reorderInv 0 (by decide) (by decide)

/-- the held node 4 (`a ∧ b`) is an x-node that depends on the lower level: the rebuilding loop
(cofactors, two `find_or_add`s) is exercised by the example -/
example : IsDep exM.tbl 0 4 ∧ 0 < exExt 4 := by
  refine ⟨⟨⟨0, -1, 3⟩, by decide, rfl, Or.inr (by decide)⟩, by decide⟩

/-- sifting the example manager (two variables, held node 4) returns normally -/
example : ∃ m', reorder none exM = (.ok (), m') ∧ ReorderInv exExt m' ∧ ReorderRel exExt exM m' := by
  obtain ⟨m', a, b, _, _, d⟩ := C07_sift_total exExt exM exM_reorderInv (by decide) (by decide)
  exact ⟨m', a, b, d⟩

/-- a requested order for the example: `b` first -/
example : ReqOrder [("a", 1), ("b", 0)] exM := by
  have h0 : exM.tbl.l2v[0]? = some "a" := by decide
  have h1 : exM.tbl.l2v[1]? = some "b" := by decide
  have hn : exM.nvars = 2 := by decide
  refine ⟨by decide, ?_, ?_, ?_⟩
  · intro i hi
    rw [hn] at hi
    match i, hi with
    | 0, _ => exact ⟨"a", 1, h0, by decide⟩
    | 1, _ => exact ⟨"b", 0, h1, by decide⟩
  · intro v p h
    rw [hn]
    simp only [List.lookup] at h
    split at h
    · cases h; decide
    · split at h
      · cases h; decide
      · cases h
  · intro v v' p h h'
    simp only [List.lookup] at h h'
    split at h
    · next e =>
      cases h
      split at h'
      · next e' => rw [beq_iff_eq] at e e'; rw [e, e']
      · split at h'
        · cases h'
        · cases h'
    · split at h
      · next e =>
        cases h
        split at h'
        · cases h'
        · split at h'
          · next _ e' => rw [beq_iff_eq] at e e'; rw [e, e']
          · cases h'
      · cases h

/-- a pairing for the example -/
example : (∀ v ∈ pairNames [("a", "b")], exM.tbl.vars.contains v = true) ∧ (pairNames [("a", "b")]).Nodup := by
  constructor
  · intro v hv
    simp only [pairNames, List.mem_cons, List.not_mem_nil, or_false] at hv
    rcases hv with rfl | rfl <;> decide
  · decide

end DD
