/-
  DDProps.C05 — `add_expr` reads formulas with the documented precedence,
  associativity and spellings; `to_expr` round trip.

  The theorems are about the model parser of `DD/Parse.lean` (tokenizer + Pratt
  parser parametrised by the tables regenerated from `dd/_parser.py`); the PLY-generated
  LALR(1) parser of the real code is tied to it by the correspondence check
  (`harness/checks_parse.py`), not by proof.
-/
import DDProofs.ParseProofs
import DDProofs.LexProofs
import DDProofs.ToExprProofs
import DDProofs.ParseSem
import DDProofs.VarsProofs
import DDProofs.VarsBijOrder
import DDProofs.Witness
import DDProofs.Inv
open Std
namespace DD

/-! ## obligations on the regenerated tables (`decide` over finite tables) -/

/-- the precedence list of `Parser.__init__` is the documented one (low to high), and every
binary level is left associative -/
theorem C05_precTable_eq_documented :
    Gen.precedence.map (·.2) = docPrecedence ∧
    (Gen.precedence.all fun r => r.2 == "NOT" || r.2 == "UMINUS" || r.1 == Assoc.left) = true := by
  decide

/-- spellings per precedence level as listed in `doc.md` ("The token precedence (lowest to
highest) and associativity is") -/
def docPrecSpellings : List (List String) :=
  [[":"], ["<=>", "<->"], ["=>", "->"], ["-"], ["#", "^"], ["\\/", "|"], ["/\\", "&"], ["="], ["~", "!"]]

/-- row of the precedence table that governs a spelling -/
def spellingPrec (s : String) : Option Nat :=
  (Gen.spellings.find? (·.1 == s)).bind fun r => precIdxIn Gen.precedence r.2.1

def zipIdxFrom : Nat → List α → List (α × Nat)
  | _, [] => []
  | i, a :: l => (a, i) :: zipIdxFrom (i + 1) l

/-- every documented spelling sits at its documented level -/
theorem C05_precedence_of_spellings :
    ((zipIdxFrom 0 docPrecSpellings).all fun r => r.1.all fun s => spellingPrec s == some r.2) = true := by
  decide

/-- all spellings of one operator produce the same token: a spelling lexes to exactly the
token of its row `(type, canonical value)`; the canonical value that reaches `BDD.apply`
stands for the same documented connective as the spelling itself; two rows of one token type
stand for the same connective -/
theorem C05_spellings_same :
    (Gen.spellings.all fun r =>
      (tokOfRow r.2.1 r.2.2).isSome && tokenize r.1 == (tokOfRow r.2.1 r.2.2).toList &&
      docConn r.1 == docConn r.2.2 &&
      Gen.spellings.all fun r' => r.2.1 != r'.2.1 || docConn r.2.2 == docConn r'.2.2) = true := by
  decide

/-- the binary operator tokens carry the type and value of their row, and the value is
accepted by `apply` with the documented connective (`=` has none) -/
theorem C05_binop_values :
    (BinOp.all.all fun o =>
      tokOfRow o.type o.value == some (.op o) &&
      (o == .equals || (docConn o.value).isSome) &&
      Gen.spellings.any fun r => r.2.1 == o.type && r.2.2 == o.value) = true := by
  decide

def idxOf (x : String) : List String → Option Nat
  | [] => none
  | y :: l => if x = y then some 0 else (idxOf x l).map (· + 1)

def rowIdx (sp : String) : List (String × String × String) → Option Nat
  | [] => none
  | r :: l => if r.1 = sp then some 0 else (rowIdx sp l).map (· + 1)

/-- the tokenizer's longest match is PLY's first match: whenever one spelling is a proper
prefix of another, the rule of the longer one is tried first by the master regular expression
(or both are alternatives of one rule, the longer one first); NAME is the first rule; the
comment rules come before `(`; ignored characters; the remaining token rules are the regular
expressions the tokenizer implements; reserved words map to the three keyword tokens -/
theorem C05_lexer_rules :
    (Gen.spellings.all fun r1 => Gen.spellings.all fun r2 =>
      !(r1.1 != r2.1 && isPrefixChars r1.1.toList r2.1.toList) ||
      (match idxOf r2.2.1 Gen.lexRuleOrder, idxOf r1.2.1 Gen.lexRuleOrder,
          rowIdx r2.1 Gen.spellings, rowIdx r1.1 Gen.spellings with
        | some i2, some i1, some k2, some k1 => i2 < i1 || (i2 == i1 && k2 < k1)
        | _, _, _, _ => false)) = true ∧
    Gen.lexRuleOrder.head? = some "NAME" ∧
    (Gen.spellings.all fun r => (idxOf r.2.1 Gen.lexRuleOrder).isSome) = true ∧
    (match idxOf "doubly_delimited_comment" Gen.lexRuleOrder, idxOf "trailing_comment" Gen.lexRuleOrder,
        idxOf "LPAREN" Gen.lexRuleOrder, idxOf "NUMBER" Gen.lexRuleOrder with
      | some c2, some c1, some lp, some _ => c2 < lp && c1 < lp
      | _, _, _, _ => false) = true ∧
    Gen.lexIgnore = " \t" ∧
    Gen.otherTokens = [("NAME", "[A-Za-z_][A-Za-z0-9_']*"), ("NUMBER", "\\d+"),
      ("doubly_delimited_comment", "\\(\\*[\\s\\S]*?\\*\\)"), ("error", ""), ("ignore", ""),
      ("newline", "\\n+"), ("trailing_comment", "\\\\\\*.*")] ∧
    (Gen.reserved.all fun r => r.2 == "ITE" || r.2 == "TRUE" || r.2 == "FALSE") = true := by
  decide

/-- the productions the Pratt parser implements -/
def modelProductions : List (String × String) :=
  [("p_binary", "expr : expr AND expr | expr OR expr | expr XOR expr | expr IMPLIES expr | expr EQUIV expr | expr EQUALS expr | expr MINUS expr"),
   ("p_bool", "expr : TRUE | FALSE"),
   ("p_name", "name : NAME"),
   ("p_names_end", "names : name"),
   ("p_names_iter", "names : names COMMA name"),
   ("p_negative_number", "number : MINUS NUMBER %prec UMINUS"),
   ("p_node", "expr : AT number"),
   ("p_number", "number : NUMBER"),
   ("p_paren", "expr : LPAREN expr RPAREN"),
   ("p_quantifier", "expr : EXISTS names COLON expr | FORALL names COLON expr"),
   ("p_rename", "expr : RENAME subs COLON expr"),
   ("p_substitution", "sub : name DIV name"),
   ("p_substitutions_end", "subs : sub"),
   ("p_substitutions_iter", "subs : subs COMMA sub"),
   ("p_ternary_conditional", "expr : ITE LPAREN expr COMMA expr COMMA expr RPAREN"),
   ("p_unary", "expr : NOT expr"),
   ("p_var", "expr : name")]

set_option maxRecDepth 8192 in
/-- the grammar of the current source is the grammar the model was written for -/
theorem C05_productions_covered : Gen.productions = modelProductions := by decide

/-! ## the parser reads formulas with the precedence of the table -/

/-- printing a syntax tree with parentheses exactly where precedence and left
associativity require them, and parsing the tokens, gives the tree back: every formula
is read with the precedence of the table -/
theorem C05_parse_printMin (t : Ast) (h : t.WF) : parse (printMin t) = some t :=
  parse_printG _ t h

/-- redundant parentheses are harmless (every sub-formula parenthesised) -/
theorem C05_parse_printFull (t : Ast) (h : t.WF) : parse (printFull t) = some t :=
  parse_printG _ t h

/-- any choice `ex` of additional parentheses is harmless -/
theorem C05_parse_redundant (ex : Ast → Bool) (t : Ast) (h : t.WF) : parse (printG ex t) = some t :=
  parse_printG ex t h

/-- non-vacuity: a well-formed tree with every construct; its minimal print needs two pairs of parentheses -/
def exampleAst : Ast :=
  .quant true ["x", "y"] (.bin .implies (.bin .or (.var "a") (.bin .and (.not (.var "b")) (.num true "3")))
    (.subst [("p", "q")] (.ite (.bool true) (.bin .minus (.bin .minus (.var "a") (.var "b")) (.bin .equiv (.var "c") (.var "d")))
      (.bool false))))

example : exampleAst.WF := by simp [exampleAst, Ast.WF]
example : printMin exampleAst =
    [.forall_, .name "x", .comma, .name "y", .colon, .name "a", .op .or, .not, .name "b", .op .and,
     .at, .op .minus, .number "3", .op .implies, .lparen, .rename, .name "p", .div, .name "q", .colon,
     .ite, .lparen, .tt, .comma, .name "a", .op .minus, .name "b", .op .minus,
     .lparen, .name "c", .op .equiv, .name "d", .rparen, .comma, .ff, .rparen, .rparen] := by decide
example : parse (printMin exampleAst) = some exampleAst := by decide
example : parse (printFull exampleAst) = some exampleAst := by decide

/-- precedence of every operator pair: the operator lower in the table is the root,
whichever comes first -/
theorem C05_precedence_pairs (o1 o2 : BinOp) (a b c : String) (h : o1.prec < o2.prec) :
    parse [.name a, .op o1, .name b, .op o2, .name c] =
      some (.bin o1 (.var a) (.bin o2 (.var b) (.var c))) ∧
    parse [.name a, .op o2, .name b, .op o1, .name c] =
      some (.bin o1 (.bin o2 (.var a) (.var b)) (.var c)) := by
  have h1 := C05_parse_printMin (.bin o1 (.var a) (.bin o2 (.var b) (.var c))) (by simp [Ast.WF])
  have h2 := C05_parse_printMin (.bin o1 (.bin o2 (.var a) (.var b)) (.var c)) (by simp [Ast.WF])
  have hn := binop_prec_lt_not o1
  have hn2 := binop_prec_lt_not o2
  have e1 : ¬ (o2.prec < o1.prec + 1) := by omega
  have e2 : ¬ (o2.prec < o1.prec) := by omega
  have e3 : ¬ (notPrec + 2 < o1.prec + 1) := by omega
  have e4 : ¬ (notPrec + 2 < o2.prec + 1) := by omega
  have e5 : ¬ (notPrec + 2 < o1.prec) := by omega
  have e6 : ¬ (notPrec + 2 < o2.prec) := by omega
  simp [printMin, printG, printRaw, paren, Ast.lvl, e1, e2, e3, e4, e5, e6] at h1 h2
  exact ⟨h1, h2⟩

/-- the parentheses `printMin` writes are needed: without them the other tree is read -/
theorem C05_parens_required (o1 o2 : BinOp) (a b c : String) (h : o1.prec < o2.prec) :
    printMin (.bin o2 (.var a) (.bin o1 (.var b) (.var c))) =
      [.name a, .op o2, .lparen, .name b, .op o1, .name c, .rparen] ∧
    parse [.name a, .op o2, .name b, .op o1, .name c] ≠
      some (.bin o2 (.var a) (.bin o1 (.var b) (.var c))) := by
  constructor
  · have hn := binop_prec_lt_not o2
    have e1 : o1.prec < o2.prec + 1 := by omega
    have e2 : ¬ (notPrec + 2 < o2.prec) := by omega
    have e3 : ¬ (notPrec + 2 < o1.prec) := by omega
    have e4 : ¬ (notPrec + 2 < o1.prec + 1) := by omega
    simp [printMin, printG, printRaw, paren, Ast.lvl, e1, e2, e3, e4]
  · rw [(C05_precedence_pairs o1 o2 a b c h).2]
    simp

/-- left associativity, also between different operators of one level (`#` and `^`) -/
theorem C05_left_assoc (o1 o2 : BinOp) (a b c : String) (h : o1.prec = o2.prec) :
    parse [.name a, .op o1, .name b, .op o2, .name c] =
      some (.bin o2 (.bin o1 (.var a) (.var b)) (.var c)) := by
  have h1 := C05_parse_printMin (.bin o2 (.bin o1 (.var a) (.var b)) (.var c)) (by simp [Ast.WF])
  have hn := binop_prec_lt_not o1
  have hn2 := binop_prec_lt_not o2
  have e2 : ¬ (o1.prec < o2.prec) := by omega
  have e3 : ¬ (notPrec + 2 < o1.prec + 1) := by omega
  have e4 : ¬ (notPrec + 2 < o2.prec + 1) := by omega
  have e5 : ¬ (notPrec + 2 < o1.prec) := by omega
  simp [printMin, printG, printRaw, paren, Ast.lvl, e2, e3, e4, e5] at h1
  exact h1

/-- negation binds tighter than every binary operator -/
theorem C05_not_binds_tighter (o : BinOp) (a b : String) :
    parse [.not, .name a, .op o, .name b] = some (.bin o (.not (.var a)) (.var b)) ∧
    parse [.name a, .op o, .not, .name b] = some (.bin o (.var a) (.not (.var b))) := by
  have h1 := C05_parse_printMin (.bin o (.not (.var a)) (.var b)) (by simp [Ast.WF])
  have h2 := C05_parse_printMin (.bin o (.var a) (.not (.var b))) (by simp [Ast.WF])
  have hn := binop_prec_lt_not o
  have e1 : ¬ (notPrec < o.prec) := by omega
  have e2 : ¬ (notPrec < o.prec + 1) := by omega
  have e3 : ¬ (notPrec + 2 < o.prec + 1) := by omega
  have e4 : ¬ (notPrec + 2 < o.prec) := by omega
  have e5 : ¬ (notPrec + 2 < notPrec) := by omega
  simp [printMin, printG, printRaw, paren, Ast.lvl, e1, e2, e3, e4, e5] at h1 h2
  exact ⟨h1, h2⟩

example : (BinOp.and).prec < (BinOp.equals).prec ∧ (BinOp.or).prec < (BinOp.and).prec ∧
    (BinOp.xorHash).prec = (BinOp.xorCaret).prec := by decide

/-- the body of `\A`, `\E`, `\S` extends as far to the right as possible: whatever
(minimally printed) formula follows the colon is the body, no parentheses needed -/
theorem C05_binder_extends (fa : Bool) (ns : List String) (ss : List (String × String)) (e : Ast)
    (hns : ns ≠ []) (hss : ss ≠ []) (he : e.WF) :
    parse ((if fa then Tok.forall_ else .exists_) :: (printNames ns ++ printMin e)) = some (.quant fa ns e) ∧
    parse (Tok.rename :: (printSubs ss ++ printMin e)) = some (.subst ss e) := by
  have h1 := C05_parse_printMin (.quant fa ns e) ⟨hns, he⟩
  have h2 := C05_parse_printMin (.subst ss e) ⟨hss, he⟩
  simp [printMin, printG, printRaw, paren] at h1 h2 ⊢
  exact ⟨h1, h2⟩

/-- … also when the binder is the right operand of a binary operator -/
theorem C05_binder_extends_rhs (l e : Ast) (o : BinOp) (fa : Bool) (ns : List String)
    (hl : l.WF) (he : e.WF) (hns : ns ≠ []) (hlvl : o.prec ≤ l.lvl) :
    parse (printMin l ++ Tok.op o :: (if fa then Tok.forall_ else .exists_) ::
      (printNames ns ++ printMin e)) = some (.bin o l (.quant fa ns e)) :=
  parse_binder_rhs l e o fa ns hl he hns hlvl

example : parse (tokenize "a & \\E x, y: b | c => d") =
    some (.bin .and (.var "a") (.quant false ["x", "y"]
      (.bin .implies (.bin .or (.var "b") (.var "c")) (.var "d")))) := by decide

/-! ## from text: tokenizer and parser together -/

/-- lexing the canonical text of a token string (canonical spelling of every token, one
space after each) gives the token string back -/
theorem C05_tokenize_spell (toks : List Tok) (h : ∀ t ∈ toks, t.LexWF) :
    tokenize (spell toks) = toks :=
  tokenize_spell toks h

/-- the TEXT of every formula — names that are NAME tokens and not reserved words, node
numbers in ASCII digits, parentheses where the precedence table requires them and wherever
`ex` adds redundant ones — is read back as its syntax tree -/
theorem C05_parse_text (ex : Ast → Bool) (t : Ast) (hwf : t.WF) (hlex : t.LexWF) :
    parse (tokenize (spell (printG ex t))) = some t :=
  parse_tokenize_spell ex t hwf hlex

/-- … and `add_expr` on that text is the bottom-up evaluation of the tree -/
theorem C05_addExpr_text (ex : Ast → Bool) (t : Ast) (hwf : t.WF) (hlex : t.LexWF) :
    addExpr (spell (printG ex t)) = tryToReorder (evalAst t) := by
  have h : ∀ tok ∈ printG ex t, tok.LexWF := lexWF_paren (lexWF_printRaw ex t hlex)
  unfold addExpr
  rw [tokenize_spell _ h]
  congr 1
  have hp := parse_printG ex t hwf
  simp only [parse] at hp
  unfold addExprToks
  split at hp
  · rename_i t' ht'
    simp only [Option.some.injEq] at hp
    subst hp
    rw [ht']
  · simp at hp

example : exampleAst.LexWF := lexOk_sound _ (by decide)
example : spell (printMin exampleAst) =
    "\\A x , y : a | ~ b & @ - 3 => ( \\S p / q : ite ( TRUE , a - b - ( c <-> d ) , FALSE ) ) " := by
  decide

/-! ## `add_expr` evaluates the tree that was read -/

/-- `add_expr` of the printed formula is the bottom-up evaluation of the tree (operands left
to right, then `apply` / `quantify` / `rename` with the canonical operator value) -/
theorem C05_addExpr_printed (ex : Ast → Bool) (t : Ast) (h : t.WF) :
    addExprToks (printG ex t) = evalAst t := by
  have hp := parse_printG ex t h
  simp only [parse] at hp
  unfold addExprToks
  split at hp
  · rename_i t' ht'
    simp only [Option.some.injEq] at hp
    subst hp
    rw [ht']
  · simp at hp

/-- `@n` / `@-n` is the reference `n` with its sign when `|n|` is a node of the manager,
`ValueError` otherwise; the manager is unchanged -/
theorem C05_at_n (neg : Bool) (d : String) (m : Mgr) :
    evalAst (.num neg d) m =
      let i : Int := if neg then -(digitsToNat d : Int) else (digitsToNat d : Int)
      if m.mem i then (.ok i, m) else (.error .value, m) := by
  simp only [evalAst, addInt]
  cases h : m.mem (if neg then -(digitsToNat d : Int) else (digitsToNat d : Int)) <;>
    simp [bind, M.bind', M.get, M.throw, pure, M.pure', h]

example : (match addExpr "@2 /\\ ~ @-1" ({} : Mgr) with | (.error .value, _) => true | _ => false) = true := by
  decide
example : (match addExpr "@1 /\\ ~ @-1" ({} : Mgr) with | (.ok 1, _) => true | _ => false) = true := by
  decide

/-! ## the semantic half: `add_expr` returns the documented meaning -/

/-! (`VarsBij.ofOrderOK` — the order invariant of reachable managers (`C14`) is the bijection
the substitution theorems are stated with — is in `DDProofs/VarsBijOrder.lean`) -/

/-- C05 (meaning of a formula): in a manager that satisfies the invariant, with reordering not
enabled, for every text `s` that the front end reads as the tree `t` (`parse (tokenize s) = some t`,
i.e. with the documented precedence and associativity — `C05_parse_text`) whose names are
declared, whose `@n` name nodes of the manager and which does not use `=` (`Meaningful`):
`add_expr(s)` succeeds, keeps the invariant, only adds nodes, and the reference it returns
denotes, under every assignment of the variables by NAME, the value `evalFormula` gives to the
tree — an independent evaluator that knows nothing about diagrams: connectives by their truth
functions, `\A`/`\E` by expansion over the two values of each bound name, `\S` by simultaneous
renaming, `ite` as if-then-else, `@n` as the function of node `n`. -/
theorem C05_addExpr_spec (m : Mgr) (hI : Inv m) (hoff : m.lastLen = none) (hO : OrderOK m.tbl)
    (s : String) (t : Ast) (hp : parse (tokenize s) = some t) (hM : Meaningful m.tbl t) :
    ∃ r m', addExpr s m = (.ok r, m') ∧ Inv m' ∧ Ext m.tbl m'.tbl ∧ Frame m m' ∧ m'.tbl.Mem r ∧
      ∀ an, den m'.tbl r (asgOf m'.tbl an) = evalFormula m.tbl t an := by
  obtain ⟨r, m', he, hs, hm, hd⟩ := addExpr_spec m hI hoff (VarsBij.ofOrderOK hO) s t hp hM
  refine ⟨r, m', he, hs.inv, hs.ext, hs.frame, hm, ?_⟩
  intro an
  rw [asgOf_congr hs.frame.l2v]
  exact hd an

/-- C05 (from the text of a tree): the canonical text of a lexically well-formed, meaningful
tree — with the parentheses the precedence table requires and any redundant ones — is given
the meaning of the tree -/
theorem C05_addExpr_text_spec (m : Mgr) (hI : Inv m) (hoff : m.lastLen = none) (hO : OrderOK m.tbl)
    (ex : Ast → Bool) (t : Ast) (hwf : t.WF) (hlex : t.LexWF) (hM : Meaningful m.tbl t) :
    ∃ r m', addExpr (spell (printG ex t)) m = (.ok r, m') ∧ Inv m' ∧ Ext m.tbl m'.tbl ∧
      m'.tbl.Mem r ∧ ∀ an, den m'.tbl r (asgOf m'.tbl an) = evalFormula m.tbl t an := by
  obtain ⟨r, m', he, hI', hx, _, hm, hd⟩ :=
    C05_addExpr_spec m hI hoff hO _ t (parse_tokenize_spell ex t hwf hlex) hM
  exact ⟨r, m', he, hI', hx, hm, hd⟩

/-- the bottom-up evaluation itself (what the translator does during the reductions) -/
theorem C05_evalAst_spec (t : Ast) (m : Mgr) (hI : Inv m) (hoff : m.lastLen = none)
    (hO : OrderOK m.tbl) (hM : Meaningful m.tbl t) :
    ∃ r m', evalAst t m = (.ok r, m') ∧ Step m m' ∧ m'.tbl.Mem r ∧
      ∀ an, den m'.tbl r (asgOf m.tbl an) = evalFormula m.tbl t an :=
  evalAst_spec t m hI hoff (VarsBij.ofOrderOK hO) hM

/-- the semantic evaluator on the operators: the documented truth tables -/
example : evalFormula ({} : Tbl) (.bin .implies (.var "a") (.bin .xorHash (.var "b") (.not (.var "a"))))
    (fun x => x == "b") = true := by decide
example : evalFormula ({} : Tbl) (.quant false ["a"] (.bin .and (.var "a") (.var "b"))) (fun x => x == "b") = true ∧
    evalFormula ({} : Tbl) (.quant true ["a"] (.bin .and (.var "a") (.var "b"))) (fun x => x == "b") = false ∧
    evalFormula ({} : Tbl) (.subst [("b", "a")] (.var "a")) (fun x => x == "b") = true := by decide

/-- non-vacuity: a manager with the variable `x` and its node `u`, and a formula with a
quantifier, a renaming, a node reference and connectives that meets every hypothesis -/
example : ∃ (m : Mgr) (u : Int) (d : String), Inv m ∧ m.lastLen = none ∧ VarsBij m.tbl ∧
    Meaningful m.tbl (.bin .or (.quant false ["x"] (.bin .and (.var "x") (.bool true)))
      (.subst [("x", "x")] (.not (.num false d)))) := by
  obtain ⟨m, u, hI, hoff, hV, hu, hx, _, _, _⟩ := witness
  have hc : m.tbl.vars.contains "x" = true := (vars_contains_iff _ _).mpr ⟨0, hx⟩
  refine ⟨m, u, "1", hI, hoff, hV, by decide, ⟨?_, by decide, hc, trivial⟩, ?_, ?_⟩
  · intro y hy; simp at hy; subst hy; exact hc
  · intro p hp; simp at hp; subst hp; exact hc
  · have e : digitsToNat "1" = 1 := by decide
    simp only [Meaningful, e]
    exact mem_one _

/-! ## `to_expr` round trip

`dd` accepts any string as a variable name and `to_expr` prints names verbatim, so the text of
a diagram that mentions a variable called `TRUE`, `ite`, `x-y`, … is not read back as that
variable (finding F13).  That is the ONLY excluded case: the hypothesis `lexableSupport`
constrains the names of the variables in the SUPPORT of `u` (= the names that `to_expr(u)`
prints); the manager may declare other variables with any name (`witnessT`: a manager that
declares `TRUE` next to `x` round-trips `x`). -/

/-- every variable name of the manager is a NAME token and not a reserved word
(stronger than needed: see `lexableSupport`) -/
def lexableNames (tb : Tbl) : Prop :=
  ∀ (lvl : Nat) (v : String), tb.l2v[lvl]? = some v → nameOk v

theorem lexableNames.support {tb : Tbl} (h : lexableNames tb) (u : Int) : lexableSupport tb u :=
  fun _ _ lvl _ v hv => h lvl v hv

/-- the text written by `to_expr` is the text of the syntax
tree `a` that unfolds the diagram below `u` — `ite(var, high, low)`, the variable itself for
`ite(var, TRUE, FALSE)`, `(~ …)` for a complemented reference; the memo table of `_to_expr`
only shares texts — -/
theorem C05_toExpr_text (tb : Tbl) (hw : WFU tb) (u : Int) (hu : tb.Mem u)
    (hn : lexableSupport tb u) (s : String) (h : toExpr tb u = .ok s) :
    ∃ f a, toExprAstF f tb u = .ok a ∧ TE a ∧ s = teStr a :=
  toExpr_spec tb u (namesBelow_of_support hw hu hn) s h

/-- … the lexer reads that text as the tokens of `a` with parentheses around negations … -/
theorem C05_tokenize_toExpr_text (a : Ast) (h : TE a) : tokenize (teStr a) = printG isNot a :=
  tokenize_teStr h

/-- … and `add_expr` on it is the evaluation of that tree: `add_expr(to_expr(u))`
evaluates, bottom-up, the `ite(var, high, low)` unfolding of `u` -/
theorem C05_addExpr_toExpr_partial (m : Mgr) (hw : WFU m.tbl) (u : Int) (hu : m.tbl.Mem u)
    (hn : lexableSupport m.tbl u) (s : String) (h : toExpr m.tbl u = .ok s) :
    ∃ f a, toExprAstF f m.tbl u = .ok a ∧ TE a ∧ parse (tokenize s) = some a ∧
      addExpr s = tryToReorder (evalAst a) := by
  obtain ⟨f, a, ha, hte, hp⟩ := parse_toExpr m.tbl u (namesBelow_of_support hw hu hn) s h
  refine ⟨f, a, ha, hte, hp, ?_⟩
  unfold addExpr
  congr 1
  simp only [parse] at hp
  unfold addExprToks
  split at hp
  · rename_i t' ht'
    simp only [Option.some.injEq] at hp
    subst hp
    rw [ht']
  · simp at hp

/-- C05 (round trip): in a manager that satisfies the invariant, with reordering not enabled,
`add_expr(to_expr(u))` is `u` again, for every reference `u` of the manager (either sign) whose
SUPPORT consists of variables named by NAME tokens that are not reserved words (`lexableSupport`;
the other declared variables may have any name; F13 is exactly the excluded case); the manager
keeps its invariant and only gains nodes.  (The printed `ite(var, high, low)` unfolding denotes
the function of `u` — `toExprAst_sem` — and equal functions are equal references —
`canonical`.) -/
theorem C05_addExpr_toExpr (m : Mgr) (hI : Inv m) (hoff : m.lastLen = none) (hO : OrderOK m.tbl)
    (u : Int) (hu : m.tbl.Mem u) (hn : lexableSupport m.tbl u) :
    ∃ s m', toExpr m.tbl u = .ok s ∧ addExpr s m = (.ok u, m') ∧ Inv m' ∧ Ext m.tbl m'.tbl := by
  obtain ⟨s, hs⟩ := toExpr_total m.tbl hI.wf.toWF (VarsBij.ofOrderOK hO) u hu
  obtain ⟨m', he, hst⟩ := addExpr_toExpr m hI hoff (VarsBij.ofOrderOK hO) u
    (namesBelow_of_support hI.wf hu hn) hu s hs
  exact ⟨s, m', hs, he, hst.inv, hst.ext⟩

/-- the same for whatever text `to_expr` returned -/
theorem C05_addExpr_toExpr_of_text (m : Mgr) (hI : Inv m) (hoff : m.lastLen = none)
    (hO : OrderOK m.tbl) (u : Int) (hu : m.tbl.Mem u) (hn : lexableSupport m.tbl u) (s : String)
    (h : toExpr m.tbl u = .ok s) :
    ∃ m', addExpr s m = (.ok u, m') ∧ Inv m' ∧ Ext m.tbl m'.tbl := by
  obtain ⟨m', he, hst⟩ := addExpr_toExpr m hI hoff (VarsBij.ofOrderOK hO) u
    (namesBelow_of_support hI.wf hu hn) hu s h
  exact ⟨m', he, hst.inv, hst.ext⟩

/-- the earlier (stronger) hypothesis: every declared name lexable -/
theorem C05_addExpr_toExpr_allNames (m : Mgr) (hI : Inv m) (hoff : m.lastLen = none)
    (hO : OrderOK m.tbl) (hn : lexableNames m.tbl) (u : Int) (hu : m.tbl.Mem u) :
    ∃ s m', toExpr m.tbl u = .ok s ∧ addExpr s m = (.ok u, m') ∧ Inv m' ∧ Ext m.tbl m'.tbl :=
  C05_addExpr_toExpr m hI hoff hO u hu (hn.support u)

/-! ### non-vacuity, exhibiting the hypothesis: a manager that declares `x` (level 0) and a
variable called `TRUE` (level 1; a reserved word, so `lexableNames` FAILS) and holds the node of
`x`, whose support is `{x}` -/

def witT0 : Mgr :=
  { tbl := { vars := (({} : TreeMap String Nat).insert "x" 0).insert "TRUE" 1,
             l2v := (({} : TreeMap Nat String).insert 0 "x").insert 1 "TRUE" } }

theorem witT0_nvars : witT0.tbl.nvars = 2 := by
  simp [witT0, Tbl.nvars, TreeMap.size_insert]

theorem witT0_inv : Inv witT0 := by
  refine ⟨⟨⟨?_, ?_, ?_, ?_, ?_, ?_, ?_, ?_⟩, ?_⟩, ?_, ?_, ?_, ?_, ?_, ?_⟩ <;>
    simp [witT0, Tbl.node?] <;> try decide

theorem witT0_vars (v : String) (i : Nat) :
    witT0.tbl.vars[v]? = some i ↔ (v = "x" ∧ i = 0) ∨ (v = "TRUE" ∧ i = 1) := by
  simp only [witT0, TreeMap.getElem?_insert]
  by_cases h1 : v = "TRUE"
  · subst h1; simp; omega
  · by_cases h2 : v = "x"
    · subst h2; simp; omega
    · have e1 : ¬ ("TRUE" = v) := fun e => h1 e.symm
      have e2 : ¬ ("x" = v) := fun e => h2 e.symm
      simp [h1, h2, e1, e2]

theorem witT0_l2v (i : Nat) (v : String) :
    witT0.tbl.l2v[i]? = some v ↔ (v = "x" ∧ i = 0) ∨ (v = "TRUE" ∧ i = 1) := by
  simp only [witT0, TreeMap.getElem?_insert]
  by_cases h1 : i = 1
  · subst h1; simp; exact eq_comm
  · by_cases h2 : i = 0
    · subst h2; simp; exact eq_comm
    · have e1 : ¬ (1 = i) := fun e => h1 e.symm
      have e2 : ¬ (0 = i) := fun e => h2 e.symm
      simp [h1, h2, e1, e2]

theorem witT0_order : OrderOK witT0.tbl := by
  refine ⟨fun v i => by rw [witT0_vars, witT0_l2v], ?_, ?_⟩
  · intro v i h
    rw [witT0_nvars]
    rcases (witT0_vars v i).mp h with ⟨-, rfl⟩ | ⟨-, rfl⟩ <;> omega
  · intro i hi
    rw [witT0_nvars] at hi
    rcases i with _ | _ | i
    · exact ⟨"x", (witT0_l2v _ _).mpr (Or.inl ⟨rfl, rfl⟩)⟩
    · exact ⟨"TRUE", (witT0_l2v _ _).mpr (Or.inr ⟨rfl, rfl⟩)⟩
    · omega

/-- a state that meets every hypothesis of `C05_addExpr_toExpr` for the node `u` of `x`, although
the manager declares a variable (`TRUE`) whose name is not lexable -/
theorem witnessT :
    ∃ (m : Mgr) (u : Int), Inv m ∧ m.lastLen = none ∧ OrderOK m.tbl ∧ m.tbl.Mem u ∧
      u.natAbs ≠ 1 ∧ lexableSupport m.tbl u ∧ ¬ lexableNames m.tbl ∧
      m.tbl.l2v[1]? = some "TRUE" := by
  obtain ⟨g, m', _, hs, hg, _, hd⟩ := varNode_off witT0 witT0_inv rfl 0
    (by show 0 < witT0.tbl.nvars; rw [witT0_nvars]; decide)
  have hg1 : g.natAbs ≠ 1 := by
    intro h1
    rcases abs_one h1 with h | h <;> subst h
    · have := hd (fun _ => false); rw [den_one] at this; cases this
    · have := hd (fun _ => true); rw [den_neg_one] at this; cases this
  have hO : OrderOK m'.tbl := by
    have hv := hs.frame.vars
    have hl := hs.frame.l2v
    have hn : m'.tbl.nvars = witT0.tbl.nvars := by simp [Tbl.nvars, hv]
    exact ⟨fun v i => by rw [hv, hl]; exact witT0_order.inv v i,
      fun v i h => by rw [hn]; rw [hv] at h; exact witT0_order.lt v i h,
      fun i hi => by rw [hl]; rw [hn] at hi; exact witT0_order.total i hi⟩
  have hT : m'.tbl.l2v[1]? = some "TRUE" := by
    rw [hs.frame.l2v]; exact (witT0_l2v _ _).mpr (Or.inr ⟨rfl, rfl⟩)
  refine ⟨m', g, hs.inv, hs.off rfl, hO, hg, hg1, ?_, ?_, hT⟩
  · -- the support of `g` is level 0, named `x`
    intro ls hls lvl hlvl v hv
    obtain ⟨l, e, _, sp⟩ := supportLevels_spec' hs.inv.wf g hg
    rw [e] at hls
    cases hls
    obtain ⟨a, ha⟩ := (sp lvl).mp hlvl
    have h0 : lvl = 0 := by
      by_cases h : lvl = 0
      · exact h
      · exfalso; apply ha
        rw [hd, hd]
        simp [upd, Ne.symm h]
    subst h0
    rw [hs.frame.l2v] at hv
    rcases (witT0_l2v _ _).mp hv with ⟨rfl, -⟩ | ⟨-, h⟩
    · exact nameOk_of_check (by decide)
    · cases h
  · intro hall
    exact absurd (hall 1 "TRUE" hT).2 (by decide)

/-- … so the round trip holds there: `add_expr(to_expr(u)) = u` in a manager declaring `TRUE` -/
example : ∃ (m : Mgr) (u : Int) (s : String) (m' : Mgr), ¬ lexableNames m.tbl ∧ u.natAbs ≠ 1 ∧
    toExpr m.tbl u = .ok s ∧ addExpr s m = (.ok u, m') := by
  obtain ⟨m, u, hI, hoff, hO, hu, h1, hn, hnot, -⟩ := witnessT
  obtain ⟨s, m', hs, he, -, -⟩ := C05_addExpr_toExpr m hI hoff hO u hu hn
  exact ⟨m, u, s, m', hnot, h1, hs, he⟩

/-- non-vacuity: a table with one variable and one node; a tree of the image of `to_expr` -/
def exTblC05 : Tbl :=
  { succ := ({} : TreeMap Nat Nd).insert 2 ⟨0, -1, 1⟩,
    vars := ({} : TreeMap String Nat).insert "a" 0,
    l2v := ({} : TreeMap Nat String).insert 0 "a" }
example : (match toExprAstF 3 exTblC05 (-2) with | .ok a => a == .not (.var "a") | _ => false) = true := by
  decide
def exTe : Ast := .not (.ite (.var "a") (.bool true) (.not (.var "b'")))
example : TE exTe :=
  .neg _ (.ite _ _ _ (nameOk_of_check (by decide)) .tt (.neg _ (.var _ (nameOk_of_check (by decide)))))
example : teStr exTe = "(~ ite(a, TRUE, (~ b')))" := by decide
example : parse (tokenize "(~ ite(a, TRUE, (~ b')))") = some exTe := by decide

end DD
