/-
  DDProps.C11 — copying between managers preserves the function BY VARIABLE NAME.

  The source manager enters as its table `s` (it is only read: `copyBdd` runs in the monad of
  the TARGET manager and has no way to write to `s`); the target is any manager with `Inv`
  (whatever nodes, computed-table entries and variable order it already has), reordering not
  enabled (`lastLen = none`).  `denName t u` is the value of `u` as a function of variable names.
-/
import DDProofs.Witness
import DDProofs.UsedObs
namespace DD
open Std

/-- C11 (the recursion `_copy_bdd` between two managers; memo keyed by the unsigned source
node, shared between roots): for ANY sound memo — in particular the one left by the copies of
earlier roots — the recursion is total, adds only nodes to the target, keeps the memo sound and
returns a reference of the same sign that denotes the source function read through the level
map. -/
theorem C11_copyBddF (s : Tbl) (hS : WF s) (lm : List (Nat × Nat)) (fu : Nat) (m : Mgr)
    (u : Int) (cache : HashMap Nat Int)
    (hI : Inv m) (hoff : m.lastLen = none) (hu : s.Mem u) (hmemo : CMemo lm s m.tbl cache)
    (hlm : ∀ i, InSupp s u i → ∃ j, lm.lookup i = some j ∧ j < m.nvars)
    (hfuel : s.nvars + 1 ≤ fu + s.levelOf u) :
    ∃ r c' m', copyBddF (some s) lm fu u cache m = (.ok (r, c'), m') ∧
      Inv m' ∧ Ext m.tbl m'.tbl ∧ Frame m m' ∧ CMemo lm s m'.tbl c' ∧ m'.tbl.Mem r ∧
      (0 < r ↔ 0 < u) ∧
      ∀ a, den m'.tbl r a = den s u
        (fun i => match lm.lookup i with | some j => a j | none => false) := by
  obtain ⟨r, c', m', he, hs, hm, hp⟩ :=
    copyBddF_spec (some s) lm s hS fu m u cache hI hoff rfl hu hmemo hlm hfuel
  exact ⟨r, c', m', he, hs.inv, hs.ext, hs.frame, hm, hp.mr, hp.sign, hp.den⟩

/-- C11 (`copy_bdd(u, from_bdd, to_bdd)`): whatever the two variable orders and whatever the
target already holds, if every variable of the support of `u` is declared in the target then
the copy succeeds and denotes the same function of the same-named variables; the target keeps
its invariant (hence stays canonical), its existing nodes and its variables. -/
theorem C11_copyBdd (s : Tbl) (hS : WFU s) (hVs : VarsBij s) (m : Mgr) (hI : Inv m)
    (hoff : m.lastLen = none) (hVm : VarsBij m.tbl) (u : Int) (hu : s.Mem u)
    (hsup : ∀ i v, InSupp s u i → s.l2v[i]? = some v → m.tbl.vars.contains v = true) :
    ∃ r m', copyBdd s u m = (.ok r, m') ∧ Inv m' ∧ Ext m.tbl m'.tbl ∧ m'.tbl.Mem r ∧
      Frame m m' ∧ (0 < r ↔ 0 < u) ∧
      (∀ a : String → Bool,
        den m'.tbl r (fun i => match m'.tbl.l2v[i]? with | some v => a v | none => false) =
        den s u (fun i => match s.l2v[i]? with | some v => a v | none => false)) := by
  obtain ⟨r, m', h1, h2, h3, h4, h5, h6, h7⟩ :=
    copyBdd_spec s hS.toWF hVs m hI hoff hVm u hu hsup
  exact ⟨r, m', h1, h2, h3, h4, h5, h6, fun a => congrFun h7 a⟩

/-- C11 in the `denName` vocabulary -/
theorem C11_copyBdd_denN (s : Tbl) (hS : WFU s) (hVs : VarsBij s) (m : Mgr) (hI : Inv m)
    (hoff : m.lastLen = none) (hVm : VarsBij m.tbl) (u : Int) (hu : s.Mem u)
    (hsup : ∀ i v, InSupp s u i → s.l2v[i]? = some v → m.tbl.vars.contains v = true) :
    ∃ r m', copyBdd s u m = (.ok r, m') ∧ denName m'.tbl r = denName s u := by
  obtain ⟨r, m', h1, _, _, _, _, _, h7⟩ := copyBdd_spec s hS.toWF hVs m hI hoff hVm u hu hsup
  exact ⟨r, m', h1, h7⟩

/-- C11 (the target stays canonical after the copy; its variables are the same): two references
of the target after the copy denote the same function iff they are equal -/
theorem C11_target_canonical (s : Tbl) (hS : WFU s) (hVs : VarsBij s) (m : Mgr) (hI : Inv m)
    (hoff : m.lastLen = none) (hVm : VarsBij m.tbl) (u : Int) (hu : s.Mem u)
    (hsup : ∀ i v, InSupp s u i → s.l2v[i]? = some v → m.tbl.vars.contains v = true) :
    ∃ r m', copyBdd s u m = (.ok r, m') ∧ VarsBij m'.tbl ∧
      ∀ x y, m'.tbl.Mem x → m'.tbl.Mem y → ((∀ a, den m'.tbl x a = den m'.tbl y a) ↔ x = y) := by
  obtain ⟨r, m', h1, h2, _, _, h5, _, _⟩ := copyBdd_spec s hS.toWF hVs m hI hoff hVm u hu hsup
  exact ⟨r, m', h1, hVm.frame h5, fun x y hx hy => canonical m'.tbl h2.wf x y hx hy⟩

/-- C11 (copying twice gives the same reference: the second copy finds the nodes of the
first) — a consequence of canonicity of the target -/
theorem C11_copy_twice (s : Tbl) (hS : WFU s) (hVs : VarsBij s) (m : Mgr) (hI : Inv m)
    (hoff : m.lastLen = none) (hVm : VarsBij m.tbl) (u : Int) (hu : s.Mem u)
    (hsup : ∀ i v, InSupp s u i → s.l2v[i]? = some v → m.tbl.vars.contains v = true) :
    ∃ r m' m'', copyBdd s u m = (.ok r, m') ∧ copyBdd s u m' = (.ok r, m'') := by
  obtain ⟨r, m', h1, h2, h3, h4, h5, _, h7⟩ := copyBdd_spec s hS.toWF hVs m hI hoff hVm u hu hsup
  have hoff' : m'.lastLen = none := by rw [h5.lastLen]; exact hoff
  have hsup' : ∀ i v, InSupp s u i → s.l2v[i]? = some v → m'.tbl.vars.contains v = true := by
    intro i v hi hv; rw [h5.vars]; exact hsup i v hi hv
  obtain ⟨r', m'', g1, g2, g3, g4, g5, _, g7⟩ :=
    copyBdd_spec s hS.toWF hVs m' h2 hoff' (hVm.frame h5) u hu hsup'
  have : r' = r := by
    apply (canonical m''.tbl g2.wf r' r g4 (g3.mem h4)).mp
    intro a
    -- both denote the source function by name; every level assignment of the target is the
    -- name assignment of `fun v => a (level of v)`
    have hV'' := (hVm.frame h5).frame g5
    let an : String → Bool := fun v => a (lvlOf m''.tbl v)
    have hna : ∀ i, i < m''.tbl.nvars → nameAsg m''.tbl an i = a i := by
      intro i hi
      obtain ⟨v, hv⟩ := hV''.onto i hi
      simp [nameAsg, hV''.v2l _ _ hv, an, lvlOf, hv]
    have e1 : den m''.tbl r' a = den m''.tbl r' (nameAsg m''.tbl an) :=
      den_agree_ge m''.tbl g2.wf.toWF r' g4 _ _ (fun i _ hi => (hna i hi).symm)
    have e2 : den m''.tbl r a = den m''.tbl r (nameAsg m''.tbl an) :=
      den_agree_ge m''.tbl g2.wf.toWF r (g3.mem h4) _ _ (fun i _ hi => (hna i hi).symm)
    rw [e1, e2]
    have k1 : den m''.tbl r' (nameAsg m''.tbl an) = denName s u an := congrFun g7 an
    have k2 : den m'.tbl r (nameAsg m'.tbl an) = denName s u an := congrFun h7 an
    rw [k1, ← k2, den_ext g3 h2.wf.toWF r _ h4]
    have : nameAsg m''.tbl an = nameAsg m'.tbl an := by
      funext i; simp [nameAsg, g5.l2v]
    rw [this]
  subst this
  exact ⟨r', m', m'', h1, g1⟩

/-- non-vacuity: the hypotheses are met by a source holding the variable `x` with its node and
a target declaring `x` (here the same table serves as source and as target manager) -/
example : ∃ (s : Tbl) (m : Mgr) (u : Int), WFU s ∧ VarsBij s ∧ Inv m ∧ m.lastLen = none ∧
    VarsBij m.tbl ∧ s.Mem u ∧ u.natAbs ≠ 1 ∧
    (∀ i v, InSupp s u i → s.l2v[i]? = some v → m.tbl.vars.contains v = true) := by
  obtain ⟨m, u, hI, hoff, hV, hu, hx, hn, hd, _⟩ := witness
  refine ⟨m.tbl, m, u, hI.wf, hV, hI, hoff, hV, hu, ?_, ?_⟩
  · intro h1
    rcases abs_one h1 with h | h <;> subst h
    · have := hd (fun _ => false); rw [den_one] at this; cases this
    · have := hd (fun _ => true); rw [den_neg_one] at this; cases this
  · intro i v _ hv
    exact (vars_contains_iff _ _).mpr ⟨i, hV.l2v _ _ hv⟩

/-! ### non-vacuity on USED managers with DIFFERENT orders

source: `usedM` (DDProofs.UsedExample; levels c, a, d, b; `f` = node 13 over all four variables);
target: `tgtM`, reached by its own guarded history — five variables in the order b, e, d, a, c
(another order, one more variable), its own nodes 2, 3, 4 with `b ∧ c` held. -/

def tgtHistory : List UOp :=
  [ .declare "b" none, .declare "e" none, .declare "d" none, .declare "a" none, .declare "c" none,
    .var "b", .var "c", .apply "and" 2 (some 3) none, .incref 4 ]

def tgtM : Mgr := (run tgtHistory St.init).m

theorem tgtM_good : GoodState tgtM (run tgtHistory St.init).ext :=
  reachable_inv tgtHistory (by decide)

private theorem used_sup_in_tgt (u : Int) : ∀ i v, InSupp usedM.tbl u i →
    usedM.tbl.l2v[i]? = some v → tgtM.tbl.vars.contains v = true := by
  intro i v hi hv
  have hlt := hi.lt_nvars usedM_good.inv.wf.toWF
  have h4 : usedM.tbl.nvars = 4 := by decide +kernel
  have hall : ∀ k : Fin 4, (usedM.tbl.l2v[k.val]?).all (fun v => tgtM.tbl.vars.contains v) = true := by
    decide +kernel
  have := hall ⟨i, by omega⟩
  simpa [hv] using this

/-- `copy_bdd(¬f, used, target)`: every hypothesis holds; the copy denotes, BY NAME, what the
operand denotes in the source; the target stays canonical; a second copy returns the same
reference.  (`#eval`: the answer is −18 and the target grows from 3 to 17 nodes.) -/
example :
    (∃ r m', copyBdd usedM.tbl (-13) tgtM = (.ok r, m') ∧ Inv m' ∧ Ext tgtM.tbl m'.tbl ∧
      m'.tbl.Mem r ∧ Frame tgtM m' ∧ (0 < r ↔ 0 < (-13 : Int)) ∧
      (∀ a : String → Bool,
        den m'.tbl r (fun i => match m'.tbl.l2v[i]? with | some v => a v | none => false) =
        den usedM.tbl (-13)
          (fun i => match usedM.tbl.l2v[i]? with | some v => a v | none => false))) ∧
    (∃ r m' m'', copyBdd usedM.tbl (-13) tgtM = (.ok r, m') ∧
      copyBdd usedM.tbl (-13) m' = (.ok r, m'')) :=
  ⟨C11_copyBdd usedM.tbl usedM_good.inv.wf usedM_varsBij tgtM tgtM_good.inv tgtM_good.off
      (VarsBij.ofOrderOK tgtM_good.order) (-13) (usedM_mem (by decide)) (used_sup_in_tgt _),
   C11_copy_twice usedM.tbl usedM_good.inv.wf usedM_varsBij tgtM tgtM_good.inv tgtM_good.off
      (VarsBij.ofOrderOK tgtM_good.order) (-13) (usedM_mem (by decide)) (used_sup_in_tgt _)⟩

/-- the two orders really differ -/
example : tgtM.tbl.vars.toList = [("a", 3), ("b", 0), ("c", 4), ("d", 2), ("e", 1)] ∧
    usedM.tbl.vars.toList = [("a", 1), ("b", 3), ("c", 0), ("d", 2)] ∧
    tgtM.tbl.succ.keys = [2, 3, 4] := by decide +kernel

end DD
