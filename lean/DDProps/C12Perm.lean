/-
  DDProps.C12Perm — C12 and the ORDER of the items of a file (audit 2, gap 9), and the older
  round-trip forms without hypotheses about the callee's own intermediate results (gap 15).

  The model's `dumpPickle` writes `vars` sorted by name (the insertion order of Python's
  `bdd.vars` dict is not part of the model state: `Tbl.vars` is a map) and `succ` in ascending id
  order (Python: iteration order of a `set`).  `dump_json` writes its node lines in a determined
  order — the recursion `dumpJsonF` of the model — but `level_of_var` in dict order.  The file
  Python writes is therefore a PERMUTATION of the model's file, and the theorems are stated for
  every permutation:

  * `C12_pickle_perm` / `C12_json_perm`: permuting the items keeps well-formedness (`PickleWF`,
    `VarsWF`, `RootsResolvable`; `JsonWF` under "children first" of the permuted lines — the one
    thing `_make_node` relies on) and what every id denotes by variable name;
  * `C12_pickle_roundtrip_levels_perm`, `C12_pickle_roundtrip_any_order_perm`,
    `C12_json_roundtrip_perm`: `∀ f', f' ≈ dump(src, roots) → load(f', …)` returns the dumped
    functions by name;
  * `C12_pickle_roundtrip_false_fresh_perm`: `levels=False` into `BDD()` — the variable order
    that results IS the order of the items of the file (the `k`-th item at level `k`), NOT the
    source's levels (with the default `levels=True` it is the source's levels whatever the item
    order); the functions by name do not depend on it;
  * `C12_pickle_roundtrip_declared_total`, `C12_pickle_roundtrip_same_manager_total`: the forms
    that supersede `C12_pickle_roundtrip_declared` / `_same_manager` (no `hd`, `hg`) — and
    `C12_pickle_roundtrip` is superseded by `_levels_perm` (`levels=True`, the pre-check as the
    only hypothesis) and `_any_order_perm` (`levels=False`, none).
-/
import DDProofs.DumpPerm
import DDProofs.UsedExample
import DDProps.Histories
open Std
namespace DD

/-- C12: a pickle content with its items in ANY order -/
theorem C12_pickle_perm {f f' : PickleFile} (h : PickleFile.Equiv f' f) (hV : VarsWF f.vars)
    (hu : UniqueIds f.succ) :
    (PickleWF f → PickleWF f') ∧ VarsWF f'.vars ∧ UniqueIds f'.succ ∧
    (RootsResolvable f → RootsResolvable f') ∧ ∀ u α, evalPickle f' u α = evalPickle f u α :=
  pickle_perm h hV hu

/-- C12: every dump has one entry per id (so that `C12_pickle_perm` applies to it) -/
theorem C12_dump_uniqueIds {m : Mgr} {roots : Roots} {f : PickleFile}
    (h : dumpPickle m roots = .ok f) : UniqueIds f.succ := dumpPickle_uniqueIds h

/-- C12: a JSON content with `level_of_var` in any order and the node lines in any order that
keeps children first -/
theorem C12_json_perm {f f' : JsonFile} (h : JsonFile.Equiv f' f) (hf : JsonWF f)
    (hcf : ChildrenFirst f'.nodes) :
    JsonWF f' ∧ (∀ u α, evalJson f' u α = evalJson f u α) ∧ (Rooted f → Rooted f') :=
  json_perm h hf hcf

/-- C12: `dump(file, roots); load(file)` (defaults), every order of the file's items -/
theorem C12_pickle_roundtrip_levels_perm (src : Mgr) (hIs : Inv src) (hOs : OrderOK src.tbl) (roots : Roots)
    (hroots : ∀ u ∈ roots.values, src.tbl.Mem u)
    (tgt : Mgr) (hI : Inv tgt) (hO : OrderOK tgt.tbl) (hc : tgt.ctx = false)
    (hcomp : levelsCompatible tgt.tbl src.tbl.vars.toList = true) :
    ∃ f, dumpPickle src roots = .ok f ∧ ∀ f', PickleFile.Equiv f' f →
      ∃ roots' m', loadPickle f' true tgt = (.ok roots', m') ∧
        Inv m' ∧ OrderOK m'.tbl ∧ (∀ ext, RefExact tgt ext → RefExact m' ext) ∧
        (∀ (v : String) (i : Nat), src.tbl.vars[v]? = some i → m'.tbl.vars[v]? = some i) ∧
        (∀ u n, tgt.tbl.node? u = some n → m'.tbl.node? u = some n) ∧
        LoadedAs src.tbl roots m'.tbl roots' :=
  pickle_roundtrip_levels_perm src hIs hOs roots hroots tgt hI hO hc hcomp

/-- C12: `load(file, levels=False)` of ANY well-formed content into any manager with a bijective
order -/
theorem C12_pickle_load_false (f : PickleFile) (hwf : PickleWF f) (hr : RootsResolvable f)
    (tgt : Mgr) (hI : Inv tgt) (hO : OrderOK tgt.tbl) (hc : tgt.ctx = false) :
    ∃ roots' m', loadPickle f false tgt = (.ok roots', m') ∧ Inv m' ∧ OrderOK m'.tbl ∧
      (∀ ext, RefExact tgt ext → RefExact m' ext) ∧
      (∀ (v : String) (i : Nat), tgt.tbl.vars[v]? = some i → m'.tbl.vars[v]? = some i) ∧
      (∀ u n, tgt.tbl.node? u = some n → m'.tbl.node? u = some n) ∧ LoadedFrom f m'.tbl roots' :=
  pickle_load_false_any f hwf hr tgt hI hO hc

/-- C12: `dump(file, roots); load(file, levels=False)`, every order of the file's items, ANY
target with a bijective order -/
theorem C12_pickle_roundtrip_any_order_perm (src : Mgr) (hIs : Inv src) (hOs : OrderOK src.tbl) (roots : Roots)
    (hroots : ∀ u ∈ roots.values, src.tbl.Mem u)
    (tgt : Mgr) (hI : Inv tgt) (hO : OrderOK tgt.tbl) (hc : tgt.ctx = false) :
    ∃ f, dumpPickle src roots = .ok f ∧ ∀ f', PickleFile.Equiv f' f →
      ∃ roots' m', loadPickle f' false tgt = (.ok roots', m') ∧ Inv m' ∧ OrderOK m'.tbl ∧
        (∀ ext, RefExact tgt ext → RefExact m' ext) ∧
        (∀ (v : String) (i : Nat), tgt.tbl.vars[v]? = some i → m'.tbl.vars[v]? = some i) ∧
        (∀ u n, tgt.tbl.node? u = some n → m'.tbl.node? u = some n) ∧
        LoadedAs src.tbl roots m'.tbl roots' :=
  pickle_roundtrip_any_order_perm src hIs hOs roots hroots tgt hI hO hc

/-- C12: `levels=False` into `BDD()`: the order that results is the order of the file's items -/
theorem C12_pickle_roundtrip_false_fresh_perm (src : Mgr) (hIs : Inv src) (hOs : OrderOK src.tbl)
    (roots : Roots) (hroots : ∀ u ∈ roots.values, src.tbl.Mem u) :
    ∃ f, dumpPickle src roots = .ok f ∧ ∀ f', PickleFile.Equiv f' f →
      ∃ roots' m', loadPickle f' false {} = (.ok roots', m') ∧ Inv m' ∧ OrderOK m'.tbl ∧
        RefExact m' (fun _ => 0) ∧ m'.nvars = f'.vars.length ∧
        (∀ k (hk : k < f'.vars.length), m'.tbl.vars[(f'.vars[k]).1]? = some k) ∧
        LoadedAs src.tbl roots m'.tbl roots' :=
  pickle_roundtrip_false_fresh_perm src hIs hOs roots hroots

/-- C12: into a manager that declares the source's variables at the source's levels, either
`levels`, every order of the items (supersedes `C12_pickle_roundtrip_declared`) -/
theorem C12_pickle_roundtrip_declared_total (src : Mgr) (hIs : Inv src) (hOs : OrderOK src.tbl) (roots : Roots)
    (hroots : ∀ u ∈ roots.values, src.tbl.Mem u) (levels : Bool)
    (tgt : Mgr) (hI : Inv tgt) (hO : OrderOK tgt.tbl) (hc : tgt.ctx = false)
    (hdecl : ∀ (var : String) (i : Nat), src.tbl.vars[var]? = some i → tgt.tbl.vars[var]? = some i) :
    ∃ f, dumpPickle src roots = .ok f ∧ ∀ f', PickleFile.Equiv f' f →
      ∃ roots' m', loadPickle f' levels tgt = (.ok roots', m') ∧ Inv m' ∧ OrderOK m'.tbl ∧
        (∀ ext, RefExact tgt ext → RefExact m' ext) ∧
        (∀ (v : String) (i : Nat), tgt.tbl.vars[v]? = some i → m'.tbl.vars[v]? = some i) ∧
        (∀ u n, tgt.tbl.node? u = some n → m'.tbl.node? u = some n) ∧
        LoadedAs src.tbl roots m'.tbl roots' :=
  pickle_roundtrip_declared_total src hIs hOs roots hroots levels tgt hI hO hc hdecl

/-- C12: into the same manager, either `levels`, every order of the items (supersedes
`C12_pickle_roundtrip_same_manager`) -/
theorem C12_pickle_roundtrip_same_manager_total (m : Mgr) (hI : Inv m) (hO : OrderOK m.tbl)
    (hc : m.ctx = false) (roots : Roots) (hroots : ∀ u ∈ roots.values, m.tbl.Mem u) (levels : Bool) :
    ∃ f, dumpPickle m roots = .ok f ∧ ∀ f', PickleFile.Equiv f' f →
      ∃ roots' m', loadPickle f' levels m = (.ok roots', m') ∧ Inv m' ∧ OrderOK m'.tbl ∧
        (∀ ext, RefExact m ext → RefExact m' ext) ∧
        (∀ (v : String) (i : Nat), m.tbl.vars[v]? = some i → m'.tbl.vars[v]? = some i) ∧
        (∀ u n, m.tbl.node? u = some n → m'.tbl.node? u = some n) ∧
        LoadedAs m.tbl roots m'.tbl roots' :=
  pickle_roundtrip_same_manager_total m hI hO hc roots hroots levels

/-- C12: JSON round trip, either `load_order`, `level_of_var` in any order, the node lines in any
order that keeps children first -/
theorem C12_json_roundtrip_perm (src : Mgr) (hIs : Inv src) (hOs : OrderOK src.tbl) (roots : Roots)
    (hn : roots ≠ .none) (hne : roots.values ≠ []) (hroots : ∀ u ∈ roots.values, src.tbl.Mem u)
    (lo : Bool) (tgt : Mgr) (e : Nat → Nat) (hg : GoodState tgt e) (hpn : PredNodes tgt)
    (hr : ∀ r ∈ tgt.roots, tgt.tbl.Mem r)
    (hlo : lo = true → tgt.sched = [] ∧ (∀ r ∈ tgt.roots, 0 < e r.natAbs) ∧
      ∀ v : String, tgt.tbl.vars.contains v = true → src.tbl.vars.contains v = true) :
    ∃ f, dumpJson src roots = .ok f ∧ ∀ f', JsonFile.Equiv f' f → ChildrenFirst f'.nodes →
      ∃ roots' m', loadJson f' lo tgt = (.ok roots', m') ∧ JsonLoaded f' e lo roots' m' ∧
        LoadedAs src.tbl roots m'.tbl roots' :=
  json_roundtrip_perm src hIs hOs roots hn hne hroots lo tgt e hg hpn hr hlo

/-! ### non-vacuity on the USED manager `usedM` (c < a < d < b; 13 nodes; the user holds
`a ∧ b` once and the four-variable node 13 twice) -/

/-- the roots of the examples: the four-variable function, the complement of `a ∧ b`, TRUE -/
def usedRoots : Roots := .dict [("f", 13), ("g", -4), ("t", 1)]

theorem usedRoots_mem : ∀ u ∈ usedRoots.values, usedM.tbl.Mem u := by
  intro u hu
  have : u = 13 ∨ u = -4 ∨ u = 1 := by simpa [usedRoots, Roots.values] using hu
  rcases this with rfl | rfl | rfl
  · exact usedM_mem13
  · exact mem_neg usedM_mem4
  · exact Or.inl rfl

/-- the model's file -/
def usedFile : PickleFile := (dumpPickle usedM usedRoots).toOption.getD default

theorem usedFile_eq : dumpPickle usedM usedRoots = .ok usedFile := by
  obtain ⟨f, hf⟩ := dumpPickle_total usedM usedM_good.inv usedRoots usedRoots_mem
  unfold usedFile
  rw [hf]; rfl

/-- the same items in the REVERSE order (the names then read d, c, b, a; the ids descend) -/
def usedFileRev : PickleFile :=
  { vars := usedFile.vars.reverse, succ := usedFile.succ.reverse, roots := usedFile.roots }

theorem usedFileRev_equiv : PickleFile.Equiv usedFileRev usedFile :=
  ⟨List.reverse_perm _, List.reverse_perm _, rfl⟩

/-- the default round trip of the used manager into ITSELF and into `BDD()`, the file read in the
reverse order of its items -/
example : (∃ roots' m', loadPickle usedFileRev true usedM = (.ok roots', m') ∧ Inv m' ∧ OrderOK m'.tbl ∧
      RefExact m' usedExt ∧ LoadedAs usedM.tbl usedRoots m'.tbl roots') ∧
    (∃ roots' m', loadPickle usedFileRev true {} = (.ok roots', m') ∧ Inv m' ∧
      (∀ (v : String) (i : Nat), usedM.tbl.vars[v]? = some i → m'.tbl.vars[v]? = some i) ∧
      LoadedAs usedM.tbl usedRoots m'.tbl roots') := by
  constructor
  · obtain ⟨f, hd, H⟩ := C12_pickle_roundtrip_same_manager_total usedM usedM_good.inv usedM_good.order
      usedM_good.ctx usedRoots usedRoots_mem true
    rw [usedFile_eq] at hd; cases hd
    obtain ⟨roots', m', e, I, O, X, _, _, R⟩ := H usedFileRev usedFileRev_equiv
    exact ⟨roots', m', e, I, O, X _ usedM_good.exact, R⟩
  · obtain ⟨f, hd, H⟩ := C12_pickle_roundtrip_levels_perm usedM usedM_good.inv usedM_good.order usedRoots
      usedRoots_mem {} Inv.init OrderOK.empty rfl (levelsCompatible_fresh _)
    rw [usedFile_eq] at hd; cases hd
    obtain ⟨roots', m', e, I, _, _, V, _, R⟩ := H usedFileRev usedFileRev_equiv
    exact ⟨roots', m', e, I, V, R⟩

/-- `levels=False` of the reversed file into ANOTHER used manager (`a < b` only, nodes 2, 3, 4, the
user holds node 4): never refused, the dumped functions by name -/
example : ∃ roots' m', loadPickle usedFileRev false (run (exHistory.take 12) St.init).m = (.ok roots', m') ∧
    Inv m' ∧ OrderOK m'.tbl ∧ RefExact m' (run (exHistory.take 12) St.init).ext ∧
    LoadedAs usedM.tbl usedRoots m'.tbl roots' := by
  have hg : GoodState (run (exHistory.take 12) St.init).m (run (exHistory.take 12) St.init).ext :=
    reachable_inv _ (by decide)
  obtain ⟨f, hd, H⟩ := C12_pickle_roundtrip_any_order_perm usedM usedM_good.inv usedM_good.order usedRoots
    usedRoots_mem _ hg.inv hg.order hg.ctx
  rw [usedFile_eq] at hd; cases hd
  obtain ⟨roots', m', e, I, O, X, _, _, R⟩ := H usedFileRev usedFileRev_equiv
  exact ⟨roots', m', e, I, O, X _ hg.exact, R⟩

/-- what the model computes: the file (names sorted, ids ascending: 8 of the 13 nodes are
reachable), and the orders that result in a fresh manager — the SOURCE's levels with the default
`levels=True` whatever the item order, the ITEM order with `levels=False` -/
example : usedFile.vars = [("a", 1), ("b", 3), ("c", 0), ("d", 2)] ∧
    usedFile.succ.map (·.id) = [1, 3, 4, 8, 9, 10, 11, 12, 13] ∧
    (loadPickle usedFileRev true {}).2.tbl.vars.toList = [("a", 1), ("b", 3), ("c", 0), ("d", 2)] ∧
    (loadPickle usedFile false {}).2.tbl.vars.toList = [("a", 0), ("b", 1), ("c", 2), ("d", 3)] ∧
    (loadPickle usedFileRev false {}).2.tbl.vars.toList = [("a", 3), ("b", 2), ("c", 1), ("d", 0)] := by
  decide +kernel

end DD
