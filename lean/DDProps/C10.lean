/-
  DDProps.C10 — count, pick, pick_iter, support describe exactly the satisfying assignments.

  All statements are over a table `t` that is reduced, ordered and unique (`WFU t`, part of
  the manager invariant `Inv`) and a reference `u` of it (`t.Mem u`).  Variables are levels;
  names enter through `_level_to_var` (`VarsOK`: every level has a name, names are distinct).
-/
import DDProofs.SatProofs
import DDProofs.SmallSupport
import DDProofs.SmallSatExample
namespace DD

/-- a stored node's function depends on the node's own variable -/
theorem C10_node_depends_on_own_level (t : Tbl) (hw : WFU t) (u : Int) (n : Nd)
    (h1 : u.natAbs ≠ 1) (hn : t.succ[u.natAbs]? = some n) : dependsOn t u n.lvl :=
  node_depends_on_own_level hw h1 hn

/-- `is_essential(u, var)`: `False` for an undeclared name; for a declared variable (at level
`i`) it answers, without error, whether the function of `u` depends on it -/
theorem C10_isEssential_spec (t : Tbl) (hw : WFU t) (u : Int) (hm : t.Mem u) (var : String) :
    (t.vars[var]? = none → isEssential t u var = .ok false) ∧
    (∀ i, t.vars[var]? = some i → i < t.nvars →
      ∃ b, isEssential t u var = .ok b ∧ (b = true ↔ dependsOn t u i)) :=
  isEssential_spec' hw u hm var

/-- `support(u, as_levels=True)`: succeeds; strictly ascending (no duplicates); exactly the levels
the function depends on, which are exactly the levels of the nodes reachable from `u` -/
theorem C10_supportLevels_spec (t : Tbl) (hw : WFU t) (u : Int) (hm : t.Mem u) :
    ∃ l, supportLevels t u = .ok l ∧ l.Pairwise (· < ·) ∧ (∀ i, i ∈ l ↔ dependsOn t u i) ∧
      (∀ i, i ∈ l ↔ ∃ v n, Reach t u.natAbs v ∧ t.succ[v]? = some n ∧ n.lvl = i) := by
  obtain ⟨l, e, p, s⟩ := supportLevels_spec' hw u hm
  exact ⟨l, e, p, s, fun i => (s i).trans (dependsOn_iff_reach hw i u hm)⟩

/-- `support(u)`: the names of those levels -/
theorem C10_support_spec (t : Tbl) (hw : WFU t) (hv : VarsOK t) (u : Int) (hm : t.Mem u) :
    ∃ ls, supportLevels t u = .ok ls ∧ (∀ i, i ∈ ls ↔ dependsOn t u i) ∧
      support t u = .ok (ls.map t.nameOf) := by
  obtain ⟨ls, e, _, s, h⟩ := support_spec' hw hv u hm
  exact ⟨ls, e, s, h⟩

/-- `support(u)` by NAME on a state with a good order: succeeds; a name is returned iff it is
a declared variable on which the function depends; every returned name is declared -/
theorem C10_support_names (t : Tbl) (hw : WFU t) (hO : OrderOK t) (u : Int) (hm : t.Mem u) :
    ∃ names, support t u = .ok names ∧
      (∀ s, s ∈ names ↔ ∃ j, t.vars[s]? = some j ∧ dependsOn t u j) ∧
      (∀ s, s ∈ names → t.vars.contains s = true) := by
  obtain ⟨names, h1, h2, -, h4⟩ := support_inSupp hw hO u hm
  exact ⟨names, h1, h4, h2⟩

/-- `is_essential(u, x)` agrees with `x ∈ support(u)`: both calls succeed and the Boolean
answer is `True` exactly when the name is in the returned support (for an undeclared name:
`False`, and the name is not in the support) -/
theorem C10_isEssential_iff_support (t : Tbl) (hw : WFU t) (hO : OrderOK t) (u : Int) (hm : t.Mem u)
    (var : String) :
    ∃ b names, isEssential t u var = .ok b ∧ support t u = .ok names ∧ (b = true ↔ var ∈ names) :=
  isEssential_iff_support hw hO u hm var

/-- the levels of the nodes reachable from `u` (`InSupp`, the support of C03 / C04 / C11 / C13)
are the levels the function depends on -/
theorem C10_inSupp_iff_dependsOn (t : Tbl) (hw : WFU t) (u : Int) (hm : t.Mem u) (i : Nat) :
    InSupp t u i ↔ dependsOn t u i := inSupp_iff_dependsOn hw u hm i

/-- `count(u, n)` for `n ≥ |support|` is the number of assignments over the support satisfying
`u` (`cnt`, which is `((allAsg ls a0).filter (den t u)).length` by `cnt_eq_filter`; the base
assignment `a0` outside the support is irrelevant) times `2^(n − |support|)`;
`count(u)` is that number itself -/
theorem C10_count_spec (t : Tbl) (hw : WFU t) (u : Int) (hm : t.Mem u) :
    ∃ ls, supportLevels t u = .ok ls ∧ (∀ i, i ∈ ls ↔ dependsOn t u i) ∧
      (∀ (n : Nat) (a0 : Asg), ls.length ≤ n →
        count t u (some (n : Int)) =
          .ok (((allAsg ls a0).filter (den t u)).length * 2 ^ (n - ls.length))) ∧
      (∀ a0 : Asg, count t u none = .ok ((allAsg ls a0).filter (den t u)).length) := by
  obtain ⟨ls, e, _, s, h1, h2, _⟩ := count_main hw u hm
  refine ⟨ls, e, s, ?_, ?_⟩
  · intro n a0 hn; rw [h1 n a0 hn, cnt_eq_filter]
  · intro a0; rw [h2 a0, cnt_eq_filter]

/-- `count(u, n)` is refused (`ValueError`) when `n` is smaller than the support -/
theorem C10_count_refuses (t : Tbl) (hw : WFU t) (u : Int) (hm : t.Mem u) :
    ∃ ls, supportLevels t u = .ok ls ∧
      ∀ n : Int, n < ls.length → count t u (some n) = .error .value := by
  obtain ⟨ls, e, _, _, _, _, h3⟩ := count_main hw u hm
  exact ⟨ls, e, h3⟩

/-- the recursion behind `count`: `_sat_len` returns the number of models over the compacted
levels from the node's level on (complement arithmetic, memo on the unsigned node) -/
theorem C10_satLen_core (t : Tbl) (hw : WF t) (ls : List Nat) (hs : ls.Pairwise (· < ·))
    (hb : ∀ x ∈ ls, x < t.nvars) (a0 : Asg) (slack : Nat) (mapLevel : List (Nat × Nat))
    (hmap : MapOK t ls slack mapLevel) (f : Nat) (u : Int) (d : Std.HashMap Nat Nat)
    (hm : t.Mem u) (hf : t.nvars + 1 ≤ f + t.levelOf u)
    (hr : ∀ x n, Reach t u.natAbs x → t.succ[x]? = some n → n.lvl ∈ ls) (hd : MemoOK t ls a0 d) :
    ∃ d', satLenF mapLevel (ls.length + slack) f t u d = .ok (cntFrom t ls a0 u, d') ∧
      MemoOK t ls a0 d' :=
  satLenF_spec hw hs hb a0 hmap f u d hm hf hr hd

/-- `pick_iter(u, care_vars)` (care set `care`, default = support): succeeds; every yielded
assignment (1) makes `u` true however it is completed, (2) mentions every care variable,
(3) is a dictionary (no repeated key), (4) with the default care set mentions exactly the
support; (5) two yielded assignments at different positions give opposite values to a common
variable; (6) every model of `u` is covered, (7) by exactly one of them -/
theorem C10_pickIter_spec (t : Tbl) (hw : WFU t) (hv : VarsOK t) (u : Int) (hm : t.Mem u)
    (care : Option (List String)) :
    ∃ supp L, support t u = .ok supp ∧ pickIter t u care = .ok L ∧
      (∀ m ∈ L, (∀ σ, AgreesN σ m → denN t u σ = true) ∧
        (∀ v ∈ care.getD supp, v ∈ m.map (·.1)) ∧ (m.map (·.1)).Nodup ∧
        (care = none → ∀ v, v ∈ m.map (·.1) ↔ v ∈ supp)) ∧
      L.Pairwise Incompat ∧
      (∀ σ, denN t u σ = true → ∃ m ∈ L, AgreesN σ m ∧ ∀ m' ∈ L, AgreesN σ m' → m' = m) := by
  obtain ⟨supp, L, hs, hL, h1, hpw, hcov⟩ := pickIter_spec' hw hv u hm care
  refine ⟨supp, L, hs, hL, h1, hpw, ?_⟩
  intro σ hσ
  obtain ⟨m, hmL, ha⟩ := hcov σ hσ
  exact ⟨m, hmL, ha, fun m' hm' ha' => pickIter_unique hpw hmL hm' ha ha'⟩

/-- with the default care set the yielded assignments are the models over the support
(previous theorem, clauses 1, 4, 6, 7) and their number is `count(u)` -/
theorem C10_pickIter_default (t : Tbl) (hw : WFU t) (hv : VarsOK t) (u : Int) (hm : t.Mem u) :
    ∃ L n, pickIter t u none = .ok L ∧ count t u none = .ok n ∧ L.length = n :=
  pickIter_length hw hv u hm

/-- `pick(u, care_vars)` = first element of `pick_iter`, `None` when there is none:
it is `None` exactly for the reference `-1` (`false`), otherwise one of the yielded assignments -/
theorem C10_pick_spec (t : Tbl) (hw : WFU t) (hv : VarsOK t) (u : Int) (hm : t.Mem u)
    (care : Option (List String)) :
    ∃ L, pickIter t u care = .ok L ∧ (L.head? = none ↔ u = -1) ∧
      (∀ m, L.head? = some m → m ∈ L) := by
  obtain ⟨L, hL, h⟩ := pickIter_nil_iff hw hv u hm care
  refine ⟨L, hL, ?_, fun m hm' => List.mem_of_head? hm'⟩
  rw [List.head?_eq_none_iff]; exact h

/-! ### non-vacuity: the table of `x ∧ y` (node 3) meets all hypotheses -/

example : WFU exTbl ∧ VarsOK exTbl ∧ exTbl.Mem 3 ∧ exTbl.Mem (-3) :=
  ⟨exTbl_wfu, exTbl_varsOK, exTbl_mem3, exTbl_mem_neg3⟩
example : dependsOn exTbl 3 0 :=
  C10_node_depends_on_own_level exTbl exTbl_wfu 3 ⟨0, -1, 2⟩ (by decide) (by decide)
example := C10_isEssential_spec exTbl exTbl_wfu (-3) exTbl_mem_neg3 "y"
example : isEssential exTbl 3 "y" = .ok true := by rfl
example := C10_supportLevels_spec exTbl exTbl_wfu 3 exTbl_mem3
example : supportLevels exTbl 3 = .ok [0, 1] := by rfl
example := C10_support_spec exTbl exTbl_wfu exTbl_varsOK 3 exTbl_mem3
example : support exTbl 3 = .ok ["x", "y"] := by rfl
example := C10_support_names exTbl exTbl_wfu exTbl_orderOK 3 exTbl_mem3
example := C10_isEssential_iff_support exTbl exTbl_wfu exTbl_orderOK 3 exTbl_mem3 "y"
example := C10_isEssential_iff_support exTbl exTbl_wfu exTbl_orderOK (-3) exTbl_mem_neg3 "undeclared"
example : isEssential exTbl (-3) "undeclared" = .ok false := by rfl
example := (C10_inSupp_iff_dependsOn exTbl exTbl_wfu 3 exTbl_mem3 1).mp
  (InSupp.hi (n := ⟨0, -1, 2⟩) (by decide) (by decide) (InSupp.here (n := ⟨1, -1, 1⟩) (by decide) (by decide)))
example := C10_count_spec exTbl exTbl_wfu (-3) exTbl_mem_neg3
example := C10_count_refuses exTbl exTbl_wfu (-3) exTbl_mem_neg3
example := C10_pickIter_spec exTbl exTbl_wfu exTbl_varsOK (-3) exTbl_mem_neg3 (some ["y", "z"])
example := C10_pickIter_default exTbl exTbl_wfu exTbl_varsOK (-3) exTbl_mem_neg3
example : pickIter exTbl 3 none = .ok [[("y", true), ("x", true)]] := by rfl
example := C10_pick_spec exTbl exTbl_wfu exTbl_varsOK 3 exTbl_mem3 none
/-- `MapOK` is met by the map `count` builds (instance: no support, no slack, constant) -/
example : MapOK exTbl [] 0 [(exTbl.nvars, 0)] := by
  intro l hl
  rcases hl with hl | hl
  · simp at hl
  · subst hl; simp [lvGe]

end DD
