/-
  DDProps.C15 — MDD conversion and MDD operations preserve meaning.

  Property theorems about the model `DD/Mdd.lean` of `dd/mdd.py` (all states, all inputs,
  no bounds).  Integer assignments are functions level ↦ value; "valid" means every
  variable takes one of its `len` values.
-/
import DDProofs.MddProofs
import DDProofs.MddConv
import DDProofs.MddGcReach
import DDProofs.MddFuel
import DDProofs.MddConvFull
import DDProofs.MddTotal
import DDProofs.MddIteTotal
import DDProofs.MddApplyTotal
import DDProofs.MddGcSched
import DDProofs.Reach2
import DDProofs.PredNodesReach
import DDProps.C07
import DDProofs.Inv
namespace DD

/-! ### obligations on the table regenerated from `MDD.apply` -/

/-- every `op in (...)` branch of `MDD.apply` in the current source computes the documented
connective for each of its spellings (all 8 operand valuations); `\A`, `\E` and their
spellings raise `NotImplementedError` -/
theorem C15_applyTable_sound : mddTableSound Gen.mddApplyTable = true := by decide

theorem C15_applyTable_shape : Gen.mddApplyShapeOk = true ∧ Gen.arityShapeOk = true := by decide

/-- every alias of the vocabulary is handled by exactly one branch, in its arity class -/
theorem C15_vocab_complete : vocabComplete Gen.mddApplyTable = true := by decide

/-- on the propositional connectives `MDD.apply` and `BDD.apply` use the same templates -/
theorem C15_templates_as_bdd :
    (Gen.allOps.all fun a =>
      docConn a == some .forall_ || docConn a == some .exists_ ||
      (findRow a Gen.mddApplyTable).map (·.templ) == (findRow a Gen.applyTable).map (·.templ)) = true := by
  decide

/-! ### `find_or_add`, `ite`, `apply` -/

/-- `find_or_add(i, *nodes)` with all successors below level `i` (the documented precondition):
the result denotes "the successor selected by the value of variable `i`"; the invariant is
kept (ordered, first successor regular, reduced, unique, `_pred` in sync, allocator sound,
computed table sound) and no old reference changes its meaning -/
theorem C15_findOrAdd_spec (m : MddMgr) (h : MInv m) (i : Int) (nodes : List Int)
    (hlt : ∀ k ∈ nodes, i.toNat < m.tbl.levelOf k)
    (r : Int) (m' : MddMgr) (hr : mFindOrAdd i nodes m = (.ok r, m')) :
    MInv m' ∧ MExt m.tbl m'.tbl ∧ m'.tbl.Mem r ∧
    (∀ a k, nodes[a i.toNat]? = some k → denM m'.tbl r a = denM m'.tbl k a) ∧
    (∀ u, m.tbl.Mem u → ∀ a, denM m'.tbl u a = denM m.tbl u a) := by
  unfold mFindOrAdd at hr
  split at hr
  · simp at hr
  · have F := mFindOrAddCore_spec m h i.toNat nodes hlt r m' hr
    exact ⟨F.inv, F.ext, F.mem, F.den, fun u hu a => denM_ext F.ext h.wf.toMWF u a hu⟩

/-- `find_or_add(i, *nodes)` RETURNS NORMALLY when its documented requirements hold — `i` a level
of the manager, as many successors as the variable has values, all of them nodes of the manager
strictly below level `i` —: neither its argument checks nor the allocator assertions can fail.
The only other outcome of the MODEL is `MODEL-SCHEDULE-MISMATCH` (recorded `_free.pop()` that does
not fit). -/
theorem C15_findOrAdd_total (m : MddMgr) (h : MInv m) (i : Int) (nodes : List Int)
    (hi0 : 0 ≤ i) (hi : i.toNat < m.tbl.nvars) (hlen : nodes.length = m.tbl.arity i.toNat)
    (hne : nodes ≠ []) (hmem : ∀ k ∈ nodes, m.tbl.Mem k)
    (hlt : ∀ k ∈ nodes, i.toNat < m.tbl.levelOf k) :
    (∃ r m', mFindOrAdd i nodes m = (.ok r, m') ∧
      MInv m' ∧ MExt m.tbl m'.tbl ∧ m'.tbl.Mem r ∧
      (∀ a k, nodes[a i.toNat]? = some k → denM m'.tbl r a = denM m'.tbl k a) ∧
      (∀ u, m.tbl.Mem u → ∀ a, denM m'.tbl u a = denM m.tbl u a)) ∨
    (∃ m', mFindOrAdd i nodes m = (.error .sched, m') ∧ m.sched ≠ []) := by
  have T := mFindOrAddCore_tot m h i.toNat nodes hi hlen hne hmem
  have heq : mFindOrAdd i nodes m = mFindOrAddCore i.toNat nodes m := by
    unfold mFindOrAdd
    rw [if_neg (by omega)]
  cases hres : mFindOrAddCore i.toNat nodes m with
  | mk r m' =>
    rw [hres] at T
    cases r with
    | error e =>
      obtain ⟨he, hsn⟩ := T.err
      subst he
      exact Or.inr ⟨m', by rw [heq, hres], hsn⟩
    | ok r =>
      have hr : mFindOrAdd i nodes m = (.ok r, m') := by rw [heq, hres]
      exact Or.inl ⟨r, m', hr, C15_findOrAdd_spec m h i nodes hlt r m' hr⟩

/-- (conditional form, kept: whenever the call returns `w`, …) -/
theorem C15_ite_ok (m : MddMgr) (h : MInv m) (g u v : Int)
    (mg : m.tbl.Mem g) (mu : m.tbl.Mem u) (mv : m.tbl.Mem v)
    (w : Int) (m' : MddMgr) (hr : mIte g u v m = (.ok w, m')) :
    MInv m' ∧ MExt m.tbl m'.tbl ∧ m'.tbl.Mem w ∧
    (∀ a, MValid m.tbl a →
      denM m'.tbl w a = if denM m.tbl g a then denM m.tbl u a else denM m.tbl v a) ∧
    (∀ x, m.tbl.Mem x → ∀ a, denM m'.tbl x a = denM m.tbl x a) := by
  have I := mIte_spec m h g u v mg mu mv w m' hr
  exact ⟨I.inv, I.ext, I.mem, I.den, fun x hx a => denM_ext I.ext h.wf.toMWF x a hx⟩


/-- `ite(g, u, v)` on nodes of a manager satisfying the invariant RETURNS NORMALLY — no assertion,
no `KeyError`, no failed argument check of the inner `find_or_add` can occur, for every content of
the computed table and every state of the free list —, and the result is the pointwise
if-then-else on every valid integer assignment; old references keep their meaning.  The only other
outcome of the MODEL is its own report `MODEL-SCHEDULE-MISMATCH`, possible only when a recorded
`_free.pop()` result does not fit (not a behaviour of the code). -/
theorem C15_ite_spec (m : MddMgr) (h : MInv m) (g u v : Int)
    (mg : m.tbl.Mem g) (mu : m.tbl.Mem u) (mv : m.tbl.Mem v) :
    (∃ w m', mIte g u v m = (.ok w, m') ∧
      MInv m' ∧ MExt m.tbl m'.tbl ∧ m'.tbl.Mem w ∧
      (∀ a, MValid m.tbl a →
        denM m'.tbl w a = if denM m.tbl g a then denM m.tbl u a else denM m.tbl v a) ∧
      (∀ x, m.tbl.Mem x → ∀ a, denM m'.tbl x a = denM m.tbl x a)) ∨
    (∃ m', mIte g u v m = (.error .sched, m') ∧ m.sched ≠ []) := by
  rcases mIte_okOrSched m h g u v mg mu mv with ⟨w, m', hr, I⟩ | hbad
  · exact Or.inl ⟨w, m', hr, I.inv, I.ext, I.mem, I.den,
      fun x hx a => denM_ext I.ext h.wf.toMWF x a hx⟩
  · exact Or.inr hbad

/-- with no recorded schedule `ite` is total -/
theorem C15_ite_total (m : MddMgr) (h : MInv m) (hs : m.sched = []) (g u v : Int)
    (mg : m.tbl.Mem g) (mu : m.tbl.Mem u) (mv : m.tbl.Mem v) :
    ∃ w m', mIte g u v m = (.ok w, m') ∧
      MInv m' ∧ MExt m.tbl m'.tbl ∧ m'.tbl.Mem w ∧ m'.sched = [] ∧
      (∀ a, MValid m.tbl a →
        denM m'.tbl w a = if denM m.tbl g a then denM m.tbl u a else denM m.tbl v a) ∧
      (∀ x, m.tbl.Mem x → ∀ a, denM m'.tbl x a = denM m.tbl x a) := by
  obtain ⟨w, m', hr, I, hs'⟩ := mIte_total m h hs g u v mg mu mv
  exact ⟨w, m', hr, I.inv, I.ext, I.mem, hs', I.den, fun x hx a => denM_ext I.ext h.wf.toMWF x a hx⟩

/-- (conditional form, kept) -/
theorem C15_apply_ok (m : MddMgr) (h : MInv m) (op : String) (c : Conn) (hc : docConn op = some c)
    (u : Int) (v w : Option Int) (r : Int) (m' : MddMgr)
    (hr : mApply op u v w m = (.ok r, m')) :
    MInv m' ∧ MExt m.tbl m'.tbl ∧ m'.tbl.Mem r ∧
    ∀ a, MValid m.tbl a →
      denM m'.tbl r a = c.eval (denM m.tbl u a) (denO m.tbl v a) (denO m.tbl w a) := by
  have A := mApply_spec m h op c hc u v w r m' hr
  exact ⟨A.inv, A.ext, A.mem, A.den⟩

/-- `apply(op, u, v, w)` RETURNS NORMALLY for every spelling `op` of a propositional connective `c`
of the vocabulary (every alias of the regenerated table that is implemented: `not`, the binary
connectives, `ite`), operands that are nodes of the manager, and exactly the operands the
connective takes (`ArgsShape`: `v`/`w` given iff the arity asks for them); the result denotes `c`
applied pointwise.  The only other outcome of the MODEL is `MODEL-SCHEDULE-MISMATCH` (recorded
allocator schedule that does not fit). -/
theorem C15_apply_spec (m : MddMgr) (h : MInv m) (op : String) (c : Conn) (hc : docConn op = some c)
    (hprop : c ≠ .forall_ ∧ c ≠ .exists_)
    (u : Int) (v w : Option Int) (hsh : ArgsShape c v w) (mu : m.tbl.Mem u)
    (mv : ∀ x, v = some x → m.tbl.Mem x) (mw : ∀ x, w = some x → m.tbl.Mem x) :
    (∃ r m', mApply op u v w m = (.ok r, m') ∧
      MInv m' ∧ MExt m.tbl m'.tbl ∧ m'.tbl.Mem r ∧
      ∀ a, MValid m.tbl a →
        denM m'.tbl r a = c.eval (denM m.tbl u a) (denO m.tbl v a) (denO m.tbl w a)) ∨
    (∃ m', mApply op u v w m = (.error .sched, m') ∧ m.sched ≠ []) := by
  rcases mApply_okOrSched m h op c hc hprop u v w hsh mu mv mw with ⟨r, m', hr, A⟩ | hbad
  · exact Or.inl ⟨r, m', hr, A.inv, A.ext, A.mem, A.den⟩
  · exact Or.inr hbad

/-- with no recorded schedule `apply` is total on the implemented connectives -/
theorem C15_apply_total (m : MddMgr) (h : MInv m) (hs : m.sched = []) (op : String) (c : Conn)
    (hc : docConn op = some c) (hprop : c ≠ .forall_ ∧ c ≠ .exists_)
    (u : Int) (v w : Option Int) (hsh : ArgsShape c v w) (mu : m.tbl.Mem u)
    (mv : ∀ x, v = some x → m.tbl.Mem x) (mw : ∀ x, w = some x → m.tbl.Mem x) :
    ∃ r m', mApply op u v w m = (.ok r, m') ∧
      MInv m' ∧ MExt m.tbl m'.tbl ∧ m'.tbl.Mem r ∧
      ∀ a, MValid m.tbl a →
        denM m'.tbl r a = c.eval (denM m.tbl u a) (denO m.tbl v a) (denO m.tbl w a) := by
  obtain ⟨r, m', hr, A⟩ := mApply_total m h hs op c hc hprop u v w hsh mu mv mw
  exact ⟨r, m', hr, A.inv, A.ext, A.mem, A.den⟩

/-- the quantifier spellings never succeed and leave the manager untouched -/
theorem C15_apply_quantifier (m : MddMgr) (op : String) (c : Conn) (hc : docConn op = some c)
    (hq : c = .forall_ ∨ c = .exists_) (u : Int) (v w : Option Int) :
    ∃ e, mApply op u v w m = (.error e, m) := by
  unfold mApply
  split
  · exact ⟨_, rfl⟩
  · split
    · exact ⟨_, rfl⟩
    · split
      · exact ⟨_, rfl⟩
      · split
        · exact ⟨_, rfl⟩
        · split
          · exact ⟨_, rfl⟩
          · next row hrow =>
            have hs := mddRow_sound_of_find hrow
            unfold mddRowSound at hs
            rw [hc] at hs
            split
            · next ht => rw [ht] at hs; rcases hq with rfl | rfl <;> simp at hs
            · next ht => rw [ht] at hs; rcases hq with rfl | rfl <;> simp at hs
            · exact ⟨_, rfl⟩
            · split <;> exact ⟨_, rfl⟩
            · exact ⟨_, rfl⟩

/-! ### canonicity -/

/-- equal functions ⇔ equal references (complemented edges included), in every manager that
satisfies the invariant, provided every integer variable has at least one value -/
theorem C15_canonical (m : MddMgr) (h : MInv m) (hpos : ∀ i, i < m.tbl.nvars → 0 < m.tbl.arity i)
    (u v : Int) (hu : m.tbl.Mem u) (hv : m.tbl.Mem v) :
    (∀ a, MValid m.tbl a → denM m.tbl u a = denM m.tbl v a) ↔ u = v :=
  mcanonical m.tbl h.wf hpos u v hu hv

/-- the stored diagram is ordered, has as many successors as the variable has values, the first
successor regular, not all successors equal, and no duplicate tuples -/
theorem C15_reduced_ordered (m : MddMgr) (h : MInv m) (u : Nat) (n : MNd) (hn : m.tbl.node? u = some n) :
    n.kids.length = m.tbl.arity n.lvl ∧ (∀ k ∈ n.kids, m.tbl.Mem k ∧ n.lvl < m.tbl.levelOf k) ∧
    (∃ k0 rest, n.kids = k0 :: rest ∧ 0 < k0) ∧ (∃ k ∈ n.kids, ∃ k' ∈ n.kids, k ≠ k') ∧
    (∀ u', m.tbl.node? u' = some n → u' = u) :=
  ⟨h.wf.kids_len _ _ hn, fun k hk => ⟨h.wf.kids_mem _ _ hn k hk, h.wf.kids_lt _ _ hn k hk⟩,
   h.wf.head_pos _ _ hn, h.wf.not_const _ _ hn, fun u' hn' => h.wf.unique _ _ _ hn' hn⟩

/-! ### reference counters and collection -/

/-- `incref` / `decref` touch `_ref` only -/
theorem C15_incref_decref (m : MddMgr) (h : MInv m) (u : Int) (r : Except Err Unit) (m' : MddMgr)
    (hi : mIncref u m = (r, m') ∨ mDecref u m = (r, m')) : MInv m' ∧ m'.tbl = m.tbl := by
  rcases hi with hi | hi
  · exact mIncref_inv u m h r m' hi
  · exact mDecref_inv u m h r m' hi

/-- `collect_garbage(roots)`: with exact counts (`_ref[u]` = in-degree + references the user
holds, `ext`), the collection keeps the invariant and the counts exact, only removes nodes
(never creates or changes one), keeps every node the user holds, leaves — when called
without `roots` — only nodes with a positive count, keeps the meaning of every surviving
reference, and empties the computed table -/
theorem C15_gc_ok (m : MddMgr) (ext : Nat → Nat) (h : MInv m) (hx : MRefExact m ext)
    (roots : Option (List Int)) (m' : MddMgr) (hr : mCollectGarbage roots m = (.ok (), m')) :
    GcOK m ext roots.isNone m' :=
  mddGc_spec m ext h hx roots m' hr

/-- `collect_garbage(roots)` RETURNS NORMALLY and does all of the above, when the counts are exact
and the list it starts from (`roots`, references of EITHER sign; `self._ref` when `roots` is
`None`) consists of nodes of the manager: none of the four assertions of the loop, the
`_release` assertions, the `pop`s of `_succ` / `_pred` / `_ref` can fail, and the model's iteration
bound suffices.  (For `roots = None` the hypothesis says the keys of `_ref` are nodes — true in
every reachable state, `C15_gc_exact`.)  No allocator schedule is involved. -/
theorem C15_gc_spec (m : MddMgr) (ext : Nat → Nat) (h : MInv m) (hx : MRefExact m ext)
    (roots : Option (List Int)) (hro : ∀ r, r ∈ gcRootList m roots → m.tbl.Mem r) :
    ∃ m', mCollectGarbage roots m = (.ok (), m') ∧ GcOK m ext roots.isNone m' :=
  mCollectGarbage_total m ext h hx roots hro

/-! ### `bdd_to_mdd` -/

/-- C15, conversion part, at full strength: for a BDD manager that satisfies the reordering
invariant `ReorderInv ext mb` (manager invariant, name maps inverse bijections, exact counts
w.r.t. the ledger `ext` of the references the user holds, every root held) and a proper `dvars`
(`DvarsOK`: integer variables at the levels `0..n-1`, bit lists partitioning the declared BDD
variables), whenever `bdd_to_mdd` returns `(mdd, umap)` — for any recorded iteration orders of
swaps and of `bdd.levels()` — `B2MOK` holds:
* the MDD manager satisfies its invariant and has the variables `dvars`;
* for every `umap` entry `u ↦ r` and every reference `s` to node `u` (complemented or not),
  `flip(r, s)` takes on every valid integer assignment `α` the value of `s` on the encoded bits
  (`bitsOfInts dvars α`: bit `k` of `α[var]` for the `k`-th listed bit — first listed bit least
  significant);
* every BDD node the user holds, and the terminal, is a key of `umap`;
* the BDD manager keeps its invariant, the bits are in zones, and every held reference still is a
  node denoting the same function of the variable names. -/
def bddToMdd_statement : Prop :=
  ∀ (ext : Nat → Nat) (mb : Mgr) (dvars : List MVar) (lev : Option (List Nat)) (out : B2MOut) (mb' : Mgr),
    ReorderInv ext mb → DvarsOK mb.tbl dvars →
    bddToMdd dvars lev mb = (.ok out, mb') → B2MOK ext dvars mb out mb'

/-- C15, conversion part: the full statement, for ANY setting of dynamic reordering.  Built from
`collectGarbage_spec` (C06), `sortToOrder_exact` (C07: `reorder(bdd, order)` reaches exactly the
requested order and keeps every held reference's function of the names), the path-following
behaviour of `cofactor` when every level of a zone is assigned (`cofactor_path`: for any
`_last_len` / reordering context it creates nothing, requests no reordering and leaves the
manager as it was — so the zones cannot be disturbed mid-loop), canonicity ("a node depends on its
own level": the cofactor w.r.t. all bits of a zone lies in a later zone), and the MDD side
(`find_or_add` specification). -/
theorem C15_bddToMdd : bddToMdd_statement :=
  fun ext mb dvars lev out mb' h hd hr => bddToMdd_spec ext mb h dvars hd lev out mb' hr

/-- (name kept from the previous round) -/
theorem C15_bddToMdd_partial_off (ext : Nat → Nat) (mb : Mgr) (h : ReorderInv ext mb)
    (dvars : List MVar) (hd : DvarsOK mb.tbl dvars)
    (lev : Option (List Nat)) (out : B2MOut) (mb' : Mgr)
    (hr : bddToMdd dvars lev mb = (.ok out, mb')) : B2MOK ext dvars mb out mb' :=
  bddToMdd_spec ext mb h dvars hd lev out mb' hr

/-- the same, spelled out for one held reference `s` (either sign): it has an image, and
`flip(umap[|s|], s)` evaluates on every valid integer assignment to what the BDD reference — as
it was BEFORE the call, by variable names — evaluates to on the encoded bits -/
theorem C15_bddToMdd_held (ext : Nat → Nat) (mb : Mgr) (h : ReorderInv ext mb)
    (dvars : List MVar) (hd : DvarsOK mb.tbl dvars)
    (lev : Option (List Nat)) (out : B2MOut) (mb' : Mgr)
    (hr : bddToMdd dvars lev mb = (.ok out, mb')) (s : Int) (hs : 0 < ext s.natAbs) :
    ∃ r, out.umap.lookup s.natAbs = some r ∧ out.mdd.tbl.Mem r ∧
      ∀ α, MValid out.mdd.tbl α →
        denM out.mdd.tbl (flip r s) α = denN mb.tbl s (bitsOfInts dvars α) := by
  have B := bddToMdd_spec ext mb h dvars hd lev out mb' hr
  obtain ⟨r, hr'⟩ := Option.isSome_iff_exists.mp (B.mapped.2 s.natAbs hs)
  obtain ⟨hmu, hmr, hden⟩ := B.umap s.natAbs r hr'
  refine ⟨r, hr', hmr, ?_⟩
  intro α hα
  rw [hden s rfl α hα]
  -- the BDD function is intact
  obtain ⟨hm', hsame⟩ := B.held s.natAbs hs
  have hmem0 : mb.tbl.Mem ((s.natAbs : Nat) : Int) := h.held_mem hs
  have hW := h.inv.wf.toWF
  have hW' := B.bdd.wf.toWF
  by_cases hneg : s < 0
  · have hsu : s = -((s.natAbs : Nat) : Int) := by omega
    rw [hsu]
    unfold denN
    rw [den_neg mb'.tbl hW' _ _ hm', den_neg mb.tbl hW _ _ hmem0]
    have := hsame (bitsOfInts dvars α)
    unfold denN at this
    rw [this]
  · have hsu : s = ((s.natAbs : Nat) : Int) := by omega
    rw [hsu]
    exact hsame _

/-! #### `bdd_to_mdd` returns normally -/

/-- C15, conversion, TOTALITY: for a manager satisfying the reordering invariant whose `_pred` keys
are triples (`KeysShaped` — what is lost by modelling tuples as lists; true of every manager the
model can build) and a complete description `DvarsFull` of the integer variables (levels
`0..n-1`, bit lists partitioning the declared variables, distinct names, at least one bit per
variable — the code reads `bits[0]` —, `len = 2 ** len(bitnames)` — the code's `find_or_add`
checks it), for ANY setting of dynamic reordering and ANY number of variables, with the default
iteration orders: `bdd_to_mdd(bdd, dvars)` returns normally and `B2MOK` holds.  None of the
assertions, dictionary lookups, `min()` of an empty set, `bits[0]`, `assert_consistent()`,
`cofactor`, `umap[...]`, `find_or_add` argument checks can fail. -/
theorem C15_bddToMdd_total (ext : Nat → Nat) (mb : Mgr) (h : ReorderInv ext mb)
    (hks : KeysShaped mb) (hs : mb.sched = []) (dvars : List MVar) (hd : DvarsFull mb.tbl dvars) :
    ∃ out mb', bddToMdd dvars none mb = (.ok out, mb') ∧ B2MOK ext dvars mb out mb' ∧
      KeysShaped mb' ∧ mb'.sched = [] :=
  bddToMdd_total ext mb h hks hs dvars hd

/-- the same for every recorded schedule of swaps and of `bdd.levels()`: the call returns normally
with `B2MOK`; the only alternative is the model's own report `MODEL-SCHEDULE-MISMATCH` (a recorded
order that is not a permutation of the level sets — not a behaviour of the code) -/
theorem C15_bddToMdd_anySchedule (ext : Nat → Nat) (mb : Mgr) (h : ReorderInv ext mb)
    (hks : KeysShaped mb) (dvars : List MVar) (hd : DvarsFull mb.tbl dvars)
    (lev : Option (List Nat)) :
    OkOrSched (fun out mb' => B2MOK ext dvars mb out mb' ∧ KeysShaped mb') (bddToMdd dvars lev mb) :=
  bddToMdd_okOrSched ext mb h hks dvars hd lev

/-- total form of `C15_bddToMdd_held`: the call returns, and every held reference `s` (either sign)
has an image with `flip(umap[|s|], s)` = the function `s` denoted before the call, on the bits
encoded by any valid integer assignment -/
theorem C15_bddToMdd_held_total (ext : Nat → Nat) (mb : Mgr) (h : ReorderInv ext mb)
    (hks : KeysShaped mb) (hs : mb.sched = []) (dvars : List MVar) (hd : DvarsFull mb.tbl dvars) :
    ∃ out mb', bddToMdd dvars none mb = (.ok out, mb') ∧ MInv out.mdd ∧ Inv mb' ∧
      ∀ (s : Int), 0 < ext s.natAbs →
        ∃ r, out.umap.lookup s.natAbs = some r ∧ out.mdd.tbl.Mem r ∧
          ∀ α, MValid out.mdd.tbl α →
            denM out.mdd.tbl (flip r s) α = denN mb.tbl s (bitsOfInts dvars α) := by
  obtain ⟨out, mb', hr, B, _, _⟩ := bddToMdd_total ext mb h hks hs dvars hd
  exact ⟨out, mb', hr, B.mdd, B.bdd, fun s hsx =>
    C15_bddToMdd_held ext mb h dvars hd.toDvarsOK none out mb' hr s hsx⟩

/-- the total forms of `ite` / `apply` apply to a converted MDD: `B2MOK` gives the invariant and
`out.mdd.sched = []` -/
theorem C15_converted_ite_total (ext : Nat → Nat) (dvars : List MVar) (mb : Mgr) (out : B2MOut)
    (mb' : Mgr) (B : B2MOK ext dvars mb out mb') (g u v : Int)
    (mg : out.mdd.tbl.Mem g) (mu : out.mdd.tbl.Mem u) (mv : out.mdd.tbl.Mem v) :
    ∃ w m', mIte g u v out.mdd = (.ok w, m') ∧ MReach dvars m' (fun _ => 0) ∧ m'.tbl.Mem w ∧
      (∀ a, MValid out.mdd.tbl a → denM m'.tbl w a =
        if denM out.mdd.tbl g a then denM out.mdd.tbl u a else denM out.mdd.tbl v a) := by
  obtain ⟨w, m', hr, _, _, hw, _, hden, _⟩ := C15_ite_total out.mdd B.mdd B.sched g u v mg mu mv
  exact ⟨w, m', hr, MReach.ite g u v w m' B.reach hr, hw, hden⟩

/-- C15, conversion, for every BDD manager REACHABLE by a guarded history of user operations
(`reachable_inv`): the hypotheses `ReorderInv`, `KeysShaped` (`reachable_predShape`) and
"no schedule left" of the totality theorems hold, so for a complete description `dvars` of the
integer variables `bdd_to_mdd` returns normally and is correct -/
theorem C15_bddToMdd_reachable (ops : List UOp) (hg : OpsGuarded ops St.init) (dvars : List MVar)
    (hd : DvarsFull (run ops St.init).m.tbl dvars) :
    ∃ out mb', bddToMdd dvars none (run ops St.init).m = (.ok out, mb') ∧
      B2MOK (run ops St.init).ext dvars (run ops St.init).m out mb' ∧
      KeysShaped mb' ∧ mb'.sched = [] := by
  have good : Good2 (run ops St.init).m (run ops St.init).ext := by
    have := reachable2_inv (ops.map .base) ((ops2Guarded_base ops St.init).mpr hg)
    rw [run2_base] at this
    exact this
  have hs : (run ops St.init).m.sched = [] := good.sched
  have rinv : ReorderInv (run ops St.init).ext (run ops St.init).m := by
    have := good.reorderInv []
    have e : ({ (run ops St.init).m with sched := [] } : Mgr) = (run ops St.init).m := by
      cases hmb : (run ops St.init).m; simp_all
    rw [e] at this; exact this
  have hks : KeysShaped (run ops St.init).m := by
    intro k u hku
    obtain ⟨n, hn⟩ := reachable_predShape ops k u hku
    exact ⟨n, hn.symm⟩
  exact bddToMdd_total _ _ rinv hks hs dvars hd

/-- a held BDD reference of either sign denotes the same function in a manager that keeps the
held nodes' functions -/
theorem denN_held_signed (ext : Nat → Nat) (mb mb' : Mgr) (h : ReorderInv ext mb) (hI' : Inv mb')
    (s : Int) (hs : 0 < ext s.natAbs)
    (hheld : mb'.tbl.Mem ((s.natAbs : Nat) : Int) ∧
      ∀ a, denN mb'.tbl ((s.natAbs : Nat) : Int) a = denN mb.tbl ((s.natAbs : Nat) : Int) a) :
    ∀ a, denN mb'.tbl s a = denN mb.tbl s a := by
  intro a
  obtain ⟨hm', hsame⟩ := hheld
  have hmem0 : mb.tbl.Mem ((s.natAbs : Nat) : Int) := h.held_mem hs
  have hW := h.inv.wf.toWF
  have hW' := hI'.wf.toWF
  by_cases hneg : s < 0
  · have hsu : s = -((s.natAbs : Nat) : Int) := by omega
    rw [hsu]
    unfold denN
    rw [den_neg mb'.tbl hW' _ _ hm', den_neg mb.tbl hW _ _ hmem0]
    have := hsame a
    unfold denN at this
    rw [this]
  · have hsu : s = ((s.natAbs : Nat) : Int) := by omega
    rw [hsu]
    exact hsame _

/-- C15, the conversion composes with the other operations.  Convert; take the image `r` of a held
BDD reference `s`; `incref(r)`; `collect_garbage()`: every step RETURNS NORMALLY, the MDD manager
is a reachable state again (so every theorem of this file applies to it), `flip(r, s)` is still a
node and still denotes — on every valid integer assignment — the function `s` denoted in the BDD
before the conversion, and exactly the nodes reachable from `r` remain.  And the BDD manager left
by the conversion satisfies every hypothesis again: a SECOND conversion returns normally and maps
`s` to a reference with the same meaning. -/
theorem C15_convert_incref_collect (ext : Nat → Nat) (mb : Mgr) (h : ReorderInv ext mb)
    (hks : KeysShaped mb) (hs : mb.sched = []) (dvars : List MVar) (hd : DvarsFull mb.tbl dvars)
    (s : Int) (hheld : 0 < ext s.natAbs) :
    ∃ out mb' r m1 m2,
      bddToMdd dvars none mb = (.ok out, mb') ∧ out.umap.lookup s.natAbs = some r ∧
      mIncref r out.mdd = (.ok (), m1) ∧ mCollectGarbage none m1 = (.ok (), m2) ∧
      MReach dvars m2 (mExtInc (fun _ => 0) r) ∧
      m2.tbl.Mem (flip r s) ∧
      (∀ α, MValid m2.tbl α →
        denM m2.tbl (flip r s) α = denN mb.tbl s (bitsOfInts dvars α)) ∧
      (∀ x n, out.mdd.tbl.node? x = some n →
        (m2.tbl.node? x = some n ↔ HeldReach out.mdd.tbl (mExtInc (fun _ => 0) r) x)) ∧
      ∃ out2 mb'' r2, bddToMdd dvars none mb' = (.ok out2, mb'') ∧
        out2.umap.lookup s.natAbs = some r2 ∧
        ∀ α, MValid out2.mdd.tbl α →
          denM out2.mdd.tbl (flip r2 s) α = denN mb.tbl s (bitsOfInts dvars α) := by
  obtain ⟨out, mb', hr, B, hks', hs'⟩ := bddToMdd_total ext mb h hks hs dvars hd
  obtain ⟨r, hlook, hmr, hden⟩ :=
    C15_bddToMdd_held ext mb h dvars hd.toDvarsOK none out mb' hr s hheld
  have hrc := (natmap_contains_iff out.mdd.ref r.natAbs).mp (B.mdd.refMem hmr)
  obtain ⟨c, hc⟩ := Option.isSome_iff_exists.mp hrc
  have hinc : mIncref r out.mdd =
      (.ok (), { out.mdd with ref := out.mdd.ref.insert r.natAbs (c + 1) }) := by
    unfold mIncref; rw [hc]
  have R1 := MReach.incref r _ B.reach hmr hinc
  obtain ⟨hi1, hx1, _⟩ := R1.inv
  obtain ⟨m2, hgc, G⟩ := mCollectGarbage_total _ _ hi1 hx1 none
    (gcRootList_mem _ R1.refKeys none (fun rs hrs => by cases hrs))
  have R2 := MReach.gc none m2 R1 hgc
  have hexact := fun x n hn => gc_exactly_reachable _ _ hi1 hx1 m2 hgc x n hn
  have hmr2 : m2.tbl.Mem r := by
    rcases hmr with h1 | h1
    · exact Or.inl h1
    · obtain ⟨n, hn⟩ := Option.isSome_iff_exists.mp h1
      right
      have := (hexact r.natAbs n hn).mpr (HeldReach.held r.natAbs n hn (by simp [mExtInc]))
      rw [this]; rfl
  have hmf : m2.tbl.Mem (flip r s) := by
    unfold flip; split
    · exact MTbl.mem_neg hmr2
    · exact hmr2
  obtain ⟨out2, mb'', hr2, B2, _, _⟩ :=
    bddToMdd_total ext mb' B.reorder hks' hs' dvars (hd.transfer B.names)
  obtain ⟨r2, hlook2, _, hden2⟩ := C15_bddToMdd_held ext mb' B.reorder dvars
    (hd.transfer B.names).toDvarsOK none out2 mb'' hr2 s hheld
  refine ⟨out, mb', r, _, m2, hr, hlook, hinc, hgc, R2, hmf, ?_, hexact, out2, mb'', r2, hr2, hlook2, ?_⟩
  · intro α hα
    rw [G.den (flip r s) hmf α]
    exact hden α ((G.sub.valid α).mp hα)
  · intro α hα
    rw [hden2 α hα]
    exact denN_held_signed ext mb mb' h B.bdd s hheld (B.held s.natAbs hheld) _

/-- the hypotheses of the totality theorems are satisfiable by a non-trivial manager (the example
manager of C06/C07, held node 4 = `a ∧ b`, one integer variable over the bits `b`, `a` in an
order that forces a reordering): hence `bdd_to_mdd` provably returns on it, with a correct image of
the held node -/
example : ∃ out mb', bddToMdd [⟨"x", 0, 4, ["b", "a"]⟩] none exM = (.ok out, mb') ∧
    ∃ r, out.umap.lookup 4 = some r ∧ ∀ α, MValid out.mdd.tbl α →
      denM out.mdd.tbl r α = denN exM.tbl 4 (bitsOfInts [⟨"x", 0, 4, ["b", "a"]⟩] α) := by
  have hk : exM.tbl.vars.keys = ["a", "b"] := by decide
  have hd : DvarsFull exM.tbl [⟨"x", 0, 4, ["b", "a"]⟩] := by
    refine ⟨⟨List.Perm.refl _, ?_⟩, by decide, by decide, by decide⟩
    rw [hk]; exact List.Perm.swap _ _ _
  have hks : KeysShaped exM := by
    intro k u hku
    have hmem : k ∈ exM.pred.keys := by
      rw [Std.TreeMap.mem_keys, Std.TreeMap.mem_iff_isSome_getElem?, hku]; rfl
    have hkeys : exM.pred.keys = [[0, -1, 1], [0, -1, 3], [1, -1, 1]] := by decide
    rw [hkeys] at hmem
    simp only [List.mem_cons, List.not_mem_nil, or_false] at hmem
    rcases hmem with rfl | rfl | rfl
    · exact ⟨⟨0, -1, 1⟩, rfl⟩
    · exact ⟨⟨0, -1, 3⟩, rfl⟩
    · exact ⟨⟨1, -1, 1⟩, rfl⟩
  obtain ⟨out, mb', hr, _, _, hall⟩ :=
    C15_bddToMdd_held_total exExt exM exM_reorderInv hks (by decide) _ hd
  obtain ⟨r, h1, _, h3⟩ := hall 4 (by decide)
  exact ⟨out, mb', hr, r, h1, fun α hα => by have := h3 α hα; simpa [flip] using this⟩

/-- the hypotheses of the conversion theorems are satisfiable by a non-trivial manager: the
example manager of C06/C07 (variables `a`, `b`; nodes 2 = `a`, 3 = `b`, 4 = `a ∧ b` held) with
one integer variable `x` over the bits `b` (least significant) and `a` — the requested zone
order differs from the current variable order, so the call reorders.  (The run itself cannot be
evaluated in the kernel — the memo of `cofactorF` is a `HashMap` —; successful runs are what the
correspondence check executes.) -/
example : ReorderInv exExt exM ∧ exM.lastLen = none ∧ 0 < exExt 4 ∧
    DvarsOK exM.tbl [⟨"x", 0, 4, ["b", "a"]⟩] := by
  refine ⟨exM_reorderInv, by decide, by decide, ⟨List.Perm.refl _, ?_⟩⟩
  have hk : exM.tbl.vars.keys = ["a", "b"] := by decide
  rw [hk]
  exact List.Perm.swap _ _ _

/-- C15, conversion part, the half that is proved: the main loop of `bdd_to_mdd`
(`b2mLoop`: per kept BDD node, `cofactor` per integer value, edges mapped through `umap`,
`mdd.find_or_add`) produces an MDD manager satisfying its invariant and a `umap` all of whose
entries denote the intended function `S u` — for ANY intended semantics `S` of BDD references
as functions of integer assignments — provided the BDD side delivers, at every iteration,
`BddSideOK`: the `i`-th successor is the `umap` image of a reference in a later zone that
agrees with `u` where the integer variable equals `i`.  (Discharging that hypothesis for
`S u α = denByName mb u (bitsOfInts dvars α)` needs the specifications of `reorder` and
`cofactor` on the BDD side: C07/C04.) -/
theorem C15_bddToMdd_partial (S : Int → MAsg → Bool) (L : Nat → Nat)
    (hSneg : ∀ x α, x ≠ 0 → S (-x) α = !S x α)
    (rm : List Nat) (btv : List (String × MVar)) (P : Mgr → Prop) (K : Nat → Prop)
    (hBdd : ∀ u umap mb var succs mb1, P mb → K u →
      b2mIntSucc btv u umap mb = (.ok (var, succs), mb1) → P mb1 ∧ BddSideOK S L u umap var succs)
    (ord : List Nat) (dvars : List MVar) (mb : Mgr) (out : B2MOut) (mb' : Mgr)
    (hK : ∀ u, u ∈ ord → rm.contains u = false → K u) (hP : P mb)
    (hS1 : ∀ α, S 1 α = true) (hL1 : L 1 ≤ dvars.length)
    (hr : b2mLoop rm btv ord (MddMgr.new (some dvars)) [(1, 1)] mb = (.ok out, mb')) :
    P mb' ∧ MInv out.mdd ∧ out.mdd.tbl.vars = dvars ∧
    ∀ (u : Nat) (r : Int), out.umap.lookup u = some r →
      out.mdd.tbl.Mem r ∧ ∀ (s : Int), s.natAbs = u → ∀ α, MValid out.mdd.tbl α →
        denM out.mdd.tbl (flip r s) α = S s α := by
  have h0 : UmapOK S L (MddMgr.new (some dvars)) [(1, 1)] := by
    constructor
    intro x r hl
    by_cases hx : x = 1
    · subst hx
      simp [List.lookup_cons] at hl
      subst hl
      refine ⟨Or.inl rfl, ?_, ?_⟩
      · rw [MTbl.levelOf_term _ 1 rfl]; exact hL1
      · intro α _; rw [denM_one]; exact (hS1 α).symm
    · have : (x == 1) = false := by simpa using hx
      simp [List.lookup_cons, this] at hl
  obtain ⟨hP', hinv, hext, hU, _⟩ := b2mLoop_partial S L hSneg rm btv P K hBdd ord _ _ mb out mb' hK hP
    (MInv.init dvars) h0 hr
  refine ⟨hP', hinv, hext.vars.symm, ?_⟩
  intro u r hl
  obtain ⟨hm, _, hden⟩ := hU.ok u r hl
  refine ⟨hm, ?_⟩
  intro s hs α hα
  unfold flip
  split
  · next hneg =>
    have : s = -((u : Nat) : Int) := by omega
    rw [denM_neg _ hinv.wf.toMWF r α hm, hden α hα, this, hSneg _ _ (by omega)]
  · next hneg =>
    have : s = ((u : Nat) : Int) := by omega
    rw [hden α hα, this]

/-- the same, about `bdd_to_mdd` itself: whenever the call succeeds, and the preparation
(collect, reorder into zones, selection of the zone-entry nodes) establishes a property `P` of
the BDD manager under which every iteration's BDD side delivers `BddSideOK` for the nodes `K`
that the loop keeps, the returned MDD manager satisfies its invariant, has the variables
`dvars`, and every `umap` entry (complemented by `flip` when the BDD reference is) denotes the
intended function -/
theorem C15_bddToMdd_partial_call (S : Int → MAsg → Bool) (L : Nat → Nat)
    (hSneg : ∀ x α, x ≠ 0 → S (-x) α = !S x α) (hS1 : ∀ α, S 1 α = true)
    (dvars : List MVar) (lev : Option (List Nat)) (mb : Mgr) (out : B2MOut) (mb' : Mgr)
    (hL1 : L 1 ≤ dvars.length) (P : Mgr → Prop) (K : Nat → Prop)
    (hPrep : ∀ p mb1, b2mPrepare dvars mb = (.ok p, mb1) →
      P mb1 ∧
      (∀ ord, bddLevelsOrder p.tbl lev = .ok ord → ∀ u, u ∈ ord → p.rm.contains u = false → K u) ∧
      (∀ u umap mbx var succs mby, P mbx → K u →
        b2mIntSucc p.bitToVar u umap mbx = (.ok (var, succs), mby) →
        P mby ∧ BddSideOK S L u umap var succs))
    (hr : bddToMdd dvars lev mb = (.ok out, mb')) :
    P mb' ∧ MInv out.mdd ∧ out.mdd.tbl.vars = dvars ∧
    ∀ (u : Nat) (r : Int), out.umap.lookup u = some r →
      out.mdd.tbl.Mem r ∧ ∀ (s : Int), s.natAbs = u → ∀ α, MValid out.mdd.tbl α →
        denM out.mdd.tbl (flip r s) α = S s α := by
  obtain ⟨p, mb1, ord, hp, ho, hloop⟩ := bddToMdd_unfold dvars lev mb out mb' hr
  obtain ⟨hP, hK, hB⟩ := hPrep p mb1 hp
  exact C15_bddToMdd_partial S L hSneg p.rm p.bitToVar P K hB ord dvars mb1 out mb' (hK ord ho) hP
    hS1 hL1 hloop

/-- the hypotheses of `C15_bddToMdd_partial` are jointly satisfiable (degenerate instance: the
constant BDD, nothing to convert; `S` = "the reference is regular").  A non-degenerate instance
of the BDD-side hypothesis cannot be evaluated in the kernel (the memo of `cofactorF` is a
`HashMap`); it is exercised by the correspondence runs instead. -/
example : ∃ (S : Int → MAsg → Bool) (L : Nat → Nat) (P : Mgr → Prop) (K : Nat → Prop) (out : B2MOut) (mb' : Mgr),
    (∀ x α, x ≠ 0 → S (-x) α = !S x α) ∧ (∀ α, S 1 α = true) ∧ L 1 ≤ ([] : List MVar).length ∧
    (∀ u umap mb var succs mb1, P mb → K u →
      b2mIntSucc [] u umap mb = (.ok (var, succs), mb1) → P mb1 ∧ BddSideOK S L u umap var succs) ∧
    b2mLoop [] [] [] (MddMgr.new (some [])) [(1, 1)] {} = (.ok out, mb') :=
  ⟨fun x _ => decide (0 < x), fun _ => 0, fun _ => True, fun _ => False, _, _,
    by intro x α hx; by_cases h : 0 < x <;> simp [h] <;> omega,
    by intro α; rfl, Nat.le_refl _, by intro _ _ _ _ _ _ _ hK; exact absurd hK id, rfl⟩

/-! ### every reachable state -/

/-- every state reachable from `MDD(dvars)` by calls of the user — `find_or_add` with successors
below the level (documented precondition), any `ite` that returns, `apply`, `incref`, `decref` of
a reference the user holds, `collect_garbage` with or without roots, AND calls that raise, in any
order — satisfies the invariant, and every stored count is exactly in-degree + number of
references the user holds.  The allocating calls (`MReach.foaS/iteS/applyS`) run under an
ARBITRARY recorded schedule of `_free.pop()` results, installed for the call and dropped
afterwards, and every choice the real `set.pop()` can make is accepted by the model
(`C15_allocate_acceptance`): the reachable set contains every run of the code, not only the
least-element runs. -/
theorem C15_reachable_inv (dv : List MVar) (m : MddMgr) (ext : Nat → Nat) (h : MReach dv m ext) :
    MInv m ∧ MRefExact m ext ∧ m.tbl.vars = dv :=
  h.inv

/-- between calls no recorded schedule is left, and the keys of `_ref` are nodes -/
theorem C15_reachable_sched (dv : List MVar) (m : MddMgr) (ext : Nat → Nat) (h : MReach dv m ext) :
    m.sched = [] ∧ RefKeys m :=
  ⟨h.sched_nil, h.refKeys⟩

/-- ACCEPTANCE of recorded `_free.pop()` results.  `_allocate`:
* with an empty `_free` takes `_max + 1` and does not consult the schedule;
* with a recorded pop `p` that IS an element of `_free` takes `p`;
* with nothing recorded takes the least element;
* reports `MODEL-SCHEDULE-MISMATCH` only for a recorded pop that is NOT an element of `_free`, and
  then changes nothing;
so for EVERY element `p` of `_free` some schedule makes the model take `p`. -/
theorem C15_allocate_acceptance (m : MddMgr) :
    (m.free = [] → mAllocate m = (.ok (m.max + 1), { m with max := m.max + 1 })) ∧
    (∀ p rest, m.sched = p :: rest → p ∈ m.free →
      mAllocate m = (.ok p, { m with free := m.free.erase p, sched := rest })) ∧
    (∀ f0 tl, m.free = f0 :: tl → m.sched = [] →
      mAllocate m = (.ok f0, { m with free := m.free.erase f0 })) ∧
    (∀ e m', mAllocate m = (.error e, m') →
      m' = m ∧ e = .sched ∧ ∃ p rest, m.sched = p :: rest ∧ m.free ≠ [] ∧ p ∉ m.free) ∧
    (∀ p, p ∈ m.free → ∃ sch, mAllocate { m with sched := sch } =
      (.ok p, { m with free := m.free.erase p, sched := [] })) :=
  ⟨(mAllocate_accepts m).1, (mAllocate_accepts m).2.1, (mAllocate_accepts m).2.2,
   fun e m' h => mAllocate_err m e m' h, fun p hp => mAllocate_any_choice m p hp⟩

/-- what a call that raises leaves, in a reachable state, for any recorded schedule `sch`:
`find_or_add` (any arguments — its checks precede every mutation; under the invariant the
allocator assertions cannot fire), `ite` (any operands: one that is not a node makes `level_of`
raise `KeyError` before anything is created; with nodes as operands nothing can raise), `apply`,
`incref`, `decref`, `collect_garbage` (any roots: one that is not counted makes `self.ref(u)` raise
before the loop starts) leave the manager EXACTLY as it was.  (For `ite` / `apply` the model's own
`MODEL-SCHEDULE-MISMATCH` is excluded: it is not a behaviour of the code.) -/
theorem C15_failed_call_unchanged (dv : List MVar) (m : MddMgr) (ext : Nat → Nat) (h : MReach dv m ext)
    (sch : List Nat) (e : Err) (m1 : MddMgr) :
    (∀ i nodes, mFindOrAdd i nodes { m with sched := sch } = (.error e, m1) →
      ({ m1 with sched := [] } : MddMgr) = m) ∧
    (∀ g u v, mIte g u v { m with sched := sch } = (.error e, m1) → e ≠ .sched →
      ({ m1 with sched := [] } : MddMgr) = m) ∧
    (∀ op u v w, mApply op u v w { m with sched := sch } = (.error e, m1) → e ≠ .sched →
      ({ m1 with sched := [] } : MddMgr) = m) ∧
    (∀ u, mIncref u m = (.error e, m1) → m1 = m) ∧
    (∀ u, mDecref u m = (.error e, m1) → m1 = m) ∧
    (∀ roots, mCollectGarbage roots m = (.error e, m1) → m1 = m) :=
  h.failed_unchanged sch e m1

/-- an `ite` that returns although an operand is not a node (`g = ±1`) has not touched the manager -/
theorem C15_ite_nonmember (m : MddMgr) (g u v : Int)
    (hn : ¬ (m.tbl.Mem g ∧ m.tbl.Mem u ∧ m.tbl.Mem v)) (r : Except Err Int) (m' : MddMgr)
    (hr : mIte g u v m = (r, m')) : m' = m :=
  mIte_nonmember m g u v hn r m' hr

/-- in every reachable state, equal functions ⇔ equal references -/
theorem C15_reachable_canonical (dv : List MVar) (m : MddMgr) (ext : Nat → Nat) (h : MReach dv m ext)
    (hpos : ∀ i, i < m.tbl.nvars → 0 < m.tbl.arity i)
    (u v : Int) (hu : m.tbl.Mem u) (hv : m.tbl.Mem v) :
    (∀ a, MValid m.tbl a → denM m.tbl u a = denM m.tbl v a) ↔ u = v :=
  C15_canonical m h.inv.1 hpos u v hu hv

/-- (conditional form, kept) in every reachable state, a `collect_garbage()` that returns frees
exactly the unreferenced nodes -/
theorem C15_gc_exact_ok (dv : List MVar) (m : MddMgr) (ext : Nat → Nat) (h : MReach dv m ext)
    (m' : MddMgr) (hr : mCollectGarbage none m = (.ok (), m')) :
    MReach dv m' ext ∧
    (∀ x n, m.tbl.node? x = some n → (m'.tbl.node? x = some n ↔ HeldReach m.tbl ext x)) ∧
    (∀ x n, m'.tbl.node? x = some n → m.tbl.node? x = some n) ∧
    (∀ u, m'.tbl.Mem u → ∀ a, denM m'.tbl u a = denM m.tbl u a) := by
  obtain ⟨hi, hx, _⟩ := h.inv
  have G := mddGc_spec m ext hi hx none m' hr
  exact ⟨MReach.gc none m' h hr, fun x n hn => gc_exactly_reachable m ext hi hx m' hr x n hn,
    G.sub.nodes, G.den⟩

/-- in every reachable state `collect_garbage()` RETURNS NORMALLY and frees exactly the
unreferenced nodes: a node remains (with its tuple) iff it is reachable along successor edges from
a node the user holds; nothing is created; surviving references keep their meaning; the result is
reachable again -/
theorem C15_gc_exact (dv : List MVar) (m : MddMgr) (ext : Nat → Nat) (h : MReach dv m ext) :
    ∃ m', mCollectGarbage none m = (.ok (), m') ∧
    MReach dv m' ext ∧
    (∀ x n, m.tbl.node? x = some n → (m'.tbl.node? x = some n ↔ HeldReach m.tbl ext x)) ∧
    (∀ x n, m'.tbl.node? x = some n → m.tbl.node? x = some n) ∧
    (∀ u, m'.tbl.Mem u → ∀ a, denM m'.tbl u a = denM m.tbl u a) := by
  obtain ⟨hi, hx, _⟩ := h.inv
  obtain ⟨m', hr, _⟩ := mCollectGarbage_total m ext hi hx none
    (gcRootList_mem m h.refKeys none (fun rs hrs => by cases hrs))
  exact ⟨m', hr, C15_gc_exact_ok dv m ext h m' hr⟩

/-- in every reachable state `collect_garbage(roots)` RETURNS NORMALLY for any list of references
(of either sign) to nodes of the manager, with the guarantees of `C15_gc_ok` -/
theorem C15_gc_roots_total (dv : List MVar) (m : MddMgr) (ext : Nat → Nat) (h : MReach dv m ext)
    (rs : List Int) (hrs : ∀ r, r ∈ rs → m.tbl.Mem r) :
    ∃ m', mCollectGarbage (some rs) m = (.ok (), m') ∧ MReach dv m' ext ∧
      GcOK m ext false m' := by
  obtain ⟨hi, hx, _⟩ := h.inv
  obtain ⟨m', hr, G⟩ := mCollectGarbage_total m ext hi hx (some rs) hrs
  exact ⟨m', hr, MReach.gc _ m' h hr, G⟩

/-! #### the order of `unused.pop()`

`unused` is a Python `set`, `unused.pop()` removes an arbitrary element; the model (and the
correspondence check) pop in one fixed order.  `MGcAny roots m m'` is the relation "some run of
`collect_garbage(roots)`, popping ANY element of the worklist each time, ends in `m'`". -/

/-- the model's run is one of the runs -/
theorem C15_gc_model_run (roots : Option (List Int)) (m m' : MddMgr)
    (hr : mCollectGarbage roots m = (.ok (), m')) : MGcAny roots m m' :=
  mCollectGarbage_any roots m m' hr

/-- no run can get stuck: from a good worklist (distinct nodes with count zero — what the loop
starts from and maintains) the iteration for ANY popped element raises nothing, leaves a good
worklist and one node less (so every run ends, after at most `len(_succ)` iterations) -/
theorem C15_gc_never_stuck (m : MddMgr) (ext : Nat → Nat) (hc : MInvCore m) (hx : MRefExact m ext)
    (work : List Int) (hw : WorkOK m work) (u : Int) (hu : u ∈ work) :
    ∃ work' m1, mGcStep u (work.erase u) m = (.ok work', m1) ∧
      MInvCore m1 ∧ MRefExact m1 ext ∧ WorkOK m1 work' ∧
      m1.tbl.succ.size + 1 = m.tbl.succ.size :=
  mGcRun_progress m ext hc hx work hw u hu

/-- EVERY strategy: let `σ` choose the element `unused.pop()` returns (any function of the worklist
and the manager that picks an element of the worklist).  In every reachable state, for any roots
that are nodes (either sign; or none), `collect_garbage` run with `σ` returns normally within one
iteration per node, is one of the runs `MGcAny`, has the guarantees `GcOK`, leaves a reachable
state's invariants, and — without roots — keeps exactly the nodes reachable from a held node. -/
theorem C15_gc_every_strategy (σ : List Int → MddMgr → Int) (hσ : ∀ w m, w ≠ [] → σ w m ∈ w)
    (dv : List MVar) (m : MddMgr) (ext : Nat → Nat) (h : MReach dv m ext)
    (roots : Option (List Int)) (hro : ∀ rs, roots = some rs → ∀ r, r ∈ rs → m.tbl.Mem r) :
    ∃ m', mCollectGarbageBy σ roots m = (.ok (), m') ∧ MGcAny roots m m' ∧
      GcOK m ext roots.isNone m' ∧
      (roots = none → ∀ x n, m.tbl.node? x = some n →
        (m'.tbl.node? x = some n ↔ HeldReach m.tbl ext x)) := by
  obtain ⟨hi, hx, _⟩ := h.inv
  obtain ⟨m', hr, hany, G⟩ := mCollectGarbageBy_total σ hσ m ext hi hx roots
    (gcRootList_mem m h.refKeys roots hro)
  refine ⟨m', hr, hany, G, ?_⟩
  intro hn x n hx'
  subst hn
  exact mGcAny_exactly_reachable m ext hi hx m' hany x n hx'

/-- freed numbers: after `collect_garbage` (any order) the number of every removed node is in
`_free`, what was in `_free` is still there, `_max` is unchanged; and `_allocate` hands out a
number — a freed one in particular — only as `_max + 1` when `_free` is empty, or by popping it
from `_free` -/
theorem C15_gc_freed_numbers (m : MddMgr) (ext : Nat → Nat) (h : MInv m) (hx : MRefExact m ext)
    (roots : Option (List Int)) (m' : MddMgr) (R : MGcAny roots m m') :
    (∀ x, x ∈ m.free → x ∈ m'.free) ∧
    (∀ x n, m.tbl.node? x = some n → m'.tbl.node? x = none → x ∈ m'.free) ∧
    m'.max = m.max ∧
    (∀ (mm : MddMgr) u mm', mAllocate mm = (.ok u, mm') →
      (mm.free = [] ∧ u = mm.max + 1 ∧ mm'.max = mm.max + 1 ∧ mm'.free = []) ∨
      (u ∈ mm.free ∧ mm'.free = mm.free.erase u ∧ mm'.max = mm.max)) := by
  obtain ⟨a, b, c⟩ := mGcAny_free m ext h hx roots m' R
  exact ⟨a, b, c, fun mm u mm' hr => mAllocate_source mm u mm' hr⟩

/-- every run, in any order, gives what `collect_garbage` promises; and without roots exactly the
nodes reachable from a held node remain -/
theorem C15_gc_anyOrder (m : MddMgr) (ext : Nat → Nat) (h : MInv m) (hx : MRefExact m ext)
    (roots : Option (List Int)) (m' : MddMgr) (R : MGcAny roots m m') :
    GcOK m ext roots.isNone m' ∧
    (roots = none → ∀ x n, m.tbl.node? x = some n →
      (m'.tbl.node? x = some n ↔ HeldReach m.tbl ext x)) := by
  refine ⟨mGcAny_spec m ext h hx roots m' R, ?_⟩
  intro hn x n hx'
  subst hn
  exact mGcAny_exactly_reachable m ext h hx m' R x n hx'

/-- the result of `collect_garbage()` does not depend on the order: any two runs leave the same
nodes (same tuples), the same counters on them, and the same meaning of every reference -/
theorem C15_gc_order_independent (m : MddMgr) (ext : Nat → Nat) (h : MInv m) (hx : MRefExact m ext)
    (m' m'' : MddMgr) (R' : MGcAny none m m') (R'' : MGcAny none m m'') :
    (∀ x, m'.tbl.node? x = m''.tbl.node? x) ∧
    (∀ u, m'.tbl.Mem u → m'.ref[u.natAbs]? = m''.ref[u.natAbs]?) ∧
    (∀ u, m'.tbl.Mem u ↔ m''.tbl.Mem u) ∧
    (∀ u, m'.tbl.Mem u → ∀ a, denM m'.tbl u a = denM m''.tbl u a) :=
  mGcAny_deterministic m ext h hx m' m'' R' R''

/-! ### the fuel of the model is an artifact, never observed -/

/-- the recursion bound the model gives `ite` (`len(vars) + 2`) and the iteration bound of the
collection loop are never reached: neither operation ever reports `MODEL-OUT-OF-FUEL` -/
theorem C15_no_fuel (m : MddMgr) (e : Err) (m' : MddMgr) :
    (∀ g u v, MInv m → m.tbl.Mem g → m.tbl.Mem u → m.tbl.Mem v →
      mIte g u v m = (.error e, m') → e ≠ .fuel) ∧
    (∀ roots, mCollectGarbage roots m = (.error e, m') → e ≠ .fuel) :=
  ⟨fun g u v h mg mu mv hr => mIte_not_fuel m h g u v mg mu mv e m' hr,
   fun roots hr => mCollectGarbage_not_fuel roots m e m' hr⟩

/-! ### non-vacuity: a concrete, non-trivial reachable manager

Two integer variables `x ∈ {0,1,2}` (level 0) and `y ∈ {0,1}` (level 1); nodes:
`2 = (y = 0)`, `3 = (x: [node 2, true, false])`, `4` = a node whose first successor was
complemented on entry (so the reference returned is `-4`), `5` created by `ite` (warm
computed table), node 3 held, `6` created by `apply`.  (Kernel evaluation of the model by
`rfl`; the collection examples use the one-node manager because evaluating the worklist loop in
the kernel is exponential in the number of state updates.) -/

namespace C15Ex
theorem pair_eta {α : Type} {x : Except Err α × MddMgr} {r : Except Err α} (h : x.1 = r) :
    x = (r, x.2) := by
  cases x; simp_all

def dv : List MVar := [⟨"x", 0, 3, []⟩, ⟨"y", 1, 2, []⟩]
def m0 : MddMgr := MddMgr.new (some dv)
def s1 := mFindOrAdd 1 [1, -1] m0
def s2 := mFindOrAdd 0 [2, 1, -1] s1.2
def s3 := mFindOrAdd 0 [-1, 2, 1] s2.2
def s4 := mIte 3 (-4) (-2) s3.2
def s5 := mIncref 3 s4.2
def s6 := mApply "xor" 3 (some (-4)) none s5.2
-- collection: an unheld node is freed and its number re-used; a held node stays
def g1 := mCollectGarbage none s1.2
def g2 := mFindOrAdd 1 [-1, 1] g1.2
def h1 := mIncref (-2) s1.2
def h2 := mCollectGarbage none h1.2

theorem e1 : s1 = (.ok 2, s1.2) := pair_eta (by rfl)
theorem e2 : s2 = (.ok 3, s2.2) := pair_eta (by rfl)
theorem e3 : s3 = (.ok (-4), s3.2) := pair_eta (by rfl)
theorem e4 : s4 = (.ok (-5), s4.2) := pair_eta (by rfl)
theorem e5 : s5 = (.ok (), s5.2) := pair_eta (by rfl)
theorem e6 : s6 = (.ok 6, s6.2) := pair_eta (by rfl)
theorem eg1 : g1 = (.ok (), g1.2) := pair_eta (by rfl)
theorem eg2 : g2 = (.ok (-2), g2.2) := pair_eta (by rfl)
theorem eh1 : h1 = (.ok (), h1.2) := pair_eta (by rfl)
theorem eh2 : h2 = (.ok (), h2.2) := pair_eta (by rfl)

theorem r1 : MReach dv s1.2 (fun _ => 0) :=
  MReach.foa 1 [1, -1] 2 _ MReach.init (by decide) e1
theorem r2 : MReach dv s2.2 (fun _ => 0) :=
  MReach.foa 0 [2, 1, -1] 3 _ r1 (by decide) e2
theorem r3 : MReach dv s3.2 (fun _ => 0) :=
  MReach.foa 0 [-1, 2, 1] (-4) _ r2 (by decide) e3
theorem r4 : MReach dv s4.2 (fun _ => 0) :=
  MReach.ite 3 (-4) (-2) (-5) _ r3 e4
theorem r5 : MReach dv s5.2 (mExtInc (fun _ => 0) 3) :=
  MReach.incref 3 _ r4 (by decide) e5
theorem r6 : MReach dv s6.2 (mExtInc (fun _ => 0) 3) :=
  MReach.apply "xor" .xor 3 (some (-4)) none 6 _ r5 (by decide) e6
theorem rg1 : MReach dv g1.2 (fun _ => 0) := MReach.gc none _ r1 eg1
theorem rh1 : MReach dv h1.2 (mExtInc (fun _ => 0) (-2)) := MReach.incref (-2) _ r1 (by decide) eh1

/-- every variable has a value -/
theorem hpos (m : MddMgr) (hv : m.tbl.vars = dv) : ∀ i, i < m.tbl.nvars → 0 < m.tbl.arity i := by
  intro i hi
  unfold MTbl.nvars at hi
  unfold MTbl.arity MTbl.varAt?
  rw [hv] at hi ⊢
  have : i = 0 ∨ i = 1 := by simp [dv] at hi; omega
  rcases this with rfl | rfl <;> decide

/-! a larger collection, checked by kernel evaluation (`decide +kernel`), and a pop that is NOT the
least element of `_free` -/

/-- what is observed of a collection: outcome, the remaining node numbers, `_free`, `_ref` -/
def gcObs (r : Except Err Unit × MddMgr) : Except Err Unit × List Nat × List Nat × List (Nat × Nat) :=
  (r.1, r.2.tbl.succ.keys, r.2.free, r.2.ref.toList)

-- `s3`: nodes 2 = (1, [1, -1]), 3 = (0, [2, 1, -1]), 4 = (0, [1, -2, -1]); hold node 3
def k1 := mIncref 3 s3.2
def k2 := mCollectGarbage none k1.2
def k3 := mCollectGarbage (some [-4]) k1.2
-- nothing held: everything is freed, `_free = {2, 3, 4}`
def g3 := mCollectGarbage none s3.2
-- the next `find_or_add` when `_free.pop()` returns 4 (the real `set.pop()` need not return the least)
def f4 := mFindOrAdd 1 [1, -1] { g3.2 with sched := [4] }
-- a recorded pop that is not in `_free`: only then the model reports a mismatch
def f7 := mFindOrAdd 1 [1, -1] { g3.2 with sched := [7] }

theorem ek1 : k1 = (.ok (), k1.2) := pair_eta (by decide +kernel)
theorem ek2 : k2 = (.ok (), k2.2) := pair_eta (by decide +kernel)
theorem eg3 : g3 = (.ok (), g3.2) := pair_eta (by decide +kernel)
theorem ef4 : f4 = (.ok 4, f4.2) := pair_eta (by decide +kernel)
theorem rk1 : MReach dv k1.2 (mExtInc (fun _ => 0) 3) := MReach.incref 3 _ r3 (by decide) ek1
theorem rg3 : MReach dv g3.2 (fun _ => 0) := MReach.gc none _ r3 eg3
/-- a reachable state in which node number 4 was re-used although 2 and 3 were free -/
theorem rf4 : MReach dv { f4.2 with sched := [] } (fun _ => 0) :=
  MReach.foaS [4] 1 [1, -1] 4 _ rg3 (by decide +kernel) ef4

end C15Ex

/-- a fresh `MDD(dvars)` satisfies the invariant -/
example (dv : List MVar) : MInv (MddMgr.new (some dv)) := MInv.init dv

open C15Ex in
/-- the hypotheses of the `find_or_add` / `ite` / `apply` / canonicity / structure theorems hold in
a manager with shared sub-nodes, a complemented edge, a warm computed table and a held node -/
example : MInv s6.2 ∧ MRefExact s6.2 (mExtInc (fun _ => 0) 3) ∧
    s6.2.tbl.node? 3 = some ⟨0, [2, 1, -1]⟩ ∧ s6.2.tbl.node? 4 = some ⟨0, [1, -2, -1]⟩ ∧
    s6.2.cache[iteKey 3 (-4) (-2)]? = some (-5) ∧ s6.2.ref[3]? = some 1 ∧
    (∀ i, i < s6.2.tbl.nvars → 0 < s6.2.tbl.arity i) :=
  ⟨r6.inv.1, r6.inv.2.1, by rfl, by rfl, by rfl, by rfl, hpos _ r6.inv.2.2⟩

open C15Ex in
/-- the `find_or_add` theorem applies to the call that created node 3 (successors below level 0) -/
example : MInv s1.2 ∧ (∀ k ∈ [2, 1, -1], (0 : Int).toNat < s1.2.tbl.levelOf k) ∧
    mFindOrAdd 0 [2, 1, -1] s1.2 = (.ok 3, s2.2) :=
  ⟨r1.inv.1, by decide, e2⟩

open C15Ex in
/-- the `ite` theorem applies to the call that produced node 5 (all three operands are nodes) -/
example : MInv s3.2 ∧ s3.2.tbl.Mem 3 ∧ s3.2.tbl.Mem (-4) ∧ s3.2.tbl.Mem (-2) ∧
    mIte 3 (-4) (-2) s3.2 = (.ok (-5), s4.2) :=
  ⟨r3.inv.1, by decide, by decide, by decide, e4⟩

open C15Ex in
/-- the `apply` theorem applies: `xor` is a spelling of a propositional connective -/
example : docConn "xor" = some .xor ∧ mApply "xor" 3 (some (-4)) none s5.2 = (.ok 6, s6.2) :=
  ⟨by decide, e6⟩

open C15Ex in
/-- the collection theorems apply and are not trivial: the unheld node 2 is freed and its number
is re-used by the next `find_or_add`; the held node 2 stays -/
example : MReach dv s1.2 (fun _ => 0) ∧ mCollectGarbage none s1.2 = (.ok (), g1.2) ∧
    (s1.2.tbl.node? 2).isSome = true ∧ g1.2.tbl.node? 2 = none ∧ g1.2.free = [2] ∧
    g2.2.tbl.node? 2 = some ⟨1, [1, -1]⟩ ∧ g2.2.free = [] ∧
    MReach dv h1.2 (mExtInc (fun _ => 0) (-2)) ∧ mCollectGarbage none h1.2 = (.ok (), h2.2) ∧
    h2.2.tbl.node? 2 = some ⟨1, [1, -1]⟩ :=
  ⟨r1, eg1, by rfl, by rfl, by rfl, by rfl, by rfl, rh1, eh2, by rfl⟩

open C15Ex in
/-- the TOTAL forms apply (all hypotheses hold in the example states, no recorded schedule): hence
`ite`, `apply`, `find_or_add` provably return there -/
example : (∃ w m', mIte 3 (-4) (-2) s3.2 = (.ok w, m') ∧ MInv m') ∧
    (∃ r m', mApply "xor" 3 (some (-4)) none s5.2 = (.ok r, m') ∧ MInv m') ∧
    (∃ r m', mApply "ite" 3 (some (-4)) (some 2) s5.2 = (.ok r, m') ∧ MInv m') := by
  refine ⟨?_, ?_, ?_⟩
  · obtain ⟨w, m', hr, hi, _⟩ := C15_ite_total s3.2 r3.inv.1 (by rfl) 3 (-4) (-2)
      (by decide) (by decide) (by decide)
    exact ⟨w, m', hr, hi⟩
  · obtain ⟨r, m', hr, hi, _⟩ := C15_apply_total s5.2 r5.inv.1 (by rfl) "xor" .xor (by decide)
      ⟨by decide, by decide⟩ 3 (some (-4)) none
      ⟨by decide, fun _ => ⟨rfl, rfl⟩, by decide⟩ (by decide)
      (fun x hx => by cases hx; decide) (fun x hx => by cases hx)
    exact ⟨r, m', hr, hi⟩
  · obtain ⟨r, m', hr, hi, _⟩ := C15_apply_total s5.2 r5.inv.1 (by rfl) "ite" .ite (by decide)
      ⟨by decide, by decide⟩ 3 (some (-4)) (some 2)
      ⟨by decide, by decide, fun _ => ⟨rfl, rfl⟩⟩ (by decide)
      (fun x hx => by cases hx; decide) (fun x hx => by cases hx; decide)
    exact ⟨r, m', hr, hi⟩

open C15Ex in
/-- the total collection theorems apply: in the reachable state `s6` (node 3 held, nodes 2–6
present) `collect_garbage()` and `collect_garbage([-4, 2])` provably return, and the full
collection keeps exactly the nodes reachable from node 3 -/
example : (∃ m', mCollectGarbage none s6.2 = (.ok (), m') ∧
      ∀ x n, s6.2.tbl.node? x = some n →
        (m'.tbl.node? x = some n ↔ HeldReach s6.2.tbl (mExtInc (fun _ => 0) 3) x)) ∧
    (∃ m', mCollectGarbage (some [-4, 2]) s6.2 = (.ok (), m') ∧
      m'.tbl.node? 3 = some ⟨0, [2, 1, -1]⟩) := by
  refine ⟨?_, ?_⟩
  · obtain ⟨m', hr, _, hex, _⟩ := C15_gc_exact dv s6.2 _ r6
    exact ⟨m', hr, hex⟩
  · obtain ⟨m', hr, _, G⟩ := C15_gc_roots_total dv s6.2 _ r6 [-4, 2] (by decide)
    exact ⟨m', hr, G.held 3 _ (by rfl) (by decide)⟩

/-! ### non-vacuity of the conversion theorems on a larger manager

Four Boolean variables `a, b, c, d` (levels 0–3) and the held node 5 = `a ? (c ∧ d) : ¬(b ?
(c ∧ d) : d)`, which depends on all four bits; two 2-bit integer variables with INTERLEAVED
bits, `x` over `c` (least significant), `a` and `y` over `d`, `b`, the integer order (`y` above
`x`) opposite to the listing.  The requested zone order `d, b, c, a` differs from the current
order, so the conversion reorders.  (The manager is built with the operations of the reachability
theorem of C06–C08, `reachable2_inv`, which yields the reordering invariant.) -/

namespace C15Ex2

def ops : List UOp2 :=
  [ .base (.declare "a" none), .base (.declare "b" none),
    .base (.declare "c" none), .base (.declare "d" none),
    .base (.findOrAdd 3 (-1) 1),   -- 2 = d
    .base (.findOrAdd 2 (-1) 2),   -- 3 = c ∧ d
    .base (.findOrAdd 1 2 3),      -- 4 = b ? (c ∧ d) : d
    .base (.findOrAdd 0 (-4) 3),   -- 5 = a ? (c ∧ d) : ¬4
    .base (.incref 5) ]

def st : St := run2 ops St.init
def mb : Mgr := st.m
def ex : Nat → Nat := st.ext

theorem guarded : Ops2Guarded ops St.init := by decide

theorem good : Good2 mb ex := reachable2_inv ops guarded

theorem rinv : ReorderInv ex mb := by
  have := good.reorderInv []
  have hs : mb.sched = [] := good.sched
  have e : ({ mb with sched := [] } : Mgr) = mb := by
    cases hmb : mb; simp_all
  rw [e] at this; exact this

def dv : List MVar := [⟨"x", 1, 4, ["c", "a"]⟩, ⟨"y", 0, 4, ["d", "b"]⟩]

theorem n5 : mb.tbl.node? 5 = some ⟨0, -4, 3⟩ := by decide
theorem held5 : 0 < ex 5 := by decide
theorem keys : mb.tbl.vars.keys = ["a", "b", "c", "d"] := by decide

theorem dfull : DvarsFull mb.tbl dv := by
  refine ⟨⟨by decide, ?_⟩, by decide, by decide, by decide⟩
  rw [keys]; decide

theorem predkeys : mb.pred.keys = [[0, -4, 3], [1, 2, 3], [2, -1, 2], [3, -1, 1]] := by decide

theorem ks : KeysShaped mb := by
  intro k u hku
  have hmem : k ∈ mb.pred.keys := by
    rw [Std.TreeMap.mem_keys, Std.TreeMap.mem_iff_isSome_getElem?, hku]; rfl
  rw [predkeys] at hmem
  simp only [List.mem_cons, List.not_mem_nil, or_false] at hmem
  rcases hmem with rfl | rfl | rfl | rfl
  · exact ⟨⟨0, -4, 3⟩, rfl⟩
  · exact ⟨⟨1, 2, 3⟩, rfl⟩
  · exact ⟨⟨2, -1, 2⟩, rfl⟩
  · exact ⟨⟨3, -1, 1⟩, rfl⟩

end C15Ex2

open C15Ex2 in
/-- all hypotheses of `C15_bddToMdd_total` / `C15_bddToMdd_held_total` hold there: the conversion
provably returns, and the image of the held node 5 denotes its function on the encoded bits -/
example : ∃ out mb', bddToMdd dv none mb = (.ok out, mb') ∧
    ∃ r, out.umap.lookup 5 = some r ∧ ∀ α, MValid out.mdd.tbl α →
      denM out.mdd.tbl r α = denN mb.tbl 5 (bitsOfInts dv α) := by
  obtain ⟨out, mb', hr, _, _, hall⟩ :=
    C15_bddToMdd_held_total ex mb rinv ks good.sched dv dfull
  obtain ⟨r, h1, _, h3⟩ := hall 5 held5
  exact ⟨out, mb', hr, r, h1, fun α hα => by have := h3 α hα; simpa [flip] using this⟩

open C15Ex2 in
/-- and all hypotheses of `C15_convert_incref_collect`: convert, `incref` the image, collect,
convert again — every call provably returns and the images keep denoting node 5 -/
example : ∃ out mb' r m1 m2, bddToMdd dv none mb = (.ok out, mb') ∧
    out.umap.lookup 5 = some r ∧ mIncref r out.mdd = (.ok (), m1) ∧
    mCollectGarbage none m1 = (.ok (), m2) ∧
    (∀ α, MValid m2.tbl α → denM m2.tbl r α = denN mb.tbl 5 (bitsOfInts dv α)) ∧
    ∃ out2 mb'' r2, bddToMdd dv none mb' = (.ok out2, mb'') ∧ out2.umap.lookup 5 = some r2 := by
  obtain ⟨out, mb', r, m1, m2, h1, h2, h3, h4, _, _, h7, _, out2, mb'', r2, h9, h10, _⟩ :=
    C15_convert_incref_collect ex mb rinv ks good.sched dv dfull 5 held5
  exact ⟨out, mb', r, m1, m2, h1, h2, h3, h4,
    fun α hα => by have := h7 α hα; simpa [flip] using this, out2, mb'', r2, h9, h10⟩

open C15Ex in
/-- kernel-checked collections on a manager with three nodes, one of them held: the full
collection and the one from the root `-4` free node 4 only (its number enters `_free`, the count
of its successor 2 drops to 1); with nothing held all three nodes go and `_free = [2, 3, 4]` -/
example : gcObs k2 = (.ok (), [2, 3], [4], [(1, 4), (2, 1), (3, 1)]) ∧
    gcObs k3 = (.ok (), [2, 3], [4], [(1, 4), (2, 1), (3, 1)]) ∧
    gcObs g3 = (.ok (), [], [2, 3, 4], [(1, 0)]) := by
  refine ⟨?_, ?_, ?_⟩ <;> decide +kernel

open C15Ex in
/-- the reachable set is not restricted to least-element pops: with `_free = [2, 3, 4]` and the
recorded pop 4 the model's `find_or_add` takes number 4 (the state is `MReach`, `rf4`); the
mismatch report needs a recorded pop outside `_free` and changes nothing -/
example : g3.2.free = [2, 3, 4] ∧ f4.1 = .ok 4 ∧ f4.2.free = [2, 3] ∧
    f4.2.tbl.node? 4 = some ⟨1, [1, -1]⟩ ∧ MReach dv { f4.2 with sched := [] } (fun _ => 0) ∧
    f7.1 = .error .sched ∧ f7.2.free = [2, 3, 4] := by
  refine ⟨?_, ?_, ?_, ?_, rf4, ?_, ?_⟩ <;> decide +kernel

open C15Ex in
/-- the every-strategy theorem applies (here: always pop the LAST element of the worklist) -/
example : ∃ m', mCollectGarbageBy (fun w _ => w.getLast?.getD 0) none k1.2 = (.ok (), m') ∧
    ∀ x n, k1.2.tbl.node? x = some n →
      (m'.tbl.node? x = some n ↔ HeldReach k1.2.tbl (mExtInc (fun _ => 0) 3) x) := by
  obtain ⟨m', hr, _, _, hex⟩ := C15_gc_every_strategy (fun w _ => w.getLast?.getD 0)
    (fun w _ hw => by
      cases h : w.getLast? with
      | none => rw [List.getLast?_eq_none_iff] at h; exact absurd h hw
      | some a => simpa using List.mem_of_getLast? h)
    dv k1.2 _ rk1 none (fun rs hrs => by cases hrs)
  exact ⟨m', hr, hex rfl⟩

end DD
