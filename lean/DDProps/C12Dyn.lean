/-
  DDProps.C12Dyn — C12 for `_copy.load_json` with dynamic reordering ENABLED in the receiving
  manager: the restriction left in `C12_json_load` is gone.

  `load_order=False`: the loader calls the DECORATED `bdd.var` and `bdd.ite`; each of them may
  be interrupted by a reordering request, sifting then runs and the call is retried, so levels
  and node numbers may change while the file is read.  The operands of every call are live
  `Function`s (the shelf holds one reference per node it remembers, the temporaries theirs), so
  `C09_var_transparent` / `C09_ite_transparent` apply at every line: the induction over the
  lines carries "every shelf entry is held and denotes, by variable NAME, what the file says".

  `load_order=True`: `configure(reordering=False)` is the first thing the loader does, so the
  run is the run of `C12_json_load` from the same manager with the switch off.
-/
import DDProofs.DumpJsonDyn
import DDProps.C12
open Std
namespace DD

/-- C12, `load_json(load_order=False)`, dynamic reordering enabled (any threshold, a request
possible at every `find_or_add`): for every well-formed content the load returns; the state is
as between two calls (`DynInv`) for the caller's ledger `ext` plus ONE reference per returned
`Function` (every temporary and every shelf reference released); the reader's assertions pass
(`ref >= 2` in the release loop, `assert_consistent`); reordering is enabled afterwards iff it
was; every reference the caller holds is still a node and denotes the same function of the
variable names; the returned container has the file's shape and every member denotes, by name,
what the file says. -/
theorem C12_json_load_dyn : json_load_dyn_statement := json_load_dyn_holds

/-- C12, JSON round trip into a manager with reordering enabled: `dump_json` from any manager,
`load_json(load_order=False)` into any manager in a between-calls state -/
theorem C12_json_roundtrip_dyn : json_roundtrip_dyn_statement := json_roundtrip_dyn_holds

/-- C12, `load_json(load_order=True)` with reordering enabled: the conclusion of `C12_json_load`
(`JsonLoaded … true`), under the conditions that `load_order=True` has anyway (`LoadOrderOK`:
rooted content, distinct names, no other variable declared; the schedule and the held roots are
part of `DynInv`) -/
theorem C12_json_load_order_dyn (f : JsonFile) (tgt : Mgr) (ext : Nat → Nat) (hf : JsonWF f)
    (hD : DynInv ext tgt) (hpn : PredNodes tgt) (hrt : Rooted f)
    (hnd : (f.levelOfVar.map (·.1)).Nodup)
    (hsub : ∀ v : String, tgt.tbl.vars.contains v = true → v ∈ f.levelOfVar.map (·.1)) :
    ∃ roots' m', loadJson f true tgt = (.ok roots', m') ∧ JsonLoaded f ext true roots' m' :=
  json_load_order_dyn f tgt ext hf hD hpn hrt hnd hsub

/-- the one-step lemma of the induction: one node line, reordering possibly enabled -/
theorem C12_makeNode_dyn {f : PickleFile} (hw : PickleWF f) (vat : List (Nat × String)) (ln : JLine)
    (e0 : Nat → Nat) (l : List Nat) (m : Mgr) (h : DynL e0 l m) (hk : KeysOK m)
    (cache : List (Nat × Int)) (hc : ShelfN f m.tbl cache)
    (hheld : ∀ k u, cache.lookup k = some u → u.natAbs ∈ l)
    (hnew : cache.lookup ln.id = none)
    (hline : PEntry.find f.succ ln.id = some ⟨ln.id, ln.lvl, some ln.lo, some ln.hi⟩) (hid : ln.id ≠ 1)
    (hlo : ln.lo.natAbs = 1 ∨ (cache.lookup ln.lo.natAbs).isSome)
    (hhi : ln.hi.natAbs = 1 ∨ (cache.lookup ln.hi.natAbs).isSome)
    (name : String) (hvat : vat.lookup ln.lvl = some name) (hname : f.nameAt ln.lvl = some name)
    (hdecl : m.tbl.vars.contains name = true) :
    ∃ u m', makeNode false vat ln cache m = (.ok (cache ++ [(ln.id, u)]), m') ∧
      DynL e0 (u.natAbs :: l) m' ∧ KeysOK m' ∧ ShelfN f m'.tbl (cache ++ [(ln.id, u)]) ∧
      DynKeeps (extAdd e0 l) m m' :=
  makeNode_dyn hw vat ln e0 l m h hk cache hc hheld hnew hline hid hlo hhi name hvat hname hdecl

/-! ### non-vacuity: `jsonBA` (the content of `b ∧ a`, order b < a) into `exDyn` — variables
a < b, nodes 2 = a, 3 = b, 4 = a ∧ b, the user holds node 4, reordering ENABLED and a request due
at the next `find_or_add` inside a context -/

theorem jsonBA_wf : JsonWF jsonBA := by
  refine ⟨(fileBA_wf : PickleWF fileBA), ?_, by decide, ?_, by decide⟩
  · have h1 : ChildrenFirst ([] ++ [(⟨2, 1, -1, 1⟩ : JLine)]) := .snoc .nil (Or.inl rfl) (Or.inl rfl)
    exact (.snoc h1 (Or.inl rfl) (Or.inr ⟨⟨2, 1, -1, 1⟩, by simp, rfl⟩) :
      ChildrenFirst (([] ++ [(⟨2, 1, -1, 1⟩ : JLine)]) ++ [(⟨3, 0, -1, 2⟩ : JLine)]))
  · intro u hu
    have : u = 3 := by simpa [jsonBA, JsonFile.toPickle, Roots.values] using hu
    subst this
    exact Or.inr ⟨⟨3, 0, some (-1), some 2⟩, by simp [jsonBA, JsonFile.toPickle, JLine.entry], rfl⟩

theorem exDyn_predNodes : PredNodes exDyn := by
  apply KeysOK.predNodes _ exDyn_dynInv.inv
  intro k u hk
  have hkeys : exDyn.pred.keys = [[0, -1, 1], [0, -1, 3], [1, -1, 1]] := by decide +kernel
  have := getElem?_mem_keys _ _ _ hk
  rw [hkeys] at this
  simp only [List.mem_cons, List.not_mem_nil, or_false] at this
  rcases this with rfl | rfl | rfl
  · exact ⟨⟨0, -1, 1⟩, rfl⟩
  · exact ⟨⟨0, -1, 3⟩, rfl⟩
  · exact ⟨⟨1, -1, 1⟩, rfl⟩

/-- every hypothesis of `C12_json_load_dyn` holds on `jsonBA`, `exDyn`, the ledger "node 4" -/
example : JsonWF jsonBA ∧ DynInv exExt exDyn ∧ PredNodes exDyn ∧ exDyn.lastLen = some 1 ∧
    exDyn.fireIn = some 1 :=
  ⟨jsonBA_wf, exDyn_dynInv, exDyn_predNodes, rfl, rfl⟩

/-- and the model's run: the request fires inside the first decorated call, sifting runs (the
threshold moves to 6, the trigger is consumed), the call is retried; the result is the EXISTING
node 4 = `a ∧ b`, now with two references (the caller's and the new `Function`'s); the shelf's
and the temporaries' references are gone (node 2: 0, node 3: in-degree 1) -/
example : (loadJson jsonBA false exDyn).1 = .ok (.list [4]) ∧
    (loadJson jsonBA false exDyn).2.lastLen = some 6 ∧
    (loadJson jsonBA false exDyn).2.fireIn = none ∧
    (loadJson jsonBA false exDyn).2.ref.toList = [(1, 6), (2, 0), (3, 1), (4, 2)] := by
  decide +kernel

example : ∃ roots' m', loadJson jsonBA false exDyn = (.ok roots', m') ∧
    JsonLoadedDyn jsonBA exExt exDyn roots' m' :=
  C12_json_load_dyn jsonBA exDyn exExt jsonBA_wf exDyn_dynInv exDyn_predNodes

/-- `load_order=True` into the same manager: the order of the file (b < a) is imposed -/
example : (loadJson jsonBA true exDyn).1 = .ok (.list [4]) ∧
    (loadJson jsonBA true exDyn).2.tbl.vars.toList = [("a", 1), ("b", 0)] ∧
    (loadJson jsonBA true exDyn).2.lastLen.isSome = true := by decide +kernel

theorem jsonBA_rooted : Rooted jsonBA := by
  intro ln hln
  have : ln = ⟨2, 1, -1, 1⟩ ∨ ln = ⟨3, 0, -1, 2⟩ := by simpa [jsonBA] using hln
  rcases this with rfl | rfl
  · exact Or.inr ⟨⟨3, 0, -1, 2⟩, by simp [jsonBA], Or.inr rfl⟩
  · exact Or.inl ⟨3, by simp [jsonBA, Roots.values], rfl⟩

example : ∃ roots' m', loadJson jsonBA true exDyn = (.ok roots', m') ∧
    JsonLoaded jsonBA exExt true roots' m' :=
  C12_json_load_order_dyn jsonBA exDyn exExt jsonBA_wf exDyn_dynInv exDyn_predNodes jsonBA_rooted
    (by decide) (by
      intro v hv
      have hk : exDyn.tbl.vars.keys = ["a", "b"] := by decide
      have : v ∈ exDyn.tbl.vars.keys := by rw [TreeMap.mem_keys, TreeMap.mem_iff_contains]; exact hv
      rw [hk] at this
      simpa [jsonBA] using this)

end DD
