/-
  DDProps.C12SchedKeep — C12, `load_json(load_order=False)` with dynamic reordering enabled and ANY
  recorded schedule: EVERY OUTCOME.

  `C12_json_load_dyn_anySchedule` (DDProps.C12Sched) has two alternatives: the load returns with
  `JsonLoadedS`; or the `try:` body of `_load_json` failed with the model's `.sched` and the load
  raises — and of that branch it said no more.  Here that branch is spelled out
  (DDProofs.SchedDumpJsonDynK): a schedule was recorded (`tgt.sched ≠ []`: with none the load
  returns, `C12_json_load_dyn`); `load_json` raises that same error, after `except BaseException:`
  has given back every reference the loader took: `Inv` and `RefExact … ext` hold for the
  caller's OWN ledger (the manager is again as between two calls, `DynInvS ext`), no stray key in
  the unique table, declared names stay declared, the registered roots are the same, and every
  reference the caller holds is still a node denoting the same function of the variable names.
-/
import DDProofs.SchedDumpJsonDynK
import DDProps.C12Sched
open Std
namespace DD

/-- what a `load_json` that failed under a recorded schedule leaves behind -/
structure JsonLoadFailedS (f : JsonFile) (ext : Nat → Nat) (tgt m' : Mgr) : Prop where
  inv : Inv m'
  refs : RefExact m' ext
  dyn : DynInvS ext m'
  pred : PredNodes m'
  oldNames : ∀ v : String, tgt.tbl.vars.contains v = true → m'.tbl.vars.contains v = true
  fileNames : ∀ v ∈ f.levelOfVar.map (·.1), m'.tbl.vars.contains v = true
  regRoots : m'.roots = tgt.roots
  held : ∀ w, HeldX ext w → m'.tbl.Mem w ∧ ∀ σ, denN m'.tbl w σ = denN tgt.tbl w σ

/-- C12, `load_json(load_order=False)`, dynamic reordering enabled, every recorded schedule, EVERY
OUTCOME: the load returns with `JsonLoadedS`; or a sifting inside one of the decorated `var` /
`ite` calls found that the recorded schedule does not fit — then a schedule was recorded, the load
raises the model's `.sched`, and the failed load has kept everything (`JsonLoadFailedS`) -/
theorem C12_json_load_dyn_every_outcome (f : JsonFile) (tgt : Mgr) (ext : Nat → Nat) (hf : JsonWF f)
    (hD : DynInvS ext tgt) (hpn : PredNodes tgt) :
    (∃ roots' m', loadJson f false tgt = (.ok roots', m') ∧ JsonLoadedS f ext tgt roots' m') ∨
    ((jsonTry f false tgt).1 = .error .sched ∧ tgt.sched ≠ [] ∧
      ∃ m', loadJson f false tgt = (.error .sched, m') ∧ JsonLoadFailedS f ext tgt m') := by
  rcases C12_json_load_dyn_anySchedule f tgt ext hf hD hpn with h | ⟨htry, e, he⟩
  · exact Or.inl h
  · refine Or.inr ⟨htry, ?_, ?_⟩
    · intro hs
      obtain ⟨roots', m', el, _⟩ := C12_json_load_dyn f tgt ext hf (hD.toDynInv hs) hpn
      rw [el] at he
      cases he
    · obtain ⟨m', el, D, P, a, b, c, d⟩ := S.loadJson_dyn_failK f hf tgt ext hD hpn htry
      exact ⟨m', el, D.inv, D.refs, D, P, a, b, c, d⟩

/-- the driver's form: the recorded schedule of the line is put in, the remainder dropped -/
theorem C12_json_load_dyn_every_outcome_recorded (f : JsonFile) (tgt : Mgr) (ext : Nat → Nat)
    (hf : JsonWF f) (hD : DynInv ext tgt) (hpn : PredNodes tgt) (sch : List SchedItem) :
    (∃ roots' m', loadJson f false { tgt with sched := sch } = (.ok roots', m') ∧
      JsonLoadedDyn f ext tgt roots' { m' with sched := [] }) ∨
    (sch ≠ [] ∧ ∃ m', loadJson f false { tgt with sched := sch } = (.error .sched, m') ∧
      DynInv ext { m' with sched := [] } ∧
      ∀ w, HeldX ext w → m'.tbl.Mem w ∧ ∀ σ, denN m'.tbl w σ = denN tgt.tbl w σ) := by
  rcases C12_json_load_dyn_every_outcome f { tgt with sched := sch } ext hf (hD.withSched sch)
    (hpn.congr rfl rfl) with ⟨roots', m', el, L⟩ | ⟨_, hs, m', el, K⟩
  · exact Or.inl ⟨roots', m', el, L.driver⟩
  · exact Or.inr ⟨hs, m', el, K.dyn.clear, K.held⟩

/-- C12, JSON round trip into a manager with reordering enabled, every recorded schedule, every
outcome -/
theorem C12_json_roundtrip_dyn_every_outcome (src : Mgr) (roots : Roots) (f : JsonFile) (tgt : Mgr)
    (ext : Nat → Nat) (hIs : Inv src) (hvs : DmpVarsOK src.tbl) (hd : dumpJson src roots = .ok f)
    (hf : JsonWF f) (hD : DynInvS ext tgt) (hpn : PredNodes tgt) :
    (∃ roots' m', loadJson f false tgt = (.ok roots', m') ∧ JsonLoadedS f ext tgt roots' m' ∧
      LoadedAs src.tbl roots m'.tbl roots') ∨
    ((jsonTry f false tgt).1 = .error .sched ∧ tgt.sched ≠ [] ∧
      ∃ m', loadJson f false tgt = (.error .sched, m') ∧ JsonLoadFailedS f ext tgt m') := by
  rcases C12_json_roundtrip_dyn_anySchedule src roots f tgt ext hIs hvs hd hD hpn with h | ⟨htry, _⟩
  · exact Or.inl h
  · rcases C12_json_load_dyn_every_outcome f tgt ext hf hD hpn with ⟨_, m', el, _⟩ | h
    · exfalso
      have := S.jsonFinish_error f false _ htry
      rw [← loadJson_false_eq, el] at this
      obtain ⟨e', he'⟩ := this
      cases he'
    · exact Or.inr h

/-! ### non-vacuity: the bogus schedule of DDProps.C12Sched -/

theorem exDynBad_inv : DynInvS exExt exDynBad ∧ PredNodes exDynBad := by
  unfold exDynBad
  exact ⟨exDyn_dynInv.withSched _, exDyn_predNodes.congr rfl rfl⟩

/-- the `.sched` branch of `C12_json_load_dyn_every_outcome` is the one that holds of `exDynBad`;
the counts computed in `C12_recorded_schedule_example` are those of the caller's ledger -/
example : ∃ m', loadJson jsonBA false exDynBad = (.error .sched, m') ∧
    JsonLoadFailedS jsonBA exExt exDynBad m' := by
  rcases C12_json_load_dyn_every_outcome jsonBA exDynBad exExt jsonBA_wf exDynBad_inv.1
    exDynBad_inv.2 with ⟨_, m', el, _⟩ | ⟨_, _, h⟩
  · have := C12_recorded_schedule_example.2.2.2.2.1
    rw [el] at this
    cases this
  · exact h

end DD
