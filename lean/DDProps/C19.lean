/-
  DDProps.C19 — C back ends: same operator meanings and a reference held for every handle.

  PARTIAL BY NATURE.  The Cython extensions cannot be built here (no CUDD, Sylvan, BuDDy).
  Every theorem below is a `decide` over tables that `harness/extract.py` regenerates from
  the TEXT of `dd/cudd.pyx`, `dd/cudd_zdd.pyx`, `dd/sylvan.pyx`, `dd/buddy.pyx` on every
  run (`Generated/CTables.lean`), so it is re-proved on whatever the current source says.
  What the theorems are relative to (the trusted base of C19):

  * the reader `harness/cpyx.py` (line-structured splitting, `cdef`/cast rewriting, Python's
    `ast` on each function body; symbolic execution of `apply` once per spelling; explicit
    control-flow paths, plus one exit per call that may raise a Python exception — classified from
    the callee's name: not a C function declared `extern` / in the `.pxd` / cimported from libc,
    not a `cdef` function of the module without `raise`/`assert` that calls only such functions —
    per subscript of a Python object and per type test of a local declared `g: Function`, each taken
    through the enclosing `finally` blocks and the `except` handlers that may match
    (`refTraces_exceptionSafe`); `op`-correlations between successive `if` chains are not modelled;
    loops are unrolled 0, 1, 2 times with every iteration checked to be reference-neutral; references
    kept in C arrays / dicts / hash tables are followed through a ghost count per container, where
    the loops "dereference every element once" (also: "every element that is not NULL"), "set every
    slot to NULL" are recognised by their shape, and of the slots of an array only this is known:
    a loop that stores into it ran to its end, or every slot was set to NULL before);
  * the hand-written meaning of the C functions in `DD/CWrap.lean` (`cConst`, `cUn`, `cBin`,
    `cTer`, `cQuantSig`, `producerKind`, `isRefFn`, `isDerefFn`);
  * error guards in `apply` (`self.manager != u.manager`, `r is NULL`, …; listed in
    `CApplyTable.guards`) are assumed not to fire;
  * nothing is executed: no statement is made about the compiled extension modules.

  The functions with node events that the reader could not follow are listed in
  `Gen.cUncovered` (at present: the `_test_*` helpers only); no theorem speaks about them.
  The reader REFUSES a function (it becomes not followed, `uncovered_only_tests` fails) rather
  than guess: a node or a handle passed to a local name (an alias), to a computed callee or
  (raw node, or a handle made in the function) to something neither declared nor defined in the
  module; `incref`/`decref` on a value it cannot identify; an update or a test of `_ref` of another
  shape than `h._ref += k`, `h._ref = k`, `h._ref <rel> k`; node events inside a conditional
  expression or under `and`/`or` (as a statement these are followed both ways); a loop that stores
  into a constant slot of a C array.  Code outside the functions must not mention a reference-count
  function at all (`noModuleLevelRefCode`).  `allFunctionsSeen` ties the number of definition keywords of
  each file to the functions the reader found.
-/
import DD.Doc
import DD.CWrap
import Generated.Tables
import Generated.CTables
import DD.CWrapReviewed
import DDProofs.CQuantCube
namespace DD

/-! ### operator meanings -/

def cBools : List Bool := [false, true]

/-- rows on which `apply` does not raise (an unrecognised row counts as accepted, so that
every obligation fails on it) -/
def CRow.accepted (r : CRow) : Bool :=
  match r.outcome with
  | .raises _ => false
  | _ => true

def isQuant : Conn → Bool
  | .forall_ | .exists_ => true
  | _ => false

/-- one accepted row computes the documented connective of its spelling:
propositional connectives on all 8 operand valuations and mentioning only the operands the
arity provides; a quantifier spelling must be a recognised quantifier call of the right
kind (its operand roles are the subject of `cQuant_roles`) -/
def cRowSound (r : CRow) : Bool :=
  match r.outcome with
  | .raises _ => true
  | .unknown _ => false
  | .ret e =>
    match docConn r.alias with
    | none => false
    | some c =>
      if isQuant c then
        (match cRoles e with
         | some q => q.forall_ == (c == .forall_)
         | none => false)
      else
        (c.arity ≥ 2 || !e.uses .v) && (c.arity ≥ 3 || !e.uses .w) &&
        cBools.all fun u => cBools.all fun v => cBools.all fun w =>
          evalC e u v w == some (c.eval u v w)

def cTableSound (t : CApplyTable) : Bool := t.rows.all cRowSound

/-- **C19 (operator meanings).**  For each of the four back ends and every spelling that its
`apply` accepts, the C expression in that branch of the *source text* evaluates, under the
assumed meaning of the C functions (`DD/CWrap.lean`), to the documented connective of the
spelling (`DD/Doc.lean`, the same reference `Gen.applyTable` of `dd.bdd` is proved against)
for all 8 operand valuations.  Source level only; see the header for what is trusted. -/
theorem cApply_sound : Gen.cApply.all cTableSound = true := by decide +kernel

/-- `cApply_sound` spelled out for the propositional connectives: for every back end `t`, every
row `r` of its `apply` table whose branch returns the C expression `e`, and every operand
valuation, `evalC e` is the documented connective of the spelling. -/
theorem cApply_sound_forall :
    ∀ t ∈ Gen.cApply, ∀ r ∈ t.rows, ∀ e c, r.outcome = .ret e → docConn r.alias = some c →
      isQuant c = false → ∀ u v w : Bool, evalC e u v w = some (c.eval u v w) := by
  intro t ht r hr e c he hc hq u v w
  have h := List.all_eq_true.mp cApply_sound t ht
  have h2 := List.all_eq_true.mp h r hr
  unfold cRowSound at h2
  rw [he] at h2
  simp only [hc, hq] at h2
  have h3 : (cBools.all fun u => cBools.all fun v => cBools.all fun w =>
      evalC e u v w == some (c.eval u v w)) = true := by
    revert h2
    simp only [Bool.and_eq_true, Bool.false_eq_true, ↓reduceIte]
    exact fun h => h.2
  have mem : ∀ b : Bool, b ∈ cBools := by intro b; cases b <;> simp [cBools]
  have := List.all_eq_true.mp (List.all_eq_true.mp (List.all_eq_true.mp h3 u (mem u)) v (mem v)) w (mem w)
  exact eq_of_beq this

/-- the operator methods of the handles (`~u`, `u & v`, `u | v`, `u.implies(v)`, `u.equiv(v)`)
and `ite` of the managers, where a back end defines them, compute the connective of the
corresponding `apply` spelling (same evaluator, same trusted tables) -/
theorem cOperators_sound : (Gen.cOperators.all fun x => x.2.2.accepted && cRowSound x.2.2) = true := by
  decide +kernel

/-- all four back ends are present and each table lists the whole `dd._abc` vocabulary -/
theorem cApply_complete :
    Gen.cApply.map (·.backend) = [.cudd, .cuddZdd, .sylvan, .buddy] ∧
    (Gen.cApply.all fun t => Gen.allOps.all fun o => t.rows.any fun r => r.alias == o) = true := by
  decide +kernel

/-! ### operand roles of the quantifier spellings -/

def atomOperand : Atom → Option COperand
  | .u => some .u | .v => some .v | .w => some .w
  | _ => none

/-- roles in `dd.bdd.BDD.apply`, read off the regenerated `Gen.applyTable`:
`(universal?, operand that supplies the variables, operand that is quantified)` -/
def refRoles (al : String) : Option (Bool × COperand × COperand) :=
  match Gen.applyTable.find? (fun r => r.aliases.contains al) with
  | some ⟨_, .quant fa a b⟩ =>
    match atomOperand a, atomOperand b with
    | some x, some y => some (fa, x, y)
    | _, _ => none
  | _ => none

/-- the reference: in `dd.bdd`, `apply('\A' | '\E', u, v)` quantifies the SECOND operand over
the support of the FIRST -/
theorem refRoles_eq :
    refRoles "\\A" = some (true, .u, .v) ∧ refRoles "forall" = some (true, .u, .v) ∧
    refRoles "\\E" = some (false, .u, .v) ∧ refRoles "exists" = some (false, .u, .v) := by decide +kernel

def cRowRoles (r : CRow) : Option (Bool × COperand × COperand) :=
  match r.outcome with
  | .ret e => (cRoles e).map fun q => (q.forall_, q.varsFrom, q.body)
  | _ => none

def isQuantAlias (al : String) : Bool :=
  match docConn al with
  | some c => isQuant c
  | none => false

def cQuantOk (t : CApplyTable) : Bool :=
  t.rows.all fun r => !(r.accepted && isQuantAlias r.alias) || cRowRoles r == refRoles r.alias

/-- the full statement: every back end that accepts a quantifier spelling gives its operands
the roles they have in `dd.bdd` (first operand: variables, second operand: quantified) -/
def cQuant_roles_statement : Prop := Gen.cApply.all cQuantOk = true

def tableOf (b : Backend) : Option CApplyTable := Gen.cApply.find? (·.backend == b)

def rowOf (b : Backend) (al : String) : Option CRow :=
  (tableOf b).bind fun t => t.rows.find? (·.alias == al)

/-- the Sylvan entry (finding F6, repaired): `sylvan.pyx` `apply('\\A', u, v)` is
`sylvan_forall(v.node, u.node)`, and Sylvan's signature is `sylvan_forall(a, qvars)`: the SECOND
operand is quantified over the variables of the FIRST, as in `dd.bdd`, `cudd.pyx` and
`cudd_zdd.pyx`.  Same for `'\\E'`, `'forall'`, `'exists'`.  (Before the repair the generated rows
were `(·, .v, .u)` and this theorem's negation was the proved statement.) -/
theorem cQuant_roles_sylvan :
    (rowOf .sylvan "\\A").bind cRowRoles = some (true, .u, .v) ∧
    (rowOf .sylvan "forall").bind cRowRoles = some (true, .u, .v) ∧
    (rowOf .sylvan "\\E").bind cRowRoles = some (false, .u, .v) ∧
    (rowOf .sylvan "exists").bind cRowRoles = some (false, .u, .v) := by decide +kernel

/-- **C19 (operand roles)**: the full statement holds on the current source, for every back end -/
theorem cQuant_roles : cQuant_roles_statement := by
  unfold cQuant_roles_statement; decide +kernel

/-- the same without the Sylvan entry (kept: it was the proved part while F6 was open) -/
theorem cQuant_roles_partial :
    (Gen.cApply.all fun t => t.backend == .sylvan || cQuantOk t) = true := by decide +kernel

/-- how the variable-supplying operand is used (data, not an obligation): `cudd.pyx` passes
`u.node` itself as the cube (CUDD returns NULL unless it is a positive cube), `cudd_zdd.pyx`
takes `self.support(u)` like `dd.bdd` -/
def cQuantMode (b : Backend) (al : String) : Option VarsMode :=
  match rowOf b al with
  | some ⟨_, .ret e, _⟩ => (cRoles e).map (·.mode)
  | _ => none

theorem cQuant_modes :
    cQuantMode .cudd "\\A" = some .cubeArg ∧ cQuantMode .cuddZdd "\\A" = some .supportOf ∧
    cQuantMode .sylvan "\\A" = some .cubeArg ∧ cQuantMode .buddy "\\A" = none := by decide +kernel

/-- the variables that an accepted quantifier branch abstracts, when the first operand `u` is the
positive cube of the list `S` and `L` lists the support of `u`.  ASSUMED meaning of the C calls in
`cubeArg` mode (CUDD `Cudd_bddExistAbstract(f, cube)` / `Cudd_bddUnivAbstract`, Sylvan
`sylvan_exists(a, variables)` / `sylvan_forall`): the variables that occur in the cube. -/
def quantVars (mode : VarsMode) (S L : List Nat) : List Nat :=
  match mode with
  | .cubeArg => S
  | .supportOf => L

/-- **C19 (meaning of the quantifier spellings, gap between the back ends made precise).**
`cQuant_roles` says that every back end quantifies the SECOND operand over variables taken from
the FIRST; `cQuant_modes` says HOW they are taken: `dd.cudd` and `dd.sylvan` pass `u.node` as the
cube argument of the library, `dd.cudd_zdd` (like `dd.bdd`) computes `support(u)`.  This theorem:

1. on the regenerated tables, every accepted quantifier row of every back end is a recognised
   quantifier call with roles (variables from `u`, `v` quantified) in one of the two modes;
2. WHEN `u` IS A POSITIVE CUBE (`u = cubeOf S`), both modes abstract the same variables from any
   `v`, namely the support of `u` — the back ends agree with `dd.bdd`, whatever list `L` of the
   support is used (order, repetitions).

OBSERVATION (not a theorem about the libraries, which cannot be run here): for an operand `u`
that is NOT a positive cube (`or_not_cube`: `x ∨ y`) `dd.bdd` and `dd.cudd_zdd` still quantify over
`support(u)`, whereas CUDD's `Cudd_bddExistAbstract` is documented to return `NULL` when its
second argument is not a cube (`dd.cudd` then raises) and Sylvan's behaviour on a non-cube
variable set is not specified.  User code that is meant to keep its meaning when the import is
switched must therefore pass a conjunction of positive variables as the first operand. -/
theorem cQuant_meaning_cube :
    (Gen.cApply.all fun t => t.rows.all fun r =>
      !(r.accepted && isQuantAlias r.alias) ||
      match r.outcome with
      | .ret e => (cRoles e).any fun q => q.varsFrom == .u && q.body == .v &&
                    some q.forall_ == (docConn r.alias).map (· == .forall_)
      | _ => false) = true ∧
    ∀ (mode : VarsMode) (fa : Bool) (S L : List Nat) (v : CQuant.BFun),
      (∀ x, x ∈ L ↔ CQuant.DependsOn (CQuant.cubeOf S) x) →
      CQuant.quantL fa (quantVars mode S L) v = CQuant.quantL fa L v := by
  refine ⟨by decide +kernel, ?_⟩
  intro mode fa S L v hL
  cases mode
  · exact CQuant.quant_cube_eq_support fa S L v hL
  · rfl

/-- non-vacuity: `u = x₀ ∧ x₂`, its support listed as `[2, 0, 2]`; `∃` of `v = x₀ ⊕ x₁` is `true`,
`∀` is `false`, in both modes -/
example : (∀ x, x ∈ [2, 0, 2] ↔ CQuant.DependsOn (CQuant.cubeOf [0, 2]) x) := by
  intro x
  rw [CQuant.dependsOn_cubeOf]
  simp only [List.mem_cons, List.not_mem_nil, or_false]
  omega
example : CQuant.quantL false (quantVars .cubeArg [0, 2] [2, 0, 2]) (fun a => a 0 != a 1) (fun _ => false) = true ∧
    CQuant.quantL true (quantVars .supportOf [0, 2] [2, 0, 2]) (fun a => a 0 != a 1) (fun _ => false) = false := by
  decide +kernel

/-- the reader's own table of quantifier signatures (`cpyx.QUANT_SIG`, used by the Python
oracle) and the one of `DD/CWrap.lean` give the same roles on every accepted quantifier row -/
def cRolesConsistent : Bool :=
  (Gen.cApply.all fun t => t.rows.all fun r =>
    !(r.accepted && isQuantAlias r.alias) ||
    (Gen.cQuantRolesPy.filter fun x => x.1 == t.backend && x.2.1 == r.alias).map (·.2.2)
      == (cRowRoles r).toList) &&
  (Gen.cQuantRolesPy.all fun x => (rowOf x.1 x.2.1).any fun r => r.accepted && isQuantAlias r.alias)

/-! ### vocabulary -/

def acceptedOps (t : CApplyTable) : List String :=
  (t.rows.filter CRow.accepted).map (·.alias)

def sameSet (a b : List String) : Bool :=
  a.all (b.contains ·) && b.all (a.contains ·)

/-- spellings of the `dd._abc` vocabulary that a back end rejects (data) -/
def cMissing (t : CApplyTable) : List String :=
  Gen.allOps.filter fun o => !(acceptedOps t).contains o

def cVocabOk (t : CApplyTable) : Bool :=
  -- accepts exactly what it declares
  sameSet (acceptedOps t) t.declared &&
  -- nothing outside the package vocabulary, each with its documented arity class
  (acceptedOps t).all (fun o =>
    Gen.allOps.contains o &&
    match docConn o with
    | none => false
    | some c =>
      (c.arity == 1) == Gen.unaryOps.contains o &&
      (c.arity == 2) == Gen.binaryOps.contains o &&
      (c.arity == 3) == Gen.ternaryOps.contains o) &&
  -- a back end that starts with `assert_operator_arity(op, v, w, 'bdd')` declares, hence
  -- accepts, the whole vocabulary
  (!t.declaredViaAbc || sameSet t.declared Gen.allOps) &&
  -- no spelling is listed twice
  (t.rows.all fun r => (t.rows.filter fun s => s.alias == r.alias).length == 1)

/-- **C19 (vocabulary).**  Each back end's `apply` accepts exactly the vocabulary it declares
(the `dd._abc` vocabulary through `_utils.assert_operator_arity` for CUDD, CUDD-ZDD and
Sylvan; the module's own `Literal[...]` for BuDDy), all of it inside `dd._abc`'s vocabulary.
A smaller vocabulary (BuDDy) is data (`cMissing`), not a failure. -/
theorem cVocab : Gen.cApply.all cVocabOk = true := by decide +kernel

/-- the Python-side views emitted next to the tables (`Gen.cAcceptedPy`, `Gen.cQuantRolesPy`)
agree with what is derived here from the expression trees -/
theorem cTables_consistent :
    cRolesConsistent = true ∧
    (Gen.cApply.all fun t =>
      (Gen.cAcceptedPy.find? (·.1 == t.backend)).map (·.2) == some (acceptedOps t)) = true := by
  decide +kernel

/-- the three full back ends reject nothing of the vocabulary -/
theorem cVocab_full :
    (Gen.cApply.all fun t => !t.declaredViaAbc || (cMissing t).isEmpty) = true := by decide +kernel

/-! ### reference discipline -/

/-- the `cdef DdRef` functions defined in a back end's own `.pyx` -/
def localsOf (b : Backend) : List String :=
  ((Gen.cLocalProducers.find? (·.1 == b)).map (·.2)).getD []

/-- **C19 (references).**  On every explicit path of every covered function
(`Gen.cRefTraces`; NOT the functions in `Gen.cUncovered`):

* an ordinary function ends every path (return or `raise`) holding no reference of its own:
  each `Cudd_Ref` / `cuddRef` / `sylvan_ref` / `bdd_addref` it performs on a node is matched
  by one dereference on that path, a node that arrives with a reference
  (`Dddmp_cuddBddLoad`) is dereferenced once, a dereference never happens without a
  reference or a handle to back it, no node is wrapped twice, and a raw node never escapes
  to Python without a handle (only `cdef DdRef` functions return raw nodes);
* `wrap(bdd, node)` hands the node to `Function.init` exactly once; `Function.init` /
  `Function.__cinit__` takes exactly one reference on it on every path that does not raise;
* `Function.__dealloc__` gives back exactly one reference on every path that does not
  raise, except the path guarded by `self._ref == 0` (CUDD wrappers: the user already gave
  it back through `decref`);
* `incref` / `decref` / `_incref` / `_decref` move exactly one reference; a call of one of them
  from an ordinary method on a handle it made (`self.incref(f)`) counts as a reference taken /
  given back on the handle's node;
* in the CUDD wrappers, whose handles carry the counter `_ref` (`refField_backends`): on every
  path of `Function.init`, `Function.__dealloc__`, `incref`, `decref` the change of `_ref`
  equals the references taken minus those given back (`fieldPathOk`; INVARIANT `_ref` = library
  references the handle owns; exception written into the definition: `decref(u, _direct=True)`),
  `_ref` is decremented only where the path conditions make it positive, `__dealloc__` gives
  nothing back only where they make it 0, `init` leaves it at exactly the one reference taken;
  no other function assigns to `_ref`;
* references parked in a container (`vector` of `_c_compose`, the memo `table` of
  `_compose_root` / `_compose`, `x` of `_multi_compose`, CUDD's hash table in
  `cuddHashTableQuitZdd`): a reference moves into the container when a node the function holds
  is stored; the loop that dereferences every element gives all of them back, once, over the
  allocated size, and is refused on a container that merely borrows; at the end of every path a
  container created by the function holds nothing, and a container of the caller is either left
  alone (what was stored is handed on with it) or consumed (released and freed).

A path on which the wrapper tests `x.ref <= 0` while it holds a reference on `x` (the
`cuddRef(x); if x.ref <= 0: raise AssertionError(…)` idiom of `_compose`, `_compose_root`,
`_c_compose`) cannot be taken and is skipped from that test on (`refNonPos`; listed by
`deadAssertions_where`: these assertions would leak what the function holds if they fired).
That every C array is also freed is a separate statement (`refTraces_arraysFreed`).

* loops: every iteration of an unrolled loop (`iterBegin … iterEnd`) ends with each node held exactly
  as often as when it began (references moved into a container aside): iterations are
  reference-neutral, so 0, 1, 2 iterations stand for any number;
* arrays: every slot is dereferenced (`derefAll`), or the array is handed to a call (`passC`), only
  after a loop that stores into it ran to its end (`fillBegin … fillEnd`); the guarded loop
  `if c[i] is not NULL: deref` (`derefNonNull`) also after `c[i] = NULL` for every slot (`nullInit`).

THIS theorem speaks about the paths that end in `return` / an explicit `raise` (and, for the
functions with a role, about all paths: an exit through an exception from a callee counts as a
raising path).  The exits of ordinary functions through exceptions raised INSIDE callees are the
subject of `refTraces_exceptionSafe`.
Relative to the reader and to `producerKind` / `isRefFn` / `isDerefFn` in `DD/CWrap.lean`.
Not modelled (hence not claimed): `MemoryError` other than through a call, exceptions from
iteration / attribute access / comparison of Python objects, "every iteration of a fill stores
once, into a different slot", and the interplay "`init` raised, `__dealloc__` still runs" (CUDD
wrappers are guarded by `_ref == 0`; `sylvan.pyx` dereferences the zero-initialised node attribute).
(`decide +kernel`: the `Decidable` instance is evaluated by the kernel only — about 980 paths.) -/
theorem refTraces_balanced :
    (Gen.cRefTraces.all fun m =>
      methodOkF (Gen.cRefFieldBackends.contains m.backend) (localsOf m.backend) m) = true := by decide +kernel

/-- the handles of the two CUDD wrappers carry the counter `_ref` (`cdef public int _ref` in the
class `Function`); Sylvan's and BuDDy's do not.  For the former, `refTraces_balanced` includes
`fieldPathOk`: on every path of `Function.init`, `Function.__dealloc__`, `incref`, `decref` the
change of `_ref` equals the library references taken minus those given back (INVARIANT: `_ref` =
library references the handle owns); the counter is decremented only where the path conditions
make it positive; `__dealloc__` keeps everything only where they make it 0.  The one exception is
spelled out in `fieldPathOk`: `decref(u, _direct=True)`. -/
theorem refField_backends : Gen.cRefFieldBackends = [.cudd, .cuddZdd] := by decide +kernel

/-- every definition keyword of the four files is accounted for: the number of logical lines
that begin a definition (`def`, `cpdef`, `async def`, `cdef … (` — counted from the keyword alone)
equals the number of functions the reader found plus the definitions nested in their bodies, and
every function found is followed (`Gen.cRefTraces`), listed as not followed (`Gen.cUncovered`), or
has no node event at all -/
theorem allFunctionsSeen :
    Gen.cFunctionCount.map (·.1) = [.cudd, .cuddZdd, .sylvan, .buddy] ∧
    (Gen.cFunctionCount.all fun x =>
      match x with
      | (b, tokens, found, nested, traced, uncovered, noEvents) =>
        tokens == found + nested && found == traced + uncovered + noEvents &&
        traced == (Gen.cRefTraces.filter (·.backend == b)).length &&
        uncovered == (Gen.cUncovered.filter (·.backend == b)).length) = true := by
  decide +kernel

/-- additional check: an unprotected fresh node (no reference, no handle, not in a container that
owns a reference) is never used after a later node-creating C call on the same path (such a call
may garbage-collect), nor after a recursive dereference — of a node, or of every element of a
container — that may have freed it; a container is not handed on after its references were given
back, nor with a borrowed element that was left unprotected -/
theorem refTraces_noFloatingUse :
    (Gen.cRefTraces.all fun m => m.role != .plain || m.paths.all fun p =>
      p.exceptional || pathNoFloat (localsOf m.backend) m p) = true := by
  decide +kernel

/-! #### exceptions raised inside callees -/

/-- the exit is one of the reviewed ones: same function, same site, and the function still owns
exactly what the review recorded -/
def exitLeakKnown (m : CMethod) (p : CPath) : Bool :=
  knownExceptionLeaks.any fun k => k.backend == m.backend && k.fn == m.name && k.site == p.exitSite &&
    some k.held == exitSummary (localsOf m.backend) m p

theorem exitLeak_spec (refused : List (String × Int)) (loc : List String) (m : CMethod) (p : CPath) :
    exitLeak refused loc m p =
      if pathBalanced loc m p then none else some ((exitSummary loc m p).getD refused) := by
  unfold exitLeak pathBalanced runPath runPathC exitSummary
  cases h : runPathS loc false m.returnsNode [] [] [] p.events with
  | fin s cs => simp only []; split <;> simp_all
  | stop v => simp only []; split <;> simp_all

/-- what stands for the summary of an exit on which a `finally` / `except` block is refused -/
def refusedMark : List (String × Int) := [("<refused>", 0)]

/-- the exits on which an ordinary function still owns something, by the rules of `DD/CWrap.lean`:
`(back end, function, site, what is still owned)`, first occurrences, in table order -/
def exitLeaksLean : List (Backend × String × String × List (String × Int)) :=
  ((Gen.cRefTraces.filter (·.role == .plain)).flatMap fun m =>
    (m.paths.filter CPath.exceptional).filterMap fun p =>
      (exitLeak refusedMark (localsOf m.backend) m p).map fun h => (m.backend, m.name, p.exitSite, h)).eraseDups

/-- the two implementations of the rules — `DD/CWrap.lean` and its Python twin
`harness/checks_cwrap.py`, which searches for the concrete function and line when an obligation
fails — find the SAME exits that still own something, with the same summaries, on the regenerated
table (whatever the source says now, a seeded change included).  This is the one place where the
exceptional paths are run (`decide +kernel`); the theorems below work on the resulting list. -/
theorem exitLeaks_twins_agree : exitLeaksLean = Gen.cExitLeaksPy := by decide +kernel

def leakEntryKnown (x : Backend × String × String × List (String × Int)) : Bool :=
  x.2.2.2 != refusedMark &&
  knownExceptionLeaks.any fun k => k.backend == x.1 && k.fn == x.2.1 && k.site == x.2.2.1 && k.held == x.2.2.2

/-- every exit that still owns something is a reviewed one -/
theorem exitLeaks_all_known : exitLeaksLean.all leakEntryKnown = true := by
  rw [exitLeaks_twins_agree]; decide +kernel

/-- **C19 (references, exceptional exits).**  Every call in a followed function that may raise a
Python exception — anything but a C function (declared `extern` / in the `.pxd` / cimported from
libc or `cpython.mem`) and the module's own `cdef` functions that cannot raise (`Gen.cNoRaiseLocal`);
also a subscript of a Python object and the run-time type test of a local declared `g: Function` —
gives an exit `raiseIn callee#k line` through the enclosing `finally` blocks and the `except` handlers
that may match.  On every such exit of every ordinary function the references taken so far and not
yet given back, wrapped, or parked in a container that a `finally` releases are balanced, exactly as
on a `return` — EXCEPT on the exits listed in `knownExceptionLeaks` (DD/CWrapReviewed.lean), which
are identified by function, site and what is still owned there (`exitSummary`), so that a new call
between a `ref` and its `deref`, or a new reference held across an old call, is refused.
The functions with a role (`wrap`, `init`, `__dealloc__`, `incref`, `decref`) are covered by
`refTraces_balanced`: an exceptional exit counts as a raising path (takes nothing, gives nothing
back).  READ AGAINST THE STATEMENT OF C19 the listed exits are paths on which a temporary reference
is not released; all of them need a broken internal invariant or a `MemoryError`
(`exceptionLeaks_reachable`; the one that was reachable with a wrong argument, `cudd_zdd._c_compose`
through `ZDD.let` — finding F21 — is repaired in the source and no longer listed). -/
theorem refTraces_exceptionSafe :
    ∀ m ∈ Gen.cRefTraces, m.role = .plain → ∀ p ∈ m.paths, p.exceptional = true →
      pathBalanced (localsOf m.backend) m p = true ∨ exitLeakKnown m p = true := by
  intro m hm hrole p hp hexc
  cases hb : pathBalanced (localsOf m.backend) m p with
  | true => exact Or.inl rfl
  | false =>
    right
    have hmem : (m.backend, m.name, p.exitSite,
        (exitSummary (localsOf m.backend) m p).getD refusedMark) ∈ exitLeaksLean := by
      unfold exitLeaksLean
      rw [List.mem_eraseDups, List.mem_flatMap]
      refine ⟨m, List.mem_filter.mpr ⟨hm, by simp [hrole]⟩, ?_⟩
      rw [List.mem_filterMap]
      refine ⟨p, List.mem_filter.mpr ⟨hp, hexc⟩, ?_⟩
      rw [exitLeak_spec, hb]
      rfl
    have hk := List.all_eq_true.mp exitLeaks_all_known _ hmem
    unfold leakEntryKnown at hk
    rw [Bool.and_eq_true] at hk
    obtain ⟨hne, hany⟩ := hk
    obtain ⟨k, hkmem, hkp⟩ := List.any_eq_true.mp hany
    unfold exitLeakKnown
    refine List.any_eq_true.mpr ⟨k, hkmem, ?_⟩
    simp only [Bool.and_eq_true, beq_iff_eq] at hkp ⊢
    obtain ⟨⟨⟨h1, h2⟩, h3⟩, h4⟩ := hkp
    refine ⟨⟨⟨h1, h2⟩, h3⟩, ?_⟩
    cases hs : exitSummary (localsOf m.backend) m p with
    | none =>
      rw [hs] at hne
      simp [Option.getD] at hne
    | some h =>
      rw [hs] at h4
      simp only [Option.getD_some] at h4
      rw [h4]

/-- every reviewed exit is still there (the observation is about the CURRENT source: when a leak is
repaired this fails until the entry is removed) -/
theorem exceptionLeaks_present :
    (knownExceptionLeaks.all fun k => exitLeaksLean.contains (k.backend, k.fn, k.site, k.held)) = true := by
  rw [exitLeaks_twins_agree]; decide +kernel

/-- none of the reviewed exits can be reached by a caller with a wrong argument: what is left needs a
broken internal invariant or a `MemoryError`.  (The one that could — `_c_compose` of cudd_zdd.pyx at
the type test of `g = dvars[var]`, finding F21 — is repaired in the source: every slot of `vector`
is set to NULL, the loop that fills it is inside the `try`, the `finally` releases the slots that are
not NULL; on the source before the repair `refTraces_exceptionSafe` and `refTraces_arraysFreed`
fail for `_c_compose`.) -/
theorem exceptionLeaks_reachable :
    (knownExceptionLeaks.filter (·.reach == .userError)).map (fun k => (k.backend, k.fn, k.site)) = [] := by
  decide +kernel

/-- the exits are there: several hundred exceptional paths, and the functions whose discipline hinges
on a `try … finally` have exits INSIDE the `try` that run the `finally` (`free` after `raiseIn` is
impossible: the exit is the last event; so: a path with `free` that ends in `raiseIn`) -/
theorem exceptionalExits_covered :
    ((Gen.cRefTraces.map fun m => (m.paths.filter CPath.exceptional).length).sum ≥ 300) = true ∧
    (["_c_compose", "BDD._multi_compose", "BDD._swap"].all fun f => Gen.cRefTraces.any fun m =>
      m.name == f && m.paths.any fun p => p.exceptional &&
        p.events.any fun e => match e with | .free .. => true | _ => false) = true ∧
    -- `_c_compose` (cudd_zdd.pyx): an exit from INSIDE the loop that fills `vector` reaches the guarded
    -- release of the `finally` block
    (Gen.cRefTraces.any fun m => m.backend == .cuddZdd && m.name == "_c_compose" && m.paths.any fun p =>
      p.exceptional && (p.events.any fun e => match e with | .fillBegin _ => true | _ => false) &&
      !(p.events.any fun e => match e with | .fillEnd _ => true | _ => false) &&
      p.events.any fun e => match e with | .derefNonNull .. => true | _ => false) = true := by
  decide +kernel

/-- where a path relies on "a handle returned by `self.var(…)` keeps no node alive that the manager
does not keep alive anyway" (`permanentHandleCalls`, used by the `handleDrop` rule): in that back
end `BDD.var` is followed, returns a handle on every path that does not raise, and wraps nothing
but the result of a `permanent` C call (`Cudd_bddIthVar`) -/
def usesPermanentHandle (b : Backend) : Bool :=
  Gen.cRefTraces.any fun m => m.backend == b && m.paths.any fun p => p.events.any fun e =>
    match e with | .handleDrop _ via => permanentHandleCalls.contains via | _ => false

def wrapsOnlyPermanent (m : CMethod) : Bool :=
  (m.paths.any fun p => p.events.any fun e => match e with | .wrap _ => true | _ => false) &&
  m.paths.all fun p => p.events.all fun e =>
    match e with
    | .wrap x => p.events.any fun e' =>
        match e' with
        | .produce y fn _ => y == x && producerKind fn == some .permanent
        | _ => false
    | _ => true

theorem permanentHandles_ok :
    ([Backend.cudd, .cuddZdd, .sylvan, .buddy].all fun b => !usesPermanentHandle b ||
      Gen.cRefTraces.any fun m => m.backend == b && m.name == "BDD.var" && m.role == .plain &&
        wrapsOnlyPermanent m) = true ∧
    usesPermanentHandle .cudd = true := by decide +kernel

/-- every C array of node pointers that a path allocates is freed on that path, except on the
paths listed in `knownArrayLeaks` by function and exception (DD/CWrapReviewed.lean:
`BDD._multi_compose` raises `ValueError` out of the loop that fills the array; memory only, no
node reference is involved) -/
theorem refTraces_arraysFreed :
    (Gen.cRefTraces.all fun m => m.role != .plain || m.paths.all fun p =>
      pathArraysFreed (localsOf m.backend) m p ||
      knownArrayLeaks.any fun k => k.1 == m.backend && k.2.1 == m.name && endsInRaiseOf k.2.2 p.events) = true := by
  decide +kernel

/-- **C19 (the right dereference).**  Every dereference in a followed function — of a node, of every
element of a container — uses a function of the method's back end (`allowedDerefs`: never
`Cudd_RecursiveDeref` on the nodes of `dd.cudd_zdd`, never `Cudd_RecursiveDerefZdd` in `dd.cudd`), and
`Function.__dealloc__` gives the reference of the handle back with the function that RECLAIMS the
node and releases its children (`disposalDerefs`: `Cudd_RecursiveDeref` / `Cudd_IterDerefBdd`,
`Cudd_RecursiveDerefZdd`, `sylvan_deref`, `bdd_delref`), not with `Cudd_Deref` / `cuddDeref`, which only
decrement.  (`decref(u, recursive=False)` of the CUDD wrappers offers the non-recursive function on
purpose; it is the caller's choice.) -/
theorem refTraces_derefKinds : (Gen.cRefTraces.all derefKindsOk) = true := by decide +kernel

/-- a node whose last reference is given back with CUDD's NON-recursive dereference is handed on
alive afterwards (returned, wrapped, stored) — it is never dropped, which would leave it and the
references it holds on its children unreclaimed — except in the functions of `reviewedPlainDrops` -/
theorem refTraces_noPlainDrop :
    (Gen.cRefTraces.all fun m => m.role != .plain || m.paths.all fun p =>
      !pathPlainDrop (localsOf m.backend) m p ||
      reviewedPlainDrops.any fun k => k.1 == m.backend && k.2.1 == m.name &&
        (k.2.2 == "" || k.2.2 == endLabel p.events)) = true := by decide +kernel

/-- no code outside the functions (module level, class level; `extern` blocks aside) mentions a
reference-count function or method: `_bump = BDD.incref`, `_leak = lambda u: Cudd_Ref(u.node)` would be
reached through names the reader does not follow (a handle made in a function and passed to such a
name makes that function NOT followed) -/
theorem noModuleLevelRefCode : Gen.cModuleLevelRefs = [] := by decide +kernel

/-- the named assumption `directDecrefHandsOver` (`assumeDirectDecref`, DD/CWrap.lean): the callers of
`decref(u, _direct=True)` in the package are in `dd/_copy.py` only (regenerated by a search of
`dd/*.py`, `dd/*.pyx` for `_direct=True`) -/
theorem directDecref_users :
    (Gen.cDirectDecrefUsers.all fun x => x.1 == "dd/_copy.py") = true ∧ Gen.cDirectDecrefUsers ≠ [] := by decide +kernel

/-- … and it is the ONLY thing the assumption is used for: without it exactly the two `decref`
methods of the CUDD wrappers fail, everything else is unchanged -/
theorem directDecref_only_exception :
    ((Gen.cRefTraces.filter fun m =>
        (m.role == .refDec || m.role == .refInc || m.role == .handleInit || m.role == .handleDealloc) &&
        !fieldMethodOkA false (Gen.cRefFieldBackends.contains m.backend) m).map fun m => (m.backend, m.name))
      = [(.cudd, "BDD.decref"), (.cuddZdd, "ZDD.decref")] := by decide +kernel

/-- the paths that are skipped because they assume `x.ref <= 0` for a node on which a reference
is held, and that would otherwise end holding a reference, all belong to the three functions of
the ZDD composition (an observation about the source: `reviewedDeadAssertions`) -/
theorem deadAssertions_where :
    (Gen.cRefTraces.all fun m => reviewedDeadAssertions.contains (m.backend, m.name) ||
      m.paths.all fun p => !pathInfeasible (localsOf m.backend) m p) = true := by decide +kernel

/-- the functions that are NOT followed by the reader (`Gen.cUncovered`, test helpers aside) are
exactly those reviewed by hand, with the text they had when reviewed (DD/CWrapReviewed.lean).
At present there is none: the seven functions that keep references in containers are followed. -/
theorem uncovered_reviewed : Gen.cUncoveredText = reviewedUncovered := by decide +kernel

/-- what is left out is the `_test_*` helpers (the reader marks them by this reason, from their name) -/
theorem uncovered_only_tests :
    (Gen.cUncovered.all fun u => u.reason == "test helper (not part of the wrapper API)") = true := by
  decide +kernel

/-- each function that memoizes in CUDD's computed table uses ONE tag, the same for its lookups
and its inserts, and no two functions share a tag (a shared tag makes one operator return what the
other computed: the table identifies an entry by operands and tag) -/
def cacheTagsOk (l : List (Backend × String × List String × List String)) : Bool :=
  l.all (fun x =>
    match x.2.2.1 ++ x.2.2.2 with
    | [] => false
    | t :: ts => ts.all (· == t) && !x.2.2.1.isEmpty && !x.2.2.2.isEmpty) &&
  (l.map fun x => (x.1, (x.2.2.1 ++ x.2.2.2).head?)).Nodup

theorem cacheTags_distinct : cacheTagsOk Gen.cCacheTags = true := by decide +kernel

/-- the check has teeth: `_forall` inserting under the tag of `_exist` is refused -/
example : cacheTagsOk [(.cuddZdd, "_forall", ["_exist_cache_id"], ["_exist_cache_id"]),
    (.cuddZdd, "_exist", ["_exist_cache_id"], ["_exist_cache_id"])] = false := by decide +kernel

def hasMethod (b : Backend) (name : String) (role : CRole) : Bool :=
  Gen.cRefTraces.any fun m => m.backend == b && m.name == name && m.role == role

/-- the functions the discipline hinges on were found and followed in every back end (so that
`refTraces_balanced` cannot hold vacuously for them) -/
theorem refTraces_core_covered :
    ([Backend.cudd, .cuddZdd, .sylvan].all fun b =>
      hasMethod b "wrap" .wrapFn && hasMethod b "Function.init" .handleInit &&
      hasMethod b "Function.__dealloc__" .handleDealloc) = true ∧
    (hasMethod .buddy "Function.__cinit__" .handleInit &&
      hasMethod .buddy "Function.__dealloc__" .handleDealloc) = true ∧
    (hasMethod .cudd "BDD.apply" .plain && hasMethod .cuddZdd "ZDD.apply" .plain &&
      hasMethod .sylvan "BDD.apply" .plain && hasMethod .buddy "BDD.apply" .plain) = true := by
  decide +kernel

def methodHas (b : Backend) (name : String) (f : CEv → Bool) : Bool :=
  Gen.cRefTraces.any fun m => m.backend == b && m.name == name && m.role == .plain &&
    m.paths.any fun p => p.events.any f

/-- the functions that keep references in containers are followed, and the events their discipline
hinges on were seen: the store into, and the release of, `vector` / `table`; the array handed to
`Cudd_bddVectorCompose`; the hash table consumed by `cuddHashTableQuitZdd`; the traversal marks -/
theorem refTraces_containers_covered :
    (methodHas .cuddZdd "_c_compose" (fun e => match e with | .store .. => true | _ => false) &&
     methodHas .cuddZdd "_c_compose" (fun e => match e with
       | .derefAll _ "Cudd_RecursiveDerefZdd" _ | .derefNonNull _ "Cudd_RecursiveDerefZdd" _ => true | _ => false) &&
     methodHas .cuddZdd "_c_compose" (fun e => match e with | .free .. => true | _ => false) &&
     methodHas .cuddZdd "_compose_root" (fun e => match e with | .derefAll _ _ "values" => true | _ => false) &&
     methodHas .cuddZdd "_compose" (fun e => match e with | .store .. => true | _ => false) &&
     methodHas .cuddZdd "_compose" (fun e => match e with | .load .. => true | _ => false) &&
     methodHas .cudd "BDD._multi_compose" (fun e => match e with | .passC _ "Cudd_bddVectorCompose" => true | _ => false) &&
     methodHas .cuddZdd "cuddHashTableQuitZdd" (fun e => match e with | .derefAll .. => true | _ => false) &&
     methodHas .cuddZdd "_support" (fun e => match e with | .setField .. => true | _ => false) &&
     methodHas .cuddZdd "_clear_markers" (fun e => match e with | .setField .. => true | _ => false)) = true := by
  decide +kernel

/-! ### non-vacuity -/

-- the evaluator distinguishes connectives: a swapped branch would be caught
example : cRowSound ⟨"and", .ret (.c2 "Cudd_bddOr" (.arg .u) (.arg .v)), 0⟩ = false := by decide +kernel
example : cRowSound ⟨"=>", .ret (.c3 "Cudd_bddIte" (.arg .v) (.arg .u) (.c0 "Cudd_ReadOne")), 0⟩ = false := by
  decide +kernel
example : cRowSound ⟨"and", .ret (.c2 "Cudd_bddAnd" (.arg .u) (.arg .v)), 0⟩ = true := by decide +kernel
example : cRowSound ⟨"and", .unknown "r = f(x)", 0⟩ = false := by decide +kernel
example : cRowSound ⟨"and", .ret (.c2 "Cudd_unknownFn" (.arg .u) (.arg .v)), 0⟩ = false := by decide +kernel
-- tables are not empty
example : (Gen.cApply.map fun t => (acceptedOps t).length) = [27, 27, 27, 9] := by decide +kernel
-- a dropped dereference, a double dereference and a leaked temporary reference are caught
example : runPath [] false false [] [.produce 0 "Cudd_bddAnd" [], .ref 0 "Cudd_Ref", .retHandle] ≠ .ok := by decide +kernel
example : runPath [] false false []
    [.produce 0 "Cudd_bddAnd" [], .wrap 0, .deref 0 "Cudd_RecursiveDeref", .retHandle] ≠ .ok := by decide +kernel
example : runPath [] false false []
    [.produce 0 "Dddmp_cuddBddLoad" [], .wrap 0, .retHandle] ≠ .ok := by decide +kernel
example : runPath [] false false []
    [.produce 0 "Dddmp_cuddBddLoad" [], .wrap 0, .deref 0 "Cudd_RecursiveDeref", .retHandle] = .ok := by decide +kernel
example : runPath [] true false []
    [.produce 0 "Cudd_bddAnd" [], .produce 1 "Cudd_bddOr" [], .wrap 0, .retHandle] ≠ .ok := by decide +kernel
example : (Gen.cRefTraces.length ≥ 100) = true := by decide +kernel

/-! #### the counter of a handle -/

-- `decref` as written: guard, decrement, one reference back
example : fieldPathOk .refDec
    [.guard "_direct" false, .fieldTest "u" "<=" 0 false, .fieldAdd "u" (-1), .param 0 "u.node",
     .handleNode 0 "u", .deref 0 "_decref", .fieldTest "u" "==" 0 true, .retHandle] = true := by decide +kernel
-- seeded C19h: `u._ref -= 1` deleted — the library reference goes, the counter stays; `__dealloc__`
-- will give the reference back a second time
example : fieldPathOk .refDec
    [.guard "_direct" false, .fieldTest "u" "<=" 0 false, .param 0 "u.node", .handleNode 0 "u",
     .deref 0 "_decref", .fieldTest "u" "==" 0 false, .retHandle] = false := by decide +kernel
-- the decrement without the guard that makes the counter positive
example : fieldPathOk .refDec
    [.fieldAdd "u" (-1), .param 0 "u.node", .handleNode 0 "u", .deref 0 "_decref", .retHandle] = false := by
  decide +kernel
-- `__dealloc__`: keeps everything only when the counter is known to be 0; a flipped guard is refused
example : fieldPathOk .handleDealloc
    [.fieldTest "self" "<" 0 false, .fieldTest "self" "==" 0 true, .retHandle] = true := by decide +kernel
example : fieldPathOk .handleDealloc
    [.fieldTest "self" "<" 0 false, .fieldTest "self" "!=" 0 true, .retHandle] = false := by decide +kernel
example : fieldPathOk .handleDealloc
    [.fieldTest "self" "<" 0 false, .fieldTest "self" "!=" 0 false, .fieldAdd "self" (-1),
     .param 0 "self.node", .handleNode 0 "self", .deref 0 "Cudd_RecursiveDeref", .retHandle] = false := by decide +kernel
-- `init`: from 0 to exactly what was taken
example : fieldPathOk .handleInit [.param 0 "node", .fieldSet "self" 1, .ref 0 "Cudd_Ref", .retHandle] = true := by
  decide +kernel
example : fieldPathOk .handleInit [.param 0 "node", .fieldSet "self" 2, .ref 0 "Cudd_Ref", .retHandle] = false := by
  decide +kernel
example : fieldPathOk .handleInit [.param 0 "node", .ref 0 "Cudd_Ref", .retHandle] = false := by decide +kernel
-- contradictory conditions: the path is not taken
example : fieldPathOk .refInc
    [.fieldTest "u" "<=" 0 false, .fieldTest "u" ">" 0 false, .raise "AssertionError"] = true := by decide +kernel
-- an ordinary method that touches the counter, or calls `incref` on a handle it made (seeded C19g)
example : runPath [] false false [] [.fieldAdd "f" 1, .retHandle] ≠ .ok := by decide +kernel
example : runPath [] false false []
    [.produce 0 "Cudd_bddAnd" [], .wrap 0, .ref 0 "incref", .retHandle] ≠ .ok := by decide +kernel
example : runPath [] false false []
    [.produce 0 "Cudd_bddAnd" [], .wrap 0, .deref 0 "decref", .retHandle] ≠ .ok := by decide +kernel

/-! #### references kept in containers -/

-- the shape of `_c_compose`: fill the array, call, protect the result, release the array, free it
example : runPath ["_compose_root"] true false []
    [.alloc 0 "PyMem_Malloc" "n", .fillBegin 0, .param 1 "g.node", .ref 1 "cuddRef", .store 0 1, .fillEnd 0,
     .param 2 "u.node", .passC 0 "_compose_root", .produce 3 "_compose_root" [2],
     .ref 3 "cuddRef", .derefAll 0 "Cudd_RecursiveDerefZdd" "n", .deref 3 "cuddDeref",
     .free 0 "PyMem_Free", .wrap 3, .retHandle] = .ok := by decide +kernel
-- seeded C19e: without `cuddRef(r)` … `cuddDeref(r)` the result floats while the vector is released
-- (balanced, but refused by the floating-node rule: the result may be one of the released nodes)
example : runPath ["_compose_root"] false false []
    [.alloc 0 "PyMem_Malloc" "n", .fillBegin 0, .param 1 "g.node", .ref 1 "cuddRef", .store 0 1, .fillEnd 0,
     .param 2 "u.node", .passC 0 "_compose_root", .produce 3 "_compose_root" [2],
     .derefAll 0 "Cudd_RecursiveDerefZdd" "n", .free 0 "PyMem_Free", .wrap 3, .retHandle] = .ok := by decide +kernel
example : runPath ["_compose_root"] true false []
    [.alloc 0 "PyMem_Malloc" "n", .fillBegin 0, .param 1 "g.node", .ref 1 "cuddRef", .store 0 1, .fillEnd 0,
     .param 2 "u.node", .passC 0 "_compose_root", .produce 3 "_compose_root" [2],
     .derefAll 0 "Cudd_RecursiveDerefZdd" "n", .free 0 "PyMem_Free", .wrap 3, .retHandle]
    = .bad "unprotected node used after a node-creating call or a recursive dereference" 3 := by decide +kernel
-- a reference stored into a container and never given back
example : runPath [] false false []
    [.alloc 0 "PyMem_Malloc" "n", .param 1 "g.node", .ref 1 "cuddRef", .store 0 1,
     .free 0 "PyMem_Free", .retHandle]
    = .bad "path ends while a container of this function still holds references" 0 := by decide +kernel
-- the memo was handed to the recursion and is dropped without releasing what it may hold
example : runPath ["_compose"] false true []
    [.param 0 "u", .cnew 1 "dict", .passC 1 "_compose", .produce 2 "_compose" [0], .retNode 2] ≠ .ok := by
  decide +kernel
-- every element is dereferenced although the container only borrows them (no `cuddRef` before the store)
example : runPath [] false false []
    [.alloc 0 "PyMem_Malloc" "n", .param 1 "g.node", .store 0 1,
     .derefAll 0 "Cudd_RecursiveDerefZdd" "n", .free 0 "PyMem_Free", .retHandle] ≠ .ok := by decide +kernel
-- released twice; released over a different bound; used after free; a callee releasing the caller's memo
example : runPath [] false false []
    [.alloc 0 "PyMem_Malloc" "n", .derefAll 0 "Cudd_RecursiveDerefZdd" "n",
     .derefAll 0 "Cudd_RecursiveDerefZdd" "n", .free 0 "PyMem_Free", .retHandle] ≠ .ok := by decide +kernel
example : runPath [] false false []
    [.alloc 0 "PyMem_Malloc" "n", .derefAll 0 "Cudd_RecursiveDerefZdd" "n - 1", .free 0 "PyMem_Free",
     .retHandle] ≠ .ok := by decide +kernel
example : runPath [] false false []
    [.alloc 0 "PyMem_Malloc" "n", .free 0 "PyMem_Free", .param 1 "u", .store 0 1, .retHandle] ≠ .ok := by decide +kernel
example : runPath [] false true []
    [.cparam 0 "table", .derefAll 0 "Cudd_RecursiveDerefZdd" "values", .retNull] ≠ .ok := by decide +kernel
-- an element loaded from a container is gone once the container's references were given back
example : runPath [] true true []
    [.cparam 0 "hash", .load 1 0, .derefAll 0 "Cudd_RecursiveDerefZdd" "n", .free 0 "FREE", .retNode 1] ≠ .ok := by
  decide +kernel
-- storing into the caller's memo hands the reference on (the shape of the end of `_compose`)
example : runPath [] true true []
    [.cparam 0 "table", .produce 1 "cuddZddIte" [], .ref 1 "cuddRef", .ref 1 "cuddRef", .store 0 1,
     .deref 1 "cuddDeref", .retNode 1] = .ok := by decide +kernel
-- … but not without the second `cuddRef`
example : runPath [] true true []
    [.cparam 0 "table", .produce 1 "cuddZddIte" [], .ref 1 "cuddRef", .store 0 1,
     .deref 1 "cuddDeref", .retNode 1] ≠ .ok := by decide +kernel
-- an array that is not freed is reported apart from the references
example : runPath [] false false [] [.alloc 0 "PyMem_Malloc" "n", .raise "ValueError"] = .arrayLeak 0 := by
  decide +kernel
-- `x.ref <= 0` is only impossible while a reference on `x` is held
example : runPath [] false false []
    [.produce 0 "cuddZddIte" [], .ref 0 "cuddRef", .refNonPos 0, .raise "AssertionError"] = .ok := by decide +kernel
example : runPath [] false false []
    [.produce 0 "cuddZddIte" [], .ref 0 "cuddRef", .deref 0 "cuddDeref", .ref 0 "cuddRef",
     .deref 0 "cuddDeref", .ref 0 "cuddRef", .raise "AssertionError"] ≠ .ok := by decide +kernel
-- a node stored into a field other than the collision chain is not understood
example : runPath [] false false [] [.param 0 "u", .param 1 "v", .setField 0 "T" 1, .retHandle] ≠ .ok := by
  decide +kernel
-- the followed functions are there
example : ((Gen.cRefTraces.filter fun m => m.paths.any fun p => p.events.any CEv.isContEv).length ≥ 7) = true := by
  decide +kernel

/-! #### the right dereference -/

-- m22 of the second audit: a temporary released with `cuddDeref` and dropped
example : pathPlainDrop ["_forall"] ⟨.cuddZdd, "_forall", 0, .plain, true, []⟩
    ⟨[.produce 0 "_forall" [], .ref 0 "cuddRef", .produce 1 "_forall" [], .isNull 1, .deref 0 "cuddDeref",
      .retNull]⟩ = true := by decide +kernel
-- … the idiom `cuddRef(r); …; cuddDeref(r); return r` is not
example : pathPlainDrop ["_find_or_add"] ⟨.cuddZdd, "_forall", 0, .plain, true, []⟩
    ⟨[.produce 0 "_find_or_add" [], .ref 0 "cuddRef", .deref 0 "cuddDeref", .retNode 0]⟩ = false := by decide +kernel
-- m05 / m06: `__dealloc__` with `Cudd_Deref`; the BDD function in the ZDD wrapper
example : derefKindsOk ⟨.cudd, "Function.__dealloc__", 0, .handleDealloc, false,
    [⟨[.param 0 "self.node", .deref 0 "Cudd_Deref", .retHandle]⟩]⟩ = false := by decide +kernel
example : derefKindsOk ⟨.cuddZdd, "Function.__dealloc__", 0, .handleDealloc, false,
    [⟨[.param 0 "self.node", .deref 0 "Cudd_RecursiveDeref", .retHandle]⟩]⟩ = false := by decide +kernel
-- m38: the result is recursively dereferenced to nothing and then returned
example : runPath ["_find_or_add"] true true []
    [.produce 0 "_find_or_add" [], .ref 0 "cuddRef", .deref 0 "Cudd_RecursiveDerefZdd", .retNode 0] ≠ .ok := by
  decide +kernel
-- m24: a raw node inside a returned tuple arrives as `retNode` in a function that returns objects
example : runPath [] false false [] [.param 0 "u.node", .produce 1 "sylvan_low" [0], .retNode 1] ≠ .ok := by
  decide +kernel

/-! #### exceptions from callees, array fills, loop iterations, dropped handles -/

-- seeded C19m: a call that may raise between `Cudd_Ref` and `Cudd_RecursiveDerefZdd`
example : runPath [] false false []
    [.produce 0 "Cudd_zddIthVar" [], .ref 0 "Cudd_Ref", .raiseIn "self._add_var#0" 847] ≠ .ok := by decide +kernel
example : exitSummary [] ⟨.cuddZdd, "ZDD.add_var", 812, .plain, false, []⟩
    ⟨[.produce 0 "Cudd_zddIthVar" [], .ref 0 "Cudd_Ref", .raiseIn "self._add_var#0" 847]⟩
    = some [("Cudd_zddIthVar", 1)] := by decide +kernel
-- the same call after the release, or inside `try … finally: deref`, is fine
example : runPath [] false false []
    [.produce 0 "Cudd_zddIthVar" [], .ref 0 "Cudd_Ref", .deref 0 "Cudd_RecursiveDerefZdd",
     .raiseIn "self._add_var#0" 849] = .ok := by decide +kernel
-- the repaired `_c_compose` (F21): an exception in the second iteration of the fill loop; the
-- `finally` block releases the slots that are not NULL and frees the array
example : runPath ["_compose_root"] true false []
    [.alloc 0 "PyMem_Malloc" "n", .nullInit 0 "n", .fillBegin 0, .iterBegin, .param 1 "g.node",
     .ref 1 "cuddRef", .store 0 1, .iterEnd, .iterBegin, .derefNonNull 0 "Cudd_RecursiveDerefZdd" "n",
     .free 0 "PyMem_Free", .raiseIn "typetest#1" 4139] = .ok := by decide +kernel
-- … before the repair: the loop outside the `try`, nothing releases the array and what it holds
example : exitSummary [] ⟨.cuddZdd, "_c_compose", 4109, .plain, false, []⟩
    ⟨[.alloc 0 "PyMem_Malloc" "n", .fillBegin 0, .iterBegin, .param 1 "g.node", .ref 1 "cuddRef",
      .store 0 1, .iterEnd, .iterBegin, .raiseIn "typetest#1" 4136]⟩
    = some [("container array", 0), ("array not freed", 0)] := by decide +kernel
-- seeded C19n: the fill loop inside the `try` WITHOUT the initialisation: every slot is read
example : runPath [] false false []
    [.alloc 0 "PyMem_Malloc" "n", .fillBegin 0, .iterBegin, .derefAll 0 "Cudd_RecursiveDerefZdd" "n",
     .free 0 "PyMem_Free", .raiseIn "getitem#0" 4137]
    = .bad "every slot of an array is dereferenced, but the loop that fills it was not completed (or there is none)" 0 := by
  decide +kernel
-- the guard alone does not help: the slots that were not written are not NULL
example : runPath [] false false []
    [.alloc 0 "PyMem_Malloc" "n", .fillBegin 0, .iterBegin, .derefNonNull 0 "Cudd_RecursiveDerefZdd" "n",
     .free 0 "PyMem_Free", .raiseIn "getitem#0" 4137] ≠ .ok := by decide +kernel
-- NULL-initialisation over another bound, or after a store
example : runPath [] false false []
    [.alloc 0 "PyMem_Malloc" "n", .nullInit 0 "n - 1", .free 0 "PyMem_Free", .retHandle] ≠ .ok := by decide +kernel
example : runPath [] false false []
    [.alloc 0 "PyMem_Malloc" "n", .param 1 "g.node", .ref 1 "cuddRef", .store 0 1, .nullInit 0 "n",
     .free 0 "PyMem_Free", .retHandle] ≠ .ok := by decide +kernel
-- an array handed to a C function after the fill was left by `break`
example : runPath [] false false []
    [.alloc 0 "PyMem_Malloc" "n", .fillBegin 0, .iterBegin, .param 1 "g.node", .store 0 1, .iterBreak,
     .passC 0 "Cudd_bddVectorCompose", .free 0 "PyMem_Free", .retHandle] ≠ .ok := by decide +kernel
-- a loop iteration that keeps a reference (visible at the end of the iteration, whatever follows)
example : runPath [] false false []
    [.param 0 "u", .iterBegin, .ref 0 "Cudd_Ref", .iterEnd, .deref 0 "Cudd_RecursiveDeref", .retHandle]
    = .bad "a loop iteration ends holding (or having given away) a reference it did not hold when it began" 0 := by
  decide +kernel
example : runPath [] false false []
    [.param 0 "u", .iterBegin, .ref 0 "Cudd_Ref", .deref 0 "Cudd_RecursiveDeref", .iterEnd, .retHandle] = .ok := by
  decide +kernel
-- seeded C19o: the handle of `x[0]` is dropped when `f` is rebound; `self.var` is exempt
example : runPath [] true false []
    [.alloc 0 "PyMem_Malloc" "n", .fillBegin 0, .iterBegin, .param 1 "f.node", .store 0 1, .iterEnd,
     .iterBegin, .handleDrop 1 "self.add_expr", .param 2 "f.node", .store 0 2, .iterEnd, .fillEnd 0,
     .passC 0 "Cudd_bddComputeCube", .produce 3 "Cudd_bddComputeCube" [], .free 0 "PyMem_Free",
     .wrap 3, .retHandle]
    = .bad "container with an unprotected element handed to Cudd_bddComputeCube after a node-creating call" 0 := by
  decide +kernel
example : runPath [] true false []
    [.alloc 0 "PyMem_Malloc" "n", .fillBegin 0, .iterBegin, .param 1 "f.node", .store 0 1, .iterEnd,
     .iterBegin, .handleDrop 1 "self.var", .param 2 "f.node", .store 0 2, .iterEnd, .fillEnd 0,
     .passC 0 "Cudd_bddComputeCube", .produce 3 "Cudd_bddComputeCube" [], .free 0 "PyMem_Free",
     .wrap 3, .retHandle] = .ok := by decide +kernel

end DD
