/-
  DDProps.C17Load2Sched — C17 / C12: `load_json(file, bdd, load_order=True)` on ANY content, EVERY
  outcome, for EVERY RECORDED SCHEDULE, and acceptance for its only schedule-consuming step.

  `C17_load_json_order_any` (DDProps.C17Load2) assumes the default schedule.  The load switches
  dynamic reordering off, declares the variables and runs the explicit `reorder(order)`; nothing
  else looks at the recorded schedule.  `C17_load_json_order_anySchedule`: `JsonOrderLeaves` with
  "a suffix of the schedule is left"; the header's `reorder(order)` answers `.sched` only if a
  schedule was recorded, and then too the manager is kept.  `C17_load_json_order_accepts`: the
  record of the choice-driven `reorder(order)` under ANY valid choice of iteration orders
  (DDProps.C07Accept), followed by anything, makes the header return — in the state of the
  choice-driven run, the continuation left.
-/
import DDProofs.LoadJson2OrderSched
import DDProps.C17Load2
open Std
namespace DD

/-- C17: `load_json(load_order=True)`, ANY content, ANY recorded schedule, EVERY outcome -/
theorem C17_load_json_order_anySchedule (f : JsonFile) (hnd : (f.levelOfVar.map (·.1)).Nodup) (m : Mgr)
    (e : Nat → Nat) (h : LoadStartS e m) : JsonOrderLeavesS f e m (loadJson f true m) :=
  loadJson_true_anyS f hnd m e h

/-- the same from the state between two decorated calls, whatever schedule is recorded -/
theorem C17_load_json_order_anySchedule_dyn (f : JsonFile) (hnd : (f.levelOfVar.map (·.1)).Nodup)
    (m : Mgr) (e : Nat → Nat) (h : DynInvS e m) : JsonOrderLeavesS f e m (loadJson f true m) :=
  loadJson_true_anyS f hnd m e h.loadStartS

/-- with no recorded schedule: the statement of DDProps.C17Load2 -/
theorem C17_load_json_order_anySchedule_default (f : JsonFile) (m : Mgr) (e : Nat → Nat)
    (out : Except Err Roots × Mgr) (h : JsonOrderLeavesS f e m out) (hs : m.sched = []) :
    JsonOrderLeaves f e m out :=
  ⟨h.noSignal, h.left, h.inv, h.order, h.ctx,
    by have := h.sched; rw [hs] at this; exact List.suffix_nil.mp this,
    h.switch, h.counts, h.sorted⟩

/-- C17 / C07 (acceptance): after `configure(reordering=False)` and the declarations (which always
succeed and do not look at the schedule), for every valid choice `c`, the record `sch` of the
choice-driven `reorder(order)` — followed by ANY `rest` — is accepted by the line `level_of_var`:
it returns in the state of the choice-driven run with exactly `rest` left; in particular the
load then does not fail with the header's `.sched` and ends with the variables sorted by the
file's numbers -/
theorem C17_load_json_order_accepts (f : JsonFile) (hnd : (f.levelOfVar.map (·.1)).Nodup) (m : Mgr)
    (e : Nat → Nat) (h : LoadStartS e m) (c : Choice) (hc : c.Valid) :
    ∃ m1, declare (f.levelOfVar.map (·.1)) { m with lastLen := none } = (.ok (), m1) ∧
      ∀ sch m2, reorderC c (some (orderOf f.levelOfVar)) [] m1 = (.ok ((), sch), m2) → ∀ rest,
        jsonHeader f true { m with lastLen := none, sched := sch ++ rest } =
          (.ok (), { m2 with sched := rest }) ∧
        SortedBy (orderOf f.levelOfVar)
          (loadJson f true { m with sched := sch ++ rest }).2 := by
  have g0 := h.goodOff
  obtain ⟨m1, ed, g1, -, -, -, -, r1⟩ := declare_spec (f.levelOfVar.map (·.1)) { m with lastLen := none } e g0
  have hRI : ReorderInv e m1 :=
    ⟨g1.inv, g1.order, g1.exact, Or.inl g1.ctx, by intro r hr; rw [r1] at hr; exact h.roots r hr⟩
  refine ⟨m1, ed, fun sch m2 hrun rest => ?_⟩
  have hacc := jsonHeader_true_accepts f { m with lastLen := none } m1 e c hc ed hRI sch m2 hrun rest
  have hacc' : jsonHeader f true { m with lastLen := none, sched := sch ++ rest } =
      (.ok (), { m2 with sched := rest }) := hacc
  refine ⟨hacc', ?_⟩
  have hS : LoadStartS e { m with sched := sch ++ rest } :=
    ⟨h.inv.setSched _, h.order, h.refs.congr rfl rfl, h.ctx, h.roots⟩
  have hL := loadJson_true_anyS f hnd { m with sched := sch ++ rest } e hS
  exact hL.sorted (by
    show (jsonHeader f true { m with lastLen := none, sched := sch ++ rest }).1 = .ok ()
    rw [hacc'])

/-! ### non-vacuity -/

/-- `jsonBad3` into `exDyn` (DDProps.C17Load2) with a schedule that does not describe a run: the
header's `reorder(order)` reports the mismatch, the load raises, and everything is kept -/
example : JsonOrderLeavesS jsonBad3 exExt { exDyn with sched := [.swap []] }
    (loadJson jsonBad3 true { exDyn with sched := [.swap []] }) :=
  C17_load_json_order_anySchedule_dyn jsonBad3 (by decide) _ exExt (exDyn_dynInv.withSched _)

theorem C17_load_order_sched_example :
    raisedErr (loadJson jsonBad3 true { exDyn with sched := [.swap []] }).1 = some .sched ∧
    (loadJson jsonBad3 true { exDyn with sched := [.swap []] }).2.lastLen = none ∧
    ((logOf (reorderC Choice.default (some (orderOf jsonBad3.levelOfVar)) []
        (declare (jsonBad3.levelOfVar.map (·.1)) { exDyn with lastLen := none }).2).1).map
      fun sch => (sch.length, (jsonHeader jsonBad3 true
        { exDyn with lastLen := none, sched := sch }).1.toOption.isSome)) = some (1, true) := by
  decide +kernel

end DD
