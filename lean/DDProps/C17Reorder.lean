/-
  DDProps.C17Reorder — C17, "bad order": every way the table given to `reorder(bdd, order)`
  can be wrong, with what the code really does in each case.

  `_sort_to_order` checks ONLY `len(bdd.vars) != len(order)` up front (`ValueError`).  It never
  calls `_assert_valid_ordering`: the requested levels are just compared (`order[x] > order[y]`),
  the names are looked up when two adjacent levels are compared.  Hence
  * wrong number of entries               → `ValueError`, nothing changed;
  * a variable of the manager not listed (with a `dict` of the right length this is the same as
    "an extra / unknown name is listed") → `KeyError` during the FIRST pass, possibly after some
    swaps: the manager is NOT the one before the call, but it is a good state (`ReorderInv`) in
    which every held reference denotes the same function of the variable names (`ReorderRel`);
    with fewer than two variables nothing is ever looked up and the call is accepted;
  * duplicate levels, gaps, negative or too large levels (all names listed) → NOT rejected:
    the call returns normally, the variables end sorted by the given numbers, held references
    keep their functions.
  `_assert_valid_ordering` itself is run by the constructor `BDD(levels)` (before a manager
  exists) and by `_assert_isomorphic_orders`; it is never reached from `reorder`.

  Iteration orders of the level sets are schedule inputs (`Mgr.sched`) as in C07: for every
  schedule the only other outcome is the model's `MODEL-SCHEDULE-MISMATCH`; with no recorded
  schedule (`_total` form) that cannot happen.
-/
import DDProofs.SmallReorder
import DDProps.C07
import DD.ApiCore
open Std

namespace DD

/-- C17 (`reorder(bdd, order)`, any `order`), every schedule.
(1) wrong length: `ValueError`, state identical.
(2) right length, ANY content: the call returns, or raises `KeyError`; either way the state is
    good (`ReorderInv`: `Inv`, `OrderOK`, exact counts for the same ledger) and every held
    reference denotes the same function of the names, the same variables are declared
    (`ReorderRel`).
(3) right length, a declared variable is not listed, at least two variables: never returns
    normally (so, by (2): `KeyError` in a kept state).
(4) right length, at most one variable: accepted whatever the name and level, nothing changes.
(5) right length, every declared variable listed, levels ANY integers (duplicates, gaps,
    negative, `≥ n`): returns normally, variables sorted by the given numbers. -/
theorem C17_reorder_any_order (ext : Nat → Nat) (m : Mgr) (h : ReorderInv ext m)
    (order : List (String × Int)) :
    (m.nvars ≠ order.length → reorder (some order) m = (.error .value, m)) ∧
    (order.length = m.nvars →
      OkOrKey SchedErr (fun m' => ReorderInv ext m' ∧ ReorderRel ext m m' ∧ m'.nvars = m.nvars)
        (reorder (some order) m)) ∧
    (order.length = m.nvars → 2 ≤ m.nvars →
      (∃ v : String, m.tbl.vars.contains v = true ∧ order.lookup v = none) →
      ∃ e m', reorder (some order) m = (.error e, m')) ∧
    (order.length = m.nvars → m.nvars ≤ 1 → reorder (some order) m = (.ok (), m)) ∧
    (order.length = m.nvars → Covered order m.nvars m →
      OkOrSched (fun _ m' => ReorderInv ext m' ∧ ReorderRel ext m m' ∧ m'.nvars = m.nvars ∧
        SortedBy order m') (reorder (some order) m)) := by
  refine ⟨fun hne => ?_, fun hlen => sortToOrder_any (swapOK ext) order m h hlen,
    fun hlen h2 ⟨v, hv, hnone⟩ => ?_, fun hlen h1 => sortToOrder_trivial order m hlen h1,
    fun hlen hc => C07_sortToOrder_sorted ext m h order hlen hc⟩
  · unfold reorder sortToOrder
    simp [M.bind_eq, M.get_eq, hne, M.throw]
  · obtain ⟨j, hj⟩ := Option.isSome_iff_exists.mp
      (show (m.tbl.vars[v]?).isSome from by rw [← TreeMap.contains_eq_isSome_getElem?]; exact hv)
    exact sortToOrder_missing (swapOK ext) order m h hlen h2 ⟨j, v, (h.order.inv v j).mp hj, hnone⟩

/-- C17 (`reorder(bdd, order)`, any `order`), default schedule: the call returns normally or
raises `KeyError`, nothing else (no assertion of `swap`, no `ValueError` of the root check);
the state afterwards is good and every held reference keeps its function; with a declared
variable missing from `order` (two or more variables) it is `KeyError`. -/
theorem C17_reorder_any_order_total (ext : Nat → Nat) (m : Mgr) (h : ReorderInv ext m)
    (hs0 : m.sched = []) (order : List (String × Int)) (hlen : order.length = m.nvars) :
    ∃ r m', reorder (some order) m = (r, m') ∧ (r = .ok () ∨ r = .error .key) ∧
      ReorderInv ext m' ∧ m'.sched = [] ∧ ReorderRel ext m m' ∧ m'.nvars = m.nvars ∧
      (2 ≤ m.nvars → (∃ v : String, m.tbl.vars.contains v = true ∧ order.lookup v = none) →
        r = .error .key) := by
  have hany := sortToOrder_any (swapOK0 ext) order m ⟨h, hs0⟩ hlen
  have hmiss := fun h2 hm => sortToOrder_missing (swapOK0 ext) order m ⟨h, hs0⟩ hlen h2 hm
  show ∃ r m', sortToOrder order m = (r, m') ∧ _
  generalize sortToOrder order m = res at hany hmiss
  obtain ⟨r, m'⟩ := res
  cases r with
  | ok u =>
    obtain ⟨⟨hP, hs⟩, hR, hn⟩ := hany
    refine ⟨.ok u, m', rfl, Or.inl rfl, hP, hs, hR, hn, fun h2 ⟨v, hv, hnone⟩ => ?_⟩
    obtain ⟨j, hj⟩ := Option.isSome_iff_exists.mp
      (show (m.tbl.vars[v]?).isSome from by rw [← TreeMap.contains_eq_isSome_getElem?]; exact hv)
    obtain ⟨e, m'', he⟩ := hmiss h2 ⟨j, v, (h.order.inv v j).mp hj, hnone⟩
    cases he
  | error e =>
    rcases hany with hf | ⟨he, ⟨hP, hs⟩, hR, hn⟩
    · exact hf.elim
    · subst he
      exact ⟨_, m', rfl, Or.inr rfl, hP, hs, hR, hn, fun _ _ => rfl⟩

/-! ### non-vacuity on `exM` (variables `a` at level 0, `b` at level 1; the user holds `a ∧ b`) -/

/-- a table of the right length that lists an unknown name instead of `b`: refused with
`KeyError` (the hypotheses of clause (3) and of the `_total` form hold) -/
example : ∃ m', reorder (some [("a", 0), ("zzz", 1)]) exM = (.error .key, m') ∧
    ReorderInv exExt m' ∧ ReorderRel exExt exM m' := by
  obtain ⟨r, m', hrun, _, hP, _, hR, _, hk⟩ :=
    C17_reorder_any_order_total exExt exM exM_reorderInv (by decide) [("a", 0), ("zzz", 1)] (by decide)
  have : r = .error .key := hk (by decide) ⟨"b", by decide, by decide⟩
  subst this
  exact ⟨m', hrun, hP, hR⟩
/-- the model run itself: the exception is raised at the first comparison, before any swap -/
example : errOf (reorder (some [("a", 0), ("zzz", 1)]) exM).1 = some .key ∧
    (reorder (some [("a", 0), ("zzz", 1)]) exM).2.tbl.l2v.toList = [(0, "a"), (1, "b")] := by decide
/-- duplicate, negative and too large levels with every name listed meet clause (5): accepted -/
example : Covered [("a", 7), ("b", -2)] exM.nvars exM ∧ Covered [("a", 0), ("b", 0)] exM.nvars exM := by
  have h0 : exM.tbl.l2v[0]? = some "a" := by decide
  have h1 : exM.tbl.l2v[1]? = some "b" := by decide
  have hn : exM.nvars = 2 := by decide
  constructor <;>
  · intro i hi
    rw [hn] at hi
    match i, hi with
    | 0, _ => exact ⟨"a", _, h0, rfl⟩
    | 1, _ => exact ⟨"b", _, h1, rfl⟩
/-- wrong length -/
example : reorder (some [("a", 0)]) exM = (.error .value, exM) :=
  (C17_reorder_any_order exExt exM exM_reorderInv _).1 (by decide)

/-! ### `_assert_valid_ordering`

The only places where a table of levels is VALIDATED (`set(levels.values()) == set(range(n))`:
no duplicate level, no gap, nothing out of range) are the constructor `BDD(levels)` and
`_assert_isomorphic_orders` (used by `copy_bdd` / the loaders).  In the constructor it runs before
any field of the new manager exists, so a rejected table leaves no manager behind; names are not
checked at all (they are `dict` keys).  `apiValidOrdering` (DD.ApiCore) is the model of the check
(the driver's `BDD(levels)` line, `DD.newMgr`, inlines the same expression and answers
`AssertionError` with no manager). -/

/-- C17 (`_assert_valid_ordering(levels)`): accepted iff the levels are exactly `0..n-1` — every
number of `range(n)` occurs (so, with `n` entries: no duplicate, no gap) and every level is in
range; `_assert_isomorphic_orders` raises `AssertionError` for a bad table on either side, before
comparing anything -/
theorem C17_valid_ordering_spec (levels : List (String × Int)) :
    (apiValidOrdering levels = true ↔
      ((∀ i : Nat, i < levels.length → (i : Int) ∈ levels.map (·.2)) ∧
       (∀ k ∈ levels.map (·.2), 0 ≤ k ∧ k < (levels.length : Int)))) ∧
    (apiValidOrdering levels = false → ∀ other support,
      assertIsomorphicOrders levels other support = .error .assertion ∧
      (apiValidOrdering other = true →
        assertIsomorphicOrders other levels support = .error .assertion)) := by
  constructor
  · unfold apiValidOrdering
    simp only [Bool.and_eq_true, List.all_eq_true, List.mem_range, List.contains_iff_mem,
      decide_eq_true_eq]
  · intro hf other support
    constructor
    · simp [assertIsomorphicOrders, hf]
    · intro ho
      simp [assertIsomorphicOrders, hf, ho]

/-- duplicate level, gap, negative level, level `≥ n`: all refused; a permutation is accepted -/
example : apiValidOrdering [("a", 0), ("b", 0)] = false ∧
    apiValidOrdering [("a", 0), ("b", 2)] = false ∧
    apiValidOrdering [("a", -1), ("b", 0)] = false ∧
    apiValidOrdering [("a", 1), ("b", 0)] = true := by decide

end DD
