/-
  DDProps.C16 — a DDDMP file loads to the functions it describes.

  Model: `DD/Dddmp.lean` (abstract content of a text-mode file, `Parser._parse_header`'s
  tables, `_parse_body`/`_add_node`, `load`).  Specification: `DDProofs/DddmpProofs.lean`
  (`evalFile`: the node list of the file evaluated directly, by variable NAME;
  `DddmpFile.WF`: well-formed files, with ANY numbering of the nodes).

  The proofs in `DDProofs/DddmpProofs.lean` use the specification of `find_or_add` as the
  hypothesis `FoaSpec` (names `…_of_foaSpec`); it is discharged here with
  `findOrAddCore_spec` (`DDProofs/FindOrAdd.lean`), so the theorems below are unconditional.
-/
import DDProofs.DddmpProofs
import DDProofs.DddmpHeader
import DDProofs.DddmpFormat
import DDProofs.DddmpDecide
import DDProofs.FindOrAdd
import DDProofs.Reach
import DDProofs.SwapDrivers
open Std
namespace DD

/-- the specification of `find_or_add` assumed by `DDProofs/DddmpProofs.lean` holds -/
theorem foaSpec : FoaSpec :=
  ⟨fun m i v w hI hi hv hw hlv hlw => by
    obtain ⟨r, m', he, hp⟩ := findOrAddCore_spec m hI i v w hi hv hw hlv hlw
    exact ⟨r, m', he, hp.inv, hp.ext, hp.mem, hp.lvl, hp.den⟩,
   fun m i v w hI hi hv hw hlv hlw => by
    obtain ⟨r, m', he, hp⟩ := findOrAddCore_spec m hI i v w hi hv hw hlv hlw
    rw [he]
    exact ⟨hp.frame, hp.fire, hp.cacheSame⟩⟩

/-- a small file whose numbering differs from the order in which the loader recreates the
nodes (the minimal reproduction of finding F1, since repaired): two roots `a` and `¬ b`,
numbered in the order CUDD's writer would number them (then-child, else-child, node —
root by root); the loader creates level 1 (`b`) first -/
def dddmpWitness : DddmpFile := {
  varinfo := some 0, nnodes := some 3, nvars := some 2, nsuppvars := some 2,
  suppvarnames := some [.str "a", .str "b"], orderedvarnames := some [.str "a", .str "b"],
  ids := some [0, 1], permids := some [0, 1], nroots := some 2, rootids := some [2, -3],
  nodes := [⟨1, .str "T", 1, 0, 0⟩, ⟨2, .num 0, 0, 1, -1⟩, ⟨3, .num 1, 1, 1, -1⟩] }

theorem dddmpWitness_header : dddmpHeader dddmpWitness =
    .ok ([(.num 0, 0), (.num 1, 1), (.str "T", 3)], [(.str "a", 0), (.str "b", 1)], [2, -3]) := by
  rfl

/-- non-vacuity of `DddmpFile.WF`: the witness file is well-formed -/
theorem dddmpWitness_wf : dddmpWitness.WF := by
  refine ⟨_, _, _, 2, dddmpWitness_header, rfl, ⟨by decide, rfl, by decide, by decide, by decide, ?_, ?_⟩, ?_⟩
  · intro p hp
    simp only [List.mem_cons, List.not_mem_nil, or_false] at hp
    rcases hp with rfl | rfl <;> decide
  · intro n hn
    simp only [dddmpWitness, List.mem_cons, List.not_mem_nil, or_false] at hn
    rcases hn with rfl | rfl | rfl
    · exact Or.inl ⟨rfl, rfl, rfl, rfl⟩
    · refine Or.inr ⟨by decide, by decide, by decide, by decide, 0, rfl, by decide, ?_, ?_⟩ <;>
        exact ⟨⟨1, .str "T", 1, 0, 0⟩, by simp [dddmpWitness], rfl, 3, rfl, by decide⟩
    · refine Or.inr ⟨by decide, by decide, by decide, by decide, 1, rfl, by decide, ?_, ?_⟩ <;>
        exact ⟨⟨1, .str "T", 1, 0, 0⟩, by simp [dddmpWitness], rfl, 3, rfl, by decide⟩
  · intro ρ hρ
    simp only [List.mem_cons, List.not_mem_nil, or_false] at hρ
    rcases hρ with rfl | rfl
    · exact ⟨⟨2, .num 0, 0, 1, -1⟩, by simp [dddmpWitness], rfl⟩
    · exact ⟨⟨3, .num 1, 1, 1, -1⟩, by simp [dddmpWitness], rfl⟩

/-- non-trivial example files (one per mode): three support variables `x, y, z` written at the
levels 2, 5, 0 of a manager with 6 variables (so the order `z < x < y` differs from the
listing `x, y, z`, and `.permids` has gaps), indices `.ids = 4 7 1`; nodes
`3 = y`, `4 = x ∨ ¬y` (a COMPLEMENTED else-edge to node 3), `2 = if z then [4] else [3]`,
listed parent first and numbered against the order in which the loader rebuilds them;
roots `2` and `-4` (a complemented root).  `lx ly lz` are the labels of the three
variables in the mode `vi`; `ov` the optional `.orderedvarnames`. -/
def dddmpExWith (vi : Int) (ov : Option (List DddmpTok)) (lx ly lz : DddmpTok) : DddmpFile := {
  varinfo := some vi, nnodes := some 4, nvars := some 6, nsuppvars := some 3,
  suppvarnames := some [.str "x", .str "y", .str "z"], orderedvarnames := ov,
  ids := some [4, 7, 1], permids := some [2, 5, 0], nroots := some 2, rootids := some [2, -4],
  nodes := [⟨2, lz, 2, 4, 3⟩, ⟨1, .str "T", 1, 0, 0⟩, ⟨4, lx, 0, 1, -3⟩, ⟨3, ly, 1, 1, -1⟩] }

/-- the six variables of the writer, by level -/
def dddmpExOv : List DddmpTok := [.str "z", .str "w", .str "x", .str "q", .str "r", .str "y"]

/-- `.varinfo 0`, names from `.suppvarnames` -/
def dddmpChain : DddmpFile := dddmpExWith 0 none (.num 4) (.num 7) (.num 1)
def dddmpEx1s : DddmpFile := dddmpExWith 1 none (.num 2) (.num 5) (.num 0)
def dddmpEx0o : DddmpFile := dddmpExWith 0 (some dddmpExOv) (.num 4) (.num 7) (.num 1)
def dddmpEx1o : DddmpFile := dddmpExWith 1 (some dddmpExOv) (.num 2) (.num 5) (.num 0)
def dddmpEx3 : DddmpFile := dddmpExWith 3 (some dddmpExOv) (.str "x") (.str "y") (.str "z")

theorem dddmpChain_wf : dddmpChain.WF := by decide
theorem dddmpChain_headerOK : DddmpHeaderOK dddmpChain := by decide

/-- C16: for a well-formed file — whatever numbering it uses for its nodes, with or without
gaps in the levels, for each of the variable-identification modes 0, 1, 3 —
`dd.dddmp.load` succeeds, the manager satisfies the invariant (hence is canonical, C02),
the loader's map sends every node number of the file to a reference that denotes, by
variable name, what the node list says, and the returned `roots` denote (as a set of
functions — `bdd.roots` is a `set`) exactly the root entries of the file.

The returned manager is a state every other property theorem starts from:
`GoodState m (fun _ => 0)` = `Inv` + `OrderOK` (name maps inverse bijections onto `0..n-1`) +
`RefExact` for the EMPTY ledger (the loader takes no reference, not even on the roots:
`find_or_add` counts stored edges only, and `bdd.roots` is a plain set) + dynamic
reordering not enabled + outside a reordering context; no recorded schedule; every root is a
node.  `dd.dddmp.load(fname)` always builds a NEW manager (`_bdd.BDD(new_levels)`): there is
no receiving manager, and a refused file (exception) returns nothing. -/
theorem C16_load_spec (f : DddmpFile) (hf : f.WF) :
    ∃ m umap, loadDddmpU f = .ok (m, umap) ∧ loadDddmp f = .ok m ∧ Inv m ∧
      (∀ x ∈ f.nodes, ∃ r, dictGet umap x.u = some r ∧ m.tbl.Mem r ∧
        ∀ α, den m.tbl r (dddmpAsgOf m.tbl α) = evalFile f α x.u) ∧
      DddmpRootsDenote f m ∧
      GoodState m (fun _ => 0) ∧ m.sched = [] ∧ (∀ r ∈ m.roots, m.tbl.Mem r) := by
  obtain ⟨m, umap, h1, h2, h3, h4, h5, h6, h7⟩ := dddmpLoad_good_of_foaSpec foaSpec f hf
  obtain ⟨i2p, levels, roots, _, hh, _⟩ := id hf
  have hL := h6 i2p levels roots hh
  exact ⟨m, umap, h1, h2, h3, h4, h5, ⟨h3, hL.order, hL.exact, hL.off, hL.ctx⟩, hL.sched, h7⟩

example : ∃ m umap, loadDddmpU dddmpChain = .ok (m, umap) ∧ GoodState m (fun _ => 0) := by
  obtain ⟨m, umap, h, -, -, -, -, hg, -⟩ := C16_load_spec dddmpChain dddmpChain_wf
  exact ⟨m, umap, h, hg⟩

/-- C16, the roots clause alone -/
theorem C16_roots (f : DddmpFile) (hf : f.WF) :
    ∃ m, loadDddmp f = .ok m ∧ Inv m ∧ DddmpRootsDenote f m := by
  obtain ⟨m, _, _, h, hi, _, hr, _⟩ := C16_load_spec f hf
  exact ⟨m, h, hi, hr⟩

/-- C16, canonicity of the loaded manager spelled out: two references of the returned
manager are equal exactly when they denote the same function -/
theorem C16_canonical (f : DddmpFile) (hf : f.WF) :
    ∃ m, loadDddmp f = .ok m ∧ ∀ u v, m.tbl.Mem u → m.tbl.Mem v →
      ((∀ a, den m.tbl u a = den m.tbl v a) ↔ u = v) := by
  obtain ⟨m, h, hi, _⟩ := C16_roots f hf
  exact ⟨m, h, fun u v hu hv => canonical m.tbl hi.wf u v hu hv⟩

/-! ### the loaded manager is a reachable state (chaining) -/

/-- C16 (chaining): the manager returned for a well-formed file satisfies the full
reachable-state invariant `GoodState` with the empty ledger, nothing else is set (no schedule,
trigger counter, computed table), every root is a node, the roots denote the file's root
entries, and the ORDER is the file's: one variable per entry of the header's `levels`
table, the variable of file level `k` at the rank of `k` (`DddmpLoaded.rank`; by mode:
`C16_order_ordered`, `C16_order_supp`) -/
theorem C16_load_good (f : DddmpFile) (hf : f.WF) :
    ∃ m, loadDddmp f = .ok m ∧ GoodState m (fun _ => 0) ∧ m.sched = [] ∧ m.fireIn = none ∧
      m.cache = {} ∧ (∀ r ∈ m.roots, m.tbl.Mem r) ∧ DddmpRootsDenote f m ∧
      ∀ i2p levels roots, dddmpHeader f = .ok (i2p, levels, roots) → DddmpLoaded levels m := by
  obtain ⟨m, umap, _, h2, h3, _, h5, h6, h7⟩ := dddmpLoad_good_of_foaSpec foaSpec f hf
  obtain ⟨i2p, levels, roots, _, hh, _⟩ := id hf
  have hL := h6 i2p levels roots hh
  exact ⟨m, h2, ⟨h3, hL.order, hL.exact, hL.off, hL.ctx⟩, hL.sched, hL.fire, hL.cache, h7, h5, h6⟩

example : ∃ m, loadDddmp dddmpChain = .ok m ∧ GoodState m (fun _ => 0) := by
  obtain ⟨m, h, hg, -⟩ := C16_load_good dddmpChain dddmpChain_wf
  exact ⟨m, h, hg⟩

/-- the file's variables keep the relative order of their levels in the file (with
`OrderOK` and `nvars = levels.length` this determines the order of the loaded manager) -/
theorem C16_order_kept (f : DddmpFile) (hf : f.WF) :
    ∃ m, loadDddmp f = .ok m ∧ ∀ i2p levels roots, dddmpHeader f = .ok (i2p, levels, roots) →
      m.nvars = levels.length ∧
      (∀ var k, (var, k) ∈ levels → m.tbl.vars.contains var.show = true) ∧
      ∀ var k var' k' (i i' : Nat), (var, k) ∈ levels → (var', k') ∈ levels →
        m.tbl.vars[var.show]? = some i → m.tbl.vars[var'.show]? = some i' → k < k' → i < i' := by
  obtain ⟨m, h, -, -, -, -, -, -, hL⟩ := C16_load_good f hf
  refine ⟨m, h, fun i2p levels roots hh => ⟨(hL _ _ _ hh).nvars, ?_, ?_⟩⟩
  · intro var k hm
    obtain ⟨i, -, -, hv⟩ := (hL _ _ _ hh).rank var k hm
    rw [Std.TreeMap.contains_eq_isSome_getElem?, hv]; rfl
  · intro var k var' k' i i' hm hm' hi hi' hlt
    exact (hL _ _ _ hh).mono hm hm' hi hi' hlt

example : dddmpChain.WF := dddmpChain_wf

/-- with `.orderedvarnames` (distinct names): the order of the loaded manager IS that list -/
theorem C16_order_ordered (f : DddmpFile) (hf : f.WF) (hH : DddmpHeaderOK f) {ov : List DddmpTok}
    (ho : f.orderedvarnames = some ov) :
    ∃ m, loadDddmp f = .ok m ∧ m.nvars = ov.length ∧ ∀ (k : Nat) (var : DddmpTok), ov[k]? = some var →
      m.tbl.vars[var.show]? = some k ∧ m.tbl.l2v[k]? = some var.show := by
  obtain ⟨m, h, -, -, -, -, -, -, hL⟩ := C16_load_good f hf
  obtain ⟨i2p, levels, roots, _, hh, _⟩ := id hf
  exact ⟨m, h, (hL _ _ _ hh).of_ordered hh hH ho⟩

example : dddmpEx0o.WF ∧ DddmpHeaderOK dddmpEx0o ∧ dddmpEx0o.orderedvarnames = some dddmpExOv := by
  decide

/-- without `.orderedvarnames`: `suppvarnames[j]` sits at the rank of `permids[j]` among the
`.permids` — gaps closed, relative order kept -/
theorem C16_order_supp (f : DddmpFile) (hf : f.WF) (hH : DddmpHeaderOK f)
    (hv3 : f.varinfo ≠ some 3) (ho : f.orderedvarnames = none) {sv : List DddmpTok}
    (hs : f.suppvarnames = some sv) {permids : List Int} (hp : f.permids = some permids) :
    ∃ m, loadDddmp f = .ok m ∧ m.nvars = permids.length ∧
      ∀ (j : Nat) (var : DddmpTok) (k : Int), sv[j]? = some var → permids[j]? = some k →
        ∃ i : Nat, (sortInts permids)[i]? = some k ∧ m.tbl.vars[var.show]? = some i ∧
          m.tbl.l2v[i]? = some var.show := by
  obtain ⟨m, h, -, -, -, -, -, -, hL⟩ := C16_load_good f hf
  obtain ⟨i2p, levels, roots, _, hh, _⟩ := id hf
  exact ⟨m, h, (hL _ _ _ hh).of_supp hh hH hv3 ho hs hp⟩

/-- on the example: `z` (file level 0) gets level 0, `x` (2) level 1, `y` (5) level 2 -/
example : ∃ m, loadDddmp dddmpChain = .ok m ∧ m.nvars = 3 ∧ m.tbl.vars["z"]? = some 0 ∧
    m.tbl.vars["x"]? = some 1 ∧ m.tbl.vars["y"]? = some 2 := by
  obtain ⟨m, h, hn, hr⟩ := C16_order_supp dddmpChain dddmpChain_wf dddmpChain_headerOK (by decide)
    rfl (sv := [.str "x", .str "y", .str "z"]) rfl (permids := [2, 5, 0]) rfl
  refine ⟨m, h, hn, ?_, ?_, ?_⟩
  · obtain ⟨i, hi, hv, -⟩ := hr 2 (.str "z") 0 rfl rfl
    have : i = 0 := by
      have hs : sortInts [2, 5, 0] = [0, 2, 5] := by decide
      rw [hs] at hi
      rcases i with _ | _ | _ | i <;> simp_all
    subst this; exact hv
  · obtain ⟨i, hi, hv, -⟩ := hr 0 (.str "x") 2 rfl rfl
    have : i = 1 := by
      have hs : sortInts [2, 5, 0] = [0, 2, 5] := by decide
      rw [hs] at hi
      rcases i with _ | _ | _ | i <;> simp_all
    subst this; exact hv
  · obtain ⟨i, hi, hv, -⟩ := hr 1 (.str "y") 5 rfl rfl
    have : i = 2 := by
      have hs : sortInts [2, 5, 0] = [0, 2, 5] := by decide
      rw [hs] at hi
      rcases i with _ | _ | _ | i <;> simp_all
    subst this; exact hv

/-- C16 (chaining, every history): after a successful load EVERY guarded history of user
operations (`UOp`: declarations, connectives, substitutions, quantification, `incref` /
`decref`, collections — any arguments, accepted or rejected) leads to a good state again:
the every-history theorems (`run_inv`, `run_held`, …) restart from the loaded manager -/
theorem C16_then_every_history (f : DddmpFile) (hf : f.WF) :
    ∃ m, loadDddmp f = .ok m ∧ ∀ ops : List UOp, OpsGuarded ops ⟨m, fun _ => 0⟩ →
      GoodState (run ops ⟨m, fun _ => 0⟩).m (run ops ⟨m, fun _ => 0⟩).ext := by
  obtain ⟨m, h, hg, -⟩ := C16_load_good f hf
  exact ⟨m, h, fun ops hops => run_inv ops ⟨m, fun _ => 0⟩ hg hops⟩

/-- non-vacuity: a guarded history on the loaded example (a declaration, a rejected call, a
connective on numbers that are nodes there, a collection) -/
example : ∃ m, loadDddmp dddmpChain = .ok m ∧
    GoodState (run [.declare "w" none, .ite 99 1 1, .apply "and" 4 (some (-3)) none, .collectGarbage]
      ⟨m, fun _ => 0⟩).m
      (run [.declare "w" none, .ite 99 1 1, .apply "and" 4 (some (-3)) none, .collectGarbage]
        ⟨m, fun _ => 0⟩).ext := by
  obtain ⟨m, h, hr⟩ := C16_then_every_history dddmpChain dddmpChain_wf
  exact ⟨m, h, hr _ ⟨trivial, trivial, trivial, trivial, trivial⟩⟩

/-- the user's `incref` of every element of a list -/
def holdOps (rs : List Int) : List UOp := rs.map .incref

theorem holdOps_guarded : ∀ (rs : List Int) (s : St), OpsGuarded (holdOps rs) s
  | [], _ => trivial
  | _ :: rs, s => ⟨trivial, holdOps_guarded rs _⟩

theorem run_holdOps : ∀ (rs : List Int) (s : St), GoodState s.m s.ext →
    (∀ r ∈ rs, s.m.tbl.Mem r) →
    GoodState (run (holdOps rs) s).m (run (holdOps rs) s).ext ∧
      (run (holdOps rs) s).m.tbl = s.m.tbl ∧ (run (holdOps rs) s).m.roots = s.m.roots ∧
      (run (holdOps rs) s).m.sched = s.m.sched ∧
      (∀ u, s.ext u ≤ (run (holdOps rs) s).ext u) ∧
      (∀ r ∈ rs, 0 < (run (holdOps rs) s).ext r.natAbs) := by
  intro rs
  induction rs with
  | nil => intro s h _; exact ⟨h, rfl, rfl, rfl, fun _ => Nat.le_refl _, fun _ hr => by cases hr⟩
  | cons r rs ih =>
    intro s h hm
    have hr : s.m.tbl.Mem r := hm r List.mem_cons_self
    obtain ⟨c, -, he, -⟩ := incref_spec s.m s.ext r h.exact hr
    have hmem : s.m.mem r = true := (Mgr.mem_iff s.m r).mpr hr
    have hs1 : step (.incref r) s =
        ⟨{ s.m with ref := s.m.ref.insert r.natAbs (c + 1) }, extInc s.ext r.natAbs⟩ := by
      simp only [step, runOp, mapRes, he, ledger, hmem, if_true]
    have hg1 : GoodState (step (.incref r) s).m (step (.incref r) s).ext :=
      step_inv s.m s.ext (.incref r) h trivial
    obtain ⟨g, ht, hro, hsc, hle, hpos⟩ := ih (step (.incref r) s) hg1 (by
      intro r' hr'
      rw [hs1]
      exact hm r' (List.mem_cons_of_mem _ hr'))
    have hle1 : ∀ u, s.ext u ≤ (step (.incref r) s).ext u := by
      intro u; rw [hs1]; simp only [extInc]; split <;> omega
    refine ⟨g, ?_, ?_, ?_, fun u => Nat.le_trans (hle1 u) (hle u), ?_⟩
    · show (run (holdOps rs) (step (.incref r) s)).m.tbl = _
      rw [ht, hs1]
    · show (run (holdOps rs) (step (.incref r) s)).m.roots = _
      rw [hro, hs1]
    · show (run (holdOps rs) (step (.incref r) s)).m.sched = _
      rw [hsc, hs1]
    · intro r' hr'
      rcases List.mem_cons.mp hr' with rfl | hr'
      · have : 0 < (step (.incref r') s).ext r'.natAbs := by
          rw [hs1]; simp [extInc]
        exact Nat.lt_of_lt_of_le this (hle _)
      · exact hpos r' hr'

/-- C16 (chaining with the reordering theorems): the loader takes no reference on the roots;
once the user has taken one on each (`incref`, as the class documentation asks), the state
satisfies `ReorderInv` — the hypothesis of the C07 theorems on `swap` / sifting /
`reorder` and of `bdd_to_mdd` (C15) — for the ledger that counts these references, and the
node table, hence every denotation, is the loaded one -/
theorem C16_hold_roots (f : DddmpFile) (hf : f.WF) :
    ∃ m, loadDddmp f = .ok m ∧
      let s := run (holdOps m.roots) ⟨m, fun _ => 0⟩
      GoodState s.m s.ext ∧ ReorderInv s.ext s.m ∧ s.m.tbl = m.tbl ∧ s.m.roots = m.roots ∧
        s.m.sched = [] ∧ ∀ r ∈ m.roots, 0 < s.ext r.natAbs := by
  obtain ⟨m, h, hg, hsch, -, -, hmem, -⟩ := C16_load_good f hf
  obtain ⟨g, ht, hro, hsc, -, hpos⟩ := run_holdOps m.roots ⟨m, fun _ => 0⟩ hg hmem
  refine ⟨m, h, g, ⟨g.inv, g.order, g.exact, Or.inl g.ctx, ?_⟩, ht, hro, hsc.trans hsch, hpos⟩
  intro r hr
  rw [hro] at hr
  exact hpos r hr

example : ∃ m, loadDddmp dddmpChain = .ok m ∧
    ReorderInv (run (holdOps m.roots) ⟨m, fun _ => 0⟩).ext (run (holdOps m.roots) ⟨m, fun _ => 0⟩).m := by
  obtain ⟨m, h, -, hr, -⟩ := C16_hold_roots dddmpChain dddmpChain_wf
  exact ⟨m, h, hr⟩

/-! ### the file's semantics read off the format: one composed statement per mode

`evalFormat f α x` evaluates the node list with the DDDMP reading rule `dddmpNameOf` (header
LINES only: `.varinfo`, `.ids`, `.permids`, `.orderedvarnames`, `.suppvarnames`); none of
the loader's tables enters.  Hypotheses: `f.WF` (the file is accepted and its node list is
consistent), `DddmpHeaderOK f` (the header entries that identify variables are distinct),
and the mode.  Every statement includes complemented else-edges (a negative else-column) and
signed root entries (`DddmpShannon.sign`). -/

/-- C16 (format semantics, every mode, with or without names): the roots of the loaded manager denote, by
variable NAME, exactly the root entries of the file evaluated by the DDDMP rule; that
evaluation obeys the Shannon rule on every listed line; the manager is a good state -/
theorem C16_format (f : DddmpFile) (hf : f.WF) (hH : DddmpHeaderOK f) :
    ∃ m, loadDddmp f = .ok m ∧ GoodState m (fun _ => 0) ∧
      DddmpRootsDenoteBy (evalFormat f) f m ∧
      DddmpShannon f (fun info var => dddmpNameOf f info = some var) (evalFormat f) ∧
      ∀ α x, evalFile f α x = evalFormat f α x := by
  obtain ⟨m, h, hg, -, -, -, -, hr, -⟩ := C16_load_good f hf
  have e : evalFile f = evalFormat f := by
    funext α x; exact evalFile_eq_evalFormat hf hH α x
  refine ⟨m, h, hg, ?_, evalFormat_shannon hf hH, fun α x => evalFile_eq_evalFormat hf hH α x⟩
  rw [← e]; exact (dddmpRootsDenote_iff f m).mp hr

/-- C16, `.varinfo 3` (labels are names; `.orderedvarnames` lists the writer's variables by
level): roots = the file's root entries, where the line labelled `var` is a node of the
variable `var`; the order of the loaded manager is `.orderedvarnames` -/
theorem C16_varinfo3 (f : DddmpFile) (hf : f.WF) (hH : DddmpHeaderOK f)
    (hv : f.varinfo = some 3) {ov : List DddmpTok} (ho : f.orderedvarnames = some ov) :
    ∃ m, loadDddmp f = .ok m ∧ GoodState m (fun _ => 0) ∧
      DddmpRootsDenoteBy (evalFormat f) f m ∧
      DddmpShannon f (fun info var => info = var ∧ var ∈ ov) (evalFormat f) ∧
      m.nvars = ov.length ∧ ∀ (k : Nat) (var : DddmpTok), ov[k]? = some var →
        m.tbl.vars[var.show]? = some k ∧ m.tbl.l2v[k]? = some var.show := by
  obtain ⟨m, h, hg, -, -, -, -, hr, hL⟩ := C16_load_good f hf
  obtain ⟨i2p, levels, roots, _, hh, _⟩ := id hf
  have e : evalFile f = evalFormat f := by
    funext α x; exact evalFile_eq_evalFormat hf hH α x
  refine ⟨m, h, hg, by rw [← e]; exact (dddmpRootsDenote_iff f m).mp hr,
    (evalFormat_shannon hf hH).reading (dddmpNameOf_varinfo3 hv ho),
    (hL _ _ _ hh).of_ordered hh hH ho⟩

/-- C16, `.varinfo 0` with `.orderedvarnames`: the line labelled `ids[j]` is a node of the
variable `orderedvarnames[permids[j]]`; the order of the loaded manager is `.orderedvarnames` -/
theorem C16_varinfo0_ordered (f : DddmpFile) (hf : f.WF) (hH : DddmpHeaderOK f)
    (hv : f.varinfo = some 0) {ids permids : List Int} (hi : f.ids = some ids)
    (hp : f.permids = some permids) {ov : List DddmpTok} (ho : f.orderedvarnames = some ov) :
    ∃ m, loadDddmp f = .ok m ∧ GoodState m (fun _ => 0) ∧
      DddmpRootsDenoteBy (evalFormat f) f m ∧
      DddmpShannon f (fun info var => ∃ (j : Nat) (i : Int) (k : Nat), info = .num i ∧
        ids[j]? = some i ∧ permids[j]? = some (k : Int) ∧ ov[k]? = some var) (evalFormat f) ∧
      m.nvars = ov.length ∧ ∀ (k : Nat) (var : DddmpTok), ov[k]? = some var →
        m.tbl.vars[var.show]? = some k ∧ m.tbl.l2v[k]? = some var.show := by
  have hnd : ids.Nodup := by have := hH.ids hv; rw [hi] at this; exact this
  obtain ⟨m, h, hg, -, -, -, -, hr, hL⟩ := C16_load_good f hf
  obtain ⟨i2p, levels, roots, _, hh, _⟩ := id hf
  have e : evalFile f = evalFormat f := by
    funext α x; exact evalFile_eq_evalFormat hf hH α x
  refine ⟨m, h, hg, by rw [← e]; exact (dddmpRootsDenote_iff f m).mp hr,
    (evalFormat_shannon hf hH).reading (dddmpNameOf_varinfo0_ordered hv hi hp hnd ho),
    (hL _ _ _ hh).of_ordered hh hH ho⟩

/-- C16, `.varinfo 1` with `.orderedvarnames`: the line labelled with the level `k` (an entry
of `.permids`) is a node of the variable `orderedvarnames[k]` -/
theorem C16_varinfo1_ordered (f : DddmpFile) (hf : f.WF) (hH : DddmpHeaderOK f)
    (hv : f.varinfo = some 1) {permids : List Int} (hp : f.permids = some permids)
    {ov : List DddmpTok} (ho : f.orderedvarnames = some ov) :
    ∃ m, loadDddmp f = .ok m ∧ GoodState m (fun _ => 0) ∧
      DddmpRootsDenoteBy (evalFormat f) f m ∧
      DddmpShannon f (fun info var => ∃ k : Nat, info = .num (k : Int) ∧ (k : Int) ∈ permids ∧
        ov[k]? = some var) (evalFormat f) ∧
      m.nvars = ov.length ∧ ∀ (k : Nat) (var : DddmpTok), ov[k]? = some var →
        m.tbl.vars[var.show]? = some k ∧ m.tbl.l2v[k]? = some var.show := by
  have hnd : permids.Nodup := by
    have := hH.permids (by rw [hv]; decide); rw [hp] at this; exact this
  obtain ⟨m, h, hg, -, -, -, -, hr, hL⟩ := C16_load_good f hf
  obtain ⟨i2p, levels, roots, _, hh, _⟩ := id hf
  have e : evalFile f = evalFormat f := by
    funext α x; exact evalFile_eq_evalFormat hf hH α x
  refine ⟨m, h, hg, by rw [← e]; exact (dddmpRootsDenote_iff f m).mp hr,
    (evalFormat_shannon hf hH).reading (dddmpNameOf_varinfo1_ordered hv hp hnd ho),
    (hL _ _ _ hh).of_ordered hh hH ho⟩

/-- C16, `.varinfo 0` without `.orderedvarnames`: the line labelled `ids[j]` is a node of the
variable `suppvarnames[j]`; `suppvarnames[j]` gets the rank of `permids[j]` as its level -/
theorem C16_varinfo0_supp (f : DddmpFile) (hf : f.WF) (hH : DddmpHeaderOK f)
    (hv : f.varinfo = some 0) (ho : f.orderedvarnames = none) {ids permids : List Int}
    (hi : f.ids = some ids) (hp : f.permids = some permids) {sv : List DddmpTok}
    (hs : f.suppvarnames = some sv) :
    ∃ m, loadDddmp f = .ok m ∧ GoodState m (fun _ => 0) ∧
      DddmpRootsDenoteBy (evalFormat f) f m ∧
      DddmpShannon f (fun info var => ∃ (j : Nat) (i : Int), info = .num i ∧ ids[j]? = some i ∧
        sv[j]? = some var) (evalFormat f) ∧
      m.nvars = permids.length ∧
      ∀ (j : Nat) (var : DddmpTok) (k : Int), sv[j]? = some var → permids[j]? = some k →
        ∃ i : Nat, (sortInts permids)[i]? = some k ∧ m.tbl.vars[var.show]? = some i ∧
          m.tbl.l2v[i]? = some var.show := by
  have hnd : ids.Nodup := by have := hH.ids hv; rw [hi] at this; exact this
  obtain ⟨m, h, hg, -, -, -, -, hr, hL⟩ := C16_load_good f hf
  obtain ⟨i2p, levels, roots, _, hh, _⟩ := id hf
  have e : evalFile f = evalFormat f := by
    funext α x; exact evalFile_eq_evalFormat hf hH α x
  refine ⟨m, h, hg, by rw [← e]; exact (dddmpRootsDenote_iff f m).mp hr,
    (evalFormat_shannon hf hH).reading (dddmpNameOf_varinfo0_supp hv hi hnd ho hs),
    (hL _ _ _ hh).of_supp hh hH (by rw [hv]; decide) ho hs hp⟩

/-- C16, `.varinfo 1` without `.orderedvarnames`: the line labelled `permids[j]` is a node of
the variable `suppvarnames[j]`; `suppvarnames[j]` gets the rank of `permids[j]` as its level -/
theorem C16_varinfo1_supp (f : DddmpFile) (hf : f.WF) (hH : DddmpHeaderOK f)
    (hv : f.varinfo = some 1) (ho : f.orderedvarnames = none) {permids : List Int}
    (hp : f.permids = some permids) {sv : List DddmpTok} (hs : f.suppvarnames = some sv) :
    ∃ m, loadDddmp f = .ok m ∧ GoodState m (fun _ => 0) ∧
      DddmpRootsDenoteBy (evalFormat f) f m ∧
      DddmpShannon f (fun info var => ∃ (j : Nat) (k : Int), info = .num k ∧
        permids[j]? = some k ∧ sv[j]? = some var) (evalFormat f) ∧
      m.nvars = permids.length ∧
      ∀ (j : Nat) (var : DddmpTok) (k : Int), sv[j]? = some var → permids[j]? = some k →
        ∃ i : Nat, (sortInts permids)[i]? = some k ∧ m.tbl.vars[var.show]? = some i ∧
          m.tbl.l2v[i]? = some var.show := by
  have hnd : permids.Nodup := by
    have := hH.permids (by rw [hv]; decide); rw [hp] at this; exact this
  obtain ⟨m, h, hg, -, -, -, -, hr, hL⟩ := C16_load_good f hf
  obtain ⟨i2p, levels, roots, _, hh, _⟩ := id hf
  have e : evalFile f = evalFormat f := by
    funext α x; exact evalFile_eq_evalFormat hf hH α x
  refine ⟨m, h, hg, by rw [← e]; exact (dddmpRootsDenote_iff f m).mp hr,
    (evalFormat_shannon hf hH).reading (dddmpNameOf_varinfo1_supp hv hp hnd ho hs),
    (hL _ _ _ hh).of_supp hh hH (by rw [hv]; decide) ho hs hp⟩

/-! non-vacuity of the five mode theorems: each example file meets the hypotheses, and on it
the reading of the format names `z`, `x`, `y` for the three lines -/

example : dddmpEx3.WF ∧ DddmpHeaderOK dddmpEx3 ∧ dddmpEx3.varinfo = some 3 := by decide
example : dddmpEx0o.WF ∧ DddmpHeaderOK dddmpEx0o ∧ dddmpEx0o.varinfo = some 0 := by decide
example : dddmpEx1o.WF ∧ DddmpHeaderOK dddmpEx1o ∧ dddmpEx1o.varinfo = some 1 := by decide
example : dddmpChain.WF ∧ DddmpHeaderOK dddmpChain ∧ dddmpChain.varinfo = some 0 ∧
    dddmpChain.orderedvarnames = none := by decide
example : dddmpEx1s.WF ∧ DddmpHeaderOK dddmpEx1s ∧ dddmpEx1s.varinfo = some 1 ∧
    dddmpEx1s.orderedvarnames = none := by decide

example : [dddmpChain, dddmpEx1s, dddmpEx0o, dddmpEx1o, dddmpEx3].map
      (fun f => f.nodes.map fun n => dddmpNameOf f n.info) =
    List.replicate 5 [some (.str "z"), none, some (.str "x"), some (.str "y")] := by decide

/-- on the `.varinfo 0` example: the loaded roots denote `if z then x ∨ ¬y else y` and
`¬(x ∨ ¬y)`, for every assignment of the names (the composed statement, instantiated; the
right-hand sides are evaluated on all 8 assignments of `x, y, z`) -/
example : ∃ m, loadDddmp dddmpChain = .ok m ∧ GoodState m (fun _ => 0) ∧
    (∃ r ∈ m.roots, ∀ α, den m.tbl r (dddmpAsgOf m.tbl α) = evalFormat dddmpChain α 2) ∧
    (∃ r ∈ m.roots, ∀ α, den m.tbl r (dddmpAsgOf m.tbl α) = evalFormat dddmpChain α (-4)) ∧
    ∀ x y z : Bool,
      evalFormat dddmpChain (fun s => if s = "x" then x else if s = "y" then y else z) 2 =
        (if z then (x || !y) else y) ∧
      evalFormat dddmpChain (fun s => if s = "x" then x else if s = "y" then y else z) (-4) =
        !(x || !y) := by
  obtain ⟨m, h, hg, hr, -, -, -⟩ := C16_varinfo0_supp dddmpChain dddmpChain_wf dddmpChain_headerOK
    rfl rfl (ids := [4, 7, 1]) rfl (permids := [2, 5, 0]) rfl
    (sv := [.str "x", .str "y", .str "z"]) rfl
  refine ⟨m, h, hg, ?_, ?_, by decide⟩
  · obtain ⟨r, hrm, -, hd⟩ := hr.1 2 (by decide)
    exact ⟨r, hrm, hd⟩
  · obtain ⟨r, hrm, -, hd⟩ := hr.1 (-4) (by decide)
    exact ⟨r, hrm, hd⟩

/-! ### files WITHOUT names (`.orderedvarnames` and `.suppvarnames` both absent)

The format then has no variable names.  `load` invents them: the variable at level `L` is the
Python `int` `permids[L]` (so the `j`-th support variable is called `permids[permids[j]]`); the
manager's `vars` has `int` keys (`DddmpTok.show` prints them; such variables can be used with
`bdd.var(3)` / `let` / `quantify`, not in `add_expr` texts, whose grammar has no bare numbers).
`C16_varinfo{0,1}_nameless` state the loader's convention from the header lines alone;
`C16_nameless_by_index` is the case in which the invented name is the variable's index `ids[j]`
in the writer (`permids[permids[j]] = ids[j]`, e.g. the identity order): only then does "by
variable name" mean something outside the loader. -/

/-- C16, `.varinfo 0` without names: the line labelled `ids[j]` is a node of the variable the
loader calls `permids[permids[j]]`; level `L` of the loaded manager is the variable `permids[L]` -/
theorem C16_varinfo0_nameless (f : DddmpFile) (hf : f.WF) (hH : DddmpHeaderOK f)
    (hv : f.varinfo = some 0) (ho : f.orderedvarnames = none) (hs : f.suppvarnames = none)
    {ids permids : List Int} (hi : f.ids = some ids) (hp : f.permids = some permids) :
    ∃ m, loadDddmp f = .ok m ∧ GoodState m (fun _ => 0) ∧
      DddmpRootsDenoteBy (evalFormat f) f m ∧
      DddmpShannon f (fun info var => ∃ (j : Nat) (i : Int) (k : Nat) (v : Int), info = .num i ∧
        ids[j]? = some i ∧ permids[j]? = some (k : Int) ∧ permids[k]? = some v ∧ var = .num v)
        (evalFormat f) ∧
      m.nvars = permids.length ∧ ∀ (L : Nat) (v : Int), permids[L]? = some v →
        m.tbl.vars[toString v]? = some L ∧ m.tbl.l2v[L]? = some (toString v) := by
  have hnd : ids.Nodup := by have := hH.ids hv; rw [hi] at this; exact this
  obtain ⟨m, h, hg, -, -, -, -, hr, hL⟩ := C16_load_good f hf
  obtain ⟨i2p, levels, roots, _, hh, _⟩ := id hf
  have e : evalFile f = evalFormat f := by
    funext α x; exact evalFile_eq_evalFormat hf hH α x
  refine ⟨m, h, hg, by rw [← e]; exact (dddmpRootsDenote_iff f m).mp hr,
    (evalFormat_shannon hf hH).reading (dddmpNameOf_varinfo0_nameless hv hi hp hnd ho hs),
    (hL _ _ _ hh).of_nameless hh hH (by rw [hv]; decide) ho hs hp⟩

/-- C16, `.varinfo 1` without names: the line labelled with the level `k` (an entry of
`.permids`) is a node of the variable the loader calls `permids[k]` -/
theorem C16_varinfo1_nameless (f : DddmpFile) (hf : f.WF) (hH : DddmpHeaderOK f)
    (hv : f.varinfo = some 1) (ho : f.orderedvarnames = none) (hs : f.suppvarnames = none)
    {permids : List Int} (hp : f.permids = some permids) :
    ∃ m, loadDddmp f = .ok m ∧ GoodState m (fun _ => 0) ∧
      DddmpRootsDenoteBy (evalFormat f) f m ∧
      DddmpShannon f (fun info var => ∃ (k : Nat) (v : Int), info = .num (k : Int) ∧
        (k : Int) ∈ permids ∧ permids[k]? = some v ∧ var = .num v) (evalFormat f) ∧
      m.nvars = permids.length ∧ ∀ (L : Nat) (v : Int), permids[L]? = some v →
        m.tbl.vars[toString v]? = some L ∧ m.tbl.l2v[L]? = some (toString v) := by
  have hnd : permids.Nodup := by
    have := hH.permids (by rw [hv]; decide); rw [hp] at this; exact this
  obtain ⟨m, h, hg, -, -, -, -, hr, hL⟩ := C16_load_good f hf
  obtain ⟨i2p, levels, roots, _, hh, _⟩ := id hf
  have e : evalFile f = evalFormat f := by
    funext α x; exact evalFile_eq_evalFormat hf hH α x
  refine ⟨m, h, hg, by rw [← e]; exact (dddmpRootsDenote_iff f m).mp hr,
    (evalFormat_shannon hf hH).reading (dddmpNameOf_varinfo1_nameless hv hp hnd ho hs),
    (hL _ _ _ hh).of_nameless hh hH (by rw [hv]; decide) ho hs hp⟩

/-- the invented names are the indices of the writer: `permids[permids[j]] = ids[j]` for every
support variable `j` -/
def namelessCoherentB (ids permids : List Int) : Bool :=
  (List.range ids.length).all fun j =>
    match ids[j]?, permids[j]? with
    | some i, some k => decide (0 ≤ k) && permids[k.toNat]? == some i
    | _, _ => true

def NamelessCoherent (ids permids : List Int) : Prop := namelessCoherentB ids permids = true

instance (ids permids : List Int) : Decidable (NamelessCoherent ids permids) :=
  inferInstanceAs (Decidable (namelessCoherentB ids permids = true))

theorem NamelessCoherent.get {ids permids : List Int} (h : NamelessCoherent ids permids)
    {j : Nat} {i k : Int} (hi : ids[j]? = some i) (hk : permids[j]? = some k) :
    0 ≤ k ∧ permids[k.toNat]? = some i := by
  have hj : j ∈ List.range ids.length := List.mem_range.mpr (List.getElem?_eq_some_iff.mp hi).1
  have := List.all_eq_true.mp h j hj
  simp only [hi, hk, Bool.and_eq_true, decide_eq_true_eq, beq_iff_eq] at this
  exact this

/-- C16, files without names whose invented names are the writer's indices (`.varinfo 0`): the
line labelled `i` (an entry of `.ids`) is a node of the variable `i` — the roots of the loaded
manager denote the file's root entries as functions of the variable INDICES -/
theorem C16_nameless_by_index (f : DddmpFile) (hf : f.WF) (hH : DddmpHeaderOK f)
    (hv : f.varinfo = some 0) (ho : f.orderedvarnames = none) (hs : f.suppvarnames = none)
    {ids permids : List Int} (hi : f.ids = some ids) (hp : f.permids = some permids)
    (hc : NamelessCoherent ids permids) :
    ∃ m, loadDddmp f = .ok m ∧ GoodState m (fun _ => 0) ∧
      DddmpRootsDenoteBy (evalFormat f) f m ∧
      DddmpShannon f (fun info var => ∃ i : Int, info = .num i ∧ i ∈ ids ∧ var = .num i)
        (evalFormat f) := by
  obtain ⟨m, h, hg, hr, hsh, -⟩ := C16_varinfo0_nameless f hf hH hv ho hs hi hp
  obtain ⟨i2p, levels, roots, _, hh, _⟩ := id hf
  obtain ⟨hlen, _, _⟩ := dddmpHeader_lengths hh hi hp
  refine ⟨m, h, hg, hr, hsh.reading ?_⟩
  intro info var
  constructor
  · rintro ⟨j, i, k, v, rfl, hji, hjk, hkv, rfl⟩
    obtain ⟨_, hk⟩ := hc.get hji hjk
    simp only [Int.toNat_natCast] at hk
    rw [hkv] at hk
    have hvi : v = i := Option.some.inj hk
    subst hvi
    exact ⟨v, rfl, List.mem_of_getElem? hji, rfl⟩
  · rintro ⟨i, rfl, hm, rfl⟩
    obtain ⟨j, hji⟩ := List.mem_iff_getElem?.mp hm
    have hjl : j < permids.length := by
      have := (List.getElem?_eq_some_iff.mp hji).1; omega
    obtain ⟨hk0, hk⟩ := hc.get hji (List.getElem?_eq_getElem hjl)
    refine ⟨j, i, permids[j].toNat, i, rfl, hji, ?_, hk, rfl⟩
    rw [Int.toNat_of_nonneg hk0]
    exact List.getElem?_eq_getElem hjl

/-- example files without names: the diagram of `dddmpExWith` (`z < x < y`) written by a manager
in which `z, x, y` have the indices 1, 0, 2 (levels 0, 1, 2): `.ids 0 1 2`, `.permids 1 0 2` -/
def dddmpExNameless (vi : Int) (lx ly lz : DddmpTok) : DddmpFile := {
  varinfo := some vi, nnodes := some 4, nvars := some 3, nsuppvars := some 3,
  ids := some [0, 1, 2], permids := some [1, 0, 2], nroots := some 2, rootids := some [2, -4],
  nodes := [⟨2, lz, 2, 4, 3⟩, ⟨1, .str "T", 1, 0, 0⟩, ⟨4, lx, 0, 1, -3⟩, ⟨3, ly, 1, 1, -1⟩] }

def dddmpExN0 : DddmpFile := dddmpExNameless 0 (.num 0) (.num 2) (.num 1)
def dddmpExN1 : DddmpFile := dddmpExNameless 1 (.num 1) (.num 2) (.num 0)

example : dddmpExN0.WF ∧ DddmpHeaderOK dddmpExN0 ∧ dddmpExN0.varinfo = some 0 ∧
    dddmpExN0.orderedvarnames = none ∧ dddmpExN0.suppvarnames = none ∧
    NamelessCoherent [0, 1, 2] [1, 0, 2] := by decide
example : dddmpExN1.WF ∧ DddmpHeaderOK dddmpExN1 ∧ dddmpExN1.varinfo = some 1 ∧
    dddmpExN1.orderedvarnames = none ∧ dddmpExN1.suppvarnames = none := by decide
/-- on both, the three lines are nodes of the variables `1` (`z`), `0` (`x`), `2` (`y`) -/
example : [dddmpExN0, dddmpExN1].map (fun f => f.nodes.map fun n => dddmpNameOf f n.info) =
    List.replicate 2 [some (.num 1), none, some (.num 0), some (.num 2)] := by decide
/-- the invented name is NOT the index in general: with `.ids 0 1 2`, `.permids 1 2 0` the
variable of index 0 (at level 1) is called `2` -/
example : dddmpNameOf { dddmpExN0 with permids := some [1, 2, 0] } (.num 0) = some (.num 2) ∧
    ¬ NamelessCoherent [0, 1, 2] [1, 2, 0] := by decide

/-- the accepted modes are exactly these: a well-formed file has `.varinfo` 0, 1 or 3, and
`.varinfo 3` needs `.orderedvarnames` -/
theorem C16_modes (f : DddmpFile) (hf : f.WF) :
    f.varinfo = some 0 ∨ f.varinfo = some 1 ∨
      (f.varinfo = some 3 ∧ ∃ ov, f.orderedvarnames = some ov) := by
  obtain ⟨i2p, levels, roots, _, hh, _⟩ := hf
  obtain ⟨ids, permids, _, _, _, _, hI, _, _⟩ := dddmpHeader_inv hh
  obtain ⟨t, _, ht, _, _⟩ := dddmpInfo2permid_inv hI
  unfold dddmpInfoTable at ht
  split at ht
  · next hv => exact Or.inl hv
  · next hv => exact Or.inr (Or.inl hv)
  · cases ht
  · next hv =>
    split at ht
    · cases ht
    · next ov ho => exact Or.inr (Or.inr ⟨hv, ov, ho⟩)
  · cases ht
  · cases ht

/-- the assignment `a = true, b = false` -/
def dddmpWitnessAsg : String → Bool := fun s => s == "a"

/-- on the witness file the loader returns the roots `3` (= `a`) and `-2` (= `¬ b`) -/
theorem dddmpWitness_load :
    (loadDddmp dddmpWitness).toOption.map (fun m =>
      (m.roots, den m.tbl 3 (dddmpAsgOf m.tbl dddmpWitnessAsg), den m.tbl (-2) (dddmpAsgOf m.tbl dddmpWitnessAsg),
        evalFile dddmpWitness dddmpWitnessAsg 2, evalFile dddmpWitness dddmpWitnessAsg (-3))) =
    some ([3, -2], true, true, true, true) := by
  decide +kernel

/-- the variable-identification modes 2 (auxiliary ids) and 4 (none) are refused with
`NotImplementedError` as soon as the header is consistent, before anything is built -/
theorem C16_unsupported_varinfo (f : DddmpFile) (hv : f.varinfo = some 2 ∨ f.varinfo = some 4)
    (hc : dddmpAssertConsistent f = .ok ()) :
    loadDddmp f = .error .notImplemented := by
  have hids : ∃ ids permids rootids, f.ids = some ids ∧ f.permids = some permids ∧
      f.rootids = some rootids := by
    unfold dddmpAssertConsistent at hc
    cases h1 : f.ids <;> cases h2 : f.permids <;> cases h3 : f.rootids <;>
      simp_all [bind, Except.bind, throw, throwThe, MonadExceptOf.throw]
    all_goals (repeat' split at hc) <;> simp_all
  obtain ⟨ids, permids, rootids, h1, h2, h3⟩ := hids
  have hi : dddmpInfo2permid f ids permids = .error .notImplemented := by
    unfold dddmpInfo2permid dddmpInfoTable
    rcases hv with hv | hv <;> simp [hv, throw, throwThe, MonadExceptOf.throw]
  simp [loadDddmp, loadDddmpU, dddmpLoadCore, dddmpHeader, hc, h1, h2, h3, hi, Except.map]

/-- non-vacuity of `C16_unsupported_varinfo` -/
example : loadDddmp { dddmpWitness with varinfo := some 2 } = .error .notImplemented :=
  C16_unsupported_varinfo _ (Or.inl rfl) rfl

/-- non-vacuity: the hypotheses of the theorems above are met by `dddmpWitness` -/
example : dddmpWitness.WF := dddmpWitness_wf

/-! ### historical: the loader before the repair (finding F1)

`loadDddmpPreFix` stored the numbers of the file in `roots`.  The statement of C16 was
false of it, on the same witness file.  (Not part of the claims about the current code.) -/

theorem dddmpWitness_prefix_eval :
    (loadDddmpPreFix dddmpWitness).toOption.map (fun m =>
      (m.roots, den m.tbl 2 (dddmpAsgOf m.tbl dddmpWitnessAsg), den m.tbl (-3) (dddmpAsgOf m.tbl dddmpWitnessAsg),
        evalFile dddmpWitness dddmpWitnessAsg 2)) = some ([2, -3], false, false, true) := by
  decide +kernel

theorem dddmpPreFix_roots_false :
    ¬ (∀ f : DddmpFile, f.WF → ∃ m, loadDddmpPreFix f = .ok m ∧ Inv m ∧ DddmpRootsDenote f m) := by
  intro h
  obtain ⟨m, hm, _, hd, _⟩ := h dddmpWitness dddmpWitness_wf
  have key := dddmpWitness_prefix_eval
  rw [hm] at key
  simp only [Except.toOption, Option.map_some, Option.some.injEq, Prod.mk.injEq] at key
  obtain ⟨hr, h2, h3, he⟩ := key
  obtain ⟨r, hrm, _, hden⟩ := hd 2 (by simp [dddmpWitness])
  rw [hr] at hrm
  simp only [List.mem_cons, List.not_mem_nil, or_false] at hrm
  have := hden dddmpWitnessAsg
  rw [he] at this
  rcases hrm with rfl | rfl
  · rw [h2] at this; cases this
  · rw [h3] at this; cases this

end DD
