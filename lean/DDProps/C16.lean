/-
  DDProps.C16 — a DDDMP file loads to the functions it describes.

  Model: `DD/Dddmp.lean` (abstract content of a text-mode file, `Parser._parse_header`'s
  tables, `_parse_body`/`_add_node`, `load`).  Specification: `DDProofs/DddmpProofs.lean`
  (`evalFile`: the node list of the file evaluated directly, by variable NAME;
  `DddmpFile.WF`: well-formed files, with ANY numbering of the nodes).

  The proofs in `DDProofs/DddmpProofs.lean` use the specification of `find_or_add` as the
  hypothesis `FoaSpec` (names `…_of_foaSpec`); it is discharged here with
  `findOrAddCore_spec` (`DDProofs/FindOrAdd.lean`), so the theorems below are unconditional.
-/
import DDProofs.DddmpProofs
import DDProofs.DddmpHeader
import DDProofs.FindOrAdd
namespace DD

/-- the specification of `find_or_add` assumed by `DDProofs/DddmpProofs.lean` holds -/
theorem foaSpec : FoaSpec :=
  ⟨fun m i v w hI hi hv hw hlv hlw => by
    obtain ⟨r, m', he, hp⟩ := findOrAddCore_spec m hI i v w hi hv hw hlv hlw
    exact ⟨r, m', he, hp.inv, hp.ext, hp.mem, hp.lvl, hp.den⟩⟩

/-- a small file whose numbering differs from the order in which the loader recreates the
nodes (the minimal reproduction of finding F1, since repaired): two roots `a` and `¬ b`,
numbered in the order CUDD's writer would number them (then-child, else-child, node —
root by root); the loader creates level 1 (`b`) first -/
def dddmpWitness : DddmpFile := {
  varinfo := some 0, nnodes := some 3, nvars := some 2, nsuppvars := some 2,
  suppvarnames := some [.str "a", .str "b"], orderedvarnames := some [.str "a", .str "b"],
  ids := some [0, 1], permids := some [0, 1], nroots := some 2, rootids := some [2, -3],
  nodes := [⟨1, .str "T", 1, 0, 0⟩, ⟨2, .num 0, 0, 1, -1⟩, ⟨3, .num 1, 1, 1, -1⟩] }

theorem dddmpWitness_header : dddmpHeader dddmpWitness =
    .ok ([(.num 0, 0), (.num 1, 1), (.str "T", 3)], [(.str "a", 0), (.str "b", 1)], [2, -3]) := by
  rfl

/-- non-vacuity of `DddmpFile.WF`: the witness file is well-formed -/
theorem dddmpWitness_wf : dddmpWitness.WF := by
  refine ⟨_, _, _, 2, dddmpWitness_header, rfl, ⟨by decide, rfl, by decide, by decide, by decide, ?_, ?_⟩, ?_⟩
  · intro p hp
    simp only [List.mem_cons, List.not_mem_nil, or_false] at hp
    rcases hp with rfl | rfl <;> decide
  · intro n hn
    simp only [dddmpWitness, List.mem_cons, List.not_mem_nil, or_false] at hn
    rcases hn with rfl | rfl | rfl
    · exact Or.inl ⟨rfl, rfl, rfl, rfl⟩
    · refine Or.inr ⟨by decide, by decide, by decide, by decide, 0, rfl, by decide, ?_, ?_⟩ <;>
        exact ⟨⟨1, .str "T", 1, 0, 0⟩, by simp [dddmpWitness], rfl, 3, rfl, by decide⟩
    · refine Or.inr ⟨by decide, by decide, by decide, by decide, 1, rfl, by decide, ?_, ?_⟩ <;>
        exact ⟨⟨1, .str "T", 1, 0, 0⟩, by simp [dddmpWitness], rfl, 3, rfl, by decide⟩
  · intro ρ hρ
    simp only [List.mem_cons, List.not_mem_nil, or_false] at hρ
    rcases hρ with rfl | rfl
    · exact ⟨⟨2, .num 0, 0, 1, -1⟩, by simp [dddmpWitness], rfl⟩
    · exact ⟨⟨3, .num 1, 1, 1, -1⟩, by simp [dddmpWitness], rfl⟩

/-- C16: for a well-formed file — whatever numbering it uses for its nodes, with or without
gaps in the levels, for each of the variable-identification modes 0, 1, 3 —
`dd.dddmp.load` succeeds, the manager satisfies the invariant (hence is canonical, C02),
the loader's map sends every node number of the file to a reference that denotes, by
variable name, what the node list says, and the returned `roots` denote (as a set of
functions — `bdd.roots` is a `set`) exactly the root entries of the file -/
theorem C16_load_spec (f : DddmpFile) (hf : f.WF) :
    ∃ m umap, loadDddmpU f = .ok (m, umap) ∧ loadDddmp f = .ok m ∧ Inv m ∧
      (∀ x ∈ f.nodes, ∃ r, dictGet umap x.u = some r ∧ m.tbl.Mem r ∧
        ∀ α, den m.tbl r (asgOf m.tbl α) = evalFile f α x.u) ∧
      DddmpRootsDenote f m :=
  dddmpLoad_spec_of_foaSpec foaSpec f hf

/-- C16, the roots clause alone -/
theorem C16_roots (f : DddmpFile) (hf : f.WF) :
    ∃ m, loadDddmp f = .ok m ∧ Inv m ∧ DddmpRootsDenote f m := by
  obtain ⟨m, _, _, h, hi, _, hr⟩ := C16_load_spec f hf
  exact ⟨m, h, hi, hr⟩

/-- C16, canonicity of the loaded manager spelled out: two references of the returned
manager are equal exactly when they denote the same function -/
theorem C16_canonical (f : DddmpFile) (hf : f.WF) :
    ∃ m, loadDddmp f = .ok m ∧ ∀ u v, m.tbl.Mem u → m.tbl.Mem v →
      ((∀ a, den m.tbl u a = den m.tbl v a) ↔ u = v) := by
  obtain ⟨m, h, hi, _⟩ := C16_roots f hf
  exact ⟨m, h, fun u v hu hv => canonical m.tbl hi.wf u v hu hv⟩

/-- the assignment `a = true, b = false` -/
def dddmpWitnessAsg : String → Bool := fun s => s == "a"

/-- on the witness file the loader returns the roots `3` (= `a`) and `-2` (= `¬ b`) -/
theorem dddmpWitness_load :
    (loadDddmp dddmpWitness).toOption.map (fun m =>
      (m.roots, den m.tbl 3 (asgOf m.tbl dddmpWitnessAsg), den m.tbl (-2) (asgOf m.tbl dddmpWitnessAsg),
        evalFile dddmpWitness dddmpWitnessAsg 2, evalFile dddmpWitness dddmpWitnessAsg (-3))) =
    some ([3, -2], true, true, true, true) := by
  decide +kernel

/-- the variable-identification modes 2 (auxiliary ids) and 4 (none) are refused with
`NotImplementedError` as soon as the header is consistent, before anything is built -/
theorem C16_unsupported_varinfo (f : DddmpFile) (hv : f.varinfo = some 2 ∨ f.varinfo = some 4)
    (hc : dddmpAssertConsistent f = .ok ()) :
    loadDddmp f = .error .notImplemented := by
  have hids : ∃ ids permids rootids, f.ids = some ids ∧ f.permids = some permids ∧
      f.rootids = some rootids := by
    unfold dddmpAssertConsistent at hc
    cases h1 : f.ids <;> cases h2 : f.permids <;> cases h3 : f.rootids <;>
      simp_all [bind, Except.bind, throw, throwThe, MonadExceptOf.throw]
    all_goals (repeat' split at hc) <;> simp_all
  obtain ⟨ids, permids, rootids, h1, h2, h3⟩ := hids
  have hi : dddmpInfo2permid f ids permids = .error .notImplemented := by
    unfold dddmpInfo2permid dddmpInfoTable
    rcases hv with hv | hv <;> simp [hv, throw, throwThe, MonadExceptOf.throw]
  simp [loadDddmp, loadDddmpU, dddmpLoadCore, dddmpHeader, hc, h1, h2, h3, hi, Except.map]

/-- non-vacuity of `C16_unsupported_varinfo` -/
example : loadDddmp { dddmpWitness with varinfo := some 2 } = .error .notImplemented :=
  C16_unsupported_varinfo _ (Or.inl rfl) rfl

/-- non-vacuity: the hypotheses of the theorems above are met by `dddmpWitness` -/
example : dddmpWitness.WF := dddmpWitness_wf

/-! ### historical: the loader before the repair (finding F1)

`loadDddmpPreFix` stored the numbers of the file in `roots`.  The statement of C16 was
false of it, on the same witness file.  (Not part of the claims about the current code.) -/

theorem dddmpWitness_prefix_eval :
    (loadDddmpPreFix dddmpWitness).toOption.map (fun m =>
      (m.roots, den m.tbl 2 (asgOf m.tbl dddmpWitnessAsg), den m.tbl (-3) (asgOf m.tbl dddmpWitnessAsg),
        evalFile dddmpWitness dddmpWitnessAsg 2)) = some ([2, -3], false, false, true) := by
  decide +kernel

theorem dddmpPreFix_roots_false :
    ¬ (∀ f : DddmpFile, f.WF → ∃ m, loadDddmpPreFix f = .ok m ∧ Inv m ∧ DddmpRootsDenote f m) := by
  intro h
  obtain ⟨m, hm, _, hd, _⟩ := h dddmpWitness dddmpWitness_wf
  have key := dddmpWitness_prefix_eval
  rw [hm] at key
  simp only [Except.toOption, Option.map_some, Option.some.injEq, Prod.mk.injEq] at key
  obtain ⟨hr, h2, h3, he⟩ := key
  obtain ⟨r, hrm, _, hden⟩ := hd 2 (by simp [dddmpWitness])
  rw [hr] at hrm
  simp only [List.mem_cons, List.not_mem_nil, or_false] at hrm
  have := hden dddmpWitnessAsg
  rw [he] at this
  rcases hrm with rfl | rfl
  · rw [h2] at this; cases this
  · rw [h3] at this; cases this

end DD
