/-
  DDProps.C16 — a DDDMP file loads to the functions it describes.

  Model: `DD/Dddmp.lean` (abstract content of a text-mode file, `Parser._parse_header`'s
  tables, `_parse_body`/`_add_node`, `load`).  Specification: `DDProofs/DddmpProofs.lean`
  (`evalFile`: the node list of the file evaluated directly, by variable NAME;
  `DddmpFile.WF`: well-formed files, with ANY numbering of the nodes).

  The proofs in `DDProofs/DddmpProofs.lean` use the specification of `find_or_add` as the
  hypothesis `FoaSpec` (names `…_of_foaSpec`); it is discharged here with
  `findOrAddCore_spec` (`DDProofs/FindOrAdd.lean`), so the theorems below are unconditional.
-/
import DDProofs.DddmpProofs
import DDProofs.DddmpHeader
import DDProofs.DddmpFormat
import DDProofs.FindOrAdd
import DDProofs.Reach
import DDProofs.SwapDrivers
namespace DD

/-- the specification of `find_or_add` assumed by `DDProofs/DddmpProofs.lean` holds -/
theorem foaSpec : FoaSpec :=
  ⟨fun m i v w hI hi hv hw hlv hlw => by
    obtain ⟨r, m', he, hp⟩ := findOrAddCore_spec m hI i v w hi hv hw hlv hlw
    exact ⟨r, m', he, hp.inv, hp.ext, hp.mem, hp.lvl, hp.den⟩,
   fun m i v w hI hi hv hw hlv hlw => by
    obtain ⟨r, m', he, hp⟩ := findOrAddCore_spec m hI i v w hi hv hw hlv hlw
    rw [he]
    exact ⟨hp.frame, hp.fire, hp.cacheSame⟩⟩

/-- a small file whose numbering differs from the order in which the loader recreates the
nodes (the minimal reproduction of finding F1, since repaired): two roots `a` and `¬ b`,
numbered in the order CUDD's writer would number them (then-child, else-child, node —
root by root); the loader creates level 1 (`b`) first -/
def dddmpWitness : DddmpFile := {
  varinfo := some 0, nnodes := some 3, nvars := some 2, nsuppvars := some 2,
  suppvarnames := some [.str "a", .str "b"], orderedvarnames := some [.str "a", .str "b"],
  ids := some [0, 1], permids := some [0, 1], nroots := some 2, rootids := some [2, -3],
  nodes := [⟨1, .str "T", 1, 0, 0⟩, ⟨2, .num 0, 0, 1, -1⟩, ⟨3, .num 1, 1, 1, -1⟩] }

theorem dddmpWitness_header : dddmpHeader dddmpWitness =
    .ok ([(.num 0, 0), (.num 1, 1), (.str "T", 3)], [(.str "a", 0), (.str "b", 1)], [2, -3]) := by
  rfl

/-- non-vacuity of `DddmpFile.WF`: the witness file is well-formed -/
theorem dddmpWitness_wf : dddmpWitness.WF := by
  refine ⟨_, _, _, 2, dddmpWitness_header, rfl, ⟨by decide, rfl, by decide, by decide, by decide, ?_, ?_⟩, ?_⟩
  · intro p hp
    simp only [List.mem_cons, List.not_mem_nil, or_false] at hp
    rcases hp with rfl | rfl <;> decide
  · intro n hn
    simp only [dddmpWitness, List.mem_cons, List.not_mem_nil, or_false] at hn
    rcases hn with rfl | rfl | rfl
    · exact Or.inl ⟨rfl, rfl, rfl, rfl⟩
    · refine Or.inr ⟨by decide, by decide, by decide, by decide, 0, rfl, by decide, ?_, ?_⟩ <;>
        exact ⟨⟨1, .str "T", 1, 0, 0⟩, by simp [dddmpWitness], rfl, 3, rfl, by decide⟩
    · refine Or.inr ⟨by decide, by decide, by decide, by decide, 1, rfl, by decide, ?_, ?_⟩ <;>
        exact ⟨⟨1, .str "T", 1, 0, 0⟩, by simp [dddmpWitness], rfl, 3, rfl, by decide⟩
  · intro ρ hρ
    simp only [List.mem_cons, List.not_mem_nil, or_false] at hρ
    rcases hρ with rfl | rfl
    · exact ⟨⟨2, .num 0, 0, 1, -1⟩, by simp [dddmpWitness], rfl⟩
    · exact ⟨⟨3, .num 1, 1, 1, -1⟩, by simp [dddmpWitness], rfl⟩

/-- C16: for a well-formed file — whatever numbering it uses for its nodes, with or without
gaps in the levels, for each of the variable-identification modes 0, 1, 3 —
`dd.dddmp.load` succeeds, the manager satisfies the invariant (hence is canonical, C02),
the loader's map sends every node number of the file to a reference that denotes, by
variable name, what the node list says, and the returned `roots` denote (as a set of
functions — `bdd.roots` is a `set`) exactly the root entries of the file.

The returned manager is a state every other property theorem starts from:
`GoodState m (fun _ => 0)` = `Inv` + `OrderOK` (name maps inverse bijections onto `0..n-1`) +
`RefExact` for the EMPTY ledger (the loader takes no reference, not even on the roots:
`find_or_add` counts stored edges only, and `bdd.roots` is a plain set) + dynamic
reordering not enabled + outside a reordering context; no recorded schedule; every root is a
node.  `dd.dddmp.load(fname)` always builds a NEW manager (`_bdd.BDD(new_levels)`): there is
no receiving manager, and a refused file (exception) returns nothing. -/
theorem C16_load_spec (f : DddmpFile) (hf : f.WF) :
    ∃ m umap, loadDddmpU f = .ok (m, umap) ∧ loadDddmp f = .ok m ∧ Inv m ∧
      (∀ x ∈ f.nodes, ∃ r, dictGet umap x.u = some r ∧ m.tbl.Mem r ∧
        ∀ α, den m.tbl r (asgOf m.tbl α) = evalFile f α x.u) ∧
      DddmpRootsDenote f m ∧
      GoodState m (fun _ => 0) ∧ m.sched = [] ∧ (∀ r ∈ m.roots, m.tbl.Mem r) := by
  obtain ⟨m, umap, h1, h2, h3, h4, h5, h6, h7⟩ := dddmpLoad_good_of_foaSpec foaSpec f hf
  obtain ⟨i2p, levels, roots, _, hh, _⟩ := id hf
  have hL := h6 i2p levels roots hh
  exact ⟨m, umap, h1, h2, h3, h4, h5, ⟨h3, hL.order, hL.exact, hL.off, hL.ctx⟩, hL.sched, h7⟩

/-- C16, the roots clause alone -/
theorem C16_roots (f : DddmpFile) (hf : f.WF) :
    ∃ m, loadDddmp f = .ok m ∧ Inv m ∧ DddmpRootsDenote f m := by
  obtain ⟨m, _, _, h, hi, _, hr, _⟩ := C16_load_spec f hf
  exact ⟨m, h, hi, hr⟩

/-- C16, canonicity of the loaded manager spelled out: two references of the returned
manager are equal exactly when they denote the same function -/
theorem C16_canonical (f : DddmpFile) (hf : f.WF) :
    ∃ m, loadDddmp f = .ok m ∧ ∀ u v, m.tbl.Mem u → m.tbl.Mem v →
      ((∀ a, den m.tbl u a = den m.tbl v a) ↔ u = v) := by
  obtain ⟨m, h, hi, _⟩ := C16_roots f hf
  exact ⟨m, h, fun u v hu hv => canonical m.tbl hi.wf u v hu hv⟩

/-! ### the loaded manager is a reachable state (chaining) -/

/-- C16 (chaining): the manager returned for a well-formed file satisfies the full
reachable-state invariant `GoodState` with the empty ledger, nothing else is set (no schedule,
trigger counter, computed table), every root is a node, the roots denote the file's root
entries, and the ORDER is the file's: one variable per entry of the header's `levels`
table, the variable of file level `k` at the rank of `k` (`DddmpLoaded.rank`; by mode:
`C16_order_ordered`, `C16_order_supp`) -/
theorem C16_load_good (f : DddmpFile) (hf : f.WF) :
    ∃ m, loadDddmp f = .ok m ∧ GoodState m (fun _ => 0) ∧ m.sched = [] ∧ m.fireIn = none ∧
      m.cache = {} ∧ (∀ r ∈ m.roots, m.tbl.Mem r) ∧ DddmpRootsDenote f m ∧
      ∀ i2p levels roots, dddmpHeader f = .ok (i2p, levels, roots) → DddmpLoaded levels m := by
  obtain ⟨m, umap, _, h2, h3, _, h5, h6, h7⟩ := dddmpLoad_good_of_foaSpec foaSpec f hf
  obtain ⟨i2p, levels, roots, _, hh, _⟩ := id hf
  have hL := h6 i2p levels roots hh
  exact ⟨m, h2, ⟨h3, hL.order, hL.exact, hL.off, hL.ctx⟩, hL.sched, hL.fire, hL.cache, h7, h5, h6⟩

/-- the file's variables keep the relative order of their levels in the file (with
`OrderOK` and `nvars = levels.length` this determines the order of the loaded manager) -/
theorem C16_order_kept (f : DddmpFile) (hf : f.WF) :
    ∃ m, loadDddmp f = .ok m ∧ ∀ i2p levels roots, dddmpHeader f = .ok (i2p, levels, roots) →
      m.nvars = levels.length ∧
      (∀ var k, (var, k) ∈ levels → m.tbl.vars.contains var.show = true) ∧
      ∀ var k var' k' (i i' : Nat), (var, k) ∈ levels → (var', k') ∈ levels →
        m.tbl.vars[var.show]? = some i → m.tbl.vars[var'.show]? = some i' → k < k' → i < i' := by
  obtain ⟨m, h, -, -, -, -, -, -, hL⟩ := C16_load_good f hf
  refine ⟨m, h, fun i2p levels roots hh => ⟨(hL _ _ _ hh).nvars, ?_, ?_⟩⟩
  · intro var k hm
    obtain ⟨i, -, -, hv⟩ := (hL _ _ _ hh).rank var k hm
    rw [Std.TreeMap.contains_eq_isSome_getElem?, hv]; rfl
  · intro var k var' k' i i' hm hm' hi hi' hlt
    exact (hL _ _ _ hh).mono hm hm' hi hi' hlt

/-- with `.orderedvarnames` (distinct names): the order of the loaded manager IS that list -/
theorem C16_order_ordered (f : DddmpFile) (hf : f.WF) (hH : DddmpHeaderOK f) {ov : List Tok}
    (ho : f.orderedvarnames = some ov) :
    ∃ m, loadDddmp f = .ok m ∧ m.nvars = ov.length ∧ ∀ (k : Nat) (var : Tok), ov[k]? = some var →
      m.tbl.vars[var.show]? = some k ∧ m.tbl.l2v[k]? = some var.show := by
  obtain ⟨m, h, -, -, -, -, -, -, hL⟩ := C16_load_good f hf
  obtain ⟨i2p, levels, roots, _, hh, _⟩ := id hf
  exact ⟨m, h, (hL _ _ _ hh).of_ordered hh hH ho⟩

/-- without `.orderedvarnames`: `suppvarnames[j]` sits at the rank of `permids[j]` among the
`.permids` — gaps closed, relative order kept -/
theorem C16_order_supp (f : DddmpFile) (hf : f.WF) (hH : DddmpHeaderOK f)
    (hv3 : f.varinfo ≠ some 3) (ho : f.orderedvarnames = none) {sv : List Tok}
    (hs : f.suppvarnames = some sv) {permids : List Int} (hp : f.permids = some permids) :
    ∃ m, loadDddmp f = .ok m ∧ m.nvars = permids.length ∧
      ∀ (j : Nat) (var : Tok) (k : Int), sv[j]? = some var → permids[j]? = some k →
        ∃ i : Nat, (sortInts permids)[i]? = some k ∧ m.tbl.vars[var.show]? = some i ∧
          m.tbl.l2v[i]? = some var.show := by
  obtain ⟨m, h, -, -, -, -, -, -, hL⟩ := C16_load_good f hf
  obtain ⟨i2p, levels, roots, _, hh, _⟩ := id hf
  exact ⟨m, h, (hL _ _ _ hh).of_supp hh hH hv3 ho hs hp⟩

/-- C16 (chaining, every history): after a successful load EVERY guarded history of user
operations (`UOp`: declarations, connectives, substitutions, quantification, `incref` /
`decref`, collections — any arguments, accepted or rejected) leads to a good state again:
the every-history theorems (`run_inv`, `run_held`, …) restart from the loaded manager -/
theorem C16_then_every_history (f : DddmpFile) (hf : f.WF) :
    ∃ m, loadDddmp f = .ok m ∧ ∀ ops : List UOp, OpsGuarded ops ⟨m, fun _ => 0⟩ →
      GoodState (run ops ⟨m, fun _ => 0⟩).m (run ops ⟨m, fun _ => 0⟩).ext := by
  obtain ⟨m, h, hg, -⟩ := C16_load_good f hf
  exact ⟨m, h, fun ops hops => run_inv ops ⟨m, fun _ => 0⟩ hg hops⟩

/-- the user's `incref` of every element of a list -/
def holdOps (rs : List Int) : List UOp := rs.map .incref

theorem holdOps_guarded : ∀ (rs : List Int) (s : St), OpsGuarded (holdOps rs) s
  | [], _ => trivial
  | _ :: rs, s => ⟨trivial, holdOps_guarded rs _⟩

theorem run_holdOps : ∀ (rs : List Int) (s : St), GoodState s.m s.ext →
    (∀ r ∈ rs, s.m.tbl.Mem r) →
    GoodState (run (holdOps rs) s).m (run (holdOps rs) s).ext ∧
      (run (holdOps rs) s).m.tbl = s.m.tbl ∧ (run (holdOps rs) s).m.roots = s.m.roots ∧
      (run (holdOps rs) s).m.sched = s.m.sched ∧
      (∀ u, s.ext u ≤ (run (holdOps rs) s).ext u) ∧
      (∀ r ∈ rs, 0 < (run (holdOps rs) s).ext r.natAbs) := by
  intro rs
  induction rs with
  | nil => intro s h _; exact ⟨h, rfl, rfl, rfl, fun _ => Nat.le_refl _, fun _ hr => by cases hr⟩
  | cons r rs ih =>
    intro s h hm
    have hr : s.m.tbl.Mem r := hm r List.mem_cons_self
    obtain ⟨c, -, he, -⟩ := incref_spec s.m s.ext r h.exact hr
    have hmem : s.m.mem r = true := (Mgr.mem_iff s.m r).mpr hr
    have hs1 : step (.incref r) s =
        ⟨{ s.m with ref := s.m.ref.insert r.natAbs (c + 1) }, extInc s.ext r.natAbs⟩ := by
      simp only [step, runOp, mapRes, he, ledger, hmem, if_true]
    have hg1 : GoodState (step (.incref r) s).m (step (.incref r) s).ext :=
      step_inv s.m s.ext (.incref r) h trivial
    obtain ⟨g, ht, hro, hsc, hle, hpos⟩ := ih (step (.incref r) s) hg1 (by
      intro r' hr'
      rw [hs1]
      exact hm r' (List.mem_cons_of_mem _ hr'))
    have hle1 : ∀ u, s.ext u ≤ (step (.incref r) s).ext u := by
      intro u; rw [hs1]; simp only [extInc]; split <;> omega
    refine ⟨g, ?_, ?_, ?_, fun u => Nat.le_trans (hle1 u) (hle u), ?_⟩
    · show (run (holdOps rs) (step (.incref r) s)).m.tbl = _
      rw [ht, hs1]
    · show (run (holdOps rs) (step (.incref r) s)).m.roots = _
      rw [hro, hs1]
    · show (run (holdOps rs) (step (.incref r) s)).m.sched = _
      rw [hsc, hs1]
    · intro r' hr'
      rcases List.mem_cons.mp hr' with rfl | hr'
      · have : 0 < (step (.incref r') s).ext r'.natAbs := by
          rw [hs1]; simp [extInc]
        exact Nat.lt_of_lt_of_le this (hle _)
      · exact hpos r' hr'

/-- C16 (chaining with the reordering theorems): the loader takes no reference on the roots;
once the user has taken one on each (`incref`, as the class documentation asks), the state
satisfies `ReorderInv` — the hypothesis of the C07 theorems on `swap` / sifting /
`reorder` and of `bdd_to_mdd` (C15) — for the ledger that counts these references, and the
node table, hence every denotation, is the loaded one -/
theorem C16_hold_roots (f : DddmpFile) (hf : f.WF) :
    ∃ m, loadDddmp f = .ok m ∧
      let s := run (holdOps m.roots) ⟨m, fun _ => 0⟩
      GoodState s.m s.ext ∧ ReorderInv s.ext s.m ∧ s.m.tbl = m.tbl ∧ s.m.roots = m.roots ∧
        s.m.sched = [] ∧ ∀ r ∈ m.roots, 0 < s.ext r.natAbs := by
  obtain ⟨m, h, hg, hsch, -, -, hmem, -⟩ := C16_load_good f hf
  obtain ⟨g, ht, hro, hsc, -, hpos⟩ := run_holdOps m.roots ⟨m, fun _ => 0⟩ hg hmem
  refine ⟨m, h, g, ⟨g.inv, g.order, g.exact, Or.inl g.ctx, ?_⟩, ht, hro, hsc.trans hsch, hpos⟩
  intro r hr
  rw [hro] at hr
  exact hpos r hr

/-- the assignment `a = true, b = false` -/
def dddmpWitnessAsg : String → Bool := fun s => s == "a"

/-- on the witness file the loader returns the roots `3` (= `a`) and `-2` (= `¬ b`) -/
theorem dddmpWitness_load :
    (loadDddmp dddmpWitness).toOption.map (fun m =>
      (m.roots, den m.tbl 3 (asgOf m.tbl dddmpWitnessAsg), den m.tbl (-2) (asgOf m.tbl dddmpWitnessAsg),
        evalFile dddmpWitness dddmpWitnessAsg 2, evalFile dddmpWitness dddmpWitnessAsg (-3))) =
    some ([3, -2], true, true, true, true) := by
  decide +kernel

/-- the variable-identification modes 2 (auxiliary ids) and 4 (none) are refused with
`NotImplementedError` as soon as the header is consistent, before anything is built -/
theorem C16_unsupported_varinfo (f : DddmpFile) (hv : f.varinfo = some 2 ∨ f.varinfo = some 4)
    (hc : dddmpAssertConsistent f = .ok ()) :
    loadDddmp f = .error .notImplemented := by
  have hids : ∃ ids permids rootids, f.ids = some ids ∧ f.permids = some permids ∧
      f.rootids = some rootids := by
    unfold dddmpAssertConsistent at hc
    cases h1 : f.ids <;> cases h2 : f.permids <;> cases h3 : f.rootids <;>
      simp_all [bind, Except.bind, throw, throwThe, MonadExceptOf.throw]
    all_goals (repeat' split at hc) <;> simp_all
  obtain ⟨ids, permids, rootids, h1, h2, h3⟩ := hids
  have hi : dddmpInfo2permid f ids permids = .error .notImplemented := by
    unfold dddmpInfo2permid dddmpInfoTable
    rcases hv with hv | hv <;> simp [hv, throw, throwThe, MonadExceptOf.throw]
  simp [loadDddmp, loadDddmpU, dddmpLoadCore, dddmpHeader, hc, h1, h2, h3, hi, Except.map]

/-- non-vacuity of `C16_unsupported_varinfo` -/
example : loadDddmp { dddmpWitness with varinfo := some 2 } = .error .notImplemented :=
  C16_unsupported_varinfo _ (Or.inl rfl) rfl

/-- non-vacuity: the hypotheses of the theorems above are met by `dddmpWitness` -/
example : dddmpWitness.WF := dddmpWitness_wf

/-! ### historical: the loader before the repair (finding F1)

`loadDddmpPreFix` stored the numbers of the file in `roots`.  The statement of C16 was
false of it, on the same witness file.  (Not part of the claims about the current code.) -/

theorem dddmpWitness_prefix_eval :
    (loadDddmpPreFix dddmpWitness).toOption.map (fun m =>
      (m.roots, den m.tbl 2 (asgOf m.tbl dddmpWitnessAsg), den m.tbl (-3) (asgOf m.tbl dddmpWitnessAsg),
        evalFile dddmpWitness dddmpWitnessAsg 2)) = some ([2, -3], false, false, true) := by
  decide +kernel

theorem dddmpPreFix_roots_false :
    ¬ (∀ f : DddmpFile, f.WF → ∃ m, loadDddmpPreFix f = .ok m ∧ Inv m ∧ DddmpRootsDenote f m) := by
  intro h
  obtain ⟨m, hm, _, hd, _⟩ := h dddmpWitness dddmpWitness_wf
  have key := dddmpWitness_prefix_eval
  rw [hm] at key
  simp only [Except.toOption, Option.map_some, Option.some.injEq, Prod.mk.injEq] at key
  obtain ⟨hr, h2, h3, he⟩ := key
  obtain ⟨r, hrm, _, hden⟩ := hd 2 (by simp [dddmpWitness])
  rw [hr] at hrm
  simp only [List.mem_cons, List.not_mem_nil, or_false] at hrm
  have := hden dddmpWitnessAsg
  rw [he] at this
  rcases hrm with rfl | rfl
  · rw [h2] at this; cases this
  · rw [h3] at this; cases this

end DD
