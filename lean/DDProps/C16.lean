/-
  DDProps.C16 — a DDDMP file loads to the functions it describes.

  Model: `DD/Dddmp.lean` (abstract content of a text-mode file, `Parser._parse_header`'s
  tables, `_parse_body`/`_add_node`, `load`).  Specification: `DDProofs/DddmpProofs.lean`
  (`evalFile`: the node list of the file evaluated directly, by variable NAME;
  `DddmpFile.WF`: well-formed files, with ANY numbering of the nodes).

  The theorems use the specification of `find_or_add` as the hypothesis `FoaSpec`
  (proved separately in `DDProofs/FindOrAdd.lean`), hence the names `…_of_foaSpec`.
-/
import DDProofs.DddmpProofs
namespace DD

/-- the minimal file on which `dd.dddmp.load` (as it is now) returns wrong roots: two
roots `a` and `¬ b`, numbered in the order CUDD's writer would number them (then-child,
else-child, node — root by root); the loader creates level 1 (`b`) first -/
def dddmpWitness : DddmpFile := {
  varinfo := some 0, nnodes := some 3, nvars := some 2, nsuppvars := some 2,
  suppvarnames := some [.str "a", .str "b"], orderedvarnames := some [.str "a", .str "b"],
  ids := some [0, 1], permids := some [0, 1], nroots := some 2, rootids := some [2, -3],
  nodes := [⟨1, .str "T", 1, 0, 0⟩, ⟨2, .num 0, 0, 1, -1⟩, ⟨3, .num 1, 1, 1, -1⟩] }

theorem dddmpWitness_header : dddmpHeader dddmpWitness =
    .ok ([(.num 0, 0), (.num 1, 1), (.str "T", 3)], [(.str "a", 0), (.str "b", 1)], [2, -3]) := by
  rfl

/-- non-vacuity of `DddmpFile.WF`: the witness file is well-formed -/
theorem dddmpWitness_wf : dddmpWitness.WF := by
  refine ⟨_, _, _, 2, dddmpWitness_header, rfl, ⟨by decide, rfl, by decide, by decide, by decide, ?_, ?_⟩, ?_⟩
  · intro p hp
    simp only [List.mem_cons, List.not_mem_nil, or_false] at hp
    rcases hp with rfl | rfl <;> decide
  · intro n hn
    simp only [dddmpWitness, List.mem_cons, List.not_mem_nil, or_false] at hn
    rcases hn with rfl | rfl | rfl
    · exact Or.inl ⟨rfl, rfl, rfl, rfl⟩
    · refine Or.inr ⟨by decide, by decide, by decide, by decide, 0, rfl, by decide, ?_, ?_⟩ <;>
        exact ⟨⟨1, .str "T", 1, 0, 0⟩, by simp [dddmpWitness], rfl, 3, rfl, by decide⟩
    · refine Or.inr ⟨by decide, by decide, by decide, by decide, 1, rfl, by decide, ?_, ?_⟩ <;>
        exact ⟨⟨1, .str "T", 1, 0, 0⟩, by simp [dddmpWitness], rfl, 3, rfl, by decide⟩
  · intro ρ hρ
    simp only [List.mem_cons, List.not_mem_nil, or_false] at hρ
    rcases hρ with rfl | rfl
    · exact ⟨⟨2, .num 0, 0, 1, -1⟩, by simp [dddmpWitness], rfl⟩
    · exact ⟨⟨3, .num 1, 1, 1, -1⟩, by simp [dddmpWitness], rfl⟩

/-- C16, node numbers (under `FoaSpec`): for a well-formed file — whatever numbering it uses
for its nodes, with or without gaps in the levels — `load` succeeds, the manager satisfies
the invariant (hence is canonical, C02), and the loader's map sends every node number
of the file to a reference that denotes, by variable name, what the node list says -/
theorem C16_load_nodes_of_foaSpec (H : FoaSpec) (f : DddmpFile) (hf : f.WF) :
    ∃ m umap, loadDddmpU f = .ok (m, umap) ∧ Inv m ∧
      ∀ x ∈ f.nodes, ∃ r, dictGet umap x.u = some r ∧ m.tbl.Mem r ∧
        ∀ α, den m.tbl r (asgOf m.tbl α) = evalFile f α x.u :=
  dddmpLoad_nodes_of_foaSpec H f hf

/-- C16 at full strength: the `roots` of the returned manager denote (by variable name, as
a set of functions — `bdd.roots` is a `set`) the root entries of the file -/
def C16_roots_statement : Prop :=
  ∀ f : DddmpFile, f.WF → ∃ m, loadDddmp f = .ok m ∧ Inv m ∧ DddmpRootsDenote f m

/-- the assignment `a = true, b = false` -/
def dddmpWitnessAsg : String → Bool := fun s => s == "a"

theorem dddmpWitness_eval :
    (loadDddmp dddmpWitness).toOption.map (fun m =>
      (m.roots, den m.tbl 2 (asgOf m.tbl dddmpWitnessAsg), den m.tbl (-3) (asgOf m.tbl dddmpWitnessAsg),
        evalFile dddmpWitness dddmpWitnessAsg 2)) = some ([2, -3], false, false, true) := by
  decide +kernel

/-- the full statement is FALSE of the current code: on `dddmpWitness` the file's root `2`
is the function `a`, the returned roots `2` and `-3` denote `b` and `¬ a`
(the numbers of the file are stored in `roots` without being translated through `umap`) -/
theorem C16_roots_statement_false : ¬ C16_roots_statement := by
  intro h
  obtain ⟨m, hm, _, hd, _⟩ := h dddmpWitness dddmpWitness_wf
  have key := dddmpWitness_eval
  rw [hm] at key
  simp only [Except.toOption, Option.map_some, Option.some.injEq, Prod.mk.injEq] at key
  obtain ⟨hr, h2, h3, he⟩ := key
  obtain ⟨r, hrm, _, hden⟩ := hd 2 (by simp [dddmpWitness])
  rw [hr] at hrm
  simp only [List.mem_cons, List.not_mem_nil, or_false] at hrm
  have := hden dddmpWitnessAsg
  rw [he] at this
  rcases hrm with rfl | rfl
  · rw [h2] at this; cases this
  · rw [h3] at this; cases this

/-- what the current code does with the roots: it stores the numbers of the file -/
theorem C16_load_roots_raw (f : DddmpFile) (m : Mgr) (h : loadDddmp f = .ok m) :
    m.roots = dedupInts (f.rootids.getD []) := by
  unfold loadDddmp at h
  cases hU : loadDddmpU f with
  | error e => rw [hU] at h; cases h
  | ok p =>
    obtain ⟨m', umap⟩ := p
    rw [hU] at h
    simp only [Except.map, Except.ok.injEq] at h
    subst h
    obtain ⟨_, _, roots, hh, hmr⟩ := loadDddmpU_roots hU
    obtain ⟨_, _, rootids, _, _, hrid, _, _, hrd⟩ := dddmpHeader_inv hh
    rw [hmr, hrd, hrid]; rfl

/-- C16, the proved part for the current code (under `FoaSpec`): everything about the node
numbers, and each root entry *translated through the loader's map with its sign* denotes
the function of that root entry -/
theorem C16_load_spec_partial_of_foaSpec (H : FoaSpec) (f : DddmpFile) (hf : f.WF) :
    ∃ m umap, loadDddmpU f = .ok (m, umap) ∧ loadDddmp f = .ok m ∧ Inv m ∧
      (∀ x ∈ f.nodes, ∃ r, dictGet umap x.u = some r ∧ m.tbl.Mem r ∧
        ∀ α, den m.tbl r (asgOf m.tbl α) = evalFile f α x.u) ∧
      (∀ ρ ∈ f.rootids.getD [], ∃ r, dictGet umap (ρ.natAbs : Int) = some r ∧
        m.tbl.Mem (if ρ > 0 then r else -r) ∧
        ∀ α, den m.tbl (if ρ > 0 then r else -r) (asgOf m.tbl α) = evalFile f α ρ) ∧
      m.roots = dedupInts (f.rootids.getD []) :=
  dddmpLoad_spec_partial_of_foaSpec H f hf

/-- C16 for the repaired loader `loadDddmpFixed` (roots translated through `umap` with
sign): the full statement holds (under `FoaSpec`) -/
theorem C16_fixed_roots_of_foaSpec (H : FoaSpec) (f : DddmpFile) (hf : f.WF) :
    ∃ m, loadDddmpFixed f = .ok m ∧ Inv m ∧ DddmpRootsDenote f m :=
  dddmpLoadFixed_roots_of_foaSpec H f hf

/-- non-vacuity: the hypotheses of the theorems above are met by `dddmpWitness` -/
example : dddmpWitness.WF := dddmpWitness_wf

/-- the repaired loader is right on the witness: roots `3` (= `a`) and `-2` (= `¬ b`) -/
example : (loadDddmpFixed dddmpWitness).toOption.map (fun m =>
    (m.roots, den m.tbl 3 (asgOf m.tbl dddmpWitnessAsg), den m.tbl (-2) (asgOf m.tbl dddmpWitnessAsg),
      evalFile dddmpWitness dddmpWitnessAsg 2, evalFile dddmpWitness dddmpWitnessAsg (-3))) =
    some ([3, -2], true, true, true, true) := by
  decide +kernel

end DD
