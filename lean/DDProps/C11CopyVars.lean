/-
  DDProps.C11CopyVars — C11, last clause: `copy_vars` reproduces names and levels.
-/
import DDProofs.CopyVars
namespace DD
open Std

/-- C11 (`copy_vars(source, target)`): the source's order is a bijection (true of every reachable
manager: `reachable_inv`); the loop visits the source's variables in dictionary order — ANY
permutation `names` of them; the target's existing declarations are compatible with the source
(`VarsCompat`: it declares nothing, or some of the same variables at the same levels).  Then the
call returns normally and the target declares exactly the source's variables at the source's
levels, in both views (`vars` and `_level_to_var`); nodes, counts, caches, configuration and
roots of the target are untouched. -/
theorem C11_copy_vars (src : Tbl) (hO : OrderOK src) (names : List String)
    (hperm : names.Perm src.vars.keys) (m : Mgr) (hc : VarsCompat src m.tbl) :
    ∃ m', copyVarsCore src names m = (.ok (), m') ∧
      (∀ v : String, m'.tbl.vars[v]? = src.vars[v]?) ∧ (∀ i : Nat, m'.tbl.l2v[i]? = src.l2v[i]?) ∧
      m'.tbl.succ = m.tbl.succ ∧ m'.ref = m.ref ∧ m'.pred = m.pred ∧ m'.cache = m.cache ∧
      m'.minFree = m.minFree ∧ m'.lastLen = m.lastLen ∧ m'.ctx = m.ctx ∧ m'.roots = m.roots :=
  copyVarsCore_spec src hO names hperm m hc

/-- into a fresh manager -/
theorem C11_copy_vars_fresh (src : Tbl) (hO : OrderOK src) (names : List String)
    (hperm : names.Perm src.vars.keys) :
    ∃ m', copyVarsCore src names ({} : Mgr) = (.ok (), m') ∧
      (∀ v : String, m'.tbl.vars[v]? = src.vars[v]?) ∧ (∀ i : Nat, m'.tbl.l2v[i]? = src.l2v[i]?) := by
  obtain ⟨m', h, hv, hl, _⟩ := copyVarsCore_spec src hO names hperm {} (VarsCompat.empty src)
  exact ⟨m', h, hv, hl⟩

/-- non-vacuity: a source with two variables (built by two `add_var` steps from the empty
manager, hence `OrderOK`), visited in the reverse of the sorted order -/
example : ∃ (src : Tbl) (names : List String), OrderOK src ∧ names.Perm src.vars.keys ∧
    names = ["y", "x"] := by
  have h0 : OrderOK ({} : Mgr).tbl := OrderOK.empty
  have hx : ({} : Mgr).tbl.vars["x"]? = none := by decide
  obtain ⟨_, o1, _, _, _, _, _, _⟩ := addVar_new_spec {} Inv.init h0 "x" hx _ rfl
  have hy : (addVarState {} "x").tbl.vars["y"]? = none := by decide
  have i1 : Inv (addVarState {} "x") := (addVar_new_spec {} Inv.init h0 "x" hx _ rfl).1
  obtain ⟨_, o2, _⟩ := addVar_new_spec (addVarState {} "x") i1 o1 "y" hy _ rfl
  refine ⟨(addVarState (addVarState {} "x") "y").tbl, ["y", "x"], o2, ?_, rfl⟩
  have : (addVarState (addVarState {} "x") "y").tbl.vars.keys = ["x", "y"] := by decide
  rw [this]
  exact List.Perm.swap "x" "y" []

end DD
