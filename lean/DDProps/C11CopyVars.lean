/-
  DDProps.C11CopyVars — C11, last clause: `copy_vars` reproduces names and levels.
-/
import DDProofs.CopyVars
import DDProofs.SmallCopyVars
namespace DD
open Std

/-- C11 (`copy_vars(source, target)`): the source's order is a bijection (true of every reachable
manager: `reachable_inv`); the loop visits the source's variables in dictionary order — ANY
permutation `names` of them; the target's existing declarations are compatible with the source
(`VarsCompat`: it declares nothing, or some of the same variables at the same levels).  Then the
call returns normally and the target declares exactly the source's variables at the source's
levels, in both views (`vars` and `_level_to_var`); nodes, counts, caches, configuration and
roots of the target are untouched.
The TARGET afterwards is again a full reachable-state: its order is a bijection onto
`0..n-1` (`OrderOK`, with the source's number of variables, never fewer than before); if it had
the invariant `Inv` it still has it and every reference of the target denotes what it denoted;
exact counts stay exact for the same ledger.  (The source is a pure value: `copy_vars` reads
`source.vars` only, there is nothing of it that could change.) -/
theorem C11_copy_vars (src : Tbl) (hO : OrderOK src) (names : List String)
    (hperm : names.Perm src.vars.keys) (m : Mgr) (hc : VarsCompat src m.tbl) :
    ∃ m', copyVarsCore src names m = (.ok (), m') ∧
      (∀ v : String, m'.tbl.vars[v]? = src.vars[v]?) ∧ (∀ i : Nat, m'.tbl.l2v[i]? = src.l2v[i]?) ∧
      m'.tbl.succ = m.tbl.succ ∧ m'.ref = m.ref ∧ m'.pred = m.pred ∧ m'.cache = m.cache ∧
      m'.minFree = m.minFree ∧ m'.lastLen = m.lastLen ∧ m'.ctx = m.ctx ∧ m'.roots = m.roots ∧
      OrderOK m'.tbl ∧ m'.tbl.nvars = src.nvars ∧ m.tbl.nvars ≤ m'.tbl.nvars ∧
      (Inv m → Inv m' ∧ ∀ u, m.tbl.Mem u → m'.tbl.Mem u ∧ ∀ a, den m'.tbl u a = den m.tbl u a) ∧
      (∀ ext, RefExact m ext → RefExact m' ext) := by
  obtain ⟨m', h, a1, a2, a3, a4, a5, a6, a7, a8, a9, a10⟩ := copyVarsCore_spec src hO names hperm m hc
  obtain ⟨m'', h', b1, b2, b3, b4, b5⟩ := copyVarsCore_inv src hO names hperm m hc
  rw [h] at h'; cases h'
  exact ⟨m', h, a1, a2, a3, a4, a5, a6, a7, a8, a9, a10, b1, b2, b3, b4, b5⟩

/-- into a fresh manager: the result has the invariant and the source's order -/
theorem C11_copy_vars_fresh (src : Tbl) (hO : OrderOK src) (names : List String)
    (hperm : names.Perm src.vars.keys) :
    ∃ m', copyVarsCore src names ({} : Mgr) = (.ok (), m') ∧
      (∀ v : String, m'.tbl.vars[v]? = src.vars[v]?) ∧ (∀ i : Nat, m'.tbl.l2v[i]? = src.l2v[i]?) ∧
      Inv m' ∧ OrderOK m'.tbl ∧ m'.tbl.nvars = src.nvars ∧ m'.lastLen = none ∧ m'.ctx = false := by
  obtain ⟨m', h, hv, hl, _, _, _, _, _, h8, h9, _, ho, hn, _, hi, _⟩ :=
    C11_copy_vars src hO names hperm {} (VarsCompat.empty src)
  exact ⟨m', h, hv, hl, (hi Inv.init).1, ho, hn, h8, h9⟩

/-- non-vacuity: a source with two variables (built by two `add_var` steps from the empty
manager, hence `OrderOK`), visited in the reverse of the sorted order -/
example : ∃ (src : Tbl) (names : List String), OrderOK src ∧ names.Perm src.vars.keys ∧
    names = ["y", "x"] := by
  have h0 : OrderOK ({} : Mgr).tbl := OrderOK.empty
  have hx : ({} : Mgr).tbl.vars["x"]? = none := by decide
  obtain ⟨_, o1, _, _, _, _, _, _⟩ := addVar_new_spec {} Inv.init h0 "x" hx _ rfl
  have hy : (addVarState {} "x").tbl.vars["y"]? = none := by decide
  have i1 : Inv (addVarState {} "x") := (addVar_new_spec {} Inv.init h0 "x" hx _ rfl).1
  obtain ⟨_, o2, _⟩ := addVar_new_spec (addVarState {} "x") i1 o1 "y" hy _ rfl
  refine ⟨(addVarState (addVarState {} "x") "y").tbl, ["y", "x"], o2, ?_, rfl⟩
  have : (addVarState (addVarState {} "x") "y").tbl.vars.keys = ["x", "y"] := by decide
  rw [this]
  exact List.Perm.swap "x" "y" []

/-- non-vacuity with a NON-EMPTY compatible target: the target already declares `x` at level 0
and satisfies `Inv`; the source declares `x`, `y` -/
example : ∃ (src : Tbl) (m : Mgr), OrderOK src ∧ VarsCompat src m.tbl ∧ Inv m ∧
    m.tbl.vars["x"]? = some 0 ∧ src.vars["y"]? = some 1 := by
  have h0 : OrderOK ({} : Mgr).tbl := OrderOK.empty
  have hx : ({} : Mgr).tbl.vars["x"]? = none := by decide
  obtain ⟨i1, o1, _, _, _, _, _, _⟩ := addVar_new_spec {} Inv.init h0 "x" hx _ rfl
  have hy : (addVarState {} "x").tbl.vars["y"]? = none := by decide
  obtain ⟨_, o2, _, _, hmono, _⟩ := addVar_new_spec (addVarState {} "x") i1 o1 "y" hy _ rfl
  exact ⟨(addVarState (addVarState {} "x") "y").tbl, addVarState {} "x", o2,
    ⟨hmono, o1.inv⟩, i1, by decide, by decide⟩

end DD
